import H5V.Lemmas.HtmlTBSplitFlush
/-!
C03 lifted to the tree — layer 6: **processing a character token in two pieces** (`ptc_add`):
`process_to_completion` on `chars st (x ++ y)` ends, up to `Sim`, like `process_to_completion` on
`chars st x` followed by `process_to_completion` on `chars NotSplit y`.
-/
namespace H5V.Lemmas.TBSplit
open H5V.Model.Dom (Id QualName Attr NodeOrText SinkOp Output ElementFlags QuirksMode Dom)
open H5V.Model.HtmlTok (TagKind RawKind)
open H5V.Model.HtmlTB
open H5V.Lemmas.TBSplitDom

/-! ### `pop_front_char_run` -/

/-- "has whitespace class `w`" -/
def cw (w : Bool) (d : Char) : Bool := isAsciiWhitespace d == w

theorem pop_cons (c : Char) (z : Str) :
    popFrontCharRun (c :: z) = some ((c :: z).takeWhile (cw (isAsciiWhitespace c)), isAsciiWhitespace c,
      (c :: z).dropWhile (cw (isAsciiWhitespace c))) := rfl

theorem valid_cls_iff (w : Bool) (y : Str) : Valid (cls w) y ↔ ∀ c ∈ y, isAsciiWhitespace c = w := by
  cases w <;> exact Iff.rfl

theorem takeWhile_all {p : Char → Bool} {l : Str} (h : ∀ a ∈ l, p a = true) : l.takeWhile p = l := by
  have := List.takeWhile_append_of_pos (l₂ := []) h
  simpa using this

theorem dropWhile_all {p : Char → Bool} {l : Str} (h : ∀ a ∈ l, p a = true) : l.dropWhile p = [] := by
  have := List.dropWhile_append_of_pos (l₂ := []) h
  simpa using this

theorem pop_class {w : Bool} {y : Str} (hy : y ≠ []) (h : ∀ c ∈ y, isAsciiWhitespace c = w) :
    popFrontCharRun y = some (y, w, []) := by
  obtain ⟨c, z, rfl⟩ := List.exists_cons_of_ne_nil hy
  have hc : isAsciiWhitespace c = w := h c (List.mem_cons_self ..)
  have hall : ∀ a ∈ c :: z, cw w a = true := fun a ha => by simp [cw, h a ha]
  rw [pop_cons, hc, takeWhile_all hall, dropWhile_all hall]

/-- the run of `x ++ y` when the run of `x` ends inside `x` -/
theorem pop_append_inner {c : Char} {x' y : Str}
    (hR : (c :: x').dropWhile (cw (isAsciiWhitespace c)) ≠ []) :
    popFrontCharRun (c :: x' ++ y) = some ((c :: x').takeWhile (cw (isAsciiWhitespace c)), isAsciiWhitespace c,
      (c :: x').dropWhile (cw (isAsciiWhitespace c)) ++ y) := by
  show popFrontCharRun (c :: (x' ++ y)) = _
  rw [pop_cons]
  have e : c :: (x' ++ y) = (c :: x') ++ y := rfl
  rw [e, List.takeWhile_append, List.dropWhile_append]
  have hlen : ¬ ((c :: x').takeWhile (cw (isAsciiWhitespace c))).length = (c :: x').length := by
    intro hl
    have := List.takeWhile_append_dropWhile (p := cw (isAsciiWhitespace c)) (l := c :: x')
    have h2 := congrArg List.length this
    rw [List.length_append, hl] at h2
    have : ((c :: x').dropWhile (cw (isAsciiWhitespace c))).length = 0 := by omega
    exact hR (List.length_eq_zero_iff.mp this)
  have hemp : ((c :: x').dropWhile (cw (isAsciiWhitespace c))).isEmpty = false := by
    cases h : (c :: x').dropWhile (cw (isAsciiWhitespace c)) with
    | nil => exact (hR h).elim
    | cons a t => rfl
  rw [if_neg hlen, hemp]
  rfl

/-- the run of `x ++ y` when `x` is a single run -/
theorem pop_append_outer {c : Char} {x' y : Str}
    (hR : (c :: x').dropWhile (cw (isAsciiWhitespace c)) = []) :
    (∀ a ∈ c :: x', isAsciiWhitespace a = isAsciiWhitespace c) ∧
    popFrontCharRun (c :: x' ++ y) = some ((c :: x') ++ y.takeWhile (cw (isAsciiWhitespace c)), isAsciiWhitespace c,
      y.dropWhile (cw (isAsciiWhitespace c))) := by
  have hall : ∀ a ∈ c :: x', cw (isAsciiWhitespace c) a = true := by
    have := List.takeWhile_append_dropWhile (p := cw (isAsciiWhitespace c)) (l := c :: x')
    rw [hR, List.append_nil] at this
    intro a ha
    rw [← this] at ha
    exact H5V.Props.C06.mem_takeWhile_sat _ _ _ ha
  refine ⟨fun a ha => by simpa [cw] using hall a ha, ?_⟩
  show popFrontCharRun (c :: (x' ++ y)) = _
  rw [pop_cons]
  have e : c :: (x' ++ y) = (c :: x') ++ y := rfl
  rw [e, List.takeWhile_append_of_pos hall, List.dropWhile_append_of_pos hall]

/-! ### small relational helpers -/

/-- a `Resp` computation related to itself on a `Good` state -/
theorem relR_self {α : Type} {Q : α → Prop} {m : M α} (h : RespQ Q m) {s : State} (hg : Good s) :
    RelR (fun _ => True) (m s) (m s) := (respQ_resp h) s s hg.sim

/-- from a same-state relation to a relation across `Sim` states -/
theorem relR_lift {α : Type} {m1 m2 : M α} {s t : State} (h : RelR (fun _ => True) (m1 s) (m2 s))
    (h2 : Resp m2) (hst : Sim s t) : RelR (fun _ => True) (m1 s) (m2 t) :=
  h.trans (h2 s t hst)

theorem PTC_resp' (st : SplitStatus) {x : Str} (hx : x ≠ []) : Resp (PTC (.chars st x) []) :=
  PTC_resp ⟨st, x, rfl, hx⟩ (by simp)

theorem PTC2_resp (st st' : SplitStatus) {x y : Str} (hx : x ≠ []) (hy : y ≠ []) :
    Resp (PTC (.chars st x) [] >>= fun _ => PTC (.chars st' y) []) :=
  respQ_bind (P := fun _ => True) (PTC_resp' st hx) (fun _ _ => PTC_resp' st' hy)

/-! ### the second piece -/

/-- not in foreign content (for a character token) -/
def NFor (u : State) : Prop := ∃ tr, isForeignChars u = .ok (false, withTr u tr)

theorem NFor.transfer {s u : State} (h : NFor s) (hq : QSim (sf false s) (sf false u)) : NFor u := by
  obtain ⟨tr, htr⟩ := h
  exact answer_transfer (isForeign_f _) (isForeign_q _) htr hq

theorem Sim.qsimF {s u : State} (h : Sim s u) : QSim (sf false s) (sf false u) := qsim_foster h.qsim false

theorem NFor.of_htmlTop {u : State} (h : HtmlTop u) : NFor u := isForeign_htmlTop h

theorem HtmlTop.of_sim {s u : State} (h : HtmlTop s) (hs : Sim s u) : HtmlTop u := h.of_qsim hs.qsim

/-- a parse error changes nothing that `Sim` sees -/
theorem parseError_sim {w : State} (hg : Good w) (msg : String) :
    ∃ w', parseError msg w = .ok ((), w') ∧ Sim w w' := by
  have hres := parseError_resp msg w w hg.sim
  unfold parseError at hres ⊢
  rw [sinkUnit_apply] at hres ⊢
  have : w.dom.apply (.parseError msg.toList) = .ok (w.dom.parseError msg.toList, .unit) := rfl
  rw [this] at hres ⊢
  exact ⟨_, rfl, hres.2.2⟩

/-- `process_chars_in_table` when the current node is not a table part: parse error, foster parent -/
theorem tablePre_else {u w : State} (hg : Good w) (h : currentNodeIn tableOuterChars u = .ok (false, w)) :
    ∃ u', tablePre u = .ok (.body true, u') ∧ Sim w u' := by
  obtain ⟨w', hw, hs⟩ := parseError_sim hg "Unexpected characters in table"
  refine ⟨w', ?_, hs⟩
  unfold tablePre
  rw [bind_apply, h]
  simp only [Bool.false_eq_true, if_false]
  rw [bind_apply, hw]
  rfl

/-- the second piece in a mode that takes the token whole -/
theorem second_ns {u : State} (hg : Good u) {y : Str} (hy : y ≠ []) (hn : NFor u) {k : CKind}
    (hk : ∀ u', TrEq u u' → ∃ u'', charsPre u.mode .notSplit u' = .ok (k, u'') ∧ Sim u' u'')
    (hfin : finRes k .notSplit y = .done) :
    ∃ u1, Sim u u1 ∧ PTC (.chars .notSplit y) [] u = toCont (charsFin k .notSplit y u1) := by
  obtain ⟨tr, htr⟩ := hn
  obtain ⟨u'', hc, hs⟩ := hk (withTr u tr) ⟨tr, rfl⟩
  have hd : dPre .notSplit u = .ok (k, u'') := by rw [dPre_eval_false _ htr]; exact hc
  exact ⟨u'', (TrEq.sim ⟨tr, rfl⟩ hg).trans hs, PTC_term hg hy hd hfin⟩

/-- the second piece in a mode that splits: `y` is a single run of class `w` -/
theorem second_sp {u : State} (hg : Good u) {y : Str} (hy : y ≠ []) (hn : ∀ u', Sim u u' → NFor u') {k : CKind}
    {w : Bool} (hw : ∀ c ∈ y, isAsciiWhitespace c = w)
    (hsp : ∀ u', charsPre u.mode .notSplit u' = .ok (.split, u'))
    (hk : ∀ u', Sim u u' → ∃ u'', charsPre u.mode (cls w) u' = .ok (k, u'') ∧ Sim u' u'')
    (hfin : finRes k (cls w) y = .done) :
    ∃ u1, Sim u u1 ∧ PTC (.chars .notSplit y) [] u = toCont (charsFin k (cls w) y u1) := by
  obtain ⟨tr, htr⟩ := hn u hg.sim
  have hd : dPre .notSplit u = .ok (.split, withTr u tr) := by rw [dPre_eval_false _ htr]; exact hsp _
  have hsa : Sim u (withTr u tr) := TrEq.sim ⟨tr, rfl⟩ hg
  have hga : Good (withTr u tr) := good_withTr hg tr
  rw [PTC_split hg hy (by simp) hd]
  simp only [KInf, pop_class hy hw, List.length_nil, Nat.lt_irrefl, if_false]
  obtain ⟨tr2, htr2⟩ := hn _ hsa
  have hsb : Sim (withTr u tr) (withTr (withTr u tr) tr2) := TrEq.sim ⟨tr2, rfl⟩ hga
  obtain ⟨u'', hc, hs⟩ := hk (withTr (withTr u tr) tr2) (hsa.trans hsb)
  have hd2 : dPre (cls w) (withTr u tr) = .ok (k, u'') := by rw [dPre_eval_false _ htr2]; exact hc
  exact ⟨u'', (hsa.trans hsb).trans hs, PTC_term hga hy hd2 hfin⟩

/-! ### what the prelude did, for the kinds that are not `Reprocess` -/

theorem unexpected_sim {w : State} (hg : Good w) : ∃ w', unexpected w = .ok (.done, w') ∧ Sim w w' := by
  obtain ⟨w', h1, h2⟩ := parseError_sim hg "Unexpected token"
  refine ⟨w', ?_, h2⟩
  unfold unexpected
  rw [bind_apply, h1]
  rfl

/-- the table prelude answered "foster parent": the current node is not a table part -/
theorem tablePre_inv {sq s0 : State} (hg : Good sq) (h : tablePre sq = .ok (.body true, s0)) :
    (∃ tr, currentNodeIn tableOuterChars sq = .ok (false, withTr sq tr)) ∧ Sim sq s0 := by
  unfold tablePre at h
  obtain ⟨b, w, hb, h⟩ := bind_ok h
  obtain ⟨tr, rfl⟩ := (currentNodeIn_q tableOuterChars).trEq hb
  cases b with
  | true =>
    simp only [if_true] at h
    obtain ⟨st, w1, hgs, h⟩ := bind_ok h
    cases hgs
    split at h
    · obtain ⟨_, w2, h2, h⟩ := bind_ok h
      cases h2
    · obtain ⟨_, w2, _, h⟩ := bind_ok h
      cases h
  | false =>
    simp only [Bool.false_eq_true, if_false] at h
    obtain ⟨_, w1, h1, h⟩ := bind_ok h
    cases h
    obtain ⟨w', hw', hs⟩ := parseError_sim (good_withTr hg tr) "Unexpected characters in table"
    rw [hw'] at h1
    cases h1
    exact ⟨⟨tr, hb⟩, (TrEq.sim ⟨tr, rfl⟩ hg).trans hs⟩

theorem charsPre_sim {m : Mode} {st : SplitStatus} {k : CKind} {sq s0 : State} (hg : Good sq)
    (h : charsPre m st sq = .ok (k, s0)) (hk : ∀ m', k ≠ .re m') : Sim sq s0 := by
  have hk' := ((charsPre_kinds m st).post hg h).1
  cases m <;> cases st <;> simp only [kinds, List.mem_cons, List.not_mem_nil, or_false] at hk' <;>
    first
    | exact (hk _ hk').elim
    | (simp only [charsPre, pure_apply, Except.ok.injEq, Prod.mk.injEq] at h; rw [← h.2]; exact hg.sim)
    | (rcases hk' with hk' | hk'
       · exact (hk _ hk').elim
       · subst hk'
         simp only [charsPre] at h
         exact (tablePre_inv hg h).2)
    | (subst hk'
       simp only [charsPre] at h
       obtain ⟨_, w1, h1, h⟩ := bind_ok h
       cases h
       obtain ⟨w', hw', hs⟩ := unexpected_sim hg
       rw [hw'] at h1
       cases h1
       exact hs)
    | (rcases hk' with hk' | hk'
       · exact (hk _ hk').elim
       · subst hk'
         simp only [charsPre] at h
         obtain ⟨b, w, hb, h⟩ := bind_ok h
         obtain ⟨tr, rfl⟩ := (currentNodeNamed_q "colgroup").trEq hb
         cases b with
         | true =>
           simp only [if_true] at h
           obtain ⟨_, w1, _, h⟩ := bind_ok h
           cases h
         | false =>
           simp only [Bool.false_eq_true, if_false] at h
           obtain ⟨_, w1, h1, h⟩ := bind_ok h
           cases h
           obtain ⟨w', hw', hs⟩ := unexpected_sim (good_withTr hg tr)
           rw [hw'] at h1
           cases h1
           exact (TrEq.sim ⟨tr, rfl⟩ hg).trans hs)

/-! ### the modes, grouped by what they do with the *next* character token -/

/-- the text-consuming kinds reached from a non-foreign dispatch -/
def Terminal (k : CKind) : Prop := k = .fa ∨ k = .body false ∨ k = .body true ∨ k = .pend

theorem mode_group {m : Mode} {st : SplitStatus} {k : CKind} (hk : k ∈ kinds m st) (ht : Terminal k) :
    (∀ st', charsPre m st' = pure k) ∨
    (∃ w, st = cls w ∧ charsPre m .notSplit = pure .split ∧ charsPre m (cls w) = pure k) ∨
    (k = .body true ∧ ∀ st', charsPre m st' = tablePre) := by
  unfold Terminal at ht
  cases m <;> cases st <;> simp only [kinds, List.mem_cons, List.not_mem_nil, or_false] at hk <;>
    first
    | (subst hk; simp at ht; done)
    | (subst hk; refine Or.inl ?_; intro st'; cases st' <;> rfl)
    | (subst hk; exact Or.inr (Or.inl ⟨true, rfl, rfl, rfl⟩))
    | (rcases hk with hk | hk <;> subst hk <;>
        first
        | (simp at ht; done)
        | (refine Or.inr (Or.inr ⟨rfl, ?_⟩); intro st'; cases st' <;> rfl))

theorem mode_group_drop {m : Mode} {st : SplitStatus} {k : CKind} (hk : k ∈ kinds m st) (hd : k = .drop) :
    ∃ w, st = cls w ∧ charsPre m .notSplit = pure .split := by
  cases m <;> cases st <;> simp only [kinds, List.mem_cons, List.not_mem_nil, or_false] at hk <;>
    first
    | (subst hk; simp at hd; done)
    | exact ⟨true, rfl, rfl⟩
    | exact ⟨false, rfl, rfl⟩
    | (rcases hk with hk | hk <;> subst hk <;>
        first
        | (simp at hd; done)
        | exact ⟨false, rfl, rfl⟩)

/-! ### pending table text -/

theorem cns_single (st : SplitStatus) (z : Str) :
    cns [(st, z)] = (match st with | .whitespace => false | .notWhitespace => true | .notSplit => anyNotWhitespace z) := by
  cases st <;> simp [cns]

theorem pend_two {st st' : SplitStatus} {x y : Str} (hx : x ≠ []) (hy : y ≠ []) (hv : Valid st (x ++ y))
    (hst' : st' = .notSplit ∨ st' = st) : PendRel [(st, x ++ y)] [(st, x), (st', y)] := by
  refine ⟨by simp, ?_, ?_, ?_⟩
  · have h2 : cns [(st, x), (st', y)] = (cns [(st, x)] || cns [(st', y)]) := cns_append [(st, x)] [(st', y)]
    rw [h2, cns_single, cns_single, cns_single]
    cases st with
    | notSplit =>
      rcases hst' with rfl | rfl <;> simp [anyNotWhitespace_append]
    | whitespace =>
      have hy' : anyNotWhitespace y = false := anyNotWhitespace_false_of hv.right
      rcases hst' with rfl | rfl <;> simp [hy']
    | notWhitespace => simp
  · intro p hp; simp at hp; subst hp; simp [hx]
  · intro p hp
    simp at hp
    rcases hp with rfl | rfl
    · exact hx
    · exact hy

theorem pend_apply (st : SplitStatus) (z : Str) (s : State) :
    charsFin .pend st z s = .ok (.done, { s with pendingTableText := s.pendingTableText ++ [(st, z)] }) := rfl

/-! ### putting a terminal dispatch together -/

theorem toCont_rel {Q : ProcessResult → Prop} {a b : Except String (ProcessResult × State)} (h : RelR Q a b) :
    RelR (fun _ => True) (toCont a) (toCont b) := by
  cases a with
  | error e => cases b with
    | error e' => trivial
    | ok q => exact h.elim
  | ok p => cases b with
    | error e' => exact h.elim
    | ok q =>
      obtain ⟨r, s⟩ := p; obtain ⟨r', t⟩ := q
      exact ⟨rfl, trivial, h.2.2⟩

/-- the statement of the main lemma at one state -/
def AddAt (s : State) (st : SplitStatus) (x y : Str) : Prop :=
  RelR (fun _ => True) (PTC (.chars st (x ++ y)) [] s)
    ((PTC (.chars st x) [] >>= fun _ => PTC (.chars .notSplit y) []) s)

theorem term_finish {k : CKind} {st : SplitStatus} {x y : Str} {s s0 : State} (hg : Good s) (hx : x ≠ [])
    (hxy : x ++ y ≠ []) (hd : dPre st s = .ok (k, s0)) (hfin : ∀ st' z, finRes k st' z = .done)
    (hadd : (∀ e, charsFin k st x s0 = .error e → ∃ e', charsFin k st (x ++ y) s0 = .error e') ∧
      (∀ r s1, charsFin k st x s0 = .ok (r, s1) → r = .done ∧ Good s1 ∧ ∀ u st', Sim s1 u →
        (st' = .notSplit ∨ st' = st) → RelR (· = .done) (charsFin k st (x ++ y) s0) (charsFin k st' y u)))
    (hsec : ∀ s1, charsFin k st x s0 = .ok (.done, s1) → ∃ u1 st', Sim s1 u1 ∧ (st' = .notSplit ∨ st' = st) ∧
      PTC (.chars .notSplit y) [] s1 = toCont (charsFin k st' y u1)) :
    AddAt s st x y := by
  unfold AddAt
  rw [PTC_term hg hxy hd (hfin _ _), bind_apply, PTC_term hg hx hd (hfin _ _)]
  cases h1 : charsFin k st x s0 with
  | error e =>
    obtain ⟨e', he'⟩ := hadd.1 e h1
    rw [he']; trivial
  | ok v =>
    obtain ⟨r, s1⟩ := v
    obtain ⟨hr, hg1, hu⟩ := hadd.2 r s1 h1
    subst hr
    simp only [toCont]
    obtain ⟨u1, st', hs, hst', hp⟩ := hsec s1 h1
    rw [hp]
    exact toCont_rel (hu u1 st' hs hst')

/-! ### the terminal cases -/

theorem charsFin_mode {k : CKind} {st : SplitStatus} {z : Str} {s0 s1 : State} {r : ProcessResult}
    (h : charsFin k st z s0 = .ok (r, s1)) : s1.mode = s0.mode := by
  have key : fr s1 = fr s0 ∨ fr s1 = fr { s0 with fosterParenting := false } := by
    cases k with
    | split => cases h; exact Or.inl rfl
    | drop => cases h; exact Or.inl rfl
    | re m => cases h; exact Or.inl rfl
    | fa => exact Or.inl (appendText_keeps z _ _ _ h)
    | ffa =>
      exact Or.inl (keeps_bind (fOk_keeps z) (fun _ => appendText_keeps z) _ _ _ h)
    | body f =>
      cases f
      · exact Or.inl (stepInBody_chars_keeps st z _ _ _ h)
      · exact Or.inr (fosterParentInBody_chars_fr st z h)
    | pend => cases h; exact Or.inl rfl
  rcases key with key | key <;> (simp only [fr, Prod.mk.injEq] at key; exact key.2.2.2.2.2.2.2.2)

theorem finRes_terminal {k : CKind} (h : Terminal k ∨ k = .ffa ∨ k = .drop) (st : SplitStatus) (z : Str) :
    finRes k st z = .done := by
  rcases h with (h | h | h | h) | h | h <;> (subst h; rfl)

/-- the additivity of the four non-foreign terminal kinds, in the shape `term_finish` wants -/
theorem terminal_add {k : CKind} (hk : Terminal k) {st : SplitStatus} {x y : Str} (hx : x ≠ []) (hy : y ≠ [])
    (hv : Valid st (x ++ y)) {s0 : State} (hg0 : Good s0) :
    (∀ e, charsFin k st x s0 = .error e → ∃ e', charsFin k st (x ++ y) s0 = .error e') ∧
    (∀ r s1, charsFin k st x s0 = .ok (r, s1) → r = .done ∧ Good s1 ∧
      ((k = .fa ∨ k = .pend) → QSim s0 s1) ∧ ((k = .body false ∨ k = .body true) → AfterBody s0 s1) ∧
      ∀ u st', Sim s1 u → (st' = .notSplit ∨ st' = st) →
        RelR (· = .done) (charsFin k st (x ++ y) s0) (charsFin k st' y u)) := by
  rcases hk with rfl | rfl | rfl | rfl
  · -- append
    obtain ⟨h1, h2⟩ := fa_add_sim false (x := x) (y := y) hg0
    simp only [FA_false_eq] at h1 h2
    refine ⟨h1, ?_⟩
    intro r s1 hs1
    obtain ⟨hr, hg1, hu⟩ := h2 r s1 hs1
    exact ⟨hr, hg1, fun _ => (appendText_textStep hs1).qsim, fun h => by rcases h with h | h <;> cases h,
      fun u st' hsu _ => hu u hsu⟩
  · -- in body
    obtain ⟨h1, h2⟩ := body_add_sim (x := x) (y := y) hg0 st
    refine ⟨h1, ?_⟩
    intro r s1 hs1
    obtain ⟨hr, hg1, hab, hu⟩ := h2 r s1 hs1
    exact ⟨hr, hg1, fun h => by rcases h with h | h <;> cases h, fun _ => hab, fun u st' hsu _ => hu u st' hsu⟩
  · -- in body, foster parented
    obtain ⟨h1, h2⟩ := fbody_add_sim (x := x) (y := y) hg0 st
    refine ⟨h1, ?_⟩
    intro r s1 hs1
    obtain ⟨hr, hg1, hab, hu⟩ := h2 r s1 hs1
    exact ⟨hr, hg1, fun h => by rcases h with h | h <;> cases h, fun _ => hab, fun u st' hsu _ => hu u st' hsu⟩
  · -- pending table text
    refine ⟨fun e he => by rw [pend_apply] at he; cases he, ?_⟩
    intro r s1 hs1
    rw [pend_apply] at hs1
    simp only [Except.ok.injEq, Prod.mk.injEq] at hs1
    obtain ⟨rfl, rfl⟩ := hs1
    have hg1 : Good { s0 with pendingTableText := s0.pendingTableText ++ [(st, x)] } :=
      ⟨hg0.af, by
        intro p hp
        rcases List.mem_append.mp hp with hp | hp
        · exact hg0.pend p hp
        · simp at hp; subst hp; exact hx⟩
    refine ⟨rfl, hg1, fun _ => ⟨s0.mode, s0.origMode, _, s0.framesetOk, s0.ignoreLf, s0.currentLine, s0.traceRev,
      s0.dom, rfl, DQ.refl _⟩, fun h => by rcases h with h | h <;> cases h, ?_⟩
    intro u st' hsu hst'
    rw [pend_apply, pend_apply]
    refine ⟨rfl, rfl, ?_⟩
    obtain ⟨hi, tr, cl, er, pt, rfl, hp⟩ := hsu
    refine ⟨hi, tr, cl, er, pt ++ [(st', y)], rfl, ?_⟩
    -- `p0 ++ [(st, x ++ y)]` against `pt ++ [(st', y)]` where `p0 ++ [(st, x)]` is related to `pt`
    have h1 : PendRel (s0.pendingTableText ++ [(st, x ++ y)]) (s0.pendingTableText ++ [(st, x), (st', y)]) :=
      (PendRel.rfl' hg0.pend).append (pend_two hx hy hv hst')
    have h2 : PendRel ((s0.pendingTableText ++ [(st, x)]) ++ [(st', y)]) (pt ++ [(st', y)]) :=
      hp.append (PendRel.rfl' (by intro p hp; simp at hp; subst hp; exact hy))
    have e : s0.pendingTableText ++ [(st, x), (st', y)] = (s0.pendingTableText ++ [(st, x)]) ++ [(st', y)] := by simp
    rw [e] at h1
    exact h1.trans h2

end H5V.Lemmas.TBSplit
