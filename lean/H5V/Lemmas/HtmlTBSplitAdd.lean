import H5V.Lemmas.HtmlTBSplitFlush
/-!
C03 lifted to the tree — layer 6: **processing a character token in two pieces** (`ptc_add`):
`process_to_completion` on `chars st (x ++ y)` ends, up to `Sim`, like `process_to_completion` on
`chars st x` followed by `process_to_completion` on `chars NotSplit y`.
-/
namespace H5V.Lemmas.TBSplit
open H5V.Model.Dom (Id QualName Attr NodeOrText SinkOp Output ElementFlags QuirksMode Dom)
open H5V.Model.HtmlTok (TagKind RawKind)
open H5V.Model.HtmlTB
open H5V.Lemmas.TBSplitDom

/-! ### `pop_front_char_run` -/

/-- "has whitespace class `w`" -/
def cw (w : Bool) (d : Char) : Bool := isAsciiWhitespace d == w

theorem pop_cons (c : Char) (z : Str) :
    popFrontCharRun (c :: z) = some ((c :: z).takeWhile (cw (isAsciiWhitespace c)), isAsciiWhitespace c,
      (c :: z).dropWhile (cw (isAsciiWhitespace c))) := rfl

theorem valid_cls_iff (w : Bool) (y : Str) : Valid (cls w) y ↔ ∀ c ∈ y, isAsciiWhitespace c = w := by
  cases w <;> exact Iff.rfl

theorem takeWhile_all {p : Char → Bool} {l : Str} (h : ∀ a ∈ l, p a = true) : l.takeWhile p = l := by
  have := List.takeWhile_append_of_pos (l₂ := []) h
  simpa using this

theorem dropWhile_all {p : Char → Bool} {l : Str} (h : ∀ a ∈ l, p a = true) : l.dropWhile p = [] := by
  have := List.dropWhile_append_of_pos (l₂ := []) h
  simpa using this

theorem pop_class {w : Bool} {y : Str} (hy : y ≠ []) (h : ∀ c ∈ y, isAsciiWhitespace c = w) :
    popFrontCharRun y = some (y, w, []) := by
  obtain ⟨c, z, rfl⟩ := List.exists_cons_of_ne_nil hy
  have hc : isAsciiWhitespace c = w := h c (List.mem_cons_self ..)
  have hall : ∀ a ∈ c :: z, cw w a = true := fun a ha => by simp [cw, h a ha]
  rw [pop_cons, hc, takeWhile_all hall, dropWhile_all hall]

/-- the run of `x ++ y` when the run of `x` ends inside `x` -/
theorem pop_append_inner {c : Char} {x' y : Str}
    (hR : (c :: x').dropWhile (cw (isAsciiWhitespace c)) ≠ []) :
    popFrontCharRun (c :: x' ++ y) = some ((c :: x').takeWhile (cw (isAsciiWhitespace c)), isAsciiWhitespace c,
      (c :: x').dropWhile (cw (isAsciiWhitespace c)) ++ y) := by
  show popFrontCharRun (c :: (x' ++ y)) = _
  rw [pop_cons]
  have e : c :: (x' ++ y) = (c :: x') ++ y := rfl
  rw [e, List.takeWhile_append, List.dropWhile_append]
  have hlen : ¬ ((c :: x').takeWhile (cw (isAsciiWhitespace c))).length = (c :: x').length := by
    intro hl
    have := List.takeWhile_append_dropWhile (p := cw (isAsciiWhitespace c)) (l := c :: x')
    have h2 := congrArg List.length this
    rw [List.length_append, hl] at h2
    have : ((c :: x').dropWhile (cw (isAsciiWhitespace c))).length = 0 := by omega
    exact hR (List.length_eq_zero_iff.mp this)
  have hemp : ((c :: x').dropWhile (cw (isAsciiWhitespace c))).isEmpty = false := by
    cases h : (c :: x').dropWhile (cw (isAsciiWhitespace c)) with
    | nil => exact (hR h).elim
    | cons a t => rfl
  rw [if_neg hlen, hemp]
  rfl

/-- the run of `x ++ y` when `x` is a single run -/
theorem pop_append_outer {c : Char} {x' y : Str}
    (hR : (c :: x').dropWhile (cw (isAsciiWhitespace c)) = []) :
    (∀ a ∈ c :: x', isAsciiWhitespace a = isAsciiWhitespace c) ∧
    popFrontCharRun (c :: x' ++ y) = some ((c :: x') ++ y.takeWhile (cw (isAsciiWhitespace c)), isAsciiWhitespace c,
      y.dropWhile (cw (isAsciiWhitespace c))) := by
  have hall : ∀ a ∈ c :: x', cw (isAsciiWhitespace c) a = true := by
    have := List.takeWhile_append_dropWhile (p := cw (isAsciiWhitespace c)) (l := c :: x')
    rw [hR, List.append_nil] at this
    intro a ha
    rw [← this] at ha
    exact H5V.Props.C06.mem_takeWhile_sat _ _ _ ha
  refine ⟨fun a ha => by simpa [cw] using hall a ha, ?_⟩
  show popFrontCharRun (c :: (x' ++ y)) = _
  rw [pop_cons]
  have e : c :: (x' ++ y) = (c :: x') ++ y := rfl
  rw [e, List.takeWhile_append_of_pos hall, List.dropWhile_append_of_pos hall]

/-! ### small relational helpers -/

/-- a `Resp` computation related to itself on a `Good` state -/
theorem relR_self {α : Type} {Q : α → Prop} {m : M α} (h : RespQ Q m) {s : State} (hg : Good s) :
    RelR (fun _ => True) (m s) (m s) := (respQ_resp h) s s hg.sim

/-- from a same-state relation to a relation across `Sim` states -/
theorem relR_lift {α : Type} {m1 m2 : M α} {s t : State} (h : RelR (fun _ => True) (m1 s) (m2 s))
    (h2 : Resp m2) (hst : Sim s t) : RelR (fun _ => True) (m1 s) (m2 t) :=
  h.trans (h2 s t hst)

theorem PTC_resp' (st : SplitStatus) {x : Str} (hx : x ≠ []) : Resp (PTC (.chars st x) []) :=
  PTC_resp ⟨st, x, rfl, hx⟩ (by simp)

theorem PTC2_resp (st st' : SplitStatus) {x y : Str} (hx : x ≠ []) (hy : y ≠ []) :
    Resp (PTC (.chars st x) [] >>= fun _ => PTC (.chars st' y) []) :=
  respQ_bind (P := fun _ => True) (PTC_resp' st hx) (fun _ _ => PTC_resp' st' hy)

/-! ### the second piece -/

/-- not in foreign content (for a character token) -/
def NFor (u : State) : Prop := ∃ tr, isForeignChars u = .ok (false, withTr u tr)

theorem NFor.transfer {s u : State} (h : NFor s) (hq : QSim (sf false s) (sf false u)) : NFor u := by
  obtain ⟨tr, htr⟩ := h
  exact answer_transfer (isForeign_f _) (isForeign_q _) htr hq

theorem Sim.qsimF {s u : State} (h : Sim s u) : QSim (sf false s) (sf false u) := qsim_foster h.qsim false

theorem NFor.of_htmlTop {u : State} (h : HtmlTop u) : NFor u := isForeign_htmlTop h

theorem HtmlTop.of_sim {s u : State} (h : HtmlTop s) (hs : Sim s u) : HtmlTop u := h.of_qsim hs.qsim

/-- a parse error changes nothing that `Sim` sees -/
theorem parseError_sim {w : State} (hg : Good w) (msg : String) :
    ∃ w', parseError msg w = .ok ((), w') ∧ Sim w w' := by
  have hres := parseError_resp msg w w hg.sim
  unfold parseError at hres ⊢
  rw [sinkUnit_apply] at hres ⊢
  have : w.dom.apply (.parseError msg.toList) = .ok (w.dom.parseError msg.toList, .unit) := rfl
  rw [this] at hres ⊢
  exact ⟨_, rfl, hres.2.2⟩

/-- `process_chars_in_table` when the current node is not a table part: parse error, foster parent -/
theorem tablePre_else {u w : State} (hg : Good w) (h : currentNodeIn tableOuterChars u = .ok (false, w)) :
    ∃ u', tablePre u = .ok (.body true, u') ∧ Sim w u' := by
  obtain ⟨w', hw, hs⟩ := parseError_sim hg "Unexpected characters in table"
  refine ⟨w', ?_, hs⟩
  unfold tablePre
  rw [bind_apply, h]
  simp only [Bool.false_eq_true, if_false]
  rw [bind_apply, hw]
  rfl

/-- the second piece in a mode that takes the token whole -/
theorem second_ns {u : State} (hg : Good u) {y : Str} (hy : y ≠ []) (hn : NFor u) {k : CKind}
    (hk : ∀ u', TrEq u u' → ∃ u'', charsPre u.mode .notSplit u' = .ok (k, u'') ∧ Sim u' u'')
    (hfin : finRes k .notSplit y = .done) :
    ∃ u1, Sim u u1 ∧ PTC (.chars .notSplit y) [] u = toCont (charsFin k .notSplit y u1) := by
  obtain ⟨tr, htr⟩ := hn
  obtain ⟨u'', hc, hs⟩ := hk (withTr u tr) ⟨tr, rfl⟩
  have hd : dPre .notSplit u = .ok (k, u'') := by rw [dPre_eval_false _ htr]; exact hc
  exact ⟨u'', (TrEq.sim ⟨tr, rfl⟩ hg).trans hs, PTC_term hg hy hd hfin⟩

/-- the second piece in a mode that splits: `y` is a single run of class `w` -/
theorem second_sp {u : State} (hg : Good u) {y : Str} (hy : y ≠ []) (hn : ∀ u', Sim u u' → NFor u') {k : CKind}
    {w : Bool} (hw : ∀ c ∈ y, isAsciiWhitespace c = w)
    (hsp : ∀ u', charsPre u.mode .notSplit u' = .ok (.split, u'))
    (hk : ∀ u', Sim u u' → ∃ u'', charsPre u.mode (cls w) u' = .ok (k, u'') ∧ Sim u' u'')
    (hfin : finRes k (cls w) y = .done) :
    ∃ u1, Sim u u1 ∧ PTC (.chars .notSplit y) [] u = toCont (charsFin k (cls w) y u1) := by
  obtain ⟨tr, htr⟩ := hn u hg.sim
  have hd : dPre .notSplit u = .ok (.split, withTr u tr) := by rw [dPre_eval_false _ htr]; exact hsp _
  have hsa : Sim u (withTr u tr) := TrEq.sim ⟨tr, rfl⟩ hg
  have hga : Good (withTr u tr) := good_withTr hg tr
  rw [PTC_split hg hy (by simp) hd]
  simp only [KInf, pop_class hy hw, List.length_nil, Nat.lt_irrefl, if_false]
  obtain ⟨tr2, htr2⟩ := hn _ hsa
  have hsb : Sim (withTr u tr) (withTr (withTr u tr) tr2) := TrEq.sim ⟨tr2, rfl⟩ hga
  obtain ⟨u'', hc, hs⟩ := hk (withTr (withTr u tr) tr2) (hsa.trans hsb)
  have hd2 : dPre (cls w) (withTr u tr) = .ok (k, u'') := by rw [dPre_eval_false _ htr2]; exact hc
  exact ⟨u'', (hsa.trans hsb).trans hs, PTC_term hga hy hd2 hfin⟩

/-! ### what the prelude did, for the kinds that are not `Reprocess` -/

theorem unexpected_sim {w : State} (hg : Good w) : ∃ w', unexpected w = .ok (.done, w') ∧ Sim w w' := by
  obtain ⟨w', h1, h2⟩ := parseError_sim hg "Unexpected token"
  refine ⟨w', ?_, h2⟩
  unfold unexpected
  rw [bind_apply, h1]
  rfl

/-- the table prelude answered "foster parent": the current node is not a table part -/
theorem tablePre_inv {sq s0 : State} (hg : Good sq) (h : tablePre sq = .ok (.body true, s0)) :
    (∃ tr, currentNodeIn tableOuterChars sq = .ok (false, withTr sq tr)) ∧ Sim sq s0 := by
  unfold tablePre at h
  obtain ⟨b, w, hb, h⟩ := bind_ok h
  obtain ⟨tr, rfl⟩ := (currentNodeIn_q tableOuterChars).trEq hb
  cases b with
  | true =>
    simp only [if_true] at h
    obtain ⟨st, w1, hgs, h⟩ := bind_ok h
    cases hgs
    split at h
    · obtain ⟨_, w2, h2, h⟩ := bind_ok h
      cases h2
    · obtain ⟨_, w2, _, h⟩ := bind_ok h
      cases h
  | false =>
    simp only [Bool.false_eq_true, if_false] at h
    obtain ⟨_, w1, h1, h⟩ := bind_ok h
    cases h
    obtain ⟨w', hw', hs⟩ := parseError_sim (good_withTr hg tr) "Unexpected characters in table"
    rw [hw'] at h1
    cases h1
    exact ⟨⟨tr, hb⟩, (TrEq.sim ⟨tr, rfl⟩ hg).trans hs⟩

theorem charsPre_sim {m : Mode} {st : SplitStatus} {k : CKind} {sq s0 : State} (hg : Good sq)
    (h : charsPre m st sq = .ok (k, s0)) (hk : ∀ m', k ≠ .re m') : Sim sq s0 := by
  have hk' := ((charsPre_kinds m st).post hg h).1
  cases m <;> cases st <;> simp only [kinds, List.mem_cons, List.not_mem_nil, or_false] at hk' <;>
    first
    | exact (hk _ hk').elim
    | (simp only [charsPre, pure_apply, Except.ok.injEq, Prod.mk.injEq] at h; rw [← h.2]; exact hg.sim)
    | (rcases hk' with hk' | hk'
       · exact (hk _ hk').elim
       · subst hk'
         simp only [charsPre] at h
         exact (tablePre_inv hg h).2)
    | (subst hk'
       simp only [charsPre] at h
       obtain ⟨_, w1, h1, h⟩ := bind_ok h
       cases h
       obtain ⟨w', hw', hs⟩ := unexpected_sim hg
       rw [hw'] at h1
       cases h1
       exact hs)
    | (rcases hk' with hk' | hk'
       · exact (hk _ hk').elim
       · subst hk'
         simp only [charsPre] at h
         obtain ⟨b, w, hb, h⟩ := bind_ok h
         obtain ⟨tr, rfl⟩ := (currentNodeNamed_q "colgroup").trEq hb
         cases b with
         | true =>
           simp only [if_true] at h
           obtain ⟨_, w1, _, h⟩ := bind_ok h
           cases h
         | false =>
           simp only [Bool.false_eq_true, if_false] at h
           obtain ⟨_, w1, h1, h⟩ := bind_ok h
           cases h
           obtain ⟨w', hw', hs⟩ := unexpected_sim (good_withTr hg tr)
           rw [hw'] at h1
           cases h1
           exact (TrEq.sim ⟨tr, rfl⟩ hg).trans hs)

/-! ### the modes, grouped by what they do with the *next* character token -/

/-- the text-consuming kinds reached from a non-foreign dispatch -/
def Terminal (k : CKind) : Prop := k = .fa ∨ k = .body false ∨ k = .body true ∨ k = .pend

theorem mode_group {m : Mode} {st : SplitStatus} {k : CKind} (hk : k ∈ kinds m st) (ht : Terminal k) :
    (∀ st', charsPre m st' = pure k) ∨
    (∃ w, st = cls w ∧ charsPre m .notSplit = pure .split ∧ charsPre m (cls w) = pure k) ∨
    (k = .body true ∧ ∀ st', charsPre m st' = tablePre) := by
  unfold Terminal at ht
  cases m <;> cases st <;> simp only [kinds, List.mem_cons, List.not_mem_nil, or_false] at hk <;>
    first
    | (subst hk; simp at ht; done)
    | (subst hk; refine Or.inl ?_; intro st'; cases st' <;> rfl)
    | (subst hk; exact Or.inr (Or.inl ⟨true, rfl, rfl, rfl⟩))
    | (rcases hk with hk | hk <;> subst hk <;>
        first
        | (simp at ht; done)
        | (refine Or.inr (Or.inr ⟨rfl, ?_⟩); intro st'; cases st' <;> rfl))

theorem mode_group_drop {m : Mode} {st : SplitStatus} {k : CKind} (hk : k ∈ kinds m st) (hd : k = .drop) :
    ∃ w, st = cls w ∧ charsPre m .notSplit = pure .split := by
  cases m <;> cases st <;> simp only [kinds, List.mem_cons, List.not_mem_nil, or_false] at hk <;>
    first
    | (subst hk; simp at hd; done)
    | exact ⟨true, rfl, rfl⟩
    | exact ⟨false, rfl, rfl⟩
    | (rcases hk with hk | hk <;> subst hk <;>
        first
        | (simp at hd; done)
        | exact ⟨false, rfl, rfl⟩)

/-! ### pending table text -/

theorem cns_single (st : SplitStatus) (z : Str) :
    cns [(st, z)] = (match st with | .whitespace => false | .notWhitespace => true | .notSplit => anyNotWhitespace z) := by
  cases st <;> simp [cns]

theorem pend_two {st st' : SplitStatus} {x y : Str} (hx : x ≠ []) (hy : y ≠ []) (hv : Valid st (x ++ y))
    (hst' : st' = .notSplit ∨ st' = st) : PendRel [(st, x ++ y)] [(st, x), (st', y)] := by
  refine ⟨by simp, ?_, ?_, ?_⟩
  · have h2 : cns [(st, x), (st', y)] = (cns [(st, x)] || cns [(st', y)]) := cns_append [(st, x)] [(st', y)]
    rw [h2, cns_single, cns_single, cns_single]
    cases st with
    | notSplit =>
      rcases hst' with rfl | rfl <;> simp [anyNotWhitespace_append]
    | whitespace =>
      have hy' : anyNotWhitespace y = false := anyNotWhitespace_false_of hv.right
      rcases hst' with rfl | rfl <;> simp [hy']
    | notWhitespace => simp
  · intro p hp; simp at hp; subst hp; simp [hx]
  · intro p hp
    simp at hp
    rcases hp with rfl | rfl
    · exact hx
    · exact hy

theorem pend_apply (st : SplitStatus) (z : Str) (s : State) :
    charsFin .pend st z s = .ok (.done, { s with pendingTableText := s.pendingTableText ++ [(st, z)] }) := rfl

/-! ### putting a terminal dispatch together -/

theorem toCont_rel {Q : ProcessResult → Prop} {a b : Except String (ProcessResult × State)} (h : RelR Q a b) :
    RelR (fun _ => True) (toCont a) (toCont b) := by
  cases a with
  | error e => cases b with
    | error e' => trivial
    | ok q => exact h.elim
  | ok p => cases b with
    | error e' => exact h.elim
    | ok q =>
      obtain ⟨r, s⟩ := p; obtain ⟨r', t⟩ := q
      exact ⟨rfl, trivial, h.2.2⟩

/-- the statement of the main lemma at one state -/
def AddAt (s : State) (st : SplitStatus) (x y : Str) : Prop :=
  RelR (fun _ => True) (PTC (.chars st (x ++ y)) [] s)
    ((PTC (.chars st x) [] >>= fun _ => PTC (.chars .notSplit y) []) s)

theorem term_finish {k : CKind} {st : SplitStatus} {x y : Str} {s s0 : State} (hg : Good s) (hx : x ≠ [])
    (hxy : x ++ y ≠ []) (hd : dPre st s = .ok (k, s0)) (hfin : ∀ st' z, finRes k st' z = .done)
    (hadd : (∀ e, charsFin k st x s0 = .error e → ∃ e', charsFin k st (x ++ y) s0 = .error e') ∧
      (∀ r s1, charsFin k st x s0 = .ok (r, s1) → r = .done ∧ Good s1 ∧ ∀ u st', Sim s1 u →
        (st' = .notSplit ∨ st' = st) → RelR (· = .done) (charsFin k st (x ++ y) s0) (charsFin k st' y u)))
    (hsec : ∀ s1, charsFin k st x s0 = .ok (.done, s1) → ∃ u1 st', Sim s1 u1 ∧ (st' = .notSplit ∨ st' = st) ∧
      PTC (.chars .notSplit y) [] s1 = toCont (charsFin k st' y u1)) :
    AddAt s st x y := by
  unfold AddAt
  rw [PTC_term hg hxy hd (hfin _ _), bind_apply, PTC_term hg hx hd (hfin _ _)]
  cases h1 : charsFin k st x s0 with
  | error e =>
    obtain ⟨e', he'⟩ := hadd.1 e h1
    rw [he']; trivial
  | ok v =>
    obtain ⟨r, s1⟩ := v
    obtain ⟨hr, hg1, hu⟩ := hadd.2 r s1 h1
    subst hr
    simp only [toCont]
    obtain ⟨u1, st', hs, hst', hp⟩ := hsec s1 h1
    rw [hp]
    exact toCont_rel (hu u1 st' hs hst')

/-! ### the terminal cases -/

theorem charsFin_mode {k : CKind} {st : SplitStatus} {z : Str} {s0 s1 : State} {r : ProcessResult}
    (h : charsFin k st z s0 = .ok (r, s1)) : s1.mode = s0.mode := by
  have key : fr s1 = fr s0 ∨ fr s1 = fr { s0 with fosterParenting := false } := by
    cases k with
    | split => cases h; exact Or.inl rfl
    | drop => cases h; exact Or.inl rfl
    | re m => cases h; exact Or.inl rfl
    | fa => exact Or.inl (appendText_keeps z _ _ _ h)
    | ffa =>
      exact Or.inl (keeps_bind (fOk_keeps z) (fun _ => appendText_keeps z) _ _ _ h)
    | body f =>
      cases f
      · exact Or.inl (stepInBody_chars_keeps st z _ _ _ h)
      · exact Or.inr (fosterParentInBody_chars_fr st z h)
    | pend => cases h; exact Or.inl rfl
  rcases key with key | key <;> (simp only [fr, Prod.mk.injEq] at key; exact key.2.2.2.2.2.2.2.2)

theorem finRes_terminal {k : CKind} (h : Terminal k ∨ k = .ffa ∨ k = .drop) (st : SplitStatus) (z : Str) :
    finRes k st z = .done := by
  rcases h with (h | h | h | h) | h | h <;> (subst h; rfl)

/-- the additivity of the four non-foreign terminal kinds, in the shape `term_finish` wants -/
theorem terminal_add {k : CKind} (hk : Terminal k) {st : SplitStatus} {x y : Str} (hx : x ≠ []) (hy : y ≠ [])
    (hv : Valid st (x ++ y)) {s0 : State} (hg0 : Good s0) :
    (∀ e, charsFin k st x s0 = .error e → ∃ e', charsFin k st (x ++ y) s0 = .error e') ∧
    (∀ r s1, charsFin k st x s0 = .ok (r, s1) → r = .done ∧ Good s1 ∧
      ((k = .fa ∨ k = .pend) → QSim s0 s1) ∧ ((k = .body false ∨ k = .body true) → AfterBody s0 s1) ∧
      ∀ u st', Sim s1 u → (st' = .notSplit ∨ st' = st) →
        RelR (· = .done) (charsFin k st (x ++ y) s0) (charsFin k st' y u)) := by
  rcases hk with rfl | rfl | rfl | rfl
  · -- append
    obtain ⟨h1, h2⟩ := fa_add_sim false (x := x) (y := y) hg0
    simp only [FA_false_eq] at h1 h2
    refine ⟨h1, ?_⟩
    intro r s1 hs1
    obtain ⟨hr, hg1, hu⟩ := h2 r s1 hs1
    exact ⟨hr, hg1, (fun _ => (appendText_textStep hs1).qsim), (fun h => by rcases h with h | h <;> cases h),
      (fun u st' hsu _ => hu u hsu)⟩
  · -- in body
    obtain ⟨h1, h2⟩ := body_add_sim (x := x) (y := y) hg0 st
    refine ⟨h1, ?_⟩
    intro r s1 hs1
    obtain ⟨hr, hg1, hab, hu⟩ := h2 r s1 hs1
    exact ⟨hr, hg1, (fun h => by rcases h with h | h <;> cases h), (fun _ => hab), (fun u st' hsu _ => hu u st' hsu)⟩
  · -- in body, foster parented
    obtain ⟨h1, h2⟩ := fbody_add_sim (x := x) (y := y) hg0 st
    refine ⟨h1, ?_⟩
    intro r s1 hs1
    obtain ⟨hr, hg1, hab, hu⟩ := h2 r s1 hs1
    exact ⟨hr, hg1, (fun h => by rcases h with h | h <;> cases h), (fun _ => hab), (fun u st' hsu _ => hu u st' hsu)⟩
  · -- pending table text
    refine ⟨(fun e he => by rw [pend_apply] at he; cases he), ?_⟩
    intro r s1 hs1
    rw [pend_apply] at hs1
    simp only [Except.ok.injEq, Prod.mk.injEq] at hs1
    obtain ⟨rfl, rfl⟩ := hs1
    have hg1 : Good { s0 with pendingTableText := s0.pendingTableText ++ [(st, x)] } :=
      ⟨hg0.af, by
        intro p hp
        rcases List.mem_append.mp hp with hp | hp
        · exact hg0.pend p hp
        · simp at hp; subst hp; exact hx⟩
    refine ⟨rfl, hg1, (fun _ => ⟨s0.mode, s0.origMode, _, s0.framesetOk, s0.ignoreLf, s0.currentLine, s0.traceRev,
      s0.dom, rfl, DQ.refl _⟩), (fun h => by rcases h with h | h <;> cases h), ?_⟩
    intro u st' hsu hst'
    rw [pend_apply, pend_apply]
    refine ⟨rfl, rfl, ?_⟩
    obtain ⟨hi, tr, cl, er, pt, rfl, hp⟩ := hsu
    refine ⟨hi, tr, cl, er, pt ++ [(st', y)], rfl, ?_⟩
    -- `p0 ++ [(st, x ++ y)]` against `pt ++ [(st', y)]` where `p0 ++ [(st, x)]` is related to `pt`
    have h1 : PendRel (s0.pendingTableText ++ [(st, x ++ y)]) (s0.pendingTableText ++ [(st, x), (st', y)]) :=
      (PendRel.rfl' hg0.pend).append (pend_two hx hy hv hst')
    have h2 : PendRel ((s0.pendingTableText ++ [(st, x)]) ++ [(st', y)]) (pt ++ [(st', y)]) :=
      hp.append (PendRel.rfl' (by intro p hp; simp at hp; subst hp; exact hy))
    have e : s0.pendingTableText ++ [(st, x), (st', y)] = (s0.pendingTableText ++ [(st, x)]) ++ [(st', y)] := by simp
    rw [e] at h1
    exact h1.trans h2

theorem good_trEq {s : State} (hg : Good s) (tr : List (SinkOp × Output)) : Sim s (withTr s tr) :=
  TrEq.sim ⟨tr, rfl⟩ hg

/-- **a non-foreign terminal dispatch** -/
theorem term_case {s s0 : State} {st : SplitStatus} {k : CKind} {x y : Str} {tr : List (SinkOp × Output)}
    (hg : Good s) (hx : x ≠ []) (hy : y ≠ []) (hv : Valid st (x ++ y))
    (hf : isForeignChars s = .ok (false, withTr s tr)) (hc : charsPre s.mode st (withTr s tr) = .ok (k, s0))
    (hterm : Terminal k) : AddAt s st x y := by
  have hxy : x ++ y ≠ [] := by simp [hx]
  have hd : dPre st s = .ok (k, s0) := by rw [dPre_eval_false _ hf]; exact hc
  have hgq : Good (withTr s tr) := good_withTr hg tr
  have hkin : k ∈ kinds s.mode st := ((charsPre_kinds s.mode st).post hgq hc).1
  have hnre : ∀ m', k ≠ .re m' := by
    intro m' h; subst h; rcases hterm with h | h | h | h <;> cases h
  have hs0 : Sim (withTr s tr) s0 := charsPre_sim hgq hc hnre
  have hg0 : Good s0 := hs0.symm.good
  have hss0 : Sim s s0 := (good_trEq hg tr).trans hs0
  have hm0 : s0.mode = s.mode := by
    have := charsPre_keeps s.mode st _ _ _ hc
    simp only [fr, Prod.mk.injEq] at this
    exact this.2.2.2.2.2.2.2.2
  obtain ⟨hadd1, hadd2⟩ := terminal_add hterm hx hy hv hg0
  refine term_finish hg hx hxy hd (finRes_terminal (Or.inl hterm)) ⟨hadd1, ?_⟩ ?_
  · intro r s1 h1
    obtain ⟨hr, hg1, _, _, hu⟩ := hadd2 r s1 h1
    exact ⟨hr, hg1, hu⟩
  · intro s1 h1
    obtain ⟨_, hg1, hqa, hqb, _⟩ := hadd2 _ s1 h1
    have hm1 : s1.mode = s.mode := (charsFin_mode h1).trans hm0
    -- what the queries see in `s1`
    have hq : QSim (sf false s) (sf false s1) ∨ HtmlTop s1 := by
      rcases hterm with rfl | rfl | rfl | rfl
      · exact Or.inl (hss0.qsimF.trans (qsim_foster (hqa (Or.inl rfl)) false))
      · rcases hqb (Or.inl rfl) with h | h
        · exact Or.inl (hss0.qsimF.trans h)
        · exact Or.inr h
      · rcases hqb (Or.inr rfl) with h | h
        · exact Or.inl (hss0.qsimF.trans h)
        · exact Or.inr h
      · exact Or.inl (hss0.qsimF.trans (qsim_foster (hqa (Or.inr rfl)) false))
    have hn : ∀ u', Sim s1 u' → NFor u' := by
      intro u' hu'
      rcases hq with h | h
      · exact NFor.transfer ⟨tr, hf⟩ (h.trans hu'.qsimF)
      · exact NFor.of_htmlTop (h.of_sim hu')
    rcases mode_group hkin hterm with hpure | ⟨w, rfl, hsp, hkw⟩ | ⟨rfl, htab⟩
    · -- the mode takes the token whole
      obtain ⟨u1, hs, hp⟩ := second_ns hg1 hy (hn s1 hg1.sim) (k := k)
        (fun u' hu' => ⟨u', by rw [hm1, hpure]; rfl, (hu'.good hg1).sim⟩) (finRes_terminal (Or.inl hterm) _ _)
      exact ⟨u1, .notSplit, hs, Or.inl rfl, hp⟩
    · -- the mode splits; `y` continues the run
      have hyw : ∀ c ∈ y, isAsciiWhitespace c = w := (valid_cls_iff w y).mp hv.right
      obtain ⟨u1, hs, hp⟩ := second_sp hg1 hy hn (k := k) hyw
        (fun u' => by rw [hm1, hsp]; rfl)
        (fun u' hu' => ⟨u', by rw [hm1, hkw]; rfl, hu'.symm.good.sim⟩) (finRes_terminal (Or.inl hterm) _ _)
      exact ⟨u1, cls w, hs, Or.inr rfl, hp⟩
    · -- a table mode: the current node is still not a table part
      have hc' : tablePre (withTr s tr) = .ok (.body true, s0) := by rw [← htab st]; exact hc
      obtain ⟨⟨tr0, hcn0⟩, _⟩ := tablePre_inv hgq hc'
      have hcn : ∀ u', Sim s1 u' → ∃ tr', currentNodeIn tableOuterChars u' = .ok (false, withTr u' tr') := by
        intro u' hu'
        rcases hq with h | h
        · have h2 : QSim (sf false (withTr s tr)) (sf false u') :=
            (qsim_foster (QSim.withTr s tr).symm false).trans (h.trans hu'.qsimF)
          exact answer_transfer (currentNodeIn_f _) (currentNodeIn_q _) hcn0 h2
        · exact currentNodeIn_htmlTop (h.of_sim hu') _ fmt_not_outer
      obtain ⟨u1, hs, hp⟩ := second_ns hg1 hy (hn s1 hg1.sim) (k := .body true)
        (fun u' hu' => by
          obtain ⟨tr', htr'⟩ := hcn u' (hu'.sim hg1)
          obtain ⟨u'', h1', h2'⟩ := tablePre_else (good_withTr (hu'.good hg1) tr') htr'
          exact ⟨u'', by rw [hm1, htab]; exact h1', (good_trEq (hu'.good hg1) tr').trans h2'⟩) rfl
      exact ⟨u1, .notSplit, hs, Or.inl rfl, hp⟩

/-- **a foreign dispatch** -/
theorem foreign_case {s : State} {st : SplitStatus} {x y : Str} {tr : List (SinkOp × Output)}
    (hg : Good s) (hx : x ≠ []) (hy : y ≠ []) (hf : isForeignChars s = .ok (true, withTr s tr)) :
    AddAt s st x y := by
  have hxy : x ++ y ≠ [] := by simp [hx]
  have hd : dPre st s = .ok (.ffa, withTr s tr) := dPre_eval_true _ hf
  have hgq : Good (withTr s tr) := good_withTr hg tr
  obtain ⟨h1, h2⟩ := fa_add_sim true (x := x) (y := y) hgq
  have e : ∀ st' z, charsFin .ffa st' z = FA true z := fun _ _ => rfl
  refine term_finish hg hx hxy hd (fun _ _ => rfl) ⟨?_, ?_⟩ ?_
  · intro e' he'; rw [e] at he' ⊢; exact h1 e' he'
  · intro r s1 hs1
    rw [e] at hs1
    obtain ⟨hr, hg1, hu⟩ := h2 r s1 hs1
    exact ⟨hr, hg1, fun u st' hsu _ => by rw [e, e]; exact hu u hsu⟩
  · intro s1 hs1
    rw [e] at hs1
    obtain ⟨_, hg1, _⟩ := h2 _ s1 hs1
    have hq : QSim s s1 := (QSim.withTr s tr).trans (FA_qsim hs1)
    obtain ⟨tr1, htr1⟩ := (isForeign_q _).transfer hq hf
    have hd1 : dPre .notSplit s1 = .ok (.ffa, withTr s1 tr1) := dPre_eval_true _ htr1
    exact ⟨withTr s1 tr1, .notSplit, good_trEq hg1 tr1, Or.inl rfl, PTC_term hg1 hy hd1 rfl⟩

/-- **a dispatch that ignores the token** -/
theorem drop_case {s s0 : State} {st : SplitStatus} {x y : Str} {tr : List (SinkOp × Output)}
    (hg : Good s) (hx : x ≠ []) (hy : y ≠ []) (hv : Valid st (x ++ y))
    (hf : isForeignChars s = .ok (false, withTr s tr)) (hc : charsPre s.mode st (withTr s tr) = .ok (.drop, s0)) :
    AddAt s st x y := by
  have hxy : x ++ y ≠ [] := by simp [hx]
  have hd : dPre st s = .ok (.drop, s0) := by rw [dPre_eval_false _ hf]; exact hc
  have hgq : Good (withTr s tr) := good_withTr hg tr
  have hkin : CKind.drop ∈ kinds s.mode st := ((charsPre_kinds s.mode st).post hgq hc).1
  have hs0 : Sim (withTr s tr) s0 := charsPre_sim hgq hc (fun m' h => by cases h)
  have hg0 : Good s0 := hs0.symm.good
  have hss0 : Sim s s0 := (good_trEq hg tr).trans hs0
  have hm0 : s0.mode = s.mode := by
    have := charsPre_keeps s.mode st _ _ _ hc
    simp only [fr, Prod.mk.injEq] at this
    exact this.2.2.2.2.2.2.2.2
  obtain ⟨w, rfl, hsp⟩ := mode_group_drop hkin rfl
  have hyw : ∀ c ∈ y, isAsciiWhitespace c = w := (valid_cls_iff w y).mp hv.right
  have hn : ∀ u', Sim s0 u' → NFor u' := fun u' hu' => NFor.transfer ⟨tr, hf⟩ (hss0.trans hu').qsimF
  -- in any state `Sim` to `s0` the prelude drops the run again
  have hkd : ∀ u', Sim s0 u' → ∃ u'', charsPre s0.mode (cls w) u' = .ok (.drop, u'') ∧ Sim u' u'' := by
    intro u' hu'
    have hr := (respQ_resp (charsPre_ok s.mode (cls w))) (withTr s tr) u' (hs0.trans hu')
    rw [hc] at hr
    rw [hm0]
    cases hcu : charsPre s.mode (cls w) u' with
    | error e => rw [hcu] at hr; exact hr.elim
    | ok v =>
      obtain ⟨k', u''⟩ := v
      rw [hcu] at hr
      obtain ⟨hk', _, hsu⟩ := hr
      subst hk'
      exact ⟨u'', rfl, hu'.symm.trans hsu⟩
  obtain ⟨u1, hs, hp⟩ := second_sp hg0 hy hn (k := .drop) hyw (fun u' => by rw [hm0, hsp]; rfl) hkd rfl
  unfold AddAt
  rw [PTC_term hg hxy hd rfl, bind_apply, PTC_term hg hx hd rfl]
  show RelR _ (.ok (.continue_, s0)) (PTC (.chars .notSplit y) [] s0)
  rw [hp]
  exact ⟨rfl, trivial, hs⟩

/-! ### the main induction -/

theorem bind_apply_eq {α β : Type} {m m' : M α} {f : α → M β} {s s' : State} (h : m s = m' s') :
    (m >>= f) s = (m' >>= f) s' := by
  rw [bind_apply, bind_apply, h]

theorem PTC_queue' {s : State} (hg : Good s) {st : SplitStatus} {x z : Str} (hx : x ≠ []) (hst : st ≠ .notSplit)
    (hz : z ≠ []) :
    PTC (.chars st x) [.chars .notSplit z] s = (PTC (.chars st x) [] >>= fun _ => PTC (.chars .notSplit z) []) s :=
  PTC_queue (rank s.mode + 1) s st x _ hg hx hst ⟨.notSplit, z, rfl, hz⟩ (by omega)

theorem cls_ne_notSplit (w : Bool) : cls w ≠ .notSplit := by cases w <;> (intro h; cases h)

theorem mu_chars (s : State) (st : SplitStatus) (z : Str) :
    mu s (.chars st z) [] = 16 * z.length + splitBonus (.chars st z) + rank s.mode := by
  simp [mu, tokLen, totLen]

theorem splitBonus_cls (w : Bool) (z : Str) : splitBonus (.chars (cls w) z) = 0 := by cases w <;> rfl

/-- **processing a character token in two pieces** -/
theorem ptc_add : ∀ (n : Nat) (s : State) (st : SplitStatus) (x y : Str), Good s → x ≠ [] → y ≠ [] →
    Valid st (x ++ y) → mu s (.chars st (x ++ y)) [] < n → AddAt s st x y
  | 0, _, _, _, _, _, _, _, _, h => by omega
  | n + 1, s, st, x, y, hg, hx, hy, hv, hmu => by
    have hxy : x ++ y ≠ [] := by simp [hx]
    cases hd : dPre st s with
    | error e =>
      unfold AddAt
      rw [dPre_error hg hxy (by simp) hd, bind_apply, dPre_error hg hx (by simp) hd]
      trivial
    | ok v =>
      obtain ⟨k, s0⟩ := v
      obtain ⟨hdok, hg0⟩ := dPre_post hg hd
      obtain ⟨tr, hcase⟩ := dPre_inv hd
      rcases hcase with ⟨hf, rfl, rfl⟩ | ⟨hf, hc⟩
      · exact foreign_case hg hx hy hf
      · cases k with
        | fa => exact term_case hg hx hy hv hf hc (Or.inl rfl)
        | pend => exact term_case hg hx hy hv hf hc (Or.inr (Or.inr (Or.inr rfl)))
        | body f =>
          cases f
          · exact term_case hg hx hy hv hf hc (Or.inr (Or.inl rfl))
          · exact term_case hg hx hy hv hf hc (Or.inr (Or.inr (Or.inl rfl)))
        | ffa => exact (((charsPre_ok s.mode st).post (good_withTr hg tr) hc).1).elim
        | drop => exact drop_case hg hx hy hv hf hc
        | re m' =>
          have hk' : rank m' < rank s.mode := hdok
          unfold AddAt
          rw [PTC_re hg hxy (by simp) hd, bind_apply_eq (PTC_re hg hx (by simp) hd)]
          refine ptc_add n { s0 with mode := m' } st x y ⟨hg0.af, hg0.pend⟩ hx hy hv ?_
          rw [mu_chars] at hmu ⊢
          show 16 * (x ++ y).length + splitBonus _ + rank m' < n
          omega
        | split =>
          have hst : st = .notSplit := hdok
          subst hst
          unfold AddAt
          rw [PTC_split hg hxy (by simp) hd, bind_apply_eq (PTC_split hg hx (by simp) hd)]
          obtain ⟨c, x', rfl⟩ := List.exists_cons_of_ne_nil hx
          have hb8 : splitBonus (.chars .notSplit (c :: x' ++ y)) = 8 := rfl
          rw [mu_chars, hb8] at hmu
          have hlen : (c :: x' ++ y).length = (c :: x').length + y.length := List.length_append
          have hyl : 0 < y.length := List.length_pos_iff.mpr hy
          have hr0 := rank_le s0.mode
          by_cases hR : (c :: x').dropWhile (cw (isAsciiWhitespace c)) = []
          · -- `x` is a single run
            obtain ⟨hall, hpop⟩ := pop_append_outer (y := y) hR
            have hallcw : ∀ a ∈ c :: x', cw (isAsciiWhitespace c) a = true := fun a ha => by simp [cw, hall a ha]
            have hpx : popFrontCharRun (c :: x') = some (c :: x', isAsciiWhitespace c, []) := pop_class hx hall
            simp only [KInf, hpop, hpx, List.length_nil, Nat.lt_irrefl, if_false, List.nil_append]
            by_cases hF : y.takeWhile (cw (isAsciiWhitespace c)) = []
            · -- `y` starts a new run
              have hRy : y.dropWhile (cw (isAsciiWhitespace c)) = y := by
                have := List.takeWhile_append_dropWhile (p := cw (isAsciiWhitespace c)) (l := y)
                rw [hF, List.nil_append] at this
                exact this
              rw [hF, hRy, List.append_nil, if_pos hyl, PTC_queue' hg0 hx (cls_ne_notSplit _) hy]
              exact relR_self (PTC2_resp _ _ hx hy) hg0
            · -- `y` continues the run of `x`
              have hFc : ∀ a ∈ y.takeWhile (cw (isAsciiWhitespace c)), isAsciiWhitespace a = isAsciiWhitespace c :=
                fun a ha => by simpa [cw] using H5V.Props.C06.mem_takeWhile_sat _ _ _ ha
              have hvXF : Valid (cls (isAsciiWhitespace c)) (c :: x' ++ y.takeWhile (cw (isAsciiWhitespace c))) := by
                rw [valid_cls_iff]
                intro a ha
                rcases List.mem_append.mp ha with ha | ha
                · exact hall a ha
                · exact hFc a ha
              have hFl : (y.takeWhile (cw (isAsciiWhitespace c))).length + (y.dropWhile (cw (isAsciiWhitespace c))).length
                  = y.length := by
                rw [← List.length_append, List.takeWhile_append_dropWhile]
              have ih1 := ptc_add n s0 (cls (isAsciiWhitespace c)) (c :: x') (y.takeWhile (cw (isAsciiWhitespace c)))
                hg0 hx hF hvXF (by
                  rw [mu_chars, splitBonus_cls, List.length_append]
                  omega)
              unfold AddAt at ih1
              by_cases hRy : y.dropWhile (cw (isAsciiWhitespace c)) = []
              · have hyF : y.takeWhile (cw (isAsciiWhitespace c)) = y := by
                  have := List.takeWhile_append_dropWhile (p := cw (isAsciiWhitespace c)) (l := y)
                  rw [hRy, List.append_nil] at this
                  exact this
                rw [hRy]
                simp only [List.length_nil, Nat.lt_irrefl, if_false]
                rw [hyF] at ih1 ⊢
                exact ih1
              · have hRl : 0 < (y.dropWhile (cw (isAsciiWhitespace c))).length := List.length_pos_iff.mpr hRy
                rw [if_pos hRl]
                have hXF : c :: x' ++ y.takeWhile (cw (isAsciiWhitespace c)) ≠ [] := by simp
                rw [PTC_queue' hg0 hXF (cls_ne_notSplit _) hRy]
                -- A: the run in two pieces, then the rest
                have hA := relR_bind (f := fun _ => PTC (.chars .notSplit (y.dropWhile (cw (isAsciiWhitespace c)))) [])
                  (f' := fun _ => PTC (.chars .notSplit (y.dropWhile (cw (isAsciiWhitespace c)))) []) ih1
                  (fun _ sa ta _ hs => PTC_resp' .notSplit hRy sa ta hs)
                refine hA.trans ?_
                -- B: the second piece in two pieces
                rw [bind_assoc]
                refine relR_bind (relR_self (PTC_resp' _ hx) hg0) ?_
                intro _ sa ta _ hs
                have hgta : Good ta := hs.symm.good
                have ih2 := ptc_add n ta .notSplit (y.takeWhile (cw (isAsciiWhitespace c)))
                  (y.dropWhile (cw (isAsciiWhitespace c))) hgta hF hRy trivial (by
                    rw [mu_chars, List.takeWhile_append_dropWhile]
                    have h8 : splitBonus (.chars .notSplit y) = 8 := rfl
                    have := rank_le ta.mode
                    have hxl : 0 < (c :: x').length := List.length_pos_iff.mpr hx
                    rw [h8]
                    omega)
                unfold AddAt at ih2
                rw [List.takeWhile_append_dropWhile] at ih2
                exact (PTC2_resp _ _ hF hRy sa ta hs).trans ih2.symm
          · -- the first run of `x` ends inside `x`
            have hpop := pop_append_inner (y := y) hR
            have hpx := pop_cons c x'
            have hF1 : (c :: x').takeWhile (cw (isAsciiWhitespace c)) ≠ [] := by
              simp [List.takeWhile, cw]
            have hRl : 0 < ((c :: x').dropWhile (cw (isAsciiWhitespace c))).length := List.length_pos_iff.mpr hR
            have hRyl : 0 < ((c :: x').dropWhile (cw (isAsciiWhitespace c)) ++ y).length := by
              rw [List.length_append]; omega
            have hRy : (c :: x').dropWhile (cw (isAsciiWhitespace c)) ++ y ≠ [] := by
              intro h; rw [h] at hRyl; simp at hRyl
            simp only [KInf, hpop, hpx, if_pos hRl, if_pos hRyl, List.nil_append]
            rw [PTC_queue' hg0 hF1 (cls_ne_notSplit _) hRy,
              bind_apply_eq (PTC_queue' hg0 hF1 (cls_ne_notSplit _) hR), bind_assoc]
            refine relR_bind (relR_self (PTC_resp' _ hF1) hg0) ?_
            intro _ sa ta _ hs
            have hgsa : Good sa := hs.good
            have hFl : ((c :: x').takeWhile (cw (isAsciiWhitespace c))).length +
                ((c :: x').dropWhile (cw (isAsciiWhitespace c))).length = (c :: x').length := by
              rw [← List.length_append, List.takeWhile_append_dropWhile]
            have hF1l : 0 < ((c :: x').takeWhile (cw (isAsciiWhitespace c))).length := List.length_pos_iff.mpr hF1
            have ih := ptc_add n sa .notSplit ((c :: x').dropWhile (cw (isAsciiWhitespace c))) y hgsa hR hy trivial (by
              rw [mu_chars]
              have h8 : splitBonus (.chars .notSplit ((c :: x').dropWhile (cw (isAsciiWhitespace c)) ++ y)) = 8 := rfl
              have := rank_le sa.mode
              rw [h8, List.length_append]
              omega)
            unfold AddAt at ih
            exact relR_lift ih (PTC2_resp _ _ hR hy) hs

end H5V.Lemmas.TBSplit
