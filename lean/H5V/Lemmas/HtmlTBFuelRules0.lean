import H5V.Lemmas.HtmlTBFuelHelpers
/-!
# The fuel of `process_to_completion`, part 5: judgements for the rules

* `DJ f m tok` — every successful run of the rule body `f` from a state satisfying the invariant, in mode
  `m`, answers within `Dec … m tok` (the measure decreases along `Reprocess`, `SplitWhitespace` only for an
  unsplit character token);
* what the rules other rules delegate to may answer: `EH` (`stepInHead`), `EB` (`stepInBody`), `ET`
  (`stepInTable`), independent of the calling mode;
* token-class lemmas: from `tag.isStart l` / `tag.isEnd l` to the rank inequality.
-/
namespace H5V.Lemmas.TBFuel
open H5V.Model.HtmlTB
open H5V.Model.HtmlTok (TagKind)
open H5V.Model.Dom (Id QualName Attr NodeOrText SinkOp Output ElementFlags QuirksMode Dom NodeData Node)
open H5V.Lemmas.TBSafe
open H5V.Lemmas.TBC (ok_bind ok_pure ok_getS_bind ok_modS_bind ok_ite ok_bind_pure)

/-- the judgement of a rule body run in mode `m` on the token `tok` -/
def DJ (f : M ProcessResult) (m : Mode) (tok : Token) : Prop :=
  ∀ s r s', TI s → s.mode = m → f s = .ok (r, s') → Dec s m tok r s'

theorem dj_of_ro {f : M ProcessResult} {m : Mode} {tok : Token} (h : RO f Quiet) : DJ f m tok :=
  fun s r s' _ _ hr => dec_of_quiet (h s r s' hr)

theorem dj_ite {c : Prop} [Decidable c] {a b : M ProcessResult} {m : Mode} {tok : Token}
    (h1 : c → DJ a m tok) (h2 : ¬c → DJ b m tok) : DJ (if c then a else b) m tok := by
  by_cases hc : c
  · rw [if_pos hc]; exact h1 hc
  · rw [if_neg hc]; exact h2 hc

/-- `SplitWhitespace` in the rule's own mode -/
theorem dj_split {m : Mode} {text : Str} :
    DJ (pure (ProcessResult.splitWhitespace text)) m (.chars .notSplit text) := by
  intro s r s' _ hm hr
  obtain ⟨e1, e2⟩ := ok_pure hr
  rw [← e1, ← e2]
  exact ⟨rfl, hm⟩

/-- an edge `helpers…; Reprocess(m', token)` whose helpers only shrink the stack -/
theorem dj_edge {α : Type} {pre : M α} {m m' : Mode} {tok t : Token} (hsh : SH pre) (hm : m' ≠ .inTemplate)
    (hr : rank m' (cls tok) < rank m (cls tok)) :
    DJ (pre >>= fun _ => pure (ProcessResult.reprocess m' t)) m tok := by
  intro s r s' ht _ hrun
  obtain ⟨a, s1, h1, h2⟩ := ok_bind hrun
  obtain ⟨e1, e2⟩ := ok_pure h2
  rw [← e1, ← e2]
  exact dec_of_rank ((hsh s a s1 h1).wle ht.h.open_el) (Or.inl hm) hr

/-- the same without helpers -/
theorem dj_edge0 {m m' : Mode} {tok t : Token} (hm : m' ≠ .inTemplate)
    (hr : rank m' (cls tok) < rank m (cls tok)) : DJ (pure (ProcessResult.reprocess m' t)) m tok := by
  intro s r s' _ _ hrun
  obtain ⟨e1, e2⟩ := ok_pure hrun
  rw [← e1, ← e2]
  exact dec_of_rank (WLe.refl s) (Or.inl hm) hr

/-! ### edges that are paid for by the stack -/

/-- a table element or a template mode was popped, the new mode has rank at most 3 -/
structure Pay (s s' : State) (m' : Mode) (c : Cls) : Prop where
  w : 4 * tabCount s'.dom s'.openElems + 4 * s'.templateModes.length + 4 ≤
      4 * tabCount s.dom s.openElems + 4 * s.templateModes.length
  rk : rank m' c ≤ 3
  tmpl : m' = .inTemplate → s'.templateModes ≠ []

theorem dec_of_payS {s s' : State} {m m' : Mode} {tok t : Token} (hc : isCharsTok tok = false)
    (h : Pay s s' m' (cls tok)) : Dec s m tok (.reprocess m' t) s' := by
  refine dec_of_pay hc ?_ h.rk
  unfold wW tmW
  have h1 : max s'.templateModes.length (if m' = .inTemplate then 1 else 0) = s'.templateModes.length := by
    by_cases hm : m' = .inTemplate
    · rw [if_pos hm]
      have := h.tmpl hm
      cases hl : s'.templateModes with
      | nil => exact absurd hl this
      | cons a l => simp
    · rw [if_neg hm]; omega
  rw [h1]
  have := h.w
  omega

/-- the modes of the stack of template modes have rank at most 3 for EOF and `<table>` -/
theorem rank_tmplMode {m : Mode} (h : tmplModeOk m = true) (c : Cls) (hc : c = .eof ∨ c = .sTable) :
    rank m c ≤ 3 := by
  rcases hc with rfl | rfl <;> cases m <;> first | decide | (simp [tmplModeOk] at h)

theorem rank_resetRange {m : Mode} (h : m ∈ resetRange) (c : Cls) (hc : c = .eof ∨ c = .sTable) :
    rank m c ≤ 3 := by
  rcases hc with rfl | rfl <;> (revert m; decide)

/-! ### what the delegated rules may answer -/

def headStarts : List String :=
  ["html", "base", "basefont", "bgsound", "link", "meta", "title", "noframes", "style", "noscript", "script",
   "template", "head"]

/-- the tokens on which InHead's rules reach "anything else" -/
def headElse : Token → Bool
  | .chars .notWhitespace _ => true
  | .chars _ _ => false
  | .nullChar => true
  | .eof => true
  | .comment _ => false
  | .tag t => if t.kind == .endTag then t.isEnd ["body", "html", "br"] else !(t.isStart headStarts)

/-- `stepInHead` (any calling mode) -/
def EH (s : State) (tok : Token) (r : ProcessResult) (s' : State) : Prop :=
  match r with
  | .reprocess m' _ => m' = .afterHead ∧ headElse tok = true ∧ Shr s s'
  | .splitWhitespace buf => tok = .chars .notSplit buf ∧ s' = s
  | .reprocessForeign _ => False
  | _ => True

def HeadE : Prop := ∀ tok s r s', stepInHead tok s = .ok (r, s') → EH s tok r s'

/-- `stepInBody` (any calling mode): `</html>` → AfterBody, EOF inside a template → the reset mode -/
def EB (s : State) (tok : Token) (r : ProcessResult) (s' : State) : Prop :=
  match r with
  | .reprocess m' _ => (cls tok = .eHtml ∧ m' = .afterBody ∧ WLe s s') ∨ (tok = .eof ∧ Pay s s' m' .eof)
  | .splitWhitespace _ => False
  | .reprocessForeign _ => False
  | _ => True

def BodyE : Prop := ∀ tok s r s', TI s → stepInBody tok s = .ok (r, s') → EB s tok r s'

def isCharsOrNull : Token → Bool
  | .chars _ _ => true
  | .nullChar => true
  | _ => false

/-- `stepInTable` (called from InTable, InTableBody, InRow) -/
def ET (s : State) (tok : Token) (r : ProcessResult) (s' : State) : Prop :=
  match r with
  | .reprocess m' _ =>
    (isCharsOrNull tok = true ∧ m' = .inTableText ∧ WLe s s') ∨
    (cls tok = .sCol ∧ m' = .inColumnGroup ∧ WLe s s') ∨
    ((cls tok = .sTdTh ∨ cls tok = .sTr) ∧ m' = .inTableBody ∧ WLe s s') ∨
    (cls tok = .sTable ∧ Pay s s' m' .sTable) ∨
    (tok = .eof ∧ Pay s s' m' .eof)
  | .splitWhitespace _ => False
  | .reprocessForeign _ => False
  | _ => True

def TableE : Prop := ∀ tok s r s', TI s → tableMode s.mode = true → stepInTable tok s = .ok (r, s') → ET s tok r s'

/-! ### token classes -/

theorem mem_of_isOneOf {n : Str} {l : List String} (h : isOneOf n l = true) : ∃ x ∈ l, x.toList = n := by
  unfold isOneOf at h
  rw [List.any_eq_true] at h
  obtain ⟨x, hx, he⟩ := h
  exact ⟨x, hx, eq_of_beq he⟩

theorem isOneOf_of_mem {n : Str} {l : List String} {x : String} (hx : x ∈ l) (he : x.toList = n) :
    isOneOf n l = true := by
  unfold isOneOf
  rw [List.any_eq_true]
  exact ⟨x, hx, by rw [he]; exact beq_self_eq_true _⟩

theorem start_spec {tag : Tag} {l : List String} (h : tag.isStart l = true) :
    tag.kind = .startTag ∧ ∃ x ∈ l, x.toList = tag.name := by
  unfold Tag.isStart at h
  rw [Bool.and_eq_true] at h
  exact ⟨eq_of_beq h.1, mem_of_isOneOf h.2⟩

theorem end_spec {tag : Tag} {l : List String} (h : tag.isEnd l = true) :
    tag.kind = .endTag ∧ ∃ x ∈ l, x.toList = tag.name := by
  unfold Tag.isEnd at h
  rw [Bool.and_eq_true] at h
  exact ⟨eq_of_beq h.1, mem_of_isOneOf h.2⟩

theorem start_sub {tag : Tag} {l l2 : List String} (h : tag.isStart l = true) (hs : ∀ x ∈ l, x ∈ l2) :
    tag.isStart l2 = true := by
  obtain ⟨hk, x, hx, he⟩ := start_spec h
  unfold Tag.isStart
  rw [hk, isOneOf_of_mem (hs x hx) he]; rfl

theorem end_sub {tag : Tag} {l l2 : List String} (h : tag.isEnd l = true) (hs : ∀ x ∈ l, x ∈ l2) :
    tag.isEnd l2 = true := by
  obtain ⟨hk, x, hx, he⟩ := end_spec h
  unfold Tag.isEnd
  rw [hk, isOneOf_of_mem (hs x hx) he]; rfl

/-- a property of the class of a start tag named in `l` -/
theorem cls_of_isStart {tag : Tag} {l : List String} {P : Cls → Prop} (h : tag.isStart l = true)
    (hall : ∀ x ∈ l, P (clsTag .startTag x.toList)) : P (cls (.tag tag)) := by
  obtain ⟨hk, x, hx, he⟩ := start_spec h
  show P (clsTag tag.kind tag.name)
  rw [hk, ← he]; exact hall x hx

theorem cls_of_isEnd {tag : Tag} {l : List String} {P : Cls → Prop} (h : tag.isEnd l = true)
    (hall : ∀ x ∈ l, P (clsTag .endTag x.toList)) : P (cls (.tag tag)) := by
  obtain ⟨hk, x, hx, he⟩ := end_spec h
  show P (clsTag tag.kind tag.name)
  rw [hk, ← he]; exact hall x hx

/-- … and of a disjunction `isStart l1 || isEnd l2` -/
theorem cls_of_startOrEnd {tag : Tag} {l1 l2 : List String} {P : Cls → Prop}
    (h : (tag.isStart l1 || tag.isEnd l2) = true)
    (h1 : ∀ x ∈ l1, P (clsTag .startTag x.toList)) (h2 : ∀ x ∈ l2, P (clsTag .endTag x.toList)) :
    P (cls (.tag tag)) := by
  rw [Bool.or_eq_true] at h
  rcases h with h | h
  · exact cls_of_isStart h h1
  · exact cls_of_isEnd h h2

/-- the class of a tag determines membership in the lists that define it -/
theorem isStart_of_cls {tag : Tag} {c : Cls} (h : cls (.tag tag) = c) :
    (c = .sTdTh → tag.isStart ["td", "th"] = true) ∧ (c = .sTr → tag.isStart ["tr"] = true) ∧
    (c = .sCol → tag.isStart ["col"] = true) ∧
    (c = .sCapGrp → tag.isStart ["caption", "colgroup", "tbody", "tfoot", "thead"] = true) ∧
    (c = .sTable → tag.isStart ["table"] = true) ∧
    (c = .eHtml → tag.isEnd ["html"] = true) ∧ (c = .eTable → tag.isEnd ["table"] = true) ∧
    (c = .eTbodyGrp → tag.isEnd ["tbody", "tfoot", "thead"] = true) ∧ (c = .eTr → tag.isEnd ["tr"] = true) := by
  have h' : clsTag tag.kind tag.name = c := h
  unfold clsTag at h'
  unfold Tag.isStart Tag.isEnd
  cases hk : tag.kind with
  | startTag =>
    rw [hk] at h'
    dsimp only at h'
    by_cases c1 : isOneOf tag.name ["td", "th"] = true
    · rw [if_pos c1] at h'; subst h'; simp [c1]
    rw [if_neg c1] at h'
    by_cases c2 : isName tag.name "tr" = true
    · rw [if_pos c2] at h'; subst h'; simp [isOneOf, isName] at c2 ⊢; exact c2
    rw [if_neg c2] at h'
    by_cases c3 : isName tag.name "col" = true
    · rw [if_pos c3] at h'; subst h'; simp [isOneOf, isName] at c3 ⊢; exact c3
    rw [if_neg c3] at h'
    by_cases c4 : isOneOf tag.name ["caption", "colgroup", "tbody", "tfoot", "thead"] = true
    · rw [if_pos c4] at h'; subst h'; simp [c4]
    rw [if_neg c4] at h'
    by_cases c5 : isName tag.name "table" = true
    · rw [if_pos c5] at h'; subst h'; simp [isOneOf, isName] at c5 ⊢; exact c5
    rw [if_neg c5] at h'
    subst h'; simp
  | endTag =>
    rw [hk] at h'
    dsimp only at h'
    by_cases c1 : isName tag.name "html" = true
    · rw [if_pos c1] at h'; subst h'; simp [isOneOf, isName] at c1 ⊢; exact c1
    rw [if_neg c1] at h'
    by_cases c2 : isName tag.name "table" = true
    · rw [if_pos c2] at h'; subst h'; simp [isOneOf, isName] at c2 ⊢; exact c2
    rw [if_neg c2] at h'
    by_cases c3 : isOneOf tag.name ["tbody", "tfoot", "thead"] = true
    · rw [if_pos c3] at h'; subst h'; simp [c3]
    rw [if_neg c3] at h'
    by_cases c4 : isName tag.name "tr" = true
    · rw [if_pos c4] at h'; subst h'; simp [isOneOf, isName] at c4 ⊢; exact c4
    rw [if_neg c4] at h'
    subst h'; simp

/-- delegated tokens on which InHead's rules do not reach "anything else" -/
theorem headElse_start {tag : Tag} {l : List String} (h : tag.isStart l = true)
    (hs : ∀ x ∈ l, x ∈ headStarts := by decide) : headElse (.tag tag) = false := by
  have h2 := start_sub h hs
  obtain ⟨hk, _⟩ := start_spec h
  show (if tag.kind == .endTag then _ else !(tag.isStart headStarts)) = false
  rw [hk, h2]; rfl

theorem headElse_end {tag : Tag} {l : List String} (h : tag.isEnd l = true)
    (hs : ∀ x ∈ l, x ∉ ["body", "html", "br"] := by decide) : headElse (.tag tag) = false := by
  obtain ⟨hk, x, hx, he⟩ := end_spec h
  show (if tag.kind == .endTag then tag.isEnd ["body", "html", "br"] else _) = false
  rw [hk]
  show tag.isEnd ["body", "html", "br"] = false
  cases hb : tag.isEnd ["body", "html", "br"] with
  | false => rfl
  | true =>
    obtain ⟨_, y, hy, hye⟩ := end_spec hb
    have : x = y := by
      have : x.toList = y.toList := he.trans hye.symm
      exact String.ext (by simpa using this)
    subst this
    exact absurd hy (hs x hx)

/-! ### delegations -/

/-- rank inequalities -/
syntax "rank_tac" : tactic
macro_rules
  | `(tactic| rank_tac) => `(tactic|
    first
      | decide
      | (dsimp only [cls]; decide)
      | (generalize cls _ = c; cases c <;> decide))

/-- delegation to `stepInBody` from the mode `m` -/
theorem dj_body (hB : BodyE) {m : Mode} {tok : Token}
    (h1 : cls tok = .eHtml → 0 < rank m .eHtml) : DJ (stepInBody tok) m tok := by
  intro s r s' ht hm hr
  have he := hB tok s r s' ht hr
  cases r with
  | reprocess m' t =>
    rcases he with ⟨hc, rfl, hw⟩ | ⟨rfl, hp⟩
    · refine dec_of_rank hw (Or.inl (by decide)) ?_
      rw [hc]; exact h1 hc
    · exact dec_of_payS rfl hp
  | splitWhitespace b => exact he.elim
  | reprocessForeign t => exact he.elim
  | _ => trivial

/-- delegation to `stepInHead` of a token that does not reach InHead's "anything else" -/
theorem dj_head (hH : HeadE) {m : Mode} {tok : Token} (hq : headElse tok = false)
    (hns : ∀ b, tok ≠ .chars .notSplit b) : DJ (stepInHead tok) m tok := by
  intro s r s' _ _ hr
  have he := hH tok s r s' hr
  cases r with
  | reprocess m' t =>
    have h2 : headElse tok = true := he.2.1
    rw [hq] at h2; cases h2
  | splitWhitespace b => exact absurd he.1 (hns b)
  | reprocessForeign t => exact he.elim
  | _ => trivial

/-- InHead itself -/
theorem dj_stepInHead (hH : HeadE) (tok : Token) : DJ (stepInHead tok) .inHead tok := by
  intro s r s' ht hm hr
  have he := hH tok s r s' hr
  cases r with
  | reprocess m' t =>
    obtain ⟨rfl, _, hs⟩ := he
    exact dec_of_rank (hs.wle ht.h.open_el) (Or.inl (by decide)) (by rank_tac)
  | splitWhitespace b => obtain ⟨h1, rfl⟩ := he; exact ⟨h1, hm⟩
  | reprocessForeign t => exact he.elim
  | _ => trivial

theorem rank_tableText {m : Mode} {tok : Token} (hm : tableMode m = true) (ht : isCharsOrNull tok = true) :
    rank .inTableText (cls tok) < rank m (cls tok) := by
  cases tok with
  | chars st x =>
    show rank .inTableText .chars < rank m .chars
    cases m <;> first | decide | (simp [tableMode] at hm; done)
  | nullChar =>
    show rank .inTableText .null < rank m .null
    cases m <;> first | decide | (simp [tableMode] at hm; done)
  | _ => simp [isCharsOrNull] at ht

theorem rank_colGroup {m : Mode} (hm : tableMode m = true) : rank .inColumnGroup .sCol < rank m .sCol := by
  cases m <;> first | decide | (simp [tableMode] at hm; done)

/-- delegation to `stepInTable` from a table mode `m` -/
theorem dj_table (hT : TableE) {m : Mode} {tok : Token} (htm : tableMode m = true)
    (h3 : cls tok = .sTdTh ∨ cls tok = .sTr → rank .inTableBody (cls tok) < rank m (cls tok)) :
    DJ (stepInTable tok) m tok := by
  intro s r s' ht hm hr
  have he := hT tok s r s' ht (by rw [hm]; exact htm) hr
  cases r with
  | reprocess m' t =>
    rcases he with ⟨hc, rfl, hw⟩ | ⟨hc, rfl, hw⟩ | ⟨hc, rfl, hw⟩ | ⟨hc, hp⟩ | ⟨rfl, hp⟩
    · exact dec_of_rank hw (Or.inl (by decide)) (rank_tableText htm hc)
    · exact dec_of_rank hw (Or.inl (by decide)) (by rw [hc]; exact rank_colGroup htm)
    · exact dec_of_rank hw (Or.inl (by decide)) (h3 hc)
    · refine dec_of_payS ?_ (by rw [hc]; exact hp)
      cases tok <;> first | rfl | (simp [cls] at hc)
    · exact dec_of_payS rfl hp
  | splitWhitespace b => exact he.elim
  | reprocessForeign t => exact he.elim
  | _ => trivial

end H5V.Lemmas.TBFuel
