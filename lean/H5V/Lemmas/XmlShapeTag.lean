import H5V.Lemmas.XmlShapeSer
import H5V.Lemmas.XmlShapeTree
/-!
C17, shape of parsed trees, part 3: every element the lexical-scope resolver `S.resolve` creates from
tokenizer-shaped tags (`TagShape`: the name of a start / empty tag is `process_qname` of a non-empty raw name; attribute names are `process_qname` of non-empty raw names and pairwise distinct) is a `TagOKW` tag.
With `C16_resolve_fixed` (created elements = `S.resolve`) this gives `TagOKW` for every element of every
document the (fixed) tree-builder model builds.
-/
namespace H5V.Lemmas.XmlShape
open H5V.Model.XmlTB H5V.Model.XmlSer H5V.Spec.XmlNs H5V.Lemmas.XmlNs H5V.Lemmas.XmlSer H5V.Props.C16
open H5V.Lemmas.XmlSerFixed

/-- a tag token as the tokenizer's `emit_current_tag` delivers it -/
structure TagShape (t : Tag) : Prop where
  name : (t.kind = .start ∨ t.kind = .empty) → ∃ raw, t.name = splitQName raw ∧ raw ≠ []
  attrs : ∀ a ∈ t.attrs, ∃ raw, raw ≠ [] ∧ a.name = splitQName raw
  nodup : (t.attrs.map (·.name)).Nodup

/-- a token as the tokenizer delivers it: tags of `TagShape`, non-empty character data -/
def TokShape : Token → Prop
  | .tag t => TagShape t
  | .chars cs => cs ≠ []
  | _ => True

/-- the leaf node a token may become satisfies `Q` -/
def TokLeafQ (Q : Node → Prop) : Token → Prop
  | .chars cs => Q (.text cs)
  | .comment c => Q (.comment c)
  | .pi t d => Q (.pi t d)
  | .doctype n p sy => Q (.doctype (optStr n) (optStr p) (optStr sy))
  | _ => True

theorem TokShape.good {Q : Node → Prop} {t : Token} (h : TokShape t) (hq : TokLeafQ Q t) : TokGood Q t := by
  cases t with
  | chars cs => exact ⟨h, hq⟩
  | comment c => exact hq
  | pi a b => exact hq
  | doctype a b c => exact hq
  | tag t => trivial
  | nullChar => trivial
  | eof => trivial

theorem tokLeafQ_true (t : Token) : TokLeafQ (fun _ => True) t := by cases t <;> trivial

theorem textClosed_true : TextClosed (fun _ => True) := fun _ _ _ _ => trivial

/-! ### names -/

theorem nameOK_split (raw : Str) (hne : raw ≠ []) (ns : Str) :
    NameOK ⟨(splitQName raw).pfx, ns, (splitQName raw).loc⟩ := by
  cases hp : (splitQName raw).pfx with
  | none =>
    have h := C16_splitQName_none raw hp
    rw [h]
    exact ⟨by simp only [rawName]; exact h, by simpa [rawName] using hne⟩
  | some p =>
    have h : splitQName raw = ⟨some p, (splitQName raw).loc⟩ := by
      cases hs : splitQName raw with
      | mk a b => rw [hs] at hp; simp only at hp; subst hp; rfl
    obtain ⟨hraw, _, _, _, _⟩ := C16_splitQName_some raw p _ h
    refine ⟨?_, ?_⟩
    · simp only [rawName]; rw [← hraw]; exact h
    · simp [rawName]

/-- no frame binds anything to the xmlns URI -/
def FrameOK (f : NsFrame) : Prop := ∀ p u, (p, some u) ∈ f → u ≠ XMLNS_URI

theorem frameOf_ok (attrs : List RAttr) : FrameOK (frameOf attrs) := by
  intro p u hm
  obtain ⟨a, _, ha⟩ := List.mem_filterMap.mp hm
  unfold declOf at ha
  split at ha
  · cases ha
  · split at ha
    · cases ha
    · rename_i hv
      have hu : optUri a.value = some u → u ≠ XMLNS_URI := by
        intro e
        unfold optUri at e
        split at e
        · cases e
        · injection e with e; subst e; exact hv
      split at ha
      · split at ha
        · cases ha
        · simp only [Option.some.injEq, Prod.mk.injEq] at ha; exact hu ha.2
      · simp only [Option.some.injEq, Prod.mk.injEq] at ha; exact hu ha.2

theorem lookupNs_xmlnsUri (env : List NsFrame) (henv : ∀ f ∈ env, FrameOK f) (p : Option Str)
    (h : lookupNs env p = XMLNS_URI) : p = some sXmlns := by
  unfold lookupNs at h
  split at h
  · exact absurd h (by decide)
  · split at h
    · assumption
    · split at h
      · rename_i uri hf
        obtain ⟨f, hfm, hfl⟩ := List.exists_of_findSome?_eq_some hf
        have := mem_of_lookup_some f p (some uri) hfl
        exact absurd h (henv f hfm p uri this)
      · exact absurd h (by decide)

theorem lookupNs_xml (env : List NsFrame) : lookupNs env (some sXml) = XML_URI := by
  unfold lookupNs; simp

theorem lookupNs_xmlns (env : List NsFrame) : lookupNs env (some sXmlns) = XMLNS_URI := by
  unfold lookupNs
  have : (some sXmlns : Option Str) ≠ some sXml := by decide
  simp [this]

theorem elemNameOK_resolve (env : List NsFrame) (henv : ∀ f ∈ env, FrameOK f) (raw : Str) (hne : raw ≠ []) :
    ElemNameOK (resolveElemName env (splitQName raw)) := by
  unfold resolveElemName
  refine ⟨nameOK_split raw hne _, ?_, ?_, ?_⟩
  · intro hp; simp only at hp ⊢; rw [hp]; exact lookupNs_xml env
  · intro hp; simp only at hp ⊢; rw [hp]; exact lookupNs_xmlns env
  · intro hn; exact lookupNs_xmlnsUri env henv _ hn

theorem resolveAttrName_pfx (env : List NsFrame) (n : RName) :
    (resolveAttrName env n).pfx = n.pfx ∧ (resolveAttrName env n).loc = n.loc := by
  unfold resolveAttrName
  cases h : n.pfx <;> simp [h]

theorem attrNameOK_resolve (env : List NsFrame) (henv : ∀ f ∈ env, FrameOK f) (raw : Str) (hne : raw ≠ [])
    (hnd : isDecl (splitQName raw) = false) : AttrNameOK (resolveAttrName env (splitQName raw)) := by
  have hname : NameOK (resolveAttrName env (splitQName raw)) := by
    have := nameOK_split raw hne (resolveAttrName env (splitQName raw)).ns
    obtain ⟨e1, e2⟩ := resolveAttrName_pfx env (splitQName raw)
    have e : resolveAttrName env (splitQName raw) =
        ⟨(splitQName raw).pfx, (resolveAttrName env (splitQName raw)).ns, (splitQName raw).loc⟩ := by
      cases hr : resolveAttrName env (splitQName raw) with
      | mk a b c => rw [hr] at e1 e2; simp only at e1 e2; subst e1 e2; rfl
    rw [e]; exact this
  obtain ⟨e1, e2⟩ := resolveAttrName_pfx env (splitQName raw)
  unfold isDecl at hnd
  simp only [Bool.or_eq_false_iff, Bool.and_eq_false_iff, beq_eq_false_iff_ne, ne_eq] at hnd
  have hnx : (resolveAttrName env (splitQName raw)).pfx ≠ some sXmlns := by rw [e1]; exact hnd.1
  refine ⟨hname, ?_, hnx, ?_, ?_⟩
  · intro hp
    rw [e1] at hp
    unfold resolveAttrName
    rw [hp]; simp only []
    rw [← hp]; rw [hp]; exact lookupNs_xml env
  · intro hn
    unfold resolveAttrName at hn
    cases hp : (splitQName raw).pfx with
    | none => rw [hp] at hn; simp only at hn; exact absurd hn (by decide)
    | some q =>
      rw [hp] at hn; simp only at hn
      have := lookupNs_xmlnsUri env henv _ hn
      exact hnd.1 (by rw [hp]; exact this)
  · intro hp
    rw [e1] at hp
    refine ⟨?_, ?_⟩
    · unfold resolveAttrName; rw [hp]
    · rw [e2]
      rcases hnd.2 with h | h
      · exact absurd hp h
      · exact h

/-! ### the attribute list -/

theorem dedup_expanded (seen : List (Str × Str)) (l : List Attr) :
    (((dedupPrefixed seen l).filter (fun a => a.name.pfx.isSome)).map (fun a => (a.name.ns, a.name.loc))).Nodup ∧
    ∀ a ∈ dedupPrefixed seen l, a.name.pfx.isSome = true → (a.name.ns, a.name.loc) ∉ seen := by
  induction l generalizing seen with
  | nil => simp [dedupPrefixed]
  | cons a rest ih =>
    unfold dedupPrefixed
    by_cases hp : a.name.pfx.isSome = true
    · simp only [hp, ↓reduceIte]
      by_cases hc : seen.contains (a.name.ns, a.name.loc) = true
      · simp only [hc, ↓reduceIte]; exact ih seen
      · simp only [hc, Bool.false_eq_true, ↓reduceIte]
        obtain ⟨h1, h2⟩ := ih ((a.name.ns, a.name.loc) :: seen)
        refine ⟨?_, ?_⟩
        · simp only [List.filter_cons, hp, ↓reduceIte, List.map_cons, List.nodup_cons]
          refine ⟨?_, h1⟩
          intro hm
          obtain ⟨b, hb, hbe⟩ := List.mem_map.mp hm
          have hb' := List.mem_filter.mp hb
          exact h2 b hb'.1 hb'.2 (by rw [hbe]; simp)
        · intro b hb hbp
          simp only [List.mem_cons] at hb
          rcases hb with rfl | hb
          · simpa using hc
          · intro hm; exact h2 b hb hbp (List.mem_cons_of_mem _ hm)
    · simp only [hp, Bool.false_eq_true, ↓reduceIte]
      obtain ⟨h1, h2⟩ := ih seen
      refine ⟨?_, ?_⟩
      · simpa [List.filter_cons, hp] using h1
      · intro b hb hbp
        simp only [List.mem_cons] at hb
        rcases hb with rfl | hb
        · exact absurd hbp hp
        · exact h2 b hb hbp

/-- **a resolved tokenizer-shaped tag is a `TagOKW` tag** -/
theorem resolveTag_ok (scopes : List Scope) (hs : ∀ f ∈ envOf scopes, FrameOK f) (t : Tag) (ht : TagShape t)
    (hk : t.kind = .start ∨ t.kind = .empty) :
    TagOKW (resolveTag scopes t).name (resolveTag scopes t).attrs := by
  unfold resolveTag
  simp only []
  generalize henv : frameOf t.attrs :: envOf scopes = env
  have hE : ∀ f ∈ env, FrameOK f := by
    intro f hf; subst henv
    simp only [List.mem_cons] at hf
    rcases hf with rfl | hf
    · exact frameOf_ok _
    · exact hs f hf
  obtain ⟨raw, hraw, hne⟩ := ht.name hk
  have hsub : (resolveAttrs env t.attrs).Sublist
      ((t.attrs.filter (fun a => !isDecl a.name)).map (fun a => (⟨resolveAttrName env a.name, a.value⟩ : Attr))) := by
    unfold resolveAttrs; exact dedup_sublist _ _
  have hattr : ∀ a ∈ resolveAttrs env t.attrs, ∃ r ∈ t.attrs, isDecl r.name = false ∧
      a.name = resolveAttrName env r.name := by
    intro a ha
    obtain ⟨r, hr, rfl⟩ := List.mem_map.mp (hsub.subset ha)
    have := List.mem_filter.mp hr
    exact ⟨r, this.1, by simpa using this.2, rfl⟩
  -- every name is resolved in `env`
  have hres : ∀ x ∈ resolveElemName env t.name :: (resolveAttrs env t.attrs).map (·.name),
      needs x = true → x.ns = lookupNs env x.pfx := by
    intro x hx hn
    simp only [List.mem_cons, List.mem_map] at hx
    rcases hx with rfl | ⟨a, ha, rfl⟩
    · rfl
    · obtain ⟨r, _, _, e⟩ := hattr a ha
      rw [e] at hn ⊢
      unfold resolveAttrName at hn ⊢
      cases hp : r.name.pfx with
      | none => rw [hp] at hn; simp [needs] at hn
      | some q => rfl
  refine ⟨?_, ?_, ?_, ?_, ?_⟩
  · rw [hraw]; exact elemNameOK_resolve env hE raw hne
  · intro a ha
    obtain ⟨r, hr, hnd, e⟩ := hattr a ha
    obtain ⟨raw', hne', hr'⟩ := ht.attrs r hr
    rw [e, hr']
    rw [hr'] at hnd
    exact attrNameOK_resolve env hE raw' hne' hnd
  · have h1 := hsub.map (fun a => (⟨a.name.pfx, a.name.loc⟩ : RName))
    apply List.Nodup.sublist h1
    rw [List.map_map]
    have : (t.attrs.filter (fun a => !isDecl a.name)).map
        ((fun a => (⟨a.name.pfx, a.name.loc⟩ : RName)) ∘ (fun a => (⟨resolveAttrName env a.name, a.value⟩ : Attr))) =
        (t.attrs.filter (fun a => !isDecl a.name)).map (·.name) := by
      apply List.map_congr_left
      intro a _
      simp only [Function.comp]
      obtain ⟨e1, e2⟩ := resolveAttrName_pfx env a.name
      rw [e1, e2]
    rw [this]
    exact List.Nodup.sublist (List.Sublist.map _ List.filter_sublist) ht.nodup
  · unfold resolveAttrs; exact (dedup_expanded [] _).1
  · intro x hx y hy hp hny hnx
    rw [hres x hx hnx, hres y hy hny, hp]

/-! ### the whole resolver -/

def WhereOK : Where → Prop
  | .content scopes => ∀ f ∈ envOf scopes, FrameOK f
  | _ => True

theorem closeScopes_sub (ns loc : Str) (scopes scopes' : List Scope) (h : closeScopes ns loc scopes = some scopes') :
    ∀ f ∈ envOf scopes', f ∈ envOf scopes := by
  induction scopes with
  | nil => simp [closeScopes] at h
  | cons sc rest ih =>
    simp only [closeScopes] at h
    split at h
    · injection h with h; subst h
      intro f hf; simp only [envOf, List.map_cons, List.mem_cons]; right; exact hf
    · intro f hf; simp only [envOf, List.map_cons, List.mem_cons]; right; exact ih h f hf

theorem whereOK_afterClose (scopes : List Scope) (h : ∀ f ∈ envOf scopes, FrameOK f) : WhereOK (afterClose scopes) := by
  cases scopes with
  | nil => trivial
  | cons sc rest => exact h

/-- **every element `S.resolve` creates from tokenizer-shaped tokens is a `TagOKW` tag** -/
theorem resolve_ok (toks : List Token) : ∀ (w : Where), WhereOK w →
    (∀ t ∈ toks, TokShape t) → ∀ c ∈ resolve w toks, TagOKW c.name c.attrs := by
  induction toks with
  | nil => intro w _ _ c hc; simp [resolve] at hc
  | cons tok rest ih =>
    intro w hw hts c hc
    have htok := hts tok (by simp)
    have hrest : ∀ t ∈ rest, TokShape t := fun t ht => hts t (by simp [ht])
    have hnil : ∀ f ∈ envOf [], FrameOK f := by intro f hf; simp [envOf] at hf
    match w, hw with
    | .epilog, _ => simp only [resolve] at hc; exact ih .epilog trivial hrest c hc
    | .prolog, _ =>
      match tok, htok with
      | .tag ⟨.start, n, as⟩, htok =>
        simp only [resolve, List.mem_cons] at hc
        rcases hc with rfl | hc
        · exact resolveTag_ok [] hnil _ htok (Or.inl rfl)
        · refine ih _ ?_ hrest c hc
          intro f hf
          simp only [envOf, scopeOf, List.map_cons, List.map_nil, List.mem_singleton] at hf
          subst hf; exact frameOf_ok _
      | .tag ⟨.empty, n, as⟩, htok =>
        simp only [resolve, List.mem_cons] at hc
        rcases hc with rfl | hc
        · exact resolveTag_ok [] hnil _ htok (Or.inr rfl)
        · exact ih .epilog trivial hrest c hc
      | .tag ⟨.end_, n, as⟩, _ => simp only [resolve] at hc; exact ih .prolog trivial hrest c hc
      | .tag ⟨.short, n, as⟩, _ => simp only [resolve] at hc; exact ih .prolog trivial hrest c hc
      | .eof, _ => simp only [resolve] at hc; exact ih .epilog trivial hrest c hc
      | .doctype _ _ _, _ => simp only [resolve] at hc; exact ih .prolog trivial hrest c hc
      | .comment _, _ => simp only [resolve] at hc; exact ih .prolog trivial hrest c hc
      | .chars _, _ => simp only [resolve] at hc; exact ih .prolog trivial hrest c hc
      | .pi _ _, _ => simp only [resolve] at hc; exact ih .prolog trivial hrest c hc
      | .nullChar, _ => simp only [resolve] at hc; exact ih .prolog trivial hrest c hc
    | .content scopes, hw =>
      have hw' : ∀ f ∈ envOf scopes, FrameOK f := hw
      match tok, htok with
      | .tag ⟨.start, n, as⟩, htok =>
        simp only [resolve, List.mem_cons] at hc
        rcases hc with rfl | hc
        · exact resolveTag_ok scopes hw' _ htok (Or.inl rfl)
        · refine ih _ ?_ hrest c hc
          intro f hf
          simp only [envOf, scopeOf, List.map_cons, List.mem_cons] at hf
          rcases hf with rfl | hf
          · exact frameOf_ok _
          · exact hw' f hf
      | .tag ⟨.empty, n, as⟩, htok =>
        simp only [resolve, List.mem_cons] at hc
        rcases hc with rfl | hc
        · exact resolveTag_ok scopes hw' _ htok (Or.inr rfl)
        · exact ih _ hw hrest c hc
      | .tag ⟨.end_, n, as⟩, _ =>
        simp only [resolve] at hc
        split at hc
        · rename_i scopes' hcl
          exact ih _ (whereOK_afterClose scopes' (fun f hf => hw' f (closeScopes_sub _ _ _ _ hcl f hf))) hrest c hc
        · exact ih _ hw hrest c hc
      | .tag ⟨.short, n, as⟩, _ =>
        simp only [resolve] at hc
        refine ih _ (whereOK_afterClose _ ?_) hrest c hc
        intro f hf
        cases scopes with
        | nil => simp [envOf] at hf
        | cons sc r => exact hw' f (by simp only [envOf, List.map_cons, List.mem_cons]; right; exact hf)
      | .eof, _ => simp only [resolve] at hc; exact ih .epilog trivial hrest c hc
      | .nullChar, _ => simp only [resolve] at hc; exact ih .epilog trivial hrest c hc
      | .doctype _ _ _, _ => simp only [resolve] at hc; exact ih _ hw hrest c hc
      | .comment _, _ => simp only [resolve] at hc; exact ih _ hw hrest c hc
      | .chars _, _ => simp only [resolve] at hc; exact ih _ hw hrest c hc
      | .pi _ _, _ => simp only [resolve] at hc; exact ih _ hw hrest c hc

/-! ### from the element list to `treesOKW` -/

mutual
theorem treeOKW_of_elems : ∀ (nd : Node), (∀ c ∈ elemsOf nd, TagOKW c.name c.attrs) → treeOKW nd
  | .elem n as ks, h => by
    simp only [treeOKW]
    exact ⟨h ⟨n, as⟩ (by simp [elemsOf]), treesOKW_of_elems ks (fun c hc => h c (by simp [elemsOf, hc]))⟩
  | .text _, _ => trivial
  | .comment _, _ => trivial
  | .pi _ _, _ => trivial
  | .doctype _ _ _, _ => trivial
theorem treesOKW_of_elems : ∀ (ns : List Node), (∀ c ∈ elemsOfL ns, TagOKW c.name c.attrs) → treesOKW ns
  | [], _ => trivial
  | n :: rest, h => by
    simp only [treesOKW]
    exact ⟨treeOKW_of_elems n (fun c hc => h c (by simp [elemsOfL, hc])),
      treesOKW_of_elems rest (fun c hc => h c (by simp [elemsOfL, hc]))⟩
end

/-! ### the tag the tokenizer step builds has `TagShape` -/

theorem foldl_shape (l : List RawAttr) (acc : List RAttr)
    (hacc : ∀ y ∈ acc, ∃ raw, raw ≠ [] ∧ y.name = splitQName raw) :
    ∀ y ∈ l.foldl (finishAttribute TokCfg.fixed) acc, ∃ raw, raw ≠ [] ∧ y.name = splitQName raw := by
  induction l generalizing acc with
  | nil => exact hacc
  | cons a rest ih =>
    apply ih
    intro y hy
    unfold finishAttribute at hy
    split at hy
    · exact hacc y hy
    · rename_i hne
      split at hy
      · exact hacc y hy
      · rcases (mem_pushAttr _ _ _ _).mp hy with rfl | hy
        · exact ⟨a.name, hne, rfl⟩
        · exact hacc y hy

theorem finishTag_shape (t : RawTag) (h : (t.kind = .start ∨ t.kind = .empty) → t.name ≠ []) :
    TagShape (finishTag TokCfg.fixed t) :=
  ⟨fun hk => ⟨t.name, rfl, h hk⟩, foldl_shape t.attrs [] (by simp), C16_tok_no_dup_qname_fixed t.attrs⟩

end H5V.Lemmas.XmlShape
