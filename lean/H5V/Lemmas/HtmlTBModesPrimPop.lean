import H5V.Lemmas.HtmlTBModesDefs
/-!
Simulation lemmas for the stack-popping and query primitives of `H5V.Model.HtmlTB` (`Actions.lean`)
against the helpers of `H5V.Spec.TreeModes` (section `Helpers` of `TreeModes1`, `clearBackToTable*` /
`closeCell` of `TreeModes3`, `bodyEndCheck` / `removeFromStack` / "any other end tag" of `TreeModes2`).

Two transports do the work: `Tr.of_pops` (a phase-1 `PopsTo` result is a stretch whose abstract state
is the old one with the stack replaced) and `pc_query_spec` (a phase-1 `QueryQ` result is a stretch that
leaves the abstract state alone and whose answer is the specification's).
-/
namespace H5V.Lemmas.HtmlTBModes
open H5V.Model.HtmlTB
open H5V.Model.Dom (Id SinkOp Output Dom QualName Attr NodeOrText ElementFlags NodeData QuirksMode)
open H5V.Lemmas.HtmlTBAlgo
open H5V.Lemmas.TBSafe (TI HInv SInv Rooted)
open H5V.Spec.TreeAlgo2 (Elem Entry PState Ctx Edit Place)
open H5V.Spec.TreeModes (STok ETok IMode Config Out TokSwitch XOp Op Step Edition)
open H5V.Lemmas.HtmlTBSpec (toName)

/-! ### steps that change the stack and the list of active formatting elements only -/

/-- the fields of the tree builder other than the stack of open elements and the list of active
formatting elements are unchanged -/
structure SameButSL (s s' : State) : Prop where
  opts : s'.opts = s.opts
  mode : s'.mode = s.mode
  origMode : s'.origMode = s.origMode
  templateModes : s'.templateModes = s.templateModes
  pendingTableText : s'.pendingTableText = s.pendingTableText
  quirksMode : s'.quirksMode = s.quirksMode
  docHandle : s'.docHandle = s.docHandle
  headElem : s'.headElem = s.headElem
  formElem : s'.formElem = s.formElem
  framesetOk : s'.framesetOk = s.framesetOk
  ignoreLf : s'.ignoreLf = s.ignoreLf
  fosterParenting : s'.fosterParenting = s.fosterParenting
  contextElem : s'.contextElem = s.contextElem

theorem SameButSL.of_eq {s s' : State}
    (h : s' = { s with openElems := s'.openElems, activeFormatting := s'.activeFormatting, dom := s'.dom,
                       traceRev := s'.traceRev }) : SameButSL s s' := by
  constructor <;> rw [h]

theorem SameButSL.of_stackOnly {s s' : State} (h : StackOnly s s') : SameButSL s s' := by
  unfold StackOnly at h
  constructor <;> rw [h]

theorem SameButSL.refl (s : State) : SameButSL s s := ⟨rfl, rfl, rfl, rfl, rfl, rfl, rfl, rfl, rfl, rfl, rfl, rfl, rfl⟩

theorem SameButSL.trans {a b c : State} (h1 : SameButSL a b) (h2 : SameButSL b c) : SameButSL a c :=
  ⟨h2.opts.trans h1.opts, h2.mode.trans h1.mode, h2.origMode.trans h1.origMode,
   h2.templateModes.trans h1.templateModes, h2.pendingTableText.trans h1.pendingTableText,
   h2.quirksMode.trans h1.quirksMode, h2.docHandle.trans h1.docHandle, h2.headElem.trans h1.headElem,
   h2.formElem.trans h1.formElem, h2.framesetOk.trans h1.framesetOk, h2.ignoreLf.trans h1.ignoreLf,
   h2.fosterParenting.trans h1.fosterParenting, h2.contextElem.trans h1.contextElem⟩

/-- the stack of a live abstract state -/
theorem absF_stack {s : State} {x : Aux} (hx : AuxOk s x) : (absF s x).p.stack = absStack s.dom s.openElems := by
  simp only [absF, absP, hx.live, Bool.false_eq_true, if_false]

theorem absF_list (s : State) (x : Aux) : (absF s x).p.list = absListE s.activeFormatting := rfl

/-- `MInv` after the stack and the list of active formatting elements shrank -/
theorem MInv.of_shrink {s s' : State} (hm : MInv s) (hf : SameButSL s s') (he : TBSafe.Ext s.dom s'.dom)
    (ho : ∀ h ∈ s'.openElems, h ∈ s.openElems)
    (hhead : ∀ h0, s'.openElems.head? = some h0 → s.openElems.head? = some h0)
    (haf : ∀ e ∈ s'.activeFormatting, e ∈ s.activeFormatting) : MInv s' := by
  refine ⟨fun h hh => isElement_ext he (hm.elems h (ho h hh)), ?_, ?_, ?_, ?_, ?_, ?_, ?_,
    by rw [hf.templateModes]; exact hm.tmodes, hm.form_ext he hf.formElem,
    by rw [hf.pendingTableText]; exact hm.pend⟩
  · intro h0 hh
    have h1 := hhead h0 hh
    rw [nameOf_ext he (hm.elems h0 (List.mem_of_head? h1))]
    exact hm.root h0 h1
  · intro h t hmem
    obtain ⟨_, b, c⟩ := hm.af h t (haf _ hmem)
    refine ⟨isElement_lt (isElement_ext he (hm.afEl h t (haf _ hmem))), b, fun hx => ?_⟩
    rw [nameOf_ext he (hm.elems h (ho h hx))]
    exact c (ho h hx)
  · intro h t hmem; exact isElement_ext he (hm.afEl h t (haf _ hmem))
  · intro h hh; rw [hf.headElem] at hh; exact isElement_ext he (hm.head h hh)
  · exact hm.ctx_ext he hf.contextElem
  · intro h t hmem
    rw [nameOf_ext he (hm.afEl h t (haf _ hmem))]; exact hm.afwf h t (haf _ hmem)
  · intro h hh
    rw [nameOf_ext he (hm.elems h (ho h hh)), ipOfDom_ext he (hm.elems h (ho h hh))]; exact hm.ip h (ho h hh)

theorem cfgOf_of_sameButSL {s s' : State} (hm : MInv s) (hf : SameButSL s s') (he : TBSafe.Ext s.dom s'.dom) :
    cfgOf s' = cfgOf s := by
  obtain ⟨c1, c2⟩ := context_ext hm he
  simp only [cfgOf, hf.docHandle, hf.opts, hf.contextElem, c1, c2]

/-- the abstract state after the stack and the list changed -/
theorem absF_of_sameButSL {s s' : State} {x : Aux} (hm : MInv s) (hx : AuxOk s x) (hf : SameButSL s s')
    (he : TBSafe.Ext s.dom s'.dom) (ho : ∀ h ∈ s'.openElems, h ∈ s.openElems) :
    absF s' x = ((absF s x).setStack (absStack s.dom s'.openElems)).setList (absListE s'.activeFormatting) := by
  have e1 : absStack s'.dom s'.openElems = absStack s.dom s'.openElems :=
    absStack_ext (fun h hh => hm.elems h (ho h hh)) he
  have e2 : s'.headElem.map (elemOf s'.dom) = s.headElem.map (elemOf s.dom) := by
    rw [hf.headElem]; exact headPointer_ext hm he
  simp only [absF, absP, e1, e2, hf.mode, hf.origMode, hf.templateModes, hf.pendingTableText, hf.quirksMode,
    hf.formElem, hf.framesetOk, hf.ignoreLf, hf.fosterParenting, hx.live, Bool.false_eq_true, if_false,
    Spec.TreeModes.State.setStack, Spec.TreeModes.State.setList]

/-- **transport (a), general form**: a stretch in which the stack and the list of active formatting
elements shrank and no call was made that the specification sees -/
theorem Tr.of_shrink {s s' : State} {calls : List Call} (hm : MInv s) (hf : SameButSL s s')
    (he : Ext2 s calls s') (hc : edits calls = [])
    (ho : ∀ h ∈ s'.openElems, h ∈ s.openElems)
    (hhead : ∀ h0, s'.openElems.head? = some h0 → s.openElems.head? = some h0)
    (haf : ∀ e ∈ s'.activeFormatting, e ∈ s.activeFormatting) :
    Tr s s' calls (fun x x' => x' = x ∧
      absF s' x = ((absF s x).setStack (absStack s.dom s'.openElems)).setList (absListE s'.activeFormatting)) := by
  refine ⟨hm.of_shrink hf he.ext ho hhead haf, cfgOf_of_sameButSL hm hf he.ext, he.ext, [], FreshIds.nil _, fun x rest hx hs =>
    ⟨x, ⟨⟨hx.live, ?_, fun a ha => isElement_ext he.ext (hx.annotEl a ha), hx.xlog⟩, by simpa using hs, rfl, rfl, rfl,
      [], by simp, fun _ _ => ?_⟩, rfl, absF_of_sameButSL hm hx hf he.ext ho⟩⟩
  · intro h hh hn
    rw [nameOf_ext he.ext (hm.elems h (ho h hh))] at hn
    rw [hx.annot h (ho h hh) hn, ipOfDom_ext he.ext (hm.elems h (ho h hh))]
  · rw [← edits2_edits, hc]; rfl

theorem head?_of_prefix {α : Type} {l' l : List α} (hp : l' <+: l) (a : α) (h : l'.head? = some a) : l.head? = some a := by
  obtain ⟨t, rfl⟩ := hp
  cases l' with
  | nil => cases h
  | cons b r => exact h

/-- **transport (a)**: a stretch in which the stack shrank to a prefix (`StackOnly`, no edit) -/
theorem Tr.of_prefix {s s' : State} {calls : List Call} (hm : MInv s) (hso : StackOnly s s')
    (hp : s'.openElems <+: s.openElems) (he : Ext2 s calls s') (hc : edits calls = []) :
    Tr s s' calls (fun x x' => x' = x ∧ absF s' x = (absF s x).setStack (absStack s.dom s'.openElems)) := by
  have haf := hso.activeFormatting
  refine (Tr.of_shrink hm (SameButSL.of_stackOnly hso) he hc (fun h hh => hp.subset hh) (head?_of_prefix hp)
    (fun e h => haf ▸ h)).conseq ?_
  rintro x x' _ _ ⟨rfl, e⟩
  refine ⟨rfl, ?_⟩
  rw [e, haf]
  rfl

/-- **transport (a)** for a phase-1 `PopsTo` result: the new abstract state is the old one with `f`
applied to the stack -/
theorem Tr.of_pops {s s' : State} {calls : List Call} {f : List (Elem Id) → List (Elem Id)} (hm : MInv s)
    (h : PopsTo s f s' calls) (he : Ext2 s calls s') :
    Tr s s' calls (fun x x' => x' = x ∧ absF s' x = (absF s x).setStack (f (absF s x).p.stack)) := by
  obtain ⟨hso, hp, hab, hc⟩ := h
  refine (Tr.of_prefix hm hso hp he hc).conseq ?_
  rintro x x' hx _ ⟨rfl, e⟩
  refine ⟨rfl, ?_⟩
  rw [e, hab, absF_stack hx]

/-- a `PopsTo` triple of phase 1 as a `PC` triple over the abstract state -/
theorem pc_of_pops {α : Type} {m : M α} {s : State} {f : List (Elem Id) → List (Elem Id)} (hm : MInv s)
    (h : Tot m s (fun _ s' calls => PopsTo s f s' calls)) :
    PC m s (fun _ s' calls => Tr s s' calls (fun x x' => x' = x ∧
      absF s' x = (absF s x).setStack (f (absF s x).p.stack))) :=
  pc_conseq (PC.of_tot h) fun _ _ _ he hp => Tr.of_pops hm hp he

/-! ### queries -/

/-- **transport (b)**: a query of phase 1 leaves the abstract state alone -/
theorem pc_of_query {α : Type} {q : M α} {s : State} {v : α} (hm : MInv s) (h : Tot q s (QueryQ s v)) :
    PC q s (fun b s' calls => b = v ∧ Tr s s' calls (fun x x' => x' = x ∧ absF s x = absF s' x)) :=
  pc_conseq (PC.of_tot h) fun _ _ _ he ⟨ha, hs, hc⟩ =>
    ⟨ha, Tr.of_same hm hs he (by rw [← edits2_edits, hc]; rfl)⟩

/-- **transport (b)**, with the answer as a function `g` of the abstract state -/
theorem pc_query_spec {α : Type} {q : M α} {s : State} {v : α} (hm : MInv s) (h : Tot q s (QueryQ s v))
    (g : SState → α) (hg : ∀ x, AuxOk s x → g (absF s x) = v) :
    PC q s (fun b s' calls => Tr s s' calls (fun x x' => x' = x ∧ absF s x = absF s' x ∧ b = g (absF s x))) :=
  pc_conseq (pc_of_query hm h) fun b _ _ _ ⟨hb, htr⟩ =>
    htr.conseq fun x _ hx _ ⟨h1, h2⟩ => ⟨h1, h2, by rw [hg x hx]; exact hb⟩


/-! ### the stack of the abstract state -/

theorem absStack_getLast? (d : Dom) (l : List Id) : (absStack d l).getLast? = l.getLast?.map (elemOf d) := by
  unfold absStack; rw [List.getLast?_map]

theorem absStack_dropLast (d : Dom) (l : List Id) : absStack d l.dropLast = (absStack d l).dropLast := by
  unfold absStack; rw [List.map_dropLast]

/-- the current node of a live abstract state -/
theorem absF_cur {s : State} {x : Aux} (hx : AuxOk s x) :
    (absF s x).cur = s.openElems.getLast?.map (elemOf s.dom) := by
  unfold Spec.TreeModes.State.cur
  rw [absF_stack hx, absStack_getLast?]

/-- the element types of a live abstract state, current node first -/
theorem absF_names {s : State} {x : Aux} (hx : AuxOk s x) :
    (absF s x).names = namesRev (absStack s.dom s.openElems) := by
  unfold Spec.TreeModes.State.names namesRev
  rw [absF_stack hx]

/-- with the edition of `cfgOf`, the scope lists are those of `Spec.TreeAlgo` (2025 text: `select` is
in the default list) -/
theorem scopeList_cfgOf (s : State) (base : Spec.TreeAlgo.Name → Bool) :
    Spec.TreeModes.scopeList (cfgOf s) base = base := rfl

/-! ### the current node -/

/-- `current_node()` panics on the empty stack -/
theorem pc_currentNode_empty {s : State} (hl : s.openElems.getLast? = none) {Q : Id → State → List Call → Prop} :
    PC currentNode s Q := by
  unfold currentNode
  refine pc_getS_bind ?_
  simp only [hl]
  exact pc_panicAt

/-- `current_node()` — `State.cur` -/
theorem pc_currentNode {s : State} (hm : MInv s) :
    PC currentNode s (fun h s' calls => s.openElems.getLast? = some h ∧ s' = s ∧ calls = [] ∧
      Tr s s' calls (fun x x' => x' = x ∧ absF s x = absF s' x ∧ (absF s x).cur = some (elemOf s.dom h))) := by
  cases hl : s.openElems.getLast? with
  | none => exact pc_currentNode_empty hl
  | some h0 =>
    refine pc_conseq (PC.of_tot (pop_tot_currentNode_eq hl)) ?_
    rintro a s' calls he ⟨rfl, rfl, rfl⟩
    refine ⟨rfl, rfl, rfl, (Tr.refl hm).conseq ?_⟩
    rintro x x' hx _ rfl
    exact ⟨rfl, rfl, by rw [absF_cur hx, hl]; rfl⟩

/-- `current_node_in(set)` — `State.curIn l` (for a set that is the list `l` of HTML element types) -/
theorem pc_currentNodeIn {s : State} (hm : MInv s) (set : EName → Bool) (l : List String)
    (hset : ∀ n, set n = Spec.TreeAlgo.inHtml l (toName n)) :
    PC (currentNodeIn set) s (fun b s' calls =>
      Tr s s' calls (fun x x' => x' = x ∧ absF s x = absF s' x ∧ b = (absF s x).curIn l)) := by
  cases hl : s.openElems.getLast? with
  | none => unfold currentNodeIn; exact pc_bind (pc_currentNode_empty hl)
  | some h0 =>
    refine pc_query_spec hm (pop_tot_currentNodeIn hl set) (fun σ => σ.curIn l) ?_
    intro x hx
    show (absF s x).curIn l = set (nameOf s.dom h0)
    unfold Spec.TreeModes.State.curIn
    rw [absF_cur hx, hl, hset]
    rfl

/-- `current_node_in(heading_tag)` — `State.curIn TreeTables.heading` -/
theorem pc_currentNodeIn_heading {s : State} (hm : MInv s) :
    PC (currentNodeIn headingTag) s (fun b s' calls =>
      Tr s s' calls (fun x x' => x' = x ∧ absF s x = absF s' x ∧ b = (absF s x).curIn Spec.TreeTables.heading)) :=
  pc_currentNodeIn hm headingTag _ fun _ => rfl

/-- `current_node_in(table_outer)` of `process_chars_in_table` —
`State.curIn ["table", "tbody", "template", "tfoot", "thead", "tr"]` -/
theorem pc_currentNodeIn_tableOuterChars {s : State} (hm : MInv s) :
    PC (currentNodeIn tableOuterChars) s (fun b s' calls =>
      Tr s s' calls (fun x x' => x' = x ∧ absF s x = absF s' x ∧
        b = (absF s x).curIn ["table", "tbody", "template", "tfoot", "thead", "tr"])) :=
  pc_currentNodeIn hm tableOuterChars _ fun _ => rfl

/-- `current_node_named(name)` (a `Str`) — `σ.cur.any fun e => isNamed name e.name` -/
theorem pc_currentNodeNamedS {s : State} (hm : MInv s) (name : Str) :
    PC (currentNodeNamedS name) s (fun b s' calls =>
      Tr s s' calls (fun x x' => x' = x ∧ absF s x = absF s' x ∧
        b = (absF s x).cur.any (fun e => Spec.TreeModes.isNamed name e.name))) := by
  cases hl : s.openElems.getLast? with
  | none => unfold currentNodeNamedS; exact pc_bind (pc_currentNode_empty hl)
  | some h0 =>
    have ht : Tot (currentNodeNamedS name) s
        (QueryQ s ((nameOf s.dom h0).ns == nsHtml && (nameOf s.dom h0).loc == name)) := by
      unfold currentNodeNamedS
      refine tot_query_bind (pop_tot_currentNode hl) fun s1 c1 he1 hs1 hc1 => ?_
      refine tot_conseq (tot_htmlElemNamedS s1 h0 name) fun b s2 c2 _ ⟨h1, h2, h3⟩ => ⟨?_, hs1.trans h2, by simp [edits_append, hc1, h3]⟩
      rw [h1, nameOf_stable he1.stable (hm.elems h0 (List.mem_of_getLast? hl))]
    refine pc_query_spec hm ht (fun σ => σ.cur.any (fun e => Spec.TreeModes.isNamed name e.name)) ?_
    intro x hx
    show (absF s x).cur.any _ = _
    rw [absF_cur hx, hl]
    rfl

/-- `current_node_named(name)` — `State.curIs name` -/
theorem pc_currentNodeNamed {s : State} (hm : MInv s) (name : String) :
    PC (currentNodeNamed name) s (fun b s' calls =>
      Tr s s' calls (fun x x' => x' = x ∧ absF s x = absF s' x ∧ b = (absF s x).curIs name)) :=
  pc_currentNodeNamedS hm name.toList

/-! ### `pop` -/

/-- `pop` — `State.pop`; on the empty stack the model panics -/
theorem pc_pop {s : State} (hm : MInv s) :
    PC pop s (fun h s' calls => s.openElems.getLast? = some h ∧ s'.openElems = s.openElems.dropLast ∧
      StackOnly s s' ∧
      Tr s s' calls (fun x x' => x' = x ∧ absF s' x = (absF s x).pop ∧ (absF s x).cur = some (elemOf s.dom h))) := by
  cases hl : s.openElems.getLast? with
  | none =>
    unfold pop
    refine pc_getS_bind ?_
    simp only [hl]
    exact pc_panicAt
  | some h0 =>
    refine pc_conseq (PC.of_tot (pop_tot_pop hl)) ?_
    rintro a s' calls he ⟨rfl, hso, hst, hc⟩
    refine ⟨rfl, hst, hso, (Tr.of_prefix hm hso (hst ▸ List.dropLast_prefix _) he hc).conseq ?_⟩
    rintro x x' hx _ ⟨rfl, e⟩
    refine ⟨rfl, ?_, by rw [absF_cur hx, hl]; rfl⟩
    rw [e, hst, absStack_dropLast, ← absF_stack hx]
    rfl

/-! ### "is there a … element on the stack", scopes -/

/-- `in_html_elem_named(name)` — `σ.p.stack.any fun e => e.name.isHtml name` -/
theorem pc_inHtmlElemNamed {s : State} (hm : MInv s) (name : String) :
    PC (inHtmlElemNamed name) s (fun b s' calls =>
      Tr s s' calls (fun x x' => x' = x ∧ absF s x = absF s' x ∧
        b = (absF s x).p.stack.any (fun e => e.name.isHtml name))) := by
  refine pc_query_spec hm (pop_tot_inHtmlElemNamed s hm.elems name) (fun σ => σ.p.stack.any (fun e => e.name.isHtml name)) ?_
  intro x hx
  show (absF s x).p.stack.any _ = _
  rw [absF_stack hx]

/-- `in_html_elem_named("template")` — `State.templateOnStack` -/
theorem pc_inHtmlElemNamed_template {s : State} (hm : MInv s) :
    PC (inHtmlElemNamed "template") s (fun b s' calls =>
      Tr s s' calls (fun x x' => x' = x ∧ absF s x = absF s' x ∧ b = (absF s x).templateOnStack)) :=
  pc_inHtmlElemNamed hm "template"

/-- `in_scope_named(default_scope, name)` — `hasStrInScope` -/
theorem pc_inScopeNamedS_default {s : State} (hm : MInv s) (name : Str) :
    PC (inScopeNamedS defaultScope name) s (fun b s' calls =>
      Tr s s' calls (fun x x' => x' = x ∧ absF s x = absF s' x ∧
        b = Spec.TreeModes.hasStrInScope (cfgOf s) (absF s x) name)) := by
  refine pc_query_spec hm (tot_inScopeNamedS_default s hm.elems name) (fun σ => Spec.TreeModes.hasStrInScope (cfgOf s) σ name) ?_
  intro x hx
  show Spec.TreeModes.hasStrInScope (cfgOf s) (absF s x) name = _
  unfold Spec.TreeModes.hasStrInScope
  rw [absF_names hx]
  rfl

/-- `in_scope_named(default_scope, name)` — `hasInScope` -/
theorem pc_inScopeNamed_default {s : State} (hm : MInv s) (name : String) :
    PC (inScopeNamed defaultScope name) s (fun b s' calls =>
      Tr s s' calls (fun x x' => x' = x ∧ absF s x = absF s' x ∧
        b = Spec.TreeModes.hasInScope (cfgOf s) (absF s x) name)) :=
  pc_inScopeNamedS_default hm name.toList

/-- `in_scope_named(list_item_scope, name)` — `hasInListItemScope` (for a `Str`) -/
theorem pc_inScopeNamedS_listItem {s : State} (hm : MInv s) (name : Str) :
    PC (inScopeNamedS listItemScope name) s (fun b s' calls =>
      Tr s s' calls (fun x x' => x' = x ∧ absF s x = absF s' x ∧
        b = Spec.TreeAlgo.hasInScope (Spec.TreeModes.isNamed name)
          (Spec.TreeModes.scopeList (cfgOf s) Spec.TreeAlgo.listItemScopeList) (absF s x).names)) := by
  refine pc_query_spec hm (tot_inScopeNamedS_listItem s hm.elems name)
    (fun σ => Spec.TreeAlgo.hasInScope (Spec.TreeModes.isNamed name)
      (Spec.TreeModes.scopeList (cfgOf s) Spec.TreeAlgo.listItemScopeList) σ.names) ?_
  intro x hx
  show Spec.TreeAlgo.hasInScope _ _ (absF s x).names = _
  rw [absF_names hx]
  rfl

/-- `in_scope_named(list_item_scope, name)` — `hasInListItemScope` -/
theorem pc_inScopeNamed_listItem {s : State} (hm : MInv s) (name : String) :
    PC (inScopeNamed listItemScope name) s (fun b s' calls =>
      Tr s s' calls (fun x x' => x' = x ∧ absF s x = absF s' x ∧
        b = Spec.TreeModes.hasInListItemScope (cfgOf s) (absF s x) name)) :=
  pc_inScopeNamedS_listItem hm name.toList

/-- `in_scope_named(button_scope, name)` — `hasInButtonScope` (for a `Str`) -/
theorem pc_inScopeNamedS_button {s : State} (hm : MInv s) (name : Str) :
    PC (inScopeNamedS buttonScope name) s (fun b s' calls =>
      Tr s s' calls (fun x x' => x' = x ∧ absF s x = absF s' x ∧
        b = Spec.TreeAlgo.hasInScope (Spec.TreeModes.isNamed name)
          (Spec.TreeModes.scopeList (cfgOf s) Spec.TreeAlgo.buttonScopeList) (absF s x).names)) := by
  refine pc_query_spec hm (tot_inScopeNamedS_button s hm.elems name)
    (fun σ => Spec.TreeAlgo.hasInScope (Spec.TreeModes.isNamed name)
      (Spec.TreeModes.scopeList (cfgOf s) Spec.TreeAlgo.buttonScopeList) σ.names) ?_
  intro x hx
  show Spec.TreeAlgo.hasInScope _ _ (absF s x).names = _
  rw [absF_names hx]
  rfl

/-- `in_scope_named(button_scope, name)` — `hasInButtonScope` -/
theorem pc_inScopeNamed_button {s : State} (hm : MInv s) (name : String) :
    PC (inScopeNamed buttonScope name) s (fun b s' calls =>
      Tr s s' calls (fun x x' => x' = x ∧ absF s x = absF s' x ∧
        b = Spec.TreeModes.hasInButtonScope (cfgOf s) (absF s x) name)) :=
  pc_inScopeNamedS_button hm name.toList

/-- `in_scope_named(table_scope, name)` — `hasStrInTableScope` -/
theorem pc_inScopeNamedS_table {s : State} (hm : MInv s) (name : Str) :
    PC (inScopeNamedS tableScope name) s (fun b s' calls =>
      Tr s s' calls (fun x x' => x' = x ∧ absF s x = absF s' x ∧
        b = Spec.TreeModes.hasStrInTableScope (absF s x) name)) := by
  refine pc_query_spec hm (tot_inScopeNamedS_table s hm.elems name) (fun σ => Spec.TreeModes.hasStrInTableScope σ name) ?_
  intro x hx
  show Spec.TreeModes.hasStrInTableScope (absF s x) name = _
  unfold Spec.TreeModes.hasStrInTableScope
  rw [absF_names hx]

/-- `in_scope_named(table_scope, name)` — `hasInTableScope` -/
theorem pc_inScopeNamed_table {s : State} (hm : MInv s) (name : String) :
    PC (inScopeNamed tableScope name) s (fun b s' calls =>
      Tr s s' calls (fun x x' => x' = x ∧ absF s x = absF s' x ∧
        b = Spec.TreeModes.hasInTableScope (absF s x) name)) :=
  pc_inScopeNamedS_table hm name.toList


/-! ### `in_scope(scope, pred)` for a predicate on the handle and its element type -/

/-- the loop of `in_scope` as a function of the names: `pv h n` = the predicate for the handle `h`
whose element type is `n`; the list has the current node first -/
def scopePure (pv : Id → EName → Bool) (scope : EName → Bool) (nm : Id → EName) : List Id → Bool
  | [] => false
  | h :: r => if pv h (nm h) then true else if scope (nm h) then false else scopePure pv scope nm r

theorem tot_inScopeLoop_gen (scope : EName → Bool) (pred : Id → M Bool) (pv : Id → EName → Bool) (nm : Id → EName)
    (hpred : ∀ h (s : State), s.dom.isElement h = true → nameOf s.dom h = nm h →
      Tot (pred h) s (QueryQ s (pv h (nm h)))) :
    ∀ (r : List Id) (s : State), NamedBy s.dom r nm →
      Tot (inScopeLoop scope pred r) s (QueryQ s (scopePure pv scope nm r)) := by
  intro r
  induction r with
  | nil => intro s _; exact tot_pure ⟨rfl, rfl, rfl⟩
  | cons h r ih =>
    intro s hn
    simp only [inScopeLoop, scopePure]
    have hh := hn h (List.mem_cons_self ..)
    refine tot_query_bind (hpred h s hh.1 hh.2) fun s1 c1 he1 hs1 hc1 => ?_
    by_cases hp : pv h (nm h) = true
    · simp only [hp, if_true]
      exact tot_pure ⟨rfl, hs1, by simp [hc1]⟩
    · simp only [hp, Bool.false_eq_true, if_false]
      have hn1 := hn.stable he1.stable
      refine tot_query_bind (tot_elemName' s1 h) fun s2 c2 he2 hs2 hc2 => ?_
      rw [(hn1 h (List.mem_cons_self ..)).2]
      by_cases hsc : scope (nm h) = true
      · simp only [hsc, if_true]
        exact tot_pure ⟨rfl, hs1.trans hs2, by simp [edits_append, hc1, hc2]⟩
      · simp only [hsc, Bool.false_eq_true, if_false]
        refine tot_conseq (ih s2 (hn1.tail.stable he2.stable)) fun _ s3 c3 _ ⟨h1, h2, h3⟩ =>
          ⟨h1, hs1.trans (hs2.trans h2), by simp [edits_append, hc1, hc2, h3]⟩

theorem tot_inScope_gen (s : State) (hok : ElemsOk s.dom s.openElems) (scope : EName → Bool) (pred : Id → M Bool)
    (pv : Id → EName → Bool)
    (hpred : ∀ h (s1 : State), s1.dom.isElement h = true → nameOf s1.dom h = nameOf s.dom h →
      Tot (pred h) s1 (QueryQ s1 (pv h (nameOf s.dom h)))) :
    Tot (inScope scope pred) s (QueryQ s (scopePure pv scope (nameOf s.dom) s.openElems.reverse)) := by
  unfold inScope
  refine tot_getS_bind ?_
  exact tot_inScopeLoop_gen scope pred pv (nameOf s.dom) hpred s.openElems.reverse s (NamedBy.of_elemsOk hok).reverse

theorem scopePure_set (d : Dom) (set scope : EName → Bool) (tq q : Spec.TreeAlgo.Name → Bool)
    (hset : ∀ n, set n = tq (toName n)) (hq : ∀ n, scope n = q (toName n)) : ∀ r : List Id,
    scopePure (fun _ n => set n) scope (nameOf d) r
      = Spec.TreeAlgo.hasInScope tq q (r.map fun h => toName (nameOf d h))
  | [] => rfl
  | h :: r => by
    simp only [scopePure, List.map_cons, Spec.TreeAlgo.hasInScope]
    rw [← scopePure_set d set scope tq q hset hq r]
    have e1 := hset (nameOf d h)
    have e2 := hq (nameOf d h)
    simp only [e1, e2]

theorem scopePure_node (d : Dom) (node : Id) (scope : EName → Bool) (q : Spec.TreeAlgo.Name → Bool)
    (hq : ∀ n, scope n = q (toName n)) : ∀ r : List Id,
    scopePure (fun h _ => node == h) scope (nameOf d) r
      = Spec.TreeAlgo2.hasNodeInScope node q (absStack d r)
  | [] => rfl
  | h :: r => by
    have e0 : (elemOf d h).id = h := rfl
    have e1 : (elemOf d h).name = toName (nameOf d h) := rfl
    simp only [scopePure, absStack, List.map_cons, Spec.TreeAlgo2.hasNodeInScope, e0, e1, hq]
    rw [show List.map (elemOf d) r = absStack d r from rfl, ← scopePure_node d node scope q hq r]
    by_cases hx : node = h
    · subst hx; simp
    · have hx' : ¬ h = node := fun e => hx e.symm
      have : (node == h) = false := by simpa using hx
      simp only [this, hx', Bool.false_eq_true, if_false]

theorem namesRev_absStack (d : Dom) (l : List Id) :
    namesRev (absStack d l) = l.reverse.map fun h => toName (nameOf d h) := by
  unfold namesRev absStack; rw [← List.map_reverse, List.map_map]; rfl

/-- `in_scope(scope, |n| elem_in(n, set))` — `TreeAlgo.hasInScope (inHtml l) q names` (`q`: the scope list, `l`:
the list of HTML element types that is `set`) -/
theorem pc_inScope_elemIn {s : State} (hm : MInv s) (scope : EName → Bool) (q : Spec.TreeAlgo.Name → Bool)
    (hq : ∀ n, scope n = q (toName n)) (set : EName → Bool) (l : List String)
    (hset : ∀ n, set n = Spec.TreeAlgo.inHtml l (toName n)) :
    PC (inScope scope (fun n => elemIn n set)) s (fun b s' calls =>
      Tr s s' calls (fun x x' => x' = x ∧ absF s x = absF s' x ∧
        b = Spec.TreeAlgo.hasInScope (Spec.TreeAlgo.inHtml l) q (absF s x).names)) := by
  have ht := tot_inScope_gen s hm.elems scope (fun n => elemIn n set) (fun _ n => set n) (by
    intro h s1 _ hn
    have := tot_elemIn s1 h set
    rw [hn] at this
    exact this)
  refine pc_query_spec hm ht (fun σ => Spec.TreeAlgo.hasInScope (Spec.TreeAlgo.inHtml l) q σ.names) ?_
  intro x hx
  show Spec.TreeAlgo.hasInScope _ _ (absF s x).names = _
  rw [absF_names hx, namesRev_absStack, scopePure_set s.dom set scope _ q hset hq]

/-- `in_scope(default_scope, |n| elem_in(n, heading_tag))` — `hasAnyInScope cfg σ TreeTables.heading` -/
theorem pc_inScope_default_heading {s : State} (hm : MInv s) :
    PC (inScope defaultScope (fun n => elemIn n headingTag)) s (fun b s' calls =>
      Tr s s' calls (fun x x' => x' = x ∧ absF s x = absF s' x ∧
        b = Spec.TreeModes.hasAnyInScope (cfgOf s) (absF s x) Spec.TreeTables.heading)) :=
  pc_inScope_elemIn hm defaultScope _ (fun n => (HtmlTBSpec.scope_sets_eq_spec n).1) headingTag _ fun _ => rfl

/-- `in_scope(table_scope, |e| elem_in(e, table_outer))` of "in table body" —
`hasAnyInTableScope σ ["tbody", "thead", "tfoot"]` -/
theorem pc_inScope_table_tableOuterBody {s : State} (hm : MInv s) :
    PC (inScope tableScope (fun n => elemIn n tableOuterBody)) s (fun b s' calls =>
      Tr s s' calls (fun x x' => x' = x ∧ absF s x = absF s' x ∧
        b = Spec.TreeModes.hasAnyInTableScope (absF s x) ["tbody", "thead", "tfoot"])) :=
  pc_inScope_elemIn hm tableScope _ (fun n => (HtmlTBSpec.scope_sets_eq_spec n).2.2.2) tableOuterBody _ fun _ => rfl

/-- `in_scope(table_scope, |n| elem_in(n, td_th))` — `hasAnyInTableScope σ ["td", "th"]` -/
theorem pc_inScope_table_tdTh {s : State} (hm : MInv s) :
    PC (inScope tableScope (fun n => elemIn n tdTh)) s (fun b s' calls =>
      Tr s s' calls (fun x x' => x' = x ∧ absF s x = absF s' x ∧
        b = Spec.TreeModes.hasAnyInTableScope (absF s x) ["td", "th"])) :=
  pc_inScope_elemIn hm tableScope _ (fun n => (HtmlTBSpec.scope_sets_eq_spec n).2.2.2) tdTh _ fun _ => rfl

/-- `in_scope(default_scope, |n| same_node(node, n))` — `hasNodeInScope cfg σ node` -/
theorem pc_inScope_default_sameNode {s : State} (hm : MInv s) (node : Id) :
    PC (inScope defaultScope (fun n => sameNode node n)) s (fun b s' calls =>
      Tr s s' calls (fun x x' => x' = x ∧ absF s x = absF s' x ∧
        b = Spec.TreeModes.hasNodeInScope (cfgOf s) (absF s x) node)) := by
  have ht := tot_inScope_gen s hm.elems defaultScope (fun n => sameNode node n) (fun h _ => node == h)
    (fun h s1 _ _ => tot_sameNode s1 node h)
  refine pc_query_spec hm ht (fun σ => Spec.TreeModes.hasNodeInScope (cfgOf s) σ node) ?_
  intro x hx
  show Spec.TreeModes.hasNodeInScope (cfgOf s) (absF s x) node = _
  unfold Spec.TreeModes.hasNodeInScope
  rw [absF_stack hx, scopeList_cfgOf, ← pop_absStack_reverse,
    scopePure_node s.dom node defaultScope _ (fun n => (HtmlTBSpec.scope_sets_eq_spec n).1)]

/-- the same with the arguments of `same_node` swapped (adoption agency) -/
theorem pc_inScope_default_sameNode' {s : State} (hm : MInv s) (node : Id) :
    PC (inScope defaultScope (fun n => sameNode n node)) s (fun b s' calls =>
      Tr s s' calls (fun x x' => x' = x ∧ absF s x = absF s' x ∧
        b = Spec.TreeModes.hasNodeInScope (cfgOf s) (absF s x) node)) := by
  refine pc_query_spec hm (tot_inScope_node s node hm.elems) (fun σ => Spec.TreeModes.hasNodeInScope (cfgOf s) σ node) ?_
  intro x hx
  show Spec.TreeModes.hasNodeInScope (cfgOf s) (absF s x) node = _
  unfold Spec.TreeModes.hasNodeInScope
  rw [absF_stack hx, scopeList_cfgOf]


/-! ### parse errors of the specification: absorbed by the `Aux` -/

theorem absF_errors (s : State) (x : Aux) (E : List String) :
    absF s { x with errors := E } = { absF s x with errors := E } := rfl

/-- a helper `H` of the specification that is `F` up to the parse errors it reports -/
theorem Tr.withErrors {s s' : State} {calls : List Call} {F H : SState → SState}
    (hH : ∀ σ, H σ = { F σ with errors := (H σ).errors })
    (h : Tr s s' calls (fun x x' => x' = x ∧ absF s' x = F (absF s x))) :
    Tr s s' calls (fun x x' => x' = { x with errors := (H (absF s x)).errors } ∧ absF s' x' = H (absF s x)) := by
  obtain ⟨hm, hc, he, ids, hfi, f⟩ := h
  refine ⟨hm, hc, he, ids, hfi, fun x rest hx hs => ?_⟩
  obtain ⟨x', l, hxx, e⟩ := f x rest hx hs
  subst x'
  refine ⟨{ x with errors := (H (absF s x)).errors },
    ⟨⟨l.aux.live, l.aux.annot, l.aux.annotEl, l.aux.xlog⟩, l.supply, l.switch, l.script, l.outs, l.log⟩, rfl, ?_⟩
  rw [absF_errors, e, ← hH]

/-! ### implied end tags -/

/-- `generate_implied_end_tags(cursory_implied_end)` — `genImplied` -/
theorem pc_generateImpliedEndTags_cursory {s : State} (hm : MInv s) :
    PC (generateImpliedEndTags cursoryImpliedEnd) s (fun _ s' calls =>
      Tr s s' calls (fun x x' => x' = x ∧ absF s' x = Spec.TreeModes.genImplied (absF s x))) :=
  pc_of_pops hm (tot_generateImpliedEndTags_cursory s hm.elems)

/-- `generate_implied_end_except(name)` — `genImpliedExceptStr` -/
theorem pc_generateImpliedEndExcept {s : State} (hm : MInv s) (name : Str) :
    PC (generateImpliedEndExcept name) s (fun _ s' calls =>
      Tr s s' calls (fun x x' => x' = x ∧ absF s' x = Spec.TreeModes.genImpliedExceptStr (absF s x) name)) :=
  pc_of_pops hm (tot_generateImpliedEndExcept s hm.elems name)

/-- `generate_implied_end_except(name)` for a literal — `genImplied σ (some name)` -/
theorem pc_generateImpliedEndExcept_lit {s : State} (hm : MInv s) (name : String) :
    PC (generateImpliedEndExcept name.toList) s (fun _ s' calls =>
      Tr s s' calls (fun x x' => x' = x ∧ absF s' x = Spec.TreeModes.genImplied (absF s x) (some name))) :=
  pc_of_pops hm (tot_generateImpliedEndExcept s hm.elems name.toList)

/-- `generate_implied_end_tags([cursory_implied_end] - "p")` — `genImplied σ (some "p")` -/
theorem pc_generateImpliedEndTags_exceptP {s : State} (hm : MInv s) :
    PC (generateImpliedEndTags impliedExceptP) s (fun _ s' calls =>
      Tr s s' calls (fun x x' => x' = x ∧ absF s' x = Spec.TreeModes.genImplied (absF s x) (some "p"))) :=
  pc_of_pops hm (tot_generateImpliedEndTags_exceptP s hm.elems)

/-- `generate_implied_end_tags(thorough_implied_end)` — `genAllImpliedThoroughly` -/
theorem pc_generateImpliedEndTags_thorough {s : State} (hm : MInv s) :
    PC (generateImpliedEndTags thoroughImpliedEnd) s (fun _ s' calls =>
      Tr s s' calls (fun x x' => x' = x ∧ absF s' x = Spec.TreeModes.genAllImpliedThoroughly (absF s x))) := by
  refine pc_conseq (PC.of_tot (tot_generateImpliedEndTags_thorough s hm.elems)) ?_
  rintro _ s' calls he ⟨hso, hp, hc, hn⟩
  refine (Tr.of_prefix hm hso hp he hc).conseq ?_
  rintro x x' hx _ ⟨hxx, e⟩
  subst x'
  refine ⟨rfl, ?_⟩
  have hk : (Spec.TreeAlgo.generateAllImpliedEndTagsThoroughly (absF s x).names).length = s'.openElems.length := by
    rw [absF_names hx, ← hn]; simp [namesRev, absStack]
  rw [e]
  unfold Spec.TreeModes.genAllImpliedThoroughly
  simp only [hk]
  rw [absF_stack hx, ← pop_absStack_take, ← List.prefix_iff_eq_take.mp hp]

/-! ### "pop elements until … has been popped" -/

/-- `pop_until(pred)` — `setStack (popUntilPopped (fun e => q e.name) stack)`; the count is `popCount` -/
theorem pc_popUntil {s : State} (hm : MInv s) (pred : EName → Bool) (q : Spec.TreeAlgo.Name → Bool)
    (hq : ∀ n, pred n = q (toName n)) :
    PC (popUntil pred) s (fun k s' calls =>
      Tr s s' calls (fun x x' => x' = x ∧
        absF s' x = (absF s x).setStack (Spec.TreeAlgo2.popUntilPopped (fun e => q e.name) (absF s x).p.stack) ∧
        k = popCount (fun e => q e.name) (absF s x).p.stack)) := by
  refine pc_conseq (PC.of_tot (tot_popUntil s hm.elems pred q hq)) ?_
  rintro k s' calls he ⟨hp, hk⟩
  refine (Tr.of_pops hm hp he).conseq ?_
  rintro x x' hx _ ⟨hxx, e⟩
  exact ⟨hxx, e, by rw [absF_stack hx]; exact hk⟩

/-- `pop_until(heading_tag)` — `popUntilPoppedAny σ TreeTables.heading` -/
theorem pc_popUntil_heading {s : State} (hm : MInv s) :
    PC (popUntil headingTag) s (fun _ s' calls =>
      Tr s s' calls (fun x x' => x' = x ∧
        absF s' x = Spec.TreeModes.popUntilPoppedAny (absF s x) Spec.TreeTables.heading)) :=
  pc_conseq (pc_popUntil hm headingTag (Spec.TreeAlgo.inHtml Spec.TreeTables.heading) fun _ => rfl)
    fun _ _ _ _ h => h.conseq fun _ _ _ _ ⟨h1, h2, _⟩ => ⟨h1, h2⟩

/-- `pop_until(td_th)` — `popUntilPoppedAny σ ["td", "th"]` -/
theorem pc_popUntil_tdTh {s : State} (hm : MInv s) :
    PC (popUntil tdTh) s (fun _ s' calls =>
      Tr s s' calls (fun x x' => x' = x ∧
        absF s' x = Spec.TreeModes.popUntilPoppedAny (absF s x) ["td", "th"])) :=
  pc_conseq (pc_popUntil hm tdTh (Spec.TreeAlgo.inHtml ["td", "th"]) fun _ => rfl)
    fun _ _ _ _ h => h.conseq fun _ _ _ _ ⟨h1, h2, _⟩ => ⟨h1, h2⟩

/-- `pop_until_named(name)` (a `Str`) — `popUntilPoppedStr`; the count is `popCount` -/
theorem pc_popUntilNamedS {s : State} (hm : MInv s) (name : Str) :
    PC (popUntilNamedS name) s (fun k s' calls =>
      Tr s s' calls (fun x x' => x' = x ∧ absF s' x = Spec.TreeModes.popUntilPoppedStr (absF s x) name ∧
        k = popCount (fun e => Spec.TreeModes.isNamed name e.name) (absF s x).p.stack)) := by
  refine pc_conseq (PC.of_tot (tot_popUntilNamedS s hm.elems name)) ?_
  rintro k s' calls he ⟨hp, hk⟩
  refine (Tr.of_pops hm hp he).conseq ?_
  rintro x x' hx _ ⟨hxx, e⟩
  exact ⟨hxx, e, by rw [absF_stack hx]; exact hk⟩

/-- `pop_until_named(name)` — `popUntilPopped σ name` -/
theorem pc_popUntilNamed {s : State} (hm : MInv s) (name : String) :
    PC (popUntilNamed name) s (fun k s' calls =>
      Tr s s' calls (fun x x' => x' = x ∧ absF s' x = Spec.TreeModes.popUntilPopped (absF s x) name ∧
        k = popCount (fun e => e.name.isHtml name) (absF s x).p.stack)) :=
  pc_popUntilNamedS hm name.toList

/-- `expect_to_close(name)` (a `Str`) — `popUntilPoppedStr` (the parse error is the caller's in the
specification) -/
theorem pc_expectToCloseS {s : State} (hm : MInv s) (name : Str) :
    PC (expectToCloseS name) s (fun _ s' calls =>
      Tr s s' calls (fun x x' => x' = x ∧ absF s' x = Spec.TreeModes.popUntilPoppedStr (absF s x) name)) :=
  pc_of_pops hm (tot_expectToCloseS s hm.elems name)

/-- `expect_to_close(name)` — `popUntilPopped σ name` -/
theorem pc_expectToClose {s : State} (hm : MInv s) (name : String) :
    PC (expectToClose name) s (fun _ s' calls =>
      Tr s s' calls (fun x x' => x' = x ∧ absF s' x = Spec.TreeModes.popUntilPopped (absF s x) name)) :=
  pc_expectToCloseS hm name.toList

/-! ### "clear the stack back to a … context" -/

/-- `pop_until_current(set)` panics on the empty stack -/
theorem pc_popUntilCurrent_empty {s : State} (hnil : s.openElems = []) (set : EName → Bool)
    {Q : Unit → State → List Call → Prop} : PC (popUntilCurrent set) s Q := by
  unfold popUntilCurrent
  refine pc_getS_bind ?_
  rw [hnil]
  show PC (popUntilCurrentLoop set (0 + 1)) s Q
  simp only [popUntilCurrentLoop, currentNodeIn]
  exact pc_bind (pc_bind (pc_currentNode_empty (by rw [hnil]; rfl)))

/-- `pop_until_current(set)` for a set that contains `html` — pop while the current node is not in the set -/
theorem pc_popUntilCurrent {s : State} (hm : MInv s) (set : EName → Bool) (q : Spec.TreeAlgo.Name → Bool)
    (hq : ∀ n, set n = q (toName n)) (hroot : set ⟨nsHtml, "html".toList⟩ = true) :
    PC (popUntilCurrent set) s (fun _ s' calls =>
      Tr s s' calls (fun x x' => x' = x ∧
        absF s' x = (absF s x).setStack (((absF s x).p.stack.reverse.dropWhile (fun e => !q e.name)).reverse))) := by
  cases hl : s.openElems with
  | nil => exact pc_popUntilCurrent_empty hl set
  | cons h0 r =>
    have hn := hm.root h0 (by rw [hl]; rfl)
    have hex : (absStack s.dom s.openElems).any (fun e => q e.name) = true := by
      rw [hl]
      simp only [absStack, List.map_cons, List.any_cons, Bool.or_eq_true]
      left
      show q (toName (nameOf s.dom h0)) = true
      rw [← hq, hn]; exact hroot
    exact pc_of_pops hm (tot_popUntilCurrent s hm.elems set q hq hex)

/-- `pop_until_current(table_scope)` — `clearBackToTable` -/
theorem pc_popUntilCurrent_table {s : State} (hm : MInv s) :
    PC (popUntilCurrent tableScope) s (fun _ s' calls =>
      Tr s s' calls (fun x x' => x' = x ∧ absF s' x = Spec.TreeModes.clearBackToTable (absF s x))) :=
  pc_popUntilCurrent hm tableScope _ pop_tableScope_eq (by decide +kernel)

/-- `pop_until_current(table_body_context)` — `clearBackToTableBody` -/
theorem pc_popUntilCurrent_tableBody {s : State} (hm : MInv s) :
    PC (popUntilCurrent tableBodyContext) s (fun _ s' calls =>
      Tr s s' calls (fun x x' => x' = x ∧ absF s' x = Spec.TreeModes.clearBackToTableBody (absF s x))) :=
  pc_popUntilCurrent hm tableBodyContext _ (fun _ => rfl) (by decide +kernel)

/-- `pop_until_current(table_row_context)` — `clearBackToTableRow` -/
theorem pc_popUntilCurrent_tableRow {s : State} (hm : MInv s) :
    PC (popUntilCurrent tableRowContext) s (fun _ s' calls =>
      Tr s s' calls (fun x x' => x' = x ∧ absF s' x = Spec.TreeModes.clearBackToTableRow (absF s x))) :=
  pc_popUntilCurrent hm tableRowContext _ (fun _ => rfl) (by decide +kernel)


/-! ### "close a p element" -/

theorem closeP_eq (σ : SState) :
    Spec.TreeModes.closeP σ = { σ.setStack (Spec.TreeAlgo2.closePElement σ.p.stack) with
      errors := (Spec.TreeModes.closeP σ).errors } := by
  by_cases hc : (Spec.TreeModes.genImplied σ (some "p")).curIs "p" = true
  · simp only [Spec.TreeModes.closeP, hc, ↓reduceIte]
  · simp only [Spec.TreeModes.closeP, hc]; rfl

/-- `close_p_element` — `closeP` (the `Aux` takes the parse error of the specification) -/
theorem pc_closePElement {s : State} (hm : MInv s) :
    PC closePElement s (fun _ s' calls =>
      Tr s s' calls (fun x x' => x' = { x with errors := (Spec.TreeModes.closeP (absF s x)).errors } ∧
        absF s' x' = Spec.TreeModes.closeP (absF s x))) :=
  pc_conseq (pc_of_pops hm (tot_closePElement s hm.elems)) fun _ _ _ _ h => Tr.withErrors closeP_eq h

theorem closePIfInButtonScope_eq (s : State) (σ : SState) :
    Spec.TreeModes.closePIfInButtonScope (cfgOf s) σ
      = { σ.setStack (if Spec.TreeAlgo.hasElementInButtonScope "p".toList (namesRev σ.p.stack)
            then Spec.TreeAlgo2.closePElement σ.p.stack else σ.p.stack) with
          errors := (Spec.TreeModes.closePIfInButtonScope (cfgOf s) σ).errors } := by
  have e : Spec.TreeModes.hasInButtonScope (cfgOf s) σ "p"
      = Spec.TreeAlgo.hasElementInButtonScope "p".toList (namesRev σ.p.stack) := rfl
  unfold Spec.TreeModes.closePIfInButtonScope
  rw [e]
  by_cases hb : Spec.TreeAlgo.hasElementInButtonScope "p".toList (namesRev σ.p.stack) = true
  · simp only [hb, ↓reduceIte]; exact closeP_eq σ
  · simp only [hb]; rfl

/-- `close_p_element_in_button_scope` — `closePIfInButtonScope` -/
theorem pc_closePElementInButtonScope {s : State} (hm : MInv s) :
    PC closePElementInButtonScope s (fun _ s' calls =>
      Tr s s' calls (fun x x' =>
        x' = { x with errors := (Spec.TreeModes.closePIfInButtonScope (cfgOf s) (absF s x)).errors } ∧
        absF s' x' = Spec.TreeModes.closePIfInButtonScope (cfgOf s) (absF s x))) :=
  pc_conseq (pc_of_pops hm (tot_closePElementInButtonScope s hm.elems)) fun _ _ _ _ h =>
    Tr.withErrors (closePIfInButtonScope_eq s) h

/-! ### "close the cell" -/

theorem absEntry_inj : ∀ a b : FormatEntry, absEntry a = absEntry b → a = b
  | .marker, .marker, _ => rfl
  | .marker, .element _ _, h => by cases h
  | .element _ _, .marker, h => by cases h
  | .element _ _, .element _ _, h => by cases h; rfl

theorem clearToMarkerRev_subset : ∀ l : List FormatEntry, ∀ e ∈ clearToMarkerRev l, e ∈ l
  | [], _, h => h
  | .marker :: _, _, h => List.mem_cons_of_mem _ h
  | .element _ _ :: rest, e, h => List.mem_cons_of_mem _ (clearToMarkerRev_subset rest e h)

theorem absListE_eq (af : List FormatEntry) : absListE af = (absList af).map (Entry.mapTok etokOf) := by
  simp only [absListE, absList, List.map_map]
  apply List.map_congr_left
  intro e _
  cases e <;> rfl

/-- `closeCell` without its parse error and its mode switch -/
theorem closeCell_eq (σ : SState) :
    Spec.TreeModes.closeCell σ = { σ with p := Spec.TreeAlgo2.closeTheCell σ.p, mode := .inRow,
                                          errors := (Spec.TreeModes.closeCell σ).errors } := by
  by_cases hc : (Spec.TreeModes.genImplied σ).curIn ["td", "th"] = true
  · simp only [Spec.TreeModes.closeCell, hc, ↓reduceIte]
  · simp only [Spec.TreeModes.closeCell, hc]; rfl

/-- `close_the_cell` — `closeCell` (the mode switch of the specification is the model's
`Reprocess(InRow, …)`; the `Aux` takes the parse error) -/
theorem pc_closeTheCell {s : State} (hm : MInv s) :
    PC closeTheCell s (fun _ s' calls => s'.mode = s.mode ∧
      Tr s s' calls (fun x x' => x' = { x with errors := (Spec.TreeModes.closeCell (absF s x)).errors } ∧
        (absF s' x').setMode .inRow = Spec.TreeModes.closeCell (absF s x))) := by
  refine pc_conseq (PC.of_tot (tot_closeTheCell s hm.elems [] [])) ?_
  rintro _ s' calls he ⟨hs', hp, hc, heq⟩
  have hf : SameButSL s s' := SameButSL.of_eq hs'
  have hS : absStack s.dom s'.openElems = (Spec.TreeAlgo2.closeTheCell (absState s [] [])).stack := by
    rw [← heq]
  have hL : absList s'.activeFormatting = (Spec.TreeAlgo2.closeTheCell (absState s [] [])).list := by
    rw [← heq]
  have hL' : absList s'.activeFormatting = Spec.TreeAlgo2.clearToLastMarker (absList s.activeFormatting) := hL
  have haf : s'.activeFormatting = (clearToMarkerRev s.activeFormatting.reverse).reverse := by
    rw [← pop_clearToLastMarker_eq] at hL'
    exact (List.map_inj_right absEntry_inj).mp hL'
  refine ⟨hf.mode, ?_⟩
  have htr := Tr.of_shrink hm hf he hc (fun h hh => hp.subset hh) (head?_of_prefix hp) (by
    intro e hmem
    rw [haf] at hmem
    exact List.mem_reverse.mp (clearToMarkerRev_subset _ e (List.mem_reverse.mp hmem)))
  have htr2 : Tr s s' calls (fun x x' => x' = x ∧
      absF s' x = (fun σ : SState => { σ with p := Spec.TreeAlgo2.closeTheCell σ.p }) (absF s x)) := by
    refine htr.conseq ?_
    rintro x x' hx _ ⟨hxx, e⟩
    refine ⟨hxx, ?_⟩
    rw [e, hS, absListE_eq, hL', ← clearToLastMarker_map, ← absListE_eq]
    simp only [Spec.TreeModes.State.setStack, Spec.TreeModes.State.setList, Spec.TreeAlgo2.closeTheCell]
    rw [absF_list, absF_stack hx]
    rfl
  refine (Tr.withErrors (F := fun σ : SState => { σ with p := Spec.TreeAlgo2.closeTheCell σ.p })
    (H := fun σ => { Spec.TreeModes.closeCell σ with mode := σ.mode }) ?_ htr2).conseq ?_
  · intro σ
    show _ = _
    rw [closeCell_eq]
  · rintro x x' _ _ ⟨hxx, e⟩
    refine ⟨hxx, ?_⟩
    rw [e]
    show _ = Spec.TreeModes.closeCell (absF s x)
    rw [closeCell_eq]
    rfl

/-! ### `check_body_end`, "any other end tag", `remove_from_stack` -/

theorem bodyEndCheck_eq (what : String) (σ : SState) :
    Spec.TreeModes.bodyEndCheck σ what = { σ with errors := (Spec.TreeModes.bodyEndCheck σ what).errors } := by
  unfold Spec.TreeModes.bodyEndCheck
  split <;> rfl

/-- `check_body_end` — `bodyEndCheck` (only parse errors) -/
theorem pc_checkBodyEnd {s : State} (hm : MInv s) (what : String) :
    PC checkBodyEnd s (fun _ s' calls =>
      Tr s s' calls (fun x x' => x' = { x with errors := (Spec.TreeModes.bodyEndCheck (absF s x) what).errors } ∧
        absF s' x' = Spec.TreeModes.bodyEndCheck (absF s x) what)) := by
  refine pc_conseq (pc_of_query hm (tot_checkBodyEnd s)) ?_
  rintro _ s' calls _ ⟨_, htr⟩
  refine Tr.withErrors (F := fun σ => σ) (bodyEndCheck_eq what) (htr.conseq ?_)
  rintro x x' _ _ ⟨hxx, e⟩
  exact ⟨hxx, e.symm⟩

/-- `process_end_tag_in_body(tag)` — the "any other end tag" clause of "in body":
`σ.setStack (TreeAlgo2.anyOtherEndTag tag.name σ.p.stack)` -/
theorem pc_processEndTagInBody {s : State} (hm : MInv s) (tag : Tag) :
    PC (processEndTagInBody tag) s (fun _ s' calls =>
      Tr s s' calls (fun x x' => x' = x ∧
        absF s' x = (absF s x).setStack (Spec.TreeAlgo2.anyOtherEndTag tag.name (absF s x).p.stack))) :=
  pc_of_pops hm (tot_processEndTagInBody s hm.elems tag)

theorem head?_eraseIdx_succ {α : Type} : ∀ (l : List α) (p : Nat) (a : α), p ≠ 0 → (l.eraseIdx p).head? = some a →
    l.head? = some a
  | [], _, _, _, h => by cases h
  | _ :: _, 0, _, hp, _ => absurd rfl hp
  | _ :: _, _ + 1, _, _, h => h

/-- `remove_from_stack(elem)` — `removeFromStack σ elem`, for an `elem` that is not the root of the stack -/
theorem pc_removeFromStack {s : State} (hm : MInv s) (elem : Id) (hnr : s.openElems.head? ≠ some elem) :
    PC (removeFromStack elem) s (fun _ s' calls =>
      Tr s s' calls (fun x x' => x' = x ∧ absF s' x = Spec.TreeModes.removeFromStack (absF s x) elem)) := by
  refine pc_conseq (PC.of_tot (tot_removeFromStack s elem)) ?_
  rintro _ s' calls he ⟨hs', hc⟩
  cases hpos : Spec.TreeAlgo2.stackPos elem (absStack s.dom s.openElems) with
  | none =>
    rw [hpos] at hs'
    have hs : SameTB s s' := hs'
    refine (Tr.of_same hm hs he (by rw [← edits2_edits, hc]; rfl)).conseq ?_
    rintro x x' hx _ ⟨hxx, e⟩
    refine ⟨hxx, ?_⟩
    unfold Spec.TreeModes.removeFromStack
    rw [absF_stack hx, hpos]
    exact e.symm
  | some p =>
    rw [hpos] at hs'
    obtain ⟨hlt, hget⟩ := stackPos_lt hpos
    have ho : s'.openElems = s.openElems.eraseIdx p := by rw [hs']
    have haf : s'.activeFormatting = s.activeFormatting := by rw [hs']
    have hf : SameButSL s s' := by constructor <;> rw [hs']
    have hp0 : p ≠ 0 := by
      intro h0; subst h0
      apply hnr
      rw [List.head?_eq_getElem?]; exact hget
    refine (Tr.of_shrink hm hf he hc (fun h hh => List.mem_of_mem_eraseIdx (ho ▸ hh))
      (fun h0 hh => head?_eraseIdx_succ _ p h0 hp0 (ho ▸ hh)) (fun e h => haf ▸ h)).conseq ?_
    rintro x x' hx _ ⟨hxx, e⟩
    refine ⟨hxx, ?_⟩
    unfold Spec.TreeModes.removeFromStack
    rw [absF_stack hx, hpos]
    simp only []
    have hmap : absStack s.dom (s.openElems.eraseIdx p) = (absStack s.dom s.openElems).eraseIdx p :=
      map_eraseIdx _ _ _
    rw [e, ho, haf, hmap]
    rfl

/-- `remove_from_stack(elem)` for an element that is not an `html` element -/
theorem pc_removeFromStack_of_name {s : State} (hm : MInv s) (elem : Id)
    (hn : nameOf s.dom elem ≠ ⟨nsHtml, "html".toList⟩) :
    PC (removeFromStack elem) s (fun _ s' calls =>
      Tr s s' calls (fun x x' => x' = x ∧ absF s' x = Spec.TreeModes.removeFromStack (absF s x) elem)) :=
  pc_removeFromStack hm elem fun h => hn (hm.root elem h)


/-! ### `body_elem`, `html_elem`, `is_fragment`, `push` -/

/-- "the second element on the stack of open elements, if it is a `body` element" -/
def specBodyElem (σ : SState) : Option Id :=
  match σ.p.stack[1]? with
  | some e => if e.name.isHtml "body" then some e.id else none
  | none => none

theorem specBodyElem_some {σ : SState} {n : Id} (h : specBodyElem σ = some n) :
    ∃ e, σ.p.stack[1]? = some e ∧ e.name.isHtml "body" = true ∧ e.id = n := by
  unfold specBodyElem at h
  cases h1 : σ.p.stack[1]? with
  | none => rw [h1] at h; cases h
  | some e =>
    rw [h1] at h
    by_cases hb : e.name.isHtml "body" = true
    · simp only [hb, if_true, Option.some.injEq] at h; exact ⟨e, rfl, hb, h⟩
    · simp only [hb] at h; cases h

theorem specBodyElem_none {σ : SState} (h : specBodyElem σ = none) :
    ∀ e, σ.p.stack[1]? = some e → e.name.isHtml "body" = false := by
  intro e h1
  unfold specBodyElem at h
  rw [h1] at h
  by_cases hb : e.name.isHtml "body" = true
  · simp only [hb, if_true] at h; cases h
  · simpa using hb

/-- the model's `body_elem` as a function of the names -/
def bodyElemPure (d : Dom) (l : List Id) : Option Id :=
  match l[1]? with
  | some node => if (elemOf d node).name.isHtml "body" then some node else none
  | none => none

theorem tot_bodyElem (s : State) : Tot bodyElem s (QueryQ s (bodyElemPure s.dom s.openElems)) := by
  unfold bodyElem
  refine tot_getS_bind ?_
  by_cases hlen : s.openElems.length ≤ 1
  · simp only [hlen, if_true]
    have h1 : s.openElems[1]? = none := List.getElem?_eq_none (by omega)
    exact tot_pure ⟨by simp only [bodyElemPure, h1], SameTB.refl s, rfl⟩
  · simp only [hlen, if_false]
    cases h1 : s.openElems[1]? with
    | none => exact tot_pure ⟨by simp only [bodyElemPure, h1], SameTB.refl s, rfl⟩
    | some node =>
      simp only []
      refine tot_query_bind (tot_htmlElemNamed s node "body") fun s1 c1 _ hs1 hc1 => ?_
      by_cases hb : (elemOf s.dom node).name.isHtml "body" = true
      · simp only [hb, if_true]
        exact tot_pure ⟨by simp only [bodyElemPure, h1, hb, if_true], hs1, by simp [hc1]⟩
      · simp only [hb, Bool.false_eq_true, if_false]
        exact tot_pure ⟨by simp only [bodyElemPure, h1, hb, Bool.false_eq_true, if_false], hs1, by simp [hc1]⟩

/-- `body_elem()` — `specBodyElem` (the second entry of the stack if it is a `body` element) -/
theorem pc_bodyElem {s : State} (hm : MInv s) :
    PC bodyElem s (fun b s' calls =>
      Tr s s' calls (fun x x' => x' = x ∧ absF s x = absF s' x ∧ b = specBodyElem (absF s x))) := by
  refine pc_query_spec hm (tot_bodyElem s) specBodyElem ?_
  intro x hx
  unfold specBodyElem bodyElemPure
  rw [absF_stack hx]
  simp only [absStack, List.getElem?_map]
  cases s.openElems[1]? <;> rfl

/-- `html_elem()` — the first entry of the stack; on the empty stack the model panics -/
theorem pc_htmlElem {s : State} (hm : MInv s) :
    PC htmlElem s (fun h s' calls => s.openElems.head? = some h ∧
      Tr s s' calls (fun x x' => x' = x ∧ absF s x = absF s' x ∧
        (absF s x).p.stack.head? = some (elemOf s.dom h))) := by
  cases hl : s.openElems.head? with
  | none =>
    unfold htmlElem
    refine pc_getS_bind ?_
    simp only [hl]
    exact pc_panicAt
  | some h0 =>
    refine pc_conseq (pc_of_query hm (tot_htmlElem hl)) ?_
    rintro a s' calls _ ⟨rfl, htr⟩
    refine ⟨rfl, htr.conseq ?_⟩
    rintro x x' hx _ ⟨hxx, e⟩
    refine ⟨hxx, e, ?_⟩
    rw [absF_stack hx]
    simp only [absStack, List.head?_map, hl, Option.map_some]

/-- the free function `html_elem(&open_elems)` — the same -/
theorem pc_htmlElemFn {s : State} (hm : MInv s) :
    PC htmlElemFn s (fun h s' calls => s.openElems.head? = some h ∧
      Tr s s' calls (fun x x' => x' = x ∧ absF s x = absF s' x ∧
        (absF s x).p.stack.head? = some (elemOf s.dom h))) := by
  cases hl : s.openElems.head? with
  | none =>
    unfold htmlElemFn
    refine pc_getS_bind ?_
    simp only [hl]
    exact pc_panicAt
  | some h0 =>
    refine pc_conseq (pc_of_query hm (tot_htmlElemFn hl)) ?_
    rintro a s' calls _ ⟨rfl, htr⟩
    refine ⟨rfl, htr.conseq ?_⟩
    rintro x x' hx _ ⟨hxx, e⟩
    refine ⟨hxx, e, ?_⟩
    rw [absF_stack hx]
    simp only [absStack, List.head?_map, hl, Option.map_some]

/-- `is_fragment()` — `cfg.context.isSome` -/
theorem pc_isFragment {s : State} (hm : MInv s) :
    PC isFragment s (fun b s' calls => s' = s ∧ calls = [] ∧ b = s.contextElem.isSome ∧
      Tr s s' calls (fun x x' => x' = x ∧ absF s x = absF s' x ∧ b = (cfgOf s).context.isSome)) := by
  unfold isFragment
  refine pc_getS_bind (pc_pure ⟨rfl, rfl, rfl, (Tr.refl hm).conseq ?_⟩)
  rintro x x' _ _ hxx
  refine ⟨hxx, rfl, ?_⟩
  simp only [cfgOf, Option.isSome_map]

/-- `push(h)` for an element `h` of the DOM — `σ.setStack (σ.p.stack ++ [elemOf s.dom h])`.
`hroot`: the first entry of the stack is an `html` element; `haf`: if `h` is in the list of active
formatting elements, its entry has the right name; `hna`: `h` is not a MathML `annotation-xml` element;
`hip`: the integration-point flag of a non-HTML `h` is not set (`MInv.ip` for the new entry) -/
theorem pc_push {s : State} (hm : MInv s) (h : Id) (hel : s.dom.isElement h = true)
    (hroot : s.openElems = [] → nameOf s.dom h = ⟨nsHtml, "html".toList⟩)
    (haf : ∀ t, FormatEntry.element h t ∈ s.activeFormatting → nameOf s.dom h = ⟨nsHtml, t.name⟩)
    (hna : nameOf s.dom h ≠ annotName)
    (hip : (nameOf s.dom h).ns ≠ nsHtml → ipOfDom s.dom h = true → nameOf s.dom h = annotName) :
    PC (push h) s (fun _ s' calls => s' = { s with openElems := s.openElems ++ [h] } ∧ calls = [] ∧
      Tr s s' calls (fun x x' => x' = x ∧
        absF s' x = (absF s x).setStack ((absF s x).p.stack ++ [elemOf s.dom h]))) := by
  refine pc_conseq (PC.of_tot (tot_push s h)) ?_
  rintro _ s' calls _ ⟨rfl, rfl⟩
  refine ⟨rfl, rfl, ?_⟩
  have hm' : MInv { s with openElems := s.openElems ++ [h] } := by
    refine ⟨?_, ?_, ?_, hm.afEl, hm.head, hm.ctx, hm.afwf, ?_, hm.tmodes, hm.form, hm.pend⟩
    · intro y hy
      rcases List.mem_append.mp hy with hy | hy
      · exact hm.elems y hy
      · rw [List.mem_singleton.mp hy]; exact hel
    · intro h0 hh
      cases hl : s.openElems with
      | nil =>
        simp only [hl, List.nil_append, List.head?_cons, Option.some.injEq] at hh
        subst hh; exact hroot hl
      | cons a r =>
        simp only [hl, List.cons_append, List.head?_cons, Option.some.injEq] at hh
        subst hh; exact hm.root a (by rw [hl]; rfl)
    · intro y t hmem
      obtain ⟨a, b, c⟩ := hm.af y t hmem
      refine ⟨a, b, fun hy => ?_⟩
      rcases List.mem_append.mp hy with hy | hy
      · exact c hy
      · have : y = h := List.mem_singleton.mp hy
        subst this; exact haf t hmem
    · intro y hy
      rcases List.mem_append.mp hy with hy | hy
      · exact hm.ip y hy
      · rw [List.mem_singleton.mp hy]; exact hip
  refine ⟨hm', rfl, TBSafe.Ext.refl _, [], FreshIds.nil _, fun x rest hx hs =>
    ⟨x, ⟨⟨hx.live, ?_, hx.annotEl, hx.xlog⟩, by simpa using hs, rfl, rfl, rfl, [], by simp, fun _ _ => rfl⟩, rfl, ?_⟩⟩
  · intro y hy hn
    rcases List.mem_append.mp hy with hy | hy
    · exact hx.annot y hy hn
    · have : y = h := List.mem_singleton.mp hy
      subst this; exact absurd hn hna
  · simp only [absF, absP, hx.live, Bool.false_eq_true, if_false, absStack, List.map_append, List.map_cons,
      List.map_nil, Spec.TreeModes.State.setStack]


/-! ### `pop` without the notification, `append_comment` without the non-emptiness hypothesis -/

/-- `open_elems.pop()` (no `TreeSink::pop` call) — `State.pop`; `none` on the empty stack -/
theorem pc_popSilently {s : State} (hm : MInv s) :
    PC popSilently s (fun a s' calls => a = s.openElems.getLast? ∧ s'.openElems = s.openElems.dropLast ∧
      StackOnly s s' ∧ calls = [] ∧
      Tr s s' calls (fun x x' => x' = x ∧ absF s' x = (absF s x).pop ∧ (absF s x).cur = a.map (elemOf s.dom))) := by
  refine pc_conseq (PC.of_tot (pop_tot_popSilently s)) ?_
  rintro a s' calls he ⟨rfl, hso, hst, rfl⟩
  refine ⟨rfl, hst, hso, rfl, (Tr.of_prefix hm hso (hst ▸ List.dropLast_prefix _) he rfl).conseq ?_⟩
  rintro x x' hx _ ⟨hxx, e⟩
  refine ⟨hxx, ?_, absF_cur hx⟩
  rw [e, hst, absStack_dropLast, ← absF_stack hx]
  rfl

/-- "insert a comment" (`pc_appendComment` of `HtmlTBModesSim2` without the hypothesis that the stack is
not empty: on the empty stack `current_node()` panics) -/
theorem pc_appendComment' {s : State} (hm : MInv s) (text : Str) :
    PC (appendComment text) s (fun r s' calls => r = .done ∧
      Tr s s' calls (fun x x' => Spec.TreeModes.insertComment (absF s x) text = .ok (absF s' x'))) := by
  by_cases hne : s.openElems = []
  · unfold appendComment
    refine pc_seq (PC.of_tot (tot_createComment s text)) ?_
    rintro c s1 c1 _ ⟨hs1, _, _⟩
    have hl : s1.openElems.getLast? = none := by rw [hs1.openElems, hne]; rfl
    unfold insertAppropriately appropriatePlaceForInsertion
    exact pc_bind (pc_bind (pc_bind (pc_currentNode_empty hl)))
  · exact pc_appendComment hm hne text

end H5V.Lemmas.HtmlTBModes
