import H5V.Lemmas.HtmlTBReachRules
/-!
C18, tree-builder side, part 7: the "in body" rule passes only known handles to the sink.
-/
namespace H5V.Props.C18
open H5V.Model.Dom (Id QualName Attr NodeOrText SinkOp Output ElementFlags QuirksMode Dom)
open H5V.Model.HtmlTB
open H5V.Lemmas.TBM

set_option maxHeartbeats 1600000 in
theorem pv_stepInBody {c : List Id} (t : Token) : PV c (stepInBody t) prH := by unfold stepInBody; pv_walk
macro_rules | `(tactic| pv_leaf) => `(tactic| with_reducible exact pv_stepInBody _)

end H5V.Props.C18
