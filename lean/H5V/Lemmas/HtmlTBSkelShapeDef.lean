import H5V.Lemmas.HtmlTBSkelShapeP
/-!
C06, second invariant layer, part 3: the stack-shape invariant `ShapeAt s r up ph`.

`r` is the `html` root (bottom of the stack, the `html` child of the document), `up` the rest of the
stack, `ph` the phase of the parse as far as the children of `r` are concerned:
`p0` no `head` yet, `p1` `head` only, `pb b` `head` + `body`, `pf fs` `head` + `frameset` (+ extras).
-/
namespace H5V.Props.C06
open H5V.Model.Dom hiding Str
open H5V.Model.HtmlTB hiding Str
open H5V.Lemmas.Dom

def hN (s : String) : EName := ⟨nsHtml, s.toList⟩

def fmtNames : List String :=
  ["a", "b", "big", "code", "em", "font", "i", "nobr", "s", "small", "strike", "strong", "tt", "u"]
/-- an HTML formatting element (the ones the list of active formatting elements holds) -/
def isFmtE (n : EName) : Bool := htmlIn n fmtNames

/-- the elements whose position on the stack is governed by the table rules -/
def structNames : List String :=
  ["html", "table", "template", "caption", "colgroup", "tbody", "td", "tfoot", "th", "thead", "tr"]
def isStruct (n : EName) : Bool := htmlIn n structNames
/-- names that other table elements must sit directly on -/
def isPredName (n : EName) : Bool := htmlIn n ["table", "template", "tbody", "thead", "tfoot", "tr"]

/-- may `c` sit directly on `p` -/
def predOk (c p : EName) : Bool :=
  if htmlIn c ["tr"] then htmlIn p ["tbody", "thead", "tfoot", "template"]
  else if htmlIn c ["tbody", "thead", "tfoot", "caption", "colgroup"] then htmlIn p ["table", "template"]
  else if htmlIn c ["td", "th"] then htmlIn p ["tr", "template"]
  else true

/-- is `c` one of the elements with a prescribed predecessor -/
def constrained (c : EName) : Bool := htmlIn c ["tr", "tbody", "thead", "tfoot", "caption", "colgroup", "td", "th"]

theorem predOk_of_not_constrained {c p : EName} (h : constrained c = false) : predOk c p = true := by
  unfold predOk
  unfold constrained at h
  have h1 : htmlIn c ["tr"] = false := by
    unfold htmlIn isOneOf at h ⊢; simp only [List.any_cons, List.any_nil, Bool.or_false, Bool.and_eq_false_iff] at h ⊢
    rcases h with h | h
    · exact Or.inl h
    · right; simp only [Bool.or_eq_false_iff] at h; exact h.1
  have h2 : htmlIn c ["tbody", "thead", "tfoot", "caption", "colgroup"] = false := by
    unfold htmlIn isOneOf at h ⊢; simp only [List.any_cons, List.any_nil, Bool.or_false, Bool.and_eq_false_iff] at h ⊢
    rcases h with h | h
    · exact Or.inl h
    · right; simp only [Bool.or_eq_false_iff] at h ⊢; exact ⟨h.2.1, h.2.2.1, h.2.2.2.1, h.2.2.2.2.1, h.2.2.2.2.2.1⟩
  have h3 : htmlIn c ["td", "th"] = false := by
    unfold htmlIn isOneOf at h ⊢; simp only [List.any_cons, List.any_nil, Bool.or_false, Bool.and_eq_false_iff] at h ⊢
    rcases h with h | h
    · exact Or.inl h
    · right; simp only [Bool.or_eq_false_iff] at h ⊢; exact ⟨h.2.2.2.2.2.2.1, h.2.2.2.2.2.2.2⟩
  simp [h1, h2, h3]

/-- the table grammar of the stack: adjacent pairs -/
def TG (name : Id → EName) (l : List Id) : Prop :=
  ∀ pre x y post, l = pre ++ x :: y :: post → predOk (name y) (name x) = true

theorem TG.prefix {name : Id → EName} {l l' : List Id} {p : List Id} (h : TG name l) (hl : l = l' ++ p) : TG name l' := by
  intro pre x y post hs
  exact h pre x y (post ++ p) (by rw [hl, hs]; simp)

theorem TG.nil (name : Id → EName) : TG name [] := by
  intro pre x y post h; cases pre <;> simp at h

theorem TG.single (name : Id → EName) (a : Id) : TG name [a] := by
  intro pre x y post h
  cases pre with
  | nil => simp at h
  | cons b r => cases r <;> simp at h

theorem nil_or_concat (l : List Id) : l = [] ∨ ∃ l0 z, l = l0 ++ [z] := by
  induction l with
  | nil => exact Or.inl rfl
  | cons a r ih =>
    rcases ih with rfl | ⟨l0, z, rfl⟩
    · exact Or.inr ⟨[], a, rfl⟩
    · exact Or.inr ⟨a :: l0, z, rfl⟩

/-- pushing an element that may sit on the current node -/
theorem TG.snoc {name : Id → EName} {l : List Id} {x : Id} (h : TG name l)
    (hx : ∀ t, l.getLast? = some t → predOk (name x) (name t) = true) : TG name (l ++ [x]) := by
  intro pre a b post hs
  rcases nil_or_concat post with hpost | ⟨post0, z, hpost⟩
  · subst hpost
    have : l ++ [x] = (pre ++ [a]) ++ [b] := by rw [hs]; simp
    obtain ⟨h1, h2⟩ := List.append_inj' this rfl
    simp at h2; subst h2
    exact hx a (by rw [h1]; simp)
  · subst hpost
    have : l ++ [x] = (pre ++ a :: b :: post0) ++ [z] := by rw [hs]; simp
    obtain ⟨h1, _⟩ := List.append_inj' this rfl
    exact h pre a b _ h1

theorem TG.congr {name name' : Id → EName} {l : List Id} (h : TG name l) (hn : ∀ x ∈ l, name' x = name x) : TG name' l := by
  intro pre x y post hs
  rw [hn x (by rw [hs]; simp), hn y (by rw [hs]; simp)]
  exact h pre x y post hs

/-! ### the children of the root -/

inductive Phase
  | p0
  | p1
  | pb (b : Id)
  | pf (fs : Id)
deriving DecidableEq

def Phase.isPf : Phase → Prop
  | .pf _ => True
  | _ => False

/-- names that do not occur on the stack above its second entry; `frameset`s nest in the frameset phase only -/
def bhNames : Phase → List String
  | .pf _ => ["html", "body", "head"]
  | _ => ["html", "body", "head", "frameset"]

/-- the element children of `r` -/
def rootElems (d : Dom) (r : Id) : List Id := (d.childrenOf r).filter d.isElement

/-- what may be a child of the root: an element, a comment, whitespace text
(`isAsciiWhitespace`, the class the model uses) -/
def KidOkR (d : Dom) (c : Id) : Prop :=
  d.isElement c = true ∨ (∃ t, d.dataOf c = some (.comment t)) ∨
    ∃ t, d.dataOf c = some (.text t) ∧ t.all isAsciiWhitespace = true

/-- the element children of the root, by phase -/
def ElemsOk (d : Dom) (head : Option Id) (r : Id) : Phase → Prop
  | .p0 => head = none ∧ rootElems d r = []
  | .p1 => ∃ h, head = some h ∧ rootElems d r = [h] ∧ nm d h = hN "head"
  | .pb b => ∃ h, head = some h ∧ rootElems d r = [h, b] ∧ nm d h = hN "head" ∧ nm d b = hN "body"
  | .pf fs => ∃ h ex, head = some h ∧ rootElems d r = h :: fs :: ex ∧ nm d h = hN "head" ∧
      nm d fs = hN "frameset" ∧ ∀ x ∈ ex, nm d x = hN "noframes" ∨ isFmtE (nm d x) = true

/-! ### mode and stack -/

/-- what a table mode needs on the stack above the root -/
def Need (d : Dom) (m : Mode) (up : List Id) : Prop :=
  match m with
  | .inTable => ∃ x ∈ up, htmlIn (nm d x) ["table", "template"] = true
  | .inTableBody => ∃ x ∈ up, htmlIn (nm d x) ["tbody", "tfoot", "thead", "template"] = true
  | .inRow => ∃ x ∈ up, htmlIn (nm d x) ["tr", "template"] = true
  | .inCell => ∃ x ∈ up, htmlIn (nm d x) ["td", "th"] = true
  | .inTemplate => ∃ x ∈ up, htmlIn (nm d x) ["template"] = true
  | _ => True

/-- the three stack bases of the body-like modes: `body` second (body phase); `head`, `template`
(a template opened in the head); `template` (a template opened after the head) -/
def BodyBase (d : Dom) (head : Option Id) (up : List Id) (ph : Phase) : Prop :=
  (∃ b up', up = b :: up' ∧ ph = .pb b ∧ ∀ h, head = some h → h ∉ up) ∨
  (∃ h t up', head = some h ∧ up = h :: t :: up' ∧ nm d t = hN "template" ∧ ph = .p1) ∨
  (∃ t up', up = t :: up' ∧ nm d t = hN "template" ∧ ph = .p1 ∧ ∀ h, head = some h → h ∉ up)

def isBL (m : Mode) : Bool :=
  m == .inBody || m == .inTable || m == .inCaption || m == .inColumnGroup || m == .inTableBody || m == .inRow ||
    m == .inCell || m == .inTemplate

/-- the stack `r :: up` and the phase fit the insertion mode `m` (modes other than Text / InTableText) -/
def Fits (d : Dom) (head : Option Id) (m : Mode) (up : List Id) (ph : Phase) : Prop :=
  match m with
  | .beforeHead => up = [] ∧ ph = .p0
  | .inHead => ∃ h, head = some h ∧ up = [h] ∧ ph = .p1
  | .inHeadNoscript => ∃ h x, head = some h ∧ up = [h, x] ∧ ph = .p1 ∧ nm d x = hN "noscript"
  | .afterHead => up = [] ∧ ph = .p1
  | .afterBody => ∃ b up', up = b :: up' ∧ ph = .pb b ∧ ∀ h, head = some h → h ∉ up
  | .afterAfterBody => ∃ b up', up = b :: up' ∧ ph = .pb b ∧ ∀ h, head = some h → h ∉ up
  | .inFrameset => ∃ fs up', up = fs :: up' ∧ ph = .pf fs ∧ ∀ x ∈ up, nm d x = hN "frameset"
  | .afterFrameset => up = [] ∧ ph.isPf
  | .afterAfterFrameset => ph.isPf ∧ ∀ x ∈ up, isFmtE (nm d x) = true
  | .inBody => BodyBase d head up ph ∧ Need d .inBody up
  | .inTable => BodyBase d head up ph ∧ Need d .inTable up
  | .inCaption => BodyBase d head up ph ∧ Need d .inCaption up
  | .inColumnGroup => BodyBase d head up ph ∧ Need d .inColumnGroup up
  | .inTableBody => BodyBase d head up ph ∧ Need d .inTableBody up
  | .inRow => BodyBase d head up ph ∧ Need d .inRow up
  | .inCell => BodyBase d head up ph ∧ Need d .inCell up
  | .inTemplate => BodyBase d head up ph ∧ Need d .inTemplate up
  | _ => False

/-- … including Text (the original mode fits the stack below the raw-text element) and InTableText -/
def FitsM (s : State) (up : List Id) (ph : Phase) : Prop :=
  match s.mode with
  | .text => ∃ om up0 x, s.origMode = some om ∧ up = up0 ++ [x] ∧ om ≠ .text ∧ om ≠ .inTableText ∧
      Fits s.dom s.headElem om up0 ph ∧ htmlIn (nm s.dom x) ["table", "tbody", "tfoot", "thead", "tr", "template"] = false ∧
      (nm s.dom x).ns = nsHtml
  | .inTableText => ∃ om, s.origMode = some om ∧ (om = .inTable ∨ om = .inTableBody ∨ om = .inRow) ∧
      Fits s.dom s.headElem om up ph
  | m => Fits s.dom s.headElem m up ph

/-- number of `template` elements on the stack -/
def tcount (d : Dom) (l : List Id) : Nat := l.countP (fun x => nm d x == hN "template")

def tmplModeOk (m : Mode) : Bool :=
  m == .inTemplate || m == .inTable || m == .inColumnGroup || m == .inTableBody || m == .inRow || m == .inBody


end H5V.Props.C06
