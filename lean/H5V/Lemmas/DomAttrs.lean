import H5V.Lemmas.DomOps
namespace H5V.Lemmas.Dom
open H5V.Model.Dom

/-! ### attribute merging -/

theorem attrNamesNodup_iff (as : List Attr) : Dom.attrNamesNodup as = true ↔ (as.map (·.name)).Nodup := by
  induction as with
  | nil => simp [Dom.attrNamesNodup]
  | cons a t ih =>
    simp only [Dom.attrNamesNodup, Bool.and_eq_true, Bool.not_eq_true', List.map_cons, List.nodup_cons]
    rw [ih]
    constructor
    · rintro ⟨h1, h2⟩
      refine ⟨?_, h2⟩
      intro hm
      have : (t.map (·.name)).contains a.name = true := List.contains_iff_mem.mpr hm
      rw [h1] at this; cases this
    · rintro ⟨h1, h2⟩
      refine ⟨?_, h2⟩
      cases hc : (t.map (·.name)).contains a.name with
      | false => rfl
      | true => exact absurd (List.contains_iff_mem.mp hc) h1

theorem mem_missingAttrs {existing attrs : List Attr} {a : Attr} :
    a ∈ Dom.missingAttrs existing attrs ↔ a ∈ attrs ∧ ∀ e ∈ existing, e.name ≠ a.name := by
  unfold Dom.missingAttrs
  simp only [List.mem_filter, Bool.not_eq_true', and_congr_right_iff]
  intro _
  constructor
  · intro h e he hne
    have : (existing.map (·.name)).contains a.name = true :=
      List.contains_iff_mem.mpr (List.mem_map.mpr ⟨e, he, hne⟩)
    rw [h] at this; cases this
  · intro h
    cases hc : (existing.map (·.name)).contains a.name with
    | false => rfl
    | true =>
      obtain ⟨e, he, hne⟩ := List.mem_map.mp (List.contains_iff_mem.mp hc)
      exact absurd hne (h e he)

theorem missingAttrs_sublist (existing attrs : List Attr) : (Dom.missingAttrs existing attrs).Sublist attrs :=
  List.filter_sublist

theorem nodup_names_merge {existing attrs : List Attr} (he : (existing.map (·.name)).Nodup)
    (ha : (attrs.map (·.name)).Nodup) :
    ((existing ++ Dom.missingAttrs existing attrs).map (·.name)).Nodup := by
  rw [List.map_append]
  refine List.nodup_append.mpr ⟨he, ?_, ?_⟩
  · exact List.Nodup.sublist (List.Sublist.map _ (missingAttrs_sublist existing attrs)) ha
  · intro x hx y hy e
    subst e
    obtain ⟨e1, he1, hn1⟩ := List.mem_map.mp hx
    obtain ⟨a, ha1, hn2⟩ := List.mem_map.mp hy
    exact (mem_missingAttrs.mp ha1).2 e1 he1 (hn1.trans hn2.symm)

/-- the contract's clause (distinct expanded names) implies distinct `QualName`s -/
theorem attrNamesNodup_of_keys : ∀ (as : List Attr), Dom.attrKeysNodup as = true → Dom.attrNamesNodup as = true := by
  intro as
  induction as with
  | nil => intro _; rfl
  | cons a t ih =>
    intro h
    simp only [Dom.attrKeysNodup, Bool.and_eq_true, Bool.not_eq_true'] at h
    simp only [Dom.attrNamesNodup, Bool.and_eq_true, Bool.not_eq_true']
    refine ⟨?_, ih h.2⟩
    cases hc : (t.map (·.name)).contains a.name with
    | false => rfl
    | true =>
      obtain ⟨b, hb, hn⟩ := List.mem_map.mp (List.contains_iff_mem.mp hc)
      have : (t.map Dom.attrKey).contains (Dom.attrKey a) = true :=
        List.contains_iff_mem.mpr (List.mem_map.mpr ⟨b, hb, by simp [Dom.attrKey, hn]⟩)
      rw [h.1] at this; cases this

end H5V.Lemmas.Dom
