import H5V.Lemmas.HtmlTBSkelShapeHeadBL
/-!
C06, second invariant layer, part 28: tools for the table modes — popping table-structure elements
that lie above the bottom of the stack, the scope tests, the InBody rules under a weaker side
condition.
-/
namespace H5V.Props.C06
open H5V.Model.Dom hiding Str
open H5V.Model.HtmlTB hiding Str
open H5V.Lemmas.Dom
set_option synthInstance.maxSize 4096
set_option synthInstance.maxHeartbeats 400000

/-- the bottom element of a body-phase stack is `body`, `head` or `template` -/
theorem Big.bottom {m : Mode} {r : Id} {ph : Phase} {s : State} (h : Big m r ph s) :
    ∃ up b0 u0, Core s r up ph ∧ up = b0 :: u0 ∧ htmlIn (nm s.dom b0) ["body", "head", "template"] = true := by
  obtain ⟨up, hc, hbb, _, _⟩ := h
  rcases hbb with ⟨b, u, hu, rfl, _⟩ | ⟨hh, t, u, h0, hu, htn, rfl⟩ | ⟨t, u, hu, htn, rfl, _⟩
  · obtain ⟨_, _, _, _, hbn⟩ := hc.elems
    exact ⟨up, b, u, hc, hu, by rw [hbn]; decide⟩
  · obtain ⟨h', e1, _, e3⟩ := hc.elems
    rw [h0] at e1; cases e1
    exact ⟨up, hh, t :: u, hc, hu, by rw [e3]; decide⟩
  · exact ⟨up, t, u, hc, hu, by rw [htn]; decide⟩

/-- popping elements, none a `template`, while something above the root stays -/
theorem Big.popAbove {m m' : Mode} {r : Id} {ph : Phase} {s s' : State} {popped : List Id} (h : Big m r ph s)
    (p : PR s s' popped) (hx : ∃ x ∈ s'.openElems, x ≠ r)
    (hnt : ∀ y ∈ popped, nm s.dom y ≠ hN "template")
    (hneed : ∀ up', s'.openElems = r :: up' → Need s'.dom m' up') : Big m' r ph s' := by
  have h0 : Big .inBody r ph s := h.reNeed (fun _ _ => trivial)
  obtain ⟨up, hc, hbb, _, _⟩ := id h
  have hst := p.stack
  rw [hc.stack] at hst
  -- the rest of the stack is r :: up' with up' ≠ []
  obtain ⟨x, hxm, hxr⟩ := hx
  have hform : ∃ a up', s'.openElems = r :: a :: up' := by
    cases hq : s'.openElems with
    | nil => rw [hq] at hxm; cases hxm
    | cons a0 t0 =>
      rw [hq] at hst hxm
      simp only [List.cons_append, List.cons.injEq] at hst
      obtain ⟨rfl, _⟩ := hst
      cases t0 with
      | nil => simp at hxm; exact absurd hxm hxr
      | cons a1 t1 => exact ⟨a1, t1, rfl⟩
  obtain ⟨a, up', hs'⟩ := hform
  rw [hs'] at hst
  simp only [List.cons_append, List.cons.injEq, true_and] at hst
  have hsub : ∀ y ∈ popped, y ∈ up.tail := by
    intro y hy
    rw [hst]; simp [hy]
  have hb4 := hc.bh4 hbb.notPf
  have h1 : Big .inBody r ph s' := h0.popK p (fun y hy => by
    have h2 := hb4 y (hsub y hy)
    have h3 := hnt y hy
    cases hq : htmlIn (nm s.dom y) ["html", "body", "head", "template"] with
    | false => rfl
    | true =>
      exfalso
      obtain ⟨nme, hmem, heq⟩ := htmlIn_eq hq
      simp only [List.mem_cons, List.not_mem_nil, or_false] at hmem
      rcases hmem with rfl | rfl | rfl | rfl
      · rw [heq] at h2; revert h2; decide
      · rw [heq] at h2; revert h2; decide
      · rw [heq] at h2; revert h2; decide
      · exact h3 heq) (fun _ => trivial)
  exact h1.reNeed hneed

/-- the answer `true` of a scope test -/
theorem inScope_inScP {sc P : EName → Bool} {pred : Id → M Bool} [hs : PredSem pred P] {s s' : State} {b : Bool}
    (e : inScope sc pred s = .ok (b, s')) : QS s s' ∧ (b = true → InScP sc P s) := by
  unfold inScope at e
  rw [getS_bind] at e
  obtain ⟨q, hres⟩ := inScopeLoop_sem sc pred (fun n => P (nm s.dom n)) s
    (fun n s1 b1 s2 q0 e0 => by
      obtain ⟨q1, hb1⟩ := hs.h n s1 b1 s2 e0
      exact ⟨q1, by rw [hb1, q0.nm]⟩) _ s s' b (QS.refl _) e
  refine ⟨q, fun hb => ?_⟩
  obtain ⟨pre, x, post, hl, hx, hpre⟩ := hres hb
  obtain ⟨_, hsplit⟩ := getElem?_of_reverse_split hl
  exact ⟨post.reverse, x, pre.reverse, hsplit, hx, fun y hy => hpre y (List.mem_reverse.mp hy)⟩

/-- an element in table scope, and the elements above it, lie above the bottom of the stack, if the
element is none of `html`, `body`, `head`, `template` -/
theorem Big.popScope {m m' : Mode} {r : Id} {ph : Phase} {s s' : State} {P : EName → Bool} {popped : List Id}
    (h : Big m r ph s) (hi : InScP tableScope P s)
    (hP : ∀ n, P n = true → htmlIn n ["html", "body", "head", "template"] = false)
    (p : PR s s' popped)
    (hsub : ∀ below x above, s.openElems = below ++ x :: above → P (nm s.dom x) = true →
      (∀ y ∈ above, P (nm s.dom y) = false ∧ tableScope (nm s.dom y) = false) → ∀ y ∈ popped, y = x ∨ y ∈ above)
    (hneed : ∀ up', s'.openElems = r :: up' → Need s'.dom m' up') : Big m' r ph s' := by
  obtain ⟨below, x, above, hst, hx, hab⟩ := hi
  have hsub' := hsub below x above hst hx hab
  obtain ⟨up, b0, u0, hc, hup, hb0⟩ := h.bottom
  have hxk := hP _ hx
  -- x is neither the root nor the bottom element
  have hst0 := hc.stack
  rw [hup, hst] at hst0
  have hbelow : ∃ bl, below = r :: b0 :: bl := by
    cases below with
    | nil =>
      simp at hst0
      rw [hst0.1, hc.root_name] at hxk; exact absurd hxk (by decide)
    | cons a0 t0 =>
      simp only [List.cons_append, List.cons.injEq] at hst0
      obtain ⟨rfl, h2⟩ := hst0
      cases t0 with
      | nil =>
        simp at h2
        obtain ⟨a, ha, heq⟩ := htmlIn_eq hb0
        rw [← h2.1] at heq
        rw [heq] at hxk
        simp only [List.mem_cons, List.not_mem_nil, or_false] at ha
        rcases ha with rfl | rfl | rfl <;> exact absurd hxk (by decide)
      | cons a1 t1 =>
        simp only [List.cons_append, List.cons.injEq] at h2
        obtain ⟨rfl, _⟩ := h2
        exact ⟨t1, rfl⟩
  obtain ⟨bl, rfl⟩ := hbelow
  refine h.popAbove p ⟨b0, ?_, hc.up_ne_root (by rw [hup]; simp)⟩ ?_ hneed
  · -- b0 is not popped
    have hps := p.stack
    rw [hst] at hps
    have hnd := hc.nodup
    rw [hst] at hnd
    have hb0n : b0 ∉ x :: above := by
      intro hm
      have := (List.nodup_append.mp hnd).2.2 b0 (by simp) b0 hm
      exact this rfl
    have hb0p : b0 ∉ popped := fun hm => hb0n (by
      rcases hsub' b0 hm with h1 | h1
      · rw [h1]; simp
      · exact List.mem_cons_of_mem _ h1)
    have : b0 ∈ s'.openElems ++ popped := by rw [← hps]; simp
    rcases List.mem_append.mp this with h1 | h1
    · exact h1
    · exact absurd h1 hb0p
  · intro y hy hn
    rcases hsub' y hy with rfl | h1
    · rw [hn] at hxk; revert hxk; decide
    · have := (hab y h1).2
      rw [hn] at this; revert this; decide


/-- `pop_until_current(ctx)` when an element of `ctx` other than the root is on the stack -/
theorem popCtx_big {m m' : Mode} {r : Id} {ph : Phase} {s s' : State} {ctx : EName → Bool} {u : Unit}
    (h : Big m r ph s) (hwit : ∃ x ∈ s.openElems, x ≠ r ∧ ctx (nm s.dom x) = true)
    (htm : ctx (hN "template") = true) (e : popUntilCurrent ctx s = .ok (u, s'))
    (hneed : ∀ up', s'.openElems = r :: up' → (∃ x ∈ up', ctx (nm s'.dom x) = true) → Need s'.dom m' up') :
    Big m' r ph s' ∧ s'.mode = s.mode ∧ s'.origMode = s.origMode ∧
      ∃ t, s'.openElems.getLast? = some t ∧ ctx (nm s'.dom t) = true ∧ t ≠ r := by
  obtain ⟨popped, p, hp, t, ht, htc⟩ := popUntilCurrent_sem e
  obtain ⟨x, hxm, hxr, hxc⟩ := hwit
  have hxs : x ∈ s'.openElems := by
    have : x ∈ s'.openElems ++ popped := by rw [← p.stack]; exact hxm
    rcases List.mem_append.mp this with h1 | h1
    · exact h1
    · rw [hp x h1] at hxc; cases hxc
  have hnm : ∀ y, nm s'.dom y = nm s.dom y := nm_of_nodes p.nodes
  obtain ⟨up, hc, _⟩ := id h
  have hb' : Big m' r ph s' := h.popAbove p ⟨x, hxs, hxr⟩ (fun y hy hn => by
    have := hp y hy; rw [hn, htm] at this; cases this) (fun up' hup => hneed up' hup (by
      rw [hup] at hxs
      rcases List.mem_cons.mp hxs with h1 | h1
      · exact absurd h1 hxr
      · exact ⟨x, h1, by rw [hnm]; exact hxc⟩))
  refine ⟨hb', by rw [p.rest], by rw [p.rest], t, ht, by rw [hnm]; exact htc, ?_⟩
  rintro rfl
  obtain ⟨up', hc', _⟩ := hb'
  have hst := hc'.stack
  rw [hst] at ht hxs
  have hnd := hc'.nodup
  rw [hst] at hnd
  cases up' with
  | nil => simp at hxs; exact hxr hxs
  | cons a l =>
    have hmem : t ∈ a :: l := by
      have := List.mem_of_getLast? ht
      have h2 : (t :: a :: l).getLast? = (a :: l).getLast? := by simp [List.getLast?_cons_cons]
      rw [h2] at ht
      exact List.mem_of_getLast? ht
    exact (List.nodup_cons.mp hnd).1 hmem

/-- the side condition of the InBody rules, needed only where the generic end-tag arm is reached -/
def GenEnd (tag : Tag) (m : Mode) : Prop :=
  ¬ (tag.kind == H5V.Model.HtmlTok.TagKind.startTag) = true →
  ¬ (tag.isStart ["base", "basefont", "bgsound", "link", "meta", "noframes", "script", "style", "template",
      "title"] || tag.isEnd ["template"]) = true → EndSide tag m

theorem rbw_generic_end2 {tag : Tag} (h5 : ¬ tag.isEnd ["body"] = true) (h6 : ¬ tag.isEnd ["html"] = true)
    (h2 : ¬ (tag.isStart ["base", "basefont", "bgsound", "link", "meta", "noframes", "script", "style",
      "template", "title"] || tag.isEnd ["template"]) = true)
    (hk : ¬ (tag.kind == H5V.Model.HtmlTok.TagKind.startTag) = true) :
    RBw (fun s => GenEnd tag s.mode) (processEndTagInBody tag >>= fun _ => pure ProcessResult.done) :=
  fun m r ph s res s'' hb hm hbl hw e => rbw_generic_end h5 h6 h2 hk m r ph s res s'' hb hm hbl (hw hk h2) e

set_option maxHeartbeats 1600000 in
theorem stepInBody_tag_rbw2 (tag : Tag)
    (hhead : (tag.isStart ["base", "basefont", "bgsound", "link", "meta", "noframes", "script", "style",
      "template", "title"] || tag.isEnd ["template"]) = true → RB (stepInHead (.tag tag)))
    (hfs : tag.isStart ["frameset"] = true → FramesetArm tag) :
    RBw (fun s => GenEnd tag s.mode) (stepInBody (.tag tag)) := by
  unfold stepInBody
  dsimp only
  repeat rbw_arm
  all_goals first
    | (with_reducible apply rbw_generic_end2) <;> assumption
    | (apply RBw.of_rb
       first
        | exact hhead (by assumption)
        | (have h : tag.isStart ["frameset"] = true := by assumption
           with_reducible apply RB.bindPB inferInstance
           intro _
           with_reducible apply RB.bindPB inferInstance
           intro s0
           with_reducible apply RB.dite
           · intro _; exact inferInstance
           · intro _
             with_reducible apply rb_bodyElem
             · dsimp only; exact inferInstance
             · intro b; dsimp only; exact hfs h b)
        | (have h : tag.isStart ["body"] = true := by assumption
           with_reducible apply RB.bindPB inferInstance
           intro _
           with_reducible apply rb_bodyElem
           · dsimp only; exact inferInstance
           · intro b; dsimp only; apply RBw.of_rb; rb_walk)
        | (have h : tag.isEnd ["form"] = true := by assumption
           with_reducible apply RB.bindPB inferInstance
           intro _
           with_reducible apply RB.dite
           · intro _
             with_reducible apply rb_ofGetS
             intro s0
             cases hfe : s0.formElem with
             | none => dsimp only; apply RBw.of_rb; rb_walk
             | some node => dsimp only; exact rbw_form_end s0 node hfe _ _
           · intro _; rb_walk)
        | (have h : (tag.kind == H5V.Model.HtmlTok.TagKind.startTag) = true := by assumption
           haveI := plain_generic_start h (by assumption) (by assumption) (by assumption) (by assumption)
             (by assumption) (by assumption)
           rb_walk)
        | (haveI := plain_of_isStart (by assumption) (by decide)
           first | (haveI := fmt_of_isStart (by assumption) (by decide); rb_walk) | rb_walk)
        | (haveI := plain_of_isEnd (by assumption) (by decide)
           haveI := notCursory_of_isEnd (by assumption) (by decide); rb_walk)
        | (haveI := plain_of_isEnd (by assumption) (by decide); rb_walk)
        | rb_walk)

/-- **the InBody rules**, used in mode `m`, under the weaker side condition -/
theorem stepInBody_good2 {tok : Token} [ht : TokW tok] {r : Id} {s s' : State} {m : Mode}
    {res : ProcessResult} (hg : Good r s) (hm : s.mode = m) (hbl : isBL m = true)
    (hside : ∀ tag, tok = .tag tag → GenEnd tag m) (e : stepInBody tok s = .ok (res, s')) : Out r s' res := by
  cases tok with
  | tag t =>
    exact (stepInBody_tag_rbw2 t (bodyDeleg.head t) (bodyDeleg.frameset t)).good hg hm hbl
      (by rw [hm]; exact hside t rfl) e
  | nullChar => exact (stepInBody_other_rb bodyDeleg _ (by intro t h; cases h)).good hg hm hbl e
  | comment c => exact (stepInBody_other_rb bodyDeleg _ (by intro t h; cases h)).good hg hm hbl e
  | chars st text => exact (stepInBody_other_rb bodyDeleg _ (by intro t h; cases h)).good hg hm hbl e
  | eof => exact (stepInBody_other_rb bodyDeleg _ (by intro t h; cases h)).good hg hm hbl e

end H5V.Props.C06
