import H5V.Lemmas.HtmlTBModesSim1
import H5V.Lemmas.HtmlTBModesNat
/-!
Simulation lemmas, part 2: the glue from the `Tot` theorems of `H5V.Props.C02Algo` (token type `Tag`,
`absState`) to stretches `Tr` over `absF`; the last step of a rule (`tokPost_of_tr`); field updates.
-/
namespace H5V.Lemmas.HtmlTBModes
open H5V.Model.HtmlTB
open H5V.Model.Dom (Id SinkOp Output Dom QualName Attr NodeOrText ElementFlags NodeData QuirksMode)
open H5V.Lemmas.HtmlTBAlgo
open H5V.Lemmas.HtmlTBSpec (toAdj Plain)
open H5V.Lemmas.TBSafe (TI HInv SInv Rooted)
open H5V.Spec.TreeAlgo2 (Elem Entry PState Ctx Edit Place)
open H5V.Spec.TreeModes (STok ETok IMode Config Out TokSwitch XOp Op Step Edition)

/-! ### the calls of an edit log, seen through `etokOf` -/

theorem attrOfAdj_toAdj (a : Attr) : attrOfAdj (toAdj a) = a := by
  obtain ⟨⟨p, n, l⟩, v⟩ := a; rfl

theorem etokOf_tagOfETok (t : ETok) : etokOf (tagOfETok t) = t := by
  obtain ⟨n, a⟩ := t
  simp only [etokOf, tagOfETok, List.map_map]
  congr 1
  rw [List.map_congr_left (g := id)]
  · simp
  · intro x _; obtain ⟨p, n, l, v⟩ := x; rfl

theorem flatCall_editCallE (tc : Id → Id) (e : Edit Id Tag) :
    flatCall (editCallE tc (Edit.mapTok etokOf e)) = flatCall (editCall tc e) := by
  cases e with
  | create new ns tok =>
    simp only [editCallE, Edit.mapTok, editCall, createCall, tagOfETok, etokOf, List.map_map]
    have : List.map (attrOfAdj ∘ toAdj) tok.attrs = tok.attrs := by
      rw [List.map_congr_left (g := id)]
      · simp
      · intro a _; exact attrOfAdj_toAdj a
    rw [this]
    simp only [flatCall, flagsFor]
  | _ => rfl

theorem isEdit2_editCall (tc : Id → Id) (e : Edit Id Tag) : isEdit2 (editCall tc e).1 = true := by
  cases e with
  | insert place child => simp only [editCall, insertOp]; cases ipOf tc place <;> rfl
  | insertText place child => simp only [editCall, insertOp]; cases ipOf tc place <;> rfl
  | _ => rfl

theorem isEdit_of_isEdit2 {op : SinkOp} (h : isEdit2 op = true) : isEdit op = true := by
  unfold isEdit2 at h
  split at h <;> first | exact h | cases h

theorem edits2_edits (calls : List Call) : edits2 (edits calls) = edits2 calls := by
  simp only [edits2, edits, List.filter_filter]
  apply List.filter_congr
  intro c _
  cases h : isEdit2 c.1
  · simp
  · simp [isEdit_of_isEdit2 h]

theorem edits2_map_editCall (tc : Id → Id) (L : List (Edit Id Tag)) :
    edits2 (L.map (editCall tc)) = L.map (editCall tc) := by
  simp only [edits2]
  rw [List.filter_eq_self]
  intro c hc
  obtain ⟨e, _, rfl⟩ := List.mem_map.mp hc
  exact isEdit2_editCall tc e

theorem flatMap_congr' {α β : Type} {f g : α → List β} : ∀ {l : List α}, (∀ a ∈ l, f a = g a) → l.flatMap f = l.flatMap g
  | [], _ => rfl
  | a :: l, h => by
    simp only [List.flatMap_cons]
    rw [h a (by simp), flatMap_congr' (fun b hb => h b (by simp [hb]))]

/-- the model's calls as the calls of the `ETok` log -/
theorem flat_of_edits {calls : List Call} {L : List (Edit Id Tag)} {tc : Id → Id}
    (h : edits calls = L.map (editCall tc)) :
    flatCalls (edits2 calls) = flatCalls (((L.map (Edit.mapTok etokOf)).map Op.edit).map (opCall tc)) := by
  rw [← edits2_edits, h, edits2_map_editCall]
  simp only [flatCalls, List.map_map, List.flatMap_map]
  apply flatMap_congr'
  intro e _
  exact (flatCall_editCallE tc e).symm

/-! ### glue -/

/-- the `Aux` after a stretch that consumed `n` nodes, logged `L` and met the new integration points `na` -/
def Aux.step (x : Aux) (n : Nat) (L : List (Edit Id Tag)) (na : List Id) : Aux :=
  { x with supply := x.supply.drop n, log := x.log ++ L.map (Edit.mapTok etokOf), annot := x.annot ++ na }

theorem Aux.fullLog_step {s : State} {x : Aux} (hx : AuxOk s x) (n : Nat) (L : List (Edit Id Tag)) (na : List Id) :
    (x.step n L na).fullLog = x.fullLog ++ (L.map (Edit.mapTok etokOf)).map Op.edit := by
  unfold Aux.fullLog Aux.step
  exact mergeLog_append _ _ _ _ (by simpa using hx.xlog.2)

/-- **glue**: a stretch whose DOM calls are the edits `L` (phase-1 form) -/
theorem Tr.of_edits {s s' : State} {calls : List Call} (hm' : MInv s') (hc : cfgOf s' = cfgOf s)
    (he : Ext2 s calls s') (ids : List Id) (L : List (Edit Id Tag)) (na : List Id) (hfi : FreshIds s ids)
    (hcalls : ∀ tc, TcOk s'.dom tc → edits calls = L.map (editCall tc))
    (hann : ∀ x, AuxOk s x → (∀ h ∈ s'.openElems, nameOf s'.dom h = annotName → (x.annot ++ na).contains h = ipOfDom s'.dom h))
    (hna : ∀ a ∈ na, s'.dom.isElement a = true) :
    Tr s s' calls (fun x x' => x' = x.step ids.length L na ∧ ∃ rest, x.supply = ids ++ rest) := by
  refine ⟨hm', hc, he.ext, ids, hfi, fun x rest hx hs => ⟨x.step ids.length L na, ⟨⟨hx.live, hann x hx, ?_, ?_⟩, ?_, rfl, rfl, rfl, ?_⟩, rfl, rest, hs⟩⟩
  · intro a ha
    rcases List.mem_append.mp ha with h | h
    · exact isElement_ext he.ext (hx.annotEl a h)
    · exact hna a h
  · refine ⟨hx.xlog.1, fun j hj => ?_⟩
    have := hx.xlog.2 j hj
    simp only [Aux.step, List.length_append]
    omega
  · simp [Aux.step, hs]
  · exact ⟨_, Aux.fullLog_step hx _ _ _, fun tc htc => flat_of_edits (hcalls tc htc)⟩

/-- the integration-point list stays right when the stack does not get new entries -/
theorem annot_of_sub {s s' : State} (he : TBSafe.Ext s.dom s'.dom) (hm : MInv s)
    (ho : ∀ h ∈ s'.openElems, h ∈ s.openElems) (x : Aux) (hx : AuxOk s x) :
    ∀ h ∈ s'.openElems, nameOf s'.dom h = annotName → (x.annot ++ []).contains h = ipOfDom s'.dom h := by
  intro h hh hn
  rw [nameOf_ext he (hm.elems h (ho h hh))] at hn
  rw [List.append_nil, hx.annot h (ho h hh) hn, ipOfDom_ext he (hm.elems h (ho h hh))]

/-! ### the last step of a rule -/

/-- two `Aux` that differ only in what the invariants and the comparison do not look at -/
structure AuxSame (x x' : Aux) : Prop where
  supply : x'.supply = x.supply
  outs : x'.outs = x.outs
  log : x'.log = x.log
  xlog : x'.xlog = x.xlog
  annot : x'.annot = x.annot

theorem AuxSame.rfl' {x : Aux} : AuxSame x x := ⟨rfl, rfl, rfl, rfl, rfl⟩

theorem AuxOk.withMode {s : State} {x : Aux} (h : AuxOk s x) (m : Mode) : AuxOk { s with mode := m } x :=
  ⟨h.live, h.annot, h.annotEl, h.xlog⟩

theorem MInv.withMode {s : State} (h : MInv s) (m : Mode) : MInv { s with mode := m } :=
  ⟨h.elems, h.root, h.af, h.afEl, h.head, h.ctx, h.afwf, h.ip, h.tmodes, h.form, h.pend⟩

theorem MInv.withIgnoreLf {s : State} (h : MInv s) (b : Bool) : MInv { s with ignoreLf := b } :=
  ⟨h.elems, h.root, h.af, h.afEl, h.head, h.ctx, h.afwf, h.ip, h.tmodes, h.form, h.pend⟩

/-- the context-element clause of `MInv` along a DOM extension -/
theorem MInv.ctx_ext {s s' : State} (h : MInv s) (he : TBSafe.Ext s.dom s'.dom) (hc : s'.contextElem = s.contextElem) :
    ∀ c, s'.contextElem = some c → s'.dom.isElement c = true := by
  intro c hcc; rw [hc] at hcc
  exact isElement_ext he (h.ctx c hcc)

/-- the form-pointer clause of `MInv` along a DOM extension -/
theorem MInv.form_ext {s s' : State} (h : MInv s) (he : TBSafe.Ext s.dom s'.dom) (hf : s'.formElem = s.formElem) :
    ∀ f, s'.formElem = some f → s'.dom.isElement f = true ∧ nameOf s'.dom f ≠ ⟨nsHtml, "html".toList⟩ := by
  intro f hff; rw [hf] at hff
  obtain ⟨h1, h2⟩ := h.form f hff
  exact ⟨isElement_ext he h1, by rw [nameOf_ext he h1]; exact h2⟩

theorem MInv.applyRes {s : State} (h : MInv s) (res : ProcessResult) : MInv (applyRes res s) := by
  cases res <;> first | exact h | exact h.withMode _

theorem AuxOk.applyRes {s : State} {x : Aux} (h : AuxOk s x) (res : ProcessResult) : AuxOk (applyRes res s) x := by
  cases res <;> first | exact h | exact h.withMode _

theorem outRel_congr {res : ProcessResult} {o o1 o2 : Out Id} (h1 : o1.switch = o.switch) (h2 : o1.script = o.script)
    (h : OutRel res o1 o2) : OutRel res o o2 := by
  cases res <;> simp only [OutRel] at h ⊢ <;> simp_all

/-- **the end of a rule**: after the stretch `h`, the rule returns `res`; `x''` is the final `Aux`
(errors, original mode, … may differ from the `x'` of the stretch) -/
theorem tokPost_of_tr {spec : SState → Spec.TreeModes.M (Step Id)} {s s' : State} {tok : Token} {calls : List Call}
    {R : Aux → Aux → Prop} {res : ProcessResult} (h : Tr s s' calls R) (hres : ResTok tok res)
    (hfin : ∀ x x', AuxOk s x → AuxOk s' x' → R x x' → ∃ x'', spec (absF s x) = .ok (stepOf res s' x'') ∧
      AuxSame x' x'' ∧ (x''.stopped = x'.stopped ∨ (res = .done ∧ tok = .eof)) ∧ OutRel res x'.out x''.out) :
    TokPost spec s tok res s' calls := by
  obtain ⟨hm, hc, he, ids, hfi, f⟩ := h
  refine ⟨hres, hm.applyRes res, hc, ids, hfi, fun x rest hx hs => ?_⟩
  obtain ⟨x', l, r⟩ := f x rest hx hs
  obtain ⟨x'', hsp, hsame, hstop, hout⟩ := hfin x x' hx l.aux r
  obtain ⟨ops, e1, k1⟩ := l.log
  refine ⟨x'', ops, hsp, ?_, ?_, hsame.supply.trans l.supply, outRel_congr l.switch l.script hout, hsame.outs.trans l.outs, ?_, k1⟩
  · intro hlive
    have : AuxOk s' x'' := ⟨hlive, by rw [hsame.annot]; exact l.aux.annot, by rw [hsame.annot]; exact l.aux.annotEl,
      by rw [hsame.xlog, hsame.log]; exact l.aux.xlog⟩
    exact this.applyRes res
  · intro hst
    rcases hstop with h | h
    · rw [h, l.aux.live] at hst; cases hst
    · exact h
  · unfold Aux.fullLog at e1 ⊢
    rw [hsame.xlog, hsame.log]; exact e1

/-! ### `absP` through `mapP` -/

/-- the log of `x` over the model's tags -/
def Aux.logT (x : Aux) : List (Edit Id Tag) := x.log.map (Edit.mapTok tagOfETok)

theorem Edit.mapTok_mapTok {N T T' T'' : Type} (f : T → T') (g : T' → T'') (e : Edit N T) :
    Edit.mapTok g (Edit.mapTok f e) = Edit.mapTok (fun t => g (f t)) e := by cases e <;> rfl

theorem Edit.mapTok_id' {N T : Type} (f : T → T) (hf : ∀ t, f t = t) (e : Edit N T) : Edit.mapTok f e = e := by
  cases e <;> simp [Edit.mapTok, hf]

theorem Aux.logT_map (x : Aux) : x.logT.map (Edit.mapTok etokOf) = x.log := by
  unfold Aux.logT
  rw [List.map_map, List.map_congr_left (g := id)]
  · simp
  · intro e _
    simp only [Function.comp, Edit.mapTok_mapTok, id]
    exact Edit.mapTok_id' _ etokOf_tagOfETok e

/-- the `PState` of the abstract state is the image of the `PState` of phase 1 -/
theorem absP_eq (s : State) (x : Aux) (hx : x.stopped = false) :
    absP s x = mapP etokOf (absState s x.supply x.logT) := by
  rw [mapP_absState, Aux.logT_map]
  simp only [absP, hx]

theorem absF_p (s : State) (x : Aux) : (absF s x).p = absP s x := rfl

/-- `absF` after a stretch in which only the DOM (and the `Aux`) moved -/
theorem absF_step_same {s s' : State} {x : Aux} (hm : MInv s) (hs : SameTB s s') (he : TBSafe.Ext s.dom s'.dom)
    (n : Nat) (L : List (Edit Id Tag)) (na : List Id) :
    absF s' (x.step n L na) = { absF s x with
      p := { absP s x with supply := x.supply.drop n, log := x.log ++ L.map (Edit.mapTok etokOf) },
      annotationHtml := x.annot ++ na } := by
  rw [absF_of_same _ hm hs he]
  rfl

/-! ### first primitives -/

theorem pc_seq {α β : Type} {m : M α} {f : α → M β} {s : State} {Q1 : α → State → List Call → Prop}
    {Q : β → State → List Call → Prop} (h : PC m s Q1)
    (hf : ∀ a s1 c1, Ext2 s c1 s1 → Q1 a s1 c1 → PC (f a) s1 (fun b s2 c2 => Q b s2 (c1 ++ c2))) : PC (m >>= f) s Q :=
  pc_bind (pc_conseq h hf)

theorem pc_unexpected {s : State} (hm : MInv s) :
    PC unexpected s (fun r s' calls => r = .done ∧ Tr s s' calls (fun x x' => x' = x ∧ absF s x = absF s' x)) := by
  unfold unexpected
  refine pc_seq (PC.of_tot (tot_parseError s _)) ?_
  rintro _ s1 c1 he ⟨-, hs, hc⟩
  refine pc_pure ⟨rfl, ?_⟩
  rw [List.append_nil]
  exact Tr.of_same hm hs he (by rw [← edits2_edits, hc]; rfl)

theorem pc_parseError {s : State} (hm : MInv s) (msg : String) :
    PC (parseError msg) s (fun _ s' calls => Tr s s' calls (fun x x' => x' = x ∧ absF s x = absF s' x)) := by
  intro a s' hr
  obtain ⟨calls, he, -, hs, hc⟩ := PC.of_tot (tot_parseError s msg) a s' hr
  exact ⟨calls, he, Tr.of_same hm hs he (by rw [← edits2_edits, hc]; rfl)⟩

/-- a step that only changes fields of the tree builder, keeps the stack inside the old one -/
theorem Tr.of_upd {s s' : State} (hm : MInv s) (hd : s'.dom = s.dom) (ho : ∀ h ∈ s'.openElems, h ∈ s.openElems)
    (hm' : MInv s') (hc : cfgOf s' = cfgOf s) : Tr s s' [] (fun x x' => x' = x) := by
  refine ⟨hm', hc, by rw [hd]; exact TBSafe.Ext.refl _, [], FreshIds.nil _, fun x rest hx hs => ⟨x, ⟨⟨hx.live, ?_, ?_, hx.xlog⟩, by simpa using hs, rfl, rfl, rfl, [], by simp, fun _ _ => rfl⟩, rfl⟩⟩
  · intro h hh hn; rw [hd] at hn ⊢; exact hx.annot h (ho h hh) hn
  · intro a ha; rw [hd]; exact hx.annotEl a ha

theorem pc_setMode {s : State} (hm : MInv s) (m : Mode) :
    PC (setMode m) s (fun _ s' calls => s' = { s with mode := m } ∧ Tr s s' calls (fun x x' => x' = x)) := by
  unfold setMode
  exact pc_modS rfl rfl ⟨rfl, Tr.of_upd hm rfl (fun _ h => h) (hm.withMode m) rfl⟩

/-- "insert a comment" -/
theorem pc_appendComment {s : State} (hm : MInv s) (hne : s.openElems ≠ []) (text : Str) :
    PC (appendComment text) s (fun r s' calls => r = .done ∧
      Tr s s' calls (fun x x' => Spec.TreeModes.insertComment (absF s x) text = .ok (absF s' x'))) := by
  have hok := hm.elems
  obtain ⟨h0, hh0, hnt, hsp⟩ := hm.headOk hne
  obtain ⟨place, hplace, hpn⟩ := appropriatePlace_some (absStack s.dom s.openElems) s.fosterParenting none
    (elemOf s.dom h0) (by rw [absStack_head?, hh0]; rfl) hnt
  unfold appendComment
  refine pc_seq (PC.of_tot (tot_createComment s text)) ?_
  rintro c s1 c1 he1 ⟨hs1, hc1, hfresh⟩
  subst hc1
  have hx1 := he1.ext
  have hplace1 : Spec.TreeAlgo2.appropriatePlace (absStack s1.dom s1.openElems) s1.fosterParenting ((none : Option Id).map (elemOf s1.dom)) = some place := by
    rw [hs1.openElems, hs1.fosterParenting, absStack_ext hok hx1]; exact hplace
  refine pc_seq (PC.of_tot (tot_insertAppropriately s1 (.node c) none (by rw [hs1.openElems]; exact ElemsOk.ext hok hx1)
    (by simp) place hplace1)) ?_
  rintro _ s2 c2 he2 ⟨hs2, hc2⟩
  refine pc_pure ⟨rfl, ?_⟩
  rw [List.append_nil]
  have hs := hs1.trans hs2
  have he := he1.trans he2
  have hpel : ∀ y ∈ placeNodes place, s.dom.isElement y = true := by
    intro y hy
    rcases hpn y hy with h | ⟨t, ht, _⟩
    · obtain ⟨e, he', rfl⟩ := List.mem_map.mp h
      obtain ⟨z, hz, rfl⟩ := List.mem_map.mp he'
      exact hok z hz
    · cases ht
  refine (Tr.of_edits (hm.sameTB hs he.ext) (cfgOf_of_same hm hs he.ext) he [c]
    [Edit.createComment c text, Edit.insert place c] []
    (FreshIds.of_size (by intro n hn; simp only [List.mem_singleton] at hn; subst hn; exact hfresh)) ?_ (annot_of_sub he.ext hm (by rw [hs.openElems]; exact fun _ h => h)) (by simp)).conseq ?_
  · intro tc htc
    rw [edits_append, hc2]
    have e1 : ipOf (tcOf s1.dom) place = ipOf tc place := by
      rw [ipOf_congr (tcOk_of_ext htc he.ext) hpel, ipOf_congr (d := s.dom) (tc := tcOf s1.dom) ?_ hpel]
      intro y hy; exact (tcOf_ext hx1 hy).symm ▸ rfl
    simp [edits, isEdit, editCall, e1]
  · rintro x x' hx _ ⟨hx', rest, hsup⟩
    subst hx'
    rw [absF_step_same hm hs he.ext]
    have h1 : Spec.TreeAlgo2.appropriatePlace (absState s (c :: rest) x.logT).stack (absState s (c :: rest) x.logT).fosterParenting none = some place := hplace
    have h2 : Spec.TreeAlgo2.insertComment (absState s (c :: rest) x.logT) text
        = some (absState s rest (x.logT ++ [Edit.createComment c text, Edit.insert place c])) := by
      simp only [Spec.TreeAlgo2.insertComment, h1, Option.bind_some, PState.newNode]
      rfl
    unfold Spec.TreeModes.insertComment
    rw [absF_p, absP_eq s x hx.live, insertComment_mapP, hsup, List.singleton_append, h2]
    simp only [Option.map_some, Spec.TreeModes.req, mapP_absState, List.map_append, Aux.logT_map]
    simp [absP, hx.live, hsup, absF, bind, Except.bind, pure, Except.pure]

/-! ### tag tests: both sides as `decide (name = …)` -/

theorem tokPost_congr {spec spec' : SState → Spec.TreeModes.M (Step Id)} {s : State} {tok : Token} {res : ProcessResult}
    {s' : State} {calls : List Call} (h : TokPost spec' s tok res s' calls)
    (he : ∀ x, AuxOk s x → spec (absF s x) = spec' (absF s x)) : TokPost spec s tok res s' calls := by
  obtain ⟨h1, h2, h3, ids, hfi, f⟩ := h
  refine ⟨h1, h2, h3, ids, hfi, fun x rest hx hs => ?_⟩
  obtain ⟨x', ops, e, r⟩ := f x rest hx hs
  exact ⟨x', ops, (he x hx).trans e, r⟩

theorem pc_tokPost_congr {spec spec' : SState → Spec.TreeModes.M (Step Id)} {s : State} {tok : Token} {m : M ProcessResult}
    (h : PC m s (TokPost spec' s tok)) (he : ∀ x, AuxOk s x → spec (absF s x) = spec' (absF s x)) :
    PC m s (TokPost spec s tok) :=
  pc_conseq h fun _ _ _ _ hp => tokPost_congr hp he

theorem beq_list_comm (a b : Str) : (a == b) = (b == a) := by
  cases h : a == b
  · cases h' : b == a
    · rfl
    · rw [beq_iff_eq] at h'; subst h'; simp at h
  · rw [beq_iff_eq] at h; subst h; simp

theorem beq_str (a b : Str) : (a == b) = decide (a = b) := by
  cases h : a == b
  · have : ¬ a = b := fun e => by subst e; simp at h
    simp [this]
  · rw [beq_iff_eq] at h; simp [h]

@[simp] theorem isOneOf_nil (n : Str) : isOneOf n [] = false := rfl
@[simp] theorem isOneOf_cons (n : Str) (a : String) (l : List String) :
    isOneOf n (a :: l) = (decide (n = a.toList) || isOneOf n l) := by
  simp only [isOneOf, List.any_cons]
  congr 1
  rw [beq_list_comm, beq_str]
@[simp] theorem isName_eq (n : Str) (a : String) : isName n a = decide (n = a.toList) := by
  simp only [isName]; rw [beq_list_comm, beq_str]
@[simp] theorem strIs_eq (n : Str) (a : String) : Spec.TreeModes.strIs n a = decide (n = a.toList) := by
  simp only [Spec.TreeModes.strIs, beq_str]
@[simp] theorem strIsOneOf_nil (n : Str) : Spec.TreeModes.strIsOneOf n [] = false := rfl
@[simp] theorem strIsOneOf_cons (n : Str) (a : String) (l : List String) :
    Spec.TreeModes.strIsOneOf n (a :: l) = (decide (n = a.toList) || Spec.TreeModes.strIsOneOf n l) := by
  simp only [Spec.TreeModes.strIsOneOf, List.any_cons, beq_str]
@[simp] theorem specTag_name (t : Tag) : (specTag t).name = t.name := rfl
@[simp] theorem specTag_selfClosing (t : Tag) : (specTag t).selfClosing = t.selfClosing := rfl

theorem stokOfTag_start {t : Tag} (h : t.kind = .startTag) : stokOfTag t = .startTag (specTag t) := by
  simp [stokOfTag, h]
theorem stokOfTag_end {t : Tag} (h : t.kind = .endTag) : stokOfTag t = .endTag (specTag t) := by
  simp [stokOfTag, h]

end H5V.Lemmas.HtmlTBModes
