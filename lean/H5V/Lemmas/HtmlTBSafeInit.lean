import H5V.Lemmas.HtmlTBSafeRun
/-!
# Tree-builder safety, part 12: the constructors establish the invariant

`TreeBuilder::new` (document parsing) and `TreeBuilder::new_for_fragment` (fragment parsing with an
arbitrary context element and an optional form pointer).
-/
namespace H5V.Lemmas.TBSafe
open H5V.Model.HtmlTB
open H5V.Model.Dom (Id QualName Attr NodeOrText SinkOp Output ElementFlags QuirksMode Dom NodeData Node)

variable {al : Allow}

/-- a builder state as the constructors find it: nothing on the stack, no pointers set; the sink
(`dom`) is arbitrary -/
structure Fresh (s : State) : Prop where
  mode : s.mode = .initial
  openElems : s.openElems = []
  af : s.activeFormatting = []
  headElem : s.headElem = none
  formElem : s.formElem = none
  contextElem : s.contextElem = none
  templateModes : s.templateModes = []
  pending : s.pendingTableText = []

theorem fresh_init (opts : Opts) : Fresh (State.init opts) := ⟨rfl, rfl, rfl, rfl, rfl, rfl, rfl, rfl⟩

theorem fresh_init_dom (opts : Opts) (d : Dom) : Fresh { State.init opts with dom := d } :=
  ⟨rfl, rfl, rfl, rfl, rfl, rfl, rfl, rfl⟩

theorem TI.of_fresh {s : State} (h : Fresh s) : TI s where
  h := by
    refine ⟨?_, ?_, ?_, ?_, ?_, ?_⟩
    · rw [h.openElems]; intro x hx; cases hx
    · rw [h.openElems]; intro x hx; cases hx
    · rw [h.af]; intro x t hx; cases hx
    · rw [h.headElem]; intro x hx; cases hx
    · rw [h.formElem]; intro x hx; cases hx
    · rw [h.contextElem]; intro x hx; cases hx
  s := by
    rw [h.mode]
    refine ⟨(fun hh => by cases hh), h.openElems, (fun hh => by cases hh), ?_, (fun hh => by cases hh),
      (fun hh => by cases hh), (fun _ => h.pending), ?_, ?_⟩
    · rw [h.openElems]; rintro ⟨x, hx, _⟩; cases hx
    · rw [h.openElems, h.templateModes]
      unfold ctxTmpl; rw [h.contextElem]; simp [tcount]
    · rw [h.templateModes]; intro x hx; cases hx

theorem sat_getDocument {s : State} : Sat (sinkNode .getDocument) s (fun _ s' => QF s s') := by
  unfold sinkNode
  refine Sat.bind (sat_sink (Q := fun o s' => (∃ r, o = .node r) ∧ QF s s')
    (Or.inr ⟨_, _, apply_getDocument _⟩) ?_) ?_
  · intro d' out h
    have h' := h
    rw [apply_getDocument] at h; cases h
    exact ⟨⟨_, rfl⟩, qf_of_apply h'⟩
  · rintro o s' ⟨⟨r, rfl⟩, hq⟩
    exact sat_pure hq

/-- `TreeBuilder::new` -/
theorem sat_newTB {s : State} (h : Fresh s) : Sat newTB s (fun _ s' => TI s') := by
  unfold newTB
  refine sat_getDocument.bind ?_
  intro doc s1 hq
  refine sat_modS ?_
  have ht : TI s1 := (TI.of_fresh h).of_qf hq
  exact ⟨⟨ht.h.open_el, ht.h.open_tc, ht.h.af, ht.h.head, ht.h.form, ht.h.ctx⟩,
    ⟨ht.s.root, ht.s.stack, ht.s.head, ht.s.headIn, ht.s.text, ht.s.tableText, ht.s.pending, ht.s.tmpl,
     ht.s.tmodes⟩⟩

/-- `TreeBuilder::new_for_fragment`: the context element must be an element of the sink; the form
pointer, if given, an HTML `form` element -/
theorem sat_newForFragment {ctx : Id} {form : Option Id} {s : State} (h : Fresh s)
    (hctx : IsEl s.dom ctx) (hform : ∀ f, form = some f → IsEl s.dom f ∧ nm s.dom f = formName) :
    Sat (newForFragment ctx form) s (fun _ s' => TI s') := by
  unfold newForFragment
  refine sat_getDocument.bind ?_
  intro doc s1 hq1
  refine (sat_elemName (hctx.ext hq1.ext)).bind ?_
  rintro n s2 ⟨rfl, hq2⟩
  have hq := hq1.trans hq2
  dsimp only
  refine sat_modS_bind ?_
  refine sat_createRoot.bind ?_
  rintro _ s3 ⟨r, hfr, ho, haf, hrel, hrnm, hfresh⟩
  -- the state before `create_root`
  have hnmctx : nm s1.dom ctx = nm s.dom ctx := nm_ext hq1.ext hctx
  have ho3 : s3.openElems = [r] := by
    rw [ho]; show s2.openElems ++ [r] = [r]; rw [hq.openElems, h.openElems]; rfl
  have haf3 : s3.activeFormatting = [] := by
    rw [haf]; show s2.activeFormatting = []; rw [hq.activeFormatting, h.af]
  have hctx3 : s3.contextElem = some ctx := by rw [hfr.contextElem]
  have hform3 : s3.formElem = form := by rw [hfr.formElem]
  have hhead3 : s3.headElem = none := by
    rw [hfr.headElem]; show s2.headElem = none; rw [hq.headElem, h.headElem]
  have hpend3 : s3.pendingTableText = [] := by
    rw [hfr.pendingTableText]; show s2.pendingTableText = []; rw [hq.pendingTableText, h.pending]
  have hext : Ext s.dom s3.dom := hq.ext.trans hfr.ext
  have hi3 : HInv s3 := by
    refine ⟨?_, ?_, ?_, ?_, ?_, ?_⟩
    · rw [ho3]; intro x hx; rw [List.mem_singleton.mp hx]; exact hrel
    · rw [ho3]; intro x hx hn; rw [List.mem_singleton.mp hx, hrnm] at hn; exact absurd hn (by decide)
    · rw [haf3]; intro x t hx; cases hx
    · rw [hhead3]; intro x hx; cases hx
    · rw [hform3]; intro f hf
      obtain ⟨h1, h2⟩ := hform f hf
      exact ⟨h1.ext hext, by rw [nm_ext hext h1]; exact h2⟩
    · rw [hctx3]; intro x hx; cases hx; exact hctx.ext hext
  have htm3 : s3.templateModes =
      (if ((nm s1.dom ctx).ns == nsHtml && isName (nm s1.dom ctx).loc "template") = true then [Mode.inTemplate] else []) := by
    rw [hfr.templateModes]
  have hctxT : ctxTmpl s3 ≤ s3.templateModes.length := by
    unfold ctxTmpl
    rw [hctx3, htm3]
    dsimp only
    rw [nm_ext hext hctx, hnmctx]
    by_cases hT : (nm s.dom ctx == tmplName) = true
    · have : nm s.dom ctx = tmplName := beq_iff_eq.mp hT
      rw [this]; decide
    · simp only [hT, Bool.false_eq_true, if_false]; exact Nat.zero_le _
  refine (sat_resetInsertionMode hi3 ?_ ?_ ?_).bind ?_
  · rw [htm3]; intro x hx
    split at hx
    · rw [List.mem_singleton.mp hx]; rfl
    · cases hx
  · have : tcount s3.dom s3.openElems = 0 := by
      rw [ho3]; exact tcount_zero_of_not (by
        intro x hx; rw [List.mem_singleton.mp hx, hrnm]; decide)
    rw [this]; simpa using hctxT
  · rw [ho3]; rintro ⟨x, hx, hn⟩
    rw [List.mem_singleton.mp hx, hrnm] at hn; exact absurd hn (by decide)
  rintro m s4 ⟨hq4, hro⟩
  refine sat_setMode.mono ?_
  rintro _ s5 rfl
  have hi4 : HInv s4 := hi3.of_qf hq4
  refine ⟨hi4.withMode m, ?_⟩
  show SInv m { s4 with mode := m }
  refine SInv.withMode ?_ _
  refine ⟨fun _ => ⟨r, [], by rw [hq4.openElems]; exact ho3, by rw [nm_ext hq4.ext hrel]; exact hrnm⟩,
    hro.stack, hro.head, ?_, (fun e => absurd e hro.notSpecial.1), (fun e => absurd e hro.notSpecial.2.1),
    (fun _ => by rw [hq4.pendingTableText]; exact hpend3), ?_, ?_⟩
  · rw [hq4.openElems, ho3]
    rintro ⟨x, hx, hn⟩
    rw [List.mem_singleton.mp hx, nm_ext hq4.ext hrel, hrnm] at hn; exact absurd hn (by decide)
  · rw [hq4.openElems, hq4.templateModes, ctxTmpl_fr hi3 hq4.fr, tcount_ext hq4.ext hi3.open_el]
    have : tcount s3.dom s3.openElems = 0 := by
      rw [ho3]; exact tcount_zero_of_not (by
        intro x hx; rw [List.mem_singleton.mp hx, hrnm]; decide)
    rw [this]; simpa using hctxT
  · rw [hq4.templateModes, htm3]; intro x hx
    split at hx
    · rw [List.mem_singleton.mp hx]; rfl
    · cases hx

end H5V.Lemmas.TBSafe
