import H5V.Lemmas.DomOps
/-! Text merging: "no two adjacent text siblings" and how each operation affects it. -/
namespace H5V.Lemmas.Dom
open H5V.Model.Dom

/-! ### "no two adjacent text siblings" on lists -/

/-- no two consecutive entries both satisfy `isT` -/
def noAdj (isT : Id → Bool) : List Id → Bool
  | a :: b :: t => !(isT a && isT b) && noAdj isT (b :: t)
  | _ => true

def lastT (isT : Id → Bool) (l : List Id) : Bool := match l.getLast? with | some x => isT x | none => false
def headT (isT : Id → Bool) (l : List Id) : Bool := match l.head? with | some x => isT x | none => false

theorem noAdj_cons (isT : Id → Bool) (a : Id) (l : List Id) :
    noAdj isT (a :: l) = (!(isT a && headT isT l) && noAdj isT l) := by
  cases l with
  | nil => simp [noAdj, headT]
  | cons b t => simp [noAdj, headT]

theorem lastT_cons_cons (isT : Id → Bool) (a b : Id) (t : List Id) :
    lastT isT (a :: b :: t) = lastT isT (b :: t) := by
  simp [lastT, List.getLast?_cons_cons]

theorem noAdj_append (isT : Id → Bool) : ∀ (l1 l2 : List Id),
    noAdj isT (l1 ++ l2) = (noAdj isT l1 && noAdj isT l2 && !(lastT isT l1 && headT isT l2)) := by
  intro l1
  induction l1 with
  | nil => intro l2; simp [noAdj, lastT]
  | cons a t ih =>
    intro l2
    cases t with
    | nil =>
      simp only [List.cons_append, List.nil_append]
      rw [noAdj_cons]
      simp [noAdj, lastT, Bool.and_comm]
    | cons b t' =>
      have := ih l2
      simp only [List.cons_append] at this ⊢
      rw [noAdj_cons isT a (b :: (t' ++ l2)), this, noAdj_cons isT a (b :: t'), lastT_cons_cons]
      simp only [headT, List.head?_cons]
      cases isT a <;> cases isT b <;> simp

theorem noAdj_congr {isT isT' : Id → Bool} {l : List Id} (h : ∀ x ∈ l, isT' x = isT x) :
    noAdj isT' l = noAdj isT l := by
  induction l with
  | nil => rfl
  | cons a t ih =>
    cases t with
    | nil => rfl
    | cons b t' =>
      simp only [noAdj]
      rw [h a (by simp), h b (by simp), ih (fun x hx => h x (by simp [hx]))]

theorem lastT_congr {isT isT' : Id → Bool} {l : List Id} (h : ∀ x ∈ l, isT' x = isT x) :
    lastT isT' l = lastT isT l := by
  unfold lastT
  cases hl : l.getLast? with
  | none => rfl
  | some x => exact h x (List.mem_of_getLast? hl)

theorem lastT_append_singleton (isT : Id → Bool) (l : List Id) (x : Id) : lastT isT (l ++ [x]) = isT x := by
  simp [lastT]

theorem lastT_take {isT : Id → Bool} {l : List Id} {i : Nat} {x : Id} (hi : 0 < i) (hx : l[i - 1]? = some x) :
    lastT isT (l.take i) = isT x := by
  unfold lastT
  have hlen : i - 1 < l.length := by
    by_cases h : i - 1 < l.length
    · exact h
    · rw [List.getElem?_eq_none (Nat.le_of_not_lt h)] at hx; cases hx
  have : (l.take i).getLast? = some x := by
    rw [List.getLast?_eq_getElem?, List.length_take]
    have : min i l.length - 1 = i - 1 := by omega
    rw [this, List.getElem?_take]
    simp [hx]; omega
  rw [this]

theorem noAdj_take_drop {isT : Id → Bool} {l : List Id} (h : noAdj isT l = true) (i : Nat) :
    noAdj isT (l.take i) = true ∧ noAdj isT (l.drop i) = true := by
  have := noAdj_append isT (l.take i) (l.drop i)
  rw [List.take_append_drop, h] at this
  simp only [Bool.true_eq, Bool.and_eq_true] at this
  exact ⟨this.1.1, this.1.2⟩

end H5V.Lemmas.Dom
