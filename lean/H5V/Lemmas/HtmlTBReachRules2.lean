import H5V.Lemmas.HtmlTBReachBody
/-!
C18, tree-builder side, part 8: the remaining insertion modes, `step`, and foreign content.
-/
namespace H5V.Props.C18
open H5V.Model.Dom (Id QualName Attr NodeOrText SinkOp Output ElementFlags QuirksMode Dom)
open H5V.Model.HtmlTB
open H5V.Lemmas.TBM

theorem pv_stepBeforeHead {c : List Id} (t : Token) : PV c (stepBeforeHead t) prH := by unfold stepBeforeHead; pv_walk
macro_rules | `(tactic| pv_leaf) => `(tactic| with_reducible exact pv_stepBeforeHead _)

theorem pv_stepInHeadNoscript {c : List Id} (t : Token) : PV c (stepInHeadNoscript t) prH := by
  unfold stepInHeadNoscript; pv_walk
macro_rules | `(tactic| pv_leaf) => `(tactic| with_reducible exact pv_stepInHeadNoscript _)

theorem pv_stepAfterHead {c : List Id} (t : Token) : PV c (stepAfterHead t) prH := by unfold stepAfterHead; pv_walk
macro_rules | `(tactic| pv_leaf) => `(tactic| with_reducible exact pv_stepAfterHead _)

theorem pv_stepText {c : List Id} (t : Token) : PV c (stepText t) prH := by unfold stepText; pv_walk
macro_rules | `(tactic| pv_leaf) => `(tactic| with_reducible exact pv_stepText _)

theorem pv_fosterParentInBody {c : List Id} (t : Token) : PV c (fosterParentInBody t) prH := by
  unfold fosterParentInBody; pv_walk
macro_rules | `(tactic| pv_leaf) => `(tactic| with_reducible exact pv_fosterParentInBody _)

theorem pv_processCharsInTable {c : List Id} (t : Token) : PV c (processCharsInTable t) prH := by
  unfold processCharsInTable; pv_walk
macro_rules | `(tactic| pv_leaf) => `(tactic| with_reducible exact pv_processCharsInTable _)

set_option maxHeartbeats 800000 in
theorem pv_stepInTable {c : List Id} (t : Token) : PV c (stepInTable t) prH := by unfold stepInTable; pv_walk
macro_rules | `(tactic| pv_leaf) => `(tactic| with_reducible exact pv_stepInTable _)

theorem pv_flushPendingFoster : ∀ (c : List Id) (l : List (SplitStatus × Str)), PV c (flushPendingFoster l) nil
  | c, [] => by unfold flushPendingFoster; pv_walk
  | c, p :: rest => by
    have ih := fun c' => pv_flushPendingFoster c' rest
    unfold flushPendingFoster; pv_walk
macro_rules | `(tactic| pv_leaf) => `(tactic| with_reducible exact pv_flushPendingFoster _ _)

theorem pv_flushPendingPlain : ∀ (c : List Id) (l : List (SplitStatus × Str)), PV c (flushPendingPlain l) nil
  | c, [] => by unfold flushPendingPlain; pv_walk
  | c, p :: rest => by
    have ih := fun c' => pv_flushPendingPlain c' rest
    unfold flushPendingPlain; pv_walk
macro_rules | `(tactic| pv_leaf) => `(tactic| with_reducible exact pv_flushPendingPlain _ _)

theorem pv_flushPendingTableText {c : List Id} : PV c flushPendingTableText nil := by
  unfold flushPendingTableText; pv_walk
macro_rules | `(tactic| pv_leaf) => `(tactic| with_reducible exact pv_flushPendingTableText)

theorem pv_stepInTableText {c : List Id} (t : Token) : PV c (stepInTableText t) prH := by
  unfold stepInTableText; pv_walk
macro_rules | `(tactic| pv_leaf) => `(tactic| with_reducible exact pv_stepInTableText _)

theorem pv_stepInCaption {c : List Id} (t : Token) : PV c (stepInCaption t) prH := by unfold stepInCaption; pv_walk
macro_rules | `(tactic| pv_leaf) => `(tactic| with_reducible exact pv_stepInCaption _)

theorem pv_stepInColumnGroup {c : List Id} (t : Token) : PV c (stepInColumnGroup t) prH := by
  unfold stepInColumnGroup; pv_walk
macro_rules | `(tactic| pv_leaf) => `(tactic| with_reducible exact pv_stepInColumnGroup _)

theorem pv_stepInTableBody {c : List Id} (t : Token) : PV c (stepInTableBody t) prH := by
  unfold stepInTableBody; pv_walk
macro_rules | `(tactic| pv_leaf) => `(tactic| with_reducible exact pv_stepInTableBody _)

theorem pv_popTr {c : List Id} (site : String) : PV c (popTr site) nil := by unfold popTr; pv_walk
macro_rules | `(tactic| pv_leaf) => `(tactic| with_reducible exact pv_popTr _)

theorem pv_stepInRow {c : List Id} (t : Token) : PV c (stepInRow t) prH := by unfold stepInRow; pv_walk
macro_rules | `(tactic| pv_leaf) => `(tactic| with_reducible exact pv_stepInRow _)

theorem pv_stepInCell {c : List Id} (t : Token) : PV c (stepInCell t) prH := by unfold stepInCell; pv_walk
macro_rules | `(tactic| pv_leaf) => `(tactic| with_reducible exact pv_stepInCell _)

theorem pv_setTemplateMode {c : List Id} (m : Mode) : PV c (setTemplateMode m) nil := by
  unfold setTemplateMode; pv_mod
macro_rules | `(tactic| pv_leaf) => `(tactic| with_reducible exact pv_setTemplateMode _)

theorem pv_stepInTemplate {c : List Id} (t : Token) : PV c (stepInTemplate t) prH := by unfold stepInTemplate; pv_walk
macro_rules | `(tactic| pv_leaf) => `(tactic| with_reducible exact pv_stepInTemplate _)

theorem pv_stepAfterBody {c : List Id} (t : Token) : PV c (stepAfterBody t) prH := by unfold stepAfterBody; pv_walk
macro_rules | `(tactic| pv_leaf) => `(tactic| with_reducible exact pv_stepAfterBody _)

theorem pv_stepInFrameset {c : List Id} (t : Token) : PV c (stepInFrameset t) prH := by unfold stepInFrameset; pv_walk
macro_rules | `(tactic| pv_leaf) => `(tactic| with_reducible exact pv_stepInFrameset _)

theorem pv_stepAfterFrameset {c : List Id} (t : Token) : PV c (stepAfterFrameset t) prH := by
  unfold stepAfterFrameset; pv_walk
macro_rules | `(tactic| pv_leaf) => `(tactic| with_reducible exact pv_stepAfterFrameset _)

theorem pv_stepAfterAfterBody {c : List Id} (t : Token) : PV c (stepAfterAfterBody t) prH := by
  unfold stepAfterAfterBody; pv_walk
macro_rules | `(tactic| pv_leaf) => `(tactic| with_reducible exact pv_stepAfterAfterBody _)

theorem pv_stepAfterAfterFrameset {c : List Id} (t : Token) : PV c (stepAfterAfterFrameset t) prH := by
  unfold stepAfterAfterFrameset; pv_walk
macro_rules | `(tactic| pv_leaf) => `(tactic| with_reducible exact pv_stepAfterAfterFrameset _)

/-- **every insertion mode** -/
theorem pv_step {c : List Id} (m : Mode) (t : Token) : PV c (step m t) prH := by
  cases m <;> (unfold step; pv_leaf)
macro_rules | `(tactic| pv_leaf) => `(tactic| with_reducible exact pv_step _ _)

theorem pv_unexpectedStartTagInForeignContent {c : List Id} (t : Tag) :
    PV c (unexpectedStartTagInForeignContent t) prH := by
  unfold unexpectedStartTagInForeignContent; pv_walk
macro_rules | `(tactic| pv_leaf) => `(tactic| with_reducible exact pv_unexpectedStartTagInForeignContent _)

theorem pv_foreignEndTagLoop (t : Tag) : ∀ (c : List Id) (i : Nat) (b : Bool), PV c (foreignEndTagLoop t i b) prH
  | c, 0, _ => by unfold foreignEndTagLoop; pv_walk
  | c, i + 1, b => by
    have ih := fun c' => pv_foreignEndTagLoop t c' i
    unfold foreignEndTagLoop; pv_walk
macro_rules | `(tactic| pv_leaf) => `(tactic| with_reducible exact pv_foreignEndTagLoop _ _ _ _)

theorem pv_stepForeign {c : List Id} (t : Token) : PV c (stepForeign t) prH := by unfold stepForeign; pv_walk
macro_rules | `(tactic| pv_leaf) => `(tactic| with_reducible exact pv_stepForeign _)

end H5V.Props.C18
