import H5V.Lemmas.TendrilPool
/-!
The buffer-level validity invariant needed for formats with a concatenation fix-up (WTF-8).

`push_tendril` merges two adjacent views of one shared buffer without copying and *without* asking
the format for a fix-up.  That is only correct because the two views are parts of a string that was
valid as a whole: the data of every buffer (`Buf.data`, the initialised prefix of the payload) is
valid for the format at all times.  `DV F h` is that invariant; this file shows that every
operation of the model keeps it (`PDV`: if the operation returns, the heap of the result satisfies
`DV`), given that the bytes written are valid (`owned_copy` of valid bytes, `push` of valid bytes
onto valid contents for a format whose fix-up keeps validity).

`pushTendril_spec_fx` refines `pushTendril_spec`: on the zero-copy path the result `a ++ b` lies
inside the data of one buffer.
-/
namespace H5V.Lemmas.Tendril
open H5V.Model.Tendril

/-- the data of every buffer (live or released) is valid for the format -/
def DV (F : Format) (h : Heap) : Prop :=
  ∀ (id : Nat) (b : Buf), h.bufs[id]? = some b → F.validate b.data = true

theorem DV.empty (F : Format) : DV F Heap.empty := by
  intro id b hb; simp [Heap.empty] at hb

theorem DV.set {F : Format} {h : Heap} {id : Nat} {b' : Buf} {tr : List Event} (d : DV F h)
    (hv : F.validate b'.data = true) : DV F ⟨h.bufs.set id b', tr⟩ := by
  intro j c hc
  simp only [List.getElem?_set] at hc
  split at hc
  · split at hc
    · cases hc; exact hv
    · cases hc
  · exact d j c hc

theorem DV.append {F : Format} {h : Heap} {nb : Buf} {tr : List Event} (d : DV F h)
    (hv : F.validate nb.data = true) : DV F ⟨h.bufs ++ [nb], tr⟩ := by
  intro j c hc
  rcases lookup_append hc with ⟨_, rfl⟩ | ⟨_, h2⟩
  · exact hv
  · exact d j c h2

theorem DV.trace {F : Format} {bufs : List Buf} {tr tr' : List Event} (d : DV F ⟨bufs, tr⟩) :
    DV F ⟨bufs, tr'⟩ := d

/-- if the computation returns, the heap of its result satisfies `DV` -/
def PDV (F : Format) {α : Type} (hp : α → Heap) (x : M α) : Prop := ∀ a, x = .ok a → DV F (hp a)

theorem PDV.ok {F : Format} {α} {hp : α → Heap} {a : α} (h : DV F (hp a)) : PDV F hp (.ok a : M α) := by
  intro a' e; cases e; exact h

theorem PDV.pure {F : Format} {α} {hp : α → Heap} {a : α} (h : DV F (hp a)) : PDV F hp (pure a : M α) :=
  PDV.ok h

theorem PDV.err {F : Format} {α} {hp : α → Heap} {e : Fault} : PDV F hp (.error e : M α) := by
  intro a' e; cases e

theorem PDV.bind {F : Format} {α β} {hq : β → Heap} {x : M α} {f : α → M β}
    (hf : ∀ a, x = .ok a → PDV F hq (f a)) : PDV F hq (x >>= f) := by
  cases x with
  | ok a => exact hf a rfl
  | error e => exact PDV.err

theorem PDV.ite {F : Format} {α} {hp : α → Heap} {c : Prop} [Decidable c] {x y : M α}
    (hx : c → PDV F hp x) (hy : ¬ c → PDV F hp y) : PDV F hp (if c then x else y) := by
  split
  · exact hx (by assumption)
  · exact hy (by assumption)

theorem PDV.ite_err {F : Format} {α} {hp : α → Heap} {c : Prop} [Decidable c] {e : Fault} {y : M α}
    (hy : PDV F hp y) : PDV F hp (if c then .error e else y) :=
  PDV.ite (fun _ => PDV.err) (fun _ => hy)

/-! ## the heap primitives -/

theorem get_inv {h : Heap} {id : Nat} {s : String} {b : Buf} (e : h.get id s = .ok b) :
    h.bufs[id]? = some b := by
  unfold Heap.get at e
  split at e
  · cases e
  · split at e
    · cases e; assumption
    · cases e

theorem free_dv {F : Format} {h h' : Heap} {id cap : Nat} {s : String} (e : h.free id cap s = .ok h')
    (d : DV F h) : DV F h' := by
  unfold Heap.free at e
  cases hg : h.get id (s ++ " (free)") with
  | error x => rw [hg] at e; cases e
  | ok b =>
    rw [hg] at e
    simp only [bind, Except.bind] at e
    split at e
    · cases e; exact d.set (d id b (get_inv hg))
    · cases e

theorem incref_dv {F : Format} {h h' : Heap} {id : Nat} {s : String} (e : h.incref id s = .ok h')
    (d : DV F h) : DV F h' := by
  unfold Heap.incref at e
  cases hg : h.get id s with
  | error x => rw [hg] at e; cases e
  | ok b =>
    rw [hg] at e
    simp only [bind, Except.bind] at e
    cases e; exact d.set (d id b (get_inv hg))

theorem decref_dv {F : Format} {h h' : Heap} {id n : Nat} {s : String} (e : h.decref id s = .ok (h', n))
    (d : DV F h) : DV F h' := by
  unfold Heap.decref at e
  cases hg : h.get id s with
  | error x => rw [hg] at e; cases e
  | ok b =>
    rw [hg] at e
    simp only [bind, Except.bind] at e
    split at e
    · cases e
    · cases e; exact d.set (d id b (get_inv hg))

theorem setHdrCap_dv {F : Format} {h h' : Heap} {id cap : Nat} {s : String}
    (e : h.setHdrCap id cap s = .ok h') (d : DV F h) : DV F h' := by
  unfold Heap.setHdrCap at e
  cases hg : h.get id s with
  | error x => rw [hg] at e; cases e
  | ok b =>
    rw [hg] at e
    simp only [bind, Except.bind] at e
    cases e; exact d.set (d id b (get_inv hg))

theorem realloc_dv {F : Format} {h h' : Heap} {id oc nc nid : Nat} {s : String}
    (e : h.realloc id oc nc s = .ok (h', nid)) (d : DV F h) : DV F h' := by
  unfold Heap.realloc at e
  cases hg : h.get id s with
  | error x => rw [hg] at e; cases e
  | ok b =>
    rw [hg] at e
    simp only [bind, Except.bind] at e
    split at e
    · cases e
      have hb := d id b (get_inv hg)
      exact DV.append (h := ⟨h.bufs.set id { b with live := false }, h.trace⟩) (d.set hb) hb
    · cases e

theorem write_dv {F : Format} {h h' : Heap} {id pos : Nat} {bytes : List UInt8} {s : String}
    (e : h.write id pos bytes s = .ok h') (d : DV F h)
    (hv : ∀ b, h.bufs[id]? = some b → F.validate (b.data.take pos ++ bytes) = true) : DV F h' := by
  unfold Heap.write at e
  cases hg : h.get id s with
  | error x => rw [hg] at e; cases e
  | ok b =>
    rw [hg] at e
    simp only [bind, Except.bind] at e
    split at e
    · cases e; exact d.set (hv b (get_inv hg))
    · cases e

theorem poke_dv {F : Format} {h h' : Heap} {id pos : Nat} {v : UInt8} {s : String}
    (e : h.poke id pos v s = .ok h') (d : DV F h) (hall : ∀ l, F.validate l = true) : DV F h' := by
  unfold Heap.poke at e
  cases hg : h.get id s with
  | error x => rw [hg] at e; cases e
  | ok b =>
    rw [hg] at e
    simp only [bind, Except.bind] at e
    split at e
    · cases e; exact d.set (hall _)
    · cases e

/-! ## `buf32.rs` -/

theorem buf32WithCapacity_inv {h h' : Heap} {cap id c : Nat} (e : buf32WithCapacity h cap = .ok (h', id, c)) :
    h'.bufs = h.bufs ++ [⟨[], c, 0, 1, true⟩] ∧ id = h.bufs.length := by
  unfold buf32WithCapacity at e
  simp only [Heap.alloc] at e
  generalize roundCap (if cap < 16 then 16 else cap) = c' at e
  split at e
  · cases e
  · cases e; exact ⟨rfl, rfl⟩

theorem buf32Grow_dv {F : Format} {h : Heap} {id cap nc : Nat} (d : DV F h) :
    PDV F (·.1) (buf32Grow h id cap nc) := by
  unfold buf32Grow
  apply PDV.ite
  · intro _; exact PDV.ok d
  · intro _
    simp only []
    apply PDV.ite_err
    apply PDV.ite_err
    apply PDV.bind
    rintro ⟨h1, nid⟩ e1
    exact PDV.ok (realloc_dv e1 d)

/-! ## the private building blocks of `tendril.rs` -/

theorem dropT_dv {F : Format} {h : Heap} (t : T) (d : DV F h) : PDV F id (dropT h t) := by
  cases t with
  | inline bs => exact PDV.ok d
  | owned i len cap =>
    simp only [dropT, assumeBuf, bind, Except.bind, Bool.false_eq_true, if_false]
    intro h' e; exact free_dv e d
  | shared i off len =>
    simp only [dropT, assumeBuf]
    apply PDV.bind
    rintro ⟨i', bl, c', sh, o'⟩ e2
    simp only []
    apply PDV.ite
    · intro _
      apply PDV.bind
      rintro ⟨h1, old⟩ e3
      simp only []
      apply PDV.ite
      · intro _ h' e; exact free_dv e (decref_dv e3 d)
      · intro _; exact PDV.ok (decref_dv e3 d)
    · intro _ h' e; exact free_dv e d

theorem ownedCopy_dv {F : Format} {h : Heap} {x : List UInt8} (d : DV F h) (hx : F.validate x = true)
    (hnil : F.validate [] = true) : PDV F (·.1) (ownedCopy h x) := by
  unfold ownedCopy
  apply PDV.bind
  rintro ⟨h1, id, cap⟩ e1
  obtain ⟨hb, hid⟩ := buf32WithCapacity_inv e1
  simp only []
  apply PDV.bind
  intro h2 e2
  apply PDV.ok
  have d1 : DV F h1 := by
    have := DV.append (nb := ⟨[], cap, 0, 1, true⟩) (tr := h1.trace) d hnil
    rw [← hb] at this; exact this
  apply write_dv e2 d1
  intro b hb'
  rw [hb, hid] at hb'
  simp at hb'
  rw [← hb']; exact hx

theorem makeBufShared_dv {F : Format} {h : Heap} (t : T) (s : String) (d : DV F h) :
    PDV F (·.1) (makeBufShared h t s) := by
  cases t with
  | inline bs => exact PDV.err
  | owned i len cap =>
    simp only [makeBufShared]
    apply PDV.bind
    intro h1 e1
    exact PDV.ok (setHdrCap_dv e1 d)
  | shared i off len => exact PDV.ok d

theorem increfT_dv {F : Format} {h : Heap} (t : T) (s : String) (d : DV F h) :
    PDV F id (increfT h t s) := by
  unfold increfT
  split
  · exact PDV.err
  · intro h' e; exact incref_dv e d

theorem cloneT_dv {F : Format} {h : Heap} (t : T) (d : DV F h) : PDV F (·.1) (cloneT h t) := by
  have key : PDV F (·.1) (makeBufShared h t "clone" >>= fun r =>
      increfT r.1 r.2 "clone" >>= fun h' => (.ok (h', r.2, r.2) : M (Heap × T × T))) := by
    apply PDV.bind
    rintro ⟨h1, t1⟩ e1
    apply PDV.bind
    intro h2 e2
    exact PDV.ok (increfT_dv t1 _ (makeBufShared_dv t _ d _ e1) _ e2)
  cases t with
  | inline bs => exact PDV.ok d
  | owned i len cap => exact key
  | shared i off len => exact key

theorem makeOwned_dv {F : Format} {h : Heap} {t : T} {rest : List T} (w : WF h (t :: rest)) (d : DV F h)
    (hv : F.validate (abs h t) = true) (hnil : F.validate [] = true) : PDV F (·.1) (makeOwned h t) := by
  have key : PDV F (·.1) (asByteSlice h t >>= fun bs => ownedCopy h bs >>= fun r =>
      dropT r.1 t >>= fun h' => (.ok (h', r.2) : M (Heap × T))) := by
    rw [asByteSlice_head w]
    apply PDV.bind
    intro bs e0
    cases e0
    apply PDV.bind
    rintro ⟨h1, t1⟩ e1
    apply PDV.bind
    intro h2 e2
    exact PDV.ok (dropT_dv t (ownedCopy_dv d hv hnil _ e1) _ e2)
  cases t with
  | owned i len cap => exact PDV.ok d
  | inline bs => exact key
  | shared i off len => exact key

theorem makeOwnedWithCapacity_dv {F : Format} {h : Heap} {t : T} {rest : List T} (cap : Nat)
    (w : WF h (t :: rest)) (d : DV F h) (hv : F.validate (abs h t) = true) (hnil : F.validate [] = true) :
    PDV F (·.1) (makeOwnedWithCapacity h t cap) := by
  unfold makeOwnedWithCapacity
  apply PDV.bind
  rintro ⟨h1, t1⟩ e1
  have d1 := makeOwned_dv w d hv hnil _ e1
  simp only []
  split
  · apply PDV.bind
    rintro ⟨h2, id2, c2⟩ e2
    exact PDV.ok (buf32Grow_dv d1 _ e2)
  · exact PDV.err

/-! ## the public operations -/

theorem fromBytesUnchecked_dv {F : Format} {h : Heap} {x : List UInt8} (d : DV F h)
    (hx : F.validate x = true) (hnil : F.validate [] = true) : PDV F (·.1) (fromBytesUnchecked h x) := by
  unfold fromBytesUnchecked
  apply PDV.ite_err
  apply PDV.ite
  · intro _
    apply PDV.bind
    intro t _
    exact PDV.ok d
  · intro _; exact ownedCopy_dv d hx hnil

theorem clearT_dv {F : Format} {h : Heap} (t : T) (d : DV F h) : PDV F (·.1) (clearT h t) := by
  cases t with
  | inline bs => exact PDV.ok d
  | owned i len cap => exact PDV.ok d
  | shared i off len =>
    simp only [clearT]
    apply PDV.bind
    intro h1 e1
    exact PDV.ok (dropT_dv _ d _ e1)

theorem pushBytesUnchecked_dv {F : Format} (hF : FixupOK F) {h : Heap} {t : T} {rest : List T}
    (buf : List UInt8) (w : WF h (t :: rest)) (d : DV F h) (hv : F.validate (abs h t) = true)
    (hnil : F.validate [] = true) (hpv : F.validate (pushSpec F (abs h t) buf) = true) :
    PDV F (·.1) (pushBytesUnchecked F h t buf) := by
  have hlen := abs_length (w.twf t (List.mem_cons_self ..))
  obtain ⟨hdl, hdr⟩ := hF (abs h t) buf
  unfold pushBytesUnchecked
  simp only [bind, Except.bind]
  apply PDV.ite_err
  rw [asByteSlice_head w]
  simp only []
  apply PDV.ite_err
  apply PDV.ite_err
  apply PDV.ite_err
  apply PDV.ite_err
  apply PDV.ite_err
  generalize hfx : F.fixup (abs h t) buf = fx at hdl hdr ⊢
  have hps : pushSpec F (abs h t) buf
      = (abs h t).take ((abs h t).length - fx.dropLeft) ++ fx.insert ++ buf.drop fx.dropRight := by
    simp [pushSpec, hfx]
  split
  · apply PDV.ite_err
    cases hm : mkInline (List.take (t.len32 + fx.insert.length - fx.dropLeft + buf.length - fx.dropRight)
        (List.take ((abs h t).length - fx.dropLeft) (abs h t) ++ fx.insert ++ List.drop fx.dropRight buf))
        "push_bytes" with
    | error e => exact PDV.err
    | ok t' =>
      simp only []
      cases hdp : dropT h t with
      | error e => exact PDV.err
      | ok h1 => exact PDV.ok (dropT_dv t d _ hdp)
  · cases hm : makeOwnedWithCapacity h t
        (t.len32 + fx.insert.length - fx.dropLeft + buf.length - fx.dropRight) with
    | error e => exact PDV.err
    | ok r =>
      obtain ⟨h1, t1⟩ := r
      have d1 := makeOwnedWithCapacity_dv _ w d hv hnil _ hm
      obtain ⟨w1, hab, hat, id, c, ht1, hge⟩ := (makeOwnedWithCapacity_spec _ w).of_ok hm
      simp only at w1 hab hat ht1 hge d1
      subst ht1
      simp only []
      apply PDV.ite_err
      cases hwr : h1.write id (t.len32 - fx.dropLeft) (fx.insert ++ List.drop fx.dropRight buf) "push_bytes" with
      | error e => exact PDV.err
      | ok h2 =>
        apply PDV.ok
        apply write_dv hwr d1
        intro b hb
        have : abs h1 (.owned id t.len32 c) = b.data.take t.len32 := by simp [abs, hb]
        rw [hat] at this
        have e : List.take (t.len32 - fx.dropLeft) b.data ++ (fx.insert ++ List.drop fx.dropRight buf)
            = pushSpec F (abs h t) buf := by
          rw [hps, hlen, this, List.take_take, List.append_assoc, Nat.min_eq_left (by omega)]
        rw [e]; exact hpv

theorem unsafeSubtendril_dv {F : Format} {h : Heap} (t : T) (off len : Nat) (d : DV F h) :
    PDV F (·.1) (unsafeSubtendril h t off len) := by
  unfold unsafeSubtendril
  apply PDV.ite
  · intro _
    apply PDV.bind
    intro bs _
    apply PDV.ite
    · intro _
      apply PDV.bind
      intro s _
      exact PDV.ok d
    · intro _; exact PDV.err
  · intro _
    apply PDV.bind
    rintro ⟨h1, t1⟩ e1
    apply PDV.bind
    intro h2 e2
    have d2 := increfT_dv t1 _ (makeBufShared_dv t _ d _ e1) _ e2
    split
    · apply PDV.ite
      · intro _; exact PDV.ok d2
      · intro _; exact PDV.err
    · exact PDV.err

theorem unsafePopFront_dv {F : Format} {h : Heap} (t : T) (n : Nat) (d : DV F h) :
    PDV F (·.1) (unsafePopFront h t n) := by
  unfold unsafePopFront
  apply PDV.ite_err
  simp only []
  apply PDV.ite
  · intro _
    apply PDV.bind
    intro bs _
    apply PDV.bind
    intro t' _
    apply PDV.bind
    intro h1 e1
    exact PDV.ok (dropT_dv t d _ e1)
  · intro _
    apply PDV.bind
    rintro ⟨h1, t1⟩ e1
    have d1 := makeBufShared_dv t _ d _ e1
    simp only []
    split
    · exact PDV.ok d1
    · exact PDV.err

theorem unsafePopBack_dv {F : Format} {h : Heap} (t : T) (n : Nat) (d : DV F h) :
    PDV F (·.1) (unsafePopBack h t n) := by
  unfold unsafePopBack
  apply PDV.ite_err
  simp only []
  apply PDV.ite
  · intro _
    apply PDV.bind
    intro bs _
    apply PDV.bind
    intro t' _
    apply PDV.bind
    intro h1 e1
    exact PDV.ok (dropT_dv t d _ e1)
  · intro _
    apply PDV.bind
    rintro ⟨h1, t1⟩ e1
    have d1 := makeBufShared_dv t _ d _ e1
    simp only []
    split
    · exact PDV.ok d1
    · exact PDV.err

theorem tryPopFront_dv {F : Format} {h : Heap} (t : T) (n : Nat) (d : DV F h) :
    PDV F (·.1) (tryPopFront F h t n) := by
  unfold tryPopFront
  apply PDV.ite
  · intro _; exact PDV.ok d
  · intro _
    apply PDV.ite
    · intro _; exact PDV.ok d
    · intro _
      apply PDV.bind
      intro bs _
      apply PDV.ite
      · intro _; exact PDV.ok d
      · intro _
        apply PDV.bind
        rintro ⟨h1, t1⟩ e1
        exact PDV.ok (unsafePopFront_dv t n d _ e1)

theorem tryPopBack_dv {F : Format} {h : Heap} (t : T) (n : Nat) (d : DV F h) :
    PDV F (·.1) (tryPopBack F h t n) := by
  unfold tryPopBack
  apply PDV.ite
  · intro _; exact PDV.ok d
  · intro _
    apply PDV.ite
    · intro _; exact PDV.ok d
    · intro _
      apply PDV.bind
      intro bs _
      apply PDV.ite
      · intro _; exact PDV.ok d
      · intro _
        apply PDV.bind
        rintro ⟨h1, t1⟩ e1
        exact PDV.ok (unsafePopBack_dv t n d _ e1)

theorem trySubtendril_dv {F : Format} {h : Heap} (t : T) (off len : Nat) (d : DV F h) :
    PDV F (·.1) (trySubtendril F h t off len) := by
  unfold trySubtendril
  apply PDV.ite
  · intro _; exact PDV.ok d
  · intro _
    apply PDV.bind
    intro bs _
    apply PDV.ite
    · intro _; exact PDV.ok d
    · intro _
      apply PDV.bind
      rintro ⟨h1, t1, s⟩ e1
      exact PDV.ok (unsafeSubtendril_dv t off len d _ e1)

/-- `push_tendril`: as `pushTendril_spec`, and on the zero-copy path the result lies inside the data
of one buffer -/
theorem pushTendril_spec_fx {F : Format} (hF : FixupOK F) {h : Heap} {t o : T} {rest : List T}
    (w : WF h (t :: rest)) (ho : o ∈ rest) :
    Sat (pushTendril F h t o) (fun r => WF r.1 (r.2 :: rest) ∧
      (∀ u ∈ rest, abs r.1 u = abs h u) ∧
      (abs r.1 r.2 = pushSpec F (abs h t) (abs h o) ∨
        (abs r.1 r.2 = abs h t ++ abs h o ∧ r.1 = h ∧
          ∃ (id : Nat) (b : Buf) (x y : List UInt8), h.bufs[id]? = some b ∧
            b.data = x ++ (abs h t ++ abs h o) ++ y))) := by
  have wo : TWF h o := w.twf o (List.mem_cons_of_mem _ ho)
  have slow : Sat (asByteSlice h o >>= fun bs => pushBytesUnchecked F h t bs) (fun r =>
      WF r.1 (r.2 :: rest) ∧ (∀ u ∈ rest, abs r.1 u = abs h u) ∧
      (abs r.1 r.2 = pushSpec F (abs h t) (abs h o) ∨
        (abs r.1 r.2 = abs h t ++ abs h o ∧ r.1 = h ∧
          ∃ (id : Nat) (b : Buf) (x y : List UInt8), h.bufs[id]? = some b ∧
            b.data = x ++ (abs h t ++ abs h o) ++ y))) := by
    rw [asByteSlice_eq wo w.bufs]
    exact (pushBytesUnchecked_spec hF _ w).mono (fun r ⟨a, b, c⟩ => ⟨a, b, Or.inl c⟩)
  unfold pushTendril
  apply Sat.ite_panic; intro _
  split
  · rename_i id off len id2 off2 len2 hnp
    split
    · rename_i hfast
      obtain ⟨rfl, rfl⟩ := hfast
      obtain ⟨b, hb, hl, hc, hlen, hok, hrc, hno⟩ := w.shared_head
      obtain ⟨b2, hb2, _, _, hlen2⟩ := wo
      rw [hb] at hb2; cases hb2
      have hcat : abs h (.shared id off (len + len2))
          = abs h (.shared id off len) ++ abs h (.shared id (off + len) len2) := by
        simp only [abs, hb]
        rw [List.take_add, List.drop_drop]
      refine Sat.ok ⟨w.replace_head rfl ⟨b, hb, hl, hc, by simp only [T.len32]; omega⟩
        (by rintro _ _ _ ⟨⟩), fun _ _ => rfl, Or.inr ⟨hcat, rfl, id, b, b.data.take off,
          b.data.drop (off + (len + len2)), hb, ?_⟩⟩
      rw [← hcat]
      simp only [abs, hb]
      rw [List.append_assoc, ← List.drop_drop, List.take_append_drop, List.take_append_drop]
    · exact slow
  · exact slow

theorem pushTendril_dv {F : Format} (hF : FixupOK F) {h : Heap} {t o : T} {rest : List T}
    (w : WF h (t :: rest)) (ho : o ∈ rest) (d : DV F h) (hv : F.validate (abs h t) = true)
    (hnil : F.validate [] = true) (hpv : F.validate (pushSpec F (abs h t) (abs h o)) = true) :
    PDV F (·.1) (pushTendril F h t o) := by
  have wo : TWF h o := w.twf o (List.mem_cons_of_mem _ ho)
  have slow : PDV F (·.1) (asByteSlice h o >>= fun bs => pushBytesUnchecked F h t bs) := by
    rw [asByteSlice_eq wo w.bufs]
    exact pushBytesUnchecked_dv hF _ w d hv hnil hpv
  unfold pushTendril
  apply PDV.ite_err
  split
  · split
    · exact PDV.ok d
    · exact slow
  · exact slow

theorem popFrontChar_dv {F : Format} {h : Heap} (t : T) (d : DV F h) :
    PDV F (·.1) (popFrontChar F h t) := by
  unfold popFrontChar
  apply PDV.bind
  intro bs _
  split
  · exact PDV.err
  · apply PDV.bind
    rintro ⟨h1, t1⟩ e1
    exact PDV.ok (clearT_dv t d _ e1)
  · apply PDV.bind
    rintro ⟨h1, t1⟩ e1
    exact PDV.ok (clearT_dv t d _ e1)
  · apply PDV.ite
    · intro _
      apply PDV.bind
      rintro ⟨h1, t1⟩ e1
      exact PDV.ok (clearT_dv t d _ e1)
    · intro _
      apply PDV.bind
      rintro ⟨h1, t1⟩ e1
      exact PDV.ok (unsafePopFront_dv t _ d _ e1)

theorem popFrontCharRun_dv {F : Format} (cl : Nat → Nat) {h : Heap} (t : T) (d : DV F h) :
    PDV F (·.1) (popFrontCharRun F cl h t) := by
  unfold popFrontCharRun
  apply PDV.bind
  intro bs _
  split
  · exact PDV.err
  · exact PDV.ok d
  · simp only []
    split
    · apply PDV.bind
      rintro ⟨h1, t1, s⟩ e1
      have d1 := unsafeSubtendril_dv t _ _ d _ e1
      apply PDV.bind
      rintro ⟨h2, t2⟩ e2
      exact PDV.ok (unsafePopFront_dv t1 _ d1 _ e2)
    · apply PDV.bind
      rintro ⟨h1, t1, s⟩ e1
      have d1 := cloneT_dv t d _ e1
      apply PDV.bind
      rintro ⟨h2, t2⟩ e2
      exact PDV.ok (clearT_dv t1 d1 _ e2)

theorem reserveT_dv {F : Format} {h : Heap} {t : T} {rest : List T} (n : Nat) (w : WF h (t :: rest))
    (d : DV F h) (hv : F.validate (abs h t) = true) (hnil : F.validate [] = true) :
    PDV F (·.1) (reserveT h t n) := by
  unfold reserveT
  apply PDV.ite
  · intro _; exact PDV.ok d
  · intro _
    apply PDV.ite_err
    apply PDV.ite
    · intro _; exact makeOwnedWithCapacity_dv _ w d hv hnil
    · intro _; exact PDV.ok d

theorem withCapacity_dv {F : Format} {h : Heap} {ts : List T} (n : Nat) (w : WF h ts) (d : DV F h)
    (hnil : F.validate [] = true) : PDV F (·.1) (withCapacity h n) := by
  unfold withCapacity
  have w0 : WF h (.inline [] :: ts) := w.cons_inline (by simp)
  apply PDV.ite
  · intro _; exact makeOwnedWithCapacity_dv _ w0 d hnil hnil
  · intro _; exact PDV.ok d

theorem derefMut_dv {F : Format} {h : Heap} {t : T} {rest : List T} (w : WF h (t :: rest)) (d : DV F h)
    (hv : F.validate (abs h t) = true) (hnil : F.validate [] = true) : PDV F (·.1) (derefMut h t) := by
  cases t with
  | inline bs => exact PDV.ok d
  | owned i len cap => exact makeOwned_dv w d hv hnil
  | shared i off len => exact makeOwned_dv w d hv hnil

theorem storeByte_dv {F : Format} {h : Heap} (t : T) (k : Nat) (v : UInt8) (d : DV F h)
    (hall : ∀ l, F.validate l = true) : PDV F (·.1) (storeByte h t k v) := by
  cases t with
  | inline bs =>
    simp only [storeByte]
    apply PDV.ite
    · intro _; exact PDV.ok d
    · intro _; exact PDV.err
  | owned i len cap =>
    simp only [storeByte]
    apply PDV.ite
    · intro _
      apply PDV.bind
      intro h1 e1
      exact PDV.ok (poke_dv e1 d hall)
    · intro _; exact PDV.err
  | shared i off len => exact PDV.err

theorem store_dv {F : Format} {st : St} (j : Nat) (s : T) (d : DV F st.heap) :
    PDV F (·.heap) (store st j s) := by
  unfold store
  split
  · exact PDV.err
  · exact PDV.ok d
  · apply PDV.bind
    intro h1 e1
    exact PDV.ok (dropT_dv _ d _ e1)

end H5V.Lemmas.Tendril
