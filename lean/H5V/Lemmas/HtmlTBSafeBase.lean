import H5V.Model.HtmlTB
import H5V.Lemmas.HtmlTBSafeDom
/-!
# Tree-builder safety, part 2: the program logic

* `Benign e` — the failures that are **not** excluded by the safety theorems: a failure of the DOM
  model inside one of the tree-*mutating* sink calls (`MutOp`; excluding those is the remaining part of
  C05), exhaustion of the fuel of `process_to_completion`, the `unreachable!` of the Text insertion
  mode (reached exactly when the token source breaks the tokenizer protocol and sends something else
  than characters / an end tag / EOF while the builder is in Text mode), and the two failures of
  the `<meta>` encoding extraction (a different model).  Everything else — every `panicAt` site of
  the model, the fuel of every helper loop, a failure of any *query* sink call — is not benign.
* `Sat m s Q` — run from `s`, `m` either fails benignly or ends in a result/state satisfying `Q`.
* `QF s s'` — `s'` is `s` with an extended DOM and a longer trace: what a sink call does to the state.
-/
namespace H5V.Lemmas.TBSafe
open H5V.Model.HtmlTB
open H5V.Model.Dom (Id QualName Attr NodeOrText SinkOp Output ElementFlags QuirksMode Dom NodeData Node)

/-- the sink calls whose success depends on the shape of the tree -/
def MutOp : SinkOp → Prop
  | .append _ _ => True
  | .appendBasedOnParentNode _ _ _ => True
  | .appendBeforeSibling _ _ => True
  | .appendDoctypeToDocument _ _ _ => True
  | .removeFromParent _ => True
  | .reparentChildren _ _ => True
  | .maybeCloneAnOptionIntoSelectedcontent _ => True
  | _ => False

def textProtoMsg : String := "unreachable@rules.rs:1037: impossible case in Text mode"
def ptcFuelMsg : String := "model-fuel@model: process_to_completion"

/-- Which of the two *context-dependent* failures are tolerated: `text` — the `unreachable!` of the
Text insertion mode (excluded when the token source keeps the tokenizer protocol); `fuel` — running
out of the fuel of `process_to_completion`.  All lemmas are generic in the instance. -/
class Allow where
  text : Prop
  fuel : Prop

variable {al : Allow}

inductive Benign [Allow] : String → Prop
  | sinkMut (d : Dom) (op : SinkOp) (x : String) : d.apply op = .error x → MutOp op →
      Benign (errClass x ++ "@sink: " ++ x)
  | ptcFuel : Allow.fuel → Benign ptcFuelMsg
  | textProto : Allow.text → Benign textProtoMsg
  | metaExtract (e : String) : Benign ("meta-extract@encoding.rs: " ++ e)
  | metaUtf8 : Benign "subtendril-utf8@encoding.rs: subtendril is not valid UTF-8"

/-- run from `s`, `m` fails benignly or ends in a result/state satisfying `Q` -/
def Sat [Allow] {α : Type} (m : M α) (s : State) (Q : α → State → Prop) : Prop :=
  match m s with
  | .ok (a, s') => Q a s'
  | .error e => Benign e

theorem sat_pure {α : Type} {a : α} {s : State} {Q : α → State → Prop} (h : Q a s) :
    Sat (pure a : M α) s Q := h

theorem Sat.bind {α β : Type} {m : M α} {f : α → M β} {s : State} {Q : α → State → Prop}
    {R : β → State → Prop} (h : Sat m s Q) (hf : ∀ a s', Q a s' → Sat (f a) s' R) :
    Sat (m >>= f) s R := by
  unfold Sat at h ⊢
  show match (StateT.bind m f) s with | .ok (a, s') => R a s' | .error e => Benign e
  unfold StateT.bind
  cases hm : m s with
  | error e => simp only [hm] at h ⊢; exact h
  | ok r =>
    obtain ⟨a, s'⟩ := r
    simp only [hm] at h ⊢
    exact hf a s' h

theorem Sat.mono {α : Type} {m : M α} {s : State} {Q Q' : α → State → Prop} (h : Sat m s Q)
    (hq : ∀ a s', Q a s' → Q' a s') : Sat m s Q' := by
  unfold Sat at h ⊢
  cases hm : m s with
  | error e => simp only [hm] at h ⊢; exact h
  | ok r => obtain ⟨a, s'⟩ := r; simp only [hm] at h ⊢; exact hq a s' h

theorem sat_getS {s : State} {Q : State → State → Prop} (h : Q s s) : Sat getS s Q := h
theorem sat_get {s : State} {Q : State → State → Prop} (h : Q s s) : Sat (get : M State) s Q := h
theorem sat_set {s s1 : State} {Q : Unit → State → Prop} (h : Q () s1) : Sat (set s1 : M Unit) s Q := h
theorem sat_modS {s : State} {f : State → State} {Q : Unit → State → Prop} (h : Q () (f s)) :
    Sat (modS f) s Q := h
theorem sat_throw {α : Type} {e : String} {s : State} {Q : α → State → Prop} (h : Benign e) :
    Sat (throw e : M α) s Q := h

/-- what is left of a `do` block that starts with `let s ← getS` -/
theorem sat_getS_bind {β : Type} {f : State → M β} {s : State} {R : β → State → Prop}
    (h : Sat (f s) s R) : Sat (getS >>= f) s R :=
  Sat.bind (sat_getS (Q := fun a s' => a = s ∧ s' = s) ⟨rfl, rfl⟩) (by rintro a s' ⟨rfl, rfl⟩; exact h)

theorem sat_modS_bind {β : Type} {g : State → State} {f : Unit → M β} {s : State} {R : β → State → Prop}
    (h : Sat (f ()) (g s) R) : Sat (modS g >>= f) s R :=
  Sat.bind (sat_modS (Q := fun _ s' => s' = g s) rfl) (by rintro a s' rfl; exact h)

theorem sat_set_bind {β : Type} {s1 : State} {f : Unit → M β} {s : State} {R : β → State → Prop}
    (h : Sat (f ()) s1 R) : Sat ((set s1 : M Unit) >>= f) s R :=
  Sat.bind (sat_set (Q := fun _ s' => s' = s1) rfl) (by rintro a s' rfl; exact h)

/-! ### the frame of a sink call -/

/-- `s'` is `s` with an extended DOM (and some other trace) -/
def QF (s s' : State) : Prop :=
  ∃ d t, s' = { s with dom := d, traceRev := t } ∧ Ext s.dom d

theorem QF.refl (s : State) : QF s s := ⟨s.dom, s.traceRev, rfl, Ext.refl _⟩

theorem QF.trans {a b c : State} (h1 : QF a b) (h2 : QF b c) : QF a c := by
  obtain ⟨d1, t1, rfl, e1⟩ := h1
  obtain ⟨d2, t2, rfl, e2⟩ := h2
  exact ⟨d2, t2, rfl, e1.trans e2⟩

theorem QF.ext {s s' : State} (h : QF s s') : Ext s.dom s'.dom := by
  obtain ⟨d, t, rfl, e⟩ := h; exact e

section fields
variable {s s' : State} (h : QF s s')
include h
theorem QF.openElems : s'.openElems = s.openElems := by obtain ⟨d, t, rfl, e⟩ := h; rfl
theorem QF.activeFormatting : s'.activeFormatting = s.activeFormatting := by obtain ⟨d, t, rfl, e⟩ := h; rfl
theorem QF.mode : s'.mode = s.mode := by obtain ⟨d, t, rfl, e⟩ := h; rfl
theorem QF.origMode : s'.origMode = s.origMode := by obtain ⟨d, t, rfl, e⟩ := h; rfl
theorem QF.templateModes : s'.templateModes = s.templateModes := by obtain ⟨d, t, rfl, e⟩ := h; rfl
theorem QF.pendingTableText : s'.pendingTableText = s.pendingTableText := by obtain ⟨d, t, rfl, e⟩ := h; rfl
theorem QF.headElem : s'.headElem = s.headElem := by obtain ⟨d, t, rfl, e⟩ := h; rfl
theorem QF.formElem : s'.formElem = s.formElem := by obtain ⟨d, t, rfl, e⟩ := h; rfl
theorem QF.contextElem : s'.contextElem = s.contextElem := by obtain ⟨d, t, rfl, e⟩ := h; rfl
theorem QF.docHandle : s'.docHandle = s.docHandle := by obtain ⟨d, t, rfl, e⟩ := h; rfl
theorem QF.opts : s'.opts = s.opts := by obtain ⟨d, t, rfl, e⟩ := h; rfl
theorem QF.fosterParenting : s'.fosterParenting = s.fosterParenting := by obtain ⟨d, t, rfl, e⟩ := h; rfl
theorem QF.framesetOk : s'.framesetOk = s.framesetOk := by obtain ⟨d, t, rfl, e⟩ := h; rfl
theorem QF.quirksMode : s'.quirksMode = s.quirksMode := by obtain ⟨d, t, rfl, e⟩ := h; rfl
theorem QF.ignoreLf : s'.ignoreLf = s.ignoreLf := by obtain ⟨d, t, rfl, e⟩ := h; rfl
theorem QF.currentLine : s'.currentLine = s.currentLine := by obtain ⟨d, t, rfl, e⟩ := h; rfl
end fields

/-! ### sink calls -/

/-- a sink call: either the call is tree-mutating (then it may fail benignly) or it succeeds -/
theorem sat_sink {op : SinkOp} {s : State} {Q : Output → State → Prop}
    (hok : MutOp op ∨ ∃ d' out, s.dom.apply op = .ok (d', out))
    (hQ : ∀ d' out, s.dom.apply op = .ok (d', out) →
      Q out { s with dom := d', traceRev := (op, out) :: s.traceRev }) : Sat (sink op) s Q := by
  unfold Sat H5V.Model.HtmlTB.sink
  cases ha : s.dom.apply op with
  | error x =>
    simp only
    rcases hok with hm | ⟨d', out, h⟩
    · exact Benign.sinkMut s.dom op x ha hm
    · rw [ha] at h; cases h
  | ok r => obtain ⟨d', out⟩ := r; simp only; exact hQ d' out ha

theorem qf_of_apply {s : State} {op : SinkOp} {d' : Dom} {out : Output} (h : s.dom.apply op = .ok (d', out)) :
    QF s { s with dom := d', traceRev := (op, out) :: s.traceRev } :=
  ⟨d', _, rfl, apply_ext h⟩

/-- a mutating call whose result is thrown away -/
theorem sat_sinkUnit_mut {op : SinkOp} {s : State} (hm : MutOp op) :
    Sat (sinkUnit op) s (fun _ s' => QF s s') := by
  unfold sinkUnit
  refine Sat.bind (sat_sink (Q := fun _ s' => QF s s') (Or.inl hm) (fun d' out h => qf_of_apply h)) ?_
  intro a s' h; exact sat_pure h

/-- a call that cannot fail (`Dom.apply` is total on it) and whose result is thrown away -/
theorem sat_sinkUnit_total {op : SinkOp} {s : State} (hok : ∃ d' out, s.dom.apply op = .ok (d', out)) :
    Sat (sinkUnit op) s (fun _ s' => QF s s') := by
  unfold sinkUnit
  refine Sat.bind (sat_sink (Q := fun _ s' => QF s s') (Or.inr hok) (fun d' out h => qf_of_apply h)) ?_
  intro a s' h; exact sat_pure h

theorem apply_parseError (d : Dom) (m : List Char) : d.apply (.parseError m) = .ok (d.parseError m, .unit) := rfl
theorem apply_pop (d : Dom) (h : Id) : d.apply (.pop h) = .ok (d, .unit) := rfl
theorem apply_setQuirks (d : Dom) (m : QuirksMode) : d.apply (.setQuirksMode m) = .ok (d.setQuirksMode m, .unit) := rfl
theorem apply_setLine (d : Dom) (n : Nat) : d.apply (.setCurrentLine n) = .ok (d, .unit) := rfl
theorem apply_mark (d : Dom) (h : Id) : d.apply (.markScriptAlreadyStarted h) = .ok (d, .unit) := rfl
theorem apply_assoc (d : Dom) (a b c : Id) (p : Option Id) : d.apply (.associateWithForm a b c p) = .ok (d, .unit) := rfl
theorem apply_sameNode (d : Dom) (x y : Id) : d.apply (.sameNode x y) = .ok (d, .bool (x == y)) := rfl
theorem apply_getDocument (d : Dom) : d.apply .getDocument = .ok (d, .node 0) := rfl
theorem apply_allow (d : Dom) (p : Id) : d.apply (.allowDeclarativeShadowRoots p) = .ok (d, .bool true) := rfl
theorem apply_attach (d : Dom) (l t : Id) (a : List Attr) : d.apply (.attachDeclarativeShadow l t a) = .ok (d, .bool false) := rfl
theorem apply_createComment (d : Dom) (t : List Char) :
    d.apply (.createComment t) = .ok ((d.createComment t).1, .node (d.createComment t).2) := rfl
theorem apply_createElement (d : Dom) (n : QualName) (a : List Attr) (f : ElementFlags) :
    d.apply (.createElement n a f) = .ok ((d.createElement n a f).1, .node (d.createElement n a f).2) := rfl

theorem sat_parseError {msg : String} {s : State} : Sat (parseError msg) s (fun _ s' => QF s s') :=
  sat_sinkUnit_total ⟨_, _, apply_parseError _ _⟩

theorem sat_unexpected {s : State} : Sat unexpected s (fun r s' => r = .done ∧ QF s s') := by
  unfold unexpected
  exact sat_parseError.bind (fun _ s' h => sat_pure ⟨rfl, h⟩)

theorem sat_sameNode {x y : Id} {s : State} : Sat (sameNode x y) s (fun b s' => b = (x == y) ∧ QF s s') := by
  unfold H5V.Model.HtmlTB.sameNode sinkBool
  refine Sat.bind (sat_sink (Q := fun o s' => o = .bool (x == y) ∧ QF s s') (Or.inr ⟨_, _, apply_sameNode _ _ _⟩) ?_) ?_
  · intro d' out h
    have h' := h
    rw [apply_sameNode] at h; cases h
    exact ⟨rfl, qf_of_apply h'⟩
  · rintro o s' ⟨rfl, hq⟩; exact sat_pure ⟨rfl, hq⟩

/-! ### names of elements -/

def enameOfSig (x : Sig) : EName := ⟨x.1.ns, x.1.loc⟩

/-- the element's expanded name as the sink reports it (junk for non-elements) -/
def nm (d : Dom) (h : Id) : EName := match sigOf d h with | some x => enameOfSig x | none => ⟨[], []⟩

def IsEl (d : Dom) (h : Id) : Prop := ∃ x, sigOf d h = some x

theorem IsEl.ext {d d' : Dom} {h : Id} (he : Ext d d') (hi : IsEl d h) : IsEl d' h := by
  obtain ⟨x, hx⟩ := hi; exact ⟨x, he h x hx⟩

theorem nm_ext {d d' : Dom} {h : Id} (he : Ext d d') (hi : IsEl d h) : nm d' h = nm d h := by
  obtain ⟨x, hx⟩ := hi; unfold nm; rw [hx, he h x hx]

theorem sigOf_ext {d d' : Dom} {h : Id} (he : Ext d d') (hi : IsEl d h) : sigOf d' h = sigOf d h := by
  obtain ⟨x, hx⟩ := hi; rw [hx, he h x hx]

theorem apply_elemName {d : Dom} {h : Id} {x : Sig} (hx : sigOf d h = some x) :
    d.apply (.elemName h) = .ok (d, .name x.1.ns x.1.loc) := by
  unfold sigOf at hx
  cases hd : d.dataOf h with
  | none => simp [hd] at hx
  | some v =>
    rw [hd] at hx
    rw [Dom.dataOf] at hd
    cases hn : d.nodes[h]? with
    | none => simp [hn] at hd
    | some n =>
      simp [hn] at hd
      subst hd
      cases hdat : n.data <;> simp [hdat, sigData] at hx
      subst hx
      simp [Dom.apply, Dom.applyV, Dom.elemName, Dom.get, hn, hdat, bind, Except.bind]

theorem sat_elemName {h : Id} {s : State} (hi : IsEl s.dom h) :
    Sat (elemName h) s (fun n s' => n = nm s.dom h ∧ QF s s') := by
  obtain ⟨x, hx⟩ := hi
  unfold H5V.Model.HtmlTB.elemName
  refine Sat.bind (sat_sink (Q := fun o s' => o = .name x.1.ns x.1.loc ∧ QF s s')
    (Or.inr ⟨_, _, apply_elemName hx⟩) ?_) ?_
  · intro d' out h1
    have h' := h1
    rw [apply_elemName hx] at h1; cases h1
    exact ⟨rfl, qf_of_apply h'⟩
  · rintro o s' ⟨rfl, hq⟩
    exact sat_pure ⟨by simp [nm, hx, enameOfSig], hq⟩

theorem sat_htmlElemNamedS {h : Id} {name : Str} {s : State} (hi : IsEl s.dom h) :
    Sat (htmlElemNamedS h name) s
      (fun b s' => b = ((nm s.dom h).ns == nsHtml && (nm s.dom h).loc == name) ∧ QF s s') := by
  unfold H5V.Model.HtmlTB.htmlElemNamedS
  refine (sat_elemName hi).bind ?_
  rintro n s' ⟨rfl, hq⟩
  exact sat_pure ⟨rfl, hq⟩

theorem sat_htmlElemNamed {h : Id} {name : String} {s : State} (hi : IsEl s.dom h) :
    Sat (htmlElemNamed h name) s
      (fun b s' => b = ((nm s.dom h).ns == nsHtml && (nm s.dom h).loc == name.toList) ∧ QF s s') :=
  sat_htmlElemNamedS hi

theorem sat_elemIn {h : Id} {set : EName → Bool} {s : State} (hi : IsEl s.dom h) :
    Sat (elemIn h set) s (fun b s' => b = set (nm s.dom h) ∧ QF s s') := by
  unfold H5V.Model.HtmlTB.elemIn
  refine (sat_elemName hi).bind ?_
  rintro n s' ⟨rfl, hq⟩
  exact sat_pure ⟨rfl, hq⟩

theorem apply_isMathmlIP {d : Dom} {h : Id} {x : Sig} (hx : sigOf d h = some x) :
    d.apply (.isMathmlAnnotationXmlIntegrationPoint h) = .ok (d, .bool x.2.2) := by
  unfold sigOf at hx
  cases hd : d.dataOf h with
  | none => simp [hd] at hx
  | some v =>
    rw [hd] at hx
    rw [Dom.dataOf] at hd
    cases hn : d.nodes[h]? with
    | none => simp [hn] at hd
    | some n =>
      simp [hn] at hd
      subst hd
      cases hdat : n.data <;> simp [hdat, sigData] at hx
      subst hx
      simp [Dom.apply, Dom.applyV, Dom.isMathmlAnnotationXmlIntegrationPoint, Dom.get, hn, hdat, bind, Except.bind]

theorem sat_isMathmlIP {h : Id} {s : State} (hi : IsEl s.dom h) :
    Sat (sinkBool (.isMathmlAnnotationXmlIntegrationPoint h)) s (fun _ s' => QF s s') := by
  obtain ⟨x, hx⟩ := hi
  unfold sinkBool
  refine Sat.bind (sat_sink (Q := fun o s' => o = .bool x.2.2 ∧ QF s s')
    (Or.inr ⟨_, _, apply_isMathmlIP hx⟩) ?_) ?_
  · intro d' out h1
    have h' := h1
    rw [apply_isMathmlIP hx] at h1; cases h1
    exact ⟨rfl, qf_of_apply h'⟩
  · rintro o s' ⟨rfl, hq⟩
    exact sat_pure hq

/-- template contents of an element that has them -/
theorem apply_getTemplateContents {d : Dom} {h : Id} {q : QualName} {tc : Id} {ip : Bool}
    (hx : sigOf d h = some (q, some tc, ip)) :
    d.apply (.getTemplateContents h) = .ok (d, .node tc) := by
  unfold sigOf at hx
  cases hd : d.dataOf h with
  | none => simp [hd] at hx
  | some v =>
    rw [hd] at hx
    rw [Dom.dataOf] at hd
    cases hn : d.nodes[h]? with
    | none => simp [hn] at hd
    | some n =>
      simp [hn] at hd
      subst hd
      cases hdat : n.data <;> simp [hdat, sigData] at hx
      obtain ⟨rfl, rfl, rfl⟩ := hx
      simp [Dom.apply, Dom.applyV, Dom.getTemplateContents, Dom.get, hn, hdat, bind, Except.bind]

theorem sat_getTemplateContents {h : Id} {s : State} {q : QualName} {tc : Id} {ip : Bool}
    (hx : sigOf s.dom h = some (q, some tc, ip)) :
    Sat (sinkNode (.getTemplateContents h)) s (fun r s' => r = tc ∧ QF s s') := by
  unfold sinkNode
  refine Sat.bind (sat_sink (Q := fun o s' => o = .node tc ∧ QF s s')
    (Or.inr ⟨_, _, apply_getTemplateContents hx⟩) ?_) ?_
  · intro d' out h1
    have h' := h1
    rw [apply_getTemplateContents hx] at h1; cases h1
    exact ⟨rfl, qf_of_apply h'⟩
  · rintro o s' ⟨rfl, hq⟩
    exact sat_pure ⟨rfl, hq⟩

theorem apply_addAttrs {d : Dom} {h : Id} (hi : IsEl d h) (attrs : List Attr) :
    ∃ d', d.apply (.addAttrsIfMissing h attrs) = .ok (d', .unit) := by
  obtain ⟨x, hx⟩ := hi
  unfold sigOf at hx
  cases hd : d.dataOf h with
  | none => simp [hd] at hx
  | some v =>
    rw [hd] at hx
    rw [Dom.dataOf] at hd
    cases hn : d.nodes[h]? with
    | none => simp [hn] at hd
    | some n =>
      simp [hn] at hd
      subst hd
      cases hdat : n.data <;> simp [hdat, sigData] at hx
      simp [Dom.apply, Dom.applyV, Dom.addAttrsIfMissing, Dom.get, hn, hdat, bind, Except.bind]

theorem sat_addAttrs {h : Id} {attrs : List Attr} {s : State} (hi : IsEl s.dom h) :
    Sat (sinkUnit (.addAttrsIfMissing h attrs)) s (fun _ s' => QF s s') := by
  obtain ⟨d', hd⟩ := apply_addAttrs hi attrs
  exact sat_sinkUnit_total ⟨_, _, hd⟩

end H5V.Lemmas.TBSafe
