import H5V.Lemmas.HtmlTBModesInvBodyS
/-!
C02 (insertion modes), the invariant `Good` of the specification's run: the end tags of "in body" and the mode
"in body" itself.
-/
set_option linter.unusedSectionVars false
set_option linter.unusedSimpArgs false
namespace H5V.Lemmas.ModesInv
open H5V.Spec H5V.Spec.TreeModes
open H5V.Spec.TreeAlgo (Str Name nsHtml nsMathml nsSvg inHtml)
open H5V.Spec.TreeAlgo2 (Elem Entry PState)

section
variable {N : Type} [DecidableEq N]

/-! ### tag names -/

/-- two lists of HTML element names without a common member -/
theorem be_inHtml_disj {l1 l2 : List String} (hd : l1.all (fun x => !(l2.contains x)) = true) {n : Name}
    (h1 : inHtml l1 n = true) : inHtml l2 n = false := by
  cases hc : inHtml l2 n
  · rfl
  · exfalso
    simp only [inHtml, Bool.and_eq_true, List.any_eq_true, beq_iff_eq] at h1 hc
    obtain ⟨_, x, hx, hxn⟩ := h1
    obtain ⟨_, y, hy, hyn⟩ := hc
    have hxy : x = y := String.toList_inj.mp (hxn.trans hyn.symm)
    subst hxy
    have := List.all_eq_true.mp hd x hx
    simp only [Bool.not_eq_true', List.contains_eq_mem, decide_eq_false_iff_not] at this
    exact this hy

/-- an HTML element with the tag name of a token whose tag name is in `l` -/
theorem be_inHtml_of_named {x : Str} {l : List String} (h : strIsOneOf x l = true) {n : Name}
    (hn : isNamed x n = true) : inHtml l n = true := by
  simp only [strIsOneOf, List.any_eq_true, beq_iff_eq] at h
  obtain ⟨y, hy, hxy⟩ := h
  simp only [isNamed, Bool.and_eq_true, beq_iff_eq] at hn
  simp only [inHtml, Bool.and_eq_true, List.any_eq_true, beq_iff_eq]
  exact ⟨hn.1, y, hy, by rw [hn.2, hxy]⟩

theorem be_named_self (x : Str) : isNamed x ⟨nsHtml, x⟩ = true := by
  simp [isNamed]

/-- a tag name in a list without `td`, `th` is neither -/
theorem be_ne_of_strIsOneOf {x : Str} {l : List String} (h : strIsOneOf x l = true)
    (hl : l.all (fun y => !(["td", "th"].contains y)) = true) : x ≠ "td".toList ∧ x ≠ "th".toList := by
  have h1 : inHtml l ⟨nsHtml, x⟩ = true := be_inHtml_of_named h (be_named_self x)
  have h2 : inHtml ["td", "th"] ⟨nsHtml, x⟩ = false := be_inHtml_disj hl h1
  simp only [inHtml, List.any_cons, List.any_nil, Bool.or_false, Bool.and_eq_false_iff, Bool.or_eq_false_iff,
    beq_eq_false_iff_ne, ne_eq] at h2
  rcases h2 with h2 | h2
  · exact absurd trivial h2
  · exact ⟨fun hc => h2.1 hc.symm, fun hc => h2.2 hc.symm⟩

theorem be_ne_of_isOneOf {t : Tag} {l : List String} (h : t.isOneOf l = true)
    (hl : l.all (fun y => !(["td", "th"].contains y)) = true) : t.name ≠ "td".toList ∧ t.name ≠ "th".toList :=
  be_ne_of_strIsOneOf h hl

theorem be_ne_of_is {t : Tag} {x : String} (h : t.is x = true) (hx : (["td", "th"].contains x) = false) :
    t.name ≠ "td".toList ∧ t.name ≠ "th".toList :=
  be_ne_of_strIsOneOf (l := [x]) (by simpa [Tag.is, strIs, strIsOneOf] using h)
    (by simp only [List.all_cons, List.all_nil, Bool.and_true, hx]; rfl)

theorem be_ne_of_not_isOneOf {t : Tag} (h : t.isOneOf ["td", "th"] = false) :
    t.name ≠ "td".toList ∧ t.name ≠ "th".toList := by
  simp only [Tag.isOneOf, strIsOneOf, List.any_cons, List.any_nil, Bool.or_false, Bool.or_eq_false_iff,
    beq_eq_false_iff_ne, ne_eq] at h
  exact h

/-- the tag name is not one of those that have an implied end tag: the side condition "generate implied end tags
does not pop the target" of the block-like end tags -/
theorem be_notImplied_of_strIsOneOf {x : Str} {l : List String} (h : strIsOneOf x l = true)
    (hl : l.all (fun y => !(TreeTables.impliedEnd.contains y)) = true) (ex : Option Str) :
    TreeAlgo.impliedEndTag ex ⟨nsHtml, x⟩ = false := by
  have h1 : inHtml l ⟨nsHtml, x⟩ = true := be_inHtml_of_named h (be_named_self x)
  have h2 : inHtml TreeTables.impliedEnd ⟨nsHtml, x⟩ = false := be_inHtml_disj hl h1
  simp only [TreeAlgo.impliedEndTag, h2, Bool.false_and]

theorem be_notImplied_of_isOneOf {t : Tag} {l : List String} (h : t.isOneOf l = true)
    (hl : l.all (fun y => !(TreeTables.impliedEnd.contains y)) = true) (ex : Option Str) :
    TreeAlgo.impliedEndTag ex ⟨nsHtml, t.name⟩ = false :=
  be_notImplied_of_strIsOneOf h hl ex

theorem be_notImplied_of_is {t : Tag} {x : String} (h : t.is x = true)
    (hx : (TreeTables.impliedEnd.contains x) = false) (ex : Option Str) :
    TreeAlgo.impliedEndTag ex ⟨nsHtml, t.name⟩ = false :=
  be_notImplied_of_strIsOneOf (l := [x]) (by simpa [Tag.is, strIs, strIsOneOf] using h)
    (by simp only [List.all_cons, List.all_nil, Bool.and_true, hx]; rfl) ex

/-! ### implied end tags and the scopes -/

theorem be_implied_inHtml {ex : Option Str} {n : Name} (h : TreeAlgo.impliedEndTag ex n = true) :
    inHtml TreeTables.impliedEnd n = true := by
  simp only [TreeAlgo.impliedEndTag, Bool.and_eq_true] at h
  exact h.1

/-- "generate implied end tags, except for `x` elements" does not pop an `x` element -/
theorem be_implied_except {x : Str} {n : Name} (h : TreeAlgo.impliedEndTag (some x) n = true) : isNamed x n = false := by
  simp only [TreeAlgo.impliedEndTag, Bool.and_eq_true, Bool.not_eq_true'] at h
  cases hc : isNamed x n
  · rfl
  · exfalso
    simp only [isNamed, Bool.and_eq_true, beq_iff_eq] at hc
    have h2 := h.2
    rw [hc.2] at h2
    simp [hc.1] at h2

/-- "generate implied end tags" does not pop an element whose tag name has no implied end tag -/
theorem be_implied_notNamed {x : Str} {ex : Option Str} (hx : TreeAlgo.impliedEndTag ex ⟨nsHtml, x⟩ = false) {n : Name}
    (h : TreeAlgo.impliedEndTag ex n = true) : isNamed x n = false := by
  cases hc : isNamed x n
  · rfl
  · exfalso
    simp only [isNamed, Bool.and_eq_true, beq_iff_eq] at hc
    obtain ⟨ns, loc⟩ := n
    simp only at hc
    obtain ⟨h1, h2⟩ := hc
    subst h1 h2
    rw [hx] at h
    cases h

/-- the elements that have an implied end tag are in none of the scope lists -/
theorem be_implied_notScope (cfg : Config N) (hed : cfg.edition = .customizableSelect) {n : Name}
    (h : inHtml TreeTables.impliedEnd n = true) :
    scopeList cfg TreeAlgo.defaultScopeList n = false ∧ scopeList cfg TreeAlgo.listItemScopeList n = false ∧
      scopeList cfg TreeAlgo.buttonScopeList n = false := by
  simp only [inHtml, TreeTables.impliedEnd, Bool.and_eq_true, List.any_eq_true, beq_iff_eq] at h
  obtain ⟨hns, x, hx, hxn⟩ := h
  cases n with
  | mk ns loc =>
    simp only at hns hxn
    subst hns hxn
    simp only [List.mem_cons, List.mem_nil_iff, or_false] at hx
    simp only [scopeList, hed]
    rcases hx with rfl | rfl | rfl | rfl | rfl | rfl | rfl | rfl | rfl | rfl <;> decide

/-- "generate implied end tags (except …); pop until a target has been popped": the target is in a scope whose
list has `td`, `th`, it is not a `td`/`th` and has no implied end tag: "td/th in table scope" survives -/
theorem be_cellR_implied_pop {list : Name → Bool} (hl : ∀ n, tdThN n = true → list n = true)
    (hl2 : ∀ n, inHtml TreeTables.impliedEnd n = true → list n = false)
    {ex : Option Str} {isTarget : Name → Bool} (ht : ∀ n, isTarget n = true → tdThN n = false)
    (hti : ∀ n, TreeAlgo.impliedEndTag ex n = true → isTarget n = false) {l : List Name}
    (hs : TreeAlgo.hasInScope isTarget list l = true) (h : cellR l = true) :
    cellR (((l.dropWhile (TreeAlgo.impliedEndTag ex)).dropWhile fun n => !isTarget n).drop 1) = true := by
  have h1 : cellR (l.dropWhile (TreeAlgo.impliedEndTag ex)) = true :=
    cellR_dropWhile (fun n hn => impliedEndTag_noTd (mem_takeWhile_p hn)) h
  refine cellR_popUntil hl ht ?_ h1
  rw [hasInScope_dropWhile]
  · exact hs
  · intro n hn
    exact ⟨hti n hn, hl2 n (be_implied_inHtml hn)⟩

/-! ### the small steps -/

@[simp] theorem be_iteErr_mode (c : Prop) [Decidable c] (s : State N) (w : String) :
    (if c then s else s.err w).mode = s.mode := by split <;> rfl
@[simp] theorem be_iteErr_orig (c : Prop) [Decidable c] (s : State N) (w : String) :
    (if c then s else s.err w).originalMode = s.originalMode := by split <;> rfl
@[simp] theorem be_iteErr_tms (c : Prop) [Decidable c] (s : State N) (w : String) :
    (if c then s else s.err w).templateModes = s.templateModes := by split <;> rfl
@[simp] theorem be_iteErr_stopped (c : Prop) [Decidable c] (s : State N) (w : String) :
    (if c then s else s.err w).stopped = s.stopped := by split <;> rfl
@[simp] theorem be_iteErr_p (c : Prop) [Decidable c] (s : State N) (w : String) :
    (if c then s else s.err w).p = s.p := by split <;> rfl
@[simp] theorem be_iteErr_names (c : Prop) [Decidable c] (s : State N) (w : String) :
    (if c then s else s.err w).names = s.names := by split <;> rfl

@[simp] theorem be_bodyEndCheck_mode (s : State N) (w : String) : (bodyEndCheck s w).mode = s.mode := by
  unfold bodyEndCheck; split <;> rfl
@[simp] theorem be_bodyEndCheck_orig (s : State N) (w : String) : (bodyEndCheck s w).originalMode = s.originalMode := by
  unfold bodyEndCheck; split <;> rfl
@[simp] theorem be_bodyEndCheck_tms (s : State N) (w : String) : (bodyEndCheck s w).templateModes = s.templateModes := by
  unfold bodyEndCheck; split <;> rfl
@[simp] theorem be_bodyEndCheck_stopped (s : State N) (w : String) : (bodyEndCheck s w).stopped = s.stopped := by
  unfold bodyEndCheck; split <;> rfl
@[simp] theorem be_bodyEndCheck_p (s : State N) (w : String) : (bodyEndCheck s w).p = s.p := by
  unfold bodyEndCheck; split <;> rfl

/-- the result of a clause that leaves the mode, the original mode, the template modes alone -/
theorem be_done {cfg : Config N} {σ σ' : State N} (hc : Ctx cfg σ) (hm : σ'.mode = σ.mode)
    (ho : σ'.originalMode = σ.originalMode) (ht : σ'.templateModes = σ.templateModes) (hst : σ'.stopped = σ.stopped)
    (haf : AFOk σ'.p.list) (hcell : σ.mode = .inCell → cellR σ.names = true → cellR σ'.names = true) :
    Post (.done σ') :=
  fun _ => hc.good.upd ⟨hm, ho, ht, hst, rfl, rfl⟩ hc.nt hc.ntt hcell haf

/-- "close a p element" when a `p` element is in button scope -/
theorem be_cellR_closeP (cfg : Config N) (hed : cfg.edition = .customizableSelect) {s : State N}
    (hs : hasInButtonScope cfg s "p" = true) (h : cellR s.names = true) : cellR (closeP s).names = true := by
  have := cellR_closePIfInButtonScope cfg hed h
  unfold closePIfInButtonScope at this
  rw [if_pos hs] at this
  exact this

/-! ### the clauses -/

/-- `</p>`, a `p` element is in button scope -/
theorem be_endP1 {cfg : Config N} {σ : State N} (hc : Ctx cfg σ) (hs : hasInButtonScope cfg σ "p" = true) :
    Post (.done (closeP σ)) :=
  be_done hc (by simp) (by simp) (by simp) (by simp) (by simp only [closeP_list]; exact hc.good.af)
    (fun _ hcr => be_cellR_closeP cfg hc.ed hs hcr)

/-- `</p>`, no `p` element is in button scope: one is inserted (and is then in button scope) -/
theorem be_endP2 {cfg : Config N} {σ : State N} (hc : Ctx cfg σ) {s1 : State N} {w : String}
    (h1 : insertHtml' (σ.err w) (bareTag "p") = .ok s1) : Post (.done (closeP s1)) := by
  obtain ⟨e, he, _, hu, _⟩ := insertHtml'_eff h1
  have hname : e.name = ⟨nsHtml, "p".toList⟩ := he
  have hn : s1.names = e.name :: σ.names := by
    rw [names_eq, hu.stack, namesOf_snoc]; rfl
  have hs : hasInButtonScope cfg s1 "p" = true := by
    unfold hasInButtonScope
    rw [hn, hasInScope_cons, hname]
    have : isNamed "p".toList ⟨nsHtml, "p".toList⟩ = true := by decide
    rw [this]; rfl
  refine be_done hc (by simp [hu.mode]) (by simp [hu.orig]) (by simp [hu.tms]) (by simp [hu.stopped])
    (by simp only [closeP_list, hu.list]; exact hc.good.af) (fun _ hcr => be_cellR_closeP cfg hc.ed hs ?_)
  rw [hn, hname, cellR_cons_neutral (by decide)]
  exact hcr

/-- `</li>` -/
theorem be_endLi {cfg : Config N} {σ : State N} (hc : Ctx cfg σ) (hs : hasInListItemScope cfg σ "li" = true)
    (c : Prop) [Decidable c] (w : String) :
    Post (.done (popUntilPopped (if c then genImplied σ (some "li") else (genImplied σ (some "li")).err w) "li")) := by
  refine be_done hc (by simp) (by simp) (by simp) (by simp) (by simp; exact hc.good.af) (fun _ hcr => ?_)
  rw [popUntilPopped_names, be_iteErr_names, genImplied_names]
  exact be_cellR_implied_pop (isTarget := isNamed "li".toList) (listItemScope_td cfg hc.ed)
    (fun n hn => (be_implied_notScope cfg hc.ed hn).2.1) (isNamed_noTd (by decide))
    (fun n hn => be_implied_except hn) hs hcr

/-- `</dd>`, `</dt>` -/
theorem be_endDd {cfg : Config N} {σ : State N} (hc : Ctx cfg σ) {x : Str} (hx : x ≠ "td".toList ∧ x ≠ "th".toList)
    (hs : hasStrInScope cfg σ x = true) (c : Prop) [Decidable c] (w : String) :
    Post (.done (popUntilPoppedStr (if c then genImpliedExceptStr σ x else (genImpliedExceptStr σ x).err w) x)) := by
  refine be_done hc (by simp) (by simp) (by simp) (by simp) (by simp; exact hc.good.af) (fun _ hcr => ?_)
  rw [popUntilPoppedStr_names, be_iteErr_names, genImpliedExceptStr_names]
  exact be_cellR_implied_pop (isTarget := isNamed x) (defaultScope_td cfg hc.ed)
    (fun n hn => (be_implied_notScope cfg hc.ed hn).1) (isNamed_noTd hx)
    (fun n hn => be_implied_except hn) hs hcr

/-- `</h1>` … `</h6>` -/
theorem be_endHeading {cfg : Config N} {σ : State N} (hc : Ctx cfg σ)
    (hs : hasAnyInScope cfg σ TreeTables.heading = true) (c : Prop) [Decidable c] (w : String) :
    Post (.done (popUntilPoppedAny (if c then genImplied σ else (genImplied σ).err w) TreeTables.heading)) := by
  refine be_done hc (by simp) (by simp) (by simp) (by simp) (by simp; exact hc.good.af) (fun _ hcr => ?_)
  rw [popUntilPoppedAny_names, be_iteErr_names, genImplied_names]
  exact be_cellR_implied_pop (isTarget := inHtml TreeTables.heading) (defaultScope_td cfg hc.ed)
    (fun n hn => (be_implied_notScope cfg hc.ed hn).1)
    (fun n hn => be_inHtml_disj (l1 := TreeTables.heading) (l2 := ["td", "th"]) (by decide) hn)
    (fun n hn => be_inHtml_disj (l1 := TreeTables.impliedEnd) (l2 := TreeTables.heading) (by decide)
      (be_implied_inHtml hn)) hs hcr

/-- the block-like end tags: "generate implied end tags; pop until an `x` element has been popped" (`x` has no
implied end tag) -/
theorem be_endBlockLike {cfg : Config N} {σ : State N} (hc : Ctx cfg σ) {x : Str}
    (hx : x ≠ "td".toList ∧ x ≠ "th".toList) (hxi : TreeAlgo.impliedEndTag none ⟨nsHtml, x⟩ = false)
    (hs : hasStrInScope cfg σ x = true) (c : Prop) [Decidable c] (w : String) :
    cellR σ.names = true →
      cellR (popUntilPoppedStr (if c then genImplied σ else (genImplied σ).err w) x).names = true := by
  intro hcr
  rw [popUntilPoppedStr_names, be_iteErr_names, genImplied_names]
  exact be_cellR_implied_pop (isTarget := isNamed x) (defaultScope_td cfg hc.ed)
    (fun n hn => (be_implied_notScope cfg hc.ed hn).1) (isNamed_noTd hx)
    (fun n hn => be_implied_notNamed hxi hn) hs hcr

/-- `</applet>`, `</marquee>`, `</object>` -/
theorem be_endApplet {cfg : Config N} {σ : State N} (hc : Ctx cfg σ) {x : Str}
    (hx : x ≠ "td".toList ∧ x ≠ "th".toList) (hxi : TreeAlgo.impliedEndTag none ⟨nsHtml, x⟩ = false)
    (hs : hasStrInScope cfg σ x = true) (c : Prop) [Decidable c] (w : String) :
    Post (.done (popUntilPoppedStr (if c then genImplied σ else (genImplied σ).err w) x).clearToLastMarker) := by
  refine be_done hc (by simp) (by simp) (by simp) (by simp) (by simp; exact hc.good.af.clear) (fun _ hcr => ?_)
  rw [clearToLastMarker_names]
  exact be_endBlockLike hc hx hxi hs c w hcr

/-! ### the end tags -/

/-- case distinction on the `if` at the head of a hypothesis (`split at h` is too slow on the long chain) -/
theorem be_ite {α : Type} {c : Prop} [Decidable c] {a b x : α} (h : (if c then a else b) = x) :
    (c ∧ a = x) ∨ (¬c ∧ b = x) := by
  by_cases hc : c
  · exact Or.inl ⟨hc, by rwa [if_pos hc] at h⟩
  · exact Or.inr ⟨hc, by rwa [if_neg hc] at h⟩

/-- the end tags of "in body" -/
theorem post_inBodyEndTag (hhead : Keeps0 (inHead (N := N)) PreHead) {cfg : Config N} {σ : State N} (hc : Ctx cfg σ)
    (hl : Link σ) {t : Tag} (hcell : σ.mode = .inCell → t.isOneOf ["td", "th"] = false) {r : Step N}
    (hfr : FreshL σ.p.stack σ.p.supply r.state.p.supply) (h : inBodyEndTag cfg σ t = .ok r) : Post r := by
  have hed := hc.ed
  unfold inBodyEndTag at h
  replace h := be_ite h
  rcases h with ⟨_, h⟩ | ⟨_, h⟩
  · -- </template>
    exact hhead cfg hed σ (.endTag t) r hc.good hc.live ⟨hc.nt, hc.ntt⟩ h
  replace h := be_ite h
  rcases h with ⟨_, h⟩ | ⟨_, h⟩
  · -- </body>
    split at h
    · cases pure_ok h; exact fun _ => hc.good.same
    · cases pure_ok h
      exact fun _ => hc.good.toPlain' (m := .afterBody) rfl (by decide) (by simp) (by simp)
  replace h := be_ite h
  rcases h with ⟨_, h⟩ | ⟨_, h⟩
  · -- </html>
    split at h
    · cases pure_ok h; exact fun _ => hc.good.same
    · cases pure_ok h
      exact ⟨by simp; exact hc.live, hc.good.toPlain' (m := .afterBody) rfl (by decide) (by simp) (by simp)⟩
  replace h := be_ite h
  rcases h with ⟨hb, h⟩ | ⟨_, h⟩
  · -- the block end tags, </select>
    cases pure_ok h
    have hb' : t.isOneOf blockEnd = true ∨ t.is "select" = true := by
      cases h1 : t.isOneOf blockEnd
      · rw [h1, Bool.false_or, Bool.and_eq_true] at hb
        exact Or.inr hb.2
      · exact Or.inl rfl
    have hne : t.name ≠ "td".toList ∧ t.name ≠ "th".toList := by
      rcases hb' with hb' | hb'
      · exact be_ne_of_isOneOf hb' (by decide)
      · exact be_ne_of_is hb' (by decide)
    -- (not needed by the present statement of `post_inBodyBlockEnd`; ready should it get this side condition)
    have hni : TreeAlgo.impliedEndTag none ⟨nsHtml, t.name⟩ = false := by
      rcases hb' with hb' | hb'
      · exact be_notImplied_of_isOneOf hb' (by decide) none
      · exact be_notImplied_of_is hb' (by decide) none
    exact post_inBodyBlockEnd hc hne hni
  replace h := be_ite h
  rcases h with ⟨_, h⟩ | ⟨_, h⟩
  · -- </form>
    cases pure_ok h
    exact post_inBodyEndForm hc hl
  replace h := be_ite h
  rcases h with ⟨_, h⟩ | ⟨_, h⟩
  · -- </p>
    dsimp only at h
    split at h
    · rename_i hs
      obtain ⟨s1, h1, h2⟩ := bind_ok h
      cases pure_ok h1
      cases pure_ok h2
      exact be_endP1 hc hs
    · obtain ⟨s1, h1, h2⟩ := bind_ok h
      cases pure_ok h2
      exact be_endP2 hc h1
  replace h := be_ite h
  rcases h with ⟨_, h⟩ | ⟨_, h⟩
  · -- </li>
    split at h
    · cases pure_ok h; exact fun _ => hc.good.same
    · rename_i hs
      cases pure_ok h
      exact be_endLi hc (by simpa using hs) _ _
  replace h := be_ite h
  rcases h with ⟨hd, h⟩ | ⟨_, h⟩
  · -- </dd>, </dt>
    split at h
    · cases pure_ok h; exact fun _ => hc.good.same
    · rename_i hs
      cases pure_ok h
      exact be_endDd hc (be_ne_of_isOneOf hd (by decide)) (by simpa using hs) _ _
  replace h := be_ite h
  rcases h with ⟨_, h⟩ | ⟨_, h⟩
  · -- </h1> … </h6>
    split at h
    · cases pure_ok h; exact fun _ => hc.good.same
    · rename_i hs
      cases pure_ok h
      exact be_endHeading hc (by simpa using hs) _ _
  replace h := be_ite h
  rcases h with ⟨hf, h⟩ | ⟨_, h⟩
  · -- the formatting end tags: the adoption agency algorithm
    obtain ⟨s1, h1, h2⟩ := map_ok h
    subst h2
    obtain ⟨st', l', hu, haf, hcr, _, _⟩ := adoptionAgency_eff (fmtN_of_isOneOf hf (by decide)) hc.good.af hl hfr h1
    exact fun _ => hc.upd hu hcr haf
  replace h := be_ite h
  rcases h with ⟨ha, h⟩ | ⟨_, h⟩
  · -- </applet>, </marquee>, </object>
    split at h
    · cases pure_ok h; exact fun _ => hc.good.same
    · rename_i hs
      cases pure_ok h
      exact be_endApplet hc (be_ne_of_isOneOf ha (by decide)) (be_notImplied_of_isOneOf ha (by decide) none)
        (by simpa using hs) _ _
  replace h := be_ite h
  rcases h with ⟨_, h⟩ | ⟨_, h⟩
  · -- </br>
    exact post_inBodyStartTagCore hhead (σ := σ.err "in body: br end tag") hc.same hl.same hfr h
  · -- any other end tag
    cases pure_ok h
    exact be_done hc rfl rfl rfl rfl hc.good.af
      (fun hm hcr => cellR_anyOtherEndTag (be_ne_of_not_isOneOf (hcell hm)) hcr)

/-! ### the mode -/

/-- **"in body"** keeps the invariant -/
theorem keeps_inBody (hhead : Keeps0 (inHead (N := N)) PreHead) : Keeps (inBody (N := N)) PreBody := by
  intro cfg hed σ tok r hg hst hl hfr hpre h
  have hc : Ctx cfg σ := ⟨hed, hg, hst, hpre.1, hpre.2.1⟩
  cases tok with
  | character c =>
    obtain ⟨s', hr, es, l', hu, hes, haf⟩ := inBody_char_eff hg.af h
    subst hr
    refine fun _ => hc.upd hu (fun hcr => ?_) haf
    rw [cellR_append_neutral _ (fun e he => (hes e he).1)]
    exact hcr
  | comment d =>
    unfold inBody at h
    dsimp only at h
    obtain ⟨s1, h1, h2⟩ := map_ok h
    subst h2
    have hu := insertComment_eff h1
    exact fun _ => hg.same hu.mode hu.orig hu.tms hu.stack hu.list
  | doctype _ _ _ _ =>
    unfold inBody at h
    dsimp only at h
    cases pure_ok h
    exact fun _ => hg.same
  | startTag t =>
    unfold inBody at h
    dsimp only at h
    exact post_inBodyStartTag hhead hc (hl rfl) (hfr rfl) h
  | eof =>
    unfold inBody at h
    dsimp only at h
    split at h
    · exact post_inTemplateEof hc h
    · cases pure_ok h
      exact inv_stopParsing _
  | endTag t =>
    unfold inBody at h
    dsimp only at h
    exact post_inBodyEndTag hhead hc (hl rfl) (fun hm => hpre.2.2 hm) (hfr rfl) h

end
end H5V.Lemmas.ModesInv
