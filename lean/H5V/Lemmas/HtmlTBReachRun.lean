import H5V.Lemmas.HtmlTBReachRules2
/-!
C18, tree-builder side, part 9: `process_to_completion`, `process_token`, `end`, the constructors, and
runs over token lists.
-/
namespace H5V.Props.C18
open H5V.Model.Dom (Id QualName Attr NodeOrText SinkOp Output ElementFlags QuirksMode Dom)
open H5V.Model.HtmlTB
open H5V.Lemmas.TBM

/-- the handle an answer of `process_token` carries (`Script(node)`) -/
def srH : SinkResult → List Id
  | .script n => [n]
  | _ => []

@[pv_mem] theorem srH_script (n : Id) : srH (.script n) = [n] := rfl
@[pv_mem] theorem srH_continue : srH .continue_ = [] := rfl
@[pv_mem] theorem srH_plaintext : srH .plaintext = [] := rfl
@[pv_mem] theorem srH_rawData (k : H5V.Model.HtmlTok.RawKind) : srH (.rawData k) = [] := rfl
@[pv_mem] theorem srH_indicator (s : Str) : srH (.encodingIndicator s) = [] := rfl

set_option maxHeartbeats 800000 in
theorem pv_processToCompletion (fuel : Nat) : ∀ (c : List Id) (t : Token) (more : List Token),
    PV c (processToCompletion fuel t more) srH := by
  induction fuel with
  | zero => intro c t more; unfold processToCompletion; pv_walk
  | succ fuel ih =>
    intro c t more
    unfold processToCompletion
    dsimp only
    pv_walk
macro_rules | `(tactic| pv_leaf) => `(tactic| with_reducible exact pv_processToCompletion _ _ _ _)

set_option maxHeartbeats 800000 in
/-- **`process_token`** -/
theorem pv_processToken {c : List Id} (tok : TokToken) (line : Nat) : PV c (processToken tok line) srH := by
  unfold processToken; pv_walk
macro_rules | `(tactic| pv_leaf) => `(tactic| with_reducible exact pv_processToken _ _)

theorem pv_endLoop : ∀ (c : List Id) (l : List Id), (∀ x ∈ l, x ∈ c) → PV c (endLoop l) nil
  | c, [], _ => by unfold endLoop; pv_walk
  | c, e :: rest, hl => by
    have ih := fun c' => pv_endLoop c' rest
    unfold endLoop; pv_walk
macro_rules | `(tactic| pv_leaf) => `(tactic| (with_reducible apply pv_endLoop) <;> mem_tac)

/-- **`TreeSink::end`** -/
theorem pv_finishTB {c : List Id} : PV c finishTB nil := by unfold finishTB; pv_walk

/-- `TreeBuilder::new`: the document handle is what `get_document` returns -/
theorem pv_newTB {c : List Id} : PV c newTB nil := by unfold newTB; pv_walk

/-- `TreeBuilder::new_for_fragment`: the context element and the form element come from the caller -/
theorem pv_newForFragment {c : List Id} (ctx : Id) (form : Option Id) (hc : ctx ∈ c) (hf : ∀ x ∈ form.toList, x ∈ c) :
    PV c (newForFragment ctx form) nil := by
  unfold newForFragment; pv_walk

theorem pv_adjustedCurrentNodeForeign {c : List Id} : PV c adjustedCurrentNodeForeign nil := by
  unfold adjustedCurrentNodeForeign; pv_walk

theorem pv_tokenizerStateForContextElem {c : List Id} (b : Bool) : PV c (tokenizerStateForContextElem b) nil := by
  unfold tokenizerStateForContextElem; pv_walk

/-- the handles in a list of answers -/
def srsH (l : List SinkResult) : List Id := l.flatMap srH

theorem pv_processTokens : ∀ (c : List Id) (toks : List (TokToken × Nat)) (acc : List SinkResult),
    (∀ x ∈ srsH acc, x ∈ c) → PV c (processTokens toks acc) srsH
  | c, [], acc, ha => by unfold processTokens; exact PV.pure ha
  | c, (t, line) :: rest, acc, ha => by
    unfold processTokens
    refine PV.bind (pv_processToken t line) fun r => ?_
    apply pv_processTokens
    intro x hx
    split at hx
    · exact List.mem_append_right _ (ha x hx)
    · simp only [srsH, List.flatMap_cons, List.mem_append] at hx
      rcases hx with hx | hx
      · exact List.mem_append_left _ hx
      · exact List.mem_append_right _ (ha x hx)

end H5V.Props.C18
