import H5V.Lemmas.HtmlTBModesAll
/-!
The HTML fragment case: `TreeBuilder::new_for_fragment` of the model against steps 2, 6–12 of the
fragment parsing algorithm (`Spec.TreeModes.fragmentState`), and the whole fragment run
(`H5V.Props.C04TB.parseFragment`) against `parseFragmentDev`.
-/
namespace H5V.Lemmas.HtmlTBModes
open H5V.Model.HtmlTB
open H5V.Model.Dom (Id SinkOp Output Dom QualName Attr NodeOrText ElementFlags NodeData QuirksMode)
open H5V.Lemmas.HtmlTBAlgo
open H5V.Lemmas.TBSafe (TI HInv SInv Rooted ForeignTop textTok)
open H5V.Spec.TreeAlgo2 (Elem Entry PState Ctx Edit Place)
open H5V.Spec.TreeModes (STok ETok IMode Config Out TokSwitch XOp Op Step Edition)
open H5V.Props.C04TB (parseRest fragInit)

/-! ### the specification side: the updates of the template modes and of the form pointer commute
with `createRootHtml` and `resetInsertionMode` -/

/-- the two fields `new_for_fragment` sets before it creates the root -/
def frag_pre (tm : List IMode) (f : Option Id) (σ : SState) : SState :=
  ({ σ with templateModes := tm } : SState).setForm f

theorem frag_createRoot_comm (cfg : Config Id) (σ : SState) (t : STag) (tm : List IMode) (f : Option Id) :
    Spec.TreeModes.createRootHtml cfg (frag_pre tm f σ) t
      = (Spec.TreeModes.createRootHtml cfg σ t).map (frag_pre tm f) := by
  simp only [Spec.TreeModes.createRootHtml, frag_pre, Spec.TreeModes.State.setForm, PState.newNode]
  cases σ.p.supply with
  | nil => rfl
  | cons a r => rfl

theorem frag_createRoot_tmodes {cfg : Config Id} {σ σ' : SState} {t : STag}
    (h : Spec.TreeModes.createRootHtml cfg σ t = .ok σ') : σ'.templateModes = σ.templateModes := by
  simp only [Spec.TreeModes.createRootHtml, PState.newNode] at h
  cases hs : σ.p.supply with
  | nil => rw [hs] at h; cases h
  | cons a r => rw [hs] at h; cases h; rfl

theorem frag_reset_comm (cfg : Config Id) (σ : SState) (f : Option Id) :
    Spec.TreeModes.resetInsertionMode cfg (σ.setForm f)
      = (Spec.TreeModes.resetInsertionMode cfg σ).map (fun σ' => σ'.setForm f) := by
  simp only [Spec.TreeModes.resetInsertionMode, Spec.TreeModes.State.setForm, Spec.TreeModes.State.names]
  cases cfg.edition with
  | customizableSelect =>
    dsimp only
    cases ((Spec.TreeAlgo.resetInsertionMode (cfg.context.map (·.name)) σ.headPointer.isNone
      (σ.templateModes.getLast?.bind IMode.toAlgo) (σ.p.stack.reverse.map (·.name))).map IMode.ofAlgo) <;> rfl
  | selectModes =>
    dsimp only
    cases (Spec.TreeModes.resetLegacy (cfg.context.map (·.name)) σ.headPointer.isNone
      (σ.templateModes.getLast?.bind IMode.toAlgo) (σ.p.stack.reverse.map (·.name))) <;> rfl

/-- the fragment case of `fragmentState`, from its two effectful steps run on the state in which the
template modes and the form pointer are already set -/
theorem frag_fragmentState_of (cfg : Config Id) (c : Elem Id) (hc : cfg.context = some c)
    (dm : Spec.TreeAlgo.DocMode) (form : Option Id) (supply : List Id) (A B : SState)
    (h1 : Spec.TreeModes.createRootHtml cfg
      (frag_pre (if c.name.isHtml "template" then [.inTemplate] else []) form
        { Spec.TreeModes.initialState supply with quirks := dm }) (Spec.TreeModes.bareTag "html") = .ok A)
    (h2 : Spec.TreeModes.resetInsertionMode cfg A = .ok B) :
    Spec.TreeModes.fragmentState cfg dm form supply = .ok B := by
  rw [frag_createRoot_comm] at h1
  cases hcr : Spec.TreeModes.createRootHtml cfg
      ({ Spec.TreeModes.initialState supply with quirks := dm } : SState) (Spec.TreeModes.bareTag "html") with
  | error e => rw [hcr] at h1; cases h1
  | ok σ1 =>
    rw [hcr] at h1
    have hA : A = frag_pre (if c.name.isHtml "template" then [.inTemplate] else []) form σ1 := by
      cases h1; rfl
    have ht : σ1.templateModes = [] := frag_createRoot_tmodes hcr
    subst hA
    unfold frag_pre at h2
    rw [frag_reset_comm] at h2
    simp only [Spec.TreeModes.fragmentState, hc, Spec.TreeModes.req, bind, Except.bind, pure, Except.pure, hcr]
    cases hb : c.name.isHtml "template" with
    | true =>
      rw [hb] at h2
      simp only [if_true] at h2 ⊢
      cases hr : Spec.TreeModes.resetInsertionMode cfg ({ σ1 with templateModes := [.inTemplate] } : SState) with
      | error e => rw [hr] at h2; cases h2
      | ok σ3 => rw [hr] at h2; cases h2; rfl
    | false =>
      rw [hb] at h2
      simp only [Bool.false_eq_true, if_false] at h2 ⊢
      have e : ({ σ1 with templateModes := [] } : SState) = σ1 := by rw [← ht]
      rw [e] at h2
      cases hr : Spec.TreeModes.resetInsertionMode cfg σ1 with
      | error e => rw [hr] at h2; cases h2
      | ok σ3 => rw [hr] at h2; cases h2; rfl

/-! ### the model side -/

theorem frag_pc_getDocument (s : State) :
    PC (sinkNode .getDocument) s (fun doc s' calls => doc = 0 ∧ SameTB s s' ∧ edits calls = []) := by
  unfold sinkNode
  refine pc_bind (pc_sink ?_)
  intro d' out ha
  rw [TBSafe.apply_getDocument] at ha
  cases ha
  exact pc_pure ⟨rfl, SameTB.afterCall .., rfl⟩

theorem frag_isTemplate (n : EName) :
    (HtmlTBSpec.toName n).isHtml "template" = (n.ns == nsHtml && isName n.loc "template") := by
  simp only [Spec.TreeAlgo.Name.isHtml, HtmlTBSpec.toName, isName]
  congr 1
  exact BEq.comm

/-- the configuration of the specification for a fragment parse with the options `opts`, the sink `d` and
the context element `ctx` -/
def fragCfg (opts : Opts) (d : Dom) (ctx : Id) : Config Id :=
  { document := 0, edition := .customizableSelect, scripting := opts.scriptingEnabled, srcdoc := opts.iframeSrcdoc,
    cannotChangeMode := false, context := some (elemOf d ctx), contextEncodingHtml := ipOfDom d ctx }

/-- the state of `new_for_fragment` after its `modS` -/
def frag_mid (opts : Opts) (D : Dom) (T : List (SinkOp × Output)) (ctx : Id) (form : Option Id) (b : Bool) : State :=
  { ({ fragInit opts D with traceRev := T } : State) with
    docHandle := 0,
    templateModes := if b then [.inTemplate] else [],
    formElem := form,
    contextElem := some ctx }

theorem frag_minv_mid (opts : Opts) (D : Dom) (T : List (SinkOp × Output)) (ctx : Id) (form : Option Id) (b : Bool)
    (hctx : D.isElement ctx = true)
    (hform : ∀ f, form = some f → D.isElement f = true ∧ nameOf D f = ⟨nsHtml, "form".toList⟩) :
    MInv (frag_mid opts D T ctx form b) where
  pend := by intro p hp; cases hp
  elems := by intro x hx; cases hx
  root := by intro h0 hh; cases hh
  af := by intro x t hx; cases hx
  afEl := by intro x t hx; cases hx
  head := by intro x hx; cases hx
  ctx := by intro c hc; cases hc; exact hctx
  afwf := by intro x t hx; cases hx
  ip := by intro x hx; cases hx
  tmodes := by
    intro m hm
    cases b
    · cases hm
    · simp only [frag_mid, if_true, List.mem_singleton] at hm
      subst hm; intro h; cases h
  form := by
    intro f hf
    obtain ⟨h1, h2⟩ := hform f hf
    refine ⟨h1, ?_⟩
    show nameOf D f ≠ _
    rw [h2]; decide

theorem frag_auxOk_mid (opts : Opts) (D : Dom) (T : List (SinkOp × Output)) (ctx : Id) (form : Option Id) (b : Bool)
    (supply : List Id) : AuxOk (frag_mid opts D T ctx form b) { supply := supply } where
  live := rfl
  annot := by intro h hh; cases hh
  annotEl := by intro a ha; cases ha
  xlog := ⟨List.Pairwise.nil, by intro j hj; cases hj⟩

theorem frag_absF_mid (opts : Opts) (D : Dom) (T : List (SinkOp × Output)) (ctx : Id) (form : Option Id) (b : Bool)
    (supply : List Id) :
    absF (frag_mid opts D T ctx form b) { supply := supply }
      = frag_pre (if b then [.inTemplate] else []) form
          { Spec.TreeModes.initialState supply with quirks := dmode opts.quirksMode } := by
  cases b <;> rfl

theorem frag_cfgOf_mid (opts : Opts) (D : Dom) (T : List (SinkOp × Output)) (ctx : Id) (form : Option Id) (b : Bool) :
    cfgOf (frag_mid opts D T ctx form b) = fragCfg opts D ctx := rfl

/-- what is known about the state `s1` after `new_for_fragment` (with the `TreeSink` calls `calls`) -/
def FragStart (opts : Opts) (d : Dom) (ctx : Id) (form : Option Id) (s1 : State) (calls : List Call) : Prop :=
  TI s1 ∧ MInv s1 ∧ cfgOf s1 = fragCfg opts d ctx ∧ TBSafe.Ext d s1.dom ∧
    ∃ ids, ∀ rest, ∃ x1, AuxOk s1 x1 ∧ x1.supply = rest ∧ x1.outs = [] ∧ x1.stopped = false ∧
      Spec.TreeModes.fragmentState (cfgOf s1) (dmode opts.quirksMode) form (ids ++ rest) = .ok (absF s1 x1) ∧
      ∀ tc, TcOk s1.dom tc → flatCalls (edits2 calls) = flatCalls (x1.fullLog.map (opCall tc))

/-- **`TreeBuilder::new_for_fragment` implements steps 2, 6–12 of the fragment parsing algorithm** -/
theorem pc_newForFragment (opts : Opts) (d : Dom) (ctx : Id) (form : Option Id)
    (hctx : d.isElement ctx = true)
    (hform : ∀ f, form = some f → d.isElement f = true ∧ nameOf d f = ⟨nsHtml, "form".toList⟩) :
    PC (newForFragment ctx form) (fragInit opts d) (fun _ s1 calls => FragStart opts d ctx form s1 calls) := by
  have hti : ∀ (a : Unit) s', (newForFragment ctx form).run (fragInit opts d) = .ok (a, s') → TI s' :=
    ((@H5V.Props.C04TB.sat_iff H5V.Props.C04TB.allowAll _ _ _ _).mp
      (@TBSafe.sat_newForFragment H5V.Props.C04TB.allowAll ctx form _ (TBSafe.fresh_init_dom opts d)
        (isEl_iff.mpr hctx)
        (fun f hf => ⟨isEl_iff.mpr (hform f hf).1, by rw [nm_eq_nameOf]; exact (hform f hf).2⟩))).1
  refine pc_conseq (pc_and_run hti ?_) (fun _ s1 calls _ h => (⟨h.1, h.2⟩ : FragStart opts d ctx form s1 calls))
  unfold newForFragment
  refine pc_seq (frag_pc_getDocument _) ?_
  rintro doc sa ca hea ⟨hdoc, hsa, hca⟩
  subst hdoc
  refine pc_seq (PC.of_tot (tot_elemName sa ctx)) ?_
  rintro n sb cb heb ⟨⟨hn, _⟩, hsb, hcb⟩
  have hsab := hsa.trans hsb
  obtain ⟨D, T, hD⟩ : ∃ D T, sb = { fragInit opts d with dom := D, traceRev := T } := ⟨sb.dom, sb.traceRev, hsab⟩
  subst hD
  have hextA : TBSafe.Ext d sa.dom := hea.ext
  have hextD : TBSafe.Ext d D := (hea.trans heb).ext
  have hctxD : D.isElement ctx = true := isElement_ext hextD hctx
  have hformD : ∀ f, form = some f → D.isElement f = true ∧ nameOf D f = ⟨nsHtml, "form".toList⟩ := by
    intro f hf
    obtain ⟨h1, h2⟩ := hform f hf
    exact ⟨isElement_ext hextD h1, by rw [nameOf_ext hextD h1]; exact h2⟩
  have hnD : n = nameOf D ctx := by
    rw [hn, nameOf_ext hextA hctx, nameOf_ext hextD hctx]
  dsimp only
  refine pc_seq (pc_modS (Q := fun _ s' c => s' = frag_mid opts D T ctx form (n.ns == nsHtml && isName n.loc "template") ∧ c = [])
    rfl rfl ⟨rfl, rfl⟩) ?_
  rintro _ sM cM heM ⟨hsM, hcM⟩
  subst hsM hcM
  generalize hb : (n.ns == nsHtml && isName n.loc "template") = b
  have hmM := frag_minv_mid opts D T ctx form b hctxD hformD
  refine pc_seq (pc_createRoot_bare hmM) ?_
  rintro _ s2 c2 he2 ⟨a, -, -, -, -, -, htr1⟩
  refine pc_conseq (pc_resetAndSetMode htr1.1) ?_
  rintro _ s3 c3 he3 ⟨-, htr2⟩
  obtain ⟨hm3, hc3, hext3, ids, _, f⟩ := htr1.trans htr2
  have hcfg3 : cfgOf s3 = fragCfg opts D ctx := hc3
  have hcfgd : fragCfg opts D ctx = fragCfg opts d ctx := by
    unfold fragCfg; rw [elemOf_ext hextD hctx, ipOfDom_ext hextD hctx]
  refine ⟨hm3, hcfg3.trans hcfgd, hextD.trans hext3, ids, fun rest => ?_⟩
  obtain ⟨x', l, x1, r1, r2⟩ := f { supply := ids ++ rest } rest (frag_auxOk_mid opts D T ctx form b _) rfl
  refine ⟨x', l.aux, l.supply, l.outs, l.aux.live, ?_, ?_⟩
  · have hcM : cfgOf (frag_mid opts D T ctx form b) = cfgOf s3 := hc3.symm
    rw [htr1.2.1, hcM] at r2
    rw [hcM, frag_absF_mid] at r1
    have hbb : b = (elemOf D ctx).name.isHtml "template" := by
      rw [← hb, hnD]; exact (frag_isTemplate _).symm
    rw [hbb] at r1
    exact frag_fragmentState_of (cfgOf s3) (elemOf D ctx) (by rw [hcfg3]; rfl) _ form _ _ _ r1 r2
  · intro tc htc
    obtain ⟨ops, e1, k1⟩ := l.log
    have e0 : ({ supply := ids ++ rest } : Aux).fullLog = [] := rfl
    have ea : edits2 ca = [] := by rw [← edits2_edits, hca]; rfl
    have eb : edits2 cb = [] := by rw [← edits2_edits, hcb]; rfl
    rw [e1, e0, List.nil_append, edits2_append, edits2_append, ea, eb, List.nil_append, List.nil_append]
    exact k1 tc htc

/-- the same, in the literal form: `TI`, `MInv`, and the specification's `fragmentState` for the
configuration `cfgOf s1` of the state reached -/
theorem pc_newForFragment' (opts : Opts) (d : Dom) (ctx : Id) (form : Option Id)
    (hctx : d.isElement ctx = true)
    (hform : ∀ f, form = some f → d.isElement f = true ∧ nameOf d f = ⟨nsHtml, "form".toList⟩) :
    PC (newForFragment ctx form) (fragInit opts d) (fun _ s1 calls => TI s1 ∧ MInv s1 ∧
      ∃ ids, ∀ rest, ∃ x1, AuxOk s1 x1 ∧ x1.supply = rest ∧ x1.outs = [] ∧ x1.stopped = false ∧
        Spec.TreeModes.fragmentState (cfgOf s1) (dmode opts.quirksMode) form (ids ++ rest) = .ok (absF s1 x1) ∧
        ∀ tc, TcOk s1.dom tc → flatCalls (edits2 calls) = flatCalls (x1.fullLog.map (opCall tc))) :=
  pc_conseq (pc_newForFragment opts d ctx form hctx hform) (fun _ _ _ _ h => ⟨h.1, h.2.1, h.2.2.2.2⟩)

/-! ### the whole fragment run -/

/-- what the headline says about one successful run `parse_fragment` of the model (the sink `d`, the context
element `ctx`, the form element `form`): `res` the answers to the tokenizer (newest first), `s'` the final
state, `calls` ALL the `TreeSink` calls (those of `new_for_fragment`, of the tokens, of `end`) -/
def FragAgrees (opts : Opts) (d : Dom) (ctx : Id) (form : Option Id) (toks : List (TokToken × Nat))
    (res : List SinkResult) (s' : State) (calls : List Call) : Prop :=
  ∃ ids, ∀ rest, ∃ σ : SState,
    -- with the nodes `ids` the sink handed out (and any further supply `rest`), the specification's fragment
    -- run over the same tokens succeeds for every sufficient amount of reprocessing fuel, …
    (∃ F, ∀ fuel, F ≤ fuel →
      parseFragmentDev (fragCfg opts d ctx) fuel (dmode opts.quirksMode) form (ids ++ rest) (specToks toks) = .ok σ ∧
      -- (the UNMODIFIED specification: the Assert of "in cell" never fails)
      Spec.TreeModes.parseFragment (fragCfg opts d ctx) fuel (dmode opts.quirksMode) form (ids ++ rest) (specToks toks) = .ok σ) ∧
    σ.p.supply = rest ∧
    -- … makes the same DOM operations in the same order (text insertions compared character by character) …
    (∀ tc, TcOk s'.dom tc → flatCalls (edits2 calls) = flatCalls (σ.fullLog.map (opCall tc))) ∧
    -- … leaves the document in the same mode, ends in the same insertion mode …
    σ.quirks = dmode s'.quirksMode ∧ σ.mode = imode s'.mode ∧
    -- … and gives the tokenizer the same answers
    res.reverse.filterMap resAnswer = σ.outs.filterMap outAnswer

theorem fragAgrees_of_sims (hmode : ∀ m, ModeSim m) (hchar : ∀ m, ModeCharSim m) (hfor : ForeignSim)
    (hforc : ForeignCharSim) (hdt : DoctypeInitialSim) (opts : Opts) (d : Dom) (ctx : Id) (form : Option Id)
    (hctx : d.isElement ctx = true)
    (hform : ∀ f, form = some f → d.isElement f = true ∧ nameOf d f = ⟨nsHtml, "form".toList⟩)
    (toks : List (TokToken × Nat))
    (hresp : ∀ s1, (newForFragment ctx form).run (fragInit opts d) = .ok ((), s1) → Respects2 s1 toks) :
    PC (H5V.Props.C04TB.parseFragment ctx form toks) (fragInit opts d) (FragAgrees opts d ctx form toks) := by
  unfold H5V.Props.C04TB.parseFragment
  refine pc_seq (pc_with_run (pc_newForFragment opts d ctx form hctx hform)) ?_
  rintro u s0 c0 he0 ⟨⟨ht0, hm0, hcfg0, -, ids0, f0⟩, hrun⟩
  unfold parseRest
  -- the state `new_for_fragment` leaves satisfies the invariant of the specification's run
  have hinv0 : XInv s0 := by
    intro x hx _
    obtain ⟨x0, hx0, _, _, _, hfs, _⟩ := f0 []
    exact good_absF_indep ht0 hx0 hx (H5V.Lemmas.ModesInv.good_fragmentState (cfgOf_edition s0) hfs).1
  refine pc_seq (pc_processTokens hmode hchar hfor hforc hdt toks [] s0 ht0 hm0 hinv0 (hresp s0 hrun)) ?_
  rintro res s1 c1 he1 ⟨_, hm1, hc1, hext1, ids, f⟩
  refine pc_seq (PC.of_tot (tot_finishTB s1)) ?_
  rintro _ s2 c2 he2 ⟨hs2, hc2⟩
  refine pc_pure ⟨ids0 ++ ids, fun rest => ?_⟩
  obtain ⟨x0, hx0, hsup0, houts0, -, hfs, hlog0⟩ := f0 (ids ++ rest)
  obtain ⟨x', os, _, hsup, ⟨ops, e1, k1⟩, ho, hfb, ⟨F, hF⟩, hstd⟩ := f x0 rest hx0 hsup0
  obtain ⟨_, F', hF'⟩ := hstd (fun _ => (H5V.Lemmas.ModesInv.good_fragmentState (cfgOf_edition s0) hfs).1)
  have hq2 : s2.quirksMode = s1.quirksMode := by rw [hs2]
  have hm2 : s2.mode = s1.mode := by rw [hs2]
  refine ⟨absF s1 x', ⟨max F F', fun fuel hfu => ⟨?_, ?_⟩⟩, hsup, ?_, by rw [hq2]; rfl, by rw [hm2]; rfl, ?_⟩
  · simp only [parseFragmentDev]
    rw [List.append_assoc, ← hcfg0, hfs]
    exact hF fuel (by omega)
  · simp only [Spec.TreeModes.parseFragment]
    rw [List.append_assoc, ← hcfg0, hfs]
    exact hF' fuel (by omega)
  · intro tc htc
    have ec2 : edits2 c2 = [] := by rw [← edits2_edits, hc2]; rfl
    rw [absF_fullLog, e1, List.map_append, flatCalls_append, List.append_nil, edits2_append, edits2_append, ec2,
      List.append_nil, flatCalls_append, hlog0 tc (tcOk_of_ext htc (he1.trans he2).ext),
      k1 tc (tcOk_of_ext htc he2.ext)]
  · show res.reverse.filterMap resAnswer = x'.outs.filterMap outAnswer
    rw [hfb, ho, houts0]
    rfl

/-- the hypotheses about the sink are satisfiable: the sink `fragDom` of C04 with its `td` element as context -/
example : H5V.Props.C04TB.fragDom.isElement 1 = true ∧
    ∀ f, (none : Option Id) = some f → H5V.Props.C04TB.fragDom.isElement f = true ∧
      nameOf H5V.Props.C04TB.fragDom f = ⟨nsHtml, "form".toList⟩ :=
  ⟨isEl_iff.mp H5V.Props.C04TB.fragDom_ctx, fun _ h => by cases h⟩

end H5V.Lemmas.HtmlTBModes
