import H5V.Lemmas.HtmlTokSpecCRNum4
set_option linter.unusedSimpArgs false
set_option linter.unusedVariables false
/-!
# C01 simulation — layer L3a, character references (start and numeric), part 5: the code point of a
numeric reference (`finish_numeric` against the numeric character reference end state; never U+0000)
and one step of the model in the sub-state `NumericSemicolon`
-/
namespace H5V.Lemmas.HtmlTokSpec
open H5V.Model.HtmlTok
open H5V.Spec.HtmlTokenizer (St Tok Emit Tree Switch Ctl ReturnSt normalizeNewlinesFrom)

/-! ## the code point of a numeric reference -/

theorem crnum_toNat_ofNat_valid (k : Nat) (h : isValidScalar k = true) : (Char.ofNat k).toNat = k := by
  have hv : k.isValidChar := by
    unfold isValidScalar at h
    simp only [Bool.or_eq_true, decide_eq_true_eq, Bool.and_eq_true] at h
    unfold Nat.isValidChar
    omega
  simp [Char.ofNat, hv, Char.toNat, Char.ofNatAux]

theorem crnum_ofNat_ne_nul (k : Nat) (h : isValidScalar k = true) (h0 : k ≠ 0) : Char.ofNat k ≠ '\x00' := by
  intro e
  have := crnum_toNat_ofNat_valid k h
  rw [e] at this
  simp at this
  exact h0 this.symm

/-- the replacements of the C1 table are non-zero scalar values -/
theorem crnum_c1_ok : ∀ i ∈ List.range 32,
    (match H5V.Spec.C1.table[i]? with
     | some (some r) => decide (r ≠ 0) && isValidScalar r
     | _ => true) = true := by decide

/-- the standard's code point is never U+0000 and always a scalar value -/
theorem crnum_specNumeric_ok (v : Nat) :
    H5V.Props.C14.specNumeric v ≠ 0 ∧ isValidScalar (H5V.Props.C14.specNumeric v) = true := by
  unfold H5V.Props.C14.specNumeric
  by_cases h1 : v = 0
  · rw [if_pos h1]; exact ⟨by decide, by decide⟩
  · rw [if_neg h1]
    by_cases h2 : v > 0x10FFFF
    · rw [if_pos h2]; exact ⟨by decide, by decide⟩
    · rw [if_neg h2]
      by_cases h3 : 0xD800 ≤ v ∧ v ≤ 0xDFFF
      · rw [if_pos h3]; exact ⟨by decide, by decide⟩
      · rw [if_neg h3]
        have hvv : isValidScalar v = true := by
          unfold isValidScalar; simp; omega
        by_cases h4 : 0x80 ≤ v ∧ v ≤ 0x9F
        · rw [if_pos h4]
          have := crnum_c1_ok (v - 0x80) (by simp; omega)
          cases hx : H5V.Spec.C1.table[v - 0x80]? with
          | none => exact ⟨h1, hvv⟩
          | some y =>
            cases y with
            | none => exact ⟨h1, hvv⟩
            | some r =>
              rw [hx] at this
              simp only [Bool.and_eq_true, decide_eq_true_eq] at this
              exact this
        · rw [if_neg h4]; exact ⟨h1, hvv⟩

theorem crnum_char_ne_nul (v : Nat) : Char.ofNat (H5V.Props.C14.specNumeric v) ≠ '\x00' :=
  crnum_ofNat_ne_nul _ (crnum_specNumeric_ok v).2 (crnum_specNumeric_ok v).1

/-- `finish_numeric` under the accumulator invariant -/
theorem crnum_finishNumericStatus (o : Opts) (m : Mach) (inp : Str) (cr : CharRefSt) (v : Nat) (h : NumRel cr v) :
    finishNumericStatus o m inp cr =
      .ok ((finishNumeric o m cr).1, inp, cr, .done [Char.ofNat (H5V.Props.C14.specNumeric v)]) := by
  have h2 := H5V.Props.C14.C14_finish_numeric o m cr v (by
      unfold NumRel at h
      cases hb : cr.numTooBig with
      | true => simp [hb] at h ⊢; exact h
      | false => simp [hb] at h ⊢; omega) (by
      unfold NumRel at h
      cases hb : cr.numTooBig with
      | true => simp [hb] at h; omega
      | false => simp [hb] at h; intro _; exact h.1)
  unfold finishNumericStatus
  cases hfn : finishNumeric o m cr with
  | mk m1 r =>
    rw [hfn] at h2
    simp only at h2
    subst h2
    rfl


/-! ## the end of a numeric reference -/

/-- from the numeric character reference end state: one step of the specification against
`finish_numeric` + `process_char_ref`; `m0` is the model's machine with the parse errors so far -/
theorem crnum_finish (o : Opts) (ho : o.exactErrors = false) (tree : Tree) {m : Mach} {t : Tok} {cr : CharRefSt}
    (c : CRCtx m t cr) (hnr : NumRel cr t.characterReferenceCode) (m0 : Mach) (he : ErrOnly m0 m) (inp1 : Str)
    (ht : TInv ((delivM (finishNumeric o m0 cr).1
      [Char.ofNat (H5V.Props.C14.specNumeric t.characterReferenceCode)]).setCharRef none)) :
    Reach tree (crTok t .numericCharacterReferenceEnd t.temporaryBuffer t.characterReferenceCode)
      (normalizeNewlinesFrom false inp1)
      (fun t' rest' => Rel ((delivM (finishNumeric o m0 cr).1
        [Char.ofNat (H5V.Props.C14.specNumeric t.characterReferenceCode)]).setCharRef none) inp1 t' rest') := by
  refine Reach.stepEq (crnum_sstep_end tree _ _ rfl) (Reach.done ?_)
  have c' := c.errOnly ((crnum_finishNumeric_errOnly o ho m0 cr).trans he)
  have := c'.done [Char.ofNat (H5V.Props.C14.specNumeric t.characterReferenceCode)] [] inp1
    (H5V.Props.C14.specNumeric t.characterReferenceCode) (by simp) ht
  simpa [crnum_codePoint_eq] using this

theorem crnum_finishNumeric_ret (o : Opts) (ho : o.exactErrors = false) {m : Mach} {t : Tok} {cr : CharRefSt}
    (c : CRCtx m t cr) (m0 : Mach) (he : ErrOnly m0 m) : isRet (finishNumeric o m0 cr).1.state = true :=
  (c.errOnly ((crnum_finishNumeric_errOnly o ho m0 cr).trans he)).ret

/-! ### the sub-state `NumericSemicolon` -/

theorem crnum_numericSemicolon (o : Opts) (ho : o.exactErrors = false) (pol : Pol) (tree : Tree)
    (m : Mach) (inp : Str) (t : Tok) (rest : Str) (h : RelCore m inp t rest) (cr : CharRefSt)
    (hcr : m.charRef = some cr) (hst : cr.state = .numericSemicolon) :
    StepOk tree t rest (stepCharRef o m inp cr) := by
  obtain ⟨c, hd, hrest⟩ := crnum_ctx h hcr
  rw [hst] at hd
  obtain ⟨hnb, hts, hnr, hdg⟩ := hd
  rw [hnb] at hrest
  simp only [Option.getD_none, List.nil_append] at hrest
  cases inp with
  | nil => rw [crnum_stuck o hcr c.rcn]; exact h.toRel
  | cons c0 inp' =>
    by_cases hsc : c0 = ';'
    · subst hsc
      have hstep : stepCharRef o m (';' :: inp') cr =
          .cont ((delivM (finishNumeric o m cr).1
            [Char.ofNat (H5V.Props.C14.specNumeric t.characterReferenceCode)]).setCharRef none) inp' := by
        unfold stepCharRef crStep
        simp only [crnum_peek _ c.rcn, List.head?_cons, hst, if_true, crnum_discard _ c.rcn, List.tail_cons,
          crnum_finishNumericStatus o m inp' cr _ hnr]
        exact crnum_ofSig_deliver (crnum_finishNumeric_ret o ho c m (ErrOnly.refl m)) _ (by simp)
          (by simpa using crnum_char_ne_nul _) _
      rw [hstep]
      have ht := crnum_step_tinv o pol _ c.tinv hcr _ _ (by rw [hstep]; rfl)
      rw [crnum_norm_plain _ _ (by decide) (by decide)] at hrest
      refine Reach.stepEq (by rw [hrest]; exact crnum_spec_semi tree t cr _ hts) ?_
      rw [hrest, List.drop_one, List.tail_cons]
      exact crnum_finish o ho tree c hnr m (ErrOnly.refl m) inp' ht
    · have hstep : stepCharRef o m (c0 :: inp') cr =
          .cont ((delivM (finishNumeric o (emitErr m "Semicolon missing after numeric character reference") cr).1
            [Char.ofNat (H5V.Props.C14.specNumeric t.characterReferenceCode)]).setCharRef none) (c0 :: inp') := by
        unfold stepCharRef crStep
        simp only [crnum_peek _ c.rcn, List.head?_cons, hst, hsc, if_false,
          crnum_finishNumericStatus o _ (c0 :: inp') cr _ hnr]
        exact crnum_ofSig_deliver (crnum_finishNumeric_ret o ho c _ (ErrOnly.emitErr m _)) _ (by simp)
          (by simpa using crnum_char_ne_nul _) _
      rw [hstep]
      have ht := crnum_step_tinv o pol _ c.tinv hcr _ _ (by rw [hstep]; rfl)
      have hne : rest.head? ≠ some ';' := by
        obtain ⟨r, hr⟩ := crnum_norm_head c0 inp'
        rw [hrest, hr]
        simp only [List.head?_cons, ne_eq, Option.some.injEq]
        rcases crnum_foldCh_cases c0 with ⟨_, e⟩ | ⟨_, e⟩ <;> rw [e]
        · decide
        · exact hsc
      refine Reach.stepEq (crnum_spec_other tree t cr rest hts hdg hne) ?_
      rw [List.drop_zero, hrest]
      exact crnum_finish o ho tree c hnr _ (ErrOnly.emitErr m _) (c0 :: inp') ht

end H5V.Lemmas.HtmlTokSpec
