import H5V.Lemmas.HtmlTBContractRun
/-!
# TreeSink contract for the HTML tree builder, part 10: the constructors `TreeBuilder::new`, `new_for_fragment`

`new_for_fragment` calls `create_root` and `reset_insertion_mode` while the insertion mode is still Initial; both are
independent of the mode (`MI`), so their specifications are transported from a state with a late mode.
-/
namespace H5V.Lemmas.TBC
open H5V.Model.HtmlTB
open H5V.Model.Dom (Id QualName Attr NodeOrText SinkOp Output ElementFlags QuirksMode Dom NodeData Node Contract)
open H5V.Lemmas.Dom
open H5V.Props.C20 (Inv Run)
open H5V.Lemmas.TBSafe (IsEl nm sigOf Ext apply_ext)

variable {d0 : Dom}

/-! ### computations that neither read nor write the insertion mode -/

def setM (x : Mode) (s : State) : State := { s with mode := x }

/-- `m` commutes with a change of the insertion mode -/
def MI {α : Type} (m : M α) : Prop :=
  ∀ s x, m (setM x s) = (m s).map (fun p => (p.1, setM x p.2))

theorem mi_pure {α : Type} (a : α) : MI (pure a : M α) := fun _ _ => rfl

theorem mi_throw {α : Type} (e : String) : MI (throw e : M α) := fun _ _ => rfl

theorem mi_panicAt {α : Type} {cls site text : String} : MI (panicAt cls site text : M α) := fun _ _ => rfl

theorem mi_bind {α β : Type} {m : M α} {f : α → M β} (h1 : MI m) (h2 : ∀ a, MI (f a)) : MI (m >>= f) := by
  intro s x
  show (StateT.bind m f) (setM x s) = ((StateT.bind m f) s).map _
  unfold StateT.bind
  rw [h1 s x]
  cases hm : m s with
  | error e => rfl
  | ok p =>
    obtain ⟨a, s'⟩ := p
    exact h2 a s' x

theorem mi_getS_bind {β : Type} {f : State → M β} (h : ∀ s x, f (setM x s) = f s) (h2 : ∀ s0, MI (f s0)) :
    MI (getS >>= f) := by
  intro s x
  show f (setM x s) (setM x s) = (f s s).map _
  rw [h s x]
  exact h2 s s x

theorem mi_sink (op : SinkOp) : MI (sink op) := by
  intro s x
  unfold sink setM
  dsimp only
  cases s.dom.apply op with
  | error e => rfl
  | ok p => rfl

theorem mi_modS {g : State → State} (h : ∀ s x, g (setM x s) = setM x (g s)) : MI (modS g) := by
  intro s x
  show Except.ok ((), g (setM x s)) = _
  rw [h]; rfl

theorem mi_ite {α : Type} {c : Prop} [Decidable c] {a b : M α} (h1 : MI a) (h2 : MI b) :
    MI (if c then a else b) := by
  by_cases hc : c
  · rw [if_pos hc]; exact h1
  · rw [if_neg hc]; exact h2

theorem mi_sinkUnit (op : SinkOp) : MI (sinkUnit op) := mi_bind (mi_sink op) (fun _ => mi_pure _)

theorem mi_sinkNode (op : SinkOp) : MI (sinkNode op) := by
  unfold sinkNode
  refine mi_bind (mi_sink op) (fun o => ?_)
  cases o <;> first | exact mi_pure _ | exact mi_throw _

theorem mi_elemName (h : Id) : MI (elemName h) := by
  unfold elemName
  refine mi_bind (mi_sink _) (fun o => ?_)
  cases o <;> first | exact mi_pure _ | exact mi_throw _

theorem mi_createRoot (attrs : List Attr) : MI (createRoot attrs) := by
  unfold createRoot createElementWithFlags push
  refine mi_bind (mi_sinkNode _) (fun elem => ?_)
  refine mi_bind (mi_modS (fun _ _ => rfl)) (fun _ => ?_)
  exact mi_getS_bind (fun _ _ => rfl) (fun _ => mi_sinkUnit _)

theorem mi_resetLoop : ∀ (l : List Id) (n : Nat), MI (resetLoop l n) := by
  intro l
  induction l with
  | nil => intro n; unfold resetLoop; exact mi_pure _
  | cons node rest ih =>
    intro n
    unfold resetLoop
    refine mi_getS_bind (fun _ _ => rfl) (fun s0 => ?_)
    dsimp only
    refine mi_bind (mi_elemName _) (fun nm => ?_)
    refine mi_ite (ih _) ?_
    refine mi_ite (mi_pure _) ?_
    refine mi_ite (mi_pure _) ?_
    refine mi_ite (mi_pure _) ?_
    refine mi_ite (mi_pure _) ?_
    refine mi_ite (mi_pure _) ?_
    refine mi_ite (mi_pure _) ?_
    refine mi_ite ?_ ?_
    · cases s0.templateModes.getLast? with
      | none => exact mi_panicAt
      | some m => exact mi_pure _
    refine mi_ite (mi_ite (mi_pure _) (ih _)) ?_
    refine mi_ite (mi_pure _) ?_
    refine mi_ite (mi_pure _) ?_
    refine mi_ite ?_ (ih _)
    cases s0.headElem with
    | none => exact mi_pure _
    | some _ => exact mi_pure _

theorem mi_resetInsertionMode : MI resetInsertionMode := by
  unfold resetInsertionMode
  exact mi_getS_bind (fun _ _ => rfl) (fun s0 => mi_resetLoop _ _)

/-- transport of a `SatC` fact along a change of the insertion mode -/
theorem satc_of_mi {α : Type} {m : M α} (hm : MI m) {s : State} {x : Mode} {Q : α → State → Prop}
    (h : SatC m s Q) : SatC m (setM x s) (fun a s' => ∃ s0, Q a s0 ∧ s' = setM x s0) := by
  unfold SatC at h ⊢
  rw [hm s x]
  cases hr : m s with
  | error e => rw [hr] at h; exact h
  | ok p => obtain ⟨a, s'⟩ := p; rw [hr] at h; exact ⟨s', h, rfl⟩

/-! ### `TreeBuilder::new` -/

theorem pristine_new : ∀ x, Dom.new.isElement x = false ∧ Dom.new.isDoctype x = false := by
  intro x
  cases x with
  | zero => exact ⟨rfl, rfl⟩
  | succ n => exact ⟨rfl, rfl⟩

/-- the state before `TreeBuilder::new` satisfies the Initial-mode invariant -/
theorem ci0_init (opts : Opts) : CI0 Dom.new (State.init opts) :=
  ⟨⟨H5V.Props.C20.inv_new, Run.nil⟩, rfl, rfl, rfl, rfl, rfl, rfl, rfl, rfl, rfl, rfl, pristine_new⟩

theorem ci0_newTB {s : State} (h : CI0 d0 s) : SatC newTB s (fun _ s' => CI0 d0 s') := by
  unfold H5V.Model.HtmlTB.newTB sinkNode
  refine SatC.bind (Q := fun doc s1 => doc = 0 ∧ CI0 d0 s1) ?_ ?_
  · refine SatC.bind (Q := fun o s1 => o = .node 0 ∧ CI0 d0 s1) ?_ ?_
    · refine satc_sink h.d (op := .getDocument) rfl ?_
      intro d' out ha hd
      have ha' : Except.ok (s.dom, Output.node Dom.document) = Except.ok (d', out) := ha
      cases ha'
      exact ⟨rfl, hd, h.mode, h.st, h.af, h.head, h.form, h.ctx, h.docH, h.doc0, h.orig, h.tm, h.pristine⟩
    · rintro o s1 ⟨rfl, h1⟩
      exact satc_pure ⟨rfl, h1⟩
  · rintro doc s1 ⟨rfl, h1⟩
    exact satc_modS ⟨⟨h1.d.inv, h1.d.run⟩, h1.mode, h1.st, h1.af, h1.head, h1.form, h1.ctx, rfl, h1.doc0, h1.orig,
      h1.tm, h1.pristine⟩

/-! ### `TreeBuilder::new_for_fragment` -/

/-- the state of `new_for_fragment` before the root element is created -/
structure FI (d0 : Dom) (s : State) : Prop where
  d : DomI d0 s
  mode : s.mode = .initial
  st : s.openElems = []
  af : s.activeFormatting = []
  head : s.headElem = none
  orig : s.origMode = none
  doc0 : s.dom.dataOf 0 = some .document

theorem FI.sink {s : State} (h : FI d0 s) {op : SinkOp} (hc : Contract s.dom op) :
    SatC (sink op) s (fun o s' => FI d0 s' ∧ Ext s.dom s'.dom ∧ ∃ d', s.dom.apply op = .ok (d', o)) := by
  refine satc_sink h.d hc ?_
  intro d' out ha hd
  exact ⟨⟨hd, h.mode, h.st, h.af, h.head, h.orig, isDoc_kext (apply_kext ha) h.doc0⟩, apply_ext ha, d', ha⟩

/-- a late state from the fragment state -/
theorem FI.toCB {s : State} (h : FI d0 s) (hdoc : s.docHandle = 0)
    (hf : ∀ x, s.formElem = some x → IsEl s.dom x) (hc : ∀ x, s.contextElem = some x → IsEl s.dom x)
    (htm : Mode.initial ∉ s.templateModes) :
    CB d0 (setM .inBody s) ∧ SAnc (setM .inBody s).dom (setM .inBody s).openElems := by
  refine ⟨⟨⟨h.d.inv, h.d.run⟩, ⟨hdoc, h.doc0, ?_, ?_, ?_, ?_, hf, hc, ?_⟩, ⟨(by show Mode.inBody ≠ Mode.initial; decide), ?_, htm⟩⟩, ?_⟩
  · show ∀ x ∈ s.openElems, _; rw [h.st]; intro x hx; cases hx
  · show ∀ x ∈ s.openElems, _; rw [h.st]; intro x hx; cases hx
  · show ∀ x t, _ ∈ s.activeFormatting → _; rw [h.af]; intro x t hx; cases hx
  · show ∀ x, s.headElem = some x → _; rw [h.head]; intro x hx; cases hx
  · show ∀ x, s.headElem = some x → _; rw [h.head]; intro x hx; cases hx
  · show s.origMode ≠ _; rw [h.orig]; intro e; cases e
  · show SAnc s.dom s.openElems; rw [h.st]; exact List.Pairwise.nil

theorem setM_setM (x y : Mode) (s : State) : setM x (setM y s) = setM x s := rfl

theorem setM_self {s : State} {x : Mode} (h : s.mode = x) : setM x s = s := by
  cases s; simp only [setM] at *; subst h; rfl

/-- `create_root(); mode.set(reset_insertion_mode())` from the fragment state -/
theorem satc_fragTail {s3 : State} (h3 : FI d0 s3) (hdoc3 : s3.docHandle = 0)
    (hf3 : ∀ x, s3.formElem = some x → IsEl s3.dom x) (hc3 : ∀ x, s3.contextElem = some x → IsEl s3.dom x)
    (htm3 : Mode.initial ∉ s3.templateModes) :
    SatC (do
      createRoot []
      let m ← resetInsertionMode
      setMode m) s3 (fun _ s' => CB d0 s' ∧ SAnc s'.dom s'.openElems) := by
  obtain ⟨hcb3, hsa3⟩ := h3.toCB hdoc3 hf3 hc3 htm3
  have e3 : s3 = setM .initial (setM .inBody s3) := by rw [setM_setM, setM_self h3.mode]
  rw [e3]
  -- `create_root`
  refine SatC.bind (satc_of_mi (mi_createRoot []) (x := .initial)
    (cp_toCPS (cp_createRoot rfl) _ hcb3 hsa3 (CtxOk.nil _))) ?_
  rintro _ s4 ⟨s40, ⟨hcb4, hsa4, _, _⟩, rfl⟩
  -- `reset_insertion_mode`
  refine SatC.bind (satc_of_mi mi_resetInsertionMode (x := .initial) (satc_resetInsertionMode s40 hcb4)) ?_
  rintro m s5 ⟨s50, ⟨hcb5, hg5, hm⟩, rfl⟩
  have hsa5 : SAnc s50.dom s50.openElems := hsa4.grow hcb4.d.inv.wf hcb4.h.lt hg5
  unfold H5V.Model.HtmlTB.setMode
  refine satc_modS ?_
  exact ⟨hcb5.of_shrink rfl rfl rfl (fun _ hx => hx) (fun _ hx => hx) (fun _ hx => hx) (fun _ hx => hx)
    (fun _ hx => hx) ⟨hm, hcb5.l.orig, hcb5.l.tm⟩, hsa5⟩

/-- **`new_for_fragment`**: from an arena satisfying `Inv`, with a document node at 0, an element as
context and (if given) an element as form owner -/
theorem satc_newForFragment {s : State} (h : FI d0 s) {ctx : Id} {form : Option Id}
    (hctx : IsEl s.dom ctx) (hform : ∀ f, form = some f → IsEl s.dom f) :
    SatC (newForFragment ctx form) s (fun _ s' => CB d0 s' ∧ SAnc s'.dom s'.openElems) := by
  unfold newForFragment sinkNode
  -- `get_document`
  refine SatC.bind (Q := fun doc s1 => doc = 0 ∧ FI d0 s1 ∧ Ext s.dom s1.dom) ?_ ?_
  · refine SatC.bind (Q := fun o s1 => o = .node 0 ∧ FI d0 s1 ∧ Ext s.dom s1.dom) ?_ ?_
    · refine (h.sink (op := .getDocument) rfl).mono ?_
      rintro o s1 ⟨h1, he, d', ha⟩
      have ha' : Except.ok (s.dom, Output.node Dom.document) = Except.ok (d', o) := ha
      cases ha'
      exact ⟨rfl, h1, he⟩
    · rintro o s1 ⟨rfl, h1⟩
      exact satc_pure ⟨rfl, h1⟩
  rintro doc s1 ⟨rfl, h1, he1⟩
  -- `elem_name(context)`
  have hctx1 : IsEl s1.dom ctx := hctx.ext he1
  unfold H5V.Model.HtmlTB.elemName
  refine SatC.bind (Q := fun _ s2 => FI d0 s2 ∧ Ext s.dom s2.dom) ?_ ?_
  · refine SatC.bind (Q := fun _ s2 => FI d0 s2 ∧ Ext s.dom s2.dom) ?_ ?_
    · exact (h1.sink (op := .elemName ctx) (contract_elemName hctx1)).mono
        (fun _ _ h' => ⟨h'.1, he1.trans h'.2.1⟩)
    · rintro o s2 h2
      cases o <;> first | exact satc_pure h2 | exact satc_throw (Or.inl (by decide))
  rintro n s2 ⟨h2, he2⟩
  dsimp only
  refine satc_modS_bind ?_
  refine satc_fragTail ⟨⟨h2.d.inv, h2.d.run⟩, h2.mode, h2.st, h2.af, h2.head, h2.orig, h2.doc0⟩ rfl ?_ ?_ ?_
  · intro x hx; exact (hform x hx).ext he2
  · intro x hx
    have : ctx = x := Option.some.inj hx
    subst this; exact hctx.ext he2
  · show Mode.initial ∉ (if _ then _ else _)
    by_cases hb : (n.ns == nsHtml && isName n.loc "template") = true
    · rw [if_pos hb]; intro e; simp at e
    · rw [if_neg hb]; intro e; cases e

end H5V.Lemmas.TBC
