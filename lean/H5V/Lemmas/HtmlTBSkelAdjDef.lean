import H5V.Lemmas.HtmlTBSkelShapeDom
/-!
C06, "no two adjacent text siblings", part 1: the invariant.

`AdjD d O` relates the arena `d` and the stack of open elements `O`:
* `nat`: no two text nodes are adjacent siblings;
* `ol`: an open element (other than `head` and the table-structure elements, `exm`) has no text node as
  its next sibling — so taking it out of its parent (adoption agency, `<frameset>` replacing `body`)
  cannot bring two text nodes together;
* `pb`, `pbt`: the parent of an open element, if open itself, is lower on the stack (also through
  template contents) — so the current node has no open child, and text appended to it does not land
  behind an open element;
* `tb`: an open element that precedes an open `table` among its siblings is above the table on the
  stack (it was foster-parented) — so text foster-parented before a table does not land behind an
  open element either (what is above a table when text is foster-parented is table structure).
Everything is phrased over child lists; no uniqueness of parents is needed.
-/
namespace H5V.Props.C06
open H5V.Model.Dom hiding Str
open H5V.Model.HtmlTB hiding Str
open H5V.Lemmas.Dom

/-- the open elements the invariant `ol` does not speak about -/
def exm (n : EName) : Bool := constrained n || n == hN "head"

/-- `a` occurs before `b` in `l` -/
def Before (l : List Id) (a b : Id) : Prop := List.Sublist [a, b] l

theorem Before.mono {l l' : List Id} {a b : Id} (h : Before l' a b) (hs : l'.Sublist l) : Before l a b :=
  List.Sublist.trans h hs

theorem Before.mem {l : List Id} {a b : Id} (h : Before l a b) : a ∈ l ∧ b ∈ l :=
  ⟨h.subset (by simp), h.subset (by simp)⟩

theorem before_snoc {l : List Id} {a c : Id} (h : a ∈ l) : Before (l ++ [c]) a c := by
  have h1 : List.Sublist [a] l := List.singleton_sublist.mpr h
  exact List.Sublist.append h1 (List.Sublist.refl [c])

theorem before_mid_pre {pre post : List Id} {a c : Id} (h : a ∈ pre) : Before (pre ++ c :: post) a c := by
  have h1 : List.Sublist [a] pre := List.singleton_sublist.mpr h
  have h2 : List.Sublist [c] (c :: post) := List.Sublist.cons_cons c (List.nil_sublist post)
  exact List.Sublist.append h1 h2

theorem before_mid_post {pre post : List Id} {b c : Id} (h : b ∈ post) : Before (pre ++ c :: post) c b := by
  have h1 : List.Sublist [b] post := List.singleton_sublist.mpr h
  exact (List.Sublist.cons_cons c h1).trans (List.sublist_append_right pre _)

theorem not_before_self {l : List Id} (hn : l.Nodup) (a : Id) : ¬ Before l a a := by
  intro h
  have := h.nodup hn
  simp at this

theorem before_antisymm : ∀ {l : List Id}, l.Nodup → ∀ {a b : Id}, Before l a b → Before l b a → False
  | [], _, a, b, h, _ => by cases h
  | x :: t, hn, a, b, h1, h2 => by
    have hnt := (List.nodup_cons.mp hn).2
    have hxt := (List.nodup_cons.mp hn).1
    unfold Before at h1 h2
    cases h1 with
    | cons _ h1' =>
      cases h2 with
      | cons _ h2' => exact before_antisymm hnt h1' h2'
      | cons_cons _ h2' =>
        -- b = x, [a] <+ t; but [a, b] <+ t puts x in t
        exact hxt (h1'.subset (by simp))
    | cons_cons _ h1' =>
      cases h2 with
      | cons _ h2' => exact hxt (h2'.subset (by simp))
      | cons_cons _ h2' =>
        -- a = x = b
        exact hxt (h1'.subset (by simp))

theorem before_total : ∀ {l : List Id} {a b : Id}, a ∈ l → b ∈ l → a ≠ b → Before l a b ∨ Before l b a
  | [], _, _, h, _, _ => by cases h
  | x :: t, a, b, ha, hb, hab => by
    rcases List.mem_cons.mp ha with rfl | ha'
    · rcases List.mem_cons.mp hb with rfl | hb'
      · exact absurd rfl hab
      · left
        exact List.Sublist.cons_cons _ (List.singleton_sublist.mpr hb')
    · rcases List.mem_cons.mp hb with rfl | hb'
      · right
        exact List.Sublist.cons_cons _ (List.singleton_sublist.mpr ha')
      · rcases before_total ha' hb' hab with h | h
        · exact Or.inl (List.Sublist.cons _ h)
        · exact Or.inr (List.Sublist.cons _ h)

/-- the order of two elements survives in a sublist that keeps both -/
theorem Before.sub {l l' : List Id} {a b : Id} (h : Before l a b) (hn : l.Nodup) (hs : l'.Sublist l)
    (ha : a ∈ l') (hb : b ∈ l') : Before l' a b := by
  have hab : a ≠ b := by
    rintro rfl
    exact not_before_self hn a h
  rcases before_total ha hb hab with h1 | h1
  · exact h1
  · exact absurd (h1.mono hs) (fun h2 => before_antisymm hn h h2)

/-- **the invariant** -/
structure AdjD (d : Dom) (O : List Id) : Prop where
  nat : NoAdjacentText d
  lk : ∀ P e, e ∈ d.childrenOf P → d.parentOf e = some P
  nd : ∀ P, (d.childrenOf P).Nodup
  ol : ∀ e ∈ O, exm (nm d e) = false → ∀ P l1 l2, d.childrenOf P = l1 ++ e :: l2 → headT d.isText l2 = false
  pb : ∀ P e, e ∈ d.childrenOf P → e ∈ O → P ∈ O → Before O P e
  pbt : ∀ T tc e, d.templateContentsOf T = some tc → nm d T = hN "template" → e ∈ d.childrenOf tc → e ∈ O →
    T ∈ O → Before O T e
  tb : ∀ P x y, Before (d.childrenOf P) x y → x ∈ O → y ∈ O → exm (nm d x) = false →
    nm d y = hN "table" → Before O y x

/-- fewer open elements -/
theorem AdjD.sub {d : Dom} {O O' : List Id} (h : AdjD d O) (hn : O.Nodup) (hs : O'.Sublist O) : AdjD d O' :=
  ⟨h.nat, h.lk, h.nd,
   fun e he hx P l1 l2 hc => h.ol e (hs.subset he) hx P l1 l2 hc,
   fun P e hc he hP => (h.pb P e hc (hs.subset he) (hs.subset hP)).sub hn hs hP he,
   fun T tc e htc hT0 hc he hT => (h.pbt T tc e htc hT0 hc (hs.subset he) (hs.subset hT)).sub hn hs hT he,
   fun P x y hc hx hy hxx hyt =>
    (h.tb P x y hc (hs.subset hx) (hs.subset hy) hxx hyt).sub hn hs hy hx⟩

/-- the arena changed without touching child lists, parent pointers of children, text-ness of children,
the names and template contents of open elements -/
theorem AdjD.congr {d d' : Dom} {O : List Id} (h : AdjD d O)
    (hch : ∀ P, d'.childrenOf P = d.childrenOf P)
    (hpar : ∀ P, ∀ x ∈ d.childrenOf P, d'.parentOf x = d.parentOf x)
    (ht : ∀ P, ∀ x ∈ d.childrenOf P, d'.isText x = d.isText x)
    (hnm : ∀ e ∈ O, nm d' e = nm d e)
    (htc : ∀ T ∈ O, d'.templateContentsOf T = d.templateContentsOf T) : AdjD d' O := by
  refine ⟨fun P => ?_, ?_, ?_, ?_, ?_, ?_, ?_⟩
  · rw [hch, noAdj_congr (ht P)]; exact h.nat P
  · intro P e he
    rw [hch] at he
    rw [hpar P e he]; exact h.lk P e he
  · intro P; rw [hch]; exact h.nd P
  · intro e he hx P l1 l2 hc
    rw [hch] at hc
    rw [hnm e he] at hx
    have := h.ol e he hx P l1 l2 hc
    unfold headT at this ⊢
    cases hl : l2.head? with
    | none => rfl
    | some y =>
      rw [hl] at this
      have hy : y ∈ d.childrenOf P := by
        rw [hc]
        have := List.mem_of_head? hl
        simp [this]
      simp only
      rw [ht P y hy]; exact this
  · intro P e hc he hP
    rw [hch] at hc
    exact h.pb P e hc he hP
  · intro T tc e htc' hT0 hc he hT
    rw [hch] at hc
    rw [hnm T hT] at hT0
    rw [htc T hT] at htc'
    exact h.pbt T tc e htc' hT0 hc he hT
  · intro P x y hc hx hy hxx hyt
    rw [hch] at hc
    rw [hnm x hx] at hxx
    rw [hnm y hy] at hyt
    exact h.tb P x y hc hx hy hxx hyt

theorem AdjD.of_nodes {d d' : Dom} {O : List Id} (h : AdjD d O) (hn : d'.nodes = d.nodes) : AdjD d' O :=
  h.congr (fun P => childrenOf_of_nodes hn P) (fun _ x _ => by unfold Dom.parentOf; rw [hn])
    (fun _ x _ => by unfold Dom.isText Dom.dataOf; rw [hn])
    (fun e _ => nm_of_nodes hn e) (fun T _ => by unfold Dom.templateContentsOf Dom.dataOf; rw [hn])

end H5V.Props.C06
