import H5V.Lemmas.HtmlTBSplitText
/-!
C03 lifted to the tree — layer 4b: the fuel-free form `PTC` of `process_to_completion` on queues of
character tokens, its unfolding equation, `Sim`-respect, and the queue lemma (a run token followed by
a queued token = the run token, then the queued token).
-/
namespace H5V.Lemmas.TBSplit
open H5V.Model.Dom (Id QualName Attr NodeOrText SinkOp Output ElementFlags QuirksMode Dom)
open H5V.Model.HtmlTok (TagKind RawKind)
open H5V.Model.HtmlTB
open H5V.Props.C06 (C06_split_run_nonempty C06_split_run_concat)

/-- `process_to_completion` with enough fuel -/
def PTC (t : Token) (more : List Token) : M SinkResult :=
  fun s => processToCompletion (mu s t more + 1) t more s

theorem PTC_of_fuel {s : State} {t : Token} {more : List Token} (hg : Good s) (ht : CT t)
    (hm : ∀ t' ∈ more, CT t') {f : Nat} (hf : mu s t more < f) :
    processToCompletion f t more s = PTC t more s :=
  (ptc_chars_fuel (mu s t more + 1) s t more f (mu s t more + 1) hg ht hm (by omega) (by omega) (by omega)).1

theorem PTC_cont {s : State} {t : Token} {more : List Token} (hg : Good s) (ht : CT t)
    (hm : ∀ t' ∈ more, CT t') {r : SinkResult} {s' : State} (h : PTC t more s = .ok (r, s')) :
    r = .continue_ ∧ Good s' :=
  (ptc_chars_fuel (mu s t more + 1) s t more _ (mu s t more + 1) hg ht hm (by omega) (by omega) (by omega)).2 r s' h

/-- status of a run -/
def cls (w : Bool) : SplitStatus := if w then .whitespace else .notWhitespace

/-- the fuel-free continuation after the dispatch of a character token -/
def KInf (st : SplitStatus) (x : Str) (more : List Token) (r : ProcessResult) : M SinkResult :=
  match r with
  | .done =>
    match more with
    | [] => pure .continue_
    | t2 :: rest => PTC t2 rest
  | .reprocess m t' => fun s1 => PTC t' more { s1 with mode := m }
  | .splitWhitespace buf =>
    match popFrontCharRun buf with
    | none => pure .continue_
    | some (first, w, rest) =>
      PTC (.chars (cls w) first) (if rest.length > 0 then more ++ [.chars .notSplit rest] else more)
  | _ => fun s1 => K (mu s1 (.chars st x) more) (.chars st x) more r s1

/-- **unfolding** -/
theorem PTC_unfold {s : State} (hg : Good s) (st : SplitStatus) {x : Str} (hx : x ≠ []) {more : List Token}
    (hm : ∀ t' ∈ more, CT t') :
    PTC (.chars st x) more s = (D (.chars st x) >>= KInf st x more) s := by
  show processToCompletion (mu s (.chars st x) more + 1) (.chars st x) more s = _
  rw [ptc_succ, bind_apply, bind_apply]
  rcases D_chars_step hg st hx with ⟨e, he⟩ | ⟨k, s1, hg1, hk, hd⟩
  · rw [he]
  · rw [hd]
    simp only
    have hlen : 0 < x.length := List.length_pos_iff.mpr hx
    cases k with
    | split =>
      have hst : st = .notSplit := hk
      subst hst
      simp only [finRes, K, KInf]
      cases hpop : popFrontCharRun x with
      | none => rfl
      | some v =>
        obtain ⟨first, isWs, rest⟩ := v
        have hne := C06_split_run_nonempty hpop
        have hcat := (C06_split_run_concat hpop).1
        have hl : first.length + rest.length = x.length := by rw [← hcat, List.length_append]
        simp only []
        refine PTC_of_fuel hg1 ⟨_, first, rfl, hne⟩ ?_ ?_
        · intro t' ht'
          split at ht'
          · rename_i hr
            rcases List.mem_append.mp ht' with h | h
            · exact hm t' h
            · simp at h; subst h
              exact ⟨_, rest, rfl, by intro h0; subst h0; simp at hr⟩
          · exact hm t' ht'
        · have hb : splitBonus (Token.chars (if isWs = true then SplitStatus.whitespace else .notWhitespace) first) = 0 := by
            cases isWs <;> rfl
          have hr := rank_le s1.mode
          have htot : totLen (if rest.length > 0 then more ++ [Token.chars .notSplit rest] else more) =
              totLen more + rest.length := by
            split
            · rw [totLen_append]; simp [totLen, tokLen]
            · have : rest.length = 0 := by omega
              omega
          have hb0 : splitBonus (Token.chars .notSplit x) = 8 := rfl
          show mu s1 (Token.chars (if isWs = true then SplitStatus.whitespace else .notWhitespace) first) _ < _
          simp only [mu, tokLen]
          rw [hb, htot, hb0]
          omega
    | re m' =>
      have hk' : rank m' < rank s.mode := hk
      simp only [finRes, K, KInf, bind_apply, setMode, modS_apply]
      refine PTC_of_fuel (s := { s1 with mode := m' }) ⟨hg1.af, hg1.pend⟩ ⟨st, x, rfl, hx⟩ hm ?_
      simp only [mu]
      omega
    | drop | fa | ffa | body _ | pend =>
      all_goals
        simp only [finRes, K, KInf, Bool.false_eq_true, if_false]
        cases more with
        | nil => rfl
        | cons t2 rest =>
          have ht2 := hm t2 (List.mem_cons_self ..)
          refine PTC_of_fuel hg1 ht2 (fun t' h => hm t' (List.mem_cons_of_mem _ h)) ?_
          have h1 := rank_le s1.mode
          have h2 := splitBonus_le t2
          simp only [mu, totLen, tokLen]
          omega

/-! ### `Sim`-respect on queues of character tokens -/

theorem dPre_resp (st : SplitStatus) : Resp (dPre st) := by
  unfold dPre
  refine respQ_bind (P := fun _ => True) isForeignChars_resp ?_
  intro b _
  refine respQ_ite (fun _ => resp_pure _) (fun _ => ?_)
  refine respQ_getS_bind (fun s _ => respQ_resp (charsPre_ok s.mode st)) (by resp_stable)

theorem D_chars_resp (st : SplitStatus) {x : Str} (hx : x ≠ []) :
    RespQ (fun r => ∃ k, r = finRes k st x) (D (.chars st x)) := by
  rw [D_chars_eq]
  refine respQ_bind (P := fun _ => True) (dPre_resp st) ?_
  intro k _
  exact respQ_weaken (charsFin_resp k st x hx) (fun r hr => ⟨k, hr.eq⟩)

theorem ptc_chars_resp : ∀ (f : Nat) (t : Token) (more : List Token), CT t → (∀ t' ∈ more, CT t') →
    Resp (processToCompletion f t more)
  | 0, _, _, _, _ => by rw [ptc_zero]; exact fuelOut_resp _
  | f + 1, t, more, ht, hm => by
    obtain ⟨st, x, rfl, hx⟩ := ht
    rw [ptc_succ]
    refine respQ_bind (D_chars_resp st hx) ?_
    rintro r ⟨k, rfl⟩
    cases k with
    | split =>
      simp only [finRes, K]
      cases hpop : popFrontCharRun x with
      | none => exact resp_pure _
      | some v =>
        obtain ⟨first, isWs, rest⟩ := v
        simp only []
        refine ptc_chars_resp f _ _ ⟨_, first, rfl, C06_split_run_nonempty hpop⟩ ?_
        intro t' ht'
        split at ht'
        · rename_i hr
          rcases List.mem_append.mp ht' with h | h
          · exact hm t' h
          · simp at h; subst h
            exact ⟨_, rest, rfl, by intro h0; subst h0; simp at hr⟩
        · exact hm t' ht'
    | re m' =>
      simp only [finRes, K]
      exact respQ_bind (P := fun _ => True) (setMode_resp m') (fun _ _ => ptc_chars_resp f _ more ⟨st, x, rfl, hx⟩ hm)
    | drop | fa | ffa | body _ | pend =>
      all_goals
        simp only [finRes, K, Bool.false_eq_true, if_false]
        cases more with
        | nil => exact resp_pure _
        | cons t2 rest =>
          exact ptc_chars_resp f t2 rest (hm t2 (List.mem_cons_self ..)) (fun t' h => hm t' (List.mem_cons_of_mem _ h))

theorem mu_sim {s t : State} (h : Sim s t) (tok : Token) (more : List Token) : mu s tok more = mu t tok more := by
  simp only [mu, h.mode]

theorem PTC_resp {t : Token} {more : List Token} (ht : CT t) (hm : ∀ t' ∈ more, CT t') : Resp (PTC t more) := by
  intro s u hsu
  show RelR _ (processToCompletion (mu s t more + 1) t more s) (processToCompletion (mu u t more + 1) t more u)
  rw [← mu_sim hsu]
  exact ptc_chars_resp _ t more ht hm s u hsu

/-! ### evaluation helpers -/

/-- `Done` becomes `Continue` -/
def toCont : Except String (ProcessResult × State) → Except String (SinkResult × State)
  | .ok (_, s) => .ok (.continue_, s)
  | .error e => .error e

/-- a dispatch that consumes the token, with an empty queue -/
theorem PTC_term {u u0 : State} (hg : Good u) {st : SplitStatus} {y : Str} (hy : y ≠ []) {k : CKind}
    (hd : dPre st u = .ok (k, u0)) (hk : finRes k st y = .done) :
    PTC (.chars st y) [] u = toCont (charsFin k st y u0) := by
  rw [PTC_unfold hg st hy (by simp), D_chars_eq, bind_apply, bind_apply, hd]
  simp only
  obtain ⟨_, hg0⟩ := dPre_post hg hd
  cases hf : charsFin k st y u0 with
  | error e => rfl
  | ok v =>
    obtain ⟨r, u1⟩ := v
    have := ((charsFin_resp k st y hy).post hg0 hf).1.eq
    rw [hk] at this
    subst this
    rfl

/-- a dispatch that reprocesses the token in another mode -/
theorem PTC_re {u u0 : State} (hg : Good u) {st : SplitStatus} {y : Str} (hy : y ≠ []) {more : List Token}
    (hm : ∀ t' ∈ more, CT t') {m' : Mode} (hd : dPre st u = .ok (.re m', u0)) :
    PTC (.chars st y) more u = PTC (.chars st y) more { u0 with mode := m' } := by
  rw [PTC_unfold hg st hy hm, D_chars_eq, bind_apply, bind_apply, hd]
  rfl

/-- a dispatch that splits the token -/
theorem PTC_split {u u0 : State} (hg : Good u) {y : Str} (hy : y ≠ []) {more : List Token}
    (hm : ∀ t' ∈ more, CT t') (hd : dPre .notSplit u = .ok (.split, u0)) :
    PTC (.chars .notSplit y) more u = KInf .notSplit y more (.splitWhitespace y) u0 := by
  rw [PTC_unfold hg _ hy hm, D_chars_eq, bind_apply, bind_apply, hd]
  rfl

theorem dPre_error {u : State} {st : SplitStatus} {e : String} {x : Str} (hg : Good u) (hx : x ≠ [])
    {more : List Token} (hm : ∀ t' ∈ more, CT t') (hd : dPre st u = .error e) :
    PTC (.chars st x) more u = .error e := by
  rw [PTC_unfold hg st hx hm, D_chars_eq, bind_apply, bind_apply, hd]

theorem dPre_eval_false {u : State} {tr : List (SinkOp × Output)} (st : SplitStatus)
    (h : isForeignChars u = .ok (false, withTr u tr)) : dPre st u = charsPre u.mode st (withTr u tr) := by
  unfold dPre
  rw [bind_apply, h]
  simp only [Bool.false_eq_true, if_false]
  rw [bind_apply, getS_apply]

theorem dPre_eval_true {u : State} {tr : List (SinkOp × Output)} (st : SplitStatus)
    (h : isForeignChars u = .ok (true, withTr u tr)) : dPre st u = .ok (.ffa, withTr u tr) := by
  unfold dPre
  rw [bind_apply, h]
  rfl

/-- what `dPre` did -/
theorem dPre_inv {s s0 : State} {st : SplitStatus} {k : CKind} (h : dPre st s = .ok (k, s0)) :
    ∃ tr, (isForeignChars s = .ok (true, withTr s tr) ∧ k = .ffa ∧ s0 = withTr s tr) ∨
      (isForeignChars s = .ok (false, withTr s tr) ∧ charsPre s.mode st (withTr s tr) = .ok (k, s0)) := by
  rcases isForeignChars_run s with ⟨e, he⟩ | ⟨b, tr, hb⟩
  · unfold dPre at h; rw [bind_apply, he] at h; cases h
  · refine ⟨tr, ?_⟩
    cases b with
    | true =>
      rw [dPre_eval_true st hb] at h
      cases h
      exact Or.inl ⟨hb, rfl, rfl⟩
    | false =>
      rw [dPre_eval_false st hb] at h
      exact Or.inr ⟨hb, h⟩

/-! ### the queue lemma -/

/-- **a run token followed by one queued token** -/
theorem PTC_queue : ∀ (n : Nat) (s : State) (st : SplitStatus) (x : Str) (t2 : Token), Good s → x ≠ [] →
    st ≠ .notSplit → CT t2 → rank s.mode < n →
    PTC (.chars st x) [t2] s = (PTC (.chars st x) [] >>= fun _ => PTC t2 []) s
  | 0, _, _, _, _, _, _, _, _, h => by omega
  | n + 1, s, st, x, t2, hg, hx, hst, ht2, hr => by
    have hm2 : ∀ t' ∈ [t2], CT t' := by intro t' h; simp at h; subst h; exact ht2
    rw [bind_apply]
    cases hd : dPre st s with
    | error e =>
      rw [dPre_error hg hx hm2 hd, dPre_error hg hx (by simp) hd]
    | ok v =>
      obtain ⟨k, s0⟩ := v
      obtain ⟨hk, hg0⟩ := dPre_post hg hd
      cases k with
      | split => exact (hst hk).elim
      | re m' =>
        have hk' : rank m' < rank s.mode := hk
        rw [PTC_re hg hx hm2 hd, PTC_re hg hx (by simp) hd]
        have := PTC_queue n { s0 with mode := m' } st x t2 ⟨hg0.af, hg0.pend⟩ hx hst ht2 (by show rank m' < n; omega)
        rw [bind_apply] at this
        exact this
      | drop | fa | ffa | body _ | pend =>
        all_goals
          rw [PTC_term hg hx hd rfl]
          rw [PTC_unfold hg st hx hm2, D_chars_eq, bind_apply, bind_apply, hd]
          simp only
          cases hf : charsFin _ st x s0 with
          | error e => rfl
          | ok v =>
            obtain ⟨r, s1⟩ := v
            have hr := ((charsFin_resp _ st x hx).post hg0 hf).1.eq
            simp only [finRes] at hr
            subst hr
            rfl

end H5V.Lemmas.TBSplit
