import H5V.Lemmas.HtmlTBModesSmall1
import H5V.Lemmas.HtmlTBModesSmall2
import H5V.Lemmas.HtmlTBModesHead
import H5V.Lemmas.HtmlTBModesForeign
import H5V.Lemmas.HtmlTBModesDoctype
import H5V.Lemmas.HtmlTBModesBody1
import H5V.Lemmas.HtmlTBModesBody2
import H5V.Lemmas.HtmlTBModesBody3
import H5V.Lemmas.HtmlTBModesBody4
import H5V.Lemmas.HtmlTBModesBody5
import H5V.Lemmas.HtmlTBModesTableText
/-!
Assembly: the "in body" rule function from its slices, and the simulation of every insertion mode.
-/
namespace H5V.Lemmas.HtmlTBModes
open H5V.Model.HtmlTB
open H5V.Model.Dom (Id SinkOp Output Dom QualName Attr NodeOrText ElementFlags NodeData QuirksMode)
open H5V.Lemmas.HtmlTBAlgo
open H5V.Lemmas.TBSafe (TI HInv SInv Rooted ForeignTop textTok)
open H5V.Spec.TreeAlgo2 (Elem Entry PState Ctx Edit Place)
open H5V.Spec.TreeModes (STok ETok IMode Config Out TokSwitch XOp Op Step Edition)

/-- slice 4 of "in body" (the `input` start tag now agrees for every context element) -/
theorem bodySlice4_full : BodySliceSim (fun t => bodyC1 t || bodyC2 t || bodyC3 t) bodyC4 := bodySlice4

/-- **the "in body" rule function**, non-character tokens, in any state satisfying `MInv` -/
theorem sim_inBody0 (h4 : BodySliceSim (fun t => bodyC1 t || bodyC2 t || bodyC3 t) bodyC4) :
    StepSimTok stepInBody Spec.TreeModes.inBody := by
  intro tok hch hwf s hm
  cases tok with
  | chars st text => cases hch
  | comment d => exact body_comment d s hm
  | nullChar => exact body_nullChar s hm
  | eof => exact body_eof s hm hm.tmodes
  | tag t =>
    by_cases h1 : bodyC1 t = true
    · exact bodySlice1 sim_inHead0 t hwf rfl h1 s hm
    have h1' : bodyC1 t = false := by simpa using h1
    by_cases h2 : bodyC2 t = true
    · exact bodySlice2 t hwf h1' h2 s hm
    have h2' : bodyC2 t = false := by simpa using h2
    by_cases h3 : bodyC3 t = true
    · exact bodySlice3_full t hwf (by simp [h1', h2']) h3 s hm
    have h3' : bodyC3 t = false := by simpa using h3
    by_cases h4' : bodyC4 t = true
    · exact h4 t hwf (by simp [h1', h2', h3']) h4' s hm
    have h4'' : bodyC4 t = false := by simpa using h4'
    exact bodySlice5 t hwf (by simp [h1', h2', h3', h4'']) rfl s hm

theorem sim_inBody : StepSimTok stepInBody Spec.TreeModes.inBody := sim_inBody0 bodySlice4_full

theorem byModeDev_inBody {cfg : Config Id} {σ : SState} (h : σ.mode = .inBody) (tok : STok) :
    byModeDev cfg σ tok = Spec.TreeModes.inBody cfg σ tok := by
  simp [byModeDev, h, Spec.TreeModes.byMode]

theorem modeSim_inBody : ModeSim .inBody := by
  intro tok hch hwf s _ hm hmode _
  refine pc_tokPost_congr (sim_inBody tok hch hwf s hm) ?_
  intro x hx
  exact byModeDev_inBody (by show imode s.mode = .inBody; rw [hmode]; rfl) _

theorem modeCharSim_inBody : ModeCharSim .inBody := by
  intro st text hwf s _ hm hmode hlf hdisp
  have hmσ : imode s.mode = .inBody := by rw [hmode]; rfl
  show PC (stepInBody (.chars st text)) s _
  exact pc_chars_delegate simChars_inBody hwf hm hmσ hlf hdisp (fun σ1 h1 c _ => byModeDev_inBody h1 _)

/-- the table family of insertion modes -/
structure TableSims : Prop where
  inTable : ModeSim .inTable
  inTableC : ModeCharSim .inTable
  inTableText : ModeSim .inTableText
  inTableTextC : ModeCharSim .inTableText
  inCaption : ModeSim .inCaption
  inCaptionC : ModeCharSim .inCaption
  inColumnGroup : ModeSim .inColumnGroup
  inColumnGroupC : ModeCharSim .inColumnGroup
  inTableBody : ModeSim .inTableBody
  inTableBodyC : ModeCharSim .inTableBody
  inRow : ModeSim .inRow
  inRowC : ModeCharSim .inRow
  inCell : ModeSim .inCell
  inCellC : ModeCharSim .inCell

/-- the table family is proved (`HtmlTBModesTable`, `…Table2`, `…Table3`, `…TableText`) -/
theorem tableSims : TableSims where
  inTable := modeSim_inTable sim_inHead0 sim_inBody
  inTableC := modeCharSim_inTable simChars_inBody
  inTableText := modeSim_inTableText'
  inTableTextC := modeCharSim_inTableText
  inCaption := modeSim_inCaption sim_inBody
  inCaptionC := modeCharSim_inCaption simChars_inBody
  inColumnGroup := modeSim_inColumnGroup sim_inHead0 sim_inBody
  inColumnGroupC := modeCharSim_inColumnGroup
  inTableBody := modeSim_inTableBody sim_inHead0 sim_inBody
  inTableBodyC := modeCharSim_inTableBody simChars_inBody
  inRow := modeSim_inRow sim_inHead0 sim_inBody
  inRowC := modeCharSim_inRow simChars_inBody
  inCell := modeSim_inCell sim_inBody
  inCellC := modeCharSim_inCell simChars_inBody

/-- **every insertion mode**, non-character tokens -/
theorem allModeSim (ht : TableSims) : ∀ m, ModeSim m := by
  have hbody := sim_inBody
  have hhead := sim_inHead0
  intro m
  cases m with
  | initial => exact modeSim_initial
  | beforeHtml => exact modeSim_beforeHtml
  | beforeHead => exact modeSim_beforeHead hbody
  | inHead => exact modeSim_inHead
  | inHeadNoscript => exact modeSim_inHeadNoscript hhead hbody
  | afterHead => exact modeSim_afterHead hhead hbody
  | inBody => exact modeSim_inBody
  | text => exact modeSim_text
  | inTable => exact ht.inTable
  | inTableText => exact ht.inTableText
  | inCaption => exact ht.inCaption
  | inColumnGroup => exact ht.inColumnGroup
  | inTableBody => exact ht.inTableBody
  | inRow => exact ht.inRow
  | inCell => exact ht.inCell
  | inTemplate => exact modeSim_inTemplate' hbody
  | afterBody => exact modeSim_afterBody hbody
  | inFrameset => exact modeSim_inFrameset hhead hbody
  | afterFrameset => exact modeSim_afterFrameset hhead hbody
  | afterAfterBody => exact modeSim_afterAfterBody hbody
  | afterAfterFrameset => exact modeSim_afterAfterFrameset hhead hbody

/-- **every insertion mode**, runs of characters -/
theorem allModeCharSim (ht : TableSims) : ∀ m, ModeCharSim m := by
  have hbodyc := simChars_inBody
  have hheadc := simChars_inHead
  intro m
  cases m with
  | initial => exact modeCharSim_initial
  | beforeHtml => exact modeCharSim_beforeHtml
  | beforeHead => exact modeCharSim_beforeHead
  | inHead => exact modeCharSim_inHead
  | inHeadNoscript => exact modeCharSim_inHeadNoscript hheadc
  | afterHead => exact modeCharSim_afterHead
  | inBody => exact modeCharSim_inBody
  | text => exact modeCharSim_text
  | inTable => exact ht.inTableC
  | inTableText => exact ht.inTableTextC
  | inCaption => exact ht.inCaptionC
  | inColumnGroup => exact ht.inColumnGroupC
  | inTableBody => exact ht.inTableBodyC
  | inRow => exact ht.inRowC
  | inCell => exact ht.inCellC
  | inTemplate => exact modeCharSim_inTemplate hbodyc
  | afterBody => exact modeCharSim_afterBody hbodyc
  | inFrameset => exact modeCharSim_inFrameset
  | afterFrameset => exact modeCharSim_afterFrameset
  | afterAfterBody => exact modeCharSim_afterAfterBody hbodyc
  | afterAfterFrameset => exact modeCharSim_afterAfterFrameset hbodyc

end H5V.Lemmas.HtmlTBModes
