import H5V.Lemmas.XmlTBHBase
import H5V.Lemmas.HtmlTBContractKinds
import H5V.Props.C05
/-!
C05 for the handle-level XML tree builder, part 1: the sink-side invariant `Good`, the rule for one
sink call, and what each of the nine `TreeSink` calls the builder makes does to the arena.
(`H5V.Lemmas.TBC.KExt` / `apply_kext` — node kinds never change — is a `Dom`-level fact despite the
file name it lives in.)
-/
namespace H5V.Lemmas.XmlTBH
open H5V.Model.Dom (Id SinkOp Output Dom NodeOrText NodeData Contract QualName Attr ElementFlags)
open H5V.Model.XmlTBH
open H5V.Lemmas.Dom
open H5V.Lemmas.TBC (KExt kindOf apply_kext)
open H5V.Props.C20 (Inv Run)
open H5V.Props.C05 (NotMirror C05_no_panic_partial)

/-! ## kinds -/

theorem isElement_kind (d : Dom) (x : Id) : d.isElement x = ((d.dataOf x).map kindOf == some 4) := by
  unfold Dom.isElement
  cases d.dataOf x with
  | none => rfl
  | some v => cases v <;> rfl

theorem isDoctype_kind (d : Dom) (x : Id) : d.isDoctype x = ((d.dataOf x).map kindOf == some 1) := by
  unfold Dom.isDoctype
  cases d.dataOf x with
  | none => rfl
  | some v => cases v <;> rfl

theorem isDocument_kind (d : Dom) (x : Id) :
    d.dataOf x = some .document ↔ (d.dataOf x).map kindOf = some 0 := by
  cases d.dataOf x with
  | none => simp
  | some v => cases v <;> simp [kindOf]

theorem isElement_kext {d d' : Dom} (hk : KExt d d') {x : Id} (hx : x < d.size) :
    d'.isElement x = d.isElement x := by
  rw [isElement_kind, isElement_kind, hk x hx]

theorem isDoctype_kext {d d' : Dom} (hk : KExt d d') {x : Id} (hx : x < d.size) :
    d'.isDoctype x = d.isDoctype x := by
  rw [isDoctype_kind, isDoctype_kind, hk x hx]

theorem isDocument_kext {d d' : Dom} (hk : KExt d d') {x : Id} (h : d.dataOf x = some .document) :
    d'.dataOf x = some .document := by
  have hx : x < d.size := lt_of_dataOf_some h
  rw [isDocument_kind] at h ⊢
  rw [hk x hx]
  exact h

theorem isContainer_of_isElement {d : Dom} {x : Id} (h : d.isElement x = true) : d.isContainer x = true := by
  unfold Dom.isElement at h
  unfold Dom.isContainer
  cases hd : d.dataOf x with
  | none => simp [hd] at h
  | some v => cases v <;> simp_all

theorem isInsertable_of_isElement {d : Dom} {x : Id} (h : d.isElement x = true) : d.isInsertable x = true := by
  unfold Dom.isElement at h
  unfold Dom.isInsertable
  cases hd : d.dataOf x with
  | none => simp [hd] at h
  | some v => cases v <;> simp_all

theorem isContainer_of_doc {d : Dom} {x : Id} (h : d.dataOf x = some .document) : d.isContainer x = true := by
  unfold Dom.isContainer; rw [h]

/-! ## the sink-side invariant -/

/-- the sink calls made so far, oldest first -/
def calls (s : State) : List SinkOp := s.traceRev.reverse.map Prod.fst

theorem run_snoc {d0 d d' : Dom} {ops : List SinkOp} {op : SinkOp} {out : Output} (hr : Run d0 ops d)
    (hc : Contract d op) (ha : d.apply op = .ok (d', out)) : Run d0 (ops ++ [op]) d' := by
  induction hr with
  | nil => exact Run.cons hc ha Run.nil
  | cons hc1 ha1 _ ih => exact Run.cons hc1 ha1 (ih hc ha)

/-- arena invariant; the recorded calls are a contract-abiding run from the empty arena; the
document handle is the document node; every open element is an element of the arena -/
structure Good (s : State) : Prop where
  inv : Inv s.dom
  run : Run Dom.new (calls s) s.dom
  doc : s.dom.dataOf 0 = some .document
  dh : s.docHandle = 0
  elems : ∀ h ∈ s.opened, s.dom.isElement h = true

/-- only the builder's own fields change -/
theorem Good.ctl {s : State} (h : Good s) {s' : State} (hd : s'.dom = s.dom) (ht : s'.traceRev = s.traceRev)
    (hh : s'.docHandle = s.docHandle) (ho : ∀ x ∈ s'.opened, x ∈ s.opened) : Good s' :=
  ⟨hd ▸ h.inv, by unfold calls; rw [ht, hd]; exact h.run, hd ▸ h.doc, hh ▸ h.dh,
    fun x hx => hd ▸ h.elems x (ho x hx)⟩

/-- the state after the sink call `op` that returned `out` and left the arena `d` -/
abbrev after (s : State) (op : SinkOp) (d : Dom) (out : Output) : State :=
  { s with dom := d, traceRev := (op, out) :: s.traceRev }

theorem Good.step {s : State} (h : Good s) {op : SinkOp} {d : Dom} {out : Output}
    (hc : Contract s.dom op) (ha : s.dom.apply op = .ok (d, out)) : Good (after s op d out) := by
  have hk := apply_kext ha
  refine ⟨H5V.Props.C20.C20_parent_links_step h.inv hc ha, ?_, isDocument_kext hk h.doc, h.dh, ?_⟩
  · show Run Dom.new (((op, out) :: s.traceRev).reverse.map Prod.fst) d
    rw [List.reverse_cons, List.map_append]
    exact run_snoc h.run hc ha
  · intro x hx
    have hx' := h.elems x hx
    show d.isElement x = true
    rw [isElement_kext hk (lt_of_isElement hx')]; exact hx'

/-- **one sink call**: within the contract it returns normally, `Good` is kept, kinds are kept -/
theorem sat_sink {s : State} {op : SinkOp} {Q : Output → State → Prop} (hg : Good s)
    (hc : Contract s.dom op) (hnm : NotMirror op)
    (hq : ∀ d out, s.dom.apply op = .ok (d, out) → Good (after s op d out) → KExt s.dom d →
      Q out (after s op d out)) : Sat (sink op) s Q := by
  obtain ⟨d, out, ha⟩ := C05_no_panic_partial hg.inv hc hnm
  exact ⟨out, _, sink_run ha, hq d out ha (hg.step hc ha) (apply_kext ha)⟩

/-! ## the frame -/

/-- the builder's control fields the invariant speaks about are unchanged -/
structure Ctl (s s' : State) : Prop where
  opened : s'.opened = s.opened
  phase : s'.phase = s.phase
  dts : s'.doctypeSeen = s.doctypeSeen

theorem Ctl.refl (s : State) : Ctl s s := ⟨rfl, rfl, rfl⟩
theorem Ctl.trans {a b c : State} (h1 : Ctl a b) (h2 : Ctl b c) : Ctl a c :=
  ⟨h2.opened.trans h1.opened, h2.phase.trans h1.phase, h2.dts.trans h1.dts⟩
theorem Ctl.after (s : State) (op : SinkOp) (d : Dom) (out : Output) : Ctl s (after s op d out) := ⟨rfl, rfl, rfl⟩

/-- no child of the document is an element / a doctype -/
def NoElemKids (d : Dom) : Prop := ∀ c ∈ d.childrenOf 0, d.isElement c = false
def NoDtKids (d : Dom) : Prop := ∀ c ∈ d.childrenOf 0, d.isDoctype c = false

theorem child_lt {d : Dom} (hi : Inv d) {c p : Id} (hc : c ∈ d.childrenOf p) : c < d.size :=
  child_lt_size ((hi.wf.links c p).mpr hc)

theorem NoElemKids.keep {d d' : Dom} (h : NoElemKids d) (hi : Inv d) (hk : KExt d d')
    (hc : d'.childrenOf 0 = d.childrenOf 0) : NoElemKids d' := by
  intro c hm
  rw [hc] at hm
  rw [isElement_kext hk (child_lt hi hm)]; exact h c hm

theorem NoDtKids.keep {d d' : Dom} (h : NoDtKids d) (hi : Inv d) (hk : KExt d d')
    (hc : d'.childrenOf 0 = d.childrenOf 0) : NoDtKids d' := by
  intro c hm
  rw [hc] at hm
  rw [isDoctype_kext hk (child_lt hi hm)]; exact h c hm

theorem NoElemKids.snoc {d d' : Dom} (h : NoElemKids d) (hi : Inv d) (hk : KExt d d') {c : Id}
    (hc : d'.childrenOf 0 = d.childrenOf 0 ++ [c]) (hn : d'.isElement c = false) : NoElemKids d' := by
  intro x hm
  rw [hc] at hm
  rcases List.mem_append.mp hm with hm | hm
  · rw [isElement_kext hk (child_lt hi hm)]; exact h x hm
  · simp at hm; subst hm; exact hn

theorem NoDtKids.snoc {d d' : Dom} (h : NoDtKids d) (hi : Inv d) (hk : KExt d d') {c : Id}
    (hc : d'.childrenOf 0 = d.childrenOf 0 ++ [c]) (hn : d'.isDoctype c = false) : NoDtKids d' := by
  intro x hm
  rw [hc] at hm
  rcases List.mem_append.mp hm with hm | hm
  · rw [isDoctype_kext hk (child_lt hi hm)]; exact h x hm
  · simp at hm; subst hm; exact hn

/-! ## the calls that leave the nodes alone: `parse_error`, `pop`, `elem_name`, `get_document` -/

/-- control fields and nodes unchanged (only the error list and the trace grow) -/
structure Same (s s' : State) : Prop extends Ctl s s' where
  nodes : s'.dom.nodes = s.dom.nodes

theorem Same.refl (s : State) : Same s s := ⟨Ctl.refl s, rfl⟩
theorem Same.trans {a b c : State} (h1 : Same a b) (h2 : Same b c) : Same a c :=
  ⟨h1.toCtl.trans h2.toCtl, h2.nodes.trans h1.nodes⟩

theorem childrenOf_nodes {d d' : Dom} (h : d'.nodes = d.nodes) (x : Id) : d'.childrenOf x = d.childrenOf x := by
  unfold Dom.childrenOf; rw [h]
theorem dataOf_nodes {d d' : Dom} (h : d'.nodes = d.nodes) (x : Id) : d'.dataOf x = d.dataOf x := by
  unfold Dom.dataOf; rw [h]
theorem isElement_nodes {d d' : Dom} (h : d'.nodes = d.nodes) (x : Id) : d'.isElement x = d.isElement x := by
  unfold Dom.isElement; rw [dataOf_nodes h]
theorem isDoctype_nodes {d d' : Dom} (h : d'.nodes = d.nodes) (x : Id) : d'.isDoctype x = d.isDoctype x := by
  unfold Dom.isDoctype; rw [dataOf_nodes h]

theorem NoElemKids.same {s s' : State} (h : NoElemKids s.dom) (hs : Same s s') : NoElemKids s'.dom := by
  intro c hm
  rw [childrenOf_nodes hs.nodes] at hm
  rw [isElement_nodes hs.nodes]; exact h c hm

theorem NoDtKids.same {s s' : State} (h : NoDtKids s.dom) (hs : Same s s') : NoDtKids s'.dom := by
  intro c hm
  rw [childrenOf_nodes hs.nodes] at hm
  rw [isDoctype_nodes hs.nodes]; exact h c hm

theorem sat_sinkUnit {s : State} {op : SinkOp} {Q : Unit → State → Prop}
    (h : Sat (sink op) s (fun _ s' => Q () s')) : Sat (sinkUnit op) s Q := by
  unfold sinkUnit
  exact Sat.bind (h.mono fun _ s' hq => Sat.pure hq)

theorem sat_parseError {s : State} (hg : Good s) (msg : List Char) :
    Sat (sinkUnit (.parseError msg)) s (fun _ s' => Good s' ∧ Same s s') := by
  refine sat_sinkUnit (sat_sink hg rfl rfl ?_)
  intro d out ha hg' _
  refine ⟨hg', Ctl.after .., ?_⟩
  have : d = s.dom.parseError msg := by
    have : s.dom.apply (.parseError msg) = .ok (s.dom.parseError msg, .unit) := rfl
    rw [this] at ha; cases ha; rfl
  show d.nodes = s.dom.nodes
  rw [this]; rfl

theorem sat_parseErr {s : State} (hg : Good s) (e : H5V.Model.XmlTB.Err) :
    Sat (parseErr e) s (fun _ s' => Good s' ∧ Same s s') := sat_parseError hg _

theorem sat_parseErrs {s : State} (hg : Good s) (es : List H5V.Model.XmlTB.Err) :
    Sat (parseErrs es) s (fun _ s' => Good s' ∧ Same s s') := by
  induction es generalizing s with
  | nil => exact Sat.pure ⟨hg, Same.refl s⟩
  | cons e rest ih =>
    unfold parseErrs
    refine (sat_parseErr hg e).seq ?_
    intro _ s1 ⟨hg1, hs1⟩
    exact (ih hg1).mono fun _ s2 ⟨hg2, hs2⟩ => ⟨hg2, hs1.trans hs2⟩

theorem sat_popOp {s : State} (hg : Good s) {n : Id} (hn : s.dom.isElement n = true) :
    Sat (sinkUnit (.pop n)) s (fun _ s' => Good s' ∧ Same s s') := by
  refine sat_sinkUnit (sat_sink hg hn rfl ?_)
  intro d out ha hg' _
  refine ⟨hg', Ctl.after .., ?_⟩
  have : s.dom.apply (.pop n) = .ok (s.dom, .unit) := rfl
  rw [this] at ha; cases ha; rfl

/-- the expanded name of an element node -/
def nameOf (d : Dom) (h : Id) : Option (List Char × List Char) :=
  match d.dataOf h with
  | some (.element n _ _ _) => some (n.ns, n.loc)
  | _ => none

theorem nameOf_nodes {d d' : Dom} (h : d'.nodes = d.nodes) (x : Id) : nameOf d' x = nameOf d x := by
  unfold nameOf; rw [dataOf_nodes h]

theorem nameOf_isSome {d : Dom} {h : Id} (he : d.isElement h = true) : ∃ p, nameOf d h = some p := by
  unfold Dom.isElement at he
  unfold nameOf
  cases hd : d.dataOf h with
  | none => simp [hd] at he
  | some v => cases v <;> simp_all

theorem apply_elemName {d : Dom} {h : Id} {p : List Char × List Char} (hn : nameOf d h = some p) :
    d.apply (.elemName h) = .ok (d, .name p.1 p.2) := by
  unfold nameOf at hn
  cases hd : d.dataOf h with
  | none => simp [hd] at hn
  | some v =>
    obtain ⟨n, hnode⟩ : ∃ n, d.node? h = some n := by
      unfold Dom.dataOf at hd
      cases hq : d.nodes[h]? with
      | none => simp [hq] at hd
      | some n => exact ⟨n, hq⟩
    have hdata : n.data = v := by
      rw [dataOf_of_node hnode] at hd; cases hd; rfl
    have hget : d.get h = .ok n := get_ok_of hnode
    cases v with
    | element q as tc ip =>
      simp only [hd, Option.some.injEq] at hn
      subst hn
      show d.applyV _ _ (.elemName h) = _
      simp only [Dom.applyV, Dom.elemName, hget, hdata, bind, Except.bind]
    | _ => simp [hd] at hn

theorem sat_elemName {s : State} (hg : Good s) {h : Id} (he : s.dom.isElement h = true) :
    Sat (elemName h) s (fun p s' => Good s' ∧ Same s s' ∧ nameOf s.dom h = some p) := by
  obtain ⟨p, hp⟩ := nameOf_isSome he
  unfold elemName
  refine Sat.bind (sat_sink hg he rfl ?_)
  intro d out ha hg' _
  rw [apply_elemName hp] at ha
  cases ha
  exact Sat.pure ⟨hg', ⟨Ctl.after .., rfl⟩, hp⟩

theorem sat_getDocument {s : State} (hg : Good s) :
    Sat (sinkNode .getDocument) s (fun h s' => h = 0 ∧ Good s' ∧ Same s s') := by
  unfold sinkNode
  refine Sat.bind (sat_sink hg rfl rfl ?_)
  intro d out ha hg' _
  have : s.dom.apply .getDocument = .ok (s.dom, .node 0) := rfl
  rw [this] at ha; cases ha
  exact Sat.pure ⟨rfl, hg', ⟨Ctl.after .., rfl⟩⟩

/-! ## `create_comment`, `create_pi`, `create_element` -/

/-- what a `create_*` call leaves: a fresh node `c` without parent and children; parent links and child
lists as before -/
structure Fresh (d d' : Dom) (c : Id) : Prop where
  ge : d.size ≤ c
  par : d'.parentOf c = none
  kids : d'.childrenOf c = []
  shape : SameShape d d'

theorem fresh_alloc (d : Dom) (data : NodeData) : Fresh d (d.alloc data).1 d.size :=
  ⟨Nat.le_refl _, by rw [parentOf_alloc]; exact parentOf_none_of_ge (Nat.le_refl _),
   by rw [childrenOf_alloc]; exact childrenOf_nil_of_ge (Nat.le_refl _),
   ⟨parentOf_alloc d data, childrenOf_alloc d data⟩⟩

theorem sat_sinkNode {s : State} {op : SinkOp} {Q : Id → State → Prop}
    (h : Sat (sink op) s (fun out s' => ∃ c, out = .node c ∧ Q c s')) : Sat (sinkNode op) s Q := by
  unfold sinkNode
  refine Sat.bind (h.mono ?_)
  rintro _ s' ⟨c, rfl, hq⟩
  exact Sat.pure hq

theorem sat_createComment {s : State} (hg : Good s) (t : List Char) :
    Sat (sinkNode (.createComment t)) s (fun c s' => Good s' ∧ Ctl s s' ∧ KExt s.dom s'.dom ∧
      Fresh s.dom s'.dom c ∧ s'.dom.dataOf c = some (.comment t)) := by
  refine sat_sinkNode (sat_sink hg rfl rfl ?_)
  intro d out ha hg' hk
  have : s.dom.apply (.createComment t) = .ok ((s.dom.alloc (.comment t)).1, .node s.dom.size) := rfl
  rw [this] at ha; cases ha
  exact ⟨_, rfl, hg', Ctl.after .., hk, fresh_alloc _ _, by
    show (s.dom.alloc (.comment t)).1.dataOf s.dom.size = _
    rw [dataOf_alloc]; simp⟩

theorem sat_createPi {s : State} (hg : Good s) (t dd : List Char) :
    Sat (sinkNode (.createPi t dd)) s (fun c s' => Good s' ∧ Ctl s s' ∧ KExt s.dom s'.dom ∧
      Fresh s.dom s'.dom c ∧ s'.dom.dataOf c = some (.pi t dd)) := by
  refine sat_sinkNode (sat_sink hg rfl rfl ?_)
  intro d out ha hg' hk
  have : s.dom.apply (.createPi t dd) = .ok ((s.dom.alloc (.pi t dd)).1, .node s.dom.size) := rfl
  rw [this] at ha; cases ha
  exact ⟨_, rfl, hg', Ctl.after .., hk, fresh_alloc _ _, by
    show (s.dom.alloc (.pi t dd)).1.dataOf s.dom.size = _
    rw [dataOf_alloc]; simp⟩

theorem createElement_fresh (d : Dom) (name : QualName) (attrs : List Attr) (flags : ElementFlags) :
    Fresh d (d.createElement name attrs flags).1 (d.createElement name attrs flags).2 ∧
    ∃ tc, (d.createElement name attrs flags).1.dataOf (d.createElement name attrs flags).2 =
      some (.element name attrs tc flags.mathmlIP) := by
  unfold Dom.createElement
  by_cases ht : flags.template = true
  · simp only [ht, if_true]
    have h1 := fresh_alloc d .document
    have h2 := fresh_alloc (d.alloc .document).1 (.element name attrs (some (d.alloc .document).2) flags.mathmlIP)
    refine ⟨⟨?_, h2.par, h2.kids, ⟨fun x => (h2.shape.parent x).trans (h1.shape.parent x),
      fun x => (h2.shape.children x).trans (h1.shape.children x)⟩⟩, some (d.alloc .document).2, ?_⟩
    · show d.size ≤ (d.alloc .document).1.size
      simp
    · show ((d.alloc .document).1.alloc _).1.dataOf (d.alloc .document).1.size = _
      rw [dataOf_alloc]; simp
  · simp only [ht]
    refine ⟨fresh_alloc d _, none, ?_⟩
    show (d.alloc _).1.dataOf d.size = _
    rw [dataOf_alloc]; simp

theorem isElement_of_data {d : Dom} {c : Id} {n : QualName} {as : List Attr} {tc : Option Id} {ip : Bool}
    (h : d.dataOf c = some (.element n as tc ip)) : d.isElement c = true := by
  unfold Dom.isElement; rw [h]

theorem nameOf_of_data {d : Dom} {c : Id} {n : QualName} {as : List Attr} {tc : Option Id} {ip : Bool}
    (h : d.dataOf c = some (.element n as tc ip)) : nameOf d c = some (n.ns, n.loc) := by
  unfold nameOf; rw [h]

theorem sat_createElementOp {s : State} (hg : Good s) (name : QualName) (attrs : List Attr) (flags : ElementFlags)
    (hn : Dom.attrKeysNodup attrs = true) :
    Sat (sinkNode (.createElement name attrs flags)) s (fun c s' => Good s' ∧ Ctl s s' ∧ KExt s.dom s'.dom ∧
      Fresh s.dom s'.dom c ∧ s'.dom.isElement c = true ∧ nameOf s'.dom c = some (name.ns, name.loc)) := by
  refine sat_sinkNode (sat_sink hg hn rfl ?_)
  intro d out ha hg' hk
  have : s.dom.apply (.createElement name attrs flags) =
      .ok ((s.dom.createElement name attrs flags).1, .node (s.dom.createElement name attrs flags).2) := rfl
  rw [this] at ha; cases ha
  obtain ⟨h1, tc, h2⟩ := createElement_fresh s.dom name attrs flags
  exact ⟨_, rfl, hg', Ctl.after .., hk, h1, isElement_of_data h2, nameOf_of_data h2⟩

/-! ## `append`, `append_doctype_to_document` -/

theorem apply_append_ok {d d' : Dom} {p : Id} {c : NodeOrText} {out : Output}
    (h : d.apply (.append p c) = .ok (d', out)) : d.append p c = .ok d' := by
  have : d.apply (.append p c) = (do let d ← d.append p c; .ok (d, Output.unit)) := rfl
  rw [this] at h
  cases hd : d.append p c with
  | error e => rw [hd] at h; cases h
  | ok d1 => rw [hd] at h; cases h; rfl

theorem apply_doctype_ok {d d' : Dom} {n p s : List Char} {out : Output}
    (h : d.apply (.appendDoctypeToDocument n p s) = .ok (d', out)) : d.appendDoctypeToDocument n p s = .ok d' := by
  have : d.apply (.appendDoctypeToDocument n p s) =
      (do let d ← d.appendDoctypeToDocument n p s; .ok (d, Output.unit)) := rfl
  rw [this] at h
  cases hd : d.appendDoctypeToDocument n p s with
  | error e => rw [hd] at h; cases h
  | ok d1 => rw [hd] at h; cases h; rfl

theorem sat_appendNode {s : State} (hg : Good s) {p c : Id} (hp : s.dom.isContainer p = true)
    (hc : s.dom.isInsertable c = true) (hpar : s.dom.parentOf c = none) (hkids : s.dom.childrenOf c = [])
    (hne : c ≠ p) :
    Sat (sinkUnit (.append p (.node c))) s (fun _ s' => Good s' ∧ Ctl s s' ∧ KExt s.dom s'.dom ∧
      (∀ x, s'.dom.dataOf x = s.dom.dataOf x) ∧
      (∀ x, s'.dom.childrenOf x = if x = p then s.dom.childrenOf p ++ [c] else s.dom.childrenOf x)) := by
  have hanc : s.dom.isAncOrSelf c p = false := by
    cases hb : s.dom.isAncOrSelf c p with
    | false => rfl
    | true =>
      have := (isAncOrSelf_iff hg.inv.wf (lt_of_isContainer hp)).mp hb
      exact absurd (anc_eq_of_no_children hg.inv.wf hkids this) hne
  have hcon : Contract s.dom (.append p (.node c)) := by
    show s.dom.contractOk _ = true
    simp [Dom.contractOk, Dom.contractAppend, Dom.childOk, hp, hc, hpar, hanc]
  refine sat_sinkUnit (sat_sink hg hcon rfl ?_)
  intro d out ha hg' hk
  have h1 := apply_append_ok ha
  rw [append_node_eq] at h1
  obtain ⟨_, _, _, _, _, _, h5, h6, _, _⟩ := appendRaw_ok h1 (Ne.symm hne)
  exact ⟨hg', Ctl.after .., hk, h6, h5⟩

theorem sat_appendTextOp {s : State} (hg : Good s) {p : Id} (hp : s.dom.isContainer p = true) (t : List Char) :
    Sat (sinkUnit (.append p (.text t))) s (fun _ s' => Good s' ∧ Ctl s s' ∧ KExt s.dom s'.dom) := by
  have hcon : Contract s.dom (.append p (.text t)) := by
    show s.dom.contractOk _ = true
    simp [Dom.contractOk, Dom.contractAppend, Dom.childOk, hp]
  refine sat_sinkUnit (sat_sink hg hcon rfl ?_)
  intro d out ha hg' hk
  exact ⟨hg', Ctl.after .., hk⟩

theorem sat_appendDoctypeOp {s : State} (hg : Good s) (h1 : NoElemKids s.dom) (h2 : NoDtKids s.dom)
    (n p sy : List Char) :
    Sat (sinkUnit (.appendDoctypeToDocument n p sy)) s (fun _ s' => Good s' ∧ Ctl s s' ∧ NoElemKids s'.dom) := by
  have hcon : Contract s.dom (.appendDoctypeToDocument n p sy) := by
    show s.dom.contractOk _ = true
    simp only [Dom.contractOk, Bool.and_eq_true, List.all_eq_true, Bool.not_eq_eq_eq_not, Bool.not_true]
    exact ⟨isContainer_of_doc hg.doc, fun c hc => ⟨h2 c hc, h1 c hc⟩⟩
  refine sat_sinkUnit (sat_sink hg hcon rfl ?_)
  intro d out ha hg' hk
  refine ⟨hg', Ctl.after .., ?_⟩
  have hd := apply_doctype_ok ha
  unfold Dom.appendDoctypeToDocument at hd
  have h0 : (0 : Id) < s.dom.size := lt_of_dataOf_some hg.doc
  obtain ⟨_, hch, hdat, _, _⟩ := allocAppend_ok h0 hd
  refine h1.snoc hg.inv hk (c := s.dom.size) ?_ ?_
  · show d.childrenOf 0 = _
    rw [hch]; simp
  · show d.isElement s.dom.size = false
    unfold Dom.isElement
    rw [hdat]; simp

end H5V.Lemmas.XmlTBH
