import H5V.Lemmas.HtmlTBContractIns
import H5V.Lemmas.HtmlTBContractConj
import H5V.Lemmas.HtmlTBSafeAA
/-!
# TreeSink contract for the HTML tree builder, part 6a: the adoption agency, DOM side

What the tree-mutating calls of the adoption agency (`remove_from_parent`, `append` of an existing
node, `reparent_children`, and the insertion of an existing node at the appropriate place) need and
do, phrased with the parent function only:

* `contract_ipOp_moved` — inserting an existing parentless node at a valid insertion point is inside
  the contract when the node is not an ancestor-or-self of the parent-to-be;
* `anc_attach`, `anc_reparent` — the ancestor relation after attaching a parentless node / after
  moving all children of a node;
* `SAnc.of_oldSub`, `sanc_move`, `sanc_set_fresh`, `sanc_insert_above` — preservation of the
  stack-order invariant `SAnc` by the steps of the algorithm;
* the two `SatC` leaves `satc_removeFromParent_shrink`, `satc_maybeCloneOption`.
-/
namespace H5V.Lemmas.TBC
open H5V.Model.HtmlTB
open H5V.Model.Dom (Id QualName Attr NodeOrText SinkOp Output ElementFlags QuirksMode Dom NodeData Node Contract)
open H5V.Lemmas.Dom
open H5V.Props.C20 (Inv Run)
open H5V.Lemmas.TBSafe (IsEl nm sigOf Ext apply_ext tmplName fmtNames nm_ext sigOf_ext IsEl.ext sigOf_lt
  namedP)

variable {d0 : Dom}

/-! ### ancestry and the parent function -/

/-- no node has parent `x` -/
def NoKids (d : Dom) (x : Id) : Prop := ∀ c, d.parentOf c ≠ some x

theorem noKids_of_children {d : Dom} (hw : WF d) {x : Id} (h : d.childrenOf x = []) : NoKids d x := by
  intro c hc
  have := (hw.links c x).mp hc
  rw [h] at this; cases this

theorem anc_of_noKids {d : Dom} {a x : Id} (h : NoKids d a) (ha : Anc d a x) : x = a := by
  induction ha with
  | refl => rfl
  | @step y p hpar _ ih => subst ih; exact absurd hpar (h y)

theorem anc_of_parentless {d : Dom} {a x : Id} (h : d.parentOf x = none) (ha : Anc d a x) : a = x := by
  cases ha with
  | refl => rfl
  | step hpar _ => rw [h] at hpar; cases hpar

/-- a well-formed arena has no cycle -/
theorem no_cycle {d : Dom} (hw : WF d) {c p : Id} (hp : d.parentOf c = some p) : ¬ Anc d c p := by
  intro ha
  obtain ⟨l, hl⟩ := Chain.of_rooted (hw.rooted p)
  have hc : Chain d c (c :: l) := Chain.step hp hl
  have hm : c ∈ l := (hl.mem_iff_anc c).mpr ha
  have := hc.nodup
  rw [List.nodup_cons] at this
  exact this.1 hm

/-- old nodes keep their parent or lose it: ancestry among old nodes only shrinks -/
theorem anc_old_sub {d d' : Dom} (hw : WF d)
    (h : ∀ x q, x < d.size → d'.parentOf x = some q → d.parentOf x = some q) {b a : Id}
    (hab : Anc d' b a) : a < d.size → Anc d b a := by
  induction hab with
  | refl => intro _; exact Anc.refl
  | @step x p hpar _ ih =>
    intro hx
    have hp := h x p hx hpar
    exact Anc.step hp (ih (parent_lt_size hw hp))

theorem SAnc.of_oldSub {d d' : Dom} {l : List Id} (hw : WF d) (hl : ∀ x ∈ l, x < d.size)
    (h : ∀ x q, x < d.size → d'.parentOf x = some q → d.parentOf x = some q) (hs : SAnc d l) : SAnc d' l := by
  unfold SAnc at hs ⊢
  refine hs.imp_of_mem ?_
  intro a b ha _ hn hab
  exact hn (anc_old_sub hw h hab (hl a ha))

theorem SAnc.sublist {d : Dom} {l l' : List Id} (hs : SAnc d l) (h : l'.Sublist l) : SAnc d l' :=
  List.Pairwise.sublist h hs

theorem SAnc.nodup {d : Dom} {l : List Id} (hs : SAnc d l) : l.Nodup := by
  unfold SAnc at hs
  refine hs.imp ?_
  intro a b h e
  exact h (e ▸ Anc.refl)

/-- after attaching the parentless node `c` under `P` -/
theorem anc_attach {d d' : Dom} {c P : Id}
    (he : ∀ x, d'.parentOf x = if x = c then some P else d.parentOf x) {a y : Id} (h : Anc d' a y) :
    Anc d a y ∨ (Anc d c y ∧ Anc d a P) := by
  induction h with
  | refl => exact Or.inl Anc.refl
  | @step y p hpar _ ih =>
    rw [he y] at hpar
    by_cases hy : y = c
    · rw [if_pos hy] at hpar
      cases hpar
      rw [hy]
      rcases ih with h1 | h1
      · exact Or.inr ⟨Anc.refl, h1⟩
      · exact Or.inr ⟨Anc.refl, h1.2⟩
    · rw [if_neg hy] at hpar
      rcases ih with h1 | h1
      · exact Or.inl (Anc.step hpar h1)
      · exact Or.inr ⟨Anc.step hpar h1.1, h1.2⟩

/-- after moving the children of `n` under `np` -/
theorem anc_reparent {d d' : Dom} {n np : Id}
    (he : ∀ x, d'.parentOf x = if d.parentOf x = some n then some np else d.parentOf x) {a y : Id}
    (h : Anc d' a y) : Anc d a y ∨ ∃ c, d.parentOf c = some n ∧ Anc d c y ∧ Anc d a np := by
  induction h with
  | refl => exact Or.inl Anc.refl
  | @step y p hpar _ ih =>
    rw [he y] at hpar
    by_cases hy : d.parentOf y = some n
    · rw [if_pos hy] at hpar
      cases hpar
      rcases ih with h1 | ⟨c, _, _, h1⟩
      · exact Or.inr ⟨y, hy, Anc.refl, h1⟩
      · exact Or.inr ⟨y, hy, Anc.refl, h1⟩
    · rw [if_neg hy] at hpar
      rcases ih with h1 | ⟨c, h1, h2, h3⟩
      · exact Or.inl (Anc.step hpar h1)
      · exact Or.inr ⟨c, h1, Anc.step hpar h2, h3⟩

/-! ### the stack-order invariant under the steps of the adoption agency -/

theorem pairwise_set {α : Type} {R : α → α → Prop} {a : α} : ∀ {l : List α} (m : Nat), l.Pairwise R →
    (∀ x ∈ l, R x a ∧ R a x) → (l.set m a).Pairwise R := by
  intro l
  induction l with
  | nil => intro m _ _; simp
  | cons z t ih =>
    intro m hp ha
    rw [List.pairwise_cons] at hp
    cases m with
    | zero =>
      rw [List.set_cons_zero, List.pairwise_cons]
      exact ⟨fun x hx => (ha x (List.mem_cons_of_mem _ hx)).2, hp.2⟩
    | succ m =>
      rw [List.set_cons_succ, List.pairwise_cons]
      refine ⟨?_, ih m hp.2 (fun x hx => ha x (List.mem_cons_of_mem _ hx))⟩
      intro x hx
      rcases List.mem_or_eq_of_mem_set hx with h | h
      · exact hp.1 x h
      · subst h; exact (ha z List.mem_cons_self).1

/-- a fresh node (parentless, childless, not on the stack) may replace any stack entry -/
theorem sanc_set_fresh {d : Dom} {l : List Id} {new : Id} (m : Nat) (hs : SAnc d l)
    (hpar : d.parentOf new = none) (hk : NoKids d new) (hn : new ∉ l) : SAnc d (l.set m new) := by
  refine pairwise_set m hs ?_
  intro x hx
  constructor
  · intro ha
    have := anc_of_noKids hk ha
    subst this; exact hn hx
  · intro ha
    have := anc_of_parentless hpar ha
    subst this; exact hn hx

/-- moving the parentless stack element `x ∈ B` under a node `P` none of whose ancestors-or-self is
in the upper part `B` of the stack -/
theorem sanc_move {d d' : Dom} {A B : List Id} {x P : Id} (hs : SAnc d (A ++ B)) (hx : x ∈ B)
    (hC : ∀ b ∈ B, ¬ Anc d b P)
    (heff : ∀ a y, Anc d' a y → Anc d a y ∨ (Anc d x y ∧ Anc d a P)) : SAnc d' (A ++ B) := by
  unfold SAnc at hs ⊢
  rw [List.pairwise_append] at hs ⊢
  obtain ⟨h1, h2, h3⟩ := hs
  refine ⟨?_, ?_, ?_⟩
  · refine h1.imp_of_mem ?_
    intro a b ha _ hn hab
    rcases heff b a hab with h | h
    · exact hn h
    · exact h3 a ha x hx h.1
  · refine h2.imp_of_mem ?_
    intro a b _ hb hn hab
    rcases heff b a hab with h | h
    · exact hn h
    · exact hC b hb h.2
  · intro a ha b hb hab
    rcases heff b a hab with h | h
    · exact h3 a ha b hb h
    · exact hC b hb h.2

theorem anc_cases {d : Dom} {a x : Id} (h : Anc d a x) : a = x ∨ ∃ p, d.parentOf x = some p ∧ Anc d a p := by
  cases h with
  | refl => exact Or.inl rfl
  | step hp ha => exact Or.inr ⟨_, hp, ha⟩

/-- the clone `new` of the formatting element, a child of the furthest block `fb` and not on the
stack, may be put on the stack right above `fb` -/
theorem sanc_insert_above {d : Dom} (hw : WF d) {pre post : List Id} {new fb : Id}
    (hs : SAnc d (pre ++ fb :: post)) (hn : new ∉ pre ++ fb :: post) (hp : d.parentOf new = some fb) :
    SAnc d (pre ++ fb :: new :: post) := by
  unfold SAnc at hs ⊢
  rw [List.pairwise_append, List.pairwise_cons] at hs
  obtain ⟨h1, ⟨h2, h3⟩, h4⟩ := hs
  rw [List.pairwise_append, List.pairwise_cons, List.pairwise_cons]
  have hup : ∀ b, b ≠ new → Anc d b new → Anc d b fb := by
    intro b hb ha
    rcases anc_cases ha with h | ⟨p, hpp, hap⟩
    · exact absurd h hb
    · rw [hp] at hpp; cases hpp; exact hap
  refine ⟨h1, ⟨?_, ?_, h3⟩, ?_⟩
  · intro b hb
    rcases List.mem_cons.mp hb with rfl | hb
    · exact no_cycle hw hp
    · exact h2 b hb
  · intro b hb ha
    have hbn : b ≠ new := by rintro rfl; exact hn (by simp [hb])
    exact h2 b hb (hup b hbn ha)
  · intro a ha b hb
    rcases List.mem_cons.mp hb with rfl | hb
    · exact h4 a ha b List.mem_cons_self
    · rcases List.mem_cons.mp hb with rfl | hb
      · intro hab
        exact h4 a ha fb List.mem_cons_self (Anc.parent hab hp)
      · exact h4 a ha b (List.mem_cons_of_mem _ hb)

/-- steps 15–17: the children of `fb` are moved to the fresh node `new`: `new` does not become an
ancestor of `fb` -/
theorem not_anc_after_reparent {d d1 : Dom} (hw : WF d) {fb new : Id} (hk : NoKids d new) (hne : fb ≠ new)
    (h1 : ∀ x, d1.parentOf x = if d.parentOf x = some fb then some new else d.parentOf x) :
    ¬ Anc d1 new fb := by
  intro ha
  rcases anc_reparent h1 ha with h | ⟨c, hc, hcf, _⟩
  · exact hne (anc_of_noKids hk h)
  · exact no_cycle hw hc hcf

/-- … and after `new` has been appended to `fb`, ancestry among the other nodes is what it was -/
theorem anc_after_clone {d d1 d2 : Dom} {fb new : Id} (hpar : d.parentOf new = none) (hk : NoKids d new)
    (h1 : ∀ x, d1.parentOf x = if d.parentOf x = some fb then some new else d.parentOf x)
    (h2 : ∀ x, d2.parentOf x = if x = new then some fb else d1.parentOf x) {a y : Id} (ha : a ≠ new)
    (hy : y ≠ new) (h : Anc d2 a y) : Anc d a y := by
  have e1 : ∀ {u v : Id}, u ≠ new → Anc d1 u v → Anc d u v := by
    intro u v hu huv
    rcases anc_reparent h1 huv with h | ⟨c, _, _, hun⟩
    · exact h
    · exact absurd (anc_of_parentless hpar hun) hu
  rcases anc_attach h2 h with h | ⟨hny, haf⟩
  · exact e1 ha h
  · have hfy : Anc d fb y := by
      rcases anc_reparent h1 hny with h | ⟨c, hc, hcy, _⟩
      · exact absurd (anc_of_noKids hk h) hy
      · exact Anc.parent hcy hc
    exact (e1 ha haf).trans hfy

/-! ### the calls -/

theorem apply_removeFromParent_inv {d d' : Dom} {t : Id} {out : Output}
    (h : d.apply (.removeFromParent t) = .ok (d', out)) : d.removeFromParent t = .ok d' := by
  have h' : d.applyV Dom.cloneVariant Dom.beforeSiblingVariant (.removeFromParent t) = .ok (d', out) := h
  simp only [Dom.applyV, bind, Except.bind] at h'
  cases ha : d.removeFromParent t with
  | error e => simp [ha] at h'
  | ok d1 => simp [ha] at h'; rw [h'.1]

theorem apply_reparentChildren_inv {d d' : Dom} {n np : Id} {out : Output}
    (h : d.apply (.reparentChildren n np) = .ok (d', out)) : d.reparentChildren n np = .ok d' := by
  have h' : d.applyV Dom.cloneVariant Dom.beforeSiblingVariant (.reparentChildren n np) = .ok (d', out) := h
  simp only [Dom.applyV, bind, Except.bind] at h'
  cases ha : d.reparentChildren n np with
  | error e => simp [ha] at h'
  | ok d1 => simp [ha] at h'; rw [h'.1]

theorem apply_mirror_inv {d d' : Dom} {o : Id} {out : Output}
    (h : d.apply (.maybeCloneAnOptionIntoSelectedcontent o) = .ok (d', out)) :
    d.maybeCloneOption .fixed o = .ok d' := by
  have h' : d.applyV Dom.cloneVariant Dom.beforeSiblingVariant (.maybeCloneAnOptionIntoSelectedcontent o)
      = .ok (d', out) := h
  simp only [Dom.applyV, bind, Except.bind] at h'
  cases ha : d.maybeCloneOption Dom.cloneVariant o with
  | error e => simp [ha] at h'
  | ok d1 => simp [ha] at h'; rw [← h'.1]; exact ha

/-- effect of `remove_from_parent` on the parent function -/
theorem removeFromParent_eff {d d' : Dom} {t : Id} (h : d.removeFromParent t = .ok d') :
    d'.size = d.size ∧ ∀ x, d'.parentOf x = if x = t then none else d.parentOf x := by
  rcases removeFromParent_ok h with ⟨h0, he⟩ | ⟨p, i, _, _, hp, _, _, hs, _⟩
  · subst he
    refine ⟨rfl, fun x => ?_⟩
    by_cases hx : x = t
    · rw [if_pos hx, hx]; exact h0
    · rw [if_neg hx]
  · exact ⟨hs, hp⟩

/-- effect of `reparent_children` on the parent function -/
theorem reparentChildren_eff {d d' : Dom} (hw : WF d) {n np : Id} (h : d.reparentChildren n np = .ok d') :
    d'.size = d.size ∧ ∀ x, d'.parentOf x = if d.parentOf x = some n then some np else d.parentOf x := by
  obtain ⟨_, _, _, hp, _, _, hs, _⟩ := reparentChildren_ok h
  refine ⟨hs, fun x => ?_⟩
  rw [hp x]
  by_cases hx : x ∈ d.childrenOf n
  · rw [if_pos hx, if_pos ((hw.links x n).mpr hx)]
  · rw [if_neg hx, if_neg (fun e => hx ((hw.links x n).mp e))]

/-- **inserting an existing parentless node at a valid insertion point is inside the contract** when
the node is not an ancestor-or-self of the parent-to-be -/
theorem contract_ipOp_moved {d : Dom} (hi : Inv d) {ip : InsertionPoint} {x : Id} (hv : IpValid d ip)
    (hx : d.isInsertable x = true) (hpar : d.parentOf x = none)
    (hanc : ∀ P, ipParent d ip = some P → ¬ Anc d x P) (hne : ∀ y ∈ ipIds ip, y ≠ x) :
    Contract d (ipOp ip (.node x)) := by
  have hchild : ∀ (P : Id) (mp : Bool), P < d.size → ¬ Anc d x P → d.childOk P mp (.node x) = true := by
    intro P mp hP hn
    simp only [Dom.childOk, Bool.and_eq_true, Bool.not_eq_true', Bool.or_eq_true]
    refine ⟨⟨hx, Or.inr (by rw [hpar]; rfl)⟩, ?_⟩
    cases h : d.isAncOrSelf x P with
    | false => rfl
    | true => exact absurd ((isAncOrSelf_iff hi.wf hP).mp h) hn
  cases ip with
  | beforeSibling sb => exact absurd hv id
  | lastChild p =>
    show d.contractAppend p (.node x) = true
    simp only [Dom.contractAppend, Bool.and_eq_true]
    exact ⟨hv, hchild p true (lt_of_isContainer hv) (hanc p rfl)⟩
  | tableFosterParenting e pe =>
    obtain ⟨he, hpe⟩ := hv
    show (d.isElement e && d.isElement pe &&
      (if (d.parentOf e).isSome then d.contractAppendBeforeSibling e (.node x)
        else d.contractAppend pe (.node x))) = true
    rw [he, hpe]
    simp only [Bool.true_and]
    cases hpe' : d.parentOf e with
    | none =>
      simp only [Option.isSome_none, Bool.false_eq_true, if_false, Dom.contractAppend, Bool.and_eq_true]
      refine ⟨isContainer_of_isElement hpe, hchild pe true (lt_of_isElement hpe) (hanc pe ?_)⟩
      simp [ipParent, hpe']
    | some P =>
      simp only [Option.isSome_some, if_true, Dom.contractAppendBeforeSibling, hpe', Bool.and_eq_true]
      have hPc : d.isContainer P = true := hi.kinds.parentContainer e P hpe'
      refine ⟨isInsertable_of_isElement he, ⟨hPc, hchild P false (lt_of_isContainer hPc) (hanc P ?_)⟩, ?_⟩
      · simp [ipParent, hpe']
      · have : x ≠ e := fun e' => hne e (by simp [ipIds]) e'.symm
        simp [this]

/-- a `Document` node is parentless -/
theorem parentless_of_doc {d : Dom} (hk : Kinds d) {x : Id} (h : d.dataOf x = some .document) :
    d.parentOf x = none := by
  cases hp : d.parentOf x with
  | none => rfl
  | some p => exact absurd h (hk.childNotDoc x p hp)

theorem not_doc_of_isEl {d : Dom} {x : Id} (h : IsEl d x) : d.dataOf x ≠ some .document := by
  intro hd
  obtain ⟨y, hy⟩ := h
  unfold sigOf at hy
  rw [hd] at hy
  simp [TBSafe.sigData] at hy

theorem isInsertable_of_isEl {d : Dom} {x : Id} (h : IsEl d x) : d.isInsertable x = true :=
  isInsertable_of_isElement (isElement_of_isEl h)

theorem isContainer_of_isEl {d : Dom} {x : Id} (h : IsEl d x) : d.isContainer x = true :=
  isContainer_of_isElement (isElement_of_isEl h)

/-! ### the frame of one tree-mutating call -/

theorem t2_of_apply {s : State} (hcb : CB d0 s) {op : SinkOp} {d' : Dom} {out : Output}
    (ha : s.dom.apply op = .ok (d', out))
    (hd : DomI d0 { s with dom := d', traceRev := (op, out) :: s.traceRev }) :
    T2 d0 s { s with dom := d', traceRev := (op, out) :: s.traceRev } :=
  ⟨hcb.of_dom hd (apply_ext ha) (apply_kext ha), apply_ext ha, apply_kext ha, d', _, rfl⟩

section t2fields
variable {s s' : State} (h : T2 d0 s s')
include h
theorem T2.openElems : s'.openElems = s.openElems := by obtain ⟨d, t, e⟩ := h.same; rw [e]
theorem T2.activeFormatting : s'.activeFormatting = s.activeFormatting := by obtain ⟨d, t, e⟩ := h.same; rw [e]
theorem T2.fosterParenting : s'.fosterParenting = s.fosterParenting := by obtain ⟨d, t, e⟩ := h.same; rw [e]
end t2fields

/-- `remove_from_parent(t)` -/
theorem satc_removeFromParent {t : Id} {s : State} (hcb : CB d0 s) (ht : IsEl s.dom t) :
    SatC (sinkUnit (.removeFromParent t)) s (fun _ s' => T2 d0 s s' ∧ s'.dom.size = s.dom.size ∧
      ∀ x, s'.dom.parentOf x = if x = t then none else s.dom.parentOf x) := by
  refine satc_sinkUnit hcb.d ?_ ?_
  · show decide (t < s.dom.size) = true
    simpa using lt_of_isEl ht
  · intro d' out ha hd
    exact ⟨t2_of_apply hcb ha hd, removeFromParent_eff (apply_removeFromParent_inv ha)⟩

theorem parSub_of_remove {d d' : Dom} {t : Id}
    (h : ∀ x, d'.parentOf x = if x = t then none else d.parentOf x) :
    ∀ x q, d'.parentOf x = some q → d.parentOf x = some q := by
  intro x q hx
  rw [h x] at hx
  by_cases hxt : x = t
  · rw [if_pos hxt] at hx; cases hx
  · rw [if_neg hxt] at hx; exact hx

theorem satc_removeFromParent_shrink {t : Id} {s : State} (hcb : CB d0 s) (hsa : SAnc s.dom s.openElems)
    (ht : IsEl s.dom t) :
    SatC (sinkUnit (.removeFromParent t)) s (fun _ s' => T2 d0 s s' ∧ SAnc s'.dom s'.openElems) := by
  refine (satc_removeFromParent hcb ht).mono ?_
  rintro _ s' ⟨h2, _, hp⟩
  refine ⟨h2, ?_⟩
  rw [h2.openElems]
  exact hsa.of_oldSub hcb.d.inv.wf hcb.h.lt (fun x q _ => parSub_of_remove hp x q)

/-- what the selectedcontent mirror does to old nodes: they keep their parent or lose it -/
theorem maybeCloneOption_oldSub {d d' : Dom} {o : Id} (hw : WF d) (hk : Kinds d)
    (h : d.maybeCloneOption .fixed o = .ok d') :
    ∀ x q, x < d.size → d'.parentOf x = some q → d.parentOf x = some q := by
  unfold Dom.maybeCloneOption at h
  simp only [bind, Except.bind] at h
  cases ht : d.cloneTarget .fixed o with
  | error e => simp [ht] at h
  | ok r =>
    simp only [ht] at h
    cases r with
    | none => simp at h; subst h; exact fun _ _ _ hx => hx
    | some sc =>
      simp only at h
      obtain ⟨_, _, _, _, h5, _, _, h8⟩ := cloneOptionInto_fixed_spec hw hk (cloneTarget_fixed_element ht) h
      intro x q hx hq
      by_cases hm : x ∈ d.childrenOf sc
      · rw [h5 x hm] at hq; cases hq
      · rw [h8 x hx hm] at hq; exact hq

theorem satc_maybeCloneOption {o : Id} {s : State} (hcb : CB d0 s) (hsa : SAnc s.dom s.openElems)
    (ho : IsEl s.dom o) (hn : (nm s.dom o).loc = "option".toList) :
    SatC (sinkUnit (.maybeCloneAnOptionIntoSelectedcontent o)) s
      (fun _ s' => T2 d0 s s' ∧ SAnc s'.dom s'.openElems) := by
  refine satc_sinkUnit hcb.d ?_ ?_
  · show (s.dom.localNameOf o == some H5V.Model.Dom.sOption) = true
    obtain ⟨x, hx⟩ := ho
    have hx' := hx
    unfold nm at hn
    rw [hx] at hn
    unfold sigOf at hx
    unfold Dom.localNameOf
    cases hd : s.dom.dataOf o with
    | none => rw [hd] at hx; cases hx
    | some v =>
      rw [hd] at hx
      cases v <;> simp [TBSafe.sigData] at hx
      subst hx
      simp only [TBSafe.enameOfSig] at hn
      simp only [hn]
      decide
  · intro d' out ha hd
    refine ⟨t2_of_apply hcb ha hd, ?_⟩
    show SAnc d' s.openElems
    exact hsa.of_oldSub hcb.d.inv.wf hcb.h.lt
      (maybeCloneOption_oldSub hcb.d.inv.wf hcb.d.inv.kinds (apply_mirror_inv ha))

/-! ### valued query leaves -/

theorem satcv_sameNode {x y : Id} {s : State} (hcb : CB d0 s) (hx : IsEl s.dom x) (hy : IsEl s.dom y) :
    SatC (sameNode x y) s (fun b s' => b = (x == y) ∧ Q2 d0 s s') := by
  unfold H5V.Model.HtmlTB.sameNode sinkBool
  refine SatC.bind (satc_sink (Q := fun o s' => o = .bool (x == y) ∧ Q2 d0 s s') hcb.d
    (contract_sameNode hx hy) ?_) ?_
  · intro d' out ha hd
    have ha' := ha
    rw [TBSafe.apply_sameNode] at ha; cases ha
    exact ⟨rfl, q2_of_nt hcb rfl ha' hd⟩
  · rintro o s' ⟨rfl, hq⟩
    exact satc_pure ⟨rfl, hq⟩

theorem satcv_parseError {msg : String} {s : State} (hcb : CB d0 s) :
    SatC (parseError msg) s (fun _ s' => Q2 d0 s s') := by
  unfold H5V.Model.HtmlTB.parseError
  refine satc_sinkUnit hcb.d contract_parseError ?_
  intro d' out ha hd
  exact q2_of_nt hcb rfl ha hd

/-- a query that answers `P x` -/
def AnswersC (d0 : Dom) (pred : Id → M Bool) (P : Id → Bool) (d : Dom) (x : Id) : Prop :=
  ∀ s1, CB d0 s1 → Ext d s1.dom → SatC (pred x) s1 (fun b s2 => b = P x ∧ Q2 d0 s1 s2)

theorem answersC_sameNode_right {d : Dom} {node x : Id} (hn : IsEl d node) (hx : IsEl d x) :
    AnswersC d0 (fun n => sameNode n node) (fun n => n == node) d x :=
  fun _ hcb he => satcv_sameNode hcb (hx.ext he) (hn.ext he)

theorem answersC_sameNode_left {d : Dom} {node x : Id} (hn : IsEl d node) (hx : IsEl d x) :
    AnswersC d0 (fun n => sameNode node n) (fun n => node == n) d x :=
  fun _ hcb he => satcv_sameNode hcb (hn.ext he) (hx.ext he)

theorem satcv_inScopeLoop {scope : EName → Bool} {pred : Id → M Bool} {P : Id → Bool} :
    ∀ (l : List Id) (s : State), CB d0 s → (∀ x ∈ l, IsEl s.dom x) → (∀ x ∈ l, AnswersC d0 pred P s.dom x) →
    SatC (inScopeLoop scope pred l) s (fun b s' => b = TBSafe.inScopeP s.dom scope P l ∧ Q2 d0 s s') := by
  intro l
  induction l with
  | nil => intro s hcb _ _; exact satc_pure ⟨rfl, Q2.refl hcb⟩
  | cons node rest ih =>
    intro s hcb hall hp
    unfold inScopeLoop
    have hel := hall node List.mem_cons_self
    refine (hp node List.mem_cons_self s hcb (Ext.refl _)).bind ?_
    rintro b s1 ⟨rfl, hq1⟩
    by_cases hP : P node = true
    · simp only [hP, if_true]
      exact satc_pure ⟨by simp [TBSafe.inScopeP, hP], hq1⟩
    · simp only [hP, if_false, Bool.false_eq_true]
      refine (satcv_elemName hq1.cb (hel.ext hq1.ext)).bind ?_
      rintro n s2 ⟨rfl, hq2⟩
      rw [nm_ext hq1.ext hel]
      by_cases hsc : scope (nm s.dom node) = true
      · simp only [hsc, if_true]
        exact satc_pure ⟨by simp [TBSafe.inScopeP, hP, hsc], hq1.trans hq2⟩
      · simp only [hsc, if_false, Bool.false_eq_true]
        have hq := hq1.trans hq2
        have hall' : ∀ x ∈ rest, IsEl s.dom x := fun x hx => hall x (List.mem_cons_of_mem _ hx)
        refine (ih s2 hq.cb (fun x hx => (hall' x hx).ext hq.ext) ?_).mono ?_
        · intro x hx s3 hcb3 he
          exact hp x (List.mem_cons_of_mem _ hx) s3 hcb3 (hq.ext.trans he)
        · rintro b s3 ⟨rfl, hq3⟩
          refine ⟨?_, hq.trans hq3⟩
          simp only [TBSafe.inScopeP, hP, hsc, if_false, Bool.false_eq_true]
          exact TBSafe.inScopeP_congr (fun x hx => nm_ext hq.ext (hall' x hx))

theorem satcv_inScope {scope : EName → Bool} {pred : Id → M Bool} {P : Id → Bool} {s : State} (hcb : CB d0 s)
    (hp : ∀ x ∈ s.openElems, AnswersC d0 pred P s.dom x) :
    SatC (inScope scope pred) s
      (fun b s' => b = TBSafe.inScopeP s.dom scope P s.openElems.reverse ∧ Q2 d0 s s') := by
  unfold inScope
  refine satc_getS_bind ?_
  exact satcv_inScopeLoop _ s hcb (fun x hx => hcb.h.open_el x (List.mem_reverse.mp hx))
    (fun x hx => hp x (List.mem_reverse.mp hx))

theorem satcv_rpositionLoop {p : Id → M Bool} {P : Id → Bool} : ∀ (l : List Id) (n : Nat) (s : State), CB d0 s →
    (∀ x ∈ l, AnswersC d0 p P s.dom x) →
    SatC (rpositionLoop p l n) s (fun r s' => r = TBSafe.rposL P l n ∧ Q2 d0 s s') := by
  intro l
  induction l with
  | nil => intro n s hcb _; exact satc_pure ⟨rfl, Q2.refl hcb⟩
  | cons x rest ih =>
    intro n s hcb hp
    unfold rpositionLoop
    refine (hp x List.mem_cons_self s hcb (Ext.refl _)).bind ?_
    rintro b s1 ⟨rfl, hq⟩
    by_cases hP : P x = true
    · simp only [hP, if_true]; exact satc_pure ⟨by simp [TBSafe.rposL, hP], hq⟩
    · simp only [hP, if_false, Bool.false_eq_true]
      refine (ih (n - 1) s1 hq.cb
        (fun y hy s2 hcb2 he => hp y (List.mem_cons_of_mem _ hy) s2 hcb2 (hq.ext.trans he))).mono ?_
      rintro r s2 ⟨rfl, hq2⟩
      exact ⟨by simp [TBSafe.rposL, hP], hq.trans hq2⟩

theorem satcv_rposition {p : Id → M Bool} {P : Id → Bool} {s : State} (hcb : CB d0 s)
    (hp : ∀ x ∈ s.openElems, AnswersC d0 p P s.dom x) :
    SatC (rposition p) s
      (fun r s' => r = TBSafe.rposL P s.openElems.reverse s.openElems.length ∧ Q2 d0 s s') := by
  unfold rposition
  exact satc_getS_bind (satcv_rpositionLoop _ _ s hcb (fun x hx => hp x (List.mem_reverse.mp hx)))

theorem satcv_findFurthestBlock : ∀ (l : List Id) (i : Nat) (s : State), CB d0 s → (∀ x ∈ l, IsEl s.dom x) →
    SatC (findFurthestBlock l i) s (fun r s' => r = TBSafe.ffbP s.dom l i ∧ Q2 d0 s s') := by
  intro l
  induction l with
  | nil => intro i s hcb _; exact satc_pure ⟨rfl, Q2.refl hcb⟩
  | cons e rest ih =>
    intro i s hcb hall
    unfold findFurthestBlock
    have hel := hall e List.mem_cons_self
    refine (satcv_elemIn hcb hel).bind ?_
    rintro b s1 ⟨rfl, hq1⟩
    by_cases hsp : specialTag (nm s.dom e) = true
    · simp only [hsp, if_true]
      exact satc_pure ⟨by simp [TBSafe.ffbP, hsp], hq1⟩
    · simp only [hsp, if_false, Bool.false_eq_true]
      have hall' : ∀ x ∈ rest, IsEl s.dom x := fun x hx => hall x (List.mem_cons_of_mem _ hx)
      refine (ih (i + 1) s1 hq1.cb (fun x hx => (hall' x hx).ext hq1.ext)).mono ?_
      rintro r s2 ⟨rfl, hq2⟩
      refine ⟨?_, hq1.trans hq2⟩
      simp only [TBSafe.ffbP, hsp, if_false, Bool.false_eq_true]
      exact TBSafe.ffbP_congr (fun x hx => nm_ext hq1.ext (hall' x hx))

theorem satcv_positionSameNode {x : Id} : ∀ (l : List Id) (i : Nat) (s : State), CB d0 s → IsEl s.dom x →
    (∀ y ∈ l, IsEl s.dom y) →
    SatC (positionSameNode x l i) s (fun r s' => r = TBSafe.posP x l i ∧ Q2 d0 s s') := by
  intro l
  induction l with
  | nil => intro i s hcb _ _; exact satc_pure ⟨rfl, Q2.refl hcb⟩
  | cons n rest ih =>
    intro i s hcb hx hall
    unfold positionSameNode
    refine (satcv_sameNode hcb (hall n List.mem_cons_self) hx).bind ?_
    rintro b s1 ⟨rfl, hq1⟩
    by_cases hb : (n == x) = true
    · simp only [hb, if_true]; exact satc_pure ⟨by simp [TBSafe.posP, hb], hq1⟩
    · simp only [hb, if_false, Bool.false_eq_true]
      refine (ih (i + 1) s1 hq1.cb (hx.ext hq1.ext)
        (fun y hy => (hall y (List.mem_cons_of_mem _ hy)).ext hq1.ext)).mono ?_
      rintro r s2 ⟨rfl, hq2⟩
      exact ⟨by simp [TBSafe.posP, hb], hq1.trans hq2⟩

theorem posP_some {x : Id} : ∀ {l : List Id} {i j : Nat}, TBSafe.posP x l i = some j →
    i ≤ j ∧ l[j - i]? = some x := by
  intro l
  induction l with
  | nil => intro i j h; simp [TBSafe.posP] at h
  | cons n rest ih =>
    intro i j h
    simp only [TBSafe.posP] at h
    by_cases hb : (n == x) = true
    · simp only [hb, if_true, Option.some.injEq] at h
      subst h
      have : n = x := by simpa using hb
      simp [this]
    · simp only [hb, if_false, Bool.false_eq_true] at h
      obtain ⟨h1, h2⟩ := ih h
      have hji : j - i = (j - (i + 1)) + 1 := by omega
      exact ⟨by omega, by rw [hji, List.getElem?_cons_succ]; exact h2⟩

/-- `position_in_active_formatting`: a query (its value is re-checked by the callers) -/
theorem satc_positionInAFLoop {element : Id} : ∀ (l : List FormatEntry) (i : Nat) (s : State), CB d0 s →
    IsEl s.dom element → (∀ h t, FormatEntry.element h t ∈ l → IsEl s.dom h) →
    SatC (positionInAFLoop element l i) s (fun _ s' => Q2 d0 s s') := by
  intro l
  induction l with
  | nil => intro i s hcb _ _; exact satc_pure (Q2.refl hcb)
  | cons e rest ih =>
    intro i s hcb hel hall
    cases e with
    | marker =>
      unfold positionInAFLoop
      exact ih (i + 1) s hcb hel (fun h t hm => hall h t (List.mem_cons_of_mem _ hm))
    | element h t =>
      unfold positionInAFLoop
      refine (satcv_sameNode hcb (hall h t List.mem_cons_self) hel).bind ?_
      rintro b s1 ⟨-, hq1⟩
      refine satc_ite (fun _ => satc_pure hq1) (fun _ => ?_)
      refine (ih (i + 1) s1 hq1.cb (hel.ext hq1.ext)
        (fun h' t' hm => (hall h' t' (List.mem_cons_of_mem _ hm)).ext hq1.ext)).mono ?_
      intro r s2 hq2
      exact hq1.trans hq2

theorem satc_positionInActiveFormatting {element : Id} {s : State} (hcb : CB d0 s) (hel : IsEl s.dom element) :
    SatC (positionInActiveFormatting element) s (fun _ s' => Q2 d0 s s') := by
  unfold positionInActiveFormatting
  refine satc_getS_bind ?_
  exact satc_positionInAFLoop _ 0 s hcb hel (fun h t hm => (hcb.h.af h t hm).1)

/-! ### where the appropriate place for inserting comes from -/

/-- neither an HTML `template` nor an HTML `table` -/
def NotTT (d : Dom) (x : Id) : Prop :=
  namedP d "template".toList x = false ∧ namedP d "table".toList x = false

theorem NotTT.ext {d d' : Dom} {x : Id} (h : NotTT d x) (he : Ext d d') (hi : IsEl d x) : NotTT d' x := by
  unfold NotTT namedP at h ⊢
  rw [nm_ext he hi]; exact h

/-- the parent-to-be is a member of `pre` or the parent of one, or a `Document` node -/
def IpFromA (d : Dom) (pre : List Id) : InsertionPoint → Prop
  | .lastChild p => p ∈ pre ∨ d.dataOf p = some .document
  | .beforeSibling _ => False
  | .tableFosterParenting e pe => e ∈ pre ∧ pe ∈ pre

theorem IpFromA.kext {d d' : Dom} {pre : List Id} {ip : InsertionPoint} (h : IpFromA d pre ip) (hk : KExt d d') :
    IpFromA d' pre ip := by
  cases ip with
  | lastChild p =>
    rcases h with h | h
    · exact Or.inl h
    · exact Or.inr (isDoc_kext hk h)
  | beforeSibling sb => exact h
  | tableFosterParenting e pe => exact h

theorem satc_fosterLoop_in {pre : List Id} : ∀ (r : List Id) (s : State), CB d0 s → (∀ x ∈ r, x ∈ pre) →
    (∀ x ∈ r, IsEl s.dom x) → (∀ x ∈ r, TcDoc s.dom x) → (∀ h, s.openElems.head? = some h → h ∈ pre) →
    SatC (fosterLoop r) s (fun ip s' => Q2 d0 s s' ∧ IpValid s'.dom ip ∧ IpFromA s'.dom pre ip) := by
  intro r
  induction r with
  | nil =>
    intro s hcb _ _ _ hhd
    unfold fosterLoop
    refine satcv_htmlElem.bind ?_
    rintro r s' ⟨rfl, hl⟩
    have hmem : r ∈ s'.openElems := List.mem_of_head? hl
    have hel := isElement_of_isEl (hcb.h.open_el r hmem)
    exact satc_pure ⟨Q2.refl hcb, isContainer_of_isElement hel, Or.inl (hhd r hl)⟩
  | cons elem rest ih =>
    intro s hcb hin hall htc hhd
    unfold fosterLoop
    have hel := hall elem List.mem_cons_self
    refine (satcv_htmlElemNamed hcb hel).bind ?_
    rintro b s1 ⟨rfl, hq1⟩
    by_cases hb : namedP s.dom "template".toList elem = true
    · rw [if_pos hb]
      have hn1 : namedP s1.dom "template".toList elem = true := by
        unfold namedP; rw [nm_ext hq1.ext hel]; exact hb
      refine (satc_templateContents hq1.cb ((htc elem List.mem_cons_self).ext hq1.ext hq1.g.kext hel) hn1).bind ?_
      rintro tc s2 ⟨hq2, hdoc⟩
      exact satc_pure ⟨hq1.trans hq2, isContainer_of_doc hdoc, Or.inr hdoc⟩
    · rw [if_neg hb]
      refine (satcv_htmlElemNamed hq1.cb (hel.ext hq1.ext)).bind ?_
      rintro b2 s2 ⟨rfl, hq2⟩
      have hq := hq1.trans hq2
      by_cases hb2 : namedP s1.dom "table".toList elem = true
      · rw [if_pos hb2]
        cases rest with
        | nil => exact satc_panicAt
        | cons prev rest' =>
          dsimp only
          have hp := hall prev (by simp)
          exact satc_pure ⟨hq, ⟨isElement_of_isEl (hel.ext hq.ext), isElement_of_isEl (hp.ext hq.ext)⟩,
            hin elem List.mem_cons_self, hin prev (by simp)⟩
      · rw [if_neg hb2]
        have hall' : ∀ x ∈ rest, IsEl s.dom x := fun x hx => hall x (List.mem_cons_of_mem _ hx)
        refine (ih s2 hq.cb (fun x hx => hin x (List.mem_cons_of_mem _ hx))
          (fun x hx => (hall' x hx).ext hq.ext)
          (fun x hx => (htc x (List.mem_cons_of_mem _ hx)).ext hq.ext hq.g.kext (hall' x hx))
          (by rw [hq.openElems]; exact hhd)).mono ?_
        rintro ip s3 ⟨hq3, hv, hf⟩
        exact ⟨hq.trans hq3, hv, hf⟩

theorem satc_fosterLoop_fromA {pre : List Id} : ∀ (a b : List Id) (s : State), CB d0 s →
    (∀ x ∈ a, NotTT s.dom x) → (∀ x ∈ b, x ∈ pre) →
    (∀ x ∈ a ++ b, IsEl s.dom x) → (∀ x ∈ a ++ b, TcDoc s.dom x) → (∀ h, s.openElems.head? = some h → h ∈ pre) →
    SatC (fosterLoop (a ++ b)) s (fun ip s' => Q2 d0 s s' ∧ IpValid s'.dom ip ∧ IpFromA s'.dom pre ip) := by
  intro a
  induction a with
  | nil =>
    intro b s hcb _ hin hall htc hhd
    exact satc_fosterLoop_in b s hcb hin hall htc hhd
  | cons elem rest ih =>
    intro b s hcb hntt hin hall htc hhd
    show SatC (fosterLoop (elem :: (rest ++ b))) s _
    unfold fosterLoop
    have hel := hall elem List.mem_cons_self
    obtain ⟨hn1, hn2⟩ := hntt elem List.mem_cons_self
    refine (satcv_htmlElemNamed hcb hel).bind ?_
    rintro b1 s1 ⟨rfl, hq1⟩
    rw [if_neg (by rw [hn1]; exact Bool.false_ne_true)]
    refine (satcv_htmlElemNamed hq1.cb (hel.ext hq1.ext)).bind ?_
    rintro b2 s2 ⟨rfl, hq2⟩
    have hq := hq1.trans hq2
    have hn2' : namedP s1.dom "table".toList elem = false := by
      unfold namedP; rw [nm_ext hq1.ext hel]; exact hn2
    rw [if_neg (by rw [hn2']; exact Bool.false_ne_true)]
    have hall' : ∀ x ∈ rest ++ b, IsEl s.dom x := fun x hx => hall x (List.mem_cons_of_mem _ hx)
    refine (ih b s2 hq.cb
      (fun x hx => (hntt x (List.mem_cons_of_mem _ hx)).ext hq.ext (hall' x (List.mem_append_left _ hx)))
      hin (fun x hx => (hall' x hx).ext hq.ext)
      (fun x hx => (htc x (List.mem_cons_of_mem _ hx)).ext hq.ext hq.g.kext (hall' x hx))
      (by rw [hq.openElems]; exact hhd)).mono ?_
    rintro ip s3 ⟨hq3, hv, hf⟩
    exact ⟨hq.trans hq3, hv, hf⟩

/-- **the appropriate place for inserting with override target `ca`**, where the stack is
`pre ++ post`, `ca ∈ pre`, and no element of `post` is an HTML `table`/`template` -/
theorem satc_appropriatePlace_ov {ca : Id} {s : State} {pre post : List Id} (hcb : CB d0 s)
    (hl : s.openElems = pre ++ post) (hca : ca ∈ pre) (hpost : ∀ x ∈ post, NotTT s.dom x) :
    SatC (appropriatePlaceForInsertion (some ca)) s
      (fun ip s' => Q2 d0 s s' ∧ IpValid s'.dom ip ∧ IpFromA s'.dom pre ip) := by
  have hcam : ca ∈ s.openElems := by rw [hl]; exact List.mem_append_left _ hca
  have htel : IsEl s.dom ca := hcb.h.open_el ca hcam
  have httc : TcDoc s.dom ca := hcb.h.open_tc ca hcam
  have hhd : ∀ h, s.openElems.head? = some h → h ∈ pre := by
    intro h hh
    rw [hl] at hh
    cases pre with
    | nil => cases hca
    | cons p0 pt => simp at hh; subst hh; exact List.mem_cons_self
  unfold appropriatePlaceForInsertion
  dsimp only
  refine SatC.bind (Q := fun r s' => ca = r ∧ s = s') (satc_pure ⟨rfl, rfl⟩) ?_
  rintro target s0 ⟨rfl, rfl⟩
  have hrest : ∀ (foster : Bool) (s1 : State), Q2 d0 s s1 →
      SatC (if (!foster) = true then do
          let __do_lift ← htmlElemNamed ca "template"
          if __do_lift = true then do
              let contents ← sinkNode (SinkOp.getTemplateContents ca)
              pure (InsertionPoint.lastChild contents)
            else pure (InsertionPoint.lastChild ca)
        else do
          let __do_lift ← getS
          fosterLoop __do_lift.openElems.reverse) s1
        (fun ip s' => Q2 d0 s s' ∧ IpValid s'.dom ip ∧ IpFromA s'.dom pre ip) := by
    intro foster s1 hq1
    have hel1 := htel.ext hq1.ext
    refine satc_ite (fun _ => ?_) (fun _ => ?_)
    · refine (satcv_htmlElemNamed hq1.cb hel1).bind ?_
      rintro b s2 ⟨rfl, hq2⟩
      have hq := hq1.trans hq2
      by_cases hb : namedP s1.dom "template".toList ca = true
      · rw [if_pos hb]
        have hn2 : namedP s2.dom "template".toList ca = true := by
          unfold namedP; rw [nm_ext hq2.ext hel1]; exact hb
        refine (satc_templateContents hq2.cb (httc.ext hq.ext hq.g.kext htel) hn2).bind ?_
        rintro tc s3 ⟨hq3, hdoc⟩
        exact satc_pure ⟨hq.trans hq3, isContainer_of_doc hdoc, Or.inr hdoc⟩
      · rw [if_neg hb]
        have he2 := isElement_of_isEl (hel1.ext hq2.ext)
        exact satc_pure ⟨hq, isContainer_of_isElement he2, Or.inl hca⟩
    · refine satc_getS_bind ?_
      have hrev : s1.openElems.reverse = post.reverse ++ pre.reverse := by
        rw [hq1.openElems, hl, List.reverse_append]
      rw [hrev]
      have hmem : ∀ x ∈ post.reverse ++ pre.reverse, x ∈ s.openElems := by
        intro x hx
        rw [hl]
        rcases List.mem_append.mp hx with h | h
        · exact List.mem_append_right _ (List.mem_reverse.mp h)
        · exact List.mem_append_left _ (List.mem_reverse.mp h)
      refine (satc_fosterLoop_fromA (pre := pre) post.reverse pre.reverse s1 hq1.cb
        (fun x hx => (hpost x (List.mem_reverse.mp hx)).ext hq1.ext
          (hcb.h.open_el x (by rw [hl]; exact List.mem_append_right _ (List.mem_reverse.mp hx))))
        (fun x hx => List.mem_reverse.mp hx)
        (fun x hx => (hcb.h.open_el x (hmem x hx)).ext hq1.ext)
        (fun x hx => (hcb.h.open_tc x (hmem x hx)).ext hq1.ext hq1.g.kext (hcb.h.open_el x (hmem x hx)))
        (by rw [hq1.openElems]; exact hhd)).mono ?_
      rintro ip s2 ⟨hq2, hv, hf⟩
      exact ⟨hq1.trans hq2, hv, hf⟩
  refine satc_getS_bind ?_
  refine satc_ite (fun _ => ?_) (fun _ => ?_)
  · refine (satcv_elemIn hcb htel).bind ?_
    rintro foster s1 ⟨-, hq1⟩
    exact hrest foster s1 hq1
  · refine SatC.bind (Q := fun foster s1 => s = s1) (satc_pure rfl) ?_
    rintro foster s1 rfl
    exact hrest foster s (Q2.refl hcb)

/-! ### inserting / appending an existing node, `reparent_children` -/

theorem satc_insertAt_moved {ip : InsertionPoint} {x : Id} {s : State} (hcb : CB d0 s) (hv : IpValid s.dom ip)
    (hx : IsEl s.dom x) (hpar : s.dom.parentOf x = none)
    (hanc : ∀ P, ipParent s.dom ip = some P → ¬ Anc s.dom x P) (hne : ∀ y ∈ ipIds ip, y ≠ x) :
    SatC (H5V.Model.HtmlTB.insertAt ip (.node x)) s (fun _ s' => T2 d0 s s' ∧
      ∃ P, ipParent s.dom ip = some P ∧ NodeEff s.dom s'.dom x P) := by
  rw [insertAt_eq]
  refine satc_sinkUnit hcb.d (contract_ipOp_moved hcb.d.inv hv (isInsertable_of_isEl hx) hpar hanc hne) ?_
  intro d' out ha hd
  exact ⟨t2_of_apply hcb ha hd, nodeEff_ipOp hv hpar hne ha⟩

theorem satc_append_moved {p x : Id} {s : State} (hcb : CB d0 s) (hp : IsEl s.dom p) (hx : IsEl s.dom x)
    (hpar : s.dom.parentOf x = none) (hanc : ¬ Anc s.dom x p) :
    SatC (sinkUnit (.append p (.node x))) s (fun _ s' => T2 d0 s s' ∧ NodeEff s.dom s'.dom x p) := by
  have hne : ∀ y ∈ ipIds (.lastChild p), y ≠ x := by
    intro y hy
    simp only [ipIds, List.mem_singleton] at hy
    subst hy
    intro e; exact hanc (e ▸ Anc.refl)
  have h := satc_insertAt_moved (ip := .lastChild p) hcb (isContainer_of_isEl hp) hx hpar
    (fun P hP => by simp only [ipParent, Option.some.injEq] at hP; subst hP; exact hanc) hne
  refine SatC.mono h ?_
  rintro _ s' ⟨h2, P, hP, he⟩
  simp only [ipParent, Option.some.injEq] at hP
  subst hP
  exact ⟨h2, he⟩

theorem satc_reparentChildren {n np : Id} {s : State} (hcb : CB d0 s) (hn : IsEl s.dom n) (hnp : IsEl s.dom np)
    (hanc : ¬ Anc s.dom n np) :
    SatC (sinkUnit (.reparentChildren n np)) s (fun _ s' => T2 d0 s s' ∧ s'.dom.size = s.dom.size ∧
      ∀ x, s'.dom.parentOf x = if s.dom.parentOf x = some n then some np else s.dom.parentOf x) := by
  refine satc_sinkUnit hcb.d ?_ ?_
  · show (s.dom.isContainer n && s.dom.isContainer np && !s.dom.isAncOrSelf n np) = true
    rw [isContainer_of_isEl hn, isContainer_of_isEl hnp]
    cases h : s.dom.isAncOrSelf n np with
    | false => rfl
    | true => exact absurd ((isAncOrSelf_iff hcb.d.inv.wf (lt_of_isEl hnp)).mp h) hanc
  · intro d' out ha hd
    exact ⟨t2_of_apply hcb ha hd, reparentChildren_eff hcb.d.inv.wf (apply_reparentChildren_inv ha)⟩

/-- where the parent-to-be lies: no element of the upper part of the stack is an ancestor-or-self of it -/
theorem ipFrom_not_anc {d : Dom} (hk : Kinds d) {pre post : List Id} (hs : SAnc d (pre ++ post))
    (hel : ∀ b ∈ post, IsEl d b) {ip : InsertionPoint} (hf : IpFromA d pre ip) {P : Id}
    (hP : ipParent d ip = some P) : ∀ b ∈ post, ¬ Anc d b P := by
  unfold SAnc at hs
  rw [List.pairwise_append] at hs
  obtain ⟨_, _, h3⟩ := hs
  intro b hb hab
  cases ip with
  | beforeSibling sb => exact hf
  | lastChild p =>
    simp only [ipParent, Option.some.injEq] at hP
    subst hP
    rcases hf with h | h
    · exact h3 p h b hb hab
    · have := anc_of_parentless (parentless_of_doc hk h) hab
      subst this
      exact not_doc_of_isEl (hel b hb) h
  | tableFosterParenting e pe =>
    simp only [ipParent] at hP
    cases hpar : d.parentOf e with
    | none =>
      rw [hpar] at hP; simp only [Option.some.injEq] at hP; subst hP
      exact h3 pe hf.2 b hb hab
    | some Q =>
      rw [hpar] at hP; simp only [Option.some.injEq] at hP; subst hP
      exact h3 e hf.1 b hb (Anc.step hpar hab)

theorem ipFrom_ne {d : Dom} {pre post : List Id} (hs : SAnc d (pre ++ post)) {ip : InsertionPoint}
    (hf : IpFromA d pre ip) (hel : ∀ b ∈ post, IsEl d b) {x : Id} (hx : x ∈ post) : ∀ y ∈ ipIds ip, y ≠ x := by
  unfold SAnc at hs
  rw [List.pairwise_append] at hs
  obtain ⟨_, _, h3⟩ := hs
  intro y hy e
  subst e
  cases ip with
  | beforeSibling sb => exact hf
  | lastChild p =>
    simp only [ipIds, List.mem_singleton] at hy
    subst hy
    rcases hf with h | h
    · exact h3 y h y hx Anc.refl
    · exact not_doc_of_isEl (hel y hx) h
  | tableFosterParenting e pe =>
    simp only [ipIds, List.mem_cons, List.not_mem_nil, or_false] at hy
    rcases hy with rfl | rfl
    · exact h3 y hf.1 y hx Anc.refl
    · exact h3 y hf.2 y hx Anc.refl

/-! ### updates of the two lists of the builder -/

theorem cb_upd {s : State} (hcb : CB d0 s) (l' : List Id) (af' : List FormatEntry)
    (hl : ∀ x ∈ l', x ∈ s.openElems ∨ (IsEl s.dom x ∧ TcDoc s.dom x))
    (haf : ∀ x t, FormatEntry.element x t ∈ af' → FormatEntry.element x t ∈ s.activeFormatting ∨
      (IsEl s.dom x ∧ nm s.dom x = ⟨nsHtml, t.name⟩ ∧ isOneOf t.name fmtNames = true ∧ AttrsOk t.attrs)) :
    CB d0 { s with openElems := l', activeFormatting := af' } where
  d := ⟨hcb.d.inv, hcb.d.run⟩
  h := {
    docH := hcb.h.docH
    doc0 := hcb.h.doc0
    open_el := fun x hx => by
      rcases hl x hx with h | h
      · exact hcb.h.open_el x h
      · exact h.1
    open_tc := fun x hx => by
      rcases hl x hx with h | h
      · exact hcb.h.open_tc x h
      · exact h.2
    af := fun x t hx => by
      rcases haf x t hx with h | h
      · exact hcb.h.af x t h
      · exact h
    head := hcb.h.head
    form := hcb.h.form
    ctx := hcb.h.ctx
    headTc := hcb.h.headTc }
  l := ⟨hcb.l.mode, hcb.l.orig, hcb.l.tm⟩

theorem cb_updAF {s : State} (hcb : CB d0 s) (af' : List FormatEntry)
    (haf : ∀ x t, FormatEntry.element x t ∈ af' → FormatEntry.element x t ∈ s.activeFormatting ∨
      (IsEl s.dom x ∧ nm s.dom x = ⟨nsHtml, t.name⟩ ∧ isOneOf t.name fmtNames = true ∧ AttrsOk t.attrs)) :
    CB d0 { s with activeFormatting := af' } :=
  cb_upd hcb s.openElems af' (fun _ h => Or.inl h) haf

theorem cb_updStack {s : State} (hcb : CB d0 s) (l' : List Id)
    (hl : ∀ x ∈ l', x ∈ s.openElems ∨ (IsEl s.dom x ∧ TcDoc s.dom x)) :
    CB d0 { s with openElems := l' } :=
  cb_upd hcb l' s.activeFormatting hl (fun _ _ h => Or.inl h)

/-- an element with a formatting name is not a `template` -/
theorem tcDoc_of_fmt {d : Dom} {x : Id} {n : Str} (hn : nm d x = ⟨nsHtml, n⟩) (hf : isOneOf n fmtNames = true) :
    TcDoc d x := by
  intro ht
  rw [hn] at ht
  simp only [tmplName, EName.mk.injEq] at ht
  rw [ht.2] at hf
  exact absurd hf (by decide)

theorem notTT_of_fmt {d : Dom} {x : Id} {n : Str} (hn : nm d x = ⟨nsHtml, n⟩) (hf : isOneOf n fmtNames = true) :
    NotTT d x := by
  unfold NotTT namedP
  rw [hn]
  constructor
  · cases h : ((⟨nsHtml, n⟩ : EName).ns == nsHtml && (⟨nsHtml, n⟩ : EName).loc == "template".toList) with
    | false => rfl
    | true =>
      simp only [Bool.and_eq_true, beq_iff_eq] at h
      rw [h.2] at hf; exact absurd hf (by decide)
  · cases h : ((⟨nsHtml, n⟩ : EName).ns == nsHtml && (⟨nsHtml, n⟩ : EName).loc == "table".toList) with
    | false => rfl
    | true =>
      simp only [Bool.and_eq_true, beq_iff_eq] at h
      rw [h.2] at hf; exact absurd hf (by decide)

theorem notTT_of_not_scope {d : Dom} {x : Id} (h : defaultScope (nm d x) = false) : NotTT d x := by
  unfold NotTT namedP
  cases hn : nm d x with
  | mk ns loc =>
    rw [hn] at h
    constructor
    · cases hb : (ns == nsHtml && loc == "template".toList) with
      | false => rfl
      | true =>
        simp only [Bool.and_eq_true, beq_iff_eq] at hb
        rw [hb.1, hb.2] at h
        exact absurd h (by decide)
    · cases hb : (ns == nsHtml && loc == "table".toList) with
      | false => rfl
      | true =>
        simp only [Bool.and_eq_true, beq_iff_eq] at hb
        rw [hb.1, hb.2] at h
        exact absurd h (by decide)

/-! ### list facts -/

theorem take_eraseIdx_of_le {α : Type} {l : List α} {k m : Nat} (h : k ≤ m) :
    (l.eraseIdx m).take k = l.take k := by
  apply List.ext_getElem?
  intro i
  rw [List.getElem?_take, List.getElem?_take]
  by_cases hi : i < k
  · rw [if_pos hi, if_pos hi, List.getElem?_eraseIdx_of_lt (by omega)]
  · rw [if_neg hi, if_neg hi]

theorem insertIdx_split {α : Type} (pre : List α) (x y : α) (post : List α) :
    (pre ++ x :: post).insertIdx (pre.length + 1) y = pre ++ x :: y :: post := by
  induction pre with
  | nil => rfl
  | cons a t ih => simp only [List.cons_append, List.length_cons, List.insertIdx_succ_cons, ih]

theorem split_at_getElem? {α : Type} {l : List α} {j : Nat} {x : α} (h : l[j]? = some x) :
    ∃ A B, l = A ++ x :: B ∧ A.length = j := by
  have hlt : j < l.length := TBSafe.getElem?_lt_of_some h
  refine ⟨l.take j, l.drop (j + 1), ?_, by rw [List.length_take]; omega⟩
  have := List.take_append_drop j l
  conv => lhs; rw [← this]
  congr 1
  rw [List.drop_eq_getElem_cons hlt]
  congr 1
  rw [List.getElem?_eq_getElem hlt] at h
  exact Option.some.inj h

/-! ### the invariant of the inner loop -/

/-- `pre` = the stack below the formatting element (never touched); `n` = `node_index` before
`node_index -= 1`; `lastNode` sits on the stack at an index `≥ n`; nothing from the formatting element
upwards is an HTML `table`/`template` -/
structure AInv (s : State) (fmtElem : Id) (pre : List Id) (n : Nat) (lastNode : Id) : Prop where
  lt : pre.length < n
  atFmt : s.openElems[pre.length]? = some fmtElem
  take : s.openElems.take pre.length = pre
  last : ∃ j, n ≤ j ∧ s.openElems[j]? = some lastNode
  ntt : ∀ k y, pre.length ≤ k → s.openElems[k]? = some y → NotTT s.dom y
  sa : SAnc s.dom s.openElems

theorem AInv.same_stack {s s' : State} {f : Id} {pre : List Id} {n : Nat} {last : Id} (h : AInv s f pre n last)
    (hel : ∀ x ∈ s.openElems, IsEl s.dom x) (ho : s'.openElems = s.openElems) (he : Ext s.dom s'.dom)
    (hsa : SAnc s'.dom s'.openElems) : AInv s' f pre n last where
  lt := h.lt
  atFmt := by rw [ho]; exact h.atFmt
  take := by rw [ho]; exact h.take
  last := by rw [ho]; exact h.last
  ntt := fun k y hk hy => by
    rw [ho] at hy
    exact (h.ntt k y hk hy).ext he (hel y (List.mem_of_getElem? hy))
  sa := hsa

theorem AInv.q2 {s s' : State} {f : Id} {pre : List Id} {n : Nat} {last : Id} (hcb : CB d0 s)
    (h : AInv s f pre n last) (hq : Q2 d0 s s') : AInv s' f pre n last :=
  h.same_stack hcb.h.open_el hq.openElems hq.ext (h.sa.grow hcb.d.inv.wf hcb.h.lt hq.g)

theorem AInv.mono {s : State} {f : Id} {pre : List Id} {n n' : Nat} {last : Id} (h : AInv s f pre n last)
    (hn : pre.length < n') (hle : n' ≤ n) : AInv s f pre n' last :=
  ⟨hn, h.atFmt, h.take, by obtain ⟨j, hj, hl⟩ := h.last; exact ⟨j, by omega, hl⟩, h.ntt, h.sa⟩

theorem AInv.relast {s : State} {f : Id} {pre : List Id} {n : Nat} {last x : Id} (h : AInv s f pre n last)
    (hx : ∃ j, n ≤ j ∧ s.openElems[j]? = some x) : AInv s f pre n x :=
  ⟨h.lt, h.atFmt, h.take, hx, h.ntt, h.sa⟩

theorem AInv.withAF {s : State} {f : Id} {pre : List Id} {n : Nat} {last : Id} (h : AInv s f pre n last)
    (af : List FormatEntry) : AInv { s with activeFormatting := af } f pre n last :=
  ⟨h.lt, h.atFmt, h.take, h.last, h.ntt, h.sa⟩

theorem AInv.idx_lt {s : State} {f node : Id} {pre : List Id} {m : Nat} {last : Id}
    (h : AInv s f pre (m + 1) last) (hget : s.openElems[m]? = some node) (hne : node ≠ f) : pre.length < m := by
  have := h.lt
  by_cases he : pre.length = m
  · have h2 := h.atFmt; rw [he, hget] at h2; cases h2; exact absurd rfl hne
  · omega

theorem AInv.erase {s : State} {f node : Id} {pre : List Id} {m : Nat} {last : Id}
    (h : AInv s f pre (m + 1) last) (hget : s.openElems[m]? = some node) (hne : node ≠ f) :
    AInv { s with openElems := s.openElems.eraseIdx m } f pre m last where
  lt := h.idx_lt hget hne
  atFmt := by
    show (s.openElems.eraseIdx m)[pre.length]? = _
    rw [List.getElem?_eraseIdx_of_lt (h.idx_lt hget hne)]; exact h.atFmt
  take := by
    show (s.openElems.eraseIdx m).take pre.length = pre
    rw [take_eraseIdx_of_le (Nat.le_of_lt (h.idx_lt hget hne))]; exact h.take
  last := by
    obtain ⟨j, hj, hl⟩ := h.last
    refine ⟨j - 1, by omega, ?_⟩
    show (s.openElems.eraseIdx m)[j - 1]? = _
    rw [List.getElem?_eraseIdx_of_ge (by omega)]
    have : j - 1 + 1 = j := by omega
    rw [this]; exact hl
  ntt := fun k y hk hy => by
    have hy' : (s.openElems.eraseIdx m)[k]? = some y := hy
    by_cases hkm : k < m
    · rw [List.getElem?_eraseIdx_of_lt hkm] at hy'
      exact h.ntt k y hk hy'
    · rw [List.getElem?_eraseIdx_of_ge (by omega)] at hy'
      exact h.ntt (k + 1) y (by omega) hy'
  sa := h.sa.sublist (List.eraseIdx_sublist _ _)

theorem AInv.replace {s : State} {f node new : Id} {pre : List Id} {m : Nat} {last : Id}
    (h : AInv s f pre (m + 1) last) (hget : s.openElems[m]? = some node) (hne : node ≠ f)
    (hpar : s.dom.parentOf new = none) (hk : NoKids s.dom new) (hnotin : new ∉ s.openElems)
    (hntt : NotTT s.dom new) (af : List FormatEntry) :
    AInv { s with openElems := s.openElems.set m new, activeFormatting := af } f pre m last where
  lt := h.idx_lt hget hne
  atFmt := by
    show (s.openElems.set m new)[pre.length]? = _
    have := h.idx_lt hget hne
    rw [List.getElem?_set]
    have hmf : m ≠ pre.length := by omega
    simp only [hmf, if_false]; exact h.atFmt
  take := by
    show (s.openElems.set m new).take pre.length = pre
    rw [List.take_set_of_le (Nat.le_of_lt (h.idx_lt hget hne))]; exact h.take
  last := by
    obtain ⟨j, hj, hl⟩ := h.last
    refine ⟨j, by omega, ?_⟩
    show (s.openElems.set m new)[j]? = _
    rw [List.getElem?_set]
    have hmj : m ≠ j := by omega
    simp only [hmj, if_false]; exact hl
  ntt := fun k y hk hy => by
    have hy' : (s.openElems.set m new)[k]? = some y := hy
    rw [List.getElem?_set] at hy'
    by_cases hmk : m = k
    · simp only [hmk, if_true] at hy'
      split at hy'
      · cases hy'; exact hntt
      · cases hy'
    · simp only [hmk, if_false] at hy'
      exact h.ntt k y hk hy'
  sa := sanc_set_fresh m h.sa hpar hk hnotin

/-- the tree part of one iteration: `last_node` (stack index `j`) is detached and appended to the
fresh clone `new` (stack index `m < j`) -/
theorem sanc_after_append {d d1 d2 : Dom} {l : List Id} {m j : Nat} {new lastNode : Id} (hw : WF d)
    (hl : ∀ x ∈ l, x < d.size) (hs : SAnc d l) (hm : l[m]? = some new) (hj : l[j]? = some lastNode) (hmj : m < j)
    (hpar : d.parentOf new = none)
    (h1 : ∀ x, d1.parentOf x = if x = lastNode then none else d.parentOf x)
    (h2 : ∀ x, d2.parentOf x = if x = lastNode then some new else d1.parentOf x) : SAnc d2 l := by
  have hs1 : SAnc d1 l := hs.of_oldSub hw hl (fun x q _ => parSub_of_remove h1 x q)
  have hsplit := List.take_append_drop (m + 1) l
  rw [← hsplit] at hs1 ⊢
  have hlm : lastNode ∈ l.drop (m + 1) := by
    refine List.mem_of_getElem? (i := j - (m + 1)) ?_
    rw [List.getElem?_drop]
    have : m + 1 + (j - (m + 1)) = j := by omega
    rw [this]; exact hj
  have hnm : new ∈ l.take (m + 1) := by
    refine List.mem_of_getElem? (i := m) ?_
    rw [List.getElem?_take_of_lt (Nat.lt_succ_self m)]; exact hm
  have hpar1 : d1.parentOf new = none := by
    rw [h1 new]; split
    · rfl
    · exact hpar
  refine sanc_move hs1 hlm ?_ (fun a y h => anc_attach h2 h)
  intro b hb hab
  have := anc_of_parentless hpar1 hab
  subst this
  have hcross := (List.pairwise_append.mp hs1).2.2
  exact hcross b hnm b hb Anc.refl

theorem satc_afRemove {i : Nat} {site : String} {s : State}
    (hs : TBSafe.infixL "@sink: ".toList ("remove-oob" ++ "@" ++ site ++ ": " ++ "Vec::remove").toList = false
      := by decide) :
    SatC (afRemove i site) s
      (fun _ s' => s' = { s with activeFormatting := s.activeFormatting.eraseIdx i }) := by
  unfold afRemove
  refine satc_getS_bind ?_
  refine satc_ite (fun _ => ?_) (fun _ => satc_panicAt hs)
  unfold setAF
  exact satc_modS rfl

theorem cb_afErase {s : State} (hcb : CB d0 s) (i : Nat) :
    CB d0 { s with activeFormatting := s.activeFormatting.eraseIdx i } :=
  cb_updAF hcb _ (fun _ _ h => Or.inl (List.mem_of_mem_eraseIdx h))

theorem satc_false_bind {α β : Type} {m : M α} {f : α → M β} {s : State} {R : β → State → Prop}
    (h : SatC m s (fun _ _ => False)) : SatC (m >>= f) s R :=
  SatC.bind h (fun _ _ h => h.elim)

/-- the handle a bookmark mentions -/
def bmId : Bookmark → Id
  | .replace h => h
  | .insertAfter h => h

abbrev InnerPostC (d0 : Dom) (s : State) (fmtElem fb : Id) (pre : List Id) (r : Id × Bookmark) (s' : State) : Prop :=
  CB d0 s' ∧ Ext s.dom s'.dom ∧ (IsEl s'.dom fb ∧ IsEl s'.dom (bmId r.2)) ∧
    AInv s' fmtElem pre (pre.length + 1) r.1

theorem satc_aaInner {fmtElem fb : Id} {pre : List Id} : ∀ (n c : Nat) (s : State) (lastNode : Id) (bm : Bookmark),
    CB d0 s → IsEl s.dom fb → IsEl s.dom (bmId bm) → AInv s fmtElem pre n lastNode →
    SatC (aaInner fmtElem fb n c lastNode bm) s (InnerPostC d0 s fmtElem fb pre) := by
  intro n
  induction n with
  | zero => intro c s lastNode bm _ _ _ hv; exact absurd hv.lt (Nat.not_lt_zero _)
  | succ m ih =>
    intro c s lastNode bm hcb hfb hbm hv
    unfold aaInner
    dsimp only
    refine satc_getS_bind ?_
    cases hget : s.openElems[m]? with
    | none => exact satc_false_bind satc_panicAt
    | some node =>
      dsimp only
      refine SatC.bind (Q := fun r s1 => node = r ∧ s = s1) (satc_pure ⟨rfl, rfl⟩) ?_
      rintro node' s0 ⟨rfl, rfl⟩
      have hnel : IsEl s.dom node := hcb.h.open_el node (List.mem_of_getElem? hget)
      have hfel : IsEl s.dom fmtElem := hcb.h.open_el fmtElem (List.mem_of_getElem? hv.atFmt)
      refine (satcv_sameNode hcb hnel hfel).bind ?_
      rintro b s1 ⟨rfl, hq1⟩
      by_cases hb : (node == fmtElem) = true
      · simp only [hb, if_true]
        exact satc_pure ⟨hq1.cb, hq1.ext, ⟨hfb.ext hq1.ext, hbm.ext hq1.ext⟩,
          (hv.q2 hcb hq1).mono (Nat.lt_succ_self _) (Nat.succ_le_of_lt hv.lt)⟩
      · simp only [hb, if_false, Bool.false_eq_true]
        have hne : node ≠ fmtElem := by simpa using hb
        have hcb1 := hq1.cb
        have hv1 := hv.q2 hcb hq1
        have hget1 : s1.openElems[m]? = some node := by rw [hq1.openElems]; exact hget
        have hnel1 : IsEl s1.dom node := hnel.ext hq1.ext
        -- `open_elems.remove(node_index)` and the next iteration
        have hErase : ∀ s2, CB d0 s2 → Ext s.dom s2.dom → IsEl s2.dom fb → AInv s2 fmtElem pre (m + 1) lastNode →
            s2.openElems[m]? = some node →
            SatC (do
              modS fun s => { s with openElems := s.openElems.eraseIdx m }
              aaInner fmtElem fb m (c + 1) lastNode bm) s2 (InnerPostC d0 s fmtElem fb pre) := by
          intro s2 hcb2 he2 hfb2 hv2 hget2
          refine satc_modS_bind ?_
          have hcb3 := (cb_dropStack hcb2 (List.eraseIdx_sublist s2.openElems m)).1
          refine (ih (c + 1) _ lastNode bm hcb3 hfb2 (hbm.ext he2) (hv2.erase hget2 hne)).mono ?_
          rintro r s4 ⟨h1, h2, h3, h4⟩
          exact ⟨h1, he2.trans h2, h3, h4⟩
        -- the two tree operations and the next iteration
        have hRec : ∀ (bm' : Bookmark) (s6 : State) (new : Id) (j : Nat), CB d0 s6 → Ext s.dom s6.dom →
            IsEl s6.dom fb → IsEl s6.dom (bmId bm') → AInv s6 fmtElem pre m lastNode →
            s6.openElems[m]? = some new → m < j →
            s6.openElems[j]? = some lastNode → s6.dom.parentOf new = none →
            SatC (do
              let bookmark ← pure bm'
              sinkUnit (SinkOp.removeFromParent lastNode)
              sinkUnit (SinkOp.append new (NodeOrText.node lastNode))
              aaInner fmtElem fb m (c + 1) new bookmark) s6 (InnerPostC d0 s fmtElem fb pre) := by
          intro bm' s6 new j hcb6 he6 hfb6 hbm6 hv6 hm6 hmj hj6 hpar6
          refine SatC.bind (Q := fun r s' => bm' = r ∧ s6 = s') (satc_pure ⟨rfl, rfl⟩) ?_
          rintro bm'' s6' ⟨rfl, rfl⟩
          have hlel : IsEl s6.dom lastNode := hcb6.h.open_el _ (List.mem_of_getElem? hj6)
          have hnewel : IsEl s6.dom new := hcb6.h.open_el _ (List.mem_of_getElem? hm6)
          have hnl : lastNode ≠ new := by
            rintro rfl
            have hnd := hv6.sa.nodup
            have hlt : j < s6.openElems.length := TBSafe.getElem?_lt_of_some hj6
            have hlt' : m < s6.openElems.length := TBSafe.getElem?_lt_of_some hm6
            have := (List.getElem?_inj hlt hnd).mp (hj6.trans hm6.symm)
            omega
          refine (satc_removeFromParent hcb6 hlel).bind ?_
          rintro _ s7 ⟨ht7, hsz7, hp7⟩
          have hpl7 : s7.dom.parentOf lastNode = none := by rw [hp7]; simp
          have hpn7 : s7.dom.parentOf new = none := by
            rw [hp7]; split
            · rfl
            · exact hpar6
          refine (satc_append_moved ht7.cb (hnewel.ext ht7.ext) (hlel.ext ht7.ext) hpl7 ?_).bind ?_
          · intro ha
            exact hnl (anc_of_parentless hpn7 ha)
          rintro _ s8 ⟨ht8, heff8⟩
          have ho8 : s8.openElems = s6.openElems := by rw [ht8.openElems, ht7.openElems]
          have he68 : Ext s6.dom s8.dom := ht7.ext.trans ht8.ext
          have hsa8 : SAnc s8.dom s8.openElems := by
            rw [ho8]
            exact sanc_after_append hcb6.d.inv.wf hcb6.h.lt hv6.sa hm6 hj6 hmj hpar6 hp7 heff8.par
          have hv8 : AInv s8 fmtElem pre m new :=
            (hv6.same_stack hcb6.h.open_el ho8 he68 hsa8).relast ⟨m, Nat.le_refl _, by rw [ho8]; exact hm6⟩
          refine (ih (c + 1) s8 new bm' ht8.cb (hfb6.ext he68) (hbm6.ext he68) hv8).mono ?_
          rintro r s9 ⟨h1, h2, h3, h4⟩
          exact ⟨h1, (he6.trans he68).trans h2, h3, h4⟩
        -- `create_element` for the clone, the replacement in the two lists
        have hCreate : ∀ (t : Tag) (nfi : Nat) (s3 : State), CB d0 s3 → Ext s.dom s3.dom → IsEl s3.dom fb →
            AInv s3 fmtElem pre (m + 1) lastNode → s3.openElems[m]? = some node →
            isOneOf t.name fmtNames = true → AttrsOk t.attrs →
            SatC (do
              let tag ← pure t
              let newElement ← createElementWithFlags (htmlQual tag.name) tag.attrs tag.hadDup
              modS fun s => { s with
                openElems := s.openElems.set m newElement,
                activeFormatting := s.activeFormatting.set nfi (FormatEntry.element newElement tag) }
              let __do_lift ← sameNode lastNode fb
              if __do_lift = true then do
                  let bookmark ← pure (Bookmark.insertAfter newElement)
                  sinkUnit (SinkOp.removeFromParent lastNode)
                  sinkUnit (SinkOp.append newElement (NodeOrText.node lastNode))
                  aaInner fmtElem fb m (c + 1) newElement bookmark
                else do
                  let bookmark ← pure bm
                  sinkUnit (SinkOp.removeFromParent lastNode)
                  sinkUnit (SinkOp.append newElement (NodeOrText.node lastNode))
                  aaInner fmtElem fb m (c + 1) newElement bookmark) s3 (InnerPostC d0 s fmtElem fb pre) := by
          intro t nfi s3 hcb3 he3 hfb3 hv3 hget3 hfmt hattrs
          refine SatC.bind (Q := fun r s' => t = r ∧ s3 = s') (satc_pure ⟨rfl, rfl⟩) ?_
          rintro t' s3' ⟨rfl, rfl⟩
          refine (satc_createElement hcb3 (attrKeysNodup_of_attrsOk hattrs)).bind ?_
          intro new s4 hcr
          have hcb4 := hcr.q.cb
          have hv4 := hv3.q2 hcb3 hcr.q
          have hget4 : s4.openElems[m]? = some node := by rw [hcr.q.openElems]; exact hget3
          have hnm4 : nm s4.dom new = ⟨nsHtml, t.name⟩ := hcr.nm
          have hnotin : new ∉ s4.openElems := by
            intro hmem
            rw [hcr.q.openElems] at hmem
            exact Nat.lt_irrefl _ (Nat.lt_of_lt_of_le (hcb3.h.lt new hmem) hcr.ge)
          obtain ⟨j, hj, hlj⟩ := hv4.last
          refine satc_modS_bind ?_
          have hmlt : m < s4.openElems.length := TBSafe.getElem?_lt_of_some hget4
          have hcb5 : CB d0 ({ s4 with openElems := s4.openElems.set m new
                                       activeFormatting := s4.activeFormatting.set nfi (FormatEntry.element new t) } : State) := by
            refine cb_upd hcb4 _ _ ?_ ?_
            · intro x hx
              rcases List.mem_or_eq_of_mem_set hx with h | h
              · exact Or.inl h
              · subst h; exact Or.inr ⟨hcr.el, hcr.tc⟩
            · intro x t' hx
              rcases List.mem_or_eq_of_mem_set hx with h | h
              · exact Or.inl h
              · cases h; exact Or.inr ⟨hcr.el, hnm4, hfmt, hattrs⟩
          have hv5 := hv4.replace hget4 hne hcr.fresh.par (noKids_of_children hcb4.d.inv.wf hcr.fresh.kids) hnotin
            (notTT_of_fmt hnm4 hfmt) (s4.activeFormatting.set nfi (FormatEntry.element new t))
          have hm5 : (s4.openElems.set m new)[m]? = some new := by
            rw [List.getElem?_set]; simp [hmlt]
          have hj5 : (s4.openElems.set m new)[j]? = some lastNode := by
            rw [List.getElem?_set]
            have hmj : m ≠ j := by omega
            simp only [hmj, if_false]; exact hlj
          have hlel5 : IsEl s4.dom lastNode := hcb4.h.open_el _ (List.mem_of_getElem? hlj)
          have hfb4 : IsEl s4.dom fb := hfb3.ext hcr.q.ext
          refine (satcv_sameNode hcb5 hlel5 hfb4).bind ?_
          rintro b6 s6 ⟨-, hq6⟩
          have he6 : Ext s.dom s6.dom := (he3.trans hcr.q.ext).trans hq6.ext
          have hpar6 : s6.dom.parentOf new = none := by
            rw [hq6.g.oldPar new hcr.lt]; exact hcr.fresh.par
          have hv6 := hv5.q2 hcb5 hq6
          have hm6 : s6.openElems[m]? = some new := by rw [hq6.openElems]; exact hm5
          have hj6 : s6.openElems[j]? = some lastNode := by rw [hq6.openElems]; exact hj5
          refine satc_ite (fun _ => ?_) (fun _ => ?_)
          · exact hRec _ s6 new j hq6.cb he6 (hfb4.ext hq6.ext) (hcr.el.ext hq6.ext) hv6 hm6 (by omega) hj6 hpar6
          · exact hRec _ s6 new j hq6.cb he6 (hfb4.ext hq6.ext) (hbm.ext he6) hv6 hm6 (by omega) hj6 hpar6
        refine satc_ite (fun _ => ?_) (fun _ => ?_)
        · refine (satc_positionInActiveFormatting hcb1 hnel1).bind ?_
          intro r s2 hq2
          have hq12 := hq1.trans hq2
          have hv2 := hv1.q2 hcb1 hq2
          have hget2 : s2.openElems[m]? = some node := by rw [hq2.openElems]; exact hget1
          cases r with
          | none => dsimp only; exact hErase s2 hq2.cb hq12.ext (hfb.ext hq12.ext) hv2 hget2
          | some pos =>
            dsimp only
            refine (satc_afRemove).bind ?_
            rintro _ s3 rfl
            exact hErase _ (cb_afErase hq2.cb pos) hq12.ext (hfb.ext hq12.ext) (hv2.withAF _) hget2
        · refine (satc_positionInActiveFormatting hcb1 hnel1).bind ?_
          intro r s2 hq2
          have hq12 := hq1.trans hq2
          have hv2 := hv1.q2 hcb1 hq2
          have hget2 : s2.openElems[m]? = some node := by rw [hq2.openElems]; exact hget1
          cases r with
          | none => dsimp only; exact hErase s2 hq2.cb hq12.ext (hfb.ext hq12.ext) hv2 hget2
          | some nfi =>
            dsimp only
            refine satc_getS_bind ?_
            cases hent : s2.activeFormatting[nfi]? with
            | none => exact satc_false_bind satc_panicAt
            | some e =>
              cases e with
              | marker => exact satc_false_bind satc_panicAt
              | element h t =>
                dsimp only
                obtain ⟨hhel, _, hfmt, hattrs⟩ := hq2.cb.h.af h t (List.mem_of_getElem? hent)
                refine (satcv_sameNode hq2.cb hhel (hnel1.ext hq2.ext)).bind ?_
                rintro b3 s3 ⟨-, hq3⟩
                have hq13 := hq12.trans hq3
                refine satc_ite (fun _ => satc_false_bind satc_panicAt) (fun _ => ?_)
                exact hCreate t nfi s3 hq3.cb hq13.ext (hfb.ext hq13.ext) (hv2.q2 hq2.cb hq3)
                  (by rw [hq3.openElems]; exact hget2) hfmt hattrs

/-! ### pieces of the outer step -/

theorem mem_insertIdx_or {α : Type} {l : List α} {i : Nat} {a x : α} (h : x ∈ l.insertIdx i a) : x = a ∨ x ∈ l := by
  by_cases hi : i ≤ l.length
  · exact (List.mem_insertIdx hi).mp h
  · rw [List.insertIdx_of_length_lt (by omega)] at h; exact Or.inr h

/-- the two ways of finding the topmost occurrence agree -/
theorem split_last_unique {P : Id → Bool} {pre pre' post post' : List Id} {x x' : Id}
    (h : pre ++ x :: post = pre' ++ x' :: post') (hx : P x = true) (hx' : P x' = true)
    (hp : ∀ y ∈ post, P y = false) (hp' : ∀ y ∈ post', P y = false) : pre = pre' ∧ x = x' ∧ post = post' := by
  have hlen : pre.length = pre'.length := by
    rcases Nat.lt_trichotomy pre.length pre'.length with hlt | heq | hgt
    · exfalso
      have h1 : (pre ++ x :: post)[pre'.length]? = some x' := by rw [h]; simp
      rw [List.getElem?_append_right (Nat.le_of_lt hlt)] at h1
      have h2 : pre'.length - pre.length = (pre'.length - pre.length - 1) + 1 := by omega
      rw [h2, List.getElem?_cons_succ] at h1
      have := hp x' (List.mem_of_getElem? h1)
      rw [hx'] at this; cases this
    · exact heq
    · exfalso
      have h1 : (pre' ++ x' :: post')[pre.length]? = some x := by rw [← h]; simp
      rw [List.getElem?_append_right (Nat.le_of_lt hgt)] at h1
      have h2 : pre.length - pre'.length = (pre.length - pre'.length - 1) + 1 := by omega
      rw [h2, List.getElem?_cons_succ] at h1
      have := hp' x (List.mem_of_getElem? h1)
      rw [hx] at this; cases this
  obtain ⟨h1, h2⟩ := List.append_inj h hlen
  simp only [List.cons.injEq] at h2
  exact ⟨h1, h2.1, h2.2⟩

/-- `if c { pre } rest` -/
theorem satc_if_pre {β : Type} {c : Prop} [Decidable c] {pre : M Unit} {rest : M β} {s : State}
    {R : β → State → Prop} (hcb : CB d0 s) (hpre : SatC pre s (fun _ s' => Q2 d0 s s'))
    (hrest : ∀ s', Q2 d0 s s' → SatC rest s' R) :
    SatC (if c then (do pre; rest) else rest) s R := by
  refine satc_ite (fun _ => ?_) (fun _ => ?_)
  · exact hpre.bind (fun _ s' h => hrest s' h)
  · exact hrest s (Q2.refl hcb)

/-- `remove_from_stack` -/
theorem satc_removeFromStack {elem : Id} {s : State} (hcb : CB d0 s) (hel : IsEl s.dom elem) :
    SatC (removeFromStack elem) s (fun _ s' => CB d0 s' ∧ GrowRel s s' ∧ s'.openElems.Sublist s.openElems ∧
      s'.activeFormatting = s.activeFormatting) := by
  unfold removeFromStack
  refine (satcv_rposition (P := fun x => elem == x) hcb
    (fun x hx => answersC_sameNode_left hel (hcb.h.open_el x hx))).bind ?_
  rintro r s1 ⟨-, hq1⟩
  cases r with
  | none =>
    exact satc_pure ⟨hq1.cb, hq1.g, by rw [hq1.openElems]; exact List.Sublist.refl _, hq1.activeFormatting⟩
  | some pos =>
    dsimp only
    refine satc_modS_bind ?_
    obtain ⟨hcb2, hg2⟩ := cb_dropStack hq1.cb (List.eraseIdx_sublist s1.openElems pos)
    refine satc_sinkUnit hcb2.d (contract_pop (hel.ext hq1.ext)) ?_
    intro d' out ha hd
    have hq3 := q2_of_nt hcb2 rfl ha hd
    refine ⟨hq3.cb, (hq1.g.trans hg2).trans hq3.g, ?_, ?_⟩
    · show (s1.openElems.eraseIdx pos).Sublist s.openElems
      rw [← hq1.openElems]; exact List.eraseIdx_sublist _ _
    · show s1.activeFormatting = s.activeFormatting
      exact hq1.activeFormatting

/-- the stack-order invariant after steps 15–17 -/
theorem sanc_after_clone {d d1 d2 : Dom} {l : List Id} {fb new : Id} (hs : SAnc d l) (hn : new ∉ l)
    (hpar : d.parentOf new = none) (hk : NoKids d new)
    (h1 : ∀ x, d1.parentOf x = if d.parentOf x = some fb then some new else d.parentOf x)
    (h2 : ∀ x, d2.parentOf x = if x = new then some fb else d1.parentOf x) : SAnc d2 l := by
  unfold SAnc at hs ⊢
  refine hs.imp_of_mem ?_
  intro a b ha hb hnab hab
  exact hnab (anc_after_clone hpar hk h1 h2 (fun e => hn (e ▸ hb)) (fun e => hn (e ▸ ha)) hab)

/-- step 14: `last_node` is detached and inserted at the appropriate place for the common ancestor -/
theorem satc_aaStep14 {fmtElem lastNode ca : Id} {pre : List Id} {s : State} (hcb : CB d0 s)
    (hv : AInv s fmtElem pre (pre.length + 1) lastNode) (hca : ca ∈ pre) :
    SatC (do
      sinkUnit (SinkOp.removeFromParent lastNode)
      insertAppropriately (NodeOrText.node lastNode) (some ca)) s
      (fun _ s' => CB d0 s' ∧ Ext s.dom s'.dom ∧ s'.openElems = s.openElems ∧
        s'.activeFormatting = s.activeFormatting ∧ SAnc s'.dom s'.openElems) := by
  obtain ⟨j, hj, hlj⟩ := hv.last
  have hlel : IsEl s.dom lastNode := hcb.h.open_el _ (List.mem_of_getElem? hlj)
  have hsplit : s.openElems = pre ++ s.openElems.drop pre.length := by
    have := List.take_append_drop pre.length s.openElems
    rw [hv.take] at this; exact this.symm
  have hlm : lastNode ∈ s.openElems.drop pre.length := by
    refine List.mem_of_getElem? (i := j - pre.length) ?_
    rw [List.getElem?_drop]
    have : pre.length + (j - pre.length) = j := by omega
    rw [this]; exact hlj
  have hpostmem : ∀ y ∈ s.openElems.drop pre.length, y ∈ s.openElems := fun y hy => List.mem_of_mem_drop hy
  have hntt : ∀ y ∈ s.openElems.drop pre.length, NotTT s.dom y := by
    intro y hy
    obtain ⟨k, hk⟩ := List.mem_iff_getElem?.mp hy
    rw [List.getElem?_drop] at hk
    exact hv.ntt _ y (Nat.le_add_right _ _) hk
  refine (satc_removeFromParent hcb hlel).bind ?_
  rintro _ s7 ⟨ht7, _, hp7⟩
  have hsa7 : SAnc s7.dom s7.openElems := by
    rw [ht7.openElems]
    exact hv.sa.of_oldSub hcb.d.inv.wf hcb.h.lt (fun x q _ => parSub_of_remove hp7 x q)
  have hpl7 : s7.dom.parentOf lastNode = none := by rw [hp7]; simp
  unfold insertAppropriately
  have hl7 : s7.openElems = pre ++ s.openElems.drop pre.length := by rw [ht7.openElems]; exact hsplit
  refine (satc_appropriatePlace_ov ht7.cb hl7 hca
    (fun y hy => (hntt y hy).ext ht7.ext (hcb.h.open_el y (hpostmem y hy)))).bind ?_
  rintro ip s8 ⟨hq8, hv8, hf8⟩
  have hsa8 : SAnc s8.dom (pre ++ s.openElems.drop pre.length) := by
    have := hsa7.grow ht7.cb.d.inv.wf ht7.cb.h.lt hq8.g
    rw [hq8.openElems, hl7] at this; exact this
  have he8 : Ext s.dom s8.dom := ht7.ext.trans hq8.ext
  have hel8 : ∀ b ∈ s.openElems.drop pre.length, IsEl s8.dom b :=
    fun b hb => (hcb.h.open_el b (hpostmem b hb)).ext he8
  have hpl8 : s8.dom.parentOf lastNode = none := by
    rw [hq8.g.oldPar lastNode (lt_of_isEl (hlel.ext ht7.ext))]; exact hpl7
  refine (satc_insertAt_moved hq8.cb hv8 (hlel.ext he8) hpl8
    (fun P hP => ipFrom_not_anc hq8.cb.d.inv.kinds hsa8 hel8 hf8 hP lastNode hlm)
    (ipFrom_ne hsa8 hf8 hel8 hlm)).mono ?_
  rintro _ s9 ⟨ht9, P, hP, heff⟩
  have ho9 : s9.openElems = s.openElems := by rw [ht9.openElems, hq8.openElems, ht7.openElems]
  refine ⟨ht9.cb, he8.trans ht9.ext, ho9, ?_, ?_⟩
  · rw [ht9.activeFormatting, hq8.activeFormatting, ht7.activeFormatting]
  · rw [ho9, hsplit]
    exact sanc_move hsa8 hlm (ipFrom_not_anc hq8.cb.d.inv.kinds hsa8 hel8 hf8 hP)
      (fun a y h => anc_attach heff.par h)

/-- step 19: the formatting element leaves the stack, its clone goes right above the furthest block -/
theorem satc_aaStep19 {fmtElem fb new : Id} {s : State} (hcb : CB d0 s) (hsa : SAnc s.dom s.openElems)
    (hfel : IsEl s.dom fmtElem) (hfbel : IsEl s.dom fb) (hnel : IsEl s.dom new) (htc : TcDoc s.dom new)
    (hn : new ∉ s.openElems) (hp : s.dom.parentOf new = some fb) :
    SatC (do
      removeFromStack fmtElem
      let __do_lift ← getS
      let __do_lift ← positionSameNode fb __do_lift.openElems 0
      match __do_lift with
        | none => panicAt "fb-missing" "mod.rs:916" "furthest block missing from open element stack"
        | some nfbi => do
          modS fun s => { s with openElems := s.openElems.insertIdx (nfbi + 1) new }
          pure false) s (fun _ s' => CB d0 s' ∧ SAnc s'.dom s'.openElems ∧ Ext s.dom s'.dom) := by
  refine (satc_removeFromStack hcb hfel).bind ?_
  rintro _ s1 ⟨hcb1, hg1, hsub1, _⟩
  have hsa1 : SAnc s1.dom s1.openElems := hsa.grow hcb.d.inv.wf hcb.h.lt hg1
  refine satc_getS_bind ?_
  refine (satcv_positionSameNode _ 0 s1 hcb1 (hfbel.ext hg1.ext) hcb1.h.open_el).bind ?_
  rintro r s2 ⟨rfl, hq2⟩
  cases hpos : TBSafe.posP fb s1.openElems 0 with
  | none => exact satc_panicAt
  | some nfbi =>
    dsimp only
    refine satc_modS_bind ?_
    obtain ⟨_, hget⟩ := posP_some hpos
    rw [Nat.sub_zero] at hget
    have he2 : Ext s.dom s2.dom := hg1.ext.trans hq2.ext
    have hsa2 : SAnc s2.dom s2.openElems := hsa1.grow hcb1.d.inv.wf hcb1.h.lt hq2.g
    have hn2 : new ∉ s2.openElems := by
      rw [hq2.openElems]; exact fun h => hn (hsub1.subset h)
    have hp2 : s2.dom.parentOf new = some fb := by
      rw [hq2.g.oldPar new (lt_of_isEl (hnel.ext hg1.ext)), hg1.oldPar new (lt_of_isEl hnel)]; exact hp
    have hget2 : s2.openElems[nfbi]? = some fb := by rw [hq2.openElems]; exact hget
    obtain ⟨A, B, hsplit, hlen⟩ := split_at_getElem? hget2
    refine satc_pure ⟨?_, ?_, he2⟩
    · refine cb_updStack hq2.cb _ ?_
      intro x hx
      rcases mem_insertIdx_or hx with h | h
      · subst h; exact Or.inr ⟨hnel.ext he2, htc.ext he2 (hg1.kext.trans hq2.g.kext) hnel⟩
      · exact Or.inl h
    · show SAnc s2.dom (s2.openElems.insertIdx (nfbi + 1) new)
      rw [hsplit] at hsa2 hn2
      rw [hsplit, ← hlen, insertIdx_split]
      exact sanc_insert_above hq2.cb.d.inv.wf hsa2 hn2 hp2

end H5V.Lemmas.TBC
