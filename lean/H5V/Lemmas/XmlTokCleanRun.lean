import H5V.Lemmas.XmlTokClean
import H5V.Lemmas.XmlTokSafe
/-!
C15, "no raw CR / NUL reaches the sink" — the reader, the character-reference sub-tokenizer,
`step`, `run`, `feed` and `end` of the XML tokenizer model.

`CInv P m` = `CleanP P m` plus: a pending reconsume will deliver a preprocessed character.
-/
namespace H5V.Model.XmlTok

/-- the invariant: clean buffers and token log; a pending reconsume re-delivers a character that
went through `get_preprocessed_char` -/
def CInv (P : Char → Prop) (m : Mach) : Prop := CleanP P m ∧ (m.reconsume = true → QC m.currentChar)

section reader
variable {P : Char → Prop}

theorem CInv.of_fields {m m' : Mach} (h : CInv P m) (hc : CleanP P m') (hr : m'.reconsume = m.reconsume)
    (hcc : m'.currentChar = m.currentChar) : CInv P m' :=
  ⟨hc, fun hr' => by rw [hcc]; exact h.2 (by rw [← hr]; exact hr')⟩
theorem CInv.of_nrc {m' : Mach} (hc : CleanP P m') (hr : m'.reconsume = false) : CInv P m' :=
  ⟨hc, fun hr' => by rw [hr] at hr'; cases hr'⟩
theorem CInv.of_cc {m' : Mach} (hc : CleanP P m') (hcc : QC m'.currentChar) : CInv P m' := ⟨hc, fun _ => hcc⟩

theorem CInv_emit {m : Mach} (h : CInv P m) {t : Token} (ht : t.Clean P) : CInv P (emit m t) :=
  h.of_fields (CleanP_emit h.1 ht) (by simp) (by simp)
theorem CInv_emitErr {m : Mach} (h : CInv P m) (s : String) : CInv P (emitErr m s) :=
  h.of_fields (CleanP_emitErr h.1 s) (by simp) (by simp)
theorem CInv_nameErr {m : Mach} (h : CInv P m) (o : Opts) (nb : Str) : CInv P (nameErr o m nb) := by
  unfold nameErr; split
  · exact CInv_emit h trivial
  · exact CInv_emitErr h _
theorem CInv_badChar {m : Mach} (h : CInv P m) (o : Opts) : CInv P (badChar o m) :=
  h.of_fields (CleanP_badChar h.1 o) (by simp) (by simp)
theorem CInv_setIgnoreLf {m : Mach} (h : CInv P m) (b : Bool) : CInv P (m.setIgnoreLf b) :=
  h.of_fields (CleanP_setIgnoreLf h.1 b) (by simp) (by simp)
theorem CInv_setTempBuf {m : Mach} (h : CInv P m) (s : Str) : CInv P (m.setTempBuf s) :=
  h.of_fields (CleanP_setTempBuf h.1 s) (by simp) (by simp)
theorem CInv_setCharRef {m : Mach} (h : CInv P m) (x : Option CharRefSt) : CInv P (m.setCharRef x) :=
  h.of_fields (CleanP_setCharRef h.1 x) (by simp) (by simp)
theorem CInv_setAtEof {m : Mach} (h : CInv P m) (b : Bool) : CInv P (m.setAtEof b) :=
  h.of_fields (CleanP_setAtEof h.1 b) (by simp) (by simp)
theorem CInv_setDiscardBom {m : Mach} (h : CInv P m) (b : Bool) : CInv P (m.setDiscardBom b) :=
  h.of_fields (CleanP_setDiscardBom h.1 b) (by simp) (by simp)
theorem CInv_to {m : Mach} (h : CInv P m) (s : State) : CInv P (to s m) :=
  h.of_fields (CleanP_to h.1 s) (by simp) (by simp)
theorem CInv_clearComment {m : Mach} (h : CInv P m) : CInv P (clearComment m) :=
  h.of_fields (CleanP_clearComment h.1) (by simp) (by simp)

/-! ### `get_preprocessed_char` -/

/-- what `get_preprocessed_char` delivers: CR→LF, NUL→U+FFFD, everything else unchanged -/
theorem foldChar_char (o : Opts) (m : Mach) (c : Char) :
    (foldChar o m c).1 = if c = '\r' then '\n' else if c = '\x00' then '�' else c := by
  unfold foldChar
  dsimp only
  by_cases h : c = '\r'
  · subst h; simp
  · simp only [h, ↓reduceIte]

/-- **the character `get_preprocessed_char` delivers is neither CR nor NUL** -/
theorem foldChar_QC (o : Opts) (m : Mach) (c : Char) : QC (foldChar o m c).1 := by
  rw [foldChar_char]
  split
  · decide
  · split
    · decide
    · exact ⟨by assumption, by assumption⟩

theorem foldChar_cc (o : Opts) (m : Mach) (c : Char) : (foldChar o m c).2.currentChar = (foldChar o m c).1 := by
  unfold foldChar; rfl

theorem foldChar_cleanP (o : Opts) {m : Mach} (h : CleanP P m) (c : Char) : CleanP P (foldChar o m c).2 := by
  unfold foldChar
  generalize hcm : (if c = '\r' then ('\n', m.setIgnoreLf true) else (c, m)) = cm
  have h2 : CleanP P cm.2 := by
    rw [← hcm]; split
    · exact CleanP_setIgnoreLf h true
    · exact h
  dsimp only
  generalize (if cm.1 = '\x00' then '�' else cm.1) = c'
  apply CleanP_setCurrentChar
  split
  · exact CleanP_emitE h2 _
  · exact h2

/-- `get_preprocessed_char` proper -/
theorem preprocess_clean (o : Opts) {m : Mach} (h : CleanP P m) (c : Char) (inp : Str) :
    CleanP P (preprocess o m c inp).2.1 ∧
    ∀ x, (preprocess o m c inp).1 = some x → QC x ∧ (preprocess o m c inp).2.1.currentChar = x := by
  unfold preprocess
  split
  · split
    · cases inp with
      | nil => exact ⟨CleanP_setIgnoreLf h false, fun x hx => by cases hx⟩
      | cons c' rest =>
        refine ⟨foldChar_cleanP o (CleanP_setIgnoreLf h false) c', fun x hx => ?_⟩
        simp only [Option.some.injEq] at hx; subst hx
        exact ⟨foldChar_QC _ _ _, foldChar_cc _ _ _⟩
    · refine ⟨foldChar_cleanP o (CleanP_setIgnoreLf h false) c, fun x hx => ?_⟩
      simp only [Option.some.injEq] at hx; subst hx
      exact ⟨foldChar_QC _ _ _, foldChar_cc _ _ _⟩
  · refine ⟨foldChar_cleanP o h c, fun x hx => ?_⟩
    simp only [Option.some.injEq] at hx; subst hx
    exact ⟨foldChar_QC _ _ _, foldChar_cc _ _ _⟩

/-- `get_char`: the machine stays clean, no reconsume is pending afterwards, and the character
delivered (fresh or reconsumed) is preprocessed and is `current_char` -/
theorem getChar_clean (o : Opts) {m : Mach} (h : CInv P m) (inp : Str) :
    CleanP P (getChar o m inp).2.1 ∧ (getChar o m inp).2.1.reconsume = false ∧
    ∀ x, (getChar o m inp).1 = some x → QC x ∧ (getChar o m inp).2.1.currentChar = x := by
  unfold getChar
  split
  · rename_i hr
    refine ⟨CleanP_setReconsume h.1 false, rfl, fun x hx => ?_⟩
    simp only [Option.some.injEq] at hx; subst hx
    exact ⟨h.2 hr, rfl⟩
  · rename_i hr
    cases inp with
    | nil => exact ⟨h.1, by simpa using hr, fun x hx => by cases hx⟩
    | cons c rest =>
      obtain ⟨p1, p2⟩ := preprocess_clean (P := P) o h.1 c rest
      exact ⟨p1, by rw [preprocess_reconsume]; simpa using hr, p2⟩

theorem getChar_cinv (o : Opts) {m : Mach} (h : CInv P m) (inp : Str) : CInv P (getChar o m inp).2.1 :=
  CInv.of_nrc (getChar_clean o h inp).1 (getChar_clean o h inp).2.1

/-- `pop_except_from` with a set that contains CR and NUL: a `FromSet` character went through
`get_preprocessed_char`; a raw `NotFromSet` run contains neither CR nor NUL -/
theorem popExceptFrom_clean (o : Opts) (S : List Char)
    (hS : S.contains '\r' = true ∧ S.contains '\x00' = true) {m : Mach} (h : CInv P m) (inp : Str) :
    CleanP P (popExceptFrom o S m inp).2.1 ∧ (popExceptFrom o S m inp).2.1.reconsume = false ∧
    ∀ r, (popExceptFrom o S m inp).1 = some r → r.Clean := by
  unfold popExceptFrom
  split
  · obtain ⟨g1, g2, g3⟩ := getChar_clean o h inp
    refine ⟨g1, g2, fun r hr => ?_⟩
    dsimp only at hr
    cases hg : (getChar o m inp).1 with
    | none => rw [hg] at hr; cases hr
    | some x =>
      rw [hg] at hr
      simp only [Option.map_some, Option.some.injEq] at hr
      subst hr
      exact (g3 x hg).1
  · rename_i hcond
    have hrc : m.reconsume = false := by
      cases hh : m.reconsume with
      | false => rfl
      | true => simp [hh] at hcond
    cases inp with
    | nil => exact ⟨h.1, hrc, fun r hr => by cases hr⟩
    | cons c rest =>
      dsimp only
      split
      · obtain ⟨p1, p2⟩ := preprocess_clean (P := P) o h.1 c rest
        refine ⟨p1, by rw [preprocess_reconsume]; exact hrc, fun r hr => ?_⟩
        dsimp only at hr
        cases hg : (preprocess o m c rest).1 with
        | none => rw [hg] at hr; cases hr
        | some x =>
          rw [hg] at hr
          simp only [Option.map_some, Option.some.injEq] at hr
          subst hr
          exact (p2 x hg).1
      · rename_i hc
        have hc' : S.contains c = false := by simpa using hc
        refine ⟨h.1, hrc, fun r hr => ?_⟩
        simp only [Option.some.injEq] at hr
        subst hr
        have h1 : c ≠ '\r' := by intro e; rw [e, hS.1] at hc'; cases hc'
        have h2 : c ≠ '\x00' := by intro e; rw [e, hS.2] at hc'; cases hc'
        exact AllS_single ⟨h1, h2⟩

/-! ### look-ahead (`eat`) and `unconsume` -/

theorem eatSkipLf_cinv (o : Opts) {m : Mach} (h : CInv P m) (inp : Str) : CInv P (eatSkipLf o m inp).1 := by
  unfold eatSkipLf
  split
  · split
    · split
      · exact getChar_cinv o (CInv_setIgnoreLf h false) inp
      · exact CInv_setIgnoreLf h false
    · exact h
  · exact h

theorem eat_cinv (o : Opts) {m : Mach} (h : CInv P m) (inp pat : Str) : CInv P (eat o m inp pat).2.1 := by
  have h1 := eatSkipLf_cinv o h inp
  unfold eat
  dsimp only
  generalize eatSkipLf o m inp = mi at h1
  repeat' split
  all_goals exact CInv_setTempBuf h1 _

theorem unconsume_cinv {m : Mach} (h : CInv P m) (inp buf : Str) : CInv P (unconsume m inp buf).1 := by
  unfold unconsume; split
  · exact CInv_setIgnoreLf h false
  · exact h

end reader

/-! ### the character-reference sub-tokenizer keeps the machine clean (it only reads, pushes back
and logs errors); what it *delivers* is handled by `processCharRef_cinv` -/

section charref
variable {P : Char → Prop}

theorem discardChar_cinv (o : Opts) {m : Mach} (h : CInv P m) (inp : Str) (m1 : Mach) (i1 : Str)
    (hd : discardChar o m inp = .ok (m1, i1)) : CInv P m1 := by
  unfold discardChar at hd
  have hg := getChar_cinv o h inp
  generalize getChar o m inp = r at hd hg
  obtain ⟨c, m2, i2⟩ := r
  cases c with
  | none => simp at hd
  | some c =>
    simp only [Except.ok.injEq, Prod.mk.injEq] at hd
    obtain ⟨h1, _⟩ := hd; subst h1
    exact hg

theorem finishNumeric_cinv (o : Opts) {m : Mach} (h : CInv P m) (cr : CharRefSt) :
    CInv P (finishNumeric o m cr).1 := by
  unfold finishNumeric
  dsimp only
  repeat' split
  all_goals first | exact h | exact CInv_emit h trivial | exact CInv_emitErr h _

/-- the machine of a successful sub-tokenizer step satisfies the invariant -/
def CRRes.Good (P : Char → Prop) (r : CRRes) : Prop :=
  match r with
  | .error _ => True
  | .ok (m1, _, _, _) => CInv P m1

theorem unconsumeNumeric_good {m : Mach} (h : CInv P m) (inp : Str) (cr : CharRefSt) :
    (unconsumeNumeric m inp cr).Good P := by
  simp only [unconsumeNumeric, CRRes.Good]
  exact CInv_emitErr (unconsume_cinv h _ _) _

theorem finishNumericStatus_good (o : Opts) {m : Mach} (h : CInv P m) (inp : Str) (cr : CharRefSt) :
    (finishNumericStatus o m inp cr).Good P := by
  unfold finishNumericStatus
  have := finishNumeric_cinv o h cr
  split
  · rename_i heq; rw [heq] at this; exact this
  · trivial

theorem unconsumeName_good {m : Mach} (h : CInv P m) (inp : Str) (cr : CharRefSt) :
    (unconsumeName m inp cr).Good P := by
  unfold unconsumeName
  split
  · trivial
  · exact unconsume_cinv h _ _

theorem namedDecision_cinv {m : Mach} (h : CInv P m) (cr : CharRefSt) (nb : Str) (c1 c2 : Nat) (m1 : Mach)
    (r : Option Str) (hd : namedDecision m cr nb c1 c2 = .ok (m1, r)) : CInv P m1 := by
  unfold namedDecision at hd
  dsimp only at hd
  repeat' split at hd
  all_goals
    first
      | (simp at hd; done)
      | (simp only [Except.ok.injEq, Prod.mk.injEq] at hd
         obtain ⟨h1, _⟩ := hd; subst h1
         first | exact h | exact CInv_emitErr h _)

theorem finishNamed_good (o : Opts) {m : Mach} (h : CInv P m) (inp : Str) (cr : CharRefSt) (ec : Option Char) :
    (finishNamed o m inp cr ec).Good P := by
  unfold finishNamed
  split
  · trivial
  · split
    · dsimp only
      repeat' split
      all_goals
        first
          | exact h
          | exact unconsumeName_good h _ _
          | exact unconsumeName_good (CInv_nameErr h _ _) _ _
          | (apply unconsumeName_good
             repeat' split
             all_goals first | exact h | exact CInv_nameErr h _ _)
    · split
      · trivial
      · exact unconsumeName_good (namedDecision_cinv h _ _ _ _ _ _ (by assumption)) _ _
      · exact unconsume_cinv (namedDecision_cinv h _ _ _ _ _ _ (by assumption)) _ _

/-- **one step of the character-reference sub-tokenizer keeps the machine clean** -/
theorem crStep_good (o : Opts) {m : Mach} (h : CInv P m) (inp : Str) (cr : CharRefSt) :
    (crStep o m inp cr).Good P := by
  unfold crStep
  cases hst : cr.state with
  | named =>
    simp only
    have hp := getChar_cinv o h inp
    generalize getChar o m inp = r at hp
    obtain ⟨c, m2, i2⟩ := r
    cases c with
    | none => exact hp
    | some c =>
      simp only
      repeat' split
      all_goals first | trivial | exact hp | exact finishNamed_good o hp _ _ _
  | bogusName =>
    simp only
    have hp := getChar_cinv o h inp
    generalize getChar o m inp = r at hp
    obtain ⟨c, m2, i2⟩ := r
    cases c with
    | none => exact hp
    | some c =>
      simp only
      repeat' split
      all_goals
        first
          | trivial
          | exact hp
          | exact unconsumeName_good (CInv_nameErr hp _ _) _ _
          | exact unconsumeName_good hp _ _
  | begin =>
    simp only
    repeat' split
    all_goals first | trivial | exact h | exact discardChar_cinv o h _ _ _ (by assumption)
  | octothorpe =>
    simp only
    repeat' split
    all_goals first | trivial | exact h | exact discardChar_cinv o h _ _ _ (by assumption)
  | numeric base =>
    simp only
    repeat' split
    all_goals
      first
        | trivial
        | exact h
        | exact discardChar_cinv o h _ _ _ (by assumption)
        | exact unconsumeNumeric_good h _ _
  | numericSemicolon =>
    simp only
    repeat' split
    all_goals
      first
        | trivial
        | exact h
        | exact finishNumericStatus_good o (discardChar_cinv o h _ _ _ (by assumption)) _ _
        | exact finishNumericStatus_good o (CInv_emitErr h _) _ _

/-- `process_char_ref`: the delivered characters go to a character token (`emit_char`, which folds
NUL once more) or to the attribute value — **the only place where a character that did not come
through `get_preprocessed_char` enters a token** -/
theorem foldl_emitChar_cinv [Allow P] (chars : Str) {m : Mach} (h : CInv P m) (hc : AllS P chars) :
    CInv P (chars.foldl emitChar m) := by
  induction chars generalizing m with
  | nil => exact h
  | cons c cs ih =>
    exact ih (h.of_fields (CleanP_emitChar' h.1 (hc c (by simp))) (by simp) (by simp))
      (fun x hx => hc x (List.mem_cons_of_mem _ hx))

theorem foldl_pushValue_cinv (chars : Str) {m : Mach} (h : CInv P m) (hc : AllS P chars) :
    CInv P (chars.foldl (fun m c => pushValue c m) m) := by
  induction chars generalizing m with
  | nil => exact h
  | cons c cs ih =>
    exact ih (h.of_fields (CleanP_pushValue' h.1 (hc c (by simp))) (by simp) (by simp))
      (fun x hx => hc x (List.mem_cons_of_mem _ hx))

theorem processCharRef_cinv [Allow P] {m : Mach} (h : CInv P m) {chars : Str} (hc : AllS P chars) :
    CInv P (processCharRef m chars).1 := by
  unfold processCharRef
  dsimp only
  have hc' : AllS P (if chars.isEmpty = true then ['&'] else chars) := by
    split
    · exact AllS_single (Allow.of_qc _ (by decide))
    · exact hc
  split
  · exact foldl_emitChar_cinv _ h hc'
  · exact foldl_emitChar_cinv _ h hc'
  · exact foldl_pushValue_cinv _ h hc'
  · exact h

end charref

/-! ### one `XmlTokenizer::step` -/

section step
variable {P : Char → Prop}

/-- the machine of a step result satisfies the invariant -/
def RInv (P : Char → Prop) : R → Prop
  | .cont m _ => CInv P m
  | .suspend m _ => CInv P m
  | .panic _ => True

theorem ofSig_RInv {ms : Mach × Sig} (h : CInv P ms.1) (inp : Str) : RInv P (ofSig ms inp) := by
  unfold ofSig
  split
  · exact h
  · trivial

/-- a `get_char!` state: read, then the table -/
theorem contChar_RInv [Allow P] (o : Opts) {m : Mach} (h : CInv P m) (inp : Str) :
    RInv P (contChar o (getChar o m inp)) := by
  obtain ⟨g1, g2, g3⟩ := getChar_clean o h inp
  generalize getChar o m inp = r at g1 g2 g3
  obtain ⟨c, m1, i1⟩ := r
  cases c with
  | none => exact CInv.of_nrc g1 g2
  | some c =>
    obtain ⟨q1, q2⟩ := g3 c rfl
    refine ofSig_RInv (CInv.of_cc (transChar_clean o g1 q1) ?_) _
    rw [transChar_cc]
    exact q2 ▸ q1

/-- a `pop_except_from` state: read (fast or slow path), then the table -/
theorem contSet_RInv [Allow P] (o : Opts) (S : List Char)
    (hS : S.contains '\r' = true ∧ S.contains '\x00' = true) {m : Mach} (h : CInv P m) (inp : Str) :
    RInv P (contSet (popExceptFrom o S m inp)) := by
  obtain ⟨g1, g2, g3⟩ := popExceptFrom_clean o S hS h inp
  generalize popExceptFrom o S m inp = r at g1 g2 g3
  obtain ⟨c, m1, i1⟩ := r
  cases c with
  | none => exact CInv.of_nrc g1 g2
  | some c =>
    refine ofSig_RInv (CInv.of_nrc (transSet_clean g1 (g3 c rfl)) ?_) _
    rw [transSet_rc]
    exact g2

theorem stepMd_RInv (o : Opts) {m : Mach} (h : CInv P m) (inp : Str) : RInv P (stepMd o m inp) := by
  unfold stepMd
  have e1 := eat_cinv o h inp kwDashDash
  generalize eat o m inp kwDashDash = r1 at e1
  obtain ⟨b1, m1, i1⟩ := r1
  rcases b1 with _ | _ | _
  · exact e1
  · dsimp only
    have e2 := eat_cinv o e1 i1 kwCdata
    generalize eat o m1 i1 kwCdata = r2 at e2
    obtain ⟨b2, m2, i2⟩ := r2
    rcases b2 with _ | _ | _
    · exact e2
    · dsimp only
      have e3 := eat_cinv o e2 i2 kwDoctype
      generalize eat o m2 i2 kwDoctype = r3 at e3
      obtain ⟨b3, m3, i3⟩ := r3
      rcases b3 with _ | _ | _
      · exact e3
      · exact CInv_to (CInv_badChar e3 o) _
      · exact CInv_to e3 _
    · exact CInv_to e2 _
  · exact CInv_to (CInv_clearComment e1) _

theorem stepAdn_RInv [Allow P] (o : Opts) {m : Mach} (h : CInv P m) (inp : Str) : RInv P (stepAdn o m inp) := by
  unfold stepAdn
  have e1 := eat_cinv o h inp kwPublic
  generalize eat o m inp kwPublic = r1 at e1
  obtain ⟨b1, m1, i1⟩ := r1
  rcases b1 with _ | _ | _
  · exact e1
  · dsimp only
    have e2 := eat_cinv o e1 i1 kwSystem
    generalize eat o m1 i1 kwSystem = r2 at e2
    obtain ⟨b2, m2, i2⟩ := r2
    rcases b2 with _ | _ | _
    · exact e2
    · exact contChar_RInv o e2 i2
    · exact CInv_to e2 _
  · exact CInv_to e1 _

/-- a step of the character-reference sub-tokenizer; `hd`: what it delivers (if it finishes) is
admissible for a character token / attribute value -/
theorem stepCharRef_RInv [Allow P] (o : Opts) {m : Mach} (h : CInv P m) (inp : Str) (cr : CharRefSt)
    (hd : ∀ m1 i1 cr1 chars, crStep o m inp cr = .ok (m1, i1, cr1, .done chars) → AllS P chars) :
    RInv P (stepCharRef o m inp cr) := by
  unfold stepCharRef
  have hg := crStep_good o h inp cr
  cases hc : crStep o m inp cr with
  | error e => trivial
  | ok v =>
    obtain ⟨m1, i1, cr1, st⟩ := v
    rw [hc] at hg
    cases st with
    | stuck => exact CInv_setCharRef hg _
    | progress => exact CInv_setCharRef hg _
    | done chars =>
      exact ofSig_RInv (ms := ((processCharRef m1 chars).1.setCharRef none, (processCharRef m1 chars).2))
        (CInv_setCharRef (processCharRef_cinv hg (hd _ _ _ _ hc)) none) _

/-- **one step of the tokenizer loop preserves the invariant**, in every state, on the fast and on
the slow path, for both values of `exact_errors`, provided a character reference that completes in
this step delivers admissible characters -/
theorem step_RInv [Allow P] (o : Opts) {m : Mach} (h : CInv P m) (inp : Str)
    (hd : ∀ cr, m.charRef = some cr → ∀ m1 i1 cr1 chars,
      crStep o m inp cr = .ok (m1, i1, cr1, .done chars) → AllS P chars) :
    RInv P (step o m inp) := by
  cases hcr : m.charRef with
  | some cr =>
    rw [step_kind_charRef o m inp cr hcr]
    exact stepCharRef_RInv o h inp cr (hd cr hcr)
  | none =>
    cases hrk : readKind m.state with
    | getChar => rw [step_getChar o m inp hcr hrk]; exact contChar_RInv o h inp
    | popExcept =>
      rw [step_popExcept o m inp hcr hrk]
      exact contSet_RInv o _ (setOf_has _ hrk) h inp
    | eatMd => rw [step_kind_md o m inp hcr hrk]; exact stepMd_RInv o h inp
    | eatAdn => rw [step_kind_adn o m inp hcr hrk]; exact stepAdn_RInv o h inp

/-- the `eof_step` loop -/
theorem eofLoop_clean [Allow P] (o : Opts) (fuel : Nat) {m : Mach} (h : CleanP P m) (m' : Mach)
    (he : eofLoop o fuel m = .ok m') : CleanP P m' := by
  induction fuel generalizing m with
  | zero => simp [eofLoop] at he
  | succ f ih =>
    have ht := transEof_clean (P := P) o h
    simp only [eofLoop] at he
    generalize transEof o m = r at he ht
    obtain ⟨m1, sg⟩ := r
    cases sg with
    | cont => exact ih ht he
    | done => simp only [Except.ok.injEq] at he; subst he; exact ht
    | panic e => simp at he

end step

end H5V.Model.XmlTok
