import H5V.Lemmas.XmlRTTok1
/-!
C17, tokenizer half, part 3: processing instructions and the doctype, as the XML serializer writes
them (`<?target data?>`, `<!DOCTYPE name>`), one `XmlTokenizer::step` at a time (`exact_errors` off).
-/
namespace H5V.Lemmas.XmlRT
open H5V.Model.XmlTok

macro "misc_simp" : tactic =>
  `(tactic| simp [to, reconsumeTo, createPi, pushPiTarget, pushPiData, emitPi, createDoctype, pushDoctypeName,
      emitDoctype, optPush, emit, emitErr, badChar, Mach.setCurrentChar, Mach.setCharRef, Mach.setIgnoreLf,
      Mach.setReconsume, Mach.setTempBuf, *])

/-! ### processing instructions -/

/-- the PI registers -/
structure PiRegs (m : Mach) (t d : Str) : Prop where
  t : m.piTarget = t
  d : m.piData = d

/-- a character the input preprocessing leaves alone -/
def PlainCh (c : Char) : Prop := c ≠ '\r' ∧ c ≠ '\x00'
/-- not one of the three blanks of the tag / PI states -/
def NoWs3 (c : Char) : Prop := c ≠ '\t' ∧ c ≠ '\n' ∧ c ≠ ' '

theorem pi_first (o : Opts) (ho : o.exactErrors = false) (m : Mach) (c : Char) (rest : Str)
    (h : Ctl m .pi) (hn : Clean m) (hp : PlainCh c) (hw : NoWs3 c) :
    ∃ m', step o m (c :: rest) = .cont m' rest ∧ Ctl m' .piTarget ∧ Clean m' ∧ PiRegs m' [c] [] ∧
      m'.out = m.out := by
  obtain ⟨s1, s2, s3, s4, s5⟩ := h
  obtain ⟨n1, n2, n3⟩ := hn
  obtain ⟨w1, w2, w3⟩ := hw
  refine ⟨to .piTarget (createPi c (m.setCurrentChar c)), ?_, ?_, ?_, ?_, ?_⟩
  · rw [step_char o ho m c rest s2 (by rw [s1]; rfl) s3 s4 hp.1 hp.2]
    simp [transChar, s1, ofSig, isWs3, w1, w2, w3]
  · constructor <;> misc_simp
  · constructor <;> misc_simp
  · constructor <;> misc_simp
  · misc_simp

theorem piTarget_push (o : Opts) (ho : o.exactErrors = false) (m : Mach) (c : Char) (rest : Str) (t d : Str)
    (h : Ctl m .piTarget) (hn : Clean m) (hr : PiRegs m t d) (hp : PlainCh c) (hw : NoWs3 c) (hq : c ≠ '?') :
    ∃ m', step o m (c :: rest) = .cont m' rest ∧ Ctl m' .piTarget ∧ Clean m' ∧ PiRegs m' (t ++ [c]) d ∧
      m'.out = m.out := by
  obtain ⟨s1, s2, s3, s4, s5⟩ := h
  obtain ⟨n1, n2, n3⟩ := hn
  obtain ⟨r1, r2⟩ := hr
  obtain ⟨w1, w2, w3⟩ := hw
  refine ⟨pushPiTarget c (m.setCurrentChar c), ?_, ?_, ?_, ?_, ?_⟩
  · rw [step_char o ho m c rest s2 (by rw [s1]; rfl) s3 s4 hp.1 hp.2]
    simp [transChar, s1, ofSig, isWs3, w1, w2, w3, hq]
  · constructor <;> misc_simp
  · constructor <;> misc_simp
  · constructor <;> misc_simp
  · misc_simp

theorem piTarget_sp (o : Opts) (ho : o.exactErrors = false) (m : Mach) (rest : Str) (t d : Str)
    (h : Ctl m .piTarget) (hn : Clean m) (hr : PiRegs m t d) :
    ∃ m', step o m (' ' :: rest) = .cont m' rest ∧ Ctl m' .piTargetAfter ∧ Clean m' ∧ PiRegs m' t d ∧
      m'.out = m.out := by
  obtain ⟨s1, s2, s3, s4, s5⟩ := h
  obtain ⟨n1, n2, n3⟩ := hn
  obtain ⟨r1, r2⟩ := hr
  refine ⟨to .piTargetAfter (m.setCurrentChar ' '), ?_, ?_, ?_, ?_, ?_⟩
  · rw [step_char o ho m ' ' rest s2 (by rw [s1]; rfl) s3 s4 (by decide) (by decide)]
    simp [transChar, s1, ofSig, isWs3]
  · constructor <;> misc_simp
  · constructor <;> misc_simp
  · constructor <;> misc_simp
  · misc_simp

/-- first character after the blank: re-read in the PI-data state (two steps) -/
theorem piTargetAfter_char (o : Opts) (ho : o.exactErrors = false) (m : Mach) (c : Char) (rest : Str) (t d : Str)
    (h : Ctl m .piTargetAfter) (hn : Clean m) (hr : PiRegs m t d) (hp : PlainCh c) (hw : NoWs3 c) :
    ∃ m', Reach o m (c :: rest) m' rest ∧ Clean m' ∧ m'.out = m.out ∧
      ((c = '?' ∧ Ctl m' .piAfter ∧ PiRegs m' t d) ∨ (c ≠ '?' ∧ Ctl m' .piData ∧ PiRegs m' t (d ++ [c]))) := by
  obtain ⟨s1, s2, s3, s4, s5⟩ := h
  obtain ⟨n1, n2, n3⟩ := hn
  obtain ⟨r1, r2⟩ := hr
  obtain ⟨w1, w2, w3⟩ := hw
  have e1 : step o m (c :: rest) = .cont (reconsumeTo .piData (m.setCurrentChar c)) rest := by
    rw [step_char o ho m c rest s2 (by rw [s1]; rfl) s3 s4 hp.1 hp.2]
    simp [transChar, s1, ofSig, isWs3, w1, w2, w3]
  by_cases hq : c = '?'
  · subst hq
    refine ⟨to .piAfter ((reconsumeTo .piData (m.setCurrentChar '?')).setReconsume false), ?_, ?_, ?_, ?_⟩
    · refine Reach.cons e1 (Reach.one ?_)
      rw [step_reconsume o _ rest (by misc_simp) (by simp [reconsumeTo]; rfl) (by simp [reconsumeTo])]
      simp [transChar, reconsumeTo, Mach.setCurrentChar, Mach.setReconsume, ofSig]
    · constructor <;> misc_simp
    · misc_simp
    · left; refine ⟨rfl, ?_, ?_⟩
      · constructor <;> misc_simp
      · constructor <;> misc_simp
  · refine ⟨pushPiData c ((reconsumeTo .piData (m.setCurrentChar c)).setReconsume false), ?_, ?_, ?_, ?_⟩
    · refine Reach.cons e1 (Reach.one ?_)
      rw [step_reconsume o _ rest (by misc_simp) (by simp [reconsumeTo]; rfl) (by simp [reconsumeTo])]
      simp [transChar, reconsumeTo, Mach.setCurrentChar, Mach.setReconsume, ofSig, hq]
    · constructor <;> misc_simp
    · misc_simp
    · right; refine ⟨hq, ?_, ?_⟩
      · constructor <;> misc_simp
      · constructor <;> misc_simp

theorem piData_push (o : Opts) (ho : o.exactErrors = false) (m : Mach) (c : Char) (rest : Str) (t d : Str)
    (h : Ctl m .piData) (hn : Clean m) (hr : PiRegs m t d) (hp : PlainCh c) (hq : c ≠ '?') :
    ∃ m', step o m (c :: rest) = .cont m' rest ∧ Ctl m' .piData ∧ Clean m' ∧ PiRegs m' t (d ++ [c]) ∧
      m'.out = m.out := by
  obtain ⟨s1, s2, s3, s4, s5⟩ := h
  obtain ⟨n1, n2, n3⟩ := hn
  obtain ⟨r1, r2⟩ := hr
  refine ⟨pushPiData c (m.setCurrentChar c), ?_, ?_, ?_, ?_, ?_⟩
  · rw [step_char o ho m c rest s2 (by rw [s1]; rfl) s3 s4 hp.1 hp.2]
    simp [transChar, s1, ofSig, hq]
  · constructor <;> misc_simp
  · constructor <;> misc_simp
  · constructor <;> misc_simp
  · misc_simp

theorem piData_q (o : Opts) (ho : o.exactErrors = false) (m : Mach) (rest : Str) (t d : Str)
    (h : Ctl m .piData) (hn : Clean m) (hr : PiRegs m t d) :
    ∃ m', step o m ('?' :: rest) = .cont m' rest ∧ Ctl m' .piAfter ∧ Clean m' ∧ PiRegs m' t d ∧
      m'.out = m.out := by
  obtain ⟨s1, s2, s3, s4, s5⟩ := h
  obtain ⟨n1, n2, n3⟩ := hn
  obtain ⟨r1, r2⟩ := hr
  refine ⟨to .piAfter (m.setCurrentChar '?'), ?_, ?_, ?_, ?_, ?_⟩
  · rw [step_char o ho m '?' rest s2 (by rw [s1]; rfl) s3 s4 (by decide) (by decide)]
    simp [transChar, s1, ofSig]
  · constructor <;> misc_simp
  · constructor <;> misc_simp
  · constructor <;> misc_simp
  · misc_simp

theorem piAfter_gt (o : Opts) (ho : o.exactErrors = false) (m : Mach) (rest : Str) (t d : Str)
    (h : Ctl m .piAfter) (hn : Clean m) (hr : PiRegs m t d) :
    ∃ m', step o m ('>' :: rest) = .cont m' rest ∧ Ctl m' .data ∧ Clean m' ∧ m'.out = .pi t d :: m.out := by
  obtain ⟨s1, s2, s3, s4, s5⟩ := h
  obtain ⟨n1, n2, n3⟩ := hn
  obtain ⟨r1, r2⟩ := hr
  refine ⟨emitPi (to .data (m.setCurrentChar '>')), ?_, ?_, ?_, ?_⟩
  · rw [step_char o ho m '>' rest s2 (by rw [s1]; rfl) s3 s4 (by decide) (by decide)]
    simp [transChar, s1, ofSig]
  · constructor <;> misc_simp
  · constructor <;> misc_simp
  · misc_simp

/-! ### doctype -/

theorem eat_false (o : Opts) (m : Mach) (c : Char) (rest : Str) (p0 : Char) (pat : Str)
    (hilf : m.ignoreLf = false) (htb : m.tempBuf = []) (hne : eqCi c p0 = false) :
    eat o m (c :: rest) (p0 :: pat) = (some false, m.setTempBuf [], c :: rest) := by
  simp [eat, eatSkipLf, hilf, htb, eatCmp, hne]

theorem eat_true (o : Opts) (m : Mach) (inp pat : Str)
    (hilf : m.ignoreLf = false) (htb : m.tempBuf = []) (h : eatCmp eqCi inp pat = some true) :
    eat o m inp pat = (some true, m.setTempBuf [], inp.drop pat.length) := by
  simp [eat, eatSkipLf, hilf, htb, h]

/-- `<!` is followed by `DOCTYPE`: the three look-aheads of the markup-declaration state -/
theorem md_doctype (o : Opts) (m : Mach) (rest : Str) (h : Ctl m .markupDecl) (hn : Clean m) :
    ∃ m', step o m ('D' :: 'O' :: 'C' :: 'T' :: 'Y' :: 'P' :: 'E' :: rest) = .cont m' rest ∧
      Ctl m' .doctype ∧ Clean m' ∧ m'.out = m.out := by
  obtain ⟨s1, s2, s3, s4, s5⟩ := h
  obtain ⟨n1, n2, n3⟩ := hn
  refine ⟨to .doctype (m.setTempBuf []), ?_, ?_, ?_, ?_⟩
  · simp only [step, s2, s1, readKind, stepMd, kwDashDash, kwCdata, kwDoctype]
    rw [eat_false o m 'D' _ '-' _ s4 s5 (by decide)]
    simp only []
    rw [eat_false o _ 'D' _ '[' _ (by simpa [Mach.setTempBuf] using s4) (by simp [Mach.setTempBuf]) (by decide)]
    simp only []
    rw [eat_true o _ _ _ (by simpa [Mach.setTempBuf] using s4) (by simp [Mach.setTempBuf]) (by simp [eatCmp, eqCi])]
    simp [Mach.setTempBuf]
  · constructor <;> misc_simp
  · constructor <;> misc_simp
  · misc_simp

/-- `<!` is followed by `--` -/
theorem md_comment (o : Opts) (m : Mach) (rest : Str) (h : Ctl m .markupDecl) (hn : Clean m) :
    ∃ m', step o m ('-' :: '-' :: rest) = .cont m' rest ∧
      Ctl m' .commentStart ∧ Clean m' ∧ m'.comment = [] ∧ m'.out = m.out := by
  obtain ⟨s1, s2, s3, s4, s5⟩ := h
  obtain ⟨n1, n2, n3⟩ := hn
  refine ⟨to .commentStart (clearComment (m.setTempBuf [])), ?_, ?_, ?_, ?_, ?_⟩
  · simp only [step, s2, s1, readKind, stepMd, kwDashDash]
    rw [eat_true o _ _ _ s4 s5 (by simp [eatCmp, eqCi])]
    simp
  · constructor <;> simp [to, clearComment, Mach.setTempBuf, *]
  · constructor <;> simp [to, clearComment, Mach.setTempBuf, *]
  · simp [to, clearComment]
  · simp [to, clearComment, Mach.setTempBuf]

theorem doctype_sp (o : Opts) (ho : o.exactErrors = false) (m : Mach) (rest : Str)
    (h : Ctl m .doctype) (hn : Clean m) :
    ∃ m', step o m (' ' :: rest) = .cont m' rest ∧ Ctl m' .beforeDoctypeName ∧ Clean m' ∧ m'.out = m.out := by
  obtain ⟨s1, s2, s3, s4, s5⟩ := h
  obtain ⟨n1, n2, n3⟩ := hn
  refine ⟨to .beforeDoctypeName (m.setCurrentChar ' '), ?_, ?_, ?_, ?_⟩
  · rw [step_char o ho m ' ' rest s2 (by rw [s1]; rfl) s3 s4 (by decide) (by decide)]
    simp [transChar, s1, ofSig, isWs4]
  · constructor <;> misc_simp
  · constructor <;> misc_simp
  · misc_simp

/-- a character of a doctype name: no blank, no `>`, no ASCII capital (names are lower-cased) -/
def DtCh (c : Char) : Prop :=
  c ≠ '\t' ∧ c ≠ '\n' ∧ c ≠ '\x0c' ∧ c ≠ ' ' ∧ c ≠ '>' ∧ c ≠ '\r' ∧ c ≠ '\x00' ∧ toAsciiLower c = c

/-- `<!DOCTYPE >`: the empty name; a "Bad character" parse error and a doctype without name -/
theorem bdn_gt (o : Opts) (ho : o.exactErrors = false) (m : Mach) (rest : Str)
    (h : Ctl m .beforeDoctypeName) (hn : Clean m) :
    ∃ m', step o m ('>' :: rest) = .cont m' rest ∧ Ctl m' .data ∧ Clean m' ∧
      cvOut m'.out = cvOut m.out ++ [.doctype none none none] := by
  obtain ⟨s1, s2, s3, s4, s5⟩ := h
  obtain ⟨n1, n2, n3⟩ := hn
  refine ⟨to .data (emitDoctype (badChar o (m.setCurrentChar '>'))), ?_, ?_, ?_, ?_⟩
  · rw [step_char o ho m '>' rest s2 (by rw [s1]; rfl) s3 s4 (by decide) (by decide)]
    simp [transChar, s1, ofSig, isWs4]
  · constructor <;> misc_simp
  · constructor <;> misc_simp
  · simp only [to, emitDoctype, emit, badChar, ho, Bool.false_eq_true, if_false, emitErr, Mach.setCurrentChar]
    rw [cvOut_cons, cvOut_err]
    simp [cvTok, n3]

theorem bdn_first (o : Opts) (ho : o.exactErrors = false) (m : Mach) (c : Char) (rest : Str)
    (h : Ctl m .beforeDoctypeName) (hn : Clean m) (hc : DtCh c) :
    ∃ m', step o m (c :: rest) = .cont m' rest ∧ Ctl m' .doctypeName ∧ m'.attrName = [] ∧ m'.attrValue = [] ∧
      m'.doctype = { name := some [c] } ∧ m'.out = m.out := by
  obtain ⟨s1, s2, s3, s4, s5⟩ := h
  obtain ⟨n1, n2, n3⟩ := hn
  obtain ⟨c1, c2, c3, c4, c5, c6, c7, c8⟩ := hc
  refine ⟨to .doctypeName (pushDoctypeName (toAsciiLower c) (createDoctype (m.setCurrentChar c))), ?_, ?_, ?_, ?_, ?_, ?_⟩
  · rw [step_char o ho m c rest s2 (by rw [s1]; rfl) s3 s4 c6 c7]
    simp [transChar, s1, ofSig, isWs4, c1, c2, c3, c4, c5]
  · constructor <;> misc_simp
  · misc_simp
  · misc_simp
  · misc_simp
  · misc_simp

theorem dn_push (o : Opts) (ho : o.exactErrors = false) (m : Mach) (c : Char) (rest : Str) (n : Str)
    (h : Ctl m .doctypeName) (ha : m.attrName = []) (hv : m.attrValue = []) (hd : m.doctype = { name := some n })
    (hc : DtCh c) :
    ∃ m', step o m (c :: rest) = .cont m' rest ∧ Ctl m' .doctypeName ∧ m'.attrName = [] ∧ m'.attrValue = [] ∧
      m'.doctype = { name := some (n ++ [c]) } ∧ m'.out = m.out := by
  obtain ⟨s1, s2, s3, s4, s5⟩ := h
  obtain ⟨c1, c2, c3, c4, c5, c6, c7, c8⟩ := hc
  refine ⟨to .doctypeName (pushDoctypeName (toAsciiLower c) (m.setCurrentChar c)), ?_, ?_, ?_, ?_, ?_, ?_⟩
  · rw [step_char o ho m c rest s2 (by rw [s1]; rfl) s3 s4 c6 c7]
    simp [transChar, s1, ofSig, isWs4, c1, c2, c3, c4, c5]
  · constructor <;> misc_simp
  · misc_simp
  · misc_simp
  · misc_simp
  · misc_simp

theorem dn_gt (o : Opts) (ho : o.exactErrors = false) (m : Mach) (rest : Str) (n : Str)
    (h : Ctl m .doctypeName) (ha : m.attrName = []) (hv : m.attrValue = []) (hd : m.doctype = { name := some n }) :
    ∃ m', step o m ('>' :: rest) = .cont m' rest ∧ Ctl m' .data ∧ Clean m' ∧
      m'.out = .doctype { name := some n } :: m.out := by
  obtain ⟨s1, s2, s3, s4, s5⟩ := h
  refine ⟨to .data (emitDoctype (m.setCurrentChar '>')), ?_, ?_, ?_, ?_⟩
  · rw [step_char o ho m '>' rest s2 (by rw [s1]; rfl) s3 s4 (by decide) (by decide)]
    simp [transChar, s1, ofSig, isWs4]
  · constructor <;> misc_simp
  · constructor <;> misc_simp
  · misc_simp

end H5V.Lemmas.XmlRT
