import H5V.Lemmas.HtmlTBAlgoPrim
/-!
Pure list lemmas about the model's list of active formatting elements:
`afEndToMarker` (the iteration "from the end to the last marker"), the Noah's Ark clause of
`createFormattingElementFor` against `Spec.TreeAlgo.noahPush`, `clearToMarkerRev` against
`Spec.TreeAlgo2.clearToLastMarker`, and the search of `aaOuterStep` against
`Spec.TreeAlgo2.findFormattingElement`.
-/
namespace H5V.Lemmas.HtmlTBAlgo
open H5V.Model.HtmlTB
open H5V.Model.Dom (Id)
open H5V.Spec.TreeAlgo2
open H5V.Spec.TreeAlgo (afterLastMarker removeEarliestAfterMarker noahPush)

/-- an entry of the model's list as the `Option` the Noah's Ark spec works on -/
def entryOpt : FormatEntry → Option (Id × Tag)
  | .marker => none
  | .element h t => some (h, t)

/-- "same tag name, namespace, and attributes" on entries (the handles are ignored) -/
def sameEntry (a b : Id × Tag) : Bool := a.2.equivModuloAttrOrder b.2

/-- induction on a list by its last entry -/
theorem snocInd {α : Type} {P : List α → Prop} (nil : P [])
    (append_singleton : ∀ (init : List α) (x : α), P init → P (init ++ [x])) : ∀ l, P l := by
  have h : ∀ r : List α, P r.reverse := by
    intro r
    induction r with
    | nil => exact nil
    | cons x r ih => rw [List.reverse_cons]; exact append_singleton _ _ ih
  intro l
  have := h l.reverse
  rwa [List.reverse_reverse] at this

/-! ### `afEndToMarker` by the last entry -/

@[simp] theorem afEndToMarker_nil : afEndToMarker [] = [] := rfl

theorem afEndToMarker_snoc_marker (init : List FormatEntry) :
    afEndToMarker (init ++ [FormatEntry.marker]) = [] := by
  simp [afEndToMarker, List.zipIdx_append, afEndToMarkerAux]

theorem afEndToMarker_snoc_element (init : List FormatEntry) (h : Id) (t : Tag) :
    afEndToMarker (init ++ [FormatEntry.element h t]) = (init.length, h, t) :: afEndToMarker init := by
  simp [afEndToMarker, List.zipIdx_append, afEndToMarkerAux]

/-- every entry `afEndToMarker` visits is an element entry of the list, at the reported index -/
theorem afEndToMarker_mem (af : List FormatEntry) :
    ∀ (i : Nat) (h : Id) (t : Tag), (i, h, t) ∈ afEndToMarker af → af[i]? = some (FormatEntry.element h t) := by
  induction af using snocInd with
  | nil => intro i h t hm; simp at hm
  | append_singleton init x ih =>
    intro i h t hm
    cases x with
    | marker => rw [afEndToMarker_snoc_marker] at hm; simp at hm
    | element h' t' =>
      rw [afEndToMarker_snoc_element] at hm
      rcases List.mem_cons.1 hm with heq | hm'
      · simp only [Prod.mk.injEq] at heq
        obtain ⟨rfl, rfl, rfl⟩ := heq
        simp
      · have h1 := ih i h t hm'
        have hlt : i < init.length := (List.getElem?_eq_some_iff.1 h1).1
        rw [List.getElem?_append_left hlt]; exact h1

theorem afEndToMarker_mem_lt (af : List FormatEntry) {i : Nat} {h : Id} {t : Tag}
    (hm : (i, h, t) ∈ afEndToMarker af) : i < af.length :=
  (List.getElem?_eq_some_iff.1 (afEndToMarker_mem af i h t hm)).1

/-! ### the spec's functions by the last entry -/

section Snoc
variable {E : Type}

theorem any_isNone_snoc_none (l : List (Option E)) : (l ++ [none]).any Option.isNone = true := by
  simp

theorem any_isNone_snoc_some (l : List (Option E)) (e : E) :
    (l ++ [some e]).any Option.isNone = l.any Option.isNone := by
  simp

theorem afterLastMarker_snoc_none (l : List (Option E)) : afterLastMarker (l ++ [none]) = [] := by
  induction l with
  | nil => simp [afterLastMarker]
  | cons a rest ih =>
    cases a with
    | none => simpa [afterLastMarker] using ih
    | some a =>
      rw [List.cons_append, afterLastMarker, any_isNone_snoc_none]
      simpa using ih

theorem afterLastMarker_snoc_some (l : List (Option E)) (e : E) :
    afterLastMarker (l ++ [some e]) = afterLastMarker l ++ [e] := by
  induction l with
  | nil => simp [afterLastMarker]
  | cons a rest ih =>
    cases a with
    | none => simpa [afterLastMarker] using ih
    | some a =>
      rw [List.cons_append, afterLastMarker, afterLastMarker, any_isNone_snoc_some]
      by_cases hr : rest.any Option.isNone = true
      · rw [if_pos hr, if_pos hr]; exact ih
      · rw [if_neg hr, if_neg hr, ih]; rfl

theorem removeEarliest_snoc_none (p : E → Bool) (l : List (Option E)) :
    removeEarliestAfterMarker p (l ++ [none]) = l ++ [none] := by
  induction l with
  | nil => simp [removeEarliestAfterMarker]
  | cons a rest ih =>
    cases a with
    | none => simpa [removeEarliestAfterMarker] using ih
    | some a =>
      rw [List.cons_append, removeEarliestAfterMarker, any_isNone_snoc_none, if_pos rfl, ih]

theorem removeEarliest_snoc_some (p : E → Bool) (l : List (Option E)) (e : E) :
    removeEarliestAfterMarker p (l ++ [some e]) =
      if (afterLastMarker l).any p then removeEarliestAfterMarker p l ++ [some e]
      else if p e then l else l ++ [some e] := by
  induction l with
  | nil => by_cases hp : p e = true <;> simp [removeEarliestAfterMarker, afterLastMarker, hp]
  | cons a rest ih =>
    cases a with
    | none =>
      rw [List.cons_append, removeEarliestAfterMarker, ih, afterLastMarker, removeEarliestAfterMarker]
      by_cases h1 : (afterLastMarker rest).any p = true
      · simp [h1]
      · by_cases hp : p e = true <;> simp [h1, hp]
    | some a =>
      rw [List.cons_append, removeEarliestAfterMarker, any_isNone_snoc_some, ih, afterLastMarker,
        removeEarliestAfterMarker]
      by_cases hr : rest.any Option.isNone = true
      · rw [if_pos hr, if_pos hr, if_pos hr]
        by_cases h1 : (afterLastMarker rest).any p = true
        · simp [h1]
        · by_cases hp : p e = true <;> simp [h1, hp]
      · rw [if_neg hr, if_neg hr, if_neg hr]
        by_cases hpa : p a = true
        · simp [hpa]
        · by_cases h1 : (afterLastMarker rest).any p = true
          · simp [hpa, h1]
          · by_cases hp : p e = true <;> simp [hpa, h1, hp]

end Snoc

/-! ### Noah's Ark -/

/-- the entries `afEndToMarker` visits are the entries after the last marker, most recent first -/
theorem afEndToMarker_map_snd (af : List FormatEntry) :
    (afEndToMarker af).map (fun x => x.2) = (afterLastMarker (af.map entryOpt)).reverse := by
  induction af using snocInd with
  | nil => rfl
  | append_singleton init x ih =>
    cases x with
    | marker =>
      rw [afEndToMarker_snoc_marker, List.map_append]
      show _ = (afterLastMarker (init.map entryOpt ++ [none])).reverse
      rw [afterLastMarker_snoc_none]; rfl
    | element h t =>
      rw [afEndToMarker_snoc_element, List.map_append]
      show _ = (afterLastMarker (init.map entryOpt ++ [some (h, t)])).reverse
      rw [afterLastMarker_snoc_some, List.reverse_append, List.map_cons, ih]; rfl

/-- the model's filter, as a filter of the spec's list -/
theorem filter_afEndToMarker_map_snd (af : List FormatEntry) (tag : Tag) :
    ((afEndToMarker af).filter (fun (x : Nat × Id × Tag) => tag.equivModuloAttrOrder x.2.2)).map (fun x => x.2) =
      ((afterLastMarker (af.map entryOpt)).filter (sameEntry (new, tag))).reverse := by
  rw [← List.filter_reverse, ← afEndToMarker_map_snd, List.filter_map]
  rfl

theorem filter_afEndToMarker_length (af : List FormatEntry) (tag : Tag) (new : Id) :
    ((afEndToMarker af).filter (fun (x : Nat × Id × Tag) => tag.equivModuloAttrOrder x.2.2)).length =
      ((afterLastMarker (af.map entryOpt)).filter (sameEntry (new, tag))).length := by
  have h := congrArg List.length (filter_afEndToMarker_map_snd (new := new) af tag)
  simpa using h

/-- the last match of the model's loop is the earliest matching entry after the last marker -/
theorem noah_last (af : List FormatEntry) (tag : Tag) (new : Id) :
    ∀ (i : Nat) (h : Id) (t : Tag),
      ((afEndToMarker af).filter (fun (x : Nat × Id × Tag) => tag.equivModuloAttrOrder x.2.2)).getLast? = some (i, h, t) →
      i < af.length ∧ af[i]? = some (FormatEntry.element h t) ∧ tag.equivModuloAttrOrder t = true ∧
        (af.eraseIdx i).map entryOpt = removeEarliestAfterMarker (sameEntry (new, tag)) (af.map entryOpt) := by
  induction af using snocInd with
  | nil => intro i h t hl; simp at hl
  | append_singleton init x ih =>
    intro i h t hl
    cases x with
    | marker => rw [afEndToMarker_snoc_marker] at hl; simp at hl
    | element h' t' =>
      rw [afEndToMarker_snoc_element] at hl
      have hany : (afterLastMarker (init.map entryOpt)).any (sameEntry (new, tag)) =
          !((afEndToMarker init).filter (fun (x : Nat × Id × Tag) => tag.equivModuloAttrOrder x.2.2)).isEmpty := by
        have hlen := filter_afEndToMarker_length init tag new
        cases hf : (afEndToMarker init).filter (fun (x : Nat × Id × Tag) => tag.equivModuloAttrOrder x.2.2) with
        | nil =>
          rw [hf] at hlen
          have : (afterLastMarker (init.map entryOpt)).filter (sameEntry (new, tag)) = [] :=
            List.eq_nil_of_length_eq_zero hlen.symm
          rw [List.filter_eq_nil_iff] at this
          simp only [List.isEmpty_nil, Bool.not_true, List.any_eq_false]
          exact this
        | cons y ys =>
          rw [hf] at hlen
          simp only [List.isEmpty_cons, Bool.not_false, List.any_eq_true]
          cases hg : (afterLastMarker (init.map entryOpt)).filter (sameEntry (new, tag)) with
          | nil => rw [hg] at hlen; simp at hlen
          | cons z zs =>
            have hz : z ∈ (afterLastMarker (init.map entryOpt)).filter (sameEntry (new, tag)) := by
              rw [hg]; exact List.mem_cons_self
            rw [List.mem_filter] at hz
            exact ⟨z, hz.1, hz.2⟩
      rw [List.map_append]
      show _ ∧ _ ∧ _ ∧ _ = removeEarliestAfterMarker _ (init.map entryOpt ++ [some (h', t')])
      rw [removeEarliest_snoc_some, hany]
      cases hf : (afEndToMarker init).filter (fun (x : Nat × Id × Tag) => tag.equivModuloAttrOrder x.2.2) with
      | nil =>
        by_cases hq : tag.equivModuloAttrOrder t' = true
        · rw [List.filter_cons_of_pos (by simpa using hq), hf] at hl
          simp only [List.getLast?_singleton, Option.some.injEq, Prod.mk.injEq] at hl
          obtain ⟨rfl, rfl, rfl⟩ := hl
          refine ⟨by simp, by simp, hq, ?_⟩
          have hs : sameEntry (new, tag) (h', t') = true := hq
          simp only [hs, List.isEmpty_nil, Bool.not_true, Bool.false_eq_true, if_false, if_true]
          rw [List.eraseIdx_append_of_length_le (Nat.le_refl _)]
          simp
        · rw [List.filter_cons_of_neg (by simpa using hq), hf] at hl
          simp at hl
      | cons y ys =>
        have hl' : ((afEndToMarker init).filter (fun (x : Nat × Id × Tag) => tag.equivModuloAttrOrder x.2.2)).getLast? =
            some (i, h, t) := by
          by_cases hq : tag.equivModuloAttrOrder t' = true
          · rw [List.filter_cons_of_pos (by simpa using hq), hf] at hl
            rw [hf]; simpa [List.getLast?_cons_cons] using hl
          · rw [List.filter_cons_of_neg (by simpa using hq)] at hl
            exact hl
        obtain ⟨hlt, hget, hq, herase⟩ := ih i h t hl'
        refine ⟨by simp; omega, ?_, hq, ?_⟩
        · rw [List.getElem?_append_left hlt]; exact hget
        · rw [List.eraseIdx_append_of_lt_length hlt, List.map_append, herase]
          simp [entryOpt]

/-- **Noah's Ark**: the list `createFormattingElementFor` builds is the spec's `noahPush` -/
theorem noah_list_eq (af : List FormatEntry) (tag : Tag) (new : Id) :
    let ms := (afEndToMarker af).filter (fun (x : Nat × Id × Tag) => tag.equivModuloAttrOrder x.2.2)
    (ms.length ≥ 3 → ∃ i h t, ms.getLast? = some (i, h, t) ∧ i < af.length ∧
        ((af.eraseIdx i) ++ [FormatEntry.element new tag]).map entryOpt =
          noahPush sameEntry (af.map entryOpt) (new, tag)) ∧
    (ms.length < 3 → (af ++ [FormatEntry.element new tag]).map entryOpt =
          noahPush sameEntry (af.map entryOpt) (new, tag)) := by
  intro ms
  have hlen : ms.length = ((afterLastMarker (af.map entryOpt)).filter (sameEntry (new, tag))).length :=
    filter_afEndToMarker_length af tag new
  constructor
  · intro h3
    cases hl : ms.getLast? with
    | none =>
      rw [List.getLast?_eq_none_iff] at hl
      rw [hl] at h3; simp at h3
    | some x =>
      obtain ⟨i, h, t⟩ := x
      obtain ⟨hlt, _, _, herase⟩ := noah_last af tag new i h t hl
      refine ⟨i, h, t, rfl, hlt, ?_⟩
      unfold noahPush
      have : ((afterLastMarker (af.map entryOpt)).filter (sameEntry (new, tag))).length ≥ Spec.TreeTables.noahLimit := by
        rw [← hlen]; exact h3
      simp only [this, if_true]
      rw [List.map_append, herase]; rfl
  · intro h3
    unfold noahPush
    have : ¬ ((afterLastMarker (af.map entryOpt)).filter (sameEntry (new, tag))).length ≥ Spec.TreeTables.noahLimit := by
      rw [← hlen]; show ¬ ms.length ≥ 3; omega
    simp only [this, if_false]
    rw [List.map_append]; rfl

/-- the literal predicate of `createFormattingElementFor` (`fun (_, _, old) => …`) -/
theorem noahLam_eq (tag : Tag) :
    (fun x => createFormattingElementFor.match_1 (fun _ => Bool) x fun _ _ old => tag.equivModuloAttrOrder old) =
      fun (x : Nat × Id × Tag) => tag.equivModuloAttrOrder x.2.2 := by
  funext ⟨_, _, _⟩; rfl

/-- the two halves of `noah_list_eq` on their own (the first with the entry at the removed index) -/
theorem noah_list_ge (af : List FormatEntry) (tag : Tag) (new : Id)
    (h3 : ((afEndToMarker af).filter (fun (x : Nat × Id × Tag) => tag.equivModuloAttrOrder x.2.2)).length ≥ 3) :
    ∃ i h t,
      ((afEndToMarker af).filter (fun (x : Nat × Id × Tag) => tag.equivModuloAttrOrder x.2.2)).getLast? = some (i, h, t) ∧
      i < af.length ∧ af[i]? = some (FormatEntry.element h t) ∧
      ((af.eraseIdx i) ++ [FormatEntry.element new tag]).map entryOpt =
        noahPush sameEntry (af.map entryOpt) (new, tag) := by
  obtain ⟨i, h, t, hl, hlt, heq⟩ := (noah_list_eq af tag new).1 h3
  exact ⟨i, h, t, hl, hlt, (noah_last af tag new i h t hl).2.1, heq⟩

theorem noah_list_lt (af : List FormatEntry) (tag : Tag) (new : Id)
    (h3 : ((afEndToMarker af).filter (fun (x : Nat × Id × Tag) => tag.equivModuloAttrOrder x.2.2)).length < 3) :
    (af ++ [FormatEntry.element new tag]).map entryOpt = noahPush sameEntry (af.map entryOpt) (new, tag) :=
  (noah_list_eq af tag new).2 h3

/-- `noah_list_eq` for the literal predicate of `createFormattingElementFor` -/
theorem noah_list_eq' (af : List FormatEntry) (tag : Tag) (new : Id) :
    let ms := (afEndToMarker af).filter
      (fun x => createFormattingElementFor.match_1 (fun _ => Bool) x fun _ _ old => tag.equivModuloAttrOrder old)
    (ms.length ≥ 3 → ∃ i h t, ms.getLast? = some (i, h, t) ∧ i < af.length ∧
        ((af.eraseIdx i) ++ [FormatEntry.element new tag]).map entryOpt =
          noahPush sameEntry (af.map entryOpt) (new, tag)) ∧
    (ms.length < 3 → (af ++ [FormatEntry.element new tag]).map entryOpt =
          noahPush sameEntry (af.map entryOpt) (new, tag)) := by
  rw [noahLam_eq]; exact noah_list_eq af tag new

/-- `noahLam_eq` rewrites the body of `createFormattingElementFor` -/
example (tag : Tag) : createFormattingElementFor tag = createFormattingElementFor tag := by
  conv => lhs; unfold createFormattingElementFor; rw [noahLam_eq]
  rfl

/-! ### clearing the list up to the last marker -/

theorem clearToMarkerRev_map (l : List FormatEntry) :
    (clearToMarkerRev l).map absEntry = clearRev (l.map absEntry) := by
  induction l with
  | nil => rfl
  | cons x rest ih =>
    cases x with
    | marker => simp [clearToMarkerRev, clearRev, absEntry, Entry.isMarker]
    | element h t => simpa [clearToMarkerRev, clearRev, absEntry, Entry.isMarker] using ih

theorem clearToMarker_eq (af : List FormatEntry) :
    absList ((clearToMarkerRev af.reverse).reverse) = clearToLastMarker (absList af) := by
  unfold absList clearToLastMarker
  rw [List.map_reverse, clearToMarkerRev_map, List.map_reverse]

/-! ### the formatting element of the adoption agency algorithm -/

theorem findFormatting_eq (af : List FormatEntry) (subject : Str) :
    (afEndToMarker af).find? (fun (x : Nat × Id × Tag) => x.2.2.name == subject) =
      findFormattingElement tagCtx subject (absList af) := by
  unfold findFormattingElement absList
  induction af using snocInd with
  | nil => rfl
  | append_singleton init x ih =>
    cases x with
    | marker =>
      rw [afEndToMarker_snoc_marker, List.map_append, List.reverse_append]
      rfl
    | element h t =>
      rw [afEndToMarker_snoc_element, List.map_append, List.reverse_append, List.length_append]
      show _ = findFormattingRev tagCtx subject (Entry.element h t :: (init.map absEntry).reverse)
        ((init.map absEntry).length + 1)
      rw [findFormattingRev, List.find?_cons, Nat.add_sub_cancel, ← ih, List.length_map]
      show _ = if (t.name == subject) = true then _ else _
      cases hn : t.name == subject <;> simp

/-- the literal predicate of `aaOuterStep` (`fun (_, _, t) => t.name == subject`) -/
theorem findLam_eq (subject : Str) :
    (fun x => createFormattingElementFor.match_1 (fun _ => Bool) x fun _ _ t => t.name == subject) =
      fun (x : Nat × Id × Tag) => x.2.2.name == subject := by
  funext ⟨_, _, _⟩; rfl

/-- `findLam_eq` rewrites the body of `aaOuterStep` -/
example (subject : Str) : aaOuterStep subject = aaOuterStep subject := by
  conv => lhs; unfold aaOuterStep; rw [findLam_eq]
  rfl

/-- `findFormatting_eq` for the literal predicate of `aaOuterStep` -/
theorem findFormatting_eq' (af : List FormatEntry) (subject : Str) :
    (afEndToMarker af).find?
        (fun x => createFormattingElementFor.match_1 (fun _ => Bool) x fun _ _ t => t.name == subject) =
      findFormattingElement tagCtx subject (absList af) := by
  rw [findLam_eq, findFormatting_eq]

/-- what the search of `aaOuterStep` finds is an element entry of the list with the subject's name -/
theorem find_afEndToMarker_some {af : List FormatEntry} {subject : Str} {i : Nat} {h : Id} {t : Tag}
    (hf : (afEndToMarker af).find? (fun (x : Nat × Id × Tag) => x.2.2.name == subject) = some (i, h, t)) :
    i < af.length ∧ af[i]? = some (FormatEntry.element h t) ∧ (t.name == subject) = true := by
  have hm := List.mem_of_find?_eq_some hf
  have hp := List.find?_some hf
  exact ⟨afEndToMarker_mem_lt af hm, afEndToMarker_mem af i h t hm, hp⟩

theorem findFormattingElement_some {af : List FormatEntry} {subject : Str} {i : Nat} {h : Id} {t : Tag}
    (hf : findFormattingElement tagCtx subject (absList af) = some (i, h, t)) :
    i < af.length ∧ af[i]? = some (FormatEntry.element h t) ∧ (t.name == subject) = true := by
  rw [← findFormatting_eq] at hf
  exact find_afEndToMarker_some hf

/-! ### non-vacuity -/

section Examples

private def tA : Tag := { kind := .startTag, name := "a".toList }
private def tB : Tag := { kind := .startTag, name := "b".toList }

/-- three equal entries after the marker: the earliest of *these* goes, not the one before the marker -/
example :
    noahPush sameEntry [some (1, tA), none, some (2, tA), some (3, tB), some (4, tA), some (5, tA)] (6, tA) =
      [some (1, tA), none, some (3, tB), some (4, tA), some (5, tA), some (6, tA)] := by decide

/-- only two equal entries after the marker: nothing is removed -/
example :
    noahPush sameEntry [some (1, tA), none, some (2, tA), some (3, tB), some (4, tA)] (6, tA) =
      [some (1, tA), none, some (2, tA), some (3, tB), some (4, tA), some (6, tA)] := by decide

/-- the model's loop on the same list: indices 5, 4, 2 match, the last one visited is index 2 -/
example :
    ((afEndToMarker [.element 1 tA, .marker, .element 2 tA, .element 3 tB, .element 4 tA, .element 5 tA]).filter
        (fun (x : Nat × Id × Tag) => tA.equivModuloAttrOrder x.2.2)).map (fun x => x.1) = [5, 4, 2] := by decide

example :
    findFormattingElement tagCtx "b".toList
        (absList [.element 1 tB, .marker, .element 2 tA, .element 3 tB, .element 4 tA]) = some (3, 3, tB) := by decide

example :
    findFormattingElement tagCtx "b".toList (absList [.element 1 tB, .marker, .element 2 tA]) = none := by decide

example :
    clearToLastMarker (absList [.element 1 tB, .marker, .element 2 tA, .marker, .element 3 tA, .element 4 tB]) =
      absList [.element 1 tB, .marker, .element 2 tA] := by decide

end Examples

#print axioms afEndToMarker_mem
#print axioms noah_last
#print axioms noah_list_eq
#print axioms noahLam_eq
#print axioms noah_list_ge
#print axioms noah_list_lt
#print axioms noah_list_eq'
#print axioms clearToMarker_eq
#print axioms findFormatting_eq
#print axioms findFormatting_eq'
#print axioms find_afEndToMarker_some
#print axioms findFormattingElement_some

end H5V.Lemmas.HtmlTBAlgo
