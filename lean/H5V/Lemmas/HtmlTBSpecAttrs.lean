import H5V.Spec.TreeAlgo
import H5V.Lemmas.HtmlTBTables
/-!
(f) attribute / tag-name adjustment in foreign content and the break-out test, (h) the loop
structure of the adoption agency algorithm: the model against `H5V.Spec.TreeAlgo`.
-/
namespace H5V.Lemmas.HtmlTBSpec
open H5V.Model.HtmlTB
open H5V.Model.Dom (QualName Attr)
open H5V.Lemmas.HtmlTBTables

/-! ### (f) adjust SVG / MathML / foreign attributes -/

/-- the model's tables, in the standard's layout -/
theorem adjust_tables_eq :
    svgAttrNames.map (fun s => (String.ofList (lowerStr s), s)) = Spec.TreeTables.svgAttrNames ∧
    svgTagNames.map (fun s => (String.ofList (lowerStr s), s)) = Spec.TreeTables.svgTagNames ∧
    foreignAttrTable = Spec.TreeTables.foreignAttrs.map (fun r => (r.1, r.2.1, Spec.TreeAlgo.nsUrl r.2.2.2, r.2.2.1)) ∧
    foreignBreakoutStart = Spec.TreeTables.foreignBreakoutStart := by decide +kernel

theorem lookup2_map (l : List String) (k : Str) :
    Spec.TreeAlgo.lookup2 (l.map (fun s => (String.ofList (lowerStr s), s))) k
      = l.find? (fun s => lowerStr s == k) := by
  unfold Spec.TreeAlgo.lookup2
  rw [List.find?_map]
  simp only [Option.map_map]
  have : ((fun r : String × String => r.1.toList == k) ∘ fun s => (String.ofList (lowerStr s), s))
      = (fun s => lowerStr s == k) := by
    funext s; simp [Function.comp]
  rw [this]
  cases l.find? (fun s => lowerStr s == k) <;> rfl

theorem svgAttrMap_eq (k : Str) :
    svgAttrMap k = (Spec.TreeAlgo.lookup2 Spec.TreeTables.svgAttrNames k).map (fun v => plainName v.toList) := by
  rw [← adjust_tables_eq.1, lookup2_map]; rfl

theorem mathmlAttrMap_eq (k : Str) :
    mathmlAttrMap k = (Spec.TreeAlgo.lookup2 Spec.TreeTables.mathmlAttrNames k).map (fun v => plainName v.toList) := by
  simp only [mathmlAttrMap, isName, Spec.TreeAlgo.lookup2, Spec.TreeTables.mathmlAttrNames, List.find?_cons,
    List.find?_nil]
  by_cases h : ("definitionurl".toList == k) = true
  · simp only [h, if_true]; rfl
  · have h' : ("definitionurl".toList == k) = false := Bool.eq_false_iff.mpr h
    simp only [h', Bool.false_eq_true, if_false]; rfl

theorem adjustSvgTagName_eq (name : Str) : adjustSvgTagName name = Spec.TreeAlgo.adjustSvgTagName name := by
  unfold adjustSvgTagName Spec.TreeAlgo.adjustSvgTagName
  rw [← adjust_tables_eq.2.1, lookup2_map]
  cases svgTagNames.find? (fun s => lowerStr s == name) <;> rfl

theorem foreignAttrMap_eq (k : Str) :
    foreignAttrMap k = (Spec.TreeTables.foreignAttrs.find? (fun r => r.1.toList == k)).map
      (fun r => { pfx := r.2.1.map String.toList, ns := Spec.TreeAlgo.nsUrl r.2.2.2, loc := r.2.2.1.toList }) := by
  unfold foreignAttrMap
  rw [adjust_tables_eq.2.2.1, List.find?_map]
  simp only [Option.map_map]
  rfl

/-- one attribute through `adjust_attributes(tag, map)` -/
def adj1 (map : Str → Option QualName) (a : Attr) : Attr :=
  match map a.name.loc with
  | some q => { a with name := q }
  | none => a

theorem adjustAttributes_attrs (map : Str → Option QualName) (t : Tag) :
    (adjustAttributes map t).attrs = t.attrs.map (adj1 map) := rfl

def toAdj (a : Attr) : Spec.TreeAlgo.AdjAttr := ⟨a.name.pfx, a.name.ns, a.name.loc, a.value⟩

/-- the attribute as the tokenizer delivers it: no prefix, no namespace -/
def Plain (a : Attr) : Prop := a.name = plainName a.name.loc

theorem adj1_first (kind : Spec.TreeAlgo.ForeignKind) (map : Str → Option QualName) (a : Attr) (hp : Plain a)
    (hmap : ∀ k, map k = (match kind with
      | .mathml => (Spec.TreeAlgo.lookup2 Spec.TreeTables.mathmlAttrNames k).map (fun v => plainName v.toList)
      | .svg => (Spec.TreeAlgo.lookup2 Spec.TreeTables.svgAttrNames k).map (fun v => plainName v.toList)
      | .other => none)) :
    Plain (adj1 map a) ∧ (adj1 map a).name.loc = Spec.TreeAlgo.adjustName1 kind a.name.loc ∧
      (adj1 map a).value = a.value := by
  unfold adj1 Spec.TreeAlgo.adjustName1
  rw [hmap]
  cases kind with
  | other => exact ⟨hp, rfl, rfl⟩
  | mathml =>
    cases Spec.TreeAlgo.lookup2 Spec.TreeTables.mathmlAttrNames a.name.loc with
    | none => exact ⟨hp, rfl, rfl⟩
    | some v => exact ⟨rfl, rfl, rfl⟩
  | svg =>
    cases Spec.TreeAlgo.lookup2 Spec.TreeTables.svgAttrNames a.name.loc with
    | none => exact ⟨hp, rfl, rfl⟩
    | some v => exact ⟨rfl, rfl, rfl⟩

theorem adj1_foreign (a : Attr) (hp : Plain a) :
    toAdj (adj1 foreignAttrMap a) = Spec.TreeAlgo.adjustForeign1 a.name.loc a.value := by
  unfold adj1 Spec.TreeAlgo.adjustForeign1
  rw [foreignAttrMap_eq]
  cases Spec.TreeTables.foreignAttrs.find? (fun r => r.1.toList == a.name.loc) with
  | none =>
    simp only [Option.map_none, toAdj]
    rw [hp]; rfl
  | some r => rfl

/-- **(f)** the attributes of a start tag inserted as an SVG / MathML / other foreign element: the
model's two passes (`adjust_svg_attributes` | `adjust_mathml_attributes`, then
`adjust_foreign_attributes`) give the standard's adjusted attributes, for every tag whose
attributes are as the tokenizer delivers them -/
theorem adjust_attributes_eq_spec (kind : Spec.TreeAlgo.ForeignKind) (t : Tag) (hp : ∀ a ∈ t.attrs, Plain a) :
    (adjustForeignAttributes (match kind with
        | .mathml => adjustMathmlAttributes t | .svg => adjustSvgAttributes t | .other => t)).attrs.map toAdj
      = Spec.TreeAlgo.adjustAttributes kind (t.attrs.map (fun a => (a.name.loc, a.value))) := by
  have key : ∀ (map : Str → Option QualName), (∀ k, map k = (match kind with
      | .mathml => (Spec.TreeAlgo.lookup2 Spec.TreeTables.mathmlAttrNames k).map (fun v => plainName v.toList)
      | .svg => (Spec.TreeAlgo.lookup2 Spec.TreeTables.svgAttrNames k).map (fun v => plainName v.toList)
      | .other => none)) →
      ((t.attrs.map (adj1 map)).map (adj1 foreignAttrMap)).map toAdj
        = Spec.TreeAlgo.adjustAttributes kind (t.attrs.map (fun a => (a.name.loc, a.value))) := by
    intro map hmap
    simp only [Spec.TreeAlgo.adjustAttributes, List.map_map]
    apply List.map_congr_left
    intro a ha
    obtain ⟨h1, h2, h3⟩ := adj1_first kind map a (hp a ha) hmap
    simp only [Function.comp]
    rw [adj1_foreign _ h1, h2, h3]
  cases kind with
  | other =>
    have := key (fun _ => none) (fun _ => rfl)
    simp only [adjustForeignAttributes, adjustAttributes_attrs]
    have e : t.attrs.map (adj1 fun _ => none) = t.attrs := by
      have : (adj1 fun _ => none) = id := by funext a; rfl
      rw [this, List.map_id]
    rw [e] at this; exact this
  | mathml => exact key mathmlAttrMap mathmlAttrMap_eq
  | svg => exact key svgAttrMap svgAttrMap_eq

theorem any_congr_mem {α : Type} {l : List α} {f g : α → Bool} (h : ∀ a ∈ l, f a = g a) : l.any f = l.any g := by
  induction l with
  | nil => rfl
  | cons x l ih =>
    simp only [List.any_cons, h x (List.mem_cons_self ..), ih (fun a ha => h a (List.mem_cons_of_mem _ ha))]

/-- the start tags that break out of foreign content (`step_foreign`'s first two arms) -/
theorem breakout_eq_spec (t : Tag) (hk : t.kind = .startTag) (hp : ∀ a ∈ t.attrs, Plain a) :
    (t.isStart foreignBreakoutStart ||
      (t.isStart ["font"] && t.attrs.any (fun a => a.name.ns == [] && isOneOf a.name.loc ["color", "face", "size"])))
      = Spec.TreeAlgo.breaksOutOfForeign t.name (t.attrs.map (·.name.loc)) := by
  simp only [Tag.isStart, hk, Spec.TreeAlgo.breaksOutOfForeign, adjust_tables_eq.2.2.2, isOneOf, List.any_map,
    List.any_cons, List.any_nil, Bool.or_false, BEq.rfl, Bool.true_and]
  congr 1
  rw [show ("font".toList == t.name) = (t.name == "font".toList) from BEq.comm]
  congr 1
  apply any_congr_mem
  intro a ha
  have : a.name.ns = [] := by rw [hp a ha]; rfl
  simp [this, Function.comp, Spec.TreeTables.fontBreakoutAttrs]

/-! ### (h) adoption agency: the loops -/

/-- the outer loop is "at most 8 times, until a step says stop" -/
theorem aaOuter_eq_boundedLoop (subject : Str) (n : Nat) :
    aaOuter subject n = Spec.TreeAlgo.boundedLoop (aaOuterStep subject) n := by
  induction n with
  | zero => rfl
  | succ n ih => simp only [aaOuter, Spec.TreeAlgo.boundedLoop, ih]

end H5V.Lemmas.HtmlTBSpec
