import H5V.Lemmas.HtmlTBFuelHead
/-!
# The fuel of `process_to_completion`, part 10: `stepInBody` (`BodyE`)

Two arms answer `Reprocess`: `</html>` (→ AfterBody) and EOF inside a template (→ the reset mode, a template
mode popped).
-/
namespace H5V.Lemmas.TBFuel
open H5V.Model.HtmlTB
open H5V.Model.HtmlTok (TagKind)
open H5V.Model.Dom (Id QualName Attr NodeOrText SinkOp Output ElementFlags QuirksMode Dom NodeData Node)
open H5V.Lemmas.TBSafe
open H5V.Lemmas.TBC (ok_bind ok_pure ok_getS_bind ok_modS_bind ok_ite ok_bind_pure)

/-- the judgement of an arm of `stepInBody` -/
def BJ (f : M ProcessResult) (tok : Token) : Prop := ∀ s r s', TI s → f s = .ok (r, s') → EB s tok r s'

theorem eb_of_quiet {s s' : State} {tok : Token} {r : ProcessResult} (h : Quiet r) : EB s tok r s' := by
  cases r <;> first | trivial | exact h.elim

theorem bj_of_ro {f : M ProcessResult} {tok : Token} (h : RO f Quiet) : BJ f tok :=
  fun s r s' _ hr => eb_of_quiet (h s r s' hr)

theorem bj_ite {c : Prop} [Decidable c] {a b : M ProcessResult} {tok : Token}
    (h1 : c → BJ a tok) (h2 : ¬c → BJ b tok) : BJ (if c then a else b) tok := by
  by_cases hc : c
  · rw [if_pos hc]; exact h1 hc
  · rw [if_neg hc]; exact h2 hc

/-- a quiet arm of the chain -/
syntax "bj_q" : tactic
macro_rules
  | `(tactic| bj_q) => `(tactic| refine bj_ite (fun _ => bj_of_ro (by ro_walkS)) (fun _ => ?_))

set_option maxHeartbeats 1600000 in
/-- **`stepInBody`** -/
theorem bodyE (hH : HeadE) : BodyE := by
  intro tok
  show BJ (stepInBody tok) tok
  unfold stepInBody
  cases tok with
  | nullChar => exact bj_of_ro (by ro_walk)
  | chars st text => exact bj_of_ro (by ro_walk)
  | comment t => exact bj_of_ro (by ro_walk)
  | eof =>
    dsimp only
    intro s r s' ht hrun
    have h1 := ok_getS_bind hrun
    by_cases c : (!s.templateModes.isEmpty) = true
    · rw [if_pos c] at h1
      rcases ef_inTemplateEof ht h1 with e | ⟨m', e, hp⟩
      · rw [e]; trivial
      · rw [e]; exact Or.inr ⟨rfl, hp⟩
    · rw [if_neg c] at h1
      have hq : RO (do checkBodyEnd; pure ProcessResult.done) Quiet := by ro_walk
      exact eb_of_quiet (hq s r s' h1)
  | tag tag =>
    dsimp only
    bj_q
    -- the tags delegated to `stepInHead`
    refine bj_ite (fun h => bj_of_ro (ro_stepInHead hH (headElse_startOrEnd h) tag_ne_notSplit)) (fun _ => ?_)
    bj_q
    bj_q
    bj_q
    -- `</html>`
    refine bj_ite (fun h => ?_) (fun _ => ?_)
    · intro s r s' ht hrun
      obtain ⟨b, s1, h1, h2⟩ := ok_bind hrun
      have sh1 := sh_inScopeNamed _ _ s b s1 h1
      by_cases cb : b = true
      · rw [if_pos cb] at h2
        obtain ⟨_, s2, h3, h4⟩ := ok_bind h2
        obtain ⟨e1, e2⟩ := ok_pure h4
        rw [← e1, ← e2]
        refine Or.inl ⟨cls_of_isEnd (P := fun c => c = .eHtml) h (by decide), rfl, ?_⟩
        exact (sh1.trans (sh_checkBodyEnd s1 _ s2 h3)).wle ht.h.open_el
      · rw [if_neg cb] at h2
        have hq : RO (do parseError "</html> with no <body> in scope"; pure ProcessResult.done) Quiet := by ro_walk
        exact eb_of_quiet (hq s1 r s' h2)
    iterate 40 bj_q
    exact bj_of_ro (by ro_walkS)

end H5V.Lemmas.TBFuel
