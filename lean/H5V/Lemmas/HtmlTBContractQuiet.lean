import H5V.Lemmas.HtmlTBContractPrim
import H5V.Model.HtmlTB.Run
/-!
# TreeSink contract for the HTML tree builder, part 4: the helpers without tree-mutating sink calls

`CP` leaves for every helper of `mod.rs` / `rules.rs` that only queries the sink (`elem_name`,
`same_node`, `pop`, `parse_error`, `set_quirks_mode`, `add_attrs_if_missing`, …) and updates builder
fields: scope tests, the `pop_until*` family, the list of active formatting elements, "any other end
tag", `reset_insertion_mode`, `is_foreign`, ….

Every leaf is registered for `cp_walk` as `with_reducible exact cp_foo …`: a failing plain `exact` makes
the unifier unfold both monadic terms (0.5 s per failing leaf, and a String/Str pair such as
`cp_popUntilNamed` against `popUntilNamedS name` does not terminate within the heartbeat limit).
`reset_insertion_mode` is special: its result is needed to be a late mode, so it is proved at `SatC`
level (`satc_resetInsertionMode`) and used through the bind rule `cp_reset_bind` (registered as a
"leaf" that leaves the continuation goal, with `m ≠ .initial` in the context).
-/
namespace H5V.Lemmas.TBC
open H5V.Model.HtmlTB
open H5V.Model.Dom (Id QualName Attr NodeOrText SinkOp Output ElementFlags QuirksMode Dom NodeData Node Contract)
open H5V.Lemmas.TBSafe (IsEl nm sigOf Ext apply_ext tmplName fmtNames nm_ext sigOf_ext IsEl.ext sigOf_lt)

variable {d0 : Dom}

/-! ### membership in the context after a `getS` -/

theorem mem_open {s0 : State} {c : List Id} {x : Id} (h : x ∈ s0.openElems) : x ∈ stH s0 ++ c := by
  simp only [stH, List.mem_append]
  exact Or.inl (Or.inl (Or.inl (Or.inl (Or.inl h))))

theorem mem_afH {s0 : State} {c : List Id} {x : Id} {t : Tag} (h : FormatEntry.element x t ∈ s0.activeFormatting) :
    x ∈ stH s0 ++ c := by
  simp only [stH, List.mem_append]
  exact Or.inl (Or.inl (Or.inl (Or.inl (Or.inr (mem_afIds.mpr ⟨t, h⟩)))))

theorem mem_ctxElem {s0 : State} {c : List Id} {x : Id} (h : s0.contextElem = some x) : x ∈ stH s0 ++ c := by
  simp only [stH, List.mem_append, Option.mem_toList]
  exact Or.inl (Or.inr h)

theorem mem_tail {a c : List Id} {x : Id} (h : x ∈ c) : x ∈ a ++ c := List.mem_append_right _ h

/-- `∀ y ∈ l, y ∈ ctx` for a list `l` that is (the reverse of) the stack of a state that was read -/
syntax "cp_list_mem" : tactic
macro_rules
  | `(tactic| cp_list_mem) => `(tactic|
    (intro y hy
     first
       | exact mem_open hy
       | exact mem_open (List.mem_reverse.mp hy)
       | exact mem_open (List.mem_of_mem_drop hy)
       | ctx_mem
       | (simp only [List.mem_reverse] at hy; ctx_mem)))

/-! ### small accessors -/

theorem cp_htmlElem {c : List Id} : CP d0 c htmlElem (fun h => [h]) := by
  unfold H5V.Model.HtmlTB.htmlElem
  refine cp_getS_bind ?_
  intro s0
  cases hl : s0.openElems.head? with
  | none => exact cp_panicAt
  | some h =>
    refine cp_pure h ?_
    intro x hx
    rw [List.mem_singleton.mp hx]
    exact mem_open (List.mem_of_mem_head? hl)

macro_rules | `(tactic| cp_leaf) => `(tactic| with_reducible exact cp_htmlElem)

theorem cp_htmlElemFn {c : List Id} : CP d0 c htmlElemFn (fun h => [h]) := by
  unfold H5V.Model.HtmlTB.htmlElemFn
  refine cp_getS_bind ?_
  intro s0
  cases hl : s0.openElems.head? with
  | none => exact cp_panicAt
  | some h =>
    refine cp_pure h ?_
    intro x hx
    rw [List.mem_singleton.mp hx]
    exact mem_open (List.mem_of_mem_head? hl)

macro_rules | `(tactic| cp_leaf) => `(tactic| with_reducible exact cp_htmlElemFn)

theorem cp_adjustedCurrentNode {c : List Id} : CP d0 c adjustedCurrentNode (fun h => [h]) := by
  unfold H5V.Model.HtmlTB.adjustedCurrentNode
  refine cp_getS_bind ?_
  intro s0
  refine cp_ite (fun _ => ?_) (fun _ => cp_currentNode)
  cases hc : s0.contextElem with
  | none => exact cp_currentNode
  | some ctx =>
    refine cp_pure ctx ?_
    intro x hx
    rw [List.mem_singleton.mp hx]
    exact mem_ctxElem hc

macro_rules | `(tactic| cp_leaf) => `(tactic| with_reducible exact cp_adjustedCurrentNode)

theorem cp_isFragment {c : List Id} : CP d0 c isFragment (fun _ => []) := by
  unfold H5V.Model.HtmlTB.isFragment
  exact cp_getS_bind (fun _ => cp_pure_nil _)

macro_rules | `(tactic| cp_leaf) => `(tactic| with_reducible exact cp_isFragment)

theorem cp_pendingTableTextEmpty {c : List Id} : CP d0 c pendingTableTextEmpty (fun _ => []) := by
  unfold H5V.Model.HtmlTB.pendingTableTextEmpty
  exact cp_getS_bind (fun _ => cp_pure_nil _)

macro_rules | `(tactic| cp_leaf) => `(tactic| with_reducible exact cp_pendingTableTextEmpty)

/-- a builder-field update that keeps the sink, shrinks the stack, keeps the *elements* of the list
of active formatting entries (markers may come and go), keeps or clears the pointers -/
theorem CB.of_shrinkAF {s s' : State} (h : CB d0 s) (hd : s'.dom = s.dom) (ht : s'.traceRev = s.traceRev)
    (hdoc : s'.docHandle = s.docHandle)
    (ho : ∀ x ∈ s'.openElems, x ∈ s.openElems)
    (ha : ∀ x t, FormatEntry.element x t ∈ s'.activeFormatting → FormatEntry.element x t ∈ s.activeFormatting)
    (hh : ∀ x, s'.headElem = some x → s.headElem = some x)
    (hf : ∀ x, s'.formElem = some x → s.formElem = some x)
    (hc : ∀ x, s'.contextElem = some x → s.contextElem = some x)
    (hl : LateS s') : CB d0 s' where
  d := ⟨by rw [hd]; exact h.d.inv, by rw [hd, ht]; exact h.d.run⟩
  h := ⟨hdoc.trans h.h.docH, by rw [hd]; exact h.h.doc0, fun x hx => by rw [hd]; exact h.h.open_el x (ho x hx),
    fun x hx => by rw [hd]; exact h.h.open_tc x (ho x hx),
    fun x t hx => by rw [hd]; exact h.h.af x t (ha _ _ hx),
    fun x hx => by rw [hd]; exact h.h.head x (hh x hx), fun x hx => by rw [hd]; exact h.h.form x (hf x hx),
    fun x hx => by rw [hd]; exact h.h.ctx x (hc x hx), fun x hx => by rw [hd]; exact h.h.headTc x (hh x hx)⟩
  l := hl

theorem cp_pushMarker {c : List Id} : CP d0 c pushMarker (fun _ => []) := by
  unfold H5V.Model.HtmlTB.pushMarker
  refine cp_modS (fun s hcb _ => ⟨?_, GrowRel.of_sublist rfl (List.Sublist.refl _)⟩)
  refine hcb.of_shrinkAF rfl rfl rfl (fun _ h => h) ?_ (fun _ h => h) (fun _ h => h) (fun _ h => h)
    (lateS_of_eq hcb.l rfl rfl rfl)
  intro x t hx
  rcases List.mem_append.mp hx with h | h
  · exact h
  · simp at h

macro_rules | `(tactic| cp_leaf) => `(tactic| with_reducible exact cp_pushMarker)

theorem contract_setQuirksMode {d : Dom} {m : QuirksMode} : Contract d (.setQuirksMode m) := rfl

theorem cp_setQuirksMode {c : List Id} {m : QuirksMode} : CP d0 c (setQuirksMode m) (fun _ => []) := by
  unfold H5V.Model.HtmlTB.setQuirksMode
  refine cp_bind (R := fun _ => []) ?_ ?_
  · exact cp_modS_shrink (fun _ => rfl) (fun _ => rfl) (fun _ => rfl) (fun _ => List.Sublist.refl _)
      (fun _ _ h => h) (fun _ _ h => h) (fun _ _ h => h) (fun _ _ h => h) (fun _ hl => ⟨hl.mode, hl.orig, hl.tm⟩)
  · intro _
    exact cp_sinkUnit_nt rfl (fun _ _ _ => contract_setQuirksMode)

macro_rules | `(tactic| cp_leaf) => `(tactic| with_reducible exact cp_setQuirksMode)

theorem cp_toRawTextMode {c : List Id} {k : H5V.Model.HtmlTok.RawKind} : CP d0 c (toRawTextMode k) (fun _ => []) := by
  unfold H5V.Model.HtmlTB.toRawTextMode
  refine cp_bind (R := fun _ => []) ?_ (fun _ => cp_pure_nil _)
  exact cp_modS_shrink (fun _ => rfl) (fun _ => rfl) (fun _ => rfl) (fun _ => List.Sublist.refl _)
    (fun _ _ h => h) (fun _ _ h => h) (fun _ _ h => h) (fun _ _ h => h)
    (fun _ hl => ⟨(fun h => by cases h), (fun h => hl.mode (Option.some.inj h)), hl.tm⟩)

macro_rules | `(tactic| cp_leaf) => `(tactic| with_reducible exact cp_toRawTextMode)

/-! ### scope tests -/

theorem cp_inScopeLoop {c : List Id} {scope : EName → Bool} {pred : Id → M Bool}
    (hp : ∀ x, x ∈ c → CP d0 c (pred x) (fun _ => [])) :
    ∀ (l : List Id), (∀ x ∈ l, x ∈ c) → CP d0 c (inScopeLoop scope pred l) (fun _ => []) := by
  intro l
  induction l with
  | nil => intro _; unfold H5V.Model.HtmlTB.inScopeLoop; exact cp_pure_nil _
  | cons node rest ih =>
    intro hl
    unfold H5V.Model.HtmlTB.inScopeLoop
    have hn : node ∈ c := hl node List.mem_cons_self
    have ih' := ih (fun x hx => hl x (List.mem_cons_of_mem _ hx))
    refine cp_bind (hp node hn) ?_
    intro b
    refine cp_ite (fun _ => cp_pure_nil _) (fun _ => ?_)
    refine cp_bind (cp_elemName (mem_tail hn)) ?_
    intro n
    exact cp_ite (fun _ => cp_pure_nil _) (fun _ => cp_ctx_mono ih' (fun x hx => mem_tail (mem_tail hx)))

/-- `in_scope(scope, pred)`: the predicate must be a `CP` in every context that extends `c` and
contains its argument -/
theorem cp_inScope {c : List Id} {scope : EName → Bool} {pred : Id → M Bool}
    (hp : ∀ (c' : List Id) (x : Id), x ∈ c' → (∀ y ∈ c, y ∈ c') → CP d0 c' (pred x) (fun _ => [])) :
    CP d0 c (inScope scope pred) (fun _ => []) := by
  unfold H5V.Model.HtmlTB.inScope
  refine cp_getS_bind ?_
  intro s0
  exact cp_inScopeLoop (fun x hx => hp _ x hx (fun y hy => mem_tail hy)) _
    (fun x hx => mem_open (List.mem_reverse.mp hx))

macro_rules | `(tactic| cp_leaf) => `(tactic| with_reducible exact cp_inScope (fun _ _ hx _ => cp_elemIn hx))
macro_rules | `(tactic| cp_leaf) => `(tactic| with_reducible exact cp_inScope (fun _ _ hx _ => cp_htmlElemNamedS hx))
macro_rules | `(tactic| cp_leaf) => `(tactic| with_reducible exact cp_inScope (fun _ _ hx hc => cp_sameNode hx (hc _ (by ctx_mem))))
macro_rules | `(tactic| cp_leaf) => `(tactic| with_reducible exact cp_inScope (fun _ _ hx hc => cp_sameNode (hc _ (by ctx_mem)) hx))

theorem cp_inScopeNamedS {c : List Id} {scope : EName → Bool} {name : Str} :
    CP d0 c (inScopeNamedS scope name) (fun _ => []) := by
  unfold H5V.Model.HtmlTB.inScopeNamedS
  exact cp_inScope (fun _ _ hx _ => cp_htmlElemNamedS hx)

macro_rules | `(tactic| cp_leaf) => `(tactic| with_reducible exact cp_inScopeNamedS)

theorem cp_inScopeNamed {c : List Id} {scope : EName → Bool} {name : String} :
    CP d0 c (inScopeNamed scope name) (fun _ => []) := cp_inScopeNamedS

macro_rules | `(tactic| cp_leaf) => `(tactic| with_reducible exact cp_inScopeNamed)

/-- the instances of `in_scope` used by the rules and the adoption agency -/
theorem cp_inScope_elemIn {c : List Id} {scope set : EName → Bool} :
    CP d0 c (inScope scope (fun n => elemIn n set)) (fun _ => []) :=
  cp_inScope (fun _ _ hx _ => cp_elemIn hx)

theorem cp_inScope_sameNodeL {c : List Id} {scope : EName → Bool} {node : Id} (hn : node ∈ c) :
    CP d0 c (inScope scope (fun n => sameNode node n)) (fun _ => []) :=
  cp_inScope (fun _ _ hx hc => cp_sameNode (hc _ hn) hx)

theorem cp_inScope_sameNodeR {c : List Id} {scope : EName → Bool} {node : Id} (hn : node ∈ c) :
    CP d0 c (inScope scope (fun n => sameNode n node)) (fun _ => []) :=
  cp_inScope (fun _ _ hx hc => cp_sameNode hx (hc _ hn))

/-! ### popping -/

theorem cp_popUntilCurrentLoop {c : List Id} {set : EName → Bool} : ∀ (fuel : Nat),
    CP d0 c (popUntilCurrentLoop set fuel) (fun _ => []) := by
  intro fuel
  induction fuel generalizing c with
  | zero => unfold H5V.Model.HtmlTB.popUntilCurrentLoop; exact cp_fuelOut
  | succ fuel ih =>
    unfold H5V.Model.HtmlTB.popUntilCurrentLoop
    refine cp_bind cp_currentNodeIn ?_
    intro b
    refine cp_ite (fun _ => cp_pure_nil _) (fun _ => ?_)
    refine cp_bind cp_popSilently ?_
    intro _
    exact ih

theorem cp_popUntilCurrent {c : List Id} {set : EName → Bool} : CP d0 c (popUntilCurrent set) (fun _ => []) := by
  unfold H5V.Model.HtmlTB.popUntilCurrent
  refine cp_getS_bind ?_
  intro s0
  exact cp_popUntilCurrentLoop _

macro_rules | `(tactic| cp_leaf) => `(tactic| with_reducible exact cp_popUntilCurrent)

theorem cp_popUntilLoop {c : List Id} {pred : EName → Bool} : ∀ (fuel n : Nat),
    CP d0 c (popUntilLoop pred fuel n) (fun _ => []) := by
  intro fuel
  induction fuel generalizing c with
  | zero => intro n; unfold H5V.Model.HtmlTB.popUntilLoop; exact cp_fuelOut
  | succ fuel ih =>
    intro n
    unfold H5V.Model.HtmlTB.popUntilLoop
    dsimp only
    refine cp_bind cp_popSilently ?_
    intro r
    cases r with
    | none => exact cp_pure_nil _
    | some elem =>
      dsimp only
      refine cp_bind (cp_elemName (by simp)) ?_
      intro nm'
      exact cp_ite (fun _ => cp_pure_nil _) (fun _ => ih _)

theorem cp_popUntil {c : List Id} {pred : EName → Bool} : CP d0 c (popUntil pred) (fun _ => []) := by
  unfold H5V.Model.HtmlTB.popUntil
  refine cp_getS_bind ?_
  intro s0
  exact cp_popUntilLoop _ _

macro_rules | `(tactic| cp_leaf) => `(tactic| with_reducible exact cp_popUntil)

theorem cp_popUntilNamedS {c : List Id} {name : Str} : CP d0 c (popUntilNamedS name) (fun _ => []) := cp_popUntil

macro_rules | `(tactic| cp_leaf) => `(tactic| with_reducible exact cp_popUntilNamedS)

theorem cp_popUntilNamed {c : List Id} {name : String} : CP d0 c (popUntilNamed name) (fun _ => []) := cp_popUntil

macro_rules | `(tactic| cp_leaf) => `(tactic| with_reducible exact cp_popUntilNamed)

theorem cp_expectToCloseS {c : List Id} {name : Str} : CP d0 c (expectToCloseS name) (fun _ => []) := by
  unfold H5V.Model.HtmlTB.expectToCloseS
  refine cp_bind cp_popUntilNamedS ?_
  intro n
  exact cp_ite (fun _ => cp_parseError) (fun _ => cp_pure_nil _)

macro_rules | `(tactic| cp_leaf) => `(tactic| with_reducible exact cp_expectToCloseS)

theorem cp_expectToClose {c : List Id} {name : String} : CP d0 c (expectToClose name) (fun _ => []) :=
  cp_expectToCloseS

macro_rules | `(tactic| cp_leaf) => `(tactic| with_reducible exact cp_expectToClose)

theorem cp_closePElement {c : List Id} : CP d0 c closePElement (fun _ => []) := by
  unfold H5V.Model.HtmlTB.closePElement
  exact cp_bind cp_generateImpliedEndTags (fun _ => cp_expectToClose)

macro_rules | `(tactic| cp_leaf) => `(tactic| with_reducible exact cp_closePElement)

theorem cp_closePElementInButtonScope {c : List Id} : CP d0 c closePElementInButtonScope (fun _ => []) := by
  unfold H5V.Model.HtmlTB.closePElementInButtonScope
  refine cp_bind cp_inScopeNamed ?_
  intro b
  exact cp_ite (fun _ => cp_closePElement) (fun _ => cp_pure_nil _)

macro_rules | `(tactic| cp_leaf) => `(tactic| with_reducible exact cp_closePElementInButtonScope)

theorem cp_generateImpliedEndExcept {c : List Id} {except : Str} :
    CP d0 c (generateImpliedEndExcept except) (fun _ => []) := cp_generateImpliedEndTags

macro_rules | `(tactic| cp_leaf) => `(tactic| with_reducible exact cp_generateImpliedEndExcept)

theorem cp_checkBodyEndLoop {c : List Id} : ∀ (l : List Id), (∀ x ∈ l, x ∈ c) →
    CP d0 c (checkBodyEndLoop l) (fun _ => []) := by
  intro l
  induction l with
  | nil => intro _; unfold H5V.Model.HtmlTB.checkBodyEndLoop; exact cp_pure_nil _
  | cons e rest ih =>
    intro hl
    unfold H5V.Model.HtmlTB.checkBodyEndLoop
    have he : e ∈ c := hl e List.mem_cons_self
    have ih' := ih (fun x hx => hl x (List.mem_cons_of_mem _ hx))
    refine cp_bind (cp_elemName he) ?_
    intro n
    exact cp_ite (fun _ => cp_ctx_mono ih' (fun x hx => mem_tail hx)) (fun _ => cp_parseError)

theorem cp_checkBodyEnd {c : List Id} : CP d0 c checkBodyEnd (fun _ => []) := by
  unfold H5V.Model.HtmlTB.checkBodyEnd
  refine cp_getS_bind ?_
  intro s0
  exact cp_checkBodyEndLoop _ (fun x hx => mem_open hx)

macro_rules | `(tactic| cp_leaf) => `(tactic| with_reducible exact cp_checkBodyEnd)

theorem cp_bodyElem {c : List Id} : CP d0 c bodyElem (fun r => r.toList) := by
  unfold H5V.Model.HtmlTB.bodyElem
  refine cp_getS_bind ?_
  intro s0
  have hnone : CP d0 (stH s0 ++ c) (pure none : M (Option Id)) (fun r => r.toList) :=
    cp_pure none (by intro x hx; cases hx)
  refine cp_ite (fun _ => hnone) (fun _ => ?_)
  cases hn : s0.openElems[1]? with
  | none => exact hnone
  | some node =>
    dsimp only
    have hmem : node ∈ stH s0 ++ c := mem_open (List.mem_of_getElem? hn)
    refine cp_bind (cp_htmlElemNamed hmem) ?_
    intro b
    refine cp_ite (fun _ => ?_) (fun _ => cp_pure none (by intro x hx; cases hx))
    exact cp_pure (some node) (by intro x hx; simp at hx; subst hx; exact mem_tail hmem)

macro_rules | `(tactic| cp_leaf) => `(tactic| with_reducible exact cp_bodyElem)

/-! ### `rposition`, `remove_from_stack` -/

theorem cp_rpositionLoop {c : List Id} {p : Id → M Bool}
    (hp : ∀ x, x ∈ c → CP d0 c (p x) (fun _ => [])) :
    ∀ (l : List Id) (len : Nat), (∀ x ∈ l, x ∈ c) → CP d0 c (rpositionLoop p l len) (fun _ => []) := by
  intro l
  induction l with
  | nil => intro _ _; unfold H5V.Model.HtmlTB.rpositionLoop; exact cp_pure_nil _
  | cons e rest ih =>
    intro len hl
    unfold H5V.Model.HtmlTB.rpositionLoop
    have he : e ∈ c := hl e List.mem_cons_self
    have ih' := ih (len - 1) (fun x hx => hl x (List.mem_cons_of_mem _ hx))
    refine cp_bind (hp e he) ?_
    intro b
    exact cp_ite (fun _ => cp_pure_nil _) (fun _ => cp_ctx_mono ih' (fun x hx => mem_tail hx))

theorem cp_rposition {c : List Id} {p : Id → M Bool}
    (hp : ∀ (c' : List Id) (x : Id), x ∈ c' → (∀ y ∈ c, y ∈ c') → CP d0 c' (p x) (fun _ => [])) :
    CP d0 c (rposition p) (fun _ => []) := by
  unfold H5V.Model.HtmlTB.rposition
  refine cp_getS_bind ?_
  intro s0
  dsimp only
  exact cp_rpositionLoop (fun x hx => hp _ x hx (fun y hy => mem_tail hy)) _ _
    (fun x hx => mem_open (List.mem_reverse.mp hx))

macro_rules | `(tactic| cp_leaf) => `(tactic| with_reducible exact cp_rposition (fun _ _ hx hc => cp_sameNode hx (hc _ (by ctx_mem))))
macro_rules | `(tactic| cp_leaf) => `(tactic| with_reducible exact cp_rposition (fun _ _ hx hc => cp_sameNode (hc _ (by ctx_mem)) hx))

theorem cp_rposition_sameNodeL {c : List Id} {node : Id} (hn : node ∈ c) :
    CP d0 c (rposition (fun x => sameNode node x)) (fun _ => []) :=
  cp_rposition (fun _ _ hx hc => cp_sameNode (hc _ hn) hx)

theorem cp_rposition_sameNodeR {c : List Id} {node : Id} (hn : node ∈ c) :
    CP d0 c (rposition (fun x => sameNode x node)) (fun _ => []) :=
  cp_rposition (fun _ _ hx hc => cp_sameNode hx (hc _ hn))

/-- `modS` on the stack only, with a sublist of the old stack -/
theorem cp_modS_stack {c : List Id} {g : List Id → List Id} (hg : ∀ l, (g l).Sublist l) :
    CP d0 c (H5V.Model.HtmlTB.modS fun s => { s with openElems := g s.openElems }) (fun _ => []) :=
  cp_modS_shrink (fun _ => rfl) (fun _ => rfl) (fun _ => rfl) (fun s => hg s.openElems)
    (fun _ _ h => h) (fun _ _ h => h) (fun _ _ h => h) (fun _ _ h => h) (fun _ hl => ⟨hl.mode, hl.orig, hl.tm⟩)

theorem cp_removeFromStack {c : List Id} {elem : Id} (he : elem ∈ c) :
    CP d0 c (removeFromStack elem) (fun _ => []) := by
  unfold H5V.Model.HtmlTB.removeFromStack
  refine cp_bind (cp_rposition_sameNodeL he) ?_
  intro r
  cases r with
  | none => exact cp_pure_nil _
  | some pos =>
    dsimp only
    refine cp_bind (R := fun _ => []) (cp_modS_stack (g := fun l => l.eraseIdx pos) (fun l => List.eraseIdx_sublist l pos)) ?_
    intro _
    exact cp_sinkUnit_nt rfl (fun s _ hc => contract_pop (hc elem (mem_tail (mem_tail he))))

macro_rules | `(tactic| cp_leaf) => `(tactic| with_reducible exact cp_removeFromStack (by ctx_mem))

/-! ### the list of active formatting elements -/

theorem cp_positionInAFLoop {c : List Id} {element : Id} (he : element ∈ c) :
    ∀ (l : List FormatEntry) (i : Nat), (∀ h t, FormatEntry.element h t ∈ l → h ∈ c) →
    CP d0 c (positionInAFLoop element l i) (fun _ => []) := by
  intro l
  induction l with
  | nil => intro _ _; unfold H5V.Model.HtmlTB.positionInAFLoop; exact cp_pure_nil _
  | cons e rest ih =>
    intro i hl
    have ih' := ih (i + 1) (fun h t hm => hl h t (List.mem_cons_of_mem _ hm))
    cases e with
    | marker => unfold H5V.Model.HtmlTB.positionInAFLoop; exact ih'
    | element h t =>
      unfold H5V.Model.HtmlTB.positionInAFLoop
      refine cp_bind (cp_sameNode (hl h t List.mem_cons_self) he) ?_
      intro b
      exact cp_ite (fun _ => cp_pure_nil _) (fun _ => cp_ctx_mono ih' (fun x hx => mem_tail hx))

theorem cp_positionInActiveFormatting {c : List Id} {element : Id} (he : element ∈ c) :
    CP d0 c (positionInActiveFormatting element) (fun _ => []) := by
  unfold H5V.Model.HtmlTB.positionInActiveFormatting
  refine cp_getS_bind ?_
  intro s0
  exact cp_positionInAFLoop (mem_tail he) _ _ (fun h t hm => mem_afH hm)

macro_rules | `(tactic| cp_leaf) => `(tactic| with_reducible exact cp_positionInActiveFormatting (by ctx_mem))

/-- the judgement at one state: a field update -/
theorem cpat_modS {s : State} {c : List Id} {f : State → State}
    (h : CB d0 s → CB d0 (f s) ∧ GrowRel s (f s)) : CPat d0 s c (H5V.Model.HtmlTB.modS f) (fun _ => []) :=
  fun hcb _ => satc_modS ⟨(h hcb).1, (h hcb).2, CtxOk.nil _⟩

theorem cpat_ite {s : State} {c : List Id} {α : Type} {p : Prop} [Decidable p] {a b : M α} {R : α → List Id}
    (h1 : p → CPat d0 s c a R) (h2 : ¬p → CPat d0 s c b R) : CPat d0 s c (if p then a else b) R := by
  by_cases hp : p
  · rw [if_pos hp]; exact h1 hp
  · rw [if_neg hp]; exact h2 hp

/-- `setAF af` at a state whose list of active formatting elements contains every element entry of `af` -/
theorem cpat_setAF {s : State} {c : List Id} {af : List FormatEntry}
    (h : ∀ x t, FormatEntry.element x t ∈ af → FormatEntry.element x t ∈ s.activeFormatting) :
    CPat d0 s c (setAF af) (fun _ => []) := by
  unfold H5V.Model.HtmlTB.setAF
  refine cpat_modS (fun hcb => ⟨?_, GrowRel.of_sublist rfl (List.Sublist.refl _)⟩)
  exact hcb.of_shrinkAF rfl rfl rfl (fun _ h => h) h (fun _ h => h) (fun _ h => h) (fun _ h => h)
    (lateS_of_eq hcb.l rfl rfl rfl)

theorem cp_afRemove {c : List Id} {i : Nat} {site : String}
    (hs : TBSafe.infixL "@sink: ".toList ("remove-oob" ++ "@" ++ site ++ ": " ++ "Vec::remove").toList = false := by decide) :
    CP d0 c (afRemove i site) (fun _ => []) := by
  unfold H5V.Model.HtmlTB.afRemove
  refine cp_getS_bind_at ?_
  intro s0
  dsimp only
  refine cpat_ite (fun _ => ?_) (fun _ => cp_at (cp_panicAt hs) s0)
  exact cpat_setAF (fun x t hm => List.mem_of_mem_eraseIdx hm)

macro_rules | `(tactic| cp_leaf) => `(tactic| with_reducible exact cp_afRemove)

theorem cp_anySameNodeRev {c : List Id} {node : Id} (hn : node ∈ c) : ∀ (l : List Id), (∀ x ∈ l, x ∈ c) →
    CP d0 c (anySameNodeRev node l) (fun _ => []) := by
  intro l
  induction l with
  | nil => intro _; unfold H5V.Model.HtmlTB.anySameNodeRev; exact cp_pure_nil _
  | cons e rest ih =>
    intro hl
    unfold H5V.Model.HtmlTB.anySameNodeRev
    have ih' := ih (fun x hx => hl x (List.mem_cons_of_mem _ hx))
    refine cp_bind (cp_sameNode (hl e List.mem_cons_self) hn) ?_
    intro b
    exact cp_ite (fun _ => cp_pure_nil _) (fun _ => cp_ctx_mono ih' (fun x hx => mem_tail hx))

theorem cp_isMarkerOrOpen {c : List Id} {e : FormatEntry} (he : ∀ h t, e = FormatEntry.element h t → h ∈ c) :
    CP d0 c (isMarkerOrOpen e) (fun _ => []) := by
  cases e with
  | marker => unfold H5V.Model.HtmlTB.isMarkerOrOpen; exact cp_pure_nil _
  | element node t =>
    unfold H5V.Model.HtmlTB.isMarkerOrOpen
    refine cp_getS_bind ?_
    intro s0
    exact cp_anySameNodeRev (mem_tail (he node t rfl)) _ (fun x hx => mem_open (List.mem_reverse.mp hx))

theorem cp_reconstructRewind {c : List Id} : ∀ (i : Nat), CP d0 c (reconstructRewind i) (fun _ => []) := by
  intro i
  induction i generalizing c with
  | zero => unfold H5V.Model.HtmlTB.reconstructRewind; exact cp_pure_nil _
  | succ i ih =>
    unfold H5V.Model.HtmlTB.reconstructRewind
    refine cp_getS_bind ?_
    intro s0
    cases he : s0.activeFormatting[i]? with
    | none => exact cp_panicAt
    | some e =>
      dsimp only
      refine cp_bind (cp_isMarkerOrOpen ?_) ?_
      · intro h t het
        subst het
        exact mem_afH (List.mem_of_getElem? he)
      · intro b
        exact cp_ite (fun _ => cp_pure_nil _) (fun _ => ih)

macro_rules | `(tactic| cp_leaf) => `(tactic| with_reducible exact cp_reconstructRewind _)

theorem mem_clearToMarkerRev {e : FormatEntry} : ∀ {l : List FormatEntry}, e ∈ clearToMarkerRev l → e ∈ l := by
  intro l
  induction l with
  | nil => intro h; simp [clearToMarkerRev] at h
  | cons x rest ih =>
    intro h
    cases x with
    | marker => simp only [clearToMarkerRev] at h; exact List.mem_cons_of_mem _ h
    | element a b => simp only [clearToMarkerRev] at h; exact List.mem_cons_of_mem _ (ih h)

theorem cp_clearActiveFormattingToMarker {c : List Id} : CP d0 c clearActiveFormattingToMarker (fun _ => []) := by
  unfold H5V.Model.HtmlTB.clearActiveFormattingToMarker
  exact cp_modS_shrink (fun _ => rfl) (fun _ => rfl) (fun _ => rfl) (fun _ => List.Sublist.refl _)
    (fun _ e h => List.mem_reverse.mp (mem_clearToMarkerRev (List.mem_reverse.mp h)))
    (fun _ _ h => h) (fun _ _ h => h) (fun _ _ h => h) (fun _ hl => ⟨hl.mode, hl.orig, hl.tm⟩)

macro_rules | `(tactic| cp_leaf) => `(tactic| with_reducible exact cp_clearActiveFormattingToMarker)

/-! ### "any other end tag", searches of the adoption agency -/

theorem cp_endTagSearch {c : List Id} {name : Str} : ∀ (l : List Id) (len : Nat), (∀ x ∈ l, x ∈ c) →
    CP d0 c (endTagSearch name l len) (fun _ => []) := by
  intro l
  induction l with
  | nil => intro _ _; unfold H5V.Model.HtmlTB.endTagSearch; exact cp_pure_nil _
  | cons e rest ih =>
    intro len hl
    unfold H5V.Model.HtmlTB.endTagSearch
    have he : e ∈ c := hl e List.mem_cons_self
    have ih' := ih (len - 1) (fun x hx => hl x (List.mem_cons_of_mem _ hx))
    refine cp_bind (cp_htmlElemNamedS he) ?_
    intro b
    refine cp_ite (fun _ => cp_pure_nil _) (fun _ => ?_)
    refine cp_bind (cp_elemIn (mem_tail he)) ?_
    intro b2
    refine cp_ite (fun _ => ?_) (fun _ => cp_ctx_mono ih' (fun x hx => mem_tail (mem_tail hx)))
    exact cp_bind cp_parseError (fun _ => cp_pure_nil _)

macro_rules | `(tactic| cp_leaf) => `(tactic| with_reducible exact cp_endTagSearch _ _ (by cp_list_mem))

theorem cp_findFurthestBlock {c : List Id} : ∀ (l : List Id) (i : Nat), (∀ x ∈ l, x ∈ c) →
    CP d0 c (findFurthestBlock l i) (fun r => (r.map Prod.snd).toList) := by
  intro l
  induction l with
  | nil =>
    intro _ _; unfold H5V.Model.HtmlTB.findFurthestBlock
    exact cp_pure none (by intro x hx; cases hx)
  | cons e rest ih =>
    intro i hl
    unfold H5V.Model.HtmlTB.findFurthestBlock
    have he : e ∈ c := hl e List.mem_cons_self
    have ih' := ih (i + 1) (fun x hx => hl x (List.mem_cons_of_mem _ hx))
    refine cp_bind (cp_elemIn he) ?_
    intro b
    refine cp_ite (fun _ => ?_) (fun _ => cp_ctx_mono ih' (fun x hx => mem_tail hx))
    exact cp_pure (some (i, e)) (by intro x hx; simp at hx; subst hx; exact mem_tail he)

macro_rules | `(tactic| cp_leaf) => `(tactic| with_reducible exact cp_findFurthestBlock _ _ (by cp_list_mem))

theorem cp_positionSameNode {c : List Id} {x : Id} (hx : x ∈ c) : ∀ (l : List Id) (i : Nat), (∀ y ∈ l, y ∈ c) →
    CP d0 c (positionSameNode x l i) (fun _ => []) := by
  intro l
  induction l with
  | nil => intro _ _; unfold H5V.Model.HtmlTB.positionSameNode; exact cp_pure_nil _
  | cons e rest ih =>
    intro i hl
    unfold H5V.Model.HtmlTB.positionSameNode
    have ih' := ih (i + 1) (fun y hy => hl y (List.mem_cons_of_mem _ hy))
    refine cp_bind (cp_sameNode (hl e List.mem_cons_self) hx) ?_
    intro b
    exact cp_ite (fun _ => cp_pure_nil _) (fun _ => cp_ctx_mono ih' (fun y hy => mem_tail hy))

macro_rules | `(tactic| cp_leaf) => `(tactic| with_reducible exact cp_positionSameNode (by ctx_mem) _ _ (by cp_list_mem))

theorem cp_findAInAF {c : List Id} : ∀ (l : List (Nat × Id × Tag)), (∀ e ∈ l, e.2.1 ∈ c) →
    CP d0 c (findAInAF l) (fun r => r.toList) := by
  intro l
  induction l with
  | nil =>
    intro _; unfold H5V.Model.HtmlTB.findAInAF
    exact cp_pure none (by intro x hx; cases hx)
  | cons e rest ih =>
    intro hl
    obtain ⟨i, n, t⟩ := e
    unfold H5V.Model.HtmlTB.findAInAF
    have hn : n ∈ c := hl (i, n, t) List.mem_cons_self
    have ih' := ih (fun y hy => hl y (List.mem_cons_of_mem _ hy))
    refine cp_bind (cp_htmlElemNamed hn) ?_
    intro b
    refine cp_ite (fun _ => ?_) (fun _ => cp_ctx_mono ih' (fun y hy => mem_tail hy))
    exact cp_pure (some n) (by intro x hx; simp at hx; subst hx; exact mem_tail hn)

theorem mem_afEndToMarkerAux {i : Nat} {h : Id} {t : Tag} : ∀ {l : List (FormatEntry × Nat)},
    (i, h, t) ∈ afEndToMarkerAux l → (FormatEntry.element h t, i) ∈ l := by
  intro l
  induction l with
  | nil => intro hm; simp [afEndToMarkerAux] at hm
  | cons x rest ih =>
    intro hm
    obtain ⟨e, k⟩ := x
    cases e with
    | marker => simp [afEndToMarkerAux] at hm
    | element h' t' =>
      simp only [afEndToMarkerAux] at hm
      rcases List.mem_cons.mp hm with hm | hm
      · cases hm; exact List.mem_cons_self
      · exact List.mem_cons_of_mem _ (ih hm)

/-- the entries `active_formatting_end_to_marker` visits are entries of the list -/
theorem mem_afEndToMarker {i : Nat} {h : Id} {t : Tag} {af : List FormatEntry}
    (hm : (i, h, t) ∈ afEndToMarker af) : af[i]? = some (.element h t) ∧ FormatEntry.element h t ∈ af := by
  unfold afEndToMarker at hm
  have := mem_afEndToMarkerAux hm
  rw [List.mem_reverse] at this
  obtain ⟨_, h2, h3⟩ := List.mem_zipIdx this
  simp only [Nat.zero_add, Nat.sub_zero] at h2 h3
  have hg : af[i]? = some (.element h t) := by rw [List.getElem?_eq_getElem h2, ← h3]
  exact ⟨hg, List.mem_of_getElem? hg⟩

/-- `find_a_in_af` on the list it is called with -/
theorem cp_findAInAF_state {c : List Id} {s0 : State} :
    CP d0 (stH s0 ++ c) (findAInAF (afEndToMarker s0.activeFormatting)) (fun r => r.toList) := by
  refine cp_findAInAF _ ?_
  rintro ⟨i, n, t⟩ he
  exact mem_afH (mem_afEndToMarker he).2

macro_rules | `(tactic| cp_leaf) => `(tactic| with_reducible exact cp_findAInAF_state)

/-! ### cells, foreign content -/

theorem cp_closeTheCell {c : List Id} : CP d0 c closeTheCell (fun _ => []) := by
  unfold H5V.Model.HtmlTB.closeTheCell
  refine cp_bind cp_generateImpliedEndTags ?_
  intro _
  refine cp_bind cp_popUntil ?_
  intro n
  dsimp only
  exact cp_ite (fun _ => cp_bind cp_parseError (fun _ => cp_clearActiveFormattingToMarker))
    (fun _ => cp_clearActiveFormattingToMarker)

macro_rules | `(tactic| cp_leaf) => `(tactic| with_reducible exact cp_closeTheCell)

theorem cp_isForeign {c : List Id} {token : Token} : CP d0 c (isForeign token) (fun _ => []) := by
  unfold H5V.Model.HtmlTB.isForeign
  refine cp_ite (fun _ => cp_pure_nil _) (fun _ => ?_)
  refine cp_getS_bind ?_
  intro s0
  refine cp_ite (fun _ => cp_pure_nil _) (fun _ => ?_)
  refine cp_bind cp_adjustedCurrentNode ?_
  intro current
  refine cp_bind (cp_elemName (by simp)) ?_
  intro name
  refine cp_ite (fun _ => cp_pure_nil _) (fun _ => ?_)
  dsimp only
  have hq : ∀ (c' : List Id), CP d0 c' (do
      let cur ← adjustedCurrentNode
      pure (!(← sinkBool (.isMathmlAnnotationXmlIntegrationPoint cur))) : M Bool) (fun _ => []) := by
    intro c'
    refine cp_bind cp_adjustedCurrentNode ?_
    intro cur
    refine cp_bind (cp_isMathmlIP (by simp)) ?_
    intro b
    exact cp_pure_nil _
  refine cp_ite (fun _ => cp_pure_nil _) (fun _ => ?_)
  refine cp_ite (fun _ => cp_pure_nil _) (fun _ => ?_)
  refine cp_ite (fun _ => ?_) (fun _ => cp_pure_nil _)
  cases token with
  | tag tg =>
    dsimp only
    by_cases hk : (tg.kind == H5V.Model.HtmlTok.TagKind.startTag) = true
    · simp only [hk, if_true]
      exact cp_ite (fun _ => cp_pure_nil _) (fun _ => hq _)
    · simp only [hk]
      exact cp_pure_nil _
  | comment s => exact cp_pure_nil _
  | chars st s => exact hq _
  | nullChar => exact hq _
  | eof => exact cp_pure_nil _

macro_rules | `(tactic| cp_leaf) => `(tactic| with_reducible exact cp_isForeign)

theorem cp_popToIntegrationPointLoop {c : List Id} : ∀ (fuel : Nat),
    CP d0 c (popToIntegrationPointLoop fuel) (fun _ => []) := by
  intro fuel
  induction fuel generalizing c with
  | zero => unfold H5V.Model.HtmlTB.popToIntegrationPointLoop; exact cp_fuelOut
  | succ fuel ih =>
    unfold H5V.Model.HtmlTB.popToIntegrationPointLoop
    have hjp : ∀ (c' : List Id) (stop : Bool), CP d0 c' (if stop = true then pure ()
        else do
          let _ ← pop
          popToIntegrationPointLoop fuel : M Unit) (fun _ => []) := by
      intro c' stop
      refine cp_ite (fun _ => cp_pure_nil _) (fun _ => ?_)
      refine cp_bind cp_pop ?_
      intro _
      exact ih
    refine cp_bind cp_currentNodeIn ?_
    intro b
    dsimp only
    refine cp_ite (fun _ => ?_) (fun _ => ?_)
    · refine cp_bind (cp_pure_nil _) ?_
      intro stop
      exact hjp _ stop
    · refine cp_bind cp_currentNode ?_
      intro cur
      refine cp_bind (cp_isMathmlIP (by simp)) ?_
      intro stop
      exact hjp _ stop

macro_rules | `(tactic| cp_leaf) => `(tactic| with_reducible exact cp_popToIntegrationPointLoop _)

/-! ### `reset_insertion_mode`: the result is never Initial -/

theorem satc_resetLoop : ∀ (l : List Id) (len : Nat) (s : State), CB d0 s → CtxOk l s →
    SatC (resetLoop l len) s (fun m s' => CB d0 s' ∧ GrowRel s s' ∧ m ≠ .initial) := by
  intro l
  induction l with
  | nil =>
    intro len s hcb _
    unfold H5V.Model.HtmlTB.resetLoop
    exact satc_pure ⟨hcb, GrowRel.refl s, by decide⟩
  | cons node rest ih =>
    intro len s hcb hc
    unfold H5V.Model.HtmlTB.resetLoop
    refine satc_getS_bind ?_
    dsimp only
    have hrest : ∀ (last : Bool) (nd : Id), IsEl s.dom nd →
        SatC (do
          let n ← elemName nd
          if (n.ns != nsHtml) = true then resetLoop rest (len - 1)
            else
              if (isOneOf n.loc ["td", "th"] && !last) = true then pure Mode.inCell
              else
                if isName n.loc "tr" = true then pure Mode.inRow
                else
                  if isOneOf n.loc ["tbody", "thead", "tfoot"] = true then pure Mode.inTableBody
                  else
                    if isName n.loc "caption" = true then pure Mode.inCaption
                    else
                      if isName n.loc "colgroup" = true then pure Mode.inColumnGroup
                      else
                        if isName n.loc "table" = true then pure Mode.inTable
                        else
                          if isName n.loc "template" = true then
                            match s.templateModes.getLast? with
                            | some m => pure m
                            | none => panicAt "unwrap-none" "mod.rs:1294" "template_modes.last().unwrap()"
                          else
                            if isName n.loc "head" = true then
                              if (!last) = true then pure Mode.inHead else resetLoop rest (len - 1)
                            else
                              if isName n.loc "body" = true then pure Mode.inBody
                              else
                                if isName n.loc "frameset" = true then pure Mode.inFrameset
                                else
                                  if isName n.loc "html" = true then
                                    match s.headElem with
                                    | none => pure Mode.beforeHead
                                    | some val => pure Mode.afterHead
                                  else resetLoop rest (len - 1)) s
          (fun m s' => CB d0 s' ∧ GrowRel s s' ∧ m ≠ .initial) := by
      intro last nd hel
      have hnd : CtxOk [nd] s := by
        intro x hx; rw [List.mem_singleton.mp hx]; exact hel
      refine SatC.bind (cp_elemName (d0 := d0) (c := [nd]) (List.mem_singleton.mpr rfl) s hcb hnd) ?_
      rintro n s1 ⟨hcb1, hg1, _⟩
      have hcont : SatC (resetLoop rest (len - 1)) s1 (fun m s' => CB d0 s' ∧ GrowRel s s' ∧ m ≠ .initial) := by
        refine (ih (len - 1) s1 hcb1 ?_).mono (fun m s2 h => ⟨h.1, hg1.trans h.2.1, h.2.2⟩)
        intro x hx
        exact (hc x (List.mem_cons_of_mem _ hx)).ext hg1.ext
      have hret : ∀ (m : Mode), m ≠ .initial →
          SatC (pure m : M Mode) s1 (fun m s' => CB d0 s' ∧ GrowRel s s' ∧ m ≠ .initial) :=
        fun m hm => satc_pure ⟨hcb1, hg1, hm⟩
      refine satc_ite (fun _ => hcont) (fun _ => ?_)
      refine satc_ite (fun _ => hret _ (by decide)) (fun _ => ?_)
      refine satc_ite (fun _ => hret _ (by decide)) (fun _ => ?_)
      refine satc_ite (fun _ => hret _ (by decide)) (fun _ => ?_)
      refine satc_ite (fun _ => hret _ (by decide)) (fun _ => ?_)
      refine satc_ite (fun _ => hret _ (by decide)) (fun _ => ?_)
      refine satc_ite (fun _ => hret _ (by decide)) (fun _ => ?_)
      refine satc_ite (fun _ => ?_) (fun _ => ?_)
      · cases ht : s.templateModes.getLast? with
        | none => exact satc_panicAt
        | some m =>
          refine hret m ?_
          intro hm
          subst hm
          exact hcb.l.tm (List.mem_of_getLast? ht)
      refine satc_ite (fun _ => ?_) (fun _ => ?_)
      · exact satc_ite (fun _ => hret _ (by decide)) (fun _ => hcont)
      refine satc_ite (fun _ => hret _ (by decide)) (fun _ => ?_)
      refine satc_ite (fun _ => hret _ (by decide)) (fun _ => ?_)
      refine satc_ite (fun _ => ?_) (fun _ => hcont)
      cases s.headElem with
      | none => exact hret _ (by decide)
      | some _ => exact hret _ (by decide)
    have hnode : IsEl s.dom node := hc node List.mem_cons_self
    cases hlast : (len - 1 == 0) with
    | false => exact hrest false node hnode
    | true =>
      cases hctx : s.contextElem with
      | none => exact hrest true node hnode
      | some ctx => exact hrest true ctx (hcb.h.ctx ctx hctx)

theorem satc_resetInsertionMode (s : State) (hcb : CB d0 s) :
    SatC resetInsertionMode s (fun m s' => CB d0 s' ∧ GrowRel s s' ∧ m ≠ .initial) := by
  unfold H5V.Model.HtmlTB.resetInsertionMode
  refine satc_getS_bind ?_
  dsimp only
  exact satc_resetLoop _ _ s hcb (fun x hx => hcb.h.open_el x (List.mem_reverse.mp hx))

/-- `let m ← reset_insertion_mode(); k m`: the continuation may assume a late mode -/
theorem cp_reset_bind {c : List Id} {β : Type} {f : Mode → M β} {R : β → List Id}
    (h : ∀ m, m ≠ .initial → CP d0 c (f m) R) : CP d0 c (resetInsertionMode >>= f) R := by
  intro s hcb hc
  refine (satc_resetInsertionMode s hcb).bind ?_
  rintro m s1 ⟨hcb1, hg1, hm⟩
  refine (h m hm s1 hcb1 (hc.ext hg1.ext)).mono ?_
  rintro b s2 ⟨hcb2, hg2, hr2⟩
  exact ⟨hcb2, hg1.trans hg2, hr2⟩

/-- `self.mode.set(self.reset_insertion_mode())` -/
theorem cp_resetThenSetMode {c : List Id} : CP d0 c (resetInsertionMode >>= fun m => setMode m) (fun _ => []) :=
  cp_reset_bind (fun _ hm => cp_setMode hm)

theorem cp_resetInsertionMode {c : List Id} : CP d0 c resetInsertionMode (fun _ => []) :=
  fun s hcb _ => (satc_resetInsertionMode s hcb).mono (fun _ _ h => ⟨h.1, h.2.1, CtxOk.nil _⟩)

macro_rules | `(tactic| cp_leaf) => `(tactic| with_reducible exact cp_setMode (by first | assumption | decide))
macro_rules | `(tactic| cp_leaf) => `(tactic| with_reducible refine cp_reset_bind (fun _ _ => ?_))

/-! ### helpers of `rules.rs` -/

theorem cp_listCloseSearch {c : List Id} {list : Bool} : ∀ (l : List Id), (∀ x ∈ l, x ∈ c) →
    CP d0 c (listCloseSearch list l) (fun _ => []) := by
  intro l
  induction l with
  | nil => intro _; unfold H5V.Model.HtmlTB.listCloseSearch; exact cp_pure_nil _
  | cons e rest ih =>
    intro hl
    unfold H5V.Model.HtmlTB.listCloseSearch
    have ih' := ih (fun x hx => hl x (List.mem_cons_of_mem _ hx))
    refine cp_bind (cp_elemName (hl e List.mem_cons_self)) ?_
    intro n
    dsimp only
    refine cp_ite (fun _ => cp_pure_nil _) (fun _ => ?_)
    exact cp_ite (fun _ => cp_pure_nil _) (fun _ => cp_ctx_mono ih' (fun x hx => mem_tail hx))

/-- `list_close_search` on (a part of) the stack that was read -/
theorem cp_listCloseSearch_state {c : List Id} {list : Bool} {s0 : State} :
    CP d0 (stH s0 ++ c) (listCloseSearch list s0.openElems.reverse) (fun _ => []) :=
  cp_listCloseSearch _ (fun _ hx => mem_open (List.mem_reverse.mp hx))

macro_rules | `(tactic| cp_leaf) => `(tactic| with_reducible exact cp_listCloseSearch _ (by cp_list_mem))

theorem cp_findOption {c : List Id} : ∀ (l : List Id), (∀ x ∈ l, x ∈ c) →
    CP d0 c (findOption l) (fun r => r.toList) := by
  intro l
  induction l with
  | nil =>
    intro _; unfold H5V.Model.HtmlTB.findOption
    exact cp_pure none (by intro x hx; cases hx)
  | cons e rest ih =>
    intro hl
    unfold H5V.Model.HtmlTB.findOption
    have he : e ∈ c := hl e List.mem_cons_self
    have ih' := ih (fun x hx => hl x (List.mem_cons_of_mem _ hx))
    refine cp_bind (cp_htmlElemNamed he) ?_
    intro b
    refine cp_ite (fun _ => ?_) (fun _ => cp_ctx_mono ih' (fun x hx => mem_tail hx))
    exact cp_pure (some e) (by intro x hx; simp at hx; subst hx; exact mem_tail he)

theorem cp_findOption_state {c : List Id} {s0 : State} :
    CP d0 (stH s0 ++ c) (findOption s0.openElems) (fun r => r.toList) :=
  cp_findOption _ (fun _ hx => mem_open hx)

macro_rules | `(tactic| cp_leaf) => `(tactic| with_reducible exact cp_findOption _ (by cp_list_mem))

theorem cp_anySameNode {c : List Id} {x : Id} (hx : x ∈ c) : ∀ (l : List Id), (∀ y ∈ l, y ∈ c) →
    CP d0 c (anySameNode x l) (fun _ => []) := by
  intro l
  induction l with
  | nil => intro _; unfold H5V.Model.HtmlTB.anySameNode; exact cp_pure_nil _
  | cons e rest ih =>
    intro hl
    unfold H5V.Model.HtmlTB.anySameNode
    have ih' := ih (fun y hy => hl y (List.mem_cons_of_mem _ hy))
    refine cp_bind (cp_sameNode (hl e List.mem_cons_self) hx) ?_
    intro b
    exact cp_ite (fun _ => cp_pure_nil _) (fun _ => cp_ctx_mono ih' (fun y hy => mem_tail hy))

theorem cp_anySameNode_state {c : List Id} {x : Id} {s0 : State} (hx : x ∈ stH s0 ++ c) :
    CP d0 (stH s0 ++ c) (anySameNode x s0.openElems) (fun _ => []) :=
  cp_anySameNode hx _ (fun _ hy => mem_open hy)

macro_rules | `(tactic| cp_leaf) => `(tactic| with_reducible exact cp_anySameNode (by ctx_mem) _ (by cp_list_mem))

theorem cp_contextIsSelect {c : List Id} {site : String}
    (hs : TBSafe.infixL "@sink: ".toList ("unwrap-none" ++ "@" ++ site ++ ": " ++ "context_elem unwrap").toList = false := by decide) :
    CP d0 c (contextIsSelect site) (fun _ => []) := by
  unfold H5V.Model.HtmlTB.contextIsSelect
  refine cp_bind cp_isFragment ?_
  intro b
  refine cp_ite (fun _ => ?_) (fun _ => cp_pure_nil _)
  refine cp_getS_bind ?_
  intro s0
  cases hc : s0.contextElem with
  | none => exact cp_panicAt hs
  | some ctx => exact cp_htmlElemNamed (mem_ctxElem hc)

macro_rules | `(tactic| cp_leaf) => `(tactic| with_reducible exact cp_contextIsSelect)

theorem contract_addAttrs {d : Dom} {t : Id} {attrs : List Attr} (hi : IsEl d t)
    (ha : H5V.Model.Dom.Dom.attrKeysNodup attrs = true) : Contract d (.addAttrsIfMissing t attrs) := by
  show (d.isElement t && H5V.Model.Dom.Dom.attrKeysNodup attrs) = true
  rw [isElement_of_isEl hi, ha]; rfl

theorem cp_inBodyHtml {c : List Id} {tag : Tag} (ha : H5V.Model.Dom.Dom.attrKeysNodup tag.attrs = true) :
    CP d0 c (inBodyHtml tag) (fun _ => []) := by
  unfold H5V.Model.HtmlTB.inBodyHtml
  refine cp_bind cp_unexpected ?_
  intro _
  refine cp_bind cp_inHtmlElemNamed ?_
  intro b
  dsimp only
  refine cp_ite (fun _ => ?_) (fun _ => cp_pure_nil _)
  refine cp_bind cp_htmlElemFn ?_
  intro top
  refine cp_bind (R := fun _ => []) ?_ (fun _ => cp_pure_nil _)
  exact cp_sinkUnit_nt rfl (fun s _ hc => contract_addAttrs (hc top (by simp)) ha)

macro_rules | `(tactic| cp_leaf) => `(tactic| with_reducible exact cp_inBodyHtml (by assumption))

/-- `TokenSink::end`: pop every element of the (former) stack -/
theorem cp_endLoop {c : List Id} : ∀ (l : List Id), (∀ x ∈ l, x ∈ c) → CP d0 c (endLoop l) (fun _ => []) := by
  intro l
  induction l with
  | nil => intro _; unfold H5V.Model.HtmlTB.endLoop; exact cp_pure_nil _
  | cons e rest ih =>
    intro hl
    unfold H5V.Model.HtmlTB.endLoop
    have ih' := ih (fun y hy => hl y (List.mem_cons_of_mem _ hy))
    refine cp_bind (R := fun _ => [])
      (cp_sinkUnit_nt rfl (fun s _ hc => contract_pop (hc e (hl e List.mem_cons_self)))) ?_
    intro _
    exact cp_ctx_mono ih' (fun y hy => mem_tail hy)

macro_rules | `(tactic| cp_leaf) => `(tactic| with_reducible exact cp_endLoop _ (by cp_list_mem))

theorem cp_processEndTagInBody {c : List Id} {tag : Tag} : CP d0 c (processEndTagInBody tag) (fun _ => []) := by
  unfold H5V.Model.HtmlTB.processEndTagInBody
  refine cp_getS_bind ?_
  intro s0
  dsimp only
  refine cp_bind (cp_endTagSearch _ _ (fun x hx => mem_open (List.mem_reverse.mp hx))) ?_
  intro r
  cases r with
  | none => exact cp_pure_nil _
  | some r1 =>
    cases r1 with
    | none =>
      dsimp only
      exact cp_bind cp_unexpected (fun _ => cp_pure_nil _)
    | some matchIdx =>
      dsimp only
      refine cp_bind cp_generateImpliedEndExcept ?_
      intro _
      refine cp_getS_bind ?_
      intro s1
      refine cp_ite (fun _ => cp_panicAt) (fun _ => ?_)
      have htk : ∀ (c' : List Id), CP d0 c'
          (H5V.Model.HtmlTB.modS fun s => { s with openElems := s.openElems.take matchIdx }) (fun _ => []) :=
        fun _ => cp_modS_stack (g := fun l => l.take matchIdx) (fun l => List.take_sublist _ l)
      exact cp_ite (fun _ => cp_bind cp_unexpected (fun _ => htk _)) (fun _ => htk _)

macro_rules | `(tactic| cp_leaf) => `(tactic| with_reducible exact cp_processEndTagInBody)

theorem cp_setTemplateMode {c : List Id} {m : Mode} (hm : m ≠ .initial) :
    CP d0 c (setTemplateMode m) (fun _ => []) := by
  unfold H5V.Model.HtmlTB.setTemplateMode
  refine cp_modS_shrink (fun _ => rfl) (fun _ => rfl) (fun _ => rfl) (fun _ => List.Sublist.refl _)
    (fun _ _ h => h) (fun _ _ h => h) (fun _ _ h => h) (fun _ _ h => h) (fun s hl => ⟨hl.mode, hl.orig, ?_⟩)
  intro hmem
  rcases List.mem_append.mp hmem with h | h
  · exact hl.tm (List.dropLast_subset _ h)
  · exact hm (List.mem_singleton.mp h).symm

macro_rules | `(tactic| cp_leaf) => `(tactic| with_reducible exact cp_setTemplateMode (by first | assumption | decide))

end H5V.Lemmas.TBC
