import H5V.Lemmas.HtmlTokSpecCRNum3
set_option linter.unusedSimpArgs false
set_option linter.unusedVariables false
/-!
# C01 simulation — layer L3a, character references (start and numeric), part 4: one step of the model
in the sub-state `Numeric(base)` (digits: the u32 accumulator with overflow latch against the
unbounded character reference code; no digit at all: `#`/`#x` are un-consumed — lag)
-/
namespace H5V.Lemmas.HtmlTokSpec
open H5V.Model.HtmlTok
open H5V.Spec.HtmlTokenizer (St Tok Emit Tree Switch Ctl ReturnSt normalizeNewlinesFrom)

/-- one digit: the u32 accumulator with its latch against the unbounded code -/
theorem crnum_numRel_step (cr : CharRefSt) (b n code : Nat) (hb : 2 ≤ b ∧ b ≤ 16) (hn : n < b)
    (h : NumRel cr code) :
    NumRel { cr with num := ((cr.num * b) % 4294967296 + n) % 4294967296,
                     numTooBig := cr.numTooBig || decide ((cr.num * b) % 4294967296 > 0x10FFFF),
                     seenDigit := true } (code * b + n) := by
  have := H5V.Props.C14.accum_inv b hb [n] (by simpa using hn) cr.num cr.numTooBig code h
  simpa [H5V.Props.C14.accum, H5V.Props.C14.valueOf, NumRel] using this

theorem crnum_toDigit_plain {c : Char} {b n : Nat} (h : toDigit c b = some n) : c ≠ '\r' ∧ c ≠ '\n' := by
  have := toDigit_not_brk c b n h
  simp only [isBrk, Bool.or_eq_false_iff, decide_eq_false_iff_not] at this
  exact ⟨this.2, this.1⟩

theorem crnum_crBase (cr : CharRefSt) : 2 ≤ crBase cr ∧ crBase cr ≤ 16 := by
  unfold crBase; split <;> omega

/-- what `unconsume_numeric` puts back -/
theorem crnum_unconsumeNumeric (m : Mach) (inp : Str) (cr : CharRefSt) :
    unconsumeNumeric m inp cr =
      .ok (emitErr m "Numeric character reference without digits", ('#' :: cr.hexMarker.toList) ++ inp, cr, .done []) := by
  unfold unconsumeNumeric
  cases cr.hexMarker <;> rfl

theorem crnum_lag_ok {cr : CharRefSt} (h : CRT cr) : ∀ x ∈ '#' :: cr.hexMarker.toList, lagCh x = true := by
  intro x hx
  simp only [List.mem_cons, Option.mem_toList] at hx
  rcases hx with rfl | hx
  · decide
  · rcases h.hexOk x hx with rfl | rfl <;> decide


/-! ### the specification's numeric states, hexadecimal and decimal at once -/

theorem crnum_spec_start_digit (tree : Tree) (t : Tok) (cr : CharRefSt) (c0 : Char) (r : Str) (n : Nat)
    (hts : t.state = numStart cr) (hd : toDigit c0 (crBase cr) = some n) :
    sstep tree t (c0 :: r) = (crTok t (numSt cr) t.temporaryBuffer t.characterReferenceCode, .advance 0) := by
  unfold numStart at hts
  unfold crBase at hd
  unfold numSt
  by_cases hh : cr.hexMarker.isSome = true
  · simp only [hh, if_true] at hts hd ⊢
    rw [crnum_sstep_hexStart tree t _ hts]
    exact crnum_hexStart_digit t c0 n hd
  · simp only [hh, if_false] at hts hd ⊢
    rw [crnum_sstep_decStart tree t _ hts]
    exact crnum_decStart_digit t c0 n hd

theorem crnum_spec_start_other (tree : Tree) (t : Tok) (cr : CharRefSt) (rest : Str)
    (hts : t.state = numStart cr) (hd : (rest.head?.bind fun c => toDigit c (crBase cr)) = none) :
    sstep tree t rest = (finT t t.temporaryBuffer t.characterReferenceCode, .advance 0) := by
  unfold numStart at hts
  unfold crBase at hd
  by_cases hh : cr.hexMarker.isSome = true
  · simp only [hh, if_true] at hts hd ⊢
    rw [crnum_sstep_hexStart tree t _ hts]
    exact crnum_hexStart_other t _ hd
  · simp only [hh, if_false] at hts hd ⊢
    rw [crnum_sstep_decStart tree t _ hts]
    exact crnum_decStart_other t _ hd

theorem crnum_spec_digit (tree : Tree) (t : Tok) (cr : CharRefSt) (c0 : Char) (r : Str) (n : Nat)
    (hts : t.state = numSt cr) (hd : toDigit c0 (crBase cr) = some n) :
    sstep tree t (c0 :: r) =
      (crTok t (numSt cr) t.temporaryBuffer (t.characterReferenceCode * crBase cr + n), .advance 1) := by
  rw [← hts]
  unfold numSt at hts
  unfold crBase at hd ⊢
  by_cases hh : cr.hexMarker.isSome = true
  · simp only [hh, if_true] at hts hd ⊢
    rw [crnum_sstep_hex tree t _ hts]
    exact crnum_hex_digit t c0 n hd
  · simp only [hh, if_false] at hts hd ⊢
    rw [crnum_sstep_dec tree t _ hts]
    exact crnum_dec_digit t c0 n hd

theorem crnum_spec_semi (tree : Tree) (t : Tok) (cr : CharRefSt) (r : Str) (hts : t.state = numSt cr) :
    sstep tree t (';' :: r) =
      (crTok t .numericCharacterReferenceEnd t.temporaryBuffer t.characterReferenceCode, .advance 1) := by
  unfold numSt at hts
  by_cases hh : cr.hexMarker.isSome = true
  · simp only [hh, if_true] at hts
    rw [crnum_sstep_hex tree t _ hts]
    exact crnum_hex_semi t
  · simp only [hh, if_false] at hts
    rw [crnum_sstep_dec tree t _ hts]
    exact crnum_dec_semi t

theorem crnum_spec_other (tree : Tree) (t : Tok) (cr : CharRefSt) (rest : Str) (hts : t.state = numSt cr)
    (hd : (rest.head?.bind fun c => toDigit c (crBase cr)) = none) (h2 : rest.head? ≠ some ';') :
    sstep tree t rest =
      (crTok t .numericCharacterReferenceEnd t.temporaryBuffer t.characterReferenceCode, .advance 0) := by
  unfold numSt at hts
  unfold crBase at hd
  by_cases hh : cr.hexMarker.isSome = true
  · simp only [hh, if_true] at hts hd
    rw [crnum_sstep_hex tree t _ hts]
    exact crnum_hex_other t _ hd h2
  · simp only [hh, if_false] at hts hd
    rw [crnum_sstep_dec tree t _ hts]
    exact crnum_dec_other t _ hd h2


/-! ### the sub-state `Numeric(base)` -/

theorem crnum_numeric (o : Opts) (ho : o.exactErrors = false) (pol : Pol) (tree : Tree)
    (m : Mach) (inp : Str) (t : Tok) (rest : Str) (h : RelCore m inp t rest) (cr : CharRefSt)
    (hcr : m.charRef = some cr) (b : Nat) (hst : cr.state = .numeric b) :
    StepOk tree t rest (stepCharRef o m inp cr) := by
  obtain ⟨c, hd, hrest⟩ := crnum_ctx h hcr
  rw [hst] at hd
  obtain ⟨hb, hnb, hd⟩ := hd
  rw [hnb] at hrest
  simp only [Option.getD_none, List.nil_append] at hrest
  cases inp with
  | nil => rw [crnum_stuck o hcr c.rcn]; exact h.toRel
  | cons c0 inp' =>
    cases hdg : toDigit c0 b with
    | some n =>
      -- a digit: consumed on both sides
      have hstep : stepCharRef o m (c0 :: inp') cr =
          .cont (m.setCharRef (some { cr with
            num := ((cr.num * b) % 4294967296 + n) % 4294967296,
            numTooBig := cr.numTooBig || decide ((cr.num * b) % 4294967296 > 0x10FFFF),
            seenDigit := true })) inp' := by
        unfold stepCharRef crStep
        simp only [crnum_peek _ c.rcn, List.head?_cons, hst, hdg, crnum_discard _ c.rcn, List.tail_cons]
      rw [hstep]
      have ht := crnum_step_tinv o pol _ c.tinv hcr _ _ (by rw [hstep]; rfl)
      obtain ⟨p1, p2⟩ := crnum_toDigit_plain hdg
      rw [crnum_norm_plain _ _ p1 p2] at hrest
      have hlt := crnum_toDigit_lt hdg
      have hbb := crnum_crBase cr
      rw [hb] at hdg hlt
      cases hsd : cr.seenDigit with
      | false =>
        simp only [hsd, Bool.false_eq_true, if_false] at hd
        obtain ⟨hts, htb, hn0, hbig, hc0⟩ := hd
        have hnr : NumRel cr t.characterReferenceCode := by
          unfold NumRel; simp [hbig, hn0, hc0]
        have hnr' := crnum_numRel_step cr (crBase cr) n _ hbb hlt hnr
        refine Reach.stepEq (crnum_spec_start_digit tree t cr c0 _ n hts hdg |> fun e => by rw [hrest]; exact e) ?_
        simp only [List.drop_zero]
        refine Reach.stepEq (n := 1) (t1 := crTok t (numSt cr) t.temporaryBuffer
          (t.characterReferenceCode * crBase cr + n)) ?_ (Reach.done ?_)
        · rw [hrest]
          have := crnum_spec_digit tree (crTok t (numSt cr) t.temporaryBuffer t.characterReferenceCode) cr c0
            (normalizeNewlinesFrom false inp') n rfl hdg
          simpa using this
        · refine c.progress _ inp' _ _ _ _ rfl ?_ (by rw [hst]; trivial) ?_ ht
          · rw [hst]
            refine ⟨hb, hnb, ?_⟩
            simp only [if_true, crTok_state, crTok_code]
            exact ⟨rfl, by rw [hb]; exact hnr'⟩
          · simp only [hnb, Option.getD_none, List.nil_append]
            rw [hrest]; rfl
      | true =>
        simp only [hsd, if_true] at hd
        obtain ⟨hts, hnr⟩ := hd
        have hnr' := crnum_numRel_step cr (crBase cr) n _ hbb hlt hnr
        refine Reach.stepEq (n := 1) (t1 := crTok t (numSt cr) t.temporaryBuffer
          (t.characterReferenceCode * crBase cr + n)) ?_ (Reach.done ?_)
        · rw [hrest]
          exact crnum_spec_digit tree t cr c0 _ n hts hdg
        · refine c.progress _ inp' _ _ _ _ rfl ?_ (by rw [hst]; trivial) ?_ ht
          · rw [hst]
            refine ⟨hb, hnb, ?_⟩
            simp only [if_true, crTok_state, crTok_code]
            exact ⟨rfl, by rw [hb]; exact hnr'⟩
          · simp only [hnb, Option.getD_none, List.nil_append]
            rw [hrest]; rfl
    | none =>
      obtain ⟨r, hr⟩ := crnum_norm_head c0 inp'
      have hdg' : (rest.head?.bind fun x => toDigit x (crBase cr)) = none := by
        rw [hrest, hr, ← hb]
        simpa using crnum_toDigit_foldCh hdg
      cases hsd : cr.seenDigit with
      | false =>
        -- no digit at all: `#` (and `x`) are given back
        simp only [hsd, Bool.false_eq_true, if_false] at hd
        obtain ⟨hts, htb, hn0, hbig, hc0⟩ := hd
        have hstep : stepCharRef o m (c0 :: inp') cr =
            .cont ((delivM (emitErr m "Numeric character reference without digits") ['&']).setCharRef none)
              (('#' :: cr.hexMarker.toList) ++ (c0 :: inp')) := by
          unfold stepCharRef crStep
          simp only [crnum_peek _ c.rcn, List.head?_cons, hst, hdg, hsd, Bool.not_false, if_true,
            crnum_unconsumeNumeric]
          exact crnum_ofSig_deliver_nil (by simpa [emitErr, emit] using c.ret) _
        rw [hstep]
        have ht := crnum_step_tinv o pol _ c.tinv hcr _ _ (by rw [hstep]; rfl)
        refine Reach.stepEq (crnum_spec_start_other tree t cr rest hts hdg') (Reach.done ?_)
        have c' := c.errOnly (ErrOnly.emitErr m "Numeric character reference without digits")
        have := c'.done ['&'] ('#' :: cr.hexMarker.toList) (c0 :: inp') t.characterReferenceCode
          (crnum_lag_ok (c.tinv.crt cr hcr)) ht
        rw [htb]
        simpa [hrest] using this
      | true =>
        -- the digits are over: nothing happens in the specification
        simp only [hsd, if_true] at hd
        obtain ⟨hts, hnr⟩ := hd
        have hstep : stepCharRef o m (c0 :: inp') cr =
            .cont (m.setCharRef (some { cr with state := .numericSemicolon })) (c0 :: inp') := by
          unfold stepCharRef crStep
          simp only [crnum_peek _ c.rcn, List.head?_cons, hst, hdg, hsd, Bool.not_true, Bool.false_eq_true, if_false]
        rw [hstep]
        have ht := crnum_step_tinv o pol _ c.tinv hcr _ _ (by rw [hstep]; rfl)
        refine Reach.done ?_
        have := c.progress { cr with state := .numericSemicolon } (c0 :: inp') t.state t.temporaryBuffer
          t.characterReferenceCode rest rfl ⟨hnb, hts, hnr, hdg'⟩ trivial
          (by simpa [hnb] using hrest) ht
        rwa [crTok_self] at this

end H5V.Lemmas.HtmlTokSpec
