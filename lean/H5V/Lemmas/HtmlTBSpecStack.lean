import H5V.Spec.TreeAlgo
import H5V.Lemmas.HtmlTBTables
/-!
(b)–(e): the stack-inspecting sub-algorithms of the model (monadic: every `elem_name` is a sink
call) against the pure functions of `H5V.Spec.TreeAlgo`.

`Query m s a` : started in `s` — with *any* recorded trace — the computation `m` answers `a` and
changes nothing but the trace (it only makes pure sink queries).
-/
namespace H5V.Lemmas.HtmlTBSpec
open H5V.Model.HtmlTB
open H5V.Model.Dom (Id SinkOp Output Dom)
open H5V.Lemmas.HtmlTBTables

def withTr (s : State) (tr : List (SinkOp × Output)) : State := { s with traceRev := tr }

def Query {α : Type} (m : M α) (s : State) (a : α) : Prop :=
  ∀ tr, ∃ tr', m.run (withTr s tr) = .ok (a, withTr s tr')

theorem query_pure {α : Type} (s : State) (a : α) : Query (pure a : M α) s a :=
  fun tr => ⟨tr, rfl⟩

theorem query_bind {α β : Type} {m : M α} {f : α → M β} {s : State} {a : α} {b : β}
    (h1 : Query m s a) (h2 : Query (f a) s b) : Query (m >>= f) s b := by
  intro tr
  obtain ⟨tr1, e1⟩ := h1 tr
  obtain ⟨tr2, e2⟩ := h2 tr1
  refine ⟨tr2, ?_⟩
  simp only [StateT.run_bind, e1]
  exact e2

theorem query_getS_bind {β : Type} {f : State → M β} {s : State} {b : β}
    (h : ∀ tr, Query (f (withTr s tr)) s b) : Query (getS >>= f) s b := by
  intro tr
  obtain ⟨tr', e⟩ := h tr tr
  exact ⟨tr', e⟩

theorem query_elemName {s : State} {h : Id} {ns loc : Str} (hn : s.dom.elemName h = .ok (ns, loc)) :
    Query (elemName h) s ⟨ns, loc⟩ := by
  intro tr
  refine ⟨(.elemName h, .name ns loc) :: tr, ?_⟩
  simp [elemName, sink, withTr, Dom.apply, Dom.applyV, hn, StateT.run, bind, StateT.bind, Except.bind,
    pure, StateT.pure, Except.pure]

theorem query_sinkBool_ip {s : State} {h : Id} {b : Bool}
    (hn : s.dom.isMathmlAnnotationXmlIntegrationPoint h = .ok b) :
    Query (sinkBool (.isMathmlAnnotationXmlIntegrationPoint h)) s b := by
  intro tr
  refine ⟨(.isMathmlAnnotationXmlIntegrationPoint h, .bool b) :: tr, ?_⟩
  simp [sinkBool, sink, withTr, Dom.apply, Dom.applyV, hn, StateT.run, bind, StateT.bind, Except.bind,
    pure, StateT.pure, Except.pure]


/-! ### names -/

def toName (n : EName) : Spec.TreeAlgo.Name := ⟨n.ns, n.loc⟩

/-- the sink answers `nm h` for every handle of `l` -/
def NamesOk (s : State) (l : List Id) (nm : Id → EName) : Prop :=
  ∀ h ∈ l, s.dom.elemName h = .ok ((nm h).ns, (nm h).loc)

theorem nsOf_eq : nsOf = Spec.TreeAlgo.nsUrl := rfl

theorem memName_eq_inTable (t : List (String × String)) (n : EName) :
    memName t n = Spec.TreeAlgo.inTable t (toName n) := by
  unfold memName Spec.TreeAlgo.inTable
  congr 1

theorem htmlIn_eq_inHtml (l : List String) (n : EName) : htmlIn n l = Spec.TreeAlgo.inHtml l (toName n) := rfl

theorem query_elemName' {s : State} {h : Id} {nm : Id → EName} {l : List Id} (hn : NamesOk s l nm) (hh : h ∈ l) :
    Query (elemName h) s (nm h) := query_elemName (hn h hh)

theorem query_htmlElemNamedS {s : State} {h : Id} {n : EName} (hn : Query (elemName h) s n) (name : Str) :
    Query (htmlElemNamedS h name) s (n.ns == nsHtml && n.loc == name) := by
  unfold htmlElemNamedS
  exact query_bind hn (query_pure _ _)

/-! ### (b) "has an element in a specific scope" -/

theorem inScopeLoop_query (s : State) (scope : EName → Bool) (pred : Id → M Bool) (P : EName → Bool)
    (nm : Id → EName) (l : List Id) (hn : NamesOk s l nm) (hp : ∀ h ∈ l, Query (pred h) s (P (nm h))) :
    Query (inScopeLoop scope pred l) s
      (Spec.TreeAlgo.hasInScope (fun n => P ⟨n.ns, n.loc⟩) (fun n => scope ⟨n.ns, n.loc⟩) (l.map (fun h => toName (nm h)))) := by
  induction l with
  | nil => exact query_pure _ _
  | cons node rest ih =>
    have ih' := ih (fun h hh => hn h (List.mem_cons_of_mem _ hh)) (fun h hh => hp h (List.mem_cons_of_mem _ hh))
    simp only [inScopeLoop, List.map_cons, Spec.TreeAlgo.hasInScope, toName]
    refine query_bind (hp node (List.mem_cons_self ..)) ?_
    cases hP : P (nm node) with
    | true => simpa using query_pure _ _
    | false =>
      simp only [Bool.false_eq_true, if_false]
      refine query_bind (query_elemName (hn node (List.mem_cons_self ..))) ?_
      cases hS : scope (nm node) with
      | true => simpa [hS] using query_pure s false
      | false =>
        simp only [hS, Bool.false_eq_true, if_false]
        exact ih'

/-- **(b)** `in_scope_named(scope, name)` is the standard's "has a `name` element in the specific
scope `scope`", for every stack all of whose entries the sink knows as elements -/
theorem inScopeNamedS_query (s : State) (scope : EName → Bool) (name : Str) (nm : Id → EName)
    (hn : NamesOk s s.openElems nm) :
    Query (inScopeNamedS scope name) s
      (Spec.TreeAlgo.hasInScope (fun n => n.ns == nsHtml && n.loc == name) (fun n => scope ⟨n.ns, n.loc⟩)
        (s.openElems.reverse.map (fun h => toName (nm h)))) := by
  unfold inScopeNamedS inScope
  refine query_getS_bind (fun tr => ?_)
  have hn' : NamesOk s s.openElems.reverse nm := fun h hh => hn h (List.mem_reverse.mp hh)
  exact inScopeLoop_query s scope _ (fun n => n.ns == nsHtml && n.loc == name) nm _ hn'
    (fun h hh => query_htmlElemNamedS (query_elemName (hn' h hh)) name)

/-- the model's scope sets are the standard's lists -/
theorem scope_sets_eq_spec (n : EName) :
    defaultScope n = Spec.TreeAlgo.defaultScopeList (toName n) ∧
    listItemScope n = Spec.TreeAlgo.listItemScopeList (toName n) ∧
    buttonScope n = Spec.TreeAlgo.buttonScopeList (toName n) ∧
    tableScope n = Spec.TreeAlgo.tableScopeList (toName n) := by
  refine ⟨?_, ?_, ?_, ?_⟩
  · rw [defaultScope_rows, Spec.TreeAlgo.defaultScopeList, ← memName_eq_inTable]
    exact memName_of_sameSet (by decide +kernel) n
  · unfold listItemScope
    rw [plus_eq, defaultScope_rows, ← memName_append, Spec.TreeAlgo.listItemScopeList, ← memName_eq_inTable]
    exact memName_of_sameSet (by decide +kernel) n
  · unfold buttonScope
    rw [plus_eq, defaultScope_rows, ← memName_append, Spec.TreeAlgo.buttonScopeList, ← memName_eq_inTable]
    exact memName_of_sameSet (by decide +kernel) n
  · unfold tableScope
    rw [htmlIn_eq, Spec.TreeAlgo.tableScopeList, ← memName_eq_inTable]
    exact memName_of_sameSet (by decide +kernel) n


/-! ### (c) generate implied end tags -/

theorem run_bind_ok {α β : Type} {m : M α} {f : α → M β} {s s' : State} {a : α}
    (h : m.run s = .ok (a, s')) : (m >>= f).run s = (f a).run s' := by
  simp only [StateT.run_bind, h]; rfl

theorem elemName_run {s : State} {h : Id} {n : EName} (hn : s.dom.elemName h = .ok (n.ns, n.loc)) :
    (elemName h).run s = .ok (n, { s with traceRev := (.elemName h, .name n.ns n.loc) :: s.traceRev }) := by
  simp [elemName, sink, Dom.apply, Dom.applyV, hn, StateT.run, bind, StateT.bind, Except.bind,
    pure, StateT.pure, Except.pure]

theorem pop_run {s : State} {h : Id} (hl : s.openElems.getLast? = some h) :
    pop.run s = .ok (h, { s with openElems := s.openElems.dropLast, traceRev := (.pop h, .unit) :: s.traceRev }) := by
  simp [pop, getS, hl, sinkUnit, sink, Dom.apply, Dom.applyV, StateT.run, bind, StateT.bind, Except.bind,
    pure, StateT.pure, Except.pure, set, StateT.set, get, getThe, MonadStateOf.get, StateT.get]

/-- the loop pops exactly the maximal run of current nodes in `set`; `r` is the stack, current node first -/
theorem impliedLoop_run (set : EName → Bool) (nm : Id → EName) :
    ∀ (r : List Id) (s : State) (fuel : Nat), s.openElems = r.reverse → NamesOk s r nm → r.length + 1 ≤ fuel →
      ∃ tr, (generateImpliedEndTagsLoop set fuel).run s
        = .ok ((), { s with openElems := (r.dropWhile (fun h => set (nm h))).reverse, traceRev := tr }) := by
  intro r
  induction r with
  | nil =>
    intro s fuel hs _ hf
    obtain ⟨f, rfl⟩ : ∃ f, fuel = f + 1 := ⟨fuel - 1, by omega⟩
    refine ⟨s.traceRev, ?_⟩
    simp only [generateImpliedEndTagsLoop]
    rw [run_bind_ok (s' := s) (a := s) rfl]
    simp only [hs, List.reverse_nil, List.getLast?_nil, List.dropWhile_nil]
    cases s; simp_all; rfl
  | cons h r ih =>
    intro s fuel hs hn hf
    obtain ⟨f, rfl⟩ : ∃ f, fuel = f + 1 := ⟨fuel - 1, by simp at hf; omega⟩
    have hl : s.openElems.getLast? = some h := by simp [hs]
    simp only [generateImpliedEndTagsLoop]
    rw [run_bind_ok (s' := s) (a := s) rfl]
    simp only [hl]
    rw [run_bind_ok (elemName_run (hn h (List.mem_cons_self ..)))]
    cases hset : set (nm h) with
    | false =>
      refine ⟨(.elemName h, .name (nm h).ns (nm h).loc) :: s.traceRev, ?_⟩
      simp only [Bool.not_false, if_true, List.dropWhile_cons, hset, Bool.false_eq_true, if_false]
      rw [← hs]; rfl
    | true =>
      simp only [Bool.not_true, Bool.false_eq_true, if_false, List.dropWhile_cons, hset, if_true]
      let s1 : State := { s with traceRev := (.elemName h, .name (nm h).ns (nm h).loc) :: s.traceRev }
      have hl1 : s1.openElems.getLast? = some h := hl
      rw [run_bind_ok (pop_run hl1)]
      have hs2 : ({ s1 with openElems := s1.openElems.dropLast,
                            traceRev := (.pop h, .unit) :: s1.traceRev } : State).openElems = r.reverse := by
        show s.openElems.dropLast = r.reverse
        rw [hs]; simp
      obtain ⟨tr, e⟩ := ih _ f hs2 (fun x hx => hn x (List.mem_cons_of_mem _ hx)) (by simp at hf; omega)
      exact ⟨tr, e⟩

theorem dropWhile_map_name (set : EName → Bool) (q : Spec.TreeAlgo.Name → Bool) (nm : Id → EName)
    (hq : ∀ n, set n = q (toName n)) (r : List Id) :
    (r.dropWhile (fun h => set (nm h))).map (fun h => toName (nm h))
      = (r.map (fun h => toName (nm h))).dropWhile q := by
  have hfun : (fun h => set (nm h)) = (fun h => q (toName (nm h))) := funext (fun h => hq _)
  rw [hfun]
  induction r with
  | nil => rfl
  | cons h r ih =>
    simp only [List.dropWhile_cons, List.map_cons]
    cases q (toName (nm h)) <;> simp [ih]

/-- **(c)** `generate_implied_end_tags(set)` pops what the standard's "generate implied end tags"
(`ex = none`), "… except for `x` elements" (`ex = some x`) pops — for every stack the sink knows -/
theorem generateImpliedEndTags_spec (s : State) (nm : Id → EName) (hn : NamesOk s s.openElems nm)
    (set : EName → Bool) (q : Spec.TreeAlgo.Name → Bool) (hq : ∀ n, set n = q (toName n)) :
    ∃ stk tr, (generateImpliedEndTags set).run s = .ok ((), { s with openElems := stk, traceRev := tr }) ∧
      stk.reverse.map (fun h => toName (nm h)) = (s.openElems.reverse.map (fun h => toName (nm h))).dropWhile q ∧
      stk <+: s.openElems := by
  have hn' : NamesOk s s.openElems.reverse nm := fun h hh => hn h (List.mem_reverse.mp hh)
  obtain ⟨tr, e⟩ := impliedLoop_run set nm s.openElems.reverse s (s.openElems.length + 1) (by simp) hn' (by simp)
  refine ⟨(s.openElems.reverse.dropWhile (fun h => set (nm h))).reverse, tr, ?_, ?_, ?_⟩
  · unfold generateImpliedEndTags
    rw [run_bind_ok (s' := s) (a := s) rfl]
    exact e
  · rw [List.reverse_reverse]; exact dropWhile_map_name set q nm hq _
  · have := List.dropWhile_suffix (fun h => set (nm h)) (l := s.openElems.reverse)
    have h2 := List.reverse_prefix.mpr this
    simpa using h2

theorem implied_sets_eq_spec (n : EName) (x : Str) :
    cursoryImpliedEnd n = Spec.TreeAlgo.impliedEndTag none (toName n) ∧
    impliedExcept x n = Spec.TreeAlgo.impliedEndTag (some x) (toName n) ∧
    impliedExceptP n = Spec.TreeAlgo.impliedEndTag (some "p".toList) (toName n) ∧
    thoroughImpliedEnd n
      = Spec.TreeAlgo.inHtml (Spec.TreeTables.impliedEnd ++ Spec.TreeTables.impliedEndThoroughExtra) (toName n) := by
  have hc : cursoryImpliedEnd n = Spec.TreeAlgo.inHtml Spec.TreeTables.impliedEnd (toName n) := by
    unfold cursoryImpliedEnd
    rw [htmlIn_eq, memName_of_sameSet (b := rows "html" Spec.TreeTables.impliedEnd) (by decide +kernel), ← htmlIn_eq]
    rfl
  have hx : ∀ y : Str, impliedExcept y n = Spec.TreeAlgo.impliedEndTag (some y) (toName n) := by
    intro y
    show (if (n.ns == nsHtml && n.loc == y) = true then false else cursoryImpliedEnd n) =
      (Spec.TreeAlgo.inHtml Spec.TreeTables.impliedEnd (toName n) && !(n.ns == nsHtml && (some n.loc == some y)))
    rw [← hc, Option.some_beq_some]
    by_cases hB : (n.ns == nsHtml) = true <;> by_cases hC : (n.loc == y) = true <;> simp [hB, hC]
  refine ⟨?_, hx x, ?_, ?_⟩
  · show cursoryImpliedEnd n = (Spec.TreeAlgo.inHtml Spec.TreeTables.impliedEnd (toName n) &&
      !(n.ns == nsHtml && (some n.loc == (none : Option Str))))
    rw [← hc]; simp
  · have h2 : impliedExceptP n = impliedExcept "p".toList n := by
      show (if (n.ns == nsHtml && (("p".toList == n.loc) || false)) = true then false else cursoryImpliedEnd n) =
        (if (n.ns == nsHtml && n.loc == "p".toList) = true then false else cursoryImpliedEnd n)
      generalize "p".toList = y
      rw [Bool.or_false, show (y == n.loc) = (n.loc == y) from BEq.comm]
    rw [h2]; exact hx _
  · unfold thoroughImpliedEnd cursoryImpliedEnd
    rw [plus_eq, htmlIn_eq, ← memName_append,
      memName_of_sameSet (b := rows "html" (Spec.TreeTables.impliedEnd ++ Spec.TreeTables.impliedEndThoroughExtra))
        (by decide +kernel), ← htmlIn_eq]
    rfl


/-! ### (d) reset the insertion mode appropriately -/

def toSpecMode : Mode → Spec.TreeAlgo.Mode
  | .initial => .initial | .beforeHtml => .beforeHtml | .beforeHead => .beforeHead | .inHead => .inHead
  | .inHeadNoscript => .inHeadNoscript | .afterHead => .afterHead | .inBody => .inBody | .text => .text
  | .inTable => .inTable | .inTableText => .inTableText | .inCaption => .inCaption
  | .inColumnGroup => .inColumnGroup | .inTableBody => .inTableBody | .inRow => .inRow | .inCell => .inCell
  | .inTemplate => .inTemplate | .afterBody => .afterBody | .inFrameset => .inFrameset
  | .afterFrameset => .afterFrameset | .afterAfterBody => .afterAfterBody
  | .afterAfterFrameset => .afterAfterFrameset

/-- one iteration of the model's loop on the name `n` of the node under inspection, as a pure
function: `some r` = return `r` (`none` inside = the `unwrap` panic on an empty template-mode
stack), `none` = go on with the next node -/
def modelResetStep (n : EName) (last : Bool) (tm : Option Mode) (headNone : Bool) : Option (Option Mode) :=
  if n.ns != nsHtml then none
  else if isOneOf n.loc ["td", "th"] && !last then some (some .inCell)
  else if isName n.loc "tr" then some (some .inRow)
  else if isOneOf n.loc ["tbody", "thead", "tfoot"] then some (some .inTableBody)
  else if isName n.loc "caption" then some (some .inCaption)
  else if isName n.loc "colgroup" then some (some .inColumnGroup)
  else if isName n.loc "table" then some (some .inTable)
  else if isName n.loc "template" then some tm
  else if isName n.loc "head" then (if !last then some (some .inHead) else none)
  else if isName n.loc "body" then some (some .inBody)
  else if isName n.loc "frameset" then some (some .inFrameset)
  else if isName n.loc "html" then (if headNone then some (some .beforeHead) else some (some .afterHead))
  else none

theorem isName_comm (x : Str) (s : String) : isName x s = (x == s.toList) := BEq.comm

theorem isHtml_eq (n : EName) (s : String) :
    (toName n).isHtml s = (n.ns == nsHtml && isName n.loc s) := by
  rw [isName_comm]; rfl

theorem isName_false {loc : Str} {s : String} (h : ¬ loc = s.toList) : isName loc s = false := by
  simp only [isName, beq_eq_false_iff_ne, ne_eq]; exact fun e => h e.symm

/-- the two step functions agree (`last` nodes that the model passes on end the loop: the rest of
the stack is empty and the model's `[]` case answers "in body") -/
theorem resetStep_eq (n : EName) (last : Bool) (tm : Option Mode) (headNone : Bool) :
    Spec.TreeAlgo.resetStep (toName n) last (tm.map toSpecMode) headNone
      = match modelResetStep n last tm headNone with
        | some r => some (r.map toSpecMode)
        | none => if last then some (some .inBody) else none := by
  simp only [Spec.TreeAlgo.resetStep, modelResetStep, isHtml_eq, isOneOf, List.any_cons, List.any_nil, Bool.or_false,
    ← isName.eq_1]
  by_cases hns : (n.ns == nsHtml) = true
  · have hns' : (n.ns != nsHtml) = false := by simp [bne, hns]
    simp only [hns, hns', Bool.true_and, Bool.false_eq_true, if_false]
    obtain ⟨ns, loc⟩ := n
    simp only
    by_cases h0 : loc = "td".toList
    · subst h0; cases last <;> cases headNone <;> cases tm <;> simp [isName, toSpecMode]
    by_cases h1 : loc = "th".toList
    · subst h1; cases last <;> cases headNone <;> cases tm <;> simp [isName, toSpecMode]
    by_cases h2 : loc = "tr".toList
    · subst h2; cases last <;> cases headNone <;> cases tm <;> simp [isName, toSpecMode]
    by_cases h3 : loc = "tbody".toList
    · subst h3; cases last <;> cases headNone <;> cases tm <;> simp [isName, toSpecMode]
    by_cases h4 : loc = "thead".toList
    · subst h4; cases last <;> cases headNone <;> cases tm <;> simp [isName, toSpecMode]
    by_cases h5 : loc = "tfoot".toList
    · subst h5; cases last <;> cases headNone <;> cases tm <;> simp [isName, toSpecMode]
    by_cases h6 : loc = "caption".toList
    · subst h6; cases last <;> cases headNone <;> cases tm <;> simp [isName, toSpecMode]
    by_cases h7 : loc = "colgroup".toList
    · subst h7; cases last <;> cases headNone <;> cases tm <;> simp [isName, toSpecMode]
    by_cases h8 : loc = "table".toList
    · subst h8; cases last <;> cases headNone <;> cases tm <;> simp [isName, toSpecMode]
    by_cases h9 : loc = "template".toList
    · subst h9; cases last <;> cases headNone <;> cases tm <;> simp [isName, toSpecMode]
    by_cases h10 : loc = "head".toList
    · subst h10; cases last <;> cases headNone <;> cases tm <;> simp [isName, toSpecMode]
    by_cases h11 : loc = "body".toList
    · subst h11; cases last <;> cases headNone <;> cases tm <;> simp [isName, toSpecMode]
    by_cases h12 : loc = "frameset".toList
    · subst h12; cases last <;> cases headNone <;> cases tm <;> simp [isName, toSpecMode]
    by_cases h13 : loc = "html".toList
    · subst h13; cases last <;> cases headNone <;> cases tm <;> simp [isName, toSpecMode]
    · simp only [isName_false h0, isName_false h1, isName_false h2, isName_false h3, isName_false h4, isName_false h5, isName_false h6, isName_false h7, isName_false h8, isName_false h9, isName_false h10, isName_false h11, isName_false h12, isName_false h13, Bool.or_false, Bool.false_and, Bool.false_eq_true, if_false]
  · have hns' : (n.ns != nsHtml) = true := by simpa [bne] using hns
    have hf : (n.ns == nsHtml) = false := by simpa using hns
    simp [hf, hns']


theorem resetLoop_step (s : State) (node : Id) (rest : List Id) (len : Nat) (n : EName) (r : Mode)
    (hq : Query (elemName (match len - 1 == 0, s.contextElem with | true, some ctx => ctx | _, _ => node)) s n)
    (h : match modelResetStep n (len - 1 == 0) s.templateModes.getLast? s.headElem.isNone with
         | some (some m) => m = r
         | some none => False
         | none => Query (resetLoop rest (len - 1)) s r) :
    Query (resetLoop (node :: rest) len) s r := by
  simp only [resetLoop]
  refine query_getS_bind (fun tr => ?_)
  refine query_bind hq ?_
  simp only [modelResetStep] at h
  simp only [withTr]
  by_cases c0 : (n.ns != nsHtml) = true
  · simp only [if_pos c0] at h ⊢; exact h
  simp only [if_neg c0] at h ⊢
  by_cases c1 : (isOneOf n.loc ["td", "th"] && !(len - 1 == 0)) = true
  · simp only [if_pos c1] at h ⊢; subst h; exact query_pure _ _
  simp only [if_neg c1] at h ⊢
  by_cases c2 : (isName n.loc "tr") = true
  · simp only [if_pos c2] at h ⊢; subst h; exact query_pure _ _
  simp only [if_neg c2] at h ⊢
  by_cases c3 : (isOneOf n.loc ["tbody", "thead", "tfoot"]) = true
  · simp only [if_pos c3] at h ⊢; subst h; exact query_pure _ _
  simp only [if_neg c3] at h ⊢
  by_cases c4 : (isName n.loc "caption") = true
  · simp only [if_pos c4] at h ⊢; subst h; exact query_pure _ _
  simp only [if_neg c4] at h ⊢
  by_cases c5 : (isName n.loc "colgroup") = true
  · simp only [if_pos c5] at h ⊢; subst h; exact query_pure _ _
  simp only [if_neg c5] at h ⊢
  by_cases c6 : (isName n.loc "table") = true
  · simp only [if_pos c6] at h ⊢; subst h; exact query_pure _ _
  simp only [if_neg c6] at h ⊢
  by_cases c7 : (isName n.loc "template") = true
  · simp only [if_pos c7] at h ⊢
    cases hg : s.templateModes.getLast? with
    | none => simp only [hg] at h
    | some m => simp only [hg] at h ⊢; subst h; exact query_pure _ _
  simp only [if_neg c7] at h ⊢
  by_cases c8 : (isName n.loc "head") = true
  · simp only [if_pos c8] at h ⊢
    by_cases cl : (!(len - 1 == 0)) = true
    · simp only [if_pos cl] at h ⊢; subst h; exact query_pure _ _
    · simp only [if_neg cl] at h ⊢; exact h
  simp only [if_neg c8] at h ⊢
  by_cases c9 : (isName n.loc "body") = true
  · simp only [if_pos c9] at h ⊢; subst h; exact query_pure _ _
  simp only [if_neg c9] at h ⊢
  by_cases c10 : (isName n.loc "frameset") = true
  · simp only [if_pos c10] at h ⊢; subst h; exact query_pure _ _
  simp only [if_neg c10] at h ⊢
  by_cases c11 : (isName n.loc "html") = true
  · simp only [if_pos c11] at h ⊢
    cases hh : s.headElem with
    | none => simp only [hh, Option.isNone_none, if_true] at h ⊢; subst h; exact query_pure _ _
    | some v => simp only [hh, Option.isNone_some, Bool.false_eq_true, if_false] at h ⊢; subst h; exact query_pure _ _
  simp only [if_neg c11] at h ⊢
  exact h


theorem toSpecMode_inj {a b : Mode} (h : toSpecMode a = toSpecMode b) : a = b := by
  cases a <;> cases b <;> first | rfl | (simp [toSpecMode] at h)

theorem len_last (rest : List Id) : ((rest.length + 1) - 1 == 0) = rest.isEmpty := by
  cases rest <;> simp

/-- the fragment context element, as the sink names it -/
def CtxOk (s : State) (cn : Option EName) : Prop :=
  match s.contextElem, cn with
  | some c, some n => s.dom.elemName c = .ok (n.ns, n.loc)
  | none, none => True
  | _, _ => False

/-- **(d)** `reset_insertion_mode` answers what the standard's "reset the insertion mode
appropriately" answers, on every stack (fragment case, template modes, head pointer included);
`l` is the stack with the current node first -/
theorem resetLoop_query (s : State) (nm : Id → EName) (cn : Option EName) (hctx : CtxOk s cn) (m : Mode) :
    ∀ (l : List Id), NamesOk s l nm →
      Spec.TreeAlgo.resetInsertionMode (cn.map toName) s.headElem.isNone (s.templateModes.getLast?.map toSpecMode)
        (l.map (fun h => toName (nm h))) = some (toSpecMode m) →
      Query (resetLoop l l.length) s m := by
  intro l
  induction l with
  | nil =>
    intro _ hspec
    simp only [List.map_nil, Spec.TreeAlgo.resetInsertionMode, Option.some.injEq] at hspec
    have : m = .inBody := toSpecMode_inj (by rw [← hspec]; rfl)
    subst this
    exact query_pure _ _
  | cons node rest ih =>
    intro hn hspec
    have ih' := ih (fun x hx => hn x (List.mem_cons_of_mem _ hx))
    simp only [List.length_cons]
    -- the node under inspection and its name
    obtain ⟨n, hq, hnode⟩ : ∃ n : EName,
        Query (elemName (match (rest.length + 1) - 1 == 0, s.contextElem with | true, some ctx => ctx | _, _ => node)) s n ∧
        toName n = (if rest.isEmpty then (cn.map toName).getD (toName (nm node)) else toName (nm node)) := by
      rw [len_last]
      cases hl : rest.isEmpty with
      | false => exact ⟨nm node, query_elemName (hn node (List.mem_cons_self ..)), by simp⟩
      | true =>
        unfold CtxOk at hctx
        cases hc : s.contextElem with
        | none =>
          cases cn with
          | none => exact ⟨nm node, query_elemName (hn node (List.mem_cons_self ..)), by simp⟩
          | some c => simp [hc] at hctx
        | some c =>
          cases cn with
          | none => simp [hc] at hctx
          | some c' =>
            simp only [hc] at hctx
            exact ⟨c', query_elemName hctx, by simp⟩
    refine resetLoop_step s node rest (rest.length + 1) n m hq ?_
    simp only [List.map_cons, Spec.TreeAlgo.resetInsertionMode, List.isEmpty_map] at hspec
    rw [← hnode, resetStep_eq] at hspec
    rw [len_last]
    cases hstep : modelResetStep n rest.isEmpty s.templateModes.getLast? s.headElem.isNone with
    | some r =>
      simp only [hstep, Option.getD_some] at hspec
      cases r with
      | none => simp at hspec
      | some m0 =>
        simp only [Option.map_some, Option.some.injEq] at hspec
        exact toSpecMode_inj hspec
    | none =>
      simp only [hstep] at hspec
      cases hl : rest.isEmpty with
      | true =>
        simp only [hl, if_true, Option.getD_some, Option.some.injEq] at hspec
        have : m = .inBody := toSpecMode_inj (by rw [← hspec]; rfl)
        subst this
        have : rest = [] := List.isEmpty_iff.mp hl
        subst this
        exact query_pure _ _
      | false =>
        simp only [hl, Bool.false_eq_true, if_false, Option.getD_none] at hspec
        have := ih' hspec
        simpa using this

/-- `reset_insertion_mode()` itself (the stack is stored with the current node last) -/
theorem resetInsertionMode_query (s : State) (nm : Id → EName) (cn : Option EName) (hctx : CtxOk s cn)
    (hn : NamesOk s s.openElems nm) (m : Mode)
    (hspec : Spec.TreeAlgo.resetInsertionMode (cn.map toName) s.headElem.isNone
      (s.templateModes.getLast?.map toSpecMode) (s.openElems.reverse.map (fun h => toName (nm h))) = some (toSpecMode m)) :
    Query resetInsertionMode s m := by
  unfold resetInsertionMode
  refine query_getS_bind (fun tr => ?_)
  have hn' : NamesOk s s.openElems.reverse nm := fun h hh => hn h (List.mem_reverse.mp hh)
  have := resetLoop_query s nm cn hctx m s.openElems.reverse hn' hspec
  simpa [withTr] using this


/-! ### (e) the tree construction dispatcher -/

def tokKind : Token → Spec.TreeAlgo.TokenKind
  | .tag t => if t.kind == .startTag then .startTag t.name else .endTag t.name
  | .comment _ => .comment
  | .chars _ _ => .character
  | .nullChar => .character
  | .eof => .eof

theorem mathmlTIP_eq (n : EName) :
    mathmlTextIntegrationPoint n = Spec.TreeAlgo.isMathmlTextIntegrationPoint (toName n) := rfl

theorem svgHIP_eq (n : EName) :
    svgHtmlIntegrationPoint n
      = ((toName n).ns == Spec.TreeAlgo.nsSvg && Spec.TreeTables.svgHtmlIntegrationPoint.any (fun s => s.toList == (toName n).loc)) := rfl

/-- the adjusted current node (`l` = the stack, current node first) -/
theorem adjustedCurrentNode_query (s : State) (c : Id)
    (h : Spec.TreeAlgo.adjustedCurrentNode s.openElems.reverse s.contextElem = some c) :
    Query adjustedCurrentNode s c := by
  unfold adjustedCurrentNode
  refine query_getS_bind (fun tr => ?_)
  simp only [withTr]
  have hlast : ∀ x, s.openElems.reverse.head? = some x → Query currentNode s x := by
    intro x hx
    unfold currentNode
    refine query_getS_bind (fun tr => ?_)
    have : s.openElems.getLast? = some x := by simpa [List.head?_reverse] using hx
    simp only [withTr, this]
    exact query_pure _ _
  cases hr : s.openElems.reverse with
  | nil => simp [Spec.TreeAlgo.adjustedCurrentNode, hr] at h
  | cons cur rest =>
    have hlen : s.openElems.length = rest.length + 1 := by
      have := congrArg List.length hr; simpa using this
    cases rest with
    | nil =>
      have h1 : (s.openElems.length == 1) = true := by simp [hlen]
      simp only [h1, if_true]
      cases hc : s.contextElem with
      | some ctx =>
        simp only [Spec.TreeAlgo.adjustedCurrentNode, hr, hc, Option.some.injEq] at h
        subst h; exact query_pure _ _
      | none =>
        simp only [Spec.TreeAlgo.adjustedCurrentNode, hr, hc, Option.some.injEq] at h
        subst h; exact hlast _ (by simp [hr])
    | cons x rest' =>
      have h1 : (s.openElems.length == 1) = false := by simp [hlen]
      simp only [h1, Bool.false_eq_true, if_false]
      simp only [Spec.TreeAlgo.adjustedCurrentNode, hr, Option.some.injEq] at h
      subst h; exact hlast _ (by simp [hr])

theorem query_pure_eq {α : Type} {s : State} {a b : α} (h : a = b) : Query (pure a : M α) s b := h ▸ query_pure s a

/-- the model's decision, as a function of the adjusted current node's name `n`, the sink's
annotation-xml integration-point flag `ip` and the token -/
def isForeignPure (tok : Token) (n : EName) (ip : Bool) : Bool :=
  let isStart : Option Tag := match tok with
    | .tag tg => if tg.kind == .startTag then some tg else none
    | _ => none
  let isChars : Bool := match tok with
    | .chars _ _ => true | .nullChar => true | _ => false
  if tok == .eof then false
  else if n.ns == nsHtml then false
  else if mathmlTextIntegrationPoint n &&
      (isChars || (match isStart with | some tg => !isOneOf tg.name ["mglyph", "malignmark"] | none => false)) then false
  else if svgHtmlIntegrationPoint n && (isChars || isStart.isSome) then false
  else if n.ns == nsMathml && isName n.loc "annotation-xml" then
    match isStart with
    | some tg => if isName tg.name "svg" then false else !ip
    | none => if isChars then !ip else true
  else true

theorem isForeign_query_pure (s : State) (tok : Token) (c : Id) (n : EName) (ip : Bool)
    (hc : Spec.TreeAlgo.adjustedCurrentNode s.openElems.reverse s.contextElem = some c)
    (hn : s.dom.elemName c = .ok (n.ns, n.loc))
    (hip : s.dom.isMathmlAnnotationXmlIntegrationPoint c = .ok ip) :
    Query (isForeign tok) s (isForeignPure tok n ip) := by
  have hacn := adjustedCurrentNode_query s c hc
  have hne : s.openElems.isEmpty = false := by
    cases ho : s.openElems with
    | nil => simp [ho, Spec.TreeAlgo.adjustedCurrentNode] at hc
    | cons _ _ => rfl
  have hname := query_elemName (s := s) hn
  have hipq : Query (do let cur ← adjustedCurrentNode; pure (!(← sinkBool (.isMathmlAnnotationXmlIntegrationPoint cur)))) s (!ip) :=
    query_bind hacn (query_bind (query_sinkBool_ip (s := s) hip) (query_pure _ _))
  unfold isForeign isForeignPure
  by_cases he : (tok == Token.eof) = true
  · simp only [if_pos he]; exact query_pure _ _
  simp only [if_neg he]
  refine query_getS_bind (fun tr => ?_)
  simp only [withTr, hne, Bool.false_eq_true, if_false]
  refine query_bind hacn (query_bind hname ?_)
  by_cases h1 : (n.ns == nsHtml) = true
  · simp only [if_pos h1]; exact query_pure _ _
  simp only [if_neg h1]
  cases tok with
  | eof => exact absurd rfl he
  | comment t =>
    simp only [Bool.false_or, Bool.and_false, Bool.false_eq_true, if_false, Option.isSome_none]
    split <;> exact query_pure _ _
  | nullChar =>
    simp only [Bool.true_or, Bool.and_true, if_true]
    split
    · exact query_pure _ _
    · split
      · exact query_pure _ _
      · split
        · exact hipq
        · exact query_pure _ _
  | chars st t =>
    simp only [Bool.true_or, Bool.and_true, if_true]
    split
    · exact query_pure _ _
    · split
      · exact query_pure _ _
      · split
        · exact hipq
        · exact query_pure _ _
  | tag t =>
    by_cases hk : (t.kind == .startTag) = true
    · simp only [if_pos hk, Bool.false_or, Option.isSome_some, Bool.and_true]
      split
      · exact query_pure _ _
      · split
        · exact query_pure _ _
        · split
          · split
            · exact query_pure _ _
            · exact hipq
          · exact query_pure _ _
    · simp only [if_neg hk, Bool.false_or, Option.isSome_none, Bool.and_false, Bool.false_eq_true, if_false]
      split <;> exact query_pure _ _

/-- the Boolean content of (e): the model's decision is the negation of the dispatcher's -/
theorem isForeignPure_eq_spec (tok : Token) (n : EName) (ip : Bool) :
    isForeignPure tok n ip = !Spec.TreeAlgo.useHtmlRules (some ⟨toName n, ip⟩) (tokKind tok) := by
  have eX : ((toName n).ns == Spec.TreeAlgo.nsMathml && (toName n).loc == "annotation-xml".toList)
      = (n.ns == nsMathml && isName n.loc "annotation-xml") := by rw [isName_comm]; rfl
  have eA : ((toName n).ns == Spec.TreeAlgo.nsHtml) = (n.ns == nsHtml) := rfl
  have eM := (mathmlTIP_eq n).symm
  have eS := (svgHIP_eq n).symm
  simp only [isForeignPure, Spec.TreeAlgo.useHtmlRules, Spec.TreeAlgo.isHtmlIntegrationPoint, eX, eA, eM, eS]
  generalize (n.ns == nsHtml) = A
  generalize mathmlTextIntegrationPoint n = Mt
  generalize svgHtmlIntegrationPoint n = Sv
  generalize (n.ns == nsMathml && isName n.loc "annotation-xml") = X
  cases tok with
  | eof => simp [tokKind]
  | comment t => cases A <;> cases Mt <;> cases Sv <;> cases X <;> simp [tokKind]
  | nullChar => cases A <;> cases Mt <;> cases Sv <;> cases X <;> cases ip <;> simp [tokKind]
  | chars st t => cases A <;> cases Mt <;> cases Sv <;> cases X <;> cases ip <;> simp [tokKind]
  | tag t =>
    by_cases hk : (t.kind == .startTag) = true
    · have e1 : (!isOneOf t.name ["mglyph", "malignmark"]) = (t.name != "mglyph".toList && t.name != "malignmark".toList) := by
        simp only [isOneOf, List.any_cons, List.any_nil, Bool.or_false, Bool.not_or, bne]
        rw [show ("mglyph".toList == t.name) = (t.name == "mglyph".toList) from BEq.comm,
          show ("malignmark".toList == t.name) = (t.name == "malignmark".toList) from BEq.comm]
      have e2 : isName t.name "svg" = (t.name == "svg".toList) := isName_comm _ _
      simp only [tokKind, hk, if_true, e1, e2]
      generalize (t.name != "mglyph".toList && t.name != "malignmark".toList) = G
      generalize (t.name == "svg".toList) = V
      cases A <;> cases Mt <;> cases Sv <;> cases X <;> cases ip <;> cases G <;> cases V <;> simp
    · simp only [tokKind, hk]
      cases A <;> cases Mt <;> cases Sv <;> cases X <;> simp

/-- **(e)** `is_foreign(token)` is the negation of the dispatcher's "process the token according to
the rules of the current insertion mode": `c` = the adjusted current node, `n` its name, `ip` the
sink's annotation-xml integration-point flag (= the `encoding` attribute test at creation) -/
theorem isForeign_query (s : State) (tok : Token) (c : Id) (n : EName) (ip : Bool)
    (hc : Spec.TreeAlgo.adjustedCurrentNode s.openElems.reverse s.contextElem = some c)
    (hn : s.dom.elemName c = .ok (n.ns, n.loc))
    (hip : s.dom.isMathmlAnnotationXmlIntegrationPoint c = .ok ip) :
    Query (isForeign tok) s (!Spec.TreeAlgo.useHtmlRules (some ⟨toName n, ip⟩) (tokKind tok)) := by
  rw [← isForeignPure_eq_spec]; exact isForeign_query_pure s tok c n ip hc hn hip

/-- an empty stack: HTML rules (the dispatcher's first clause) -/
theorem isForeign_empty (s : State) (tok : Token) (h : s.openElems = []) : Query (isForeign tok) s false := by
  unfold isForeign
  by_cases he : (tok == Token.eof) = true
  · simp only [if_pos he]; exact query_pure _ _
  simp only [if_neg he]
  refine query_getS_bind (fun tr => ?_)
  simp only [withTr, h, List.isEmpty_nil, if_true]
  exact query_pure _ _

end H5V.Lemmas.HtmlTBSpec
