import H5V.Lemmas.HtmlTBSplitRules
import H5V.Props.C06
/-!
C03 lifted to the tree — layer 2c: `process_to_completion`, `process_token` (with possibly different
line numbers on the two sides), token-list runs, `end` and the constructors respect `Sim`.
Everything that reaches the rules takes `hT : InTableTextOK` (see `HtmlTBSplitRules`).
-/
namespace H5V.Lemmas.TBSplit
open H5V.Model.Dom (Id QualName Attr NodeOrText SinkOp Output ElementFlags QuirksMode Dom)
open H5V.Model.HtmlTok (TagKind RawKind)
open H5V.Model.HtmlTB

/-! ### `process_to_completion` -/

theorem dispatch_resp (hT : InTableTextOK) (t : Token) (ht : TokOK t) :
    RespQ (ResOK t) (do
      if ← isForeign t then stepForeign t
      else step (← getS).mode t : M ProcessResult) := by
  have h1 := stepForeign_resp hT t ht
  have h2 := fun m => step_resp hT m t ht
  resp_fast
  all_goals exact h2 _

theorem tokOK_more {more : List Token} (hm : ∀ t' ∈ more, TokOK t') {rest : Str} (hl : rest.length > 0) :
    ∀ t' ∈ more ++ [.chars .notSplit rest], TokOK t' := by
  intro t' ht'
  rcases List.mem_append.mp ht' with h | h
  · exact hm _ h
  · simp only [List.mem_singleton] at h
    subst h
    show rest ≠ []
    intro h0; subst h0; simp at hl

set_option maxHeartbeats 1600000 in
theorem processToCompletion_resp (hT : InTableTextOK) :
    ∀ fuel t more, TokOK t → (∀ t' ∈ more, TokOK t') → Resp (processToCompletion fuel t more)
  | 0, _, _, _, _ => by unfold processToCompletion; resp_fast
  | fuel + 1, t, more, ht, hm => by
    have ih := processToCompletion_resp hT fuel
    unfold processToCompletion
    simp (config := { zeta := true }) only []
    refine respQ_bind (P := fun _ => True) (isForeign_resp t) (fun b _ => ?_)
    refine respQ_ite (fun _ => ?_) (fun _ => ?_)
    · refine respQ_bind (P := ResOK t) (stepForeign_resp hT t ht) ?_
      intro result hres
      cases result <;> dsimp only <;> resp_fast
      all_goals first
        | exact ih _ _ (hm _ (List.mem_cons_self ..)) (fun x hx => hm x (List.mem_cons_of_mem _ hx))
        | exact ih _ _ (H5V.Props.C06.C06_split_run_nonempty (by assumption)) (tokOK_more hm (by assumption))
        | exact ih _ _ (H5V.Props.C06.C06_split_run_nonempty (by assumption)) hm
        | exact ih _ _ (hres.tokOK ht) hm
        | (have h : _ = t := hres; subst h; exact ih _ _ ht hm)
    · refine respQ_getS_bind (fun s _ => respQ_bind (P := ResOK t) (step_resp hT _ t ht) ?_) (by resp_stable)
      intro result hres
      cases result <;> dsimp only <;> resp_fast
      all_goals first
        | exact ih _ _ (hm _ (List.mem_cons_self ..)) (fun x hx => hm x (List.mem_cons_of_mem _ hx))
        | exact ih _ _ (H5V.Props.C06.C06_split_run_nonempty (by assumption)) (tokOK_more hm (by assumption))
        | exact ih _ _ (H5V.Props.C06.C06_split_run_nonempty (by assumption)) hm
        | exact ih _ _ (hres.tokOK ht) hm
        | (have h : _ = t := hres; subst h; exact ih _ _ ht hm)

/-! ### `process_token` -/

/-- the first statement of `process_token`: report a new line number to the sink -/
def lineIf (line cur : Nat) : M Unit :=
  if line != cur then sinkUnit (.setCurrentLine line) else pure ()

/-- `process_token` after the line number was handled -/
def processTokenRest (token : TokToken) : M SinkResult := do
  let ignoreLf := (← getS).ignoreLf
  modS fun s => { s with ignoreLf := false }
  let tbToken : Option Token ← match token with
    | .parseError e =>
      sinkUnit (.parseError e)
      modS fun s => { s with ignoreLf := ignoreLf }
      pure none
    | .doctype dt =>
      if (← getS).mode == .initial then
        let (err, quirk) := doctypeErrorAndQuirks dt (← getS).opts.iframeSrcdoc
        if err then parseError "Bad DOCTYPE"
        if !(← getS).opts.dropDoctype then
          sinkUnit (.appendDoctypeToDocument (dt.name.getD []) (dt.publicId.getD []) (dt.systemId.getD []))
        setQuirksMode quirk
        setMode .beforeHtml
        pure none
      else
        if (← getS).mode == .inTableText then
          let m ← flushPendingTableText
          setMode m
        parseError "DOCTYPE in body"
        pure none
    | .tag t => pure (some (.tag t))
    | .comment s => pure (some (.comment s))
    | .nullChar => pure (some .nullChar)
    | .eof => pure (some .eof)
    | .chars x => pure (charsToken ignoreLf x)
  match tbToken with
  | none => pure .continue_
  | some t => processToCompletion (ptcFuel (← getS) t) t []

theorem processToken_apply (token : TokToken) (line : Nat) (s : State) :
    processToken token line s = (lineIf line s.currentLine >>= fun _ => processTokenRest token) s := by
  unfold processToken lineIf
  rw [bind_apply, getS_apply]
  dsimp only
  split <;> rfl

theorem lineIf_apply (l c : Nat) (s : State) :
    ∃ tr, lineIf l c s = .ok ((), upd s tr s.currentLine s.dom.errorsRev s.pendingTableText) := by
  unfold lineIf
  split
  · exact ⟨(.setCurrentLine l, .unit) :: s.traceRev, rfl⟩
  · exact ⟨s.traceRev, by rw [upd_self]; rfl⟩

theorem sim_upd_self {s : State} (h : Sim s s) (tr : List (SinkOp × Output)) :
    Sim s (upd s tr s.currentLine s.dom.errorsRev s.pendingTableText) :=
  sim_upd_of h.inv (PendRel.rfl' h.good.pend)

theorem processTokenRest_resp (hT : InTableTextOK) (hF : FlushTextOK) (token : TokToken) :
    Resp (processTokenRest token) := by
  have hF' : Resp flushPendingTableText := hF
  unfold processTokenRest
  refine respQ_getS_bind (fun s _ => ?_) (by resp_stable)
  simp (config := { zeta := true }) only []
  refine respQ_bind (P := fun _ => True) (by resp_fast) (fun _ _ => ?_)
  cases token <;> dsimp only <;> resp_fast
  all_goals first
    | exact processToCompletion_resp hT _ _ [] trivial (by simp)
    | (rename_i heq _ _
       obtain ⟨y, rfl, hy⟩ := H5V.Props.C06.C06_chars_token_nonempty heq
       exact processToCompletion_resp hT _ _ [] hy (by simp))

theorem processToken_rel (hT : InTableTextOK) (hF : FlushTextOK) (tok : TokToken) (l l' : Nat) :
    ∀ s t, Sim s t → RelR (fun _ => True) (processToken tok l s) (processToken tok l' t) := by
  intro s t hst
  rw [processToken_apply, processToken_apply, bind_apply, bind_apply]
  obtain ⟨tr, h1⟩ := lineIf_apply l s.currentLine s
  obtain ⟨tr', h2⟩ := lineIf_apply l' t.currentLine t
  rw [h1, h2]
  exact processTokenRest_resp hT hF tok _ _
    (((sim_upd_self hst.left tr).symm.trans hst).trans (sim_upd_self hst.right tr'))

/-! ### token-level runs -/

/-- relational bind: two (possibly different) computations with related results, then related continuations -/
theorem relR_bind {α β : Type} {P : α → Prop} {Q : β → Prop} {m m' : M α} {f f' : α → M β} {s t : State}
    (h : RelR P (m s) (m' t)) (hf : ∀ a s' t', P a → Sim s' t' → RelR Q (f a s') (f' a t')) :
    RelR Q ((m >>= f) s) ((m' >>= f') t) := by
  rw [bind_apply, bind_apply]
  cases hs : m s with
  | error e =>
    rw [hs] at h
    cases ht : m' t with
    | error e' => trivial
    | ok q => rw [ht] at h; exact h.elim
  | ok p =>
    rw [hs] at h
    cases ht : m' t with
    | error e' => rw [ht] at h; exact h.elim
    | ok q =>
      rw [ht] at h
      obtain ⟨a, s'⟩ := p; obtain ⟨b, t'⟩ := q
      obtain ⟨h1, hp, hs'⟩ := h
      subst h1
      exact hf a s' t' hp hs'

theorem processTokens_rel (hT : InTableTextOK) (hF : FlushTextOK) :
    ∀ (ts ts' : List (TokToken × Nat)), ts.map (·.1) = ts'.map (·.1) →
      ∀ acc s t, Sim s t → RelR (fun _ => True) (processTokens ts acc s) (processTokens ts' acc t)
  | [], [], _, acc, s, t, hst => by
    unfold processTokens
    exact ⟨rfl, trivial, hst⟩
  | [], _ :: _, h, _, _, _, _ => by simp at h
  | _ :: _, [], h, _, _, _, _ => by simp at h
  | (tok, l) :: rest, (tok', l') :: rest', h, acc, s, t, hst => by
    simp only [List.map_cons, List.cons.injEq] at h
    obtain ⟨h1, h2⟩ := h
    subst h1
    unfold processTokens
    refine relR_bind (processToken_rel hT hF tok l l' s t hst) ?_
    intro r s' t' _ hst'
    exact processTokens_rel hT hF rest rest' h2 _ s' t' hst'

/-! ### `end`, the constructors, the CDATA query -/

theorem endLoop_resp : ∀ l, Resp (endLoop l)
  | [] => by unfold endLoop; resp_fast
  | e :: rest => by
    have ih := endLoop_resp rest
    unfold endLoop; resp_fast
macro_rules | `(tactic| resp_lemma) => `(tactic| with_reducible exact endLoop_resp _)

theorem finishTB_resp : Resp finishTB := by
  unfold finishTB; resp_fast

theorem adjustedCurrentNodeForeign_resp : Resp adjustedCurrentNodeForeign := by
  unfold adjustedCurrentNodeForeign; resp_fast

theorem newTB_resp : Resp newTB := by
  unfold newTB; resp_fast

theorem newForFragment_resp (c : Id) (f : Option Id) : Resp (newForFragment c f) := by
  unfold newForFragment; resp_fast

theorem tokenizerStateForContextElem_resp (b : Bool) : Resp (tokenizerStateForContextElem b) := by
  unfold tokenizerStateForContextElem; resp_fast

end H5V.Lemmas.TBSplit
