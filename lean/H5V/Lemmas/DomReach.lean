import H5V.Lemmas.DomStep
/-!
Connectivity in the arena DOM (property C18): `Reach d roots x` — `x` is connected to one of the
`roots` through parent, children and template-contents links, i.e. it survives a collection whose
roots are `roots`.  Sink calls that cannot detach a node keep every link, hence keep everything
reachable; the detaching calls keep it reachable once the detached ends are roots themselves.
-/
namespace H5V.Lemmas.Dom
open H5V.Model.Dom

/-- `x` is connected to a root through parent / child / template-contents links -/
inductive Reach (d : Dom) (roots : List Id) : Id → Prop
  | root {x : Id} : x ∈ roots → Reach d roots x
  | parent {x p : Id} : Reach d roots x → d.parentOf x = some p → Reach d roots p
  | child {x c : Id} : Reach d roots x → c ∈ d.childrenOf x → Reach d roots c
  | template {x t : Id} : Reach d roots x → d.templateContentsOf x = some t → Reach d roots t

theorem Reach.mono_roots {d : Dom} {r1 r2 : List Id} (h : ∀ x ∈ r1, x ∈ r2) {x : Id} (hx : Reach d r1 x) :
    Reach d r2 x := by
  induction hx with
  | root hm => exact Reach.root (h _ hm)
  | parent _ hp ih => exact Reach.parent ih hp
  | child _ hc ih => exact Reach.child ih hc
  | template _ ht ih => exact Reach.template ih ht

/-- more roots reachable ⇒ more reachable: roots that are themselves reachable add nothing -/
theorem Reach.trans_roots {d : Dom} {r1 r2 : List Id} (h : ∀ x ∈ r1, Reach d r2 x) {x : Id} (hx : Reach d r1 x) :
    Reach d r2 x := by
  induction hx with
  | root hm => exact h _ hm
  | parent _ hp ih => exact Reach.parent ih hp
  | child _ hc ih => exact Reach.child ih hc
  | template _ ht ih => exact Reach.template ih ht

/-- every link of `d` is a link of `d'` -/
structure LinksKept (d d' : Dom) : Prop where
  parent : ∀ x p, d.parentOf x = some p → d'.parentOf x = some p
  child : ∀ p c, c ∈ d.childrenOf p → c ∈ d'.childrenOf p
  template : ∀ x t, d.templateContentsOf x = some t → d'.templateContentsOf x = some t

theorem LinksKept.refl (d : Dom) : LinksKept d d := ⟨fun _ _ h => h, fun _ _ h => h, fun _ _ h => h⟩

theorem LinksKept.trans {d1 d2 d3 : Dom} (h1 : LinksKept d1 d2) (h2 : LinksKept d2 d3) : LinksKept d1 d3 :=
  ⟨fun x p h => h2.parent x p (h1.parent x p h), fun p c h => h2.child p c (h1.child p c h),
   fun x t h => h2.template x t (h1.template x t h)⟩

theorem Reach.of_links {d d' : Dom} (hl : LinksKept d d') {roots : List Id} {x : Id} (hx : Reach d roots x) :
    Reach d' roots x := by
  induction hx with
  | root hm => exact Reach.root hm
  | parent _ hp ih => exact Reach.parent ih (hl.parent _ _ hp)
  | child _ hc ih => exact Reach.child ih (hl.child _ _ hc)
  | template _ ht ih => exact Reach.template ih (hl.template _ _ ht)

theorem templateContentsOf_congr {d d' : Dom} {x : Id} (h : d'.dataOf x = d.dataOf x) :
    d'.templateContentsOf x = d.templateContentsOf x := by unfold Dom.templateContentsOf; rw [h]

theorem templateContentsOf_lt {d : Dom} {x t : Id} (h : d.templateContentsOf x = some t) : x < d.size := by
  unfold Dom.templateContentsOf at h
  cases hd : d.dataOf x with
  | none => simp [hd] at h
  | some v => exact lt_of_dataOf_some hd

theorem linksKept_alloc (d : Dom) (data : NodeData) : LinksKept d (d.alloc data).1 where
  parent := fun x p h => by rw [parentOf_alloc]; exact h
  child := fun p c h => by rw [childrenOf_alloc]; exact h
  template := fun x t h => by
    rw [templateContentsOf_congr (d := d)]; exact h
    rw [dataOf_alloc]; simp [Nat.ne_of_lt (templateContentsOf_lt h)]

/-- attaching a parentless node keeps all links -/
theorem linksKept_attach {d d' : Dom} {c p : Id} {l' : List Id} (hc : d.parentOf c = none)
    (hp : ∀ x, d'.parentOf x = if x = c then some p else d.parentOf x)
    (hch : ∀ x, d'.childrenOf x = if x = p then l' else d.childrenOf x)
    (hl : ∀ y, y ∈ d.childrenOf p → y ∈ l') (hd : ∀ x, d'.dataOf x = d.dataOf x) : LinksKept d d' where
  parent := fun x q h => by
    rw [hp]
    have : x ≠ c := fun e => by rw [e, hc] at h; cases h
    simp [this, h]
  child := fun q y h => by
    rw [hch]
    by_cases hq : q = p
    · subst hq; simp; exact hl y h
    · simp [hq]; exact h
  template := fun x t h => by rw [templateContentsOf_congr (hd x)]; exact h

/-- a change of a node's data that keeps its template-contents link (text, attributes) -/
theorem linksKept_sameShape {d d' : Dom} (hs : SameShape d d')
    (ht : ∀ x, d'.templateContentsOf x = d.templateContentsOf x) : LinksKept d d' :=
  ⟨fun x p h => by rw [hs.parent]; exact h, fun p c h => by rw [hs.children]; exact h,
   fun x t h => by rw [ht]; exact h⟩

theorem linksKept_textChange {d d' : Dom} (hs : SameShape d d') {t : Id} {old new : Str}
    (hdt : d.dataOf t = some (.text old))
    (hd : ∀ x, d'.dataOf x = if x = t then some (.text new) else d.dataOf x) : LinksKept d d' := by
  refine linksKept_sameShape hs ?_
  intro x
  by_cases hx : x = t
  · subst hx; simp [Dom.templateContentsOf, hd, hdt]
  · exact templateContentsOf_congr (by rw [hd]; simp [hx])

theorem ne_of_not_isAncOrSelf' {d : Dom} {a x : Id} (hx : x < d.size) (h : d.isAncOrSelf a x = false) : a ≠ x := by
  intro e; subst e
  unfold Dom.isAncOrSelf at h
  cases hs : d.size with
  | zero => rw [hs] at hx; exact Nat.not_lt_zero _ hx
  | succ s => rw [hs] at h; simp [Dom.ancestorsOrSelf] at h

theorem linksKept_append {d d' : Dom} {p : Id} {ch : NodeOrText} (hc : d.contractAppend p ch = true)
    (h : d.append p ch = .ok d') : LinksKept d d' := by
  simp only [Dom.contractAppend, Bool.and_eq_true] at hc
  have hp := lt_of_isContainer hc.1
  cases ch with
  | text s =>
    obtain ⟨_, h1 | h2⟩ := append_text_ok h
    · obtain ⟨hl, old, _, hdl, hs, hd, _⟩ := h1
      exact linksKept_textChange hs hdl hd
    · have h3 := h2.2
      obtain ⟨_, _, _, _, _, hp', hch', hd', _, _⟩ := appendRaw_ok h3 (Nat.ne_of_lt (by simpa using hp))
      exact (linksKept_alloc d _).trans (linksKept_attach (l' := (d.alloc (NodeData.text s)).1.childrenOf p ++ [d.size])
        (by rw [parentOf_alloc]; exact parentOf_none_of_ge (Nat.le_refl _)) hp' hch' (fun y hy => by simp [hy]) hd')
  | node c =>
    rw [append_node_eq] at h
    simp only [Dom.childOk, Bool.and_eq_true, Bool.not_eq_true', Bool.or_eq_true] at hc
    have hne : p ≠ c := (ne_of_not_isAncOrSelf' hp hc.2.2).symm
    have hpar : d.parentOf c = none := by
      have := hc.2.1.2
      cases hpc : d.parentOf c with
      | none => rfl
      | some q => simp [hpc] at this
    obtain ⟨_, _, _, _, _, hp', hch', hd', _, _⟩ := appendRaw_ok h hne
    exact linksKept_attach (l' := d.childrenOf p ++ [c]) hpar hp' hch' (fun y hy => by simp [hy]) hd'

theorem linksKept_insertFresh {d d' : Dom} {data : NodeData} {P : Id} {i : Nat}
    (h : (d.alloc data).1.insertAtIndex P i d.size = .ok d') : LinksKept d d' := by
  obtain ⟨_, hp, hch, hd, _, _⟩ := insertAtIndex_fresh_ok h
  refine ⟨?_, ?_, ?_⟩
  · intro x q hx; rw [hp]
    have : x ≠ d.size := Nat.ne_of_lt (child_lt_size hx)
    simp [this, hx]
  · intro q y hy; rw [hch]
    by_cases hq : q = P
    · subst hq; simp; exact mem_insertAt.mpr (Or.inr hy)
    · simp [hq]; exact hy
  · intro x t hx
    rw [templateContentsOf_congr (d := d)]; exact hx
    rw [hd]; simp [Nat.ne_of_lt (templateContentsOf_lt hx)]

theorem linksKept_appendBeforeSibling {d d' : Dom} {s : Id} {ch : NodeOrText}
    (hpc : match ch with | .node c => d.parentOf c = none | .text _ => True)
    (h : d.appendBeforeSibling s ch = .ok d') : LinksKept d d' := by
  obtain ⟨P, i, _, _, _, hm⟩ := appendBeforeSibling_ok h
  cases ch with
  | text t =>
    rcases hm with ⟨prev, old, _, _, hdl, hs, hd, _⟩ | ⟨_, h2⟩
    · exact linksKept_textChange hs hdl hd
    · exact linksKept_insertFresh h2
  | node c =>
    simp only at hm hpc
    obtain ⟨d1, hr, _, _, _, hp, hch, hd, _, _⟩ := insertAtIndex_ok hm
    rcases removeFromParent_ok hr with ⟨_, he⟩ | ⟨_, _, hpar, _⟩
    · subst he
      exact linksKept_attach (l' := insertAt (d1.childrenOf P) i c) hpc hp hch
        (fun y hy => mem_insertAt.mpr (Or.inr hy)) hd
    · rw [hpc] at hpar; cases hpar

theorem linksKept_appendBeforeSiblingV {b : Dom.BeforeSiblingVariant} {d d' : Dom} {s : Id} {ch : NodeOrText}
    (hpc : match ch with | .node c => d.parentOf c = none | .text _ => True)
    (h : d.appendBeforeSiblingV b s ch = .ok d') : LinksKept d d' := by
  rcases appendBeforeSiblingV_ok h with h1 | ⟨c, d1, he, hr, h2⟩
  · exact linksKept_appendBeforeSibling hpc h1
  · subst he
    simp only at hpc
    rcases removeFromParent_ok hr with ⟨_, hd1⟩ | ⟨_, _, hpar, _⟩
    · subst hd1; exact linksKept_appendBeforeSibling (ch := .node c) hpc h2
    · rw [hpc] at hpar; cases hpar

/-- **sink calls that cannot detach a node keep every link** (`NeverDetaches`: all calls except
`remove_from_parent`, `reparent_children`, re-insertion of an attached node, and the option
mirroring), hence everything that was connected to a root stays connected to it -/
theorem LinksKept.applyV {v : Dom.CloneVariant} {b : Dom.BeforeSiblingVariant} {d d' : Dom} {op : SinkOp}
    {out : Output} (hc : d.contractOk op = true) (h : d.applyV v b op = .ok (d', out))
    (hop : NeverDetaches d op) : LinksKept d d' := by
  cases op with
  | parseError msg =>
    simp [Dom.applyV] at h; obtain ⟨h, _⟩ := h; subst h
    exact ⟨fun _ _ h => h, fun _ _ h => h, fun _ _ h => h⟩
  | setQuirksMode m =>
    simp [Dom.applyV] at h; obtain ⟨h, _⟩ := h; subst h
    exact ⟨fun _ _ h => h, fun _ _ h => h, fun _ _ h => h⟩
  | getDocument | markScriptAlreadyStarted _ | pop _ | sameNode _ _ | associateWithForm _ _ _ _ | setCurrentLine _
  | allowDeclarativeShadowRoots _ | attachDeclarativeShadow _ _ _ =>
    simp [Dom.applyV] at h; obtain ⟨h, _⟩ := h; subst h; exact LinksKept.refl _
  | elemName t =>
    simp only [Dom.applyV, bind, Except.bind] at h
    cases he : d.elemName t with
    | error e => simp [he] at h
    | ok v => simp [he] at h; obtain ⟨h, _⟩ := h; subst h; exact LinksKept.refl _
  | getTemplateContents t =>
    simp only [Dom.applyV, bind, Except.bind] at h
    cases he : d.getTemplateContents t with
    | error e => simp [he] at h
    | ok v => simp [he] at h; obtain ⟨h, _⟩ := h; subst h; exact LinksKept.refl _
  | isMathmlAnnotationXmlIntegrationPoint t =>
    simp only [Dom.applyV, bind, Except.bind] at h
    cases he : d.isMathmlAnnotationXmlIntegrationPoint t with
    | error e => simp [he] at h
    | ok v => simp [he] at h; obtain ⟨h, _⟩ := h; subst h; exact LinksKept.refl _
  | createElement name attrs flags =>
    simp [Dom.applyV] at h; obtain ⟨h, _⟩ := h; subst h
    unfold Dom.createElement
    split
    · exact (linksKept_alloc d _).trans (linksKept_alloc _ _)
    · exact linksKept_alloc d _
  | createComment text =>
    simp [Dom.applyV, Dom.createComment] at h; obtain ⟨h, _⟩ := h; subst h; exact linksKept_alloc d _
  | createPi t dd =>
    simp [Dom.applyV, Dom.createPi] at h; obtain ⟨h, _⟩ := h; subst h; exact linksKept_alloc d _
  | append p c =>
    simp only [Dom.applyV, bind, Except.bind] at h
    cases ha : d.append p c with
    | error e => simp [ha] at h
    | ok d1 =>
      simp [ha] at h; obtain ⟨h, _⟩ := h; subst h
      exact linksKept_append (by simpa [Dom.contractOk] using hc) ha
  | appendBeforeSibling s c =>
    simp only [Dom.applyV, bind, Except.bind] at h
    cases ha : d.appendBeforeSiblingV b s c with
    | error e => simp [ha] at h
    | ok d1 =>
      simp [ha] at h; obtain ⟨h, _⟩ := h; subst h
      refine linksKept_appendBeforeSiblingV ?_ ha
      cases c with
      | text t => trivial
      | node c => exact hop
  | appendBasedOnParentNode e p c =>
    simp only [Dom.applyV, bind, Except.bind] at h
    cases ha : d.appendBasedOnParentNodeV b e p c with
    | error err => simp [ha] at h
    | ok d1 =>
      simp [ha] at h; obtain ⟨h, _⟩ := h; subst h
      simp only [Dom.contractOk, Bool.and_eq_true] at hc
      have := appendBasedOnParentNodeV_eq ha (lt_of_isElement hc.1.1)
      by_cases hp : (d.parentOf e).isSome = true
      · simp only [hp, if_true] at this hc
        refine linksKept_appendBeforeSiblingV ?_ this.symm
        cases c with
        | text t => trivial
        | node c => exact hop
      · simp only [hp] at this hc
        exact linksKept_append hc.2 this.symm
  | appendDoctypeToDocument n p s =>
    simp only [Dom.applyV, bind, Except.bind, Dom.appendDoctypeToDocument] at h
    cases ha : (d.alloc (NodeData.doctype n p s)).1.appendRaw Dom.document (d.alloc (NodeData.doctype n p s)).2 with
    | error err => simp [ha] at h
    | ok d1 =>
      simp [ha] at h; obtain ⟨h, _⟩ := h; subst h
      rw [alloc_id] at ha
      simp only [Dom.contractOk, Bool.and_eq_true] at hc
      have hdoc := lt_of_isContainer hc.1
      obtain ⟨_, _, _, _, _, hp', hch', hd', _, _⟩ := appendRaw_ok ha (Nat.ne_of_lt hdoc)
      exact (linksKept_alloc d _).trans (linksKept_attach
        (l' := (d.alloc (NodeData.doctype n p s)).1.childrenOf Dom.document ++ [d.size])
        (by rw [parentOf_alloc]; exact parentOf_none_of_ge (Nat.le_refl _)) hp' hch' (fun y hy => by simp [hy]) hd')
  | addAttrsIfMissing t a =>
    simp only [Dom.applyV, bind, Except.bind] at h
    cases ha : d.addAttrsIfMissing t a with
    | error e => simp [ha] at h
    | ok d1 =>
      simp [ha] at h; obtain ⟨h, _⟩ := h; subst h
      obtain ⟨_, _, _, _, hdt, hs, hd, _⟩ := addAttrsIfMissing_ok ha
      refine linksKept_sameShape hs ?_
      intro x
      by_cases hx : x = t
      · subst hx; simp [Dom.templateContentsOf, hd, hdt]
      · exact templateContentsOf_congr (by rw [hd]; simp [hx])
  | removeFromParent t => exact hop.elim
  | reparentChildren n np => exact hop.elim
  | maybeCloneAnOptionIntoSelectedcontent o => exact hop.elim

/-- `remove_from_parent(t)` splits one connected component in two: everything that was reachable
stays reachable once `t` and its old parent count as roots -/
theorem Reach.removeFromParent {d d' : Dom} (hw : WF d) {t : Id} (h : d.removeFromParent t = .ok d')
    {roots : List Id} {x : Id} (hx : Reach d roots x) :
    Reach d' (t :: ((d.parentOf t).toList ++ roots)) x := by
  rcases removeFromParent_ok h with ⟨_, he⟩ | ⟨p, i, hpar, hi, hp, hch, hd, _, _⟩
  · subst he; exact hx.mono_roots (fun y hy => by simp [hy])
  · obtain ⟨hsplit, _, _⟩ := indexOf?_some hi
    rw [hpar]
    induction hx with
    | root hm => exact Reach.root (by simp [hm])
    | @parent y q _ hq ih =>
      by_cases hy : y = t
      · subst hy; rw [hpar] at hq; cases hq; exact Reach.root (by simp)
      · exact Reach.parent ih (by rw [hp]; simp [hy, hq])
    | @child y c _ hc ih =>
      by_cases hct : c = t
      · subst hct; exact Reach.root (by simp)
      · refine Reach.child ih ?_
        rw [hch]
        by_cases hy : y = p
        · subst hy
          simp only [if_true]
          rcases (mem_removeAt_of_split hsplit).mp hc with e | hm
          · exact absurd e hct
          · exact hm
        · simp [hy]; exact hc
    | @template y tc _ htc ih => exact Reach.template ih (by rw [templateContentsOf_congr (hd y)]; exact htc)

/-- `reparent_children(n, np)`: everything that was reachable stays reachable once `n` and `np`
count as roots -/
theorem Reach.reparentChildren {d d' : Dom} (hw : WF d) {n np : Id} (h : d.reparentChildren n np = .ok d')
    {roots : List Id} {x : Id} (hx : Reach d roots x) : Reach d' (n :: np :: roots) x := by
  obtain ⟨hne, _, _, hp, hch, hd, _, _⟩ := reparentChildren_ok h
  induction hx with
  | root hm => exact Reach.root (by simp [hm])
  | @parent y q _ hq ih =>
    by_cases hy : y ∈ d.childrenOf n
    · -- y was a child of n: its parent q = n
      have := (hw.links y n).mpr hy
      rw [this] at hq; cases hq
      exact Reach.root (by simp)
    · exact Reach.parent ih (by rw [hp]; simp [hy, hq])
  | @child y c _ hc ih =>
    by_cases hyn : y = n
    · subst hyn
      -- c moved under np
      have hnp : np ≠ y := fun e => hne e.symm
      exact Reach.child (x := np) (Reach.root (by simp)) (by rw [hch]; simp [hnp, hc])
    · refine Reach.child ih ?_
      rw [hch]
      by_cases hyp : y = np
      · subst hyp; simp [hyn]; exact Or.inl hc
      · simp [hyn, hyp]; exact hc
  | @template y tc _ htc ih => exact Reach.template ih (by rw [templateContentsOf_congr (hd y)]; exact htc)

end H5V.Lemmas.Dom
