import H5V.Lemmas.HtmlTBModesPrimIns
/-!
Simulation lemmas for the insertion of FOREIGN elements: `insert_element` with the adjusted attributes
against `Spec.TreeModes.insertForeign`, `enter_foreign`, `foreign_start_tag`.
-/
namespace H5V.Lemmas.HtmlTBModes
open H5V.Model.HtmlTB
open H5V.Model.Dom (Id SinkOp Output Dom QualName Attr NodeOrText ElementFlags NodeData QuirksMode)
open H5V.Lemmas.HtmlTBAlgo
open H5V.Lemmas.Dom
open H5V.Lemmas.HtmlTBSpec (toAdj Plain toName adj1)
open H5V.Lemmas.TBSafe (TI HInv SInv Rooted)
open H5V.Spec.TreeAlgo2 (Elem Entry PState Ctx Edit Place)
open H5V.Spec.TreeAlgo (ForeignKind)
open H5V.Spec.TreeModes (STok ETok IMode Config Out TokSwitch XOp Op Step Edition)

/-! ### the adjusted tag -/

/-- the tag after "adjust MathML / SVG attributes" and "adjust foreign attributes" -/
def adjTag (kind : ForeignKind) (t : Tag) : Tag :=
  adjustForeignAttributes (match kind with
    | .mathml => adjustMathmlAttributes t | .svg => adjustSvgAttributes t | .other => t)

@[simp] theorem adjTag_name (kind : ForeignKind) (t : Tag) : (adjTag kind t).name = t.name := by cases kind <;> rfl
@[simp] theorem adjTag_hadDup (kind : ForeignKind) (t : Tag) : (adjTag kind t).hadDup = t.hadDup := by cases kind <;> rfl
@[simp] theorem adjTag_selfClosing (kind : ForeignKind) (t : Tag) : (adjTag kind t).selfClosing = t.selfClosing := by
  cases kind <;> rfl

/-- the element token of the adjusted model tag is the specification's adjusted element token -/
theorem etokOf_adjTag (kind : ForeignKind) {t : Tag} (hp : PlainTag t) :
    etokOf (adjTag kind t) = Spec.TreeModes.Tag.etokForeign kind (specTag t) := by
  simp only [etokOf, Spec.TreeModes.Tag.etokForeign, adjTag_name, specTag_name]
  congr 1
  have := H5V.Lemmas.HtmlTBSpec.adjust_attributes_eq_spec kind t hp
  have e : (specTag t).attrs.map (fun a => (a.name, a.value)) = t.attrs.map (fun a => (a.name.loc, a.value)) := by
    simp only [specTag, List.map_map]; rfl
  rw [e]
  cases kind <;> exact this

/-! ### the `encoding` attribute survives the adjustments -/

theorem lower_eq : asciiLower = Spec.TreeAlgo.lower := rfl

theorem eqIgnoreAsciiCase_eq (v : Str) (b : String) : eqIgnoreAsciiCase v b.toList = Spec.TreeAlgo.eqCI v b := rfl

/-- no adjusted name is `encoding`, `encoding` is not adjusted -/
theorem tables_encoding :
    Spec.TreeTables.mathmlAttrNames.all (fun r => r.1.toList != "encoding".toList && r.2.toList != "encoding".toList) = true ∧
    Spec.TreeTables.svgAttrNames.all (fun r => r.1.toList != "encoding".toList && r.2.toList != "encoding".toList) = true ∧
    Spec.TreeTables.foreignAttrs.all (fun r => r.1.toList != "encoding".toList && Spec.TreeAlgo.nsUrl r.2.2.2 != []) = true := by
  decide +kernel

theorem lookup_encoding (tbl : List (String × String))
    (h : tbl.all (fun r => r.1.toList != "encoding".toList && r.2.toList != "encoding".toList) = true) (n : Str) :
    ((((Spec.TreeAlgo.lookup2 tbl n).map String.toList).getD n) == "encoding".toList) = (n == "encoding".toList) := by
  unfold Spec.TreeAlgo.lookup2
  cases hf : tbl.find? (fun r => r.1.toList == n) with
  | none => rfl
  | some r =>
    have hmem := List.mem_of_find?_eq_some hf
    have hp := List.find?_some hf
    have := List.all_eq_true.mp h r hmem
    simp only [Bool.and_eq_true, bne_iff_ne, ne_eq] at this
    simp only [beq_iff_eq] at hp
    simp only [Option.map_some, Option.getD_some]
    rw [← hp]
    rw [beq_eq_false_iff_ne.mpr this.1, beq_eq_false_iff_ne.mpr this.2]

theorem adjustName1_encoding (kind : ForeignKind) (n : Str) :
    (Spec.TreeAlgo.adjustName1 kind n == "encoding".toList) = (n == "encoding".toList) := by
  cases kind with
  | mathml => exact lookup_encoding _ tables_encoding.1 n
  | svg => exact lookup_encoding _ tables_encoding.2.1 n
  | other => rfl

theorem adjustForeign1_encoding (m v : Str) :
    ((Spec.TreeAlgo.adjustForeign1 m v).ns == [] && (Spec.TreeAlgo.adjustForeign1 m v).loc == "encoding".toList)
      = (m == "encoding".toList) ∧ (Spec.TreeAlgo.adjustForeign1 m v).value = v := by
  unfold Spec.TreeAlgo.adjustForeign1
  cases hf : Spec.TreeTables.foreignAttrs.find? (fun r => r.1.toList == m) with
  | none => exact ⟨by simp, rfl⟩
  | some r =>
    have hmem := List.mem_of_find?_eq_some hf
    have hp := List.find?_some hf
    have := List.all_eq_true.mp tables_encoding.2.2 r hmem
    simp only [Bool.and_eq_true, bne_iff_ne, ne_eq] at this
    simp only [beq_iff_eq] at hp
    refine ⟨?_, rfl⟩
    simp only []
    rw [← hp, beq_eq_false_iff_ne.mpr this.1, beq_eq_false_iff_ne.mpr this.2]
    rfl

/-- the test "is the `encoding` attribute" on an adjusted attribute -/
theorem adjusted_encoding (kind : ForeignKind) (n v : Str) :
    ((Spec.TreeAlgo.adjustForeign1 (Spec.TreeAlgo.adjustName1 kind n) v).ns == [] &&
      (Spec.TreeAlgo.adjustForeign1 (Spec.TreeAlgo.adjustName1 kind n) v).loc == "encoding".toList)
      = (n == "encoding".toList) ∧
    (Spec.TreeAlgo.adjustForeign1 (Spec.TreeAlgo.adjustName1 kind n) v).value = v := by
  obtain ⟨h1, h2⟩ := adjustForeign1_encoding (Spec.TreeAlgo.adjustName1 kind n) v
  exact ⟨by rw [h1, adjustName1_encoding], h2⟩

/-! ### the integration-point flag of `create_element_with_flags` and of `insertForeign` -/

/-- the test of `Spec.TreeModes.insertForeign`: a MathML `annotation-xml` start tag whose `encoding`
attribute is an ASCII case-insensitive match for `text/html` / `application/xhtml+xml` -/
def specAnnotIp (ns : Str) (t : STag) : Bool :=
  ns == Spec.TreeAlgo.nsMathml && t.is "annotation-xml" &&
    (match t.attr? "encoding" with
     | some v => Spec.TreeAlgo.eqCI v "text/html" || Spec.TreeAlgo.eqCI v "application/xhtml+xml"
     | none => false)

theorem any_of_find_none {l : List Attr} {p q : Attr → Bool} (h : l.find? p = none) :
    l.any (fun a => p a && q a) = false := by
  rw [List.find?_eq_none] at h
  rw [List.any_eq_false]
  intro a ha
  have := h a ha
  simp [this]

theorem any_of_find_some {c : Str} {q : Attr → Bool} : ∀ {l : List Attr} {a : Attr},
    (l.map (·.name.loc)).Nodup → l.find? (fun a => a.name.loc == c) = some a →
    l.any (fun a => a.name.loc == c && q a) = q a := by
  intro l
  induction l with
  | nil => intro a _ h; cases h
  | cons b r ih =>
    intro a hnd h
    simp only [List.map_cons, List.nodup_cons] at hnd
    simp only [List.find?_cons] at h
    by_cases hb : (b.name.loc == c) = true
    · simp only [hb, Option.some.injEq] at h
      subst h
      have hr : r.any (fun a => a.name.loc == c && q a) = false := by
        rw [List.any_eq_false]
        intro x hx
        have hne : ¬ (x.name.loc == c) = true := by
          intro hxc
          simp only [beq_iff_eq] at hxc hb
          exact hnd.1 (List.mem_map.mpr ⟨x, hx, by rw [hxc, hb]⟩)
        simp [hne]
      simp only [List.any_cons, hb, Bool.true_and, hr, Bool.or_false]
    · have hb' : (b.name.loc == c) = false := by simpa using hb
      simp only [hb'] at h
      simp only [List.any_cons, hb', Bool.false_and, Bool.false_or]
      exact ih hnd.2 h

/-- **the flag `mathml_annotation_xml_integration_point` html5ever computes for the adjusted tag is the
one the specification remembers** (for tags without duplicate attribute names) -/
theorem flags_adjTag (kind : ForeignKind) {t : Tag} (hp : PlainTag t) (hnd : (t.attrs.map (·.name.loc)).Nodup) (ns : Str) :
    (flagsFor { pfx := none, ns := ns, loc := (adjTag kind t).name } (adjTag kind t).attrs (adjTag kind t).hadDup).mathmlIP
      = specAnnotIp ns (specTag t) := by
  unfold flagsFor specAnnotIp
  simp only [adjTag_name, isName_eq, Spec.TreeModes.Tag.is, strIs_eq, specTag_name]
  by_cases hc : (ns == nsMathml && decide (t.name = "annotation-xml".toList)) = true
  · have hc' : (ns == Spec.TreeAlgo.nsMathml && decide (t.name = "annotation-xml".toList)) = true := hc
    simp only [hc, hc', if_true, Bool.true_and]
    -- the model's test only looks at `toAdj` of the adjusted attributes
    have h1 : (adjTag kind t).attrs.any (fun a => a.name.ns == [] && decide (a.name.loc = "encoding".toList) &&
          (eqIgnoreAsciiCase a.value "text/html".toList || eqIgnoreAsciiCase a.value "application/xhtml+xml".toList))
        = ((adjTag kind t).attrs.map toAdj).any (fun a => a.ns == [] && a.loc == "encoding".toList &&
          (Spec.TreeAlgo.eqCI a.value "text/html" || Spec.TreeAlgo.eqCI a.value "application/xhtml+xml")) := by
      rw [List.any_map]
      apply H5V.Lemmas.HtmlTBSpec.any_congr_mem
      intro a _
      show (a.name.ns == [] && decide (a.name.loc = "encoding".toList) &&
          (eqIgnoreAsciiCase a.value "text/html".toList || eqIgnoreAsciiCase a.value "application/xhtml+xml".toList))
        = (a.name.ns == [] && (a.name.loc == "encoding".toList) &&
          (Spec.TreeAlgo.eqCI a.value "text/html" || Spec.TreeAlgo.eqCI a.value "application/xhtml+xml"))
      rw [eqIgnoreAsciiCase_eq, eqIgnoreAsciiCase_eq, beq_str a.name.loc]
    rw [h1]
    have h2 : (adjTag kind t).attrs.map toAdj
        = t.attrs.map (fun a => Spec.TreeAlgo.adjustForeign1 (Spec.TreeAlgo.adjustName1 kind a.name.loc) a.value) := by
      have := H5V.Lemmas.HtmlTBSpec.adjust_attributes_eq_spec kind t hp
      simp only [Spec.TreeAlgo.adjustAttributes, List.map_map] at this
      cases kind <;> exact this
    rw [h2, List.any_map]
    have h3 : t.attrs.any ((fun a : Spec.TreeAlgo.AdjAttr => a.ns == [] && a.loc == "encoding".toList &&
          (Spec.TreeAlgo.eqCI a.value "text/html" || Spec.TreeAlgo.eqCI a.value "application/xhtml+xml")) ∘
          fun a => Spec.TreeAlgo.adjustForeign1 (Spec.TreeAlgo.adjustName1 kind a.name.loc) a.value)
        = t.attrs.any (fun a => a.name.loc == "encoding".toList &&
          (Spec.TreeAlgo.eqCI a.value "text/html" || Spec.TreeAlgo.eqCI a.value "application/xhtml+xml")) := by
      apply H5V.Lemmas.HtmlTBSpec.any_congr_mem
      intro a _
      obtain ⟨e1, e2⟩ := adjusted_encoding kind a.name.loc a.value
      simp only [Function.comp, e1, e2]
    rw [h3]
    have h4 : (specTag t).attr? "encoding"
        = (t.attrs.find? (fun a => a.name.loc == "encoding".toList)).map (·.value) := by
      simp only [Spec.TreeModes.Tag.attr?, specTag, List.find?_map, Option.map_map]
      rfl
    rw [h4]
    cases hf : t.attrs.find? (fun a => a.name.loc == "encoding".toList) with
    | none => simp only [Option.map_none]; exact any_of_find_none hf
    | some a => simp only [Option.map_some]; exact any_of_find_some hnd hf
  · have hc1 : (ns == nsMathml && decide (t.name = "annotation-xml".toList)) = false := Bool.eq_false_iff.mpr hc
    have hc' : (ns == Spec.TreeAlgo.nsMathml && decide (t.name = "annotation-xml".toList)) = false := hc1
    simp only [hc1, hc', Bool.false_eq_true, if_false, Bool.false_and]

/-! ### "insert a foreign element" -/

theorem insertForeignElement_stack {cx : Ctx ETok} {st p1 : PState Id ETok} {tok : ETok} {ns : Str} {only : Bool} {e : Elem Id}
    (h : Spec.TreeAlgo2.insertForeignElement cx st tok ns only = some (p1, e)) : p1.stack = st.stack ++ [e] := by
  unfold Spec.TreeAlgo2.insertForeignElement at h
  cases hp : Spec.TreeAlgo2.appropriatePlace st.stack st.fosterParenting none with
  | none => rw [hp] at h; cases h
  | some loc =>
    rw [hp] at h
    cases hs : st.supply with
    | nil => simp [PState.newNode, hs] at h
    | cons n rest =>
      simp only [Option.bind_some, PState.newNode, hs, Option.map_some, Option.some.injEq, Prod.mk.injEq] at h
      rw [← h.1, ← h.2]

theorem insertForeign_eq (σ : SState) (t : STag) (kind : ForeignKind) (ns : Str) (p1 : PState Id ETok) (e : Elem Id)
    (h : Spec.TreeAlgo2.insertForeignElement Spec.TreeModes.cx σ.p (t.etokForeign kind) ns false = some (p1, e)) :
    Spec.TreeModes.insertForeign σ t kind ns
      = .ok (if specAnnotIp ns t then { σ with p := p1, annotationHtml := σ.annotationHtml ++ [e.id] }
             else { σ with p := p1 }, e) := by
  unfold Spec.TreeModes.insertForeign
  rw [h]
  rfl

/-- `insert_element(push, ns, tag')` (mod.rs:1360) for the adjusted tag `tag'` of a start tag token `t`
against `Spec.TreeModes.insertForeign` ("insert a foreign element for the token, with `ns` and false", and
the MathML `annotation-xml` bookkeeping) -/
theorem pc_insertElement_foreign {s : State} (hm : MInv s) (pushIt : Bool) (ns : Str) (kind : ForeignKind) {t : Tag}
    (hp : PlainTag t) (hnd : (t.attrs.map (·.name.loc)).Nodup) :
    PC (insertElement pushIt ns (adjTag kind t).name (adjTag kind t).attrs (adjTag kind t).hadDup) s (fun a s' calls =>
      SameButOpen s s' ∧ s'.openElems = (if pushIt then s.openElems ++ [a] else s.openElems) ∧
      s.dom.size ≤ a ∧ s'.dom.isElement a = true ∧ nameOf s'.dom a = ⟨ns, t.name⟩ ∧
      Tr s s' calls (fun x x' => ∃ σ1,
        Spec.TreeModes.insertForeign (absF s x) (specTag t) kind ns = .ok (σ1, elemOf s'.dom a) ∧
        σ1.cur = some (elemOf s'.dom a) ∧
        absF s' x' = if pushIt then σ1 else σ1.pop)) := by
  refine pc_conseq (pc_insertElement_core hm pushIt ns (adjTag kind t)) ?_
  rintro a s' calls he ⟨f, ho, hfresh, hel, hnm, htr⟩
  rw [adjTag_name] at hnm
  refine ⟨f, ho, hfresh, hel, hnm, htr.conseq ?_⟩
  rintro x x' hx hx' ⟨p1, h1, h2⟩
  have e1 : elemOf s'.dom a = ⟨a, ⟨ns, t.name⟩⟩ := by unfold elemOf; rw [hnm]; rfl
  rw [etokOf_adjTag kind hp, adjTag_name] at h1
  have h3 := insertForeign_eq (absF s x) (specTag t) kind ns p1 ⟨a, ⟨ns, t.name⟩⟩ (by rw [absF_p]; exact h1)
  rw [e1]
  have hst := insertForeignElement_stack h1
  refine ⟨_, h3, ?_, ?_⟩
  · have : ∀ b : Bool, (if b then { absF s x with p := p1, annotationHtml := (absF s x).annotationHtml ++ [a] }
        else { absF s x with p := p1 } : SState).cur = some ⟨a, ⟨ns, t.name⟩⟩ := by
      intro b
      cases b <;> simp [Spec.TreeModes.State.cur, hst]
    exact this _
  · rw [h2]
    unfold newAnnot
    rw [flags_adjTag kind hp hnd ns]
    cases specAnnotIp ns (specTag t) <;> cases pushIt <;> simp [pop_eq, absF]

/-- `insert_foreign_element(tag, ns, only_add_to_element_stack)` (mod.rs:1441; html5ever uses it for the
`template` of a declarative shadow root only) against `TreeAlgo2.insertForeignElement`, for element types
that are not form-associated -/
theorem pc_insertForeignElement {s : State} (hm : MInv s) (tag : Tag) (ns : Str) (onlyAdd : Bool)
    (hnf : Spec.TreeAlgo.inHtml Spec.TreeAlgo2.formAssociatedElements ⟨ns, tag.name⟩ = false) :
    PC (H5V.Model.HtmlTB.insertForeignElement tag ns onlyAdd) s (fun a s' calls =>
      SameButOpen s s' ∧ s'.openElems = s.openElems ++ [a] ∧
      s.dom.size ≤ a ∧ s'.dom.isElement a = true ∧ nameOf s'.dom a = ⟨ns, tag.name⟩ ∧
      Tr s s' calls (fun x x' => ∃ p1,
        Spec.TreeAlgo2.insertForeignElement Spec.TreeModes.cx (absP s x) (etokOf tag) ns onlyAdd
          = some (p1, ⟨a, ⟨ns, tag.name⟩⟩) ∧
        absF s' x' = { absF s x with p := p1, annotationHtml := x.annot ++ newAnnot ns tag a })) := by
  by_cases hne : s.openElems = []
  · unfold H5V.Model.HtmlTB.insertForeignElement
    exact pc_bind_false (pc_apfi_nil hne)
  have hok := hm.elems
  have hhead := hm.headOk hne
  obtain ⟨h0, hh0, hnt, hsp⟩ := hhead
  obtain ⟨place, hplace, hpn⟩ := appropriatePlace_some (absStack s.dom s.openElems) s.fosterParenting none
    (elemOf s.dom h0) (by rw [absStack_head?, hh0]; rfl) hnt
  refine pc_conseq (PC.of_tot (tot_insertForeignElement s tag ns onlyAdd hok (hm.headOk hne) hnf)) ?_
  rintro a s' calls he ⟨L, hs', hfresh, hel, hnm, hL, hspec⟩
  have f : SameButOpen s s' := SameButOpen.of_eq hs'
  have ho : s'.openElems = if true then s.openElems ++ [a] else s.openElems := by rw [hs']; rfl
  -- the log entries
  have hcomp : Spec.TreeAlgo2.insertForeignElement tagCtx (absState s (a :: []) []) tag ns onlyAdd
      = some ({ absState s [] ([] ++ ([Edit.create a ns tag] ++ (if onlyAdd then [] else [Edit.insert place a]))) with
                  stack := absStack s.dom s.openElems ++ [⟨a, ⟨ns, tag.name⟩⟩] }, ⟨a, ⟨ns, tag.name⟩⟩) := by
    unfold Spec.TreeAlgo2.insertForeignElement
    simp only [absState, hplace, Option.bind_some, PState.newNode, Option.map_some]
    have : Spec.TreeAlgo2.associatesWithForm ⟨ns, tagCtx.tokName tag⟩ (tagCtx.tokHasFormAttr tag) true
        ((absStack s.dom s.openElems).any fun e => e.name.isHtml "template") = false := by
      unfold Spec.TreeAlgo2.associatesWithForm; rw [show tagCtx.tokName tag = tag.name from rfl, hnf]; rfl
    cases s.formElem with
    | none => simp; rfl
    | some fo => simp only [this, Bool.false_eq_true, if_false]; simp; rfl
  have hLe : L = [Edit.create a ns tag] ++ (if onlyAdd then [] else [Edit.insert place a]) := by
    have h := (hspec [] []).symm.trans hcomp
    have h2 := congrArg (fun o => o.map (fun r => r.1.log)) h
    simpa [absState] using h2
  have hpel : ∀ y ∈ placeNodes place, s.dom.isElement y = true := by
    intro y hy
    rcases hpn y hy with h | ⟨t, ht, _⟩
    · obtain ⟨e, he', rfl⟩ := List.mem_map.mp h
      obtain ⟨z, hz, rfl⟩ := List.mem_map.mp he'
      exact hok z hz
    · cases ht
  have hL' : ∀ tc, TcOk s.dom tc → edits calls = L.map (editCall tc) := by
    intro tc htc
    rw [hL, hLe]
    have e1 : ipOf tc place = ipOf (tcOf s.dom) place := ipOf_congr htc hpel
    cases onlyAdd <;> simp [editCall, e1]
  have ho' : s'.openElems = s.openElems ++ [a] := by simpa using ho
  refine ⟨f, ho', hfresh, hel, hnm, ?_⟩
  exact tr_insert_of_spec hm hne true onlyAdd ns tag a he f ho hfresh hel hnm L hL' hspec

/-! ### `enter_foreign` -/

/-- the kind of adjustment for a namespace -/
def kindOfNs (ns : Str) : ForeignKind :=
  if ns == nsMathml then .mathml else if ns == nsSvg then .svg else .other

theorem kindOfNs_mathml : kindOfNs nsMathml = .mathml := by decide
theorem kindOfNs_svg : kindOfNs nsSvg = .svg := by decide

/-- the common tail of `enter_foreign` and `foreign_start_tag` -/
def efBody (tag : Tag) (ns : Str) : M ProcessResult := do
  if tag.selfClosing then
    let _ ← insertElement false ns tag.name tag.attrs tag.hadDup
    pure .doneAckSelfClosing
  else
    let _ ← insertElement true ns tag.name tag.attrs tag.hadDup
    pure .done

theorem enterForeign_eq (t : Tag) (ns : Str) :
    enterForeign t ns = efBody (adjustForeignAttributes (if ns == nsMathml then adjustMathmlAttributes t
      else if ns == nsSvg then adjustSvgAttributes t else t)) ns := rfl

theorem adjTag_kindOfNs (t : Tag) (ns : Str) :
    adjustForeignAttributes (if ns == nsMathml then adjustMathmlAttributes t
      else if ns == nsSvg then adjustSvgAttributes t else t) = adjTag (kindOfNs ns) t := by
  unfold kindOfNs adjTag
  by_cases h1 : (ns == nsMathml) = true
  · simp only [h1, if_true]
  · simp only [h1, Bool.false_eq_true, if_false]
    by_cases h2 : (ns == nsSvg) = true
    · simp only [h2, if_true]
    · simp only [h2, Bool.false_eq_true, if_false]

/-- the result `enter_foreign` / `foreign_start_tag` return -/
def efResult (selfClosing : Bool) : ProcessResult := if selfClosing then .doneAckSelfClosing else .done

/-- the tail of `enter_foreign` / `foreign_start_tag`: "insert a foreign element for the token, with `ns`
and false; if the token has its self-closing flag set, pop the current node off the stack of open
elements and acknowledge the token's self-closing flag" -/
theorem pc_efBody {s : State} (hm : MInv s) (ns : Str) (kind : ForeignKind) {t : Tag}
    (hp : PlainTag t) (hnd : (t.attrs.map (·.name.loc)).Nodup) :
    PC (efBody (adjTag kind t) ns) s (fun r s' calls => r = efResult t.selfClosing ∧ ∃ a,
      s'.dom.isElement a = true ∧ nameOf s'.dom a = ⟨ns, t.name⟩ ∧
      Tr s s' calls (fun x x' => ∃ σ1,
        Spec.TreeModes.insertForeign (absF s x) (specTag t) kind ns = .ok (σ1, elemOf s'.dom a) ∧
        σ1.cur = some (elemOf s'.dom a) ∧
        absF s' x' = if t.selfClosing then σ1.pop.ack (specTag t) else σ1)) := by
  unfold efBody
  by_cases hsc : t.selfClosing = true
  · simp only [adjTag_selfClosing, hsc, if_true]
    refine pc_seq (pc_insertElement_foreign hm false ns kind hp hnd) ?_
    rintro a s' calls he ⟨f, ho, hfresh, hel, hnm, htr⟩
    refine pc_pure ⟨by simp [efResult], a, hel, hnm, ?_⟩
    rw [List.append_nil]
    refine htr.reaux (fun _ x' => x'.ack true) (fun _ x' => x'.ack_same _) ?_
    rintro x x' _ _ ⟨σ1, h1, h2, h3⟩
    refine ⟨σ1, h1, h2, ?_⟩
    have := absF_ack s' x' (specTag t)
    rw [specTag_selfClosing, hsc] at this
    rw [this, h3]; rfl
  · have hsc' : t.selfClosing = false := by simpa using hsc
    simp only [adjTag_selfClosing, hsc', Bool.false_eq_true, if_false]
    refine pc_seq (pc_insertElement_foreign hm true ns kind hp hnd) ?_
    rintro a s' calls he ⟨f, ho, hfresh, hel, hnm, htr⟩
    refine pc_pure ⟨by simp [efResult], a, hel, hnm, ?_⟩
    rw [List.append_nil]
    refine htr.conseq ?_
    rintro x x' _ _ ⟨σ1, h1, h2, h3⟩
    exact ⟨σ1, h1, h2, by simpa using h3⟩

/-- `enter_foreign(tag, ns)` (mod.rs:1667) against the tail of `inBodyStartForeignRoot` (after
"reconstruct the active formatting elements") -/
theorem pc_enterForeign {s : State} (hm : MInv s) (ns : Str) {t : Tag}
    (hp : PlainTag t) (hnd : (t.attrs.map (·.name.loc)).Nodup) :
    PC (enterForeign t ns) s (fun r s' calls => r = efResult t.selfClosing ∧
      Tr s s' calls (fun x x' => ∃ r', Spec.TreeModes.insertForeign (absF s x) (specTag t) (kindOfNs ns) ns = .ok r' ∧
        absF s' x' = if (specTag t).selfClosing then r'.1.pop.ack (specTag t) else r'.1)) := by
  rw [enterForeign_eq, adjTag_kindOfNs]
  refine pc_conseq (pc_efBody hm ns (kindOfNs ns) hp hnd) ?_
  rintro r s' calls he ⟨hr, a, hel, hnm, htr⟩
  refine ⟨hr, htr.conseq ?_⟩
  rintro x x' _ _ ⟨σ1, h1, h2, h3⟩
  exact ⟨_, h1, h3⟩

/-! ### `foreign_start_tag` -/

/-- `adjusted_current_node()` (mod.rs:691) answers the standard's adjusted current node; no sink call -/
theorem pc_adjustedCurrentNode {s : State} (hm : MInv s) :
    PC adjustedCurrentNode s (fun cur s' calls => s' = s ∧ calls = [] ∧ s.dom.isElement cur = true ∧
      ∀ x, AuxOk s x → ∃ e, Spec.TreeModes.adjustedCurrentNode (cfgOf s) (absF s x) = some e ∧
        e.name = toName (nameOf s.dom cur)) := by
  have hstack : ∀ x, AuxOk s x → (absF s x).p.stack = absStack s.dom s.openElems := by
    intro x hx
    simp only [absF, absP, hx.live, Bool.false_eq_true, if_false]
  -- the current node
  have hcur : (s.openElems.length = 1 → s.contextElem = none) →
      PC currentNode s (fun cur s' calls => s' = s ∧ calls = [] ∧ s.dom.isElement cur = true ∧
        ∀ x, AuxOk s x → ∃ e, Spec.TreeModes.adjustedCurrentNode (cfgOf s) (absF s x) = some e ∧
          e.name = toName (nameOf s.dom cur)) := by
    intro hctx
    unfold currentNode
    refine pc_getS_bind ?_
    cases hl : s.openElems.getLast? with
    | none => exact pc_panicAt
    | some h =>
      have hmem := List.mem_of_getLast? hl
      refine pc_pure ⟨rfl, rfl, hm.elems h hmem, ?_⟩
      intro x hx
      unfold Spec.TreeModes.adjustedCurrentNode
      rw [hstack x hx]
      obtain ⟨l', hl'⟩ : ∃ l', s.openElems = l' ++ [h] := List.getLast?_eq_some_iff.mp hl
      rw [hl']
      simp only [absStack, List.map_append, List.map_cons, List.map_nil, List.reverse_append, List.reverse_cons,
        List.reverse_nil, List.nil_append, List.cons_append]
      cases hr : (List.map (elemOf s.dom) l').reverse with
      | nil =>
        have hl0 : l' = [] := by simpa using hr
        have hc := hctx (by rw [hl', hl0]; rfl)
        refine ⟨Spec.TreeModes.openElem (absF s x) (elemOf s.dom h), ?_, rfl⟩
        simp [cfgOf, hc, Spec.TreeAlgo.adjustedCurrentNode]
      | cons y ys =>
        refine ⟨Spec.TreeModes.openElem (absF s x) (elemOf s.dom h), ?_, rfl⟩
        simp [Spec.TreeAlgo.adjustedCurrentNode]
  unfold adjustedCurrentNode
  refine pc_getS_bind ?_
  by_cases hlen : (s.openElems.length == 1) = true
  · simp only [hlen, if_true]
    cases hc : s.contextElem with
    | none => exact hcur (fun _ => hc)
    | some c =>
      refine pc_pure ⟨rfl, rfl, hm.ctx c hc, ?_⟩
      intro x hx
      unfold Spec.TreeModes.adjustedCurrentNode
      rw [hstack x hx]
      have h1 : s.openElems.length = 1 := by simpa using hlen
      obtain ⟨h, hh⟩ : ∃ h, s.openElems = [h] := by
        cases hl : s.openElems with
        | nil => rw [hl] at h1; cases h1
        | cons a r =>
          cases r with
          | nil => exact ⟨a, rfl⟩
          | cons b r' => rw [hl] at h1; simp at h1
      refine ⟨{ name := (elemOf s.dom c).name, encodingHtml := (cfgOf s).contextEncodingHtml }, ?_, rfl⟩
      simp [hh, absStack, cfgOf, hc, Spec.TreeAlgo.adjustedCurrentNode]
  · simp only [hlen, Bool.false_eq_true, if_false]
    exact hcur (fun h => absurd (by simpa using h) hlen)

/-- the SVG tag-name adjustment of `foreign_start_tag` -/
def svgName (ns : Str) (t : Tag) : Tag := if ns == nsSvg then { t with name := adjustSvgTagName t.name } else t

theorem foreignStartTag_eq (t : Tag) : foreignStartTag t = (do
    let cur ← adjustedCurrentNode
    let n ← elemName cur
    efBody (adjustForeignAttributes (if n.ns == nsMathml then adjustMathmlAttributes t
      else if n.ns == nsSvg then adjustSvgAttributes { t with name := adjustSvgTagName t.name } else t)) n.ns) := rfl

theorem adjTag_svgName (t : Tag) (ns : Str) :
    adjustForeignAttributes (if ns == nsMathml then adjustMathmlAttributes t
      else if ns == nsSvg then adjustSvgAttributes { t with name := adjustSvgTagName t.name } else t)
      = adjTag (kindOfNs ns) (svgName ns t) := by
  unfold kindOfNs adjTag svgName
  by_cases h1 : (ns == nsMathml) = true
  · have h2 : (ns == nsSvg) = false := by
      rw [beq_iff_eq] at h1; rw [h1]; decide
    simp only [h1, h2, if_true, Bool.false_eq_true, if_false]
  · simp only [h1, Bool.false_eq_true, if_false]
    by_cases h2 : (ns == nsSvg) = true
    · simp only [h2, if_true]
    · simp only [h2, Bool.false_eq_true, if_false]

theorem specTag_svgName (t : Tag) (ns : Str) :
    specTag (svgName ns t) = (if ns == Spec.TreeAlgo.nsSvg
      then { specTag t with name := Spec.TreeAlgo.adjustSvgTagName (specTag t).name } else specTag t) := by
  unfold svgName
  by_cases h2 : (ns == nsSvg) = true
  · have h2' : (ns == Spec.TreeAlgo.nsSvg) = true := h2
    simp only [h2, h2', if_true, specTag, H5V.Lemmas.HtmlTBSpec.adjustSvgTagName_eq]
  · have h2' : ¬ (ns == Spec.TreeAlgo.nsSvg) = true := h2
    simp only [h2, h2', Bool.false_eq_true, if_false]

/-- the specification's SVG tag-name adjustment -/
def specSvgName (ns : Str) (t : STag) : STag :=
  if ns == Spec.TreeAlgo.nsSvg then { t with name := Spec.TreeAlgo.adjustSvgTagName t.name } else t

theorem specTag_svgName' (t : Tag) (ns : Str) : specTag (svgName ns t) = specSvgName ns (specTag t) :=
  specTag_svgName t ns

theorem kindOfNs_spec (ns : Str) :
    (if ns == Spec.TreeAlgo.nsMathml then ForeignKind.mathml else if ns == Spec.TreeAlgo.nsSvg then .svg else .other)
      = kindOfNs ns := rfl

/-- the state `foreignAnyOtherStartTag` ends in, given the result of `insertForeign` -/
def foreignStartFinal (t t' : STag) (σ1 : SState) (el : Elem Id) : SState :=
  if t.selfClosing then
    (if t'.is "script" && el.name.ns == Spec.TreeAlgo.nsSvg
     then { σ1.pop.ack t with out := { (σ1.pop.ack t).out with svgScript := some el.id } }
     else σ1.pop.ack t)
  else σ1

theorem foreignAnyOtherStartTag_unfold (cfg : Config Id) (σ : SState) (t : STag) :
    Spec.TreeModes.foreignAnyOtherStartTag cfg σ t = (do
      let acn ← Spec.TreeModes.req (Spec.TreeModes.adjustedCurrentNode cfg σ) "foreign content: no adjusted current node"
      let r ← Spec.TreeModes.insertForeign σ (specSvgName acn.name.ns t) (kindOfNs acn.name.ns) acn.name.ns
      if t.selfClosing then
        if (specSvgName acn.name.ns t).is "script" && r.2.name.ns == Spec.TreeAlgo.nsSvg
        then Spec.TreeModes.foreignEndSvgScript (r.1.ack t)
        else pure (.done (r.1.pop.ack t))
      else pure (.done r.1)) := rfl

theorem foreignAnyOtherStartTag_eq (cfg : Config Id) (σ : SState) (t : STag) (e : Spec.TreeAlgo.OpenElem)
    (σ1 : SState) (el : Elem Id) (hacn : Spec.TreeModes.adjustedCurrentNode cfg σ = some e)
    (hins : Spec.TreeModes.insertForeign σ (specSvgName e.name.ns t) (kindOfNs e.name.ns) e.name.ns = .ok (σ1, el))
    (hcur : σ1.cur = some el) :
    Spec.TreeModes.foreignAnyOtherStartTag cfg σ t
      = .ok (.done (foreignStartFinal t (specSvgName e.name.ns t) σ1 el)) := by
  rw [foreignAnyOtherStartTag_unfold]
  simp only [hacn, Spec.TreeModes.req, bind, Except.bind, pure, Except.pure, hins]
  unfold foreignStartFinal
  generalize specSvgName e.name.ns t = t'
  cases hsc : t.selfClosing with
  | false => simp only [Bool.false_eq_true, if_false]
  | true =>
    simp only [if_true]
    by_cases hscript : (t'.is "script" && el.name.ns == Spec.TreeAlgo.nsSvg) = true
    · simp only [hscript, if_true]
      have hc : (σ1.ack t).cur = some el := by
        unfold Spec.TreeModes.State.ack; rw [hsc]; exact hcur
      simp only [Spec.TreeModes.foreignEndSvgScript, hc, Spec.TreeModes.req, bind, Except.bind, pure, Except.pure]
      unfold Spec.TreeModes.State.ack; rw [hsc]; rfl
    · simp only [hscript, Bool.false_eq_true, if_false]

theorem ack_congr (σ : SState) (t1 t2 : STag) (h : t1.selfClosing = t2.selfClosing) :
    σ.ack t1 = σ.ack t2 := by
  unfold Spec.TreeModes.State.ack; rw [h]

theorem svgName_selfClosing (ns : Str) (t : Tag) : (svgName ns t).selfClosing = t.selfClosing := by
  unfold svgName; split <;> rfl

theorem svgName_attrs (ns : Str) (t : Tag) : (svgName ns t).attrs = t.attrs := by
  unfold svgName; split <;> rfl

/-- `foreign_start_tag(tag)` (mod.rs:1839) is the "any other start tag" clause of the rules for parsing
tokens in foreign content (`foreignAnyOtherStartTag`); html5ever does not process SVG scripts
(`Out.svgScript` is not compared) -/
theorem pc_foreignStartTag {s : State} (hm : MInv s) {t : Tag} (hp : PlainTag t)
    (hnd : (t.attrs.map (·.name.loc)).Nodup) (tok : Token) :
    PC (foreignStartTag t) s
      (TokPost (fun σ => Spec.TreeModes.foreignAnyOtherStartTag (cfgOf s) σ (specTag t)) s tok) := by
  rw [foreignStartTag_eq]
  refine pc_seq (pc_adjustedCurrentNode hm) ?_
  rintro cur s0 c0 he0 ⟨hs0, hc0, hcel, hacn⟩
  subst hc0
  rw [hs0]
  refine pc_query_bind (PC.of_tot (tot_elemName' s cur)) ?_
  intro s1 c1 he1 hs1 hc1
  rw [adjTag_svgName]
  have htr1 := Tr.of_same hm hs1 he1 (by rw [← edits2_edits, hc1]; rfl)
  have hp' : PlainTag (svgName (nameOf s.dom cur).ns t) := by
    unfold PlainTag; rw [svgName_attrs]; exact hp
  have hnd' : ((svgName (nameOf s.dom cur).ns t).attrs.map (·.name.loc)).Nodup := by
    rw [svgName_attrs]; exact hnd
  refine pc_conseq (pc_efBody htr1.1 (nameOf s.dom cur).ns (kindOfNs (nameOf s.dom cur).ns) hp' hnd') ?_
  rintro r s' c2 he2 ⟨hr, a, hel, hnm, htr2⟩
  have htr := htr1.trans htr2
  have hres : ResTok tok r := by
    rw [hr]; unfold efResult; split <;> trivial
  refine tokPost_of_tr (by rw [List.nil_append]; exact htr) hres ?_
  rintro x x'' hx hx'' ⟨x1, ⟨e1, r1⟩, σ1, h1, h2, h3⟩
  subst e1
  obtain ⟨e, hacn1, hen⟩ := hacn x1 hx
  have hns : e.name.ns = (nameOf s.dom cur).ns := by rw [hen]; rfl
  have hfin := foreignAnyOtherStartTag_eq (cfgOf s) (absF s x1) (specTag t) e σ1 (elemOf s'.dom a) hacn1
    (by rw [hns, ← specTag_svgName', r1]; exact h1) h2
  rw [hfin, hns, ← specTag_svgName']
  rw [svgName_selfClosing] at hr h3
  unfold foreignStartFinal
  rw [specTag_selfClosing]
  cases hsc : t.selfClosing with
  | false =>
    rw [hsc] at hr h3
    simp only [Bool.false_eq_true, if_false] at h3 ⊢
    subst hr
    refine ⟨x'', ?_, AuxSame.rfl', Or.inl rfl, ?_⟩
    · show Except.ok (Step.done σ1) = Except.ok (Step.done (absF s' x''))
      rw [h3]
    · exact ⟨rfl, rfl⟩
  | true =>
    rw [hsc] at hr h3
    simp only [if_true] at h3 ⊢
    have hack : σ1.pop.ack (specTag (svgName (nameOf s.dom cur).ns t)) = σ1.pop.ack (specTag t) :=
      ack_congr _ _ _ (by simp only [specTag_selfClosing, svgName_selfClosing])
    rw [hack] at h3
    by_cases hscript : ((specTag (svgName (nameOf s.dom cur).ns t)).is "script" &&
        (elemOf s'.dom a).name.ns == Spec.TreeAlgo.nsSvg) = true
    · simp only [hscript, if_true]
      subst hr
      refine ⟨{ x'' with out := { x''.out with svgScript := some a } }, ?_, ⟨rfl, rfl, rfl, rfl, rfl⟩, Or.inl rfl, ?_⟩
      · rw [← h3]; rfl
      · exact ⟨rfl, rfl⟩
    · simp only [hscript, Bool.false_eq_true, if_false]
      subst hr
      refine ⟨x'', ?_, AuxSame.rfl', Or.inl rfl, ?_⟩
      · show Except.ok (Step.done (σ1.pop.ack (specTag t))) = Except.ok (Step.done (absF s' x''))
        rw [h3]
      · exact ⟨rfl, rfl⟩

/-! ### the `script` start tag of "in head" -/

/-- the `script` start-tag arm of `step` in "in head" (rules.rs:241) -/
def scriptStart (tag : Tag) : M ProcessResult := do
  let elem ← createElementWithFlags (htmlQual "script".toList) tag.attrs tag.hadDup
  if ← isFragment then sinkUnit (.markScriptAlreadyStarted elem)
  insertAppropriately (.node elem) none
  push elem
  toRawTextMode .scriptData

/-- `scriptStart` after the creation of the element -/
def scriptRest (a : Id) : M ProcessResult := do
  insertAppropriately (.node a) none
  push a
  toRawTextMode .scriptData

theorem script_not_form {name : Str} (hn : name = "script".toList) (b c d : Bool) :
    Spec.TreeAlgo2.associatesWithForm ⟨Spec.TreeAlgo.nsHtml, name⟩ b c d = false := by
  subst hn
  have : Spec.TreeAlgo.inHtml Spec.TreeAlgo2.formAssociatedElements ⟨Spec.TreeAlgo.nsHtml, "script".toList⟩ = false := by
    decide
  unfold Spec.TreeAlgo2.associatesWithForm
  rw [this]; rfl

theorem pc_scriptRest {s : State} (hm : MInv s) {t : Tag} (hp : PlainTag t) (hn : t.name = "script".toList)
    (tok : Token) (a : Id) (s2 : State) (cpre : List Call) (he2 : Ext2 s cpre s2) (hs2 : SameTB s s2)
    (hpre : edits2 cpre = [createCall nsHtml t a]) (hfresh : s.dom.size ≤ a) (hel2 : s2.dom.isElement a = true)
    (hnm2 : nameOf s2.dom a = ⟨nsHtml, t.name⟩) :
    PC (scriptRest a) s2 (fun b s' c =>
      TokPost (fun σ => Step.done <$> Spec.TreeModes.genericTextElement σ (specTag t) .scriptData) s tok b s' (cpre ++ c)) := by
  unfold scriptRest
  by_cases hne : s.openElems = []
  · exact pc_bind_false (pc_insertAppropriately_nil (by rw [hs2.openElems]; exact hne) _)
  have hok := hm.elems
  obtain ⟨h0, hh0, hnt, hsp⟩ := hm.headOk hne
  obtain ⟨place, hplace, hpn⟩ := appropriatePlace_some (absStack s.dom s.openElems) s.fosterParenting none
    (elemOf s.dom h0) (by rw [absStack_head?, hh0]; rfl) hnt
  have hx2 := he2.ext
  have hplace2 : Spec.TreeAlgo2.appropriatePlace (absStack s2.dom s2.openElems) s2.fosterParenting
      ((none : Option Id).map (elemOf s2.dom)) = some place := by
    rw [hs2.openElems, hs2.fosterParenting, absStack_ext hok hx2]; exact hplace
  refine pc_seq (PC.of_tot (tot_insertAppropriately s2 (.node a) none (by rw [hs2.openElems]; exact ElemsOk.ext hok hx2)
    (by simp) place hplace2)) ?_
  rintro _ s3 c3 he3 ⟨hs3, hc3⟩
  refine pc_seq (PC.of_tot (tot_push s3 a)) ?_
  rintro _ s4 c4 he4 ⟨hs4, hc4⟩
  subst hc4
  have hS3 : SameTB s s3 := hs2.trans hs3
  have he : Ext2 s (cpre ++ (c3 ++ [])) s4 := he2.trans (he3.trans he4)
  have hx := he.ext
  have hd4 : s4.dom = s3.dom := by rw [hs4]
  have f : SameButOpen s s4 := by
    have f3 := SameButOpen.of_same hS3
    have f4 : SameButOpen s3 s4 := by constructor <;> rw [hs4]
    constructor
    · rw [f4.opts, f3.opts]
    · rw [f4.mode, f3.mode]
    · rw [f4.origMode, f3.origMode]
    · rw [f4.templateModes, f3.templateModes]
    · rw [f4.pendingTableText, f3.pendingTableText]
    · rw [f4.quirksMode, f3.quirksMode]
    · rw [f4.docHandle, f3.docHandle]
    · rw [f4.activeFormatting, f3.activeFormatting]
    · rw [f4.headElem, f3.headElem]
    · rw [f4.formElem, f3.formElem]
    · rw [f4.framesetOk, f3.framesetOk]
    · rw [f4.ignoreLf, f3.ignoreLf]
    · rw [f4.fosterParenting, f3.fosterParenting]
    · rw [f4.contextElem, f3.contextElem]
  have ho : s4.openElems = s.openElems ++ [a] := by rw [hs4, ← hS3.openElems]
  have hel : s4.dom.isElement a = true := by rw [hd4]; exact isElement_ext he3.ext hel2
  have hnm : nameOf s4.dom a = ⟨nsHtml, t.name⟩ := by
    rw [hd4, nameOf_ext he3.ext hel2]; exact hnm2
  have hm4 : MInv s4 := hm.pushed f hx ho hfresh hel (fun h => absurd h hne) (ip_of_html hnm)
  have hpel : ∀ y ∈ placeNodes place, s.dom.isElement y = true := by
    intro y hy
    rcases hpn y hy with h | ⟨t, ht, _⟩
    · obtain ⟨e, he', rfl⟩ := List.mem_map.mp h
      obtain ⟨z, hz, rfl⟩ := List.mem_map.mp he'
      exact hok z hz
    · cases ht
  have htr : Tr s s4 (cpre ++ (c3 ++ [])) (fun x x' => x' = x.step [a].length
      [Edit.create a nsHtml t, Edit.insert place a] [] ∧ ∃ rest, x.supply = [a] ++ rest) := by
    refine Tr.of_flat hm4 (cfgOf_sameButOpen hm f hx) he [a] _ [] (FreshIds.of_size (by intro n hn; simp only [List.mem_singleton] at hn; subst hn; exact hfresh)) ?_
      (annot_push hx hm ho (by rw [hnm]; exact html_ne_annot _)) (by simp)
    intro tc htc
    rw [edits2_append, hpre, List.append_nil, ← edits2_edits, hc3]
    have e1 : ipOf (tcOf s2.dom) place = ipOf tc place := by
      rw [ipOf_congr (tcOk_of_ext htc hx) hpel, ipOf_congr (d := s.dom) (tc := tcOf s2.dom) ?_ hpel]
      intro y hy; exact (tcOf_ext hx2 hy).symm ▸ rfl
    rw [e1]
    simp only [edits2, List.filter_cons, isEdit2_insertOp, if_true, List.filter_nil, List.map_cons, List.map_nil,
      editCall, List.singleton_append]
  refine pc_conseq (pc_toRawTextMode hm4 .scriptData) ?_
  rintro r s5 c5 he5 ⟨hr, hs5, htr5⟩
  subst hr
  have htr' := htr.trans htr5
  rw [show cpre ++ (c3 ++ ([] ++ c5)) = cpre ++ (c3 ++ []) ++ c5 by simp]
  refine tokPost_toRawData htr' ?_
  rintro x x'' hxa _ ⟨x1, ⟨e1, rest, hsup⟩, r2⟩
  subst e1
  have hsup' : x.supply = a :: rest := hsup
  have e1 : elemOf s4.dom a = ⟨a, ⟨nsHtml, t.name⟩⟩ := by unfold elemOf; rw [hnm]; rfl
  have hins : Spec.TreeModes.insertHtml' (absF s x) (specTag t)
      = .ok (absF s4 (x.step [a].length [Edit.create a nsHtml t, Edit.insert place a] [])) := by
    rw [absF_sameButOpen hm f hx, absP_sameButOpen f, ho, absStack_snoc, absStack_ext hm.elems hx, e1]
    unfold Spec.TreeModes.insertHtml' Spec.TreeModes.insertHtml Spec.TreeAlgo2.insertHtmlElement
      Spec.TreeAlgo2.insertForeignElement
    rw [specTag_etok hp]
    have hnf := script_not_form (name := Spec.TreeModes.cx.tokName (etokOf t)) hn
    cases hfe : s.formElem <;>
    · simp only [absF_p, absP, hxa.live, Bool.false_eq_true, if_false, hplace, Option.bind_some, PState.newNode, hsup',
        Option.map_some, Spec.TreeModes.req, hnf, hfe]
      simp [absF, absP, Aux.step, hxa.live, hsup', Edit.mapTok, bind, Except.bind, pure, Except.pure, hfe]
      exact ⟨⟨rfl, rfl⟩, rfl⟩
  simp only [Spec.TreeModes.genericTextElement, hins, r2]
  rfl

/-- the `script` start tag of "in head" (rules.rs:241: create the element, `mark_script_already_started`
in the fragment case — not compared —, insert it at the appropriate place, push it, `to_raw_text_mode`)
is the standard's clause (steps 1, 2, 6–10 = `genericTextElement … scriptData`) -/
theorem pc_scriptStart {s : State} (hm : MInv s) {t : Tag} (hp : PlainTag t) (hn : t.name = "script".toList)
    (tok : Token) :
    PC (scriptStart t) s
      (TokPost (fun σ => Step.done <$> Spec.TreeModes.genericTextElement σ (specTag t) .scriptData) s tok) := by
  unfold scriptStart
  have eq : htmlQual "script".toList = { pfx := none, ns := nsHtml, loc := t.name } := by rw [hn]; rfl
  rw [eq]
  refine pc_seq (PC.of_tot (tot_createElementWithFlags s nsHtml t)) ?_
  rintro a s1 c1 he1 ⟨hs1, hc1, hfresh, hel1, hnm1⟩
  subst hc1
  unfold isFragment
  refine pc_getS_bind ?_
  by_cases hfrag : s1.contextElem.isSome = true
  · simp only [hfrag, if_true]
    refine pc_seq (PC.of_tot (tot_sinkUnit_unit' s1 trivial (fun d d' out h => by
      unfold Dom.apply Dom.applyV at h; cases h; rfl))) ?_
    rintro _ s2 c2 he2 ⟨hs2, hc2⟩
    subst hc2
    have := pc_scriptRest hm hp hn tok a s2 _ (he1.trans he2) (hs1.trans hs2) rfl hfresh
      (isElement_ext he2.ext hel1) (by rw [nameOf_ext he2.ext hel1]; exact hnm1)
    refine pc_conseq this ?_
    intro b s' c _ h
    rw [← List.append_assoc]; exact h
  · simp only [hfrag, Bool.false_eq_true, if_false]
    exact pc_scriptRest hm hp hn tok a s1 _ he1 hs1 rfl hfresh hel1 hnm1

/-- the `script` start-tag arm of `stepInHead` is `scriptStart` -/
theorem stepInHead_script (t : Tag) (hk : t.kind = .startTag) (hn : t.name = "script".toList) :
    stepInHead (.tag t) = scriptStart t := by
  simp +decide only [stepInHead, Tag.isStart, Tag.isEnd, hk, hn, isOneOf_cons, isOneOf_nil, Bool.or_false, if_true,
    if_false]
  rfl

end H5V.Lemmas.HtmlTBModes
