import H5V.Lemmas.HtmlTBSkelShapeRun
/-!
C06, second invariant layer, part 14: the rules of InBody.
-/
namespace H5V.Props.C06
open H5V.Model.Dom hiding Str
open H5V.Model.HtmlTB hiding Str
open H5V.Lemmas.Dom

/-! ### small steps -/

theorem Big.formOk {m : Mode} {r : Id} {ph : Phase} {s : State} (h : Big m r ph s) :
    ∀ f, s.formElem = some f → nm s.dom f = hN "form" ∧ s.dom.isElement f = true := by
  obtain ⟨_, hc, _⟩ := h; exact hc.form

instance (t : Id) (attrs : List Attr) : PB (sinkUnit (.addAttrsIfMissing t attrs)) :=
  ⟨fun m r ph s a s' hb e => by
    obtain ⟨out, e⟩ := sinkUnit_ok.mp e
    obtain ⟨d, hd, rfl⟩ := sink_ok.mp e
    have hl := hb.late
    have hd' : s.dom.addAttrsIfMissing t attrs = .ok d := by
      have h' : s.dom.applyV Dom.cloneVariant Dom.beforeSiblingVariant (.addAttrsIfMissing t attrs) = .ok (d, out) := hd
      simp only [Dom.applyV, bind, Except.bind] at h'
      cases ha : s.dom.addAttrsIfMissing t attrs with
      | error e => simp [ha] at h'
      | ok d1 => simp [ha] at h'; rw [h'.1]
    obtain ⟨hb', hc', hk⟩ := addAttrsIfMissing_spec hl.base hd'
    exact ⟨hb.dom (hl.dom hb' hc' (hk 0)).1 rfl hc' (rs_addAttrs hl.base hd') (hk 0) (addAttrs_adj hb.adj hd'), rfl, rfl⟩⟩

instance : PB (modS fun s => { s with ignoreLf := true }) :=
  ⟨fun m r ph s a s' hb e => by
    rw [modS_ok.mp e]
    exact ⟨hb.upd rfl rfl rfl rfl rfl rfl rfl rfl rfl hb.afok hb.formOk (fun h => h), rfl, rfl⟩⟩

/-- names from the tag tests -/
theorem name_of_isStart {tag : Tag} {l : List String} (h : tag.isStart l = true) :
    ∃ a ∈ l, tag.name = a.toList ∧ tag.kind = .startTag := by
  unfold Tag.isStart isOneOf at h
  simp only [Bool.and_eq_true, beq_iff_eq, List.any_eq_true] at h
  obtain ⟨hk, a, ha, hn⟩ := h
  exact ⟨a, ha, hn.symm, hk⟩

theorem name_of_isEnd {tag : Tag} {l : List String} (h : tag.isEnd l = true) :
    ∃ a ∈ l, tag.name = a.toList ∧ tag.kind = .endTag := by
  unfold Tag.isEnd isOneOf at h
  simp only [Bool.and_eq_true, beq_iff_eq, List.any_eq_true] at h
  obtain ⟨hk, a, ha, hn⟩ := h
  exact ⟨a, ha, hn.symm, hk⟩

theorem plain_of_isStart {tag : Tag} {l : List String} (h : tag.isStart l = true)
    (hl : ∀ a ∈ l, keepName (hN a) = false) : PlainStr tag.name := by
  obtain ⟨a, ha, hn, _⟩ := name_of_isStart h
  exact ⟨by rw [hn]; exact hl a ha⟩

theorem plain_of_isEnd {tag : Tag} {l : List String} (h : tag.isEnd l = true)
    (hl : ∀ a ∈ l, keepName (hN a) = false) : PlainStr tag.name := by
  obtain ⟨a, ha, hn, _⟩ := name_of_isEnd h
  exact ⟨by rw [hn]; exact hl a ha⟩

theorem fmt_of_isStart {tag : Tag} {l : List String} (h : tag.isStart l = true)
    (hl : ∀ a ∈ l, isOneOf a.toList fmtNames = true) : FmtTag tag := by
  obtain ⟨a, ha, hn, _⟩ := name_of_isStart h
  exact ⟨by rw [hn]; exact hl a ha⟩

theorem notCursory_of_isEnd {tag : Tag} {l : List String} (h : tag.isEnd l = true)
    (hl : ∀ a ∈ l, cursoryImpliedEnd (hN a) = false) : NotCursory tag.name := by
  obtain ⟨a, ha, hn, _⟩ := name_of_isEnd h
  exact ⟨by rw [hn]; exact hl a ha⟩


/-! ### the answer is not a `Reprocess` -/

class NR (prog : M ProcessResult) : Prop where
  h : ∀ s res s', prog s = .ok (res, s') → NoRe res

instance {α : Type} (m : M α) (f : α → M ProcessResult) [h : ∀ a, NR (f a)] : NR (m >>= f) :=
  ⟨fun s res s'' e => by obtain ⟨a, s', _, e2⟩ := bind_ok.mp e; exact (h a).h _ _ _ e2⟩
instance (c : Prop) [Decidable c] (a b : M ProcessResult) [h1 : NR a] [h2 : NR b] : NR (if c then a else b) := by
  by_cases hc : c
  · simp only [hc, if_true]; exact h1
  · simp only [hc, if_false]; exact h2
instance : NR (pure .done : M ProcessResult) := ⟨fun s res s' e => by rw [← (pure_ok.mp e).1]; exact noRe_done⟩
instance : NR (pure .doneAckSelfClosing : M ProcessResult) :=
  ⟨fun s res s' e => by rw [← (pure_ok.mp e).1]; exact ⟨(by intro m t h; cases h), (by intro t h; cases h)⟩⟩
instance : NR (pure .toPlaintext : M ProcessResult) :=
  ⟨fun s res s' e => by rw [← (pure_ok.mp e).1]; exact ⟨(by intro m t h; cases h), (by intro t h; cases h)⟩⟩
instance (e : String) : NR (throw e : M ProcessResult) := ⟨fun _ _ _ h => absurd h throw_ok⟩
instance (c f t : String) : NR (panicAt c f t : M ProcessResult) := ⟨fun _ _ _ h => absurd h panicAt_ok⟩
instance : NR unexpected := ⟨fun s res s' e => by rw [(qs_unexpected e).2]; exact noRe_done⟩

theorem RB.of_pb_nr {prog : M ProcessResult} (h : PB prog) [hn : NR prog] : RB prog := RB.of_pb h hn.h

/-- popping the current node when it is known to be disposable -/
instance {β : Type} (sc P : EName → Bool) [ScBase sc] [PlainP P] (f : Id → M β) [h2 : ∀ a, PB (f a)] :
    PBsc sc P (pop >>= f) :=
  ⟨fun md r ph s b s'' hb hi e => by
    obtain ⟨a, s', e1, e2⟩ := bind_ok.mp e
    have p := pop_sem e1
    obtain ⟨below, x, above, h1, h2', h3⟩ := hi
    have hab : ∀ y ∈ above, htmlIn (nm s.dom y) ["html", "table", "template"] = false := by
      intro y hy
      cases hh : htmlIn (nm s.dom y) ["html", "table", "template"] with
      | false => rfl
      | true => have := ScBase.h (sc := sc) _ hh; rw [(h3 y hy).2] at this; cases this
    have hb' : Big md r ph s' := by
      refine hb.pop_above h1 (PlainP.h _ h2') hab p ?_
      intro y hy
      simp only [List.mem_singleton] at hy
      subst hy
      -- the popped element is the top of the stack
      have hst := p.stack
      rw [h1] at hst
      rcases nil_or_concat above with rfl | ⟨a0, z, rfl⟩
      · have : below ++ [x] = s'.openElems ++ [y] := by rw [← hst]
        obtain ⟨_, hz⟩ := List.append_inj' this rfl
        simp at hz; exact Or.inl hz.symm
      · have : (below ++ x :: a0) ++ [z] = s'.openElems ++ [y] := by rw [← hst]; simp
        obtain ⟨_, hz⟩ := List.append_inj' this rfl
        simp at hz; subst hz
        exact Or.inr (by simp)
    obtain ⟨b2, m2, o2⟩ := (h2 a).p md r ph s' b s'' hb' e2
    exact ⟨b2, m2.trans (by rw [p.rest]), o2.trans (by rw [p.rest])⟩⟩

/-- entry: a test of the current node -/
theorem PB.guardTop {β : Type} {sc P : EName → Bool} {A B : M β} (ht : PBsc sc P A) (hf : PB B) :
    PB (currentNodeIn P >>= fun b => if b = true then A else B) :=
  ⟨fun md r ph s b s'' hb e => by
    obtain ⟨a, s', e1, e2⟩ := bind_ok.mp e
    obtain ⟨q, t, hl, ha⟩ := currentNodeIn_sem e1
    have hmo : s'.mode = s.mode ∧ s'.origMode = s.origMode := ⟨q.mode, by rw [q.rest]⟩
    cases a with
    | false =>
      simp only [Bool.false_eq_true, if_false] at e2
      obtain ⟨b2, m2, o2⟩ := hf.p md r ph s' b s'' (hb.qs q) e2
      exact ⟨b2, m2.trans hmo.1, o2.trans hmo.2⟩
    | true =>
      simp only [if_true] at e2
      have hi : InScP sc P s := by
        rcases nil_or_concat s.openElems with h0 | ⟨l0, z, h0⟩
        · rw [h0] at hl; cases hl
        · rw [h0, List.getLast?_append] at hl
          simp at hl; subst hl
          exact ⟨l0, z, [], by rw [h0], ha.symm, fun y hy => by cases hy⟩
      obtain ⟨b2, m2, o2⟩ := ht.p md r ph s' b s'' (hb.qs q) (hi.qs q) e2
      exact ⟨b2, m2.trans hmo.1, o2.trans hmo.2⟩⟩

theorem PB.guardTopN {β : Type} {sc : EName → Bool} {X : String} {A B : M β} (ht : PBsc sc (namedP X.toList) A)
    (hf : PB B) : PB (currentNodeNamed X >>= fun b => if b = true then A else B) :=
  ⟨fun md r ph s b s'' hb e => by
    obtain ⟨a, s', e1, e2⟩ := bind_ok.mp e
    obtain ⟨q, t, hl, ha⟩ := currentNodeNamed_sem e1
    have hmo : s'.mode = s.mode ∧ s'.origMode = s.origMode := ⟨q.mode, by rw [q.rest]⟩
    cases a with
    | false =>
      simp only [Bool.false_eq_true, if_false] at e2
      obtain ⟨b2, m2, o2⟩ := hf.p md r ph s' b s'' (hb.qs q) e2
      exact ⟨b2, m2.trans hmo.1, o2.trans hmo.2⟩
    | true =>
      simp only [if_true] at e2
      have hi : InScP sc (namedP X.toList) s := by
        rcases nil_or_concat s.openElems with h0 | ⟨l0, z, h0⟩
        · rw [h0] at hl; cases hl
        · rw [h0, List.getLast?_append] at hl
          simp at hl; subst hl
          exact ⟨l0, z, [], by rw [h0], ha.symm, fun y hy => by cases hy⟩
      obtain ⟨b2, m2, o2⟩ := ht.p md r ph s' b s'' (hb.qs q) (hi.qs q) e2
      exact ⟨b2, m2.trans hmo.1, o2.trans hmo.2⟩⟩


/-! ### leaf rules -/

set_option synthInstance.maxSize 4096

instance (tag : Tag) : RB (inBodyHtml tag) := by unfold inBodyHtml; rb_walk
instance (tag : Tag) [PlainStr tag.name] : RB (inBodyVoid tag) := by unfold inBodyVoid; rb_walk

class ForeignNs (ns : Str) : Prop where
  h : (ns == nsHtml) = false
instance : ForeignNs nsMathml := ⟨by decide⟩
instance : ForeignNs nsSvg := ⟨by decide⟩

instance (pushIt : Bool) (ns name : Str) (attrs : List Attr) (dup : Bool) [hf : ForeignNs ns] :
    PB (insertElement pushIt ns name attrs dup) :=
  ⟨fun m r ph s a s' hb e => by
    obtain ⟨h1, h2, h3, _⟩ := insertElement_big hb (keepName_foreign hf.h) e
    exact ⟨h1, h2, h3⟩⟩

instance (tag : Tag) (ns : Str) [ForeignNs ns] : RB (enterForeign tag ns) := by
  unfold enterForeign
  dsimp only
  rb_walk

/-- changing the mode fields -/
theorem Core.modes {s : State} {r : Id} {up : List Id} {ph : Phase} (h : Core s r up ph) {m' : Mode} {om' : Option Mode}
    (hm : isLate m' = true) (ho : ∀ o, om' = some o → isLate o = true) :
    Core { s with mode := m', origMode := om' } r up ph :=
  ⟨⟨h.late.base, h.late.pat, ⟨h.late.st.doc, h.late.st.ctx, h.late.st.oe, h.late.st.tail, h.late.st.head,
      h.late.st.ptt⟩, ⟨hm, ho, h.late.ml.tm⟩⟩,
    h.stack, h.rdoc, h.nodup, h.tg, h.afn, h.tc, h.tmm, h.form, h.rtu, h.rnd, h.kids, h.elems, h.bh, h.afx, h.adj⟩

theorem isLate_of_bl {m : Mode} (h : isBL m = true) : isLate m = true := by
  rcases isBL_cases h with rfl | rfl | rfl | rfl | rfl | rfl | rfl | rfl <;> rfl

/-- the stack below a disposable top element fits the mode too -/
theorem Big.fits_below {m : Mode} {r : Id} {ph : Phase} {s : State} {l : List Id} {x : Id} (h : Big m r ph s)
    (hbl : isBL m = true) (hst : s.openElems = l ++ [x]) (hx : keepName (nm s.dom x) = false) :
    ∃ up0, l = r :: up0 ∧ Fits s.dom s.headElem m up0 ph := by
  have hp : PR s { s with openElems := l } [x] := ⟨rfl, hst, rfl⟩
  have hb' := h.pop hp (fun y hy => by simp only [List.mem_singleton] at hy; rw [hy]; exact hx)
  obtain ⟨up0, hc0, hbb0, hn0, _⟩ := hb'
  exact ⟨up0, hc0.stack, fits_of_bl hbl hbb0 hn0⟩

/-- `parse_raw_data` for a disposable tag: into the Text mode -/
instance (tag : Tag) (k : H5V.Model.HtmlTok.RawKind) [hk : PlainStr tag.name] : RB (parseRawData tag k) :=
  ⟨fun m r ph s res s' hb hm hbl e => by
    unfold parseRawData at e
    obtain ⟨el, s1, e1, e2⟩ := bind_ok.mp e
    unfold insertElementFor at e1
    obtain ⟨hb1, hm1, ho1, hnm1, hel1, _, hst1, _, _⟩ := insertElement_big hb hk.h e1
    simp only [if_true] at hst1
    unfold toRawTextMode at e2
    obtain ⟨u, s2, e3, e4⟩ := bind_ok.mp e2
    obtain ⟨rfl, rfl⟩ := pure_ok.mp e4
    have hs2 := modS_ok.mp e3
    obtain ⟨up0, hl0, hfit⟩ := hb1.fits_below hbl hst1 (by rw [hnm1]; exact hk.h)
    obtain ⟨up1, hc1, _, _, hfp1⟩ := hb1
    have hup1 : up1 = up0 ++ [el] := by
      have := hc1.stack
      rw [hst1, hl0] at this
      simp only [List.cons_append, List.cons.injEq, true_and] at this
      exact this.symm
    have hmode1 : s1.mode = m := hm1.trans hm
    show Good r s2
    rw [hs2]
    refine ⟨up1, ph, ⟨hc1.modes rfl (by intro o ho; cases ho; rw [hmode1]; exact isLate_of_bl hbl), ?_⟩, ?_⟩
    · show FitsM _ up1 ph
      unfold FitsM
      refine ⟨m, up0, el, by rw [hmode1], hup1, ?_, ?_, hfit, ?_, ?_⟩
      · rintro rfl; cases hbl
      · rintro rfl; cases hbl
      · show htmlIn (nm s1.dom el) _ = false
        rw [hnm1]
        exact not_in_of_keepName_false hk.h (by decide)
      · show (nm s1.dom el).ns = nsHtml
        rw [hnm1]
    · exact fun _ => hfp1⟩


/-! ### scope guards as rules -/

theorem RB.guardPosN {sc : EName → Bool} {X : String} {A B : M ProcessResult}
    (ht : PBsc sc (namedP X.toList) A) (hf : PB B) (hn : NR (inScopeNamed sc X >>= fun b => if b = true then A else B)) :
    RB (inScopeNamed sc X >>= fun b => if b = true then A else B) := RB.of_pb (PB.guardPosN ht hf) hn.h
theorem RB.guardNegN {sc : EName → Bool} {X : String} {A B : M ProcessResult}
    (ht : PB A) (hf : PBsc sc (namedP X.toList) B) (hn : NR (inScopeNamed sc X >>= fun b => if (!b) = true then A else B)) :
    RB (inScopeNamed sc X >>= fun b => if (!b) = true then A else B) := RB.of_pb (PB.guardNegN ht hf) hn.h
theorem RB.guardPosS {sc : EName → Bool} {X : Str} {A B : M ProcessResult}
    (ht : PBsc sc (namedP X) A) (hf : PB B) (hn : NR (inScopeNamedS sc X >>= fun b => if b = true then A else B)) :
    RB (inScopeNamedS sc X >>= fun b => if b = true then A else B) := RB.of_pb (PB.guardPosS ht hf) hn.h
theorem RB.guardNegS {sc : EName → Bool} {X : Str} {A B : M ProcessResult}
    (ht : PB A) (hf : PBsc sc (namedP X) B) (hn : NR (inScopeNamedS sc X >>= fun b => if (!b) = true then A else B)) :
    RB (inScopeNamedS sc X >>= fun b => if (!b) = true then A else B) := RB.of_pb (PB.guardNegS ht hf) hn.h
theorem RB.guardPos {sc P : EName → Bool} {pred : Id → M Bool} [PredSem pred P] {A B : M ProcessResult}
    (ht : PBsc sc P A) (hf : PB B) (hn : NR (inScope sc pred >>= fun b => if b = true then A else B)) :
    RB (inScope sc pred >>= fun b => if b = true then A else B) := RB.of_pb (PB.guardPos ht hf) hn.h
theorem RB.guardTop {P : EName → Bool} {A B : M ProcessResult}
    (ht : PBsc tableScope P A) (hf : PB B) (hn : NR (currentNodeIn P >>= fun b => if b = true then A else B)) :
    RB (currentNodeIn P >>= fun b => if b = true then A else B) := RB.of_pb (PB.guardTop ht hf) hn.h
theorem RB.guardTopN {X : String} {A B : M ProcessResult}
    (ht : PBsc tableScope (namedP X.toList) A) (hf : PB B)
    (hn : NR (currentNodeNamed X >>= fun b => if b = true then A else B)) :
    RB (currentNodeNamed X >>= fun b => if b = true then A else B) := RB.of_pb (PB.guardTopN ht hf) hn.h

macro_rules
  | `(tactic| rb_step) => `(tactic| first
  | (with_reducible apply RB.guardPosN) <;> exact inferInstance
  | (with_reducible apply RB.guardNegN) <;> exact inferInstance
  | (with_reducible apply RB.guardPosS) <;> exact inferInstance
  | (with_reducible apply RB.guardNegS) <;> exact inferInstance
  | (with_reducible apply RB.guardPos) <;> exact inferInstance
  | (with_reducible apply RB.guardTop) <;> exact inferInstance
  | (with_reducible apply RB.guardTopN) <;> exact inferInstance)

macro "rb_arm" : tactic => `(tactic| (refine RB.dite (fun h => ?_) (fun h => ?_); rotate_left))



/-! ### more instances for the walk -/

instance {α : Type} (sc P : EName → Bool) (c : Prop) [Decidable c] (a b : M α) [h1 : PBsc sc P a] [h2 : PBsc sc P b] :
    PBsc sc P (if c then a else b) := PBsc.dite (fun _ => h1) (fun _ => h2)

instance (priority := high) {β : Type} (sc : EName → Bool) (X : String) (A B : M β)
    [ht : PBsc sc (namedP X.toList) A] [hf : PB B] : PB (inScopeNamed sc X >>= fun b => if b = true then A else B) :=
  PB.guardPosN ht hf
instance (priority := high) {β : Type} (sc : EName → Bool) (X : String) (A B : M β)
    [ht : PB A] [hf : PBsc sc (namedP X.toList) B] : PB (inScopeNamed sc X >>= fun b => if (!b) = true then A else B) :=
  PB.guardNegN ht hf
instance (priority := high) {β : Type} (sc : EName → Bool) (X : Str) (A B : M β)
    [ht : PBsc sc (namedP X) A] [hf : PB B] : PB (inScopeNamedS sc X >>= fun b => if b = true then A else B) :=
  PB.guardPosS ht hf
instance (priority := high) {β : Type} (sc : EName → Bool) (X : Str) (A B : M β)
    [ht : PB A] [hf : PBsc sc (namedP X) B] : PB (inScopeNamedS sc X >>= fun b => if (!b) = true then A else B) :=
  PB.guardNegS ht hf
instance (priority := high) {β : Type} (X : String) (A B : M β)
    [ht : PBsc tableScope (namedP X.toList) A] [hf : PB B] :
    PB (currentNodeNamed X >>= fun b => if b = true then A else B) := PB.guardTopN ht hf
instance (priority := high) {β : Type} (P : EName → Bool) (A B : M β)
    [ht : PBsc tableScope P A] [hf : PB B] : PB (currentNodeIn P >>= fun b => if b = true then A else B) :=
  PB.guardTop ht hf

instance : PlainStr "img".toList := ⟨by decide⟩
instance : PlainStr "option".toList := ⟨by decide⟩

macro_rules
  | `(tactic| rb_step) => `(tactic| first
      | exact inferInstance
      | with_reducible apply RB.bindPB
      | with_reducible apply RB.dite
      | intro _
      | (dsimp only)
      | split)

end H5V.Props.C06
