import H5V.Lemmas.HtmlTBContractInsDom
/-!
# TreeSink contract for the HTML tree builder, part 4b: creating and inserting nodes (builder side)

Value-level (`SatC`) specifications of the sink queries, `create_element`, the appropriate place for
insertion, and the composite `insert_element` — the composites are then exported as `CP` leaves.
-/
namespace H5V.Lemmas.TBC
open H5V.Model.HtmlTB
open H5V.Model.Dom (Id QualName Attr NodeOrText SinkOp Output ElementFlags QuirksMode Dom NodeData Node Contract)
open H5V.Lemmas.Dom
open H5V.Props.C20 (Inv Run)
open H5V.Lemmas.TBSafe (IsEl nm sigOf Ext apply_ext tmplName fmtNames nm_ext sigOf_ext IsEl.ext sigOf_lt
  apply_elemName apply_getTemplateContents namedP hasNamed)

variable {d0 : Dom}

/-- the frame of query steps: only the sink changed, the invariant holds again, growth -/
structure Q2 (d0 : Dom) (s s' : State) : Prop where
  cb : CB d0 s'
  g : GrowRel s s'
  same : ∃ d t, s' = { s with dom := d, traceRev := t }

theorem Q2.refl {s : State} (h : CB d0 s) : Q2 d0 s s := ⟨h, GrowRel.refl s, s.dom, s.traceRev, rfl⟩

theorem Q2.trans {a b c : State} (h1 : Q2 d0 a b) (h2 : Q2 d0 b c) : Q2 d0 a c := by
  obtain ⟨d1, t1, e1⟩ := h1.same
  obtain ⟨d2, t2, e2⟩ := h2.same
  exact ⟨h2.cb, h1.g.trans h2.g, d2, t2, by rw [e2, e1]⟩

section fields
variable {s s' : State} (h : Q2 d0 s s')
include h
theorem Q2.openElems : s'.openElems = s.openElems := by obtain ⟨d, t, e⟩ := h.same; rw [e]
theorem Q2.activeFormatting : s'.activeFormatting = s.activeFormatting := by obtain ⟨d, t, e⟩ := h.same; rw [e]
theorem Q2.formElem : s'.formElem = s.formElem := by obtain ⟨d, t, e⟩ := h.same; rw [e]
theorem Q2.fosterParenting : s'.fosterParenting = s.fosterParenting := by obtain ⟨d, t, e⟩ := h.same; rw [e]
theorem Q2.contextElem : s'.contextElem = s.contextElem := by obtain ⟨d, t, e⟩ := h.same; rw [e]
theorem Q2.ext : Ext s.dom s'.dom := h.g.ext
end fields

theorem q2_of_nt {s : State} (hcb : CB d0 s) {op : SinkOp} (hnt : nonTree op = true) {d' : Dom} {out : Output}
    (ha : s.dom.apply op = .ok (d', out)) (hd : DomI d0 { s with dom := d', traceRev := (op, out) :: s.traceRev }) :
    Q2 d0 s { s with dom := d', traceRev := (op, out) :: s.traceRev } :=
  ⟨hcb.of_dom hd (apply_ext ha) (apply_kext ha), GrowRel.of_nonTree hnt ha, d', _, rfl⟩

/-! ### valued sink queries -/

theorem satcv_elemName {h : Id} {s : State} (hcb : CB d0 s) (hi : IsEl s.dom h) :
    SatC (elemName h) s (fun n s' => n = nm s.dom h ∧ Q2 d0 s s') := by
  obtain ⟨x, hx⟩ := hi
  unfold H5V.Model.HtmlTB.elemName
  refine SatC.bind (satc_sink (Q := fun o s' => o = .name x.1.ns x.1.loc ∧ Q2 d0 s s') hcb.d
    (contract_elemName ⟨x, hx⟩) ?_) ?_
  · intro d' out ha hd
    have ha' := ha
    rw [apply_elemName hx] at ha; cases ha
    exact ⟨rfl, q2_of_nt hcb rfl ha' hd⟩
  · rintro o s' ⟨rfl, hq⟩
    exact satc_pure ⟨by simp [nm, hx, TBSafe.enameOfSig], hq⟩

theorem satcv_htmlElemNamed {h : Id} {name : String} {s : State} (hcb : CB d0 s) (hi : IsEl s.dom h) :
    SatC (htmlElemNamed h name) s (fun b s' => b = namedP s.dom name.toList h ∧ Q2 d0 s s') := by
  unfold H5V.Model.HtmlTB.htmlElemNamed H5V.Model.HtmlTB.htmlElemNamedS
  refine (satcv_elemName hcb hi).bind ?_
  rintro n s' ⟨rfl, hq⟩
  exact satc_pure ⟨rfl, hq⟩

theorem satcv_elemIn {h : Id} {set : EName → Bool} {s : State} (hcb : CB d0 s) (hi : IsEl s.dom h) :
    SatC (elemIn h set) s (fun b s' => b = set (nm s.dom h) ∧ Q2 d0 s s') := by
  unfold H5V.Model.HtmlTB.elemIn
  refine (satcv_elemName hcb hi).bind ?_
  rintro n s' ⟨rfl, hq⟩
  exact satc_pure ⟨rfl, hq⟩

theorem templateContentsOf_of_sig {d : Dom} {h : Id} {q : QualName} {tc : Id} {ip : Bool}
    (hx : sigOf d h = some (q, some tc, ip)) : d.templateContentsOf h = some tc := by
  unfold sigOf at hx
  unfold Dom.templateContentsOf
  cases hd : d.dataOf h with
  | none => rw [hd] at hx; cases hx
  | some v =>
    rw [hd] at hx
    cases v <;> simp [TBSafe.sigData] at hx ⊢
    exact hx.2.1

theorem satcv_getTemplateContents {h : Id} {s : State} {q : QualName} {tc : Id} {ip : Bool} (hcb : CB d0 s)
    (hx : sigOf s.dom h = some (q, some tc, ip)) :
    SatC (sinkNode (.getTemplateContents h)) s (fun r s' => r = tc ∧ Q2 d0 s s') := by
  unfold sinkNode
  refine SatC.bind (satc_sink (Q := fun o s' => o = .node tc ∧ Q2 d0 s s') hcb.d ?_ ?_) ?_
  · show (s.dom.templateContentsOf h).isSome = true
    rw [templateContentsOf_of_sig hx]; rfl
  · intro d' out ha hd
    have ha' := ha
    rw [apply_getTemplateContents hx] at ha; cases ha
    exact ⟨rfl, q2_of_nt hcb rfl ha' hd⟩
  · rintro o s' ⟨rfl, hq⟩
    exact satc_pure ⟨rfl, hq⟩

theorem satcv_anyHtmlElemNamed {name : String} : ∀ (l : List Id) (s : State), CB d0 s →
    (∀ x ∈ l, IsEl s.dom x) →
    SatC (anyHtmlElemNamed name l) s (fun b s' => b = hasNamed s.dom l name.toList ∧ Q2 d0 s s') := by
  intro l
  induction l with
  | nil => intro s hcb _; exact satc_pure ⟨rfl, Q2.refl hcb⟩
  | cons e rest ih =>
    intro s hcb hall
    unfold H5V.Model.HtmlTB.anyHtmlElemNamed
    refine (satcv_htmlElemNamed hcb (hall e List.mem_cons_self)).bind ?_
    rintro b s1 ⟨rfl, hq⟩
    by_cases hb : namedP s.dom name.toList e = true
    · rw [if_pos hb]
      refine satc_pure ⟨?_, hq⟩
      unfold hasNamed; simp only [List.any_cons]
      unfold namedP at hb; rw [hb]; rfl
    · rw [if_neg hb]
      have hall1 : ∀ x ∈ rest, IsEl s1.dom x := fun x hx => (hall x (List.mem_cons_of_mem _ hx)).ext hq.ext
      refine (ih s1 hq.cb hall1).mono ?_
      rintro b s2 ⟨rfl, hq2⟩
      refine ⟨?_, hq.trans hq2⟩
      unfold hasNamed
      simp only [List.any_cons]
      have hb' : ((nm s.dom e).ns == nsHtml && (nm s.dom e).loc == name.toList) = false := by
        unfold namedP at hb; simpa using hb
      rw [hb', Bool.false_or]
      clear ih hall1
      induction rest with
      | nil => rfl
      | cons a t iht =>
        simp only [List.any_cons]
        rw [nm_ext hq.ext (hall a (by simp)), iht (fun x hx => hall x (by
          rcases List.mem_cons.mp hx with h | h
          · exact h ▸ List.mem_cons_self
          · exact List.mem_cons_of_mem _ (List.mem_cons_of_mem _ h)))]

theorem satcv_inHtmlElemNamed {name : String} {s : State} (hcb : CB d0 s) :
    SatC (inHtmlElemNamed name) s (fun b s' => b = hasNamed s.dom s.openElems name.toList ∧ Q2 d0 s s') := by
  unfold H5V.Model.HtmlTB.inHtmlElemNamed
  exact satc_getS_bind (satcv_anyHtmlElemNamed _ s hcb hcb.h.open_el)

/-! ### `create_element` -/

/-- the result of `create_element` -/
structure CreatedC (d0 : Dom) (s s' : State) (r : Id) (name : QualName) : Prop where
  q : Q2 d0 s s'
  ge : s.dom.size ≤ r
  lt : r < s'.dom.size
  fresh : FreshNode s'.dom r
  el : IsEl s'.dom r
  nm : nm s'.dom r = ⟨name.ns, name.loc⟩
  tc : TcDoc s'.dom r

/-- what `Dom.createElement` returns -/
theorem createElement_facts (d : Dom) (name : QualName) (attrs : List Attr) (flags : ElementFlags) :
    d.size ≤ (d.createElement name attrs flags).2 ∧
    (d.createElement name attrs flags).2 < (d.createElement name attrs flags).1.size ∧
    FreshNode (d.createElement name attrs flags).1 (d.createElement name attrs flags).2 ∧
    ∃ tc, sigOf (d.createElement name attrs flags).1 (d.createElement name attrs flags).2
        = some (name, tc, flags.mathmlIP) ∧
      (flags.template = true → ∃ t, tc = some t ∧
        (d.createElement name attrs flags).1.dataOf t = some .document) := by
  unfold Dom.createElement
  by_cases ht : flags.template = true
  · simp only [ht, if_true]
    have hs1 : (d.alloc NodeData.document).1.size = d.size + 1 := by simp
    have hr : ((d.alloc NodeData.document).1.alloc (.element name attrs (some (d.alloc NodeData.document).2)
        flags.mathmlIP)).2 = d.size + 1 := hs1
    have htc : (d.alloc NodeData.document).2 = d.size := rfl
    have hdata : ∀ x, ((d.alloc NodeData.document).1.alloc
        (.element name attrs (some (d.alloc NodeData.document).2) flags.mathmlIP)).1.dataOf x =
        if x = d.size + 1 then some (.element name attrs (some d.size) flags.mathmlIP)
        else if x = d.size then some .document else d.dataOf x := by
      intro x
      rw [dataOf_alloc, dataOf_alloc, hs1, htc]
    rw [hr]
    refine ⟨by omega, by simp, ⟨?_, ?_, ?_⟩, some d.size, ?_, fun _ => ⟨d.size, rfl, ?_⟩⟩
    · unfold Dom.isInsertable; rw [hdata]; simp
    · rw [parentOf_alloc, parentOf_alloc]; exact parentOf_none_of_ge (by omega)
    · rw [childrenOf_alloc, childrenOf_alloc]; exact childrenOf_nil_of_ge (by omega)
    · unfold sigOf; rw [hdata]; simp [TBSafe.sigData]
    · rw [hdata]; simp
  · simp only [ht, Bool.false_eq_true, if_false]
    have hr : (d.alloc (.element name attrs none flags.mathmlIP)).2 = d.size := rfl
    rw [hr]
    refine ⟨Nat.le_refl _, by simp, ⟨?_, ?_, ?_⟩, none, ?_, fun h => (h.elim)⟩
    · unfold Dom.isInsertable; rw [dataOf_alloc]; simp
    · rw [parentOf_alloc]; exact parentOf_none_of_ge (Nat.le_refl _)
    · rw [childrenOf_alloc]; exact childrenOf_nil_of_ge (Nat.le_refl _)
    · unfold sigOf; rw [dataOf_alloc]; simp [TBSafe.sigData]

theorem satc_createElement {name : QualName} {attrs : List Attr} {hadDup : Bool} {s : State} (hcb : CB d0 s)
    (ha : Dom.attrKeysNodup attrs = true) :
    SatC (createElementWithFlags name attrs hadDup) s (fun r s' => CreatedC d0 s s' r name) := by
  unfold createElementWithFlags sinkNode
  simp only
  refine SatC.bind (satc_sink (Q := fun o s' => ∃ r, o = .node r ∧ CreatedC d0 s s' r name) hcb.d ha ?_) ?_
  · intro d' out hap hd
    have hap' := hap
    rw [TBSafe.apply_createElement] at hap
    cases hap
    refine ⟨_, rfl, ?_⟩
    have hq := q2_of_nt hcb (op := .createElement name attrs _) rfl hap' hd
    obtain ⟨h1, h2, h3, tc, h4, h5⟩ := createElement_facts s.dom name attrs
      { template := name.ns == nsHtml && isName name.loc "template",
        mathmlIP := (if name.ns == nsMathml && isName name.loc "annotation-xml" then
          attrs.any (fun a => a.name.ns == [] && isName a.name.loc "encoding" &&
            (eqIgnoreAsciiCase a.value "text/html".toList ||
             eqIgnoreAsciiCase a.value "application/xhtml+xml".toList)) else false),
        hadDuplicateAttributes := hadDup }
    refine ⟨hq, h1, h2, h3, ⟨_, h4⟩, ?_, ?_⟩
    · show TBSafe.nm _ _ = _
      unfold TBSafe.nm; rw [h4]; rfl
    · intro hn
      have hn' : TBSafe.nm _ _ = tmplName := hn
      unfold TBSafe.nm at hn'; rw [h4] at hn'
      simp only [TBSafe.enameOfSig, tmplName, EName.mk.injEq] at hn'
      obtain ⟨t, rfl, ht⟩ := h5 (by
        show (name.ns == nsHtml && isName name.loc "template") = true
        rw [hn'.1, hn'.2]; rfl)
      exact ⟨_, _, _, h4, ht⟩
  · rintro o s' ⟨r, rfl, hc⟩
    exact satc_pure hc

theorem satcv_currentNode {s : State} :
    SatC currentNode s (fun h s' => s' = s ∧ s.openElems.getLast? = some h) := by
  unfold H5V.Model.HtmlTB.currentNode
  refine satc_getS_bind ?_
  cases hl : s.openElems.getLast? with
  | none => exact satc_panicAt
  | some h => exact satc_pure ⟨rfl, rfl⟩

theorem satcv_htmlElem {s : State} : SatC htmlElem s (fun h s' => s' = s ∧ s.openElems.head? = some h) := by
  unfold H5V.Model.HtmlTB.htmlElem
  refine satc_getS_bind ?_
  cases hl : s.openElems.head? with
  | none => exact satc_panicAt
  | some h => exact satc_pure ⟨rfl, rfl⟩

theorem satcv_htmlElemFn {s : State} : SatC htmlElemFn s (fun h s' => s' = s ∧ s.openElems.head? = some h) := by
  unfold H5V.Model.HtmlTB.htmlElemFn
  refine satc_getS_bind ?_
  cases hl : s.openElems.head? with
  | none => exact satc_panicAt
  | some h => exact satc_pure ⟨rfl, rfl⟩

/-! ### the appropriate place for insertion -/

theorem isContainer_kext {d d' : Dom} (hk : KExt d d') {x : Id} (h : d.isContainer x = true) :
    d'.isContainer x = true := by
  have hlt := lt_of_isContainer h
  have h1 := hk x hlt
  unfold Dom.isContainer at h ⊢
  cases hd : d.dataOf x with
  | none => rw [hd] at h; cases h
  | some v =>
    rw [hd] at h h1
    cases hd' : d'.dataOf x with
    | none => rw [hd'] at h1; cases h1
    | some v' =>
      rw [hd'] at h1
      cases v <;> cases v' <;> simp [kindOf] at h h1 ⊢

theorem isElement_kext {d d' : Dom} (hk : KExt d d') {x : Id} (h : d.isElement x = true) :
    d'.isElement x = true := by
  have hlt := lt_of_isElement h
  have h1 := hk x hlt
  unfold Dom.isElement at h ⊢
  cases hd : d.dataOf x with
  | none => rw [hd] at h; cases h
  | some v =>
    rw [hd] at h h1
    cases hd' : d'.dataOf x with
    | none => rw [hd'] at h1; cases h1
    | some v' =>
      rw [hd'] at h1
      cases v <;> cases v' <;> simp [kindOf] at h h1 ⊢

theorem IpValid.kext {d d' : Dom} {ip : InsertionPoint} (h : IpValid d ip) (hk : KExt d d') : IpValid d' ip := by
  cases ip with
  | lastChild p => exact isContainer_kext hk h
  | beforeSibling sb => exact h
  | tableFosterParenting e pe => exact ⟨isElement_kext hk h.1, isElement_kext hk h.2⟩

theorem isContainer_of_doc {d : Dom} {x : Id} (h : d.dataOf x = some .document) : d.isContainer x = true := by
  unfold Dom.isContainer; rw [h]

/-- the parent-to-be exists before the insertion -/
theorem ipParent_lt {d : Dom} (hi : Inv d) {ip : InsertionPoint} (hv : IpValid d ip) {P : Id}
    (h : ipParent d ip = some P) : P < d.size := by
  cases ip with
  | lastChild p => simp [ipParent] at h; subst h; exact lt_of_isContainer hv
  | beforeSibling sb => exact absurd hv id
  | tableFosterParenting e pe =>
    simp only [ipParent] at h
    cases hpar : d.parentOf e with
    | none => rw [hpar] at h; simp at h; subst h; exact lt_of_isElement hv.2
    | some Q => rw [hpar] at h; simp at h; subst h; exact parent_lt_size hi.wf hpar

/-- … and stays the same while old nodes keep their parents -/
theorem ipParent_stable {d d' : Dom} {ip : InsertionPoint} (hv : IpValid d ip)
    (hop : ∀ x, x < d.size → d'.parentOf x = d.parentOf x) : ipParent d' ip = ipParent d ip := by
  cases ip with
  | lastChild p => rfl
  | beforeSibling sb => exact absurd hv id
  | tableFosterParenting e pe =>
    simp only [ipParent]; rw [hop e (lt_of_isElement hv.1)]

/-- the insertion points the builder computes are valid; without a `template` on the stack (and
without override target) they mention elements only -/
structure IpGood (s : State) (ov : Option Id) (s' : State) (ip : InsertionPoint) : Prop where
  valid : IpValid s'.dom ip
  els : (∀ h ∈ s.openElems, namedP s.dom "template".toList h = false) → ov = none →
    ∀ x ∈ ipIds ip, s'.dom.isElement x = true

theorem namedP_tmpl' {d : Dom} {h : Id} (hn : namedP d "template".toList h = true) : nm d h = tmplName :=
  TBSafe.namedP_tmpl hn

theorem satc_templateContents {h : Id} {s : State} (hcb : CB d0 s) (ht : TcDoc s.dom h)
    (hn : namedP s.dom "template".toList h = true) :
    SatC (sinkNode (.getTemplateContents h)) s (fun tc s' => Q2 d0 s s' ∧ s'.dom.dataOf tc = some .document) := by
  obtain ⟨q, tc, ip, hs, hd⟩ := ht (namedP_tmpl' hn)
  refine (satcv_getTemplateContents hcb hs).mono ?_
  rintro r s' ⟨rfl, hq⟩
  exact ⟨hq, isDoc_kext hq.g.kext hd⟩

theorem satc_fosterLoop : ∀ (l : List Id) (s : State), CB d0 s → (∀ x ∈ l, IsEl s.dom x) →
    (∀ x ∈ l, TcDoc s.dom x) →
    SatC (fosterLoop l) s (fun ip s' => Q2 d0 s s' ∧ IpValid s'.dom ip ∧
      ((∀ h ∈ l, namedP s.dom "template".toList h = false) → ∀ x ∈ ipIds ip, s'.dom.isElement x = true)) := by
  intro l
  induction l with
  | nil =>
    intro s hcb _ _
    unfold fosterLoop
    refine satcv_htmlElem.bind ?_
    rintro r s' ⟨rfl, hl⟩
    have hmem : r ∈ s'.openElems := List.mem_of_head? hl
    have hel := isElement_of_isEl (hcb.h.open_el r hmem)
    refine satc_pure ⟨Q2.refl hcb, isContainer_of_isElement hel, ?_⟩
    intro _ x hx
    simp only [ipIds, List.mem_singleton] at hx; subst hx; exact hel
  | cons elem rest ih =>
    intro s hcb hall htc
    unfold fosterLoop
    have hel := hall elem List.mem_cons_self
    refine (satcv_htmlElemNamed hcb hel).bind ?_
    rintro b s1 ⟨rfl, hq1⟩
    by_cases hb : namedP s.dom "template".toList elem = true
    · rw [if_pos hb]
      have hn1 : namedP s1.dom "template".toList elem = true := by
        unfold namedP; rw [nm_ext hq1.ext hel]; exact hb
      refine (satc_templateContents hq1.cb ((htc elem List.mem_cons_self).ext hq1.ext hq1.g.kext hel) hn1).bind ?_
      rintro tc s2 ⟨hq2, hdoc⟩
      refine satc_pure ⟨hq1.trans hq2, isContainer_of_doc hdoc, ?_⟩
      intro hno
      have := hno elem List.mem_cons_self
      rw [hb] at this; cases this
    · rw [if_neg hb]
      refine (satcv_htmlElemNamed hq1.cb (hel.ext hq1.ext)).bind ?_
      rintro b2 s2 ⟨rfl, hq2⟩
      have hq := hq1.trans hq2
      by_cases hb2 : namedP s1.dom "table".toList elem = true
      · rw [if_pos hb2]
        cases rest with
        | nil => exact satc_panicAt
        | cons prev rest' =>
          dsimp only
          have hp := hall prev (by simp)
          refine satc_pure ⟨hq, ⟨isElement_of_isEl (hel.ext hq.ext), isElement_of_isEl (hp.ext hq.ext)⟩, ?_⟩
          intro _ x hx
          simp only [ipIds, List.mem_cons, List.mem_singleton, List.not_mem_nil, or_false] at hx
          rcases hx with rfl | rfl
          · exact isElement_of_isEl (hel.ext hq.ext)
          · exact isElement_of_isEl (hp.ext hq.ext)
      · rw [if_neg hb2]
        have hall' : ∀ x ∈ rest, IsEl s.dom x := fun x hx => hall x (List.mem_cons_of_mem _ hx)
        refine (ih s2 hq.cb (fun x hx => (hall' x hx).ext hq.ext)
          (fun x hx => (htc x (List.mem_cons_of_mem _ hx)).ext hq.ext hq.g.kext (hall' x hx))).mono ?_
        rintro ip s3 ⟨hq3, hv, hels⟩
        refine ⟨hq.trans hq3, hv, ?_⟩
        intro hno
        refine hels ?_
        intro h hh
        unfold namedP
        rw [nm_ext hq.ext (hall' h hh)]
        exact hno h (List.mem_cons_of_mem _ hh)

theorem satc_appropriatePlace {ov : Option Id} {s : State} (hcb : CB d0 s)
    (hov : ∀ t, ov = some t → IsEl s.dom t ∧ TcDoc s.dom t) :
    SatC (appropriatePlaceForInsertion ov) s (fun ip s' => Q2 d0 s s' ∧ IpGood s ov s' ip) := by
  unfold appropriatePlaceForInsertion
  have htail : ∀ (target : Id), IsEl s.dom target → TcDoc s.dom target →
      (ov = none → target ∈ s.openElems) →
      SatC (do
        let __do_lift ← getS
        if __do_lift.fosterParenting = true then do
            let foster ← elemIn target fosterTarget
            if (!foster) = true then do
                let __do_lift ← htmlElemNamed target "template"
                if __do_lift = true then do
                    let contents ← sinkNode (SinkOp.getTemplateContents target)
                    pure (InsertionPoint.lastChild contents)
                  else pure (InsertionPoint.lastChild target)
              else do
                let __do_lift ← getS
                fosterLoop __do_lift.openElems.reverse
          else do
            let foster ← pure false
            if (!foster) = true then do
                let __do_lift ← htmlElemNamed target "template"
                if __do_lift = true then do
                    let contents ← sinkNode (SinkOp.getTemplateContents target)
                    pure (InsertionPoint.lastChild contents)
                  else pure (InsertionPoint.lastChild target)
              else do
                let __do_lift ← getS
                fosterLoop __do_lift.openElems.reverse) s
        (fun ip s' => Q2 d0 s s' ∧ IpGood s ov s' ip) := by
    intro target htel httc hts
    have hrest : ∀ (foster : Bool) (s1 : State), Q2 d0 s s1 →
        SatC (if (!foster) = true then do
            let __do_lift ← htmlElemNamed target "template"
            if __do_lift = true then do
                let contents ← sinkNode (SinkOp.getTemplateContents target)
                pure (InsertionPoint.lastChild contents)
              else pure (InsertionPoint.lastChild target)
          else do
            let __do_lift ← getS
            fosterLoop __do_lift.openElems.reverse) s1 (fun ip s' => Q2 d0 s s' ∧ IpGood s ov s' ip) := by
      intro foster s1 hq1
      have hel1 := htel.ext hq1.ext
      refine satc_ite (fun _ => ?_) (fun _ => ?_)
      · refine (satcv_htmlElemNamed hq1.cb hel1).bind ?_
        rintro b s2 ⟨rfl, hq2⟩
        have hq := hq1.trans hq2
        by_cases hb : namedP s1.dom "template".toList target = true
        · rw [if_pos hb]
          have hn2 : namedP s2.dom "template".toList target = true := by
            unfold namedP; rw [nm_ext hq2.ext hel1]; exact hb
          refine (satc_templateContents hq2.cb (httc.ext hq.ext hq.g.kext htel) hn2).bind ?_
          rintro tc s3 ⟨hq3, hdoc⟩
          refine satc_pure ⟨hq.trans hq3, isContainer_of_doc hdoc, ?_⟩
          intro hno hovn
          have := hno target (hts hovn)
          unfold namedP at this hb
          rw [nm_ext hq1.ext htel] at hb
          rw [hb] at this; cases this
        · rw [if_neg hb]
          have he2 := isElement_of_isEl (hel1.ext hq2.ext)
          refine satc_pure ⟨hq, isContainer_of_isElement he2, ?_⟩
          intro _ _ x hx
          simp only [ipIds, List.mem_singleton] at hx; subst hx; exact he2
      · refine satc_getS_bind ?_
        have hrev : ∀ x ∈ s1.openElems.reverse, x ∈ s.openElems := by
          intro x hx; rw [hq1.openElems] at hx; exact List.mem_reverse.mp hx
        refine (satc_fosterLoop _ s1 hq1.cb (fun x hx => (hcb.h.open_el x (hrev x hx)).ext hq1.ext)
          (fun x hx => (hcb.h.open_tc x (hrev x hx)).ext hq1.ext hq1.g.kext (hcb.h.open_el x (hrev x hx)))).mono ?_
        rintro ip s2 ⟨hq2, hv, hels⟩
        refine ⟨hq1.trans hq2, hv, ?_⟩
        intro hno _
        refine hels ?_
        intro h hh
        unfold namedP
        rw [nm_ext hq1.ext (hcb.h.open_el h (hrev h hh))]
        exact hno h (hrev h hh)
    refine satc_getS_bind ?_
    refine satc_ite (fun _ => ?_) (fun _ => ?_)
    · refine (satcv_elemIn hcb htel).bind ?_
      rintro foster s1 ⟨-, hq1⟩
      exact hrest foster s1 hq1
    · refine SatC.bind (Q := fun foster s1 => s = s1) (satc_pure rfl) ?_
      rintro foster s1 rfl
      exact hrest foster s (Q2.refl hcb)
  cases ov with
  | some t =>
    dsimp only
    refine SatC.bind (Q := fun r s' => t = r ∧ s = s') (satc_pure ⟨rfl, rfl⟩) ?_
    rintro target s0 ⟨rfl, rfl⟩
    exact htail t (hov t rfl).1 (hov t rfl).2 (fun h => by cases h)
  | none =>
    dsimp only
    refine satcv_currentNode.bind ?_
    rintro cur s0 ⟨hs0, hl⟩
    subst hs0
    have hmem : cur ∈ s0.openElems := List.mem_of_getLast? hl
    exact htail cur (hcb.h.open_el cur hmem) (hcb.h.open_tc cur hmem) (fun _ => hmem)

theorem satc_sinkUnit {op : SinkOp} {s : State} {Q : Unit → State → Prop} (hd : DomI d0 s)
    (hc : Contract s.dom op)
    (hQ : ∀ d' out, s.dom.apply op = .ok (d', out) →
      DomI d0 { s with dom := d', traceRev := (op, out) :: s.traceRev } →
      Q () { s with dom := d', traceRev := (op, out) :: s.traceRev }) : SatC (sinkUnit op) s Q := by
  unfold sinkUnit
  exact (satc_sink (Q := fun _ s' => Q () s') hd hc hQ).bind (fun _ _ h => satc_pure h)

/-! ### `insert_at` -/

/-- the frame of one tree-mutating sink call: only the sink changed, the base invariant holds again -/
structure T2 (d0 : Dom) (s s' : State) : Prop where
  cb : CB d0 s'
  ext : Ext s.dom s'.dom
  kext : KExt s.dom s'.dom
  same : ∃ d t, s' = { s with dom := d, traceRev := t }

theorem satc_insertAt_node {ip : InsertionPoint} {r : Id} {s : State} (hcb : CB d0 s) (hv : IpValid s.dom ip)
    (hf : FreshNode s.dom r) (hne : ∀ x ∈ ipIds ip, x ≠ r) :
    SatC (H5V.Model.HtmlTB.insertAt ip (.node r)) s (fun _ s' => T2 d0 s s' ∧
      ∃ P, ipParent s.dom ip = some P ∧ NodeEff s.dom s'.dom r P) := by
  rw [insertAt_eq]
  unfold sinkUnit
  refine SatC.bind (satc_sink (Q := fun _ s' => T2 d0 s s' ∧
      ∃ P, ipParent s.dom ip = some P ∧ NodeEff s.dom s'.dom r P) hcb.d
    (contract_ipOp hcb.d.inv hv (.node r hf hne)) ?_) (fun _ s' h => satc_pure h)
  intro d' out ha hd
  exact ⟨⟨hcb.of_dom hd (apply_ext ha) (apply_kext ha), apply_ext ha, apply_kext ha, d', _, rfl⟩,
    nodeEff_ipOp hv hf.par hne ha⟩

theorem satc_insertAt_text {ip : InsertionPoint} {t : Str} {s : State} (hcb : CB d0 s) (hv : IpValid s.dom ip) :
    SatC (H5V.Model.HtmlTB.insertAt ip (.text t)) s (fun _ s' => T2 d0 s s' ∧
      ∃ P, ipParent s.dom ip = some P ∧ TextEff s.dom s'.dom P) := by
  rw [insertAt_eq]
  unfold sinkUnit
  refine SatC.bind (satc_sink (Q := fun _ s' => T2 d0 s s' ∧
      ∃ P, ipParent s.dom ip = some P ∧ TextEff s.dom s'.dom P) hcb.d
    (contract_ipOp hcb.d.inv hv (.text t)) ?_) (fun _ s' h => satc_pure h)
  intro d' out ha hd
  exact ⟨⟨hcb.of_dom hd (apply_ext ha) (apply_kext ha), apply_ext ha, apply_kext ha, d', _, rfl⟩,
    textEff_ipOp hv ha⟩

/-- growth across "query steps, then attach the node `r` created on the way under an old parent" -/
theorem GrowRel.attach {s s3 s4 : State} {r P : Id} (g : GrowRel s s3) (t : T2 d0 s3 s4)
    (hr : s.dom.size ≤ r) (hrlt : r < s3.dom.size) (hP : P < r) (he : NodeEff s3.dom s4.dom r P) :
    GrowRel s s4 := by
  obtain ⟨d, tr, e⟩ := t.same
  refine ⟨g.ext.trans t.ext, g.kext.trans t.kext, by rw [he.size]; exact g.size, ?_, ?_, ?_⟩
  · intro x hx
    rw [he.par x]
    have : x ≠ r := by intro e'; subst e'; exact Nat.lt_irrefl _ (Nat.lt_of_lt_of_le hx hr)
    rw [if_neg this]; exact g.oldPar x hx
  · intro x p hx hp
    rw [he.par x] at hp
    by_cases hxr : x = r
    · rw [if_pos hxr] at hp; cases hp; rw [hxr]; exact hP
    · rw [if_neg hxr] at hp; exact g.newPar x p hx hp
  · obtain ⟨sub, news, e1, hs, hn, hp⟩ := g.stack
    refine ⟨sub, news, by rw [e]; exact e1, hs, fun x hx => ⟨(hn x hx).1, by rw [he.size]; exact (hn x hx).2⟩, hp⟩

/-- … and pushing it -/
theorem GrowRel.push {s s4 : State} {r : Id} (g : GrowRel s s4) (hst : s4.openElems = s.openElems)
    (hr : s.dom.size ≤ r) (hrlt : r < s4.dom.size) :
    GrowRel s { s4 with openElems := s4.openElems ++ [r] } := by
  refine ⟨g.ext, g.kext, g.size, g.oldPar, g.newPar, ⟨s.openElems, [r], by rw [hst], List.Sublist.refl _, ?_, ?_⟩⟩
  · intro x hx; rw [List.mem_singleton.mp hx]; exact ⟨hr, hrlt⟩
  · exact List.pairwise_singleton _ _

theorem CB.push {s : State} (h : CB d0 s) {r : Id} (hel : IsEl s.dom r) (htc : TcDoc s.dom r) :
    CB d0 { s with openElems := s.openElems ++ [r] } where
  d := ⟨h.d.inv, h.d.run⟩
  h := ⟨h.h.docH, h.h.doc0, fun x hx => by
      rcases List.mem_append.mp hx with hx | hx
      · exact h.h.open_el x hx
      · rw [List.mem_singleton.mp hx]; exact hel,
    fun x hx => by
      rcases List.mem_append.mp hx with hx | hx
      · exact h.h.open_tc x hx
      · rw [List.mem_singleton.mp hx]; exact htc,
    h.h.af, h.h.head, h.h.form, h.h.ctx, h.h.headTc⟩
  l := ⟨h.l.mode, h.l.orig, h.l.tm⟩

theorem FreshNode.of_same_dom {d d' : Dom} {r : Id} (h : FreshNode d r) (e : d' = d) : FreshNode d' r := e ▸ h

theorem attrKeysNodup_of_attrsOk {attrs : List Attr} (h : AttrsOk attrs) : Dom.attrKeysNodup attrs = true := by
  obtain ⟨h1, h2⟩ := h
  induction attrs with
  | nil => rfl
  | cons a t ih =>
    simp only [List.map_cons, List.nodup_cons] at h2
    simp only [Dom.attrKeysNodup, Bool.and_eq_true, Bool.not_eq_true']
    refine ⟨?_, ih (fun x hx => h1 x (List.mem_cons_of_mem _ hx)) h2.2⟩
    cases hc : (t.map Dom.attrKey).contains (Dom.attrKey a) with
    | false => rfl
    | true =>
      exfalso
      rw [List.contains_iff_mem] at hc
      obtain ⟨b, hb, hk⟩ := List.mem_map.mp hc
      have ha := (h1 a List.mem_cons_self).1
      have hbn := (h1 b (List.mem_cons_of_mem _ hb)).1
      unfold Dom.attrKey at hk
      rw [if_pos ha, if_pos hbn] at hk
      simp only [Prod.mk.injEq, true_and] at hk
      exact h2.1 (List.mem_map.mpr ⟨b, hb, hk.2⟩)

/-! ### `insert_element` -/

/-- **`insert_element` (all variants) as a leaf**: the attribute list must be duplicate-free -/
theorem cp_insertElement {c : List Id} {pushIt : Bool} {ns name : Str} {attrs : List Attr} {hadDup : Bool}
    (ha : Dom.attrKeysNodup attrs = true) :
    CP d0 c (insertElement pushIt ns name attrs hadDup) (fun r => [r]) := by
  intro s hcb _
  unfold insertElement
  refine (satc_appropriatePlace (ov := none) hcb (fun t h => by cases h)).bind ?_
  rintro ip s1 ⟨hq1, hip⟩
  dsimp only
  refine satc_getS_bind ?_
  -- insertion and push, once the element exists
  have hrest : ∀ (elem : Id) (s2 s3 s4 : State), Q2 d0 s1 s2 → CreatedC d0 s2 s3 elem { pfx := none, ns := ns, loc := name } →
      Q2 d0 s3 s4 → s4.dom = s3.dom →
      SatC (do
        H5V.Model.HtmlTB.insertAt ip (NodeOrText.node elem)
        if pushIt = true then do
            push elem
            pure elem
          else pure elem) s4 (fun r s' => CB d0 s' ∧ GrowRel s s' ∧ CtxOk [r] s') := by
    intro elem s2 s3 s4 hq2 hc hq4 hd4
    have hq13 : Q2 d0 s1 s3 := hq2.trans hc.q
    have hq14 : Q2 d0 s1 s4 := hq13.trans hq4
    have hv4 : IpValid s4.dom ip := hip.valid.kext hq14.g.kext
    have hf4 : FreshNode s4.dom elem := hc.fresh.of_same_dom hd4
    have hidlt : ∀ x ∈ ipIds ip, x < s1.dom.size := by
      intro x hx
      cases ip with
      | lastChild p => simp [ipIds] at hx; subst hx; exact lt_of_isContainer hip.valid
      | beforeSibling sb => exact absurd hip.valid id
      | tableFosterParenting e pe =>
        simp [ipIds] at hx
        rcases hx with rfl | rfl
        · exact lt_of_isElement hip.valid.1
        · exact lt_of_isElement hip.valid.2
    have hge : s1.dom.size ≤ elem := Nat.le_trans hq2.g.size hc.ge
    have hne : ∀ x ∈ ipIds ip, x ≠ elem := fun x hx e => by
      have := hidlt x hx; rw [e] at this; exact Nat.lt_irrefl _ (Nat.lt_of_lt_of_le this hge)
    refine (satc_insertAt_node hq4.cb hv4 hf4 hne).bind ?_
    rintro _ s5 ⟨ht5, P, hP, heff⟩
    -- the parent existed before the element was created
    have hPlt : P < elem := by
      have h1 : ipParent s4.dom ip = ipParent s1.dom ip := ipParent_stable hip.valid hq14.g.oldPar
      rw [h1] at hP
      exact Nat.lt_of_lt_of_le (ipParent_lt hq1.cb.d.inv hip.valid hP) hge
    have hg14 : GrowRel s s4 := hq1.g.trans hq14.g
    have hlt4 : elem < s4.dom.size := by rw [hd4]; exact hc.lt
    have hg5 : GrowRel s s5 := hg14.attach ht5 (Nat.le_trans hq1.g.size hge) hlt4 hPlt heff
    have hel5 : IsEl s5.dom elem := (hc.el.ext hq4.ext).ext ht5.ext
    obtain ⟨d5, t5, e5⟩ := ht5.same
    have hst5 : s5.openElems = s.openElems := by rw [e5]; show s4.openElems = _; rw [hq14.openElems, hq1.openElems]
    refine satc_ite (fun _ => ?_) (fun _ => ?_)
    · unfold H5V.Model.HtmlTB.push
      refine satc_modS_bind ?_
      refine satc_pure ⟨?_, ?_, ?_⟩
      · refine ht5.cb.push hel5 ?_
        exact ((hc.tc.ext hq4.ext hq4.g.kext hc.el).ext ht5.ext ht5.kext (hc.el.ext hq4.ext))
      · exact hg5.push hst5 (Nat.le_trans hq1.g.size hge) (by rw [heff.size]; exact hlt4)
      · intro x hx; rw [List.mem_singleton.mp hx]; exact hel5
    · exact satc_pure ⟨ht5.cb, hg5, fun x hx => by rw [List.mem_singleton.mp hx]; exact hel5⟩
  -- after the form-association test
  have htail : ∀ (fa : Bool) (s2 : State), Q2 d0 s1 s2 →
      (fa = true → s1.formElem.isSome = true ∧ hasNamed s1.dom s1.openElems "template".toList = false) →
      SatC (do
        let elem ← createElementWithFlags { pfx := none, ns := ns, loc := name } attrs hadDup
        if fa = true then do
            let __do_lift ← getS
            match __do_lift.formElem with
              | some form => do
                sinkUnit (SinkOp.associateWithForm elem form ip.nodes.fst ip.nodes.snd)
                H5V.Model.HtmlTB.insertAt ip (NodeOrText.node elem)
                if pushIt = true then do
                    push elem
                    pure elem
                  else pure elem
              | none => do
                panicAt "unwrap-none" "mod.rs:1401" "form_elem unwrap"
                H5V.Model.HtmlTB.insertAt ip (NodeOrText.node elem)
                if pushIt = true then do
                    push elem
                    pure elem
                  else pure elem
          else do
            H5V.Model.HtmlTB.insertAt ip (NodeOrText.node elem)
            if pushIt = true then do
                push elem
                pure elem
              else pure elem) s2 (fun r s' => CB d0 s' ∧ GrowRel s s' ∧ CtxOk [r] s') := by
    intro fa s2 hq2 hfa
    refine (satc_createElement hq2.cb ha).bind ?_
    intro elem s3 hc
    refine satc_ite (fun hfat => ?_) (fun _ => hrest elem s2 s3 s3 hq2 hc (Q2.refl hc.q.cb) rfl)
    refine satc_getS_bind ?_
    obtain ⟨hsome, hnot⟩ := hfa hfat
    have hform3 : s3.formElem = s1.formElem := by rw [hc.q.formElem, hq2.formElem]
    cases hf : s3.formElem with
    | none => exact SatC.bind (Q := fun _ _ => False) satc_panicAt (fun _ _ h => h.elim)
    | some form =>
      dsimp only
      -- the contract of `associate_with_form`: four elements
      have hq13 : Q2 d0 s1 s3 := hq2.trans hc.q
      have hnotmpl : ∀ h ∈ s.openElems, namedP s.dom "template".toList h = false := by
        intro h hh
        have : hasNamed s1.dom s1.openElems "template".toList = false := hnot
        unfold hasNamed at this
        rw [List.any_eq_false] at this
        have h1 := this h (by rw [hq1.openElems]; exact hh)
        unfold namedP
        rw [← nm_ext hq1.ext (hcb.h.open_el h hh)]
        simpa using h1
      have hels := hip.els hnotmpl rfl
      have hels3 : ∀ x ∈ ipIds ip, s3.dom.isElement x = true := fun x hx => isElement_kext hq13.g.kext (hels x hx)
      have hcontract : Contract s3.dom (.associateWithForm elem form ip.nodes.fst ip.nodes.snd) := by
        show (s3.dom.isElement elem && s3.dom.isElement form && s3.dom.isElement ip.nodes.fst &&
          (match ip.nodes.snd with | some q => s3.dom.isElement q | none => true)) = true
        rw [isElement_of_isEl hc.el, isElement_of_isEl (hc.q.cb.h.form form hf)]
        cases ip with
        | lastChild p => simp [InsertionPoint.nodes, hels3 p (by simp [ipIds])]
        | beforeSibling sb => exact absurd hip.valid id
        | tableFosterParenting e pe =>
          simp [InsertionPoint.nodes, hels3 e (by simp [ipIds]), hels3 pe (by simp [ipIds])]
      refine SatC.bind (satc_sinkUnit (Q := fun _ s' => Q2 d0 s3 s' ∧ s'.dom = s3.dom) hc.q.cb.d hcontract
        (fun d' out hap hd => ⟨q2_of_nt hc.q.cb rfl hap hd, by
          rw [TBSafe.apply_assoc] at hap; cases hap; rfl⟩)) ?_
      rintro _ s4 ⟨hq4, hd4⟩
      exact hrest elem s2 s3 s4 hq2 hc hq4 hd4
  refine satc_ite (fun hfa => ?_) (fun _ => ?_)
  · refine (satcv_inHtmlElemNamed hq1.cb).bind ?_
    rintro b s2 ⟨rfl, hq2⟩
    have hsome : s1.formElem.isSome = true := by
      simp only [Bool.and_eq_true] at hfa; exact hfa.2
    refine satc_ite (fun _ => ?_) (fun hno => ?_)
    · refine SatC.bind (Q := fun fa s' => fa = false ∧ s2 = s') (satc_pure ⟨rfl, rfl⟩) ?_
      rintro fa s2' ⟨rfl, rfl⟩
      exact htail false s2 hq2 (fun h => by cases h)
    · refine SatC.bind (Q := fun fa s' => s2 = s') (satc_pure rfl) ?_
      rintro fa s2' rfl
      exact htail fa s2 hq2 (fun _ => ⟨hsome, by simpa using hno⟩)
  · refine SatC.bind (Q := fun fa s' => fa = false ∧ s1 = s') (satc_pure ⟨rfl, rfl⟩) ?_
    rintro fa s2' ⟨rfl, rfl⟩
    exact htail false s1 (Q2.refl hq1.cb) (fun h => by cases h)

end H5V.Lemmas.TBC
