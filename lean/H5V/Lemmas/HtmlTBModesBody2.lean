import H5V.Lemmas.HtmlTBModesBodyDefs
import H5V.Lemmas.HtmlTBModesPrimPop
import H5V.Lemmas.HtmlTBModesPrimIns2
import H5V.Lemmas.HtmlTBModesPrimFmt2
import H5V.Lemmas.HtmlTBModesSmall2
/-!
"in body", slice 2: the block-level start tags (`address` … `ul`, `menu`, headings, `pre`/`listing`, `form`,
`li`/`dd`/`dt`, `plaintext`, `button`).
-/
namespace H5V.Lemmas.HtmlTBModes
open H5V.Model.HtmlTB
open H5V.Model.Dom (Id SinkOp Output Dom QualName Attr NodeOrText ElementFlags NodeData QuirksMode)
open H5V.Lemmas.HtmlTBAlgo
open H5V.Lemmas.TBSafe (TI HInv SInv Rooted)
open H5V.Spec.TreeAlgo2 (Elem Entry PState Ctx Edit Place)
open H5V.Spec.TreeModes (STok ETok IMode Config Out TokSwitch XOp Op Step Edition)

/-! ### the arms of the model -/

def b2_armBlock (t : Tag) : M ProcessResult := do
  closePElementInButtonScope
  let _ ← insertElementFor t
  pure .done

theorem b2_pre {t : Tag} (h : bodyC1 t = false) :
    t.isStart ["html"] = false ∧
    (t.isStart ["base", "basefont", "bgsound", "link", "meta", "noframes", "script", "style", "template", "title"] ||
      t.isEnd ["template"]) = false ∧
    t.isStart ["body"] = false ∧ t.isStart ["frameset"] = false ∧ t.isEnd ["body"] = false ∧ t.isEnd ["html"] = false := by
  simp only [bodyC1, Bool.or_eq_false_iff] at h
  obtain ⟨⟨⟨⟨⟨h1, h2⟩, h3⟩, h4⟩, h5⟩, h6⟩ := h
  exact ⟨h1, by simp only [Bool.or_eq_false_iff]; exact h2, h3, h4, h5, h6⟩

theorem b2_step_block {t : Tag} (hpre : bodyC1 t = false)
    (h : t.isStart ["address", "article", "aside", "blockquote", "center", "details", "dialog", "dir", "div", "dl",
    "fieldset", "figcaption", "figure", "footer", "header", "hgroup", "main", "nav", "ol", "p", "search", "section",
    "summary", "ul"] = true) : stepInBody (.tag t) = b2_armBlock t := by
  obtain ⟨h1, h2, h3, h4, h5, h6⟩ := b2_pre hpre
  simp only [stepInBody, h1, h2, h3, h4, h5, h6, h, if_true, if_false, Bool.false_eq_true]
  rfl

theorem b2_start {t : Tag} {l : List String} (h : t.isStart l = true) : t.kind = .startTag ∧ isOneOf t.name l = true := by
  simp only [Tag.isStart, Bool.and_eq_true, beq_iff_eq] at h
  exact h

/-! ### the clauses of the specification -/

theorem b2_spec_block (cfg : Config Id) (σ : SState) (st : STag)
    (h : isOneOf st.name ["address", "article", "aside", "blockquote", "center", "details", "dialog", "dir", "div", "dl",
      "fieldset", "figcaption", "figure", "footer", "header", "hgroup", "main", "nav", "ol", "p", "search", "section",
      "summary", "ul", "menu"] = true) :
    Spec.TreeModes.inBody cfg σ (.startTag st)
      = (.done <$> Spec.TreeModes.insertHtml' (Spec.TreeModes.closePIfInButtonScope cfg σ) st) := by
  simp only [isOneOf_cons, isOneOf_nil, Bool.or_false, Bool.or_eq_true, decide_eq_true_eq] at h
  rcases h with h | h | h | h | h | h | h | h | h | h | h | h | h | h | h | h | h | h | h | h | h | h | h | h | h <;>
    simp +decide only [Spec.TreeModes.inBody, Spec.TreeModes.inBodyStartTag, Spec.TreeModes.inBodyStartTagCore,
      Spec.TreeModes.Tag.is, Spec.TreeModes.Tag.isOneOf, strIs_eq, strIsOneOf_cons, strIsOneOf_nil,
      Spec.TreeModes.blockStart, Bool.or_false, h, if_true, if_false]

theorem b2_spec_heading (cfg : Config Id) (σ : SState) (st : STag)
    (h : isOneOf st.name ["h1", "h2", "h3", "h4", "h5", "h6"] = true) :
    Spec.TreeModes.inBody cfg σ (.startTag st)
      = (.done <$> Spec.TreeModes.insertHtml'
        (if (Spec.TreeModes.closePIfInButtonScope cfg σ).curIn Spec.TreeTables.heading
          then ((Spec.TreeModes.closePIfInButtonScope cfg σ).err "in body: heading inside heading").pop
          else Spec.TreeModes.closePIfInButtonScope cfg σ) st) := by
  simp only [isOneOf_cons, isOneOf_nil, Bool.or_false, Bool.or_eq_true, decide_eq_true_eq] at h
  rcases h with h | h | h | h | h | h <;>
    simp +decide only [Spec.TreeModes.inBody, Spec.TreeModes.inBodyStartTag, Spec.TreeModes.inBodyStartTagCore,
      Spec.TreeModes.Tag.is, Spec.TreeModes.Tag.isOneOf, strIs_eq, strIsOneOf_cons, strIsOneOf_nil,
      Spec.TreeModes.blockStart, Spec.TreeTables.heading, Bool.or_false, h, if_true, if_false]

theorem b2_spec_pre (cfg : Config Id) (σ : SState) (st : STag)
    (h : isOneOf st.name ["pre", "listing"] = true) :
    Spec.TreeModes.inBody cfg σ (.startTag st)
      = (do
          let s ← Spec.TreeModes.insertHtml' (Spec.TreeModes.closePIfInButtonScope cfg σ) st
          pure (.done { s with ignoreLf := true, framesetOk := false })) := by
  simp only [isOneOf_cons, isOneOf_nil, Bool.or_false, Bool.or_eq_true, decide_eq_true_eq] at h
  rcases h with h | h <;>
    simp +decide only [Spec.TreeModes.inBody, Spec.TreeModes.inBodyStartTag, Spec.TreeModes.inBodyStartTagCore,
      Spec.TreeModes.Tag.is, Spec.TreeModes.Tag.isOneOf, strIs_eq, strIsOneOf_cons, strIsOneOf_nil,
      Spec.TreeModes.blockStart, Spec.TreeTables.heading, Bool.or_false, h, if_true, if_false]

theorem b2_spec_plaintext (cfg : Config Id) (σ : SState) (st : STag) (h : st.name = "plaintext".toList) :
    Spec.TreeModes.inBody cfg σ (.startTag st)
      = (do
          let s ← Spec.TreeModes.insertHtml' (Spec.TreeModes.closePIfInButtonScope cfg σ) st
          pure (.done (s.switchTokenizer .plaintext))) := by
  simp +decide only [Spec.TreeModes.inBody, Spec.TreeModes.inBodyStartTag, Spec.TreeModes.inBodyStartTagCore,
    Spec.TreeModes.Tag.is, Spec.TreeModes.Tag.isOneOf, strIs_eq, strIsOneOf_cons, strIsOneOf_nil,
    Spec.TreeModes.blockStart, Spec.TreeTables.heading, Bool.or_false, h, if_true, if_false]

theorem b2_spec_button (cfg : Config Id) (σ : SState) (st : STag) (h : st.name = "button".toList) :
    Spec.TreeModes.inBody cfg σ (.startTag st)
      = (do
          let s ← Spec.TreeModes.reconstruct
            (if Spec.TreeModes.hasInScope cfg σ "button" then
              Spec.TreeModes.popUntilPopped (Spec.TreeModes.genImplied (σ.err "in body: button inside button")) "button"
            else σ)
          let s ← Spec.TreeModes.insertHtml' s st
          pure (.done s.notOk)) := by
  simp +decide only [Spec.TreeModes.inBody, Spec.TreeModes.inBodyStartTag, Spec.TreeModes.inBodyStartTagCore,
    Spec.TreeModes.Tag.is, Spec.TreeModes.Tag.isOneOf, strIs_eq, strIsOneOf_cons, strIsOneOf_nil,
    Spec.TreeModes.blockStart, Spec.TreeTables.heading, Bool.or_false, h, if_true, if_false]

theorem b2_spec_form (cfg : Config Id) (σ : SState) (st : STag) (h : st.name = "form".toList) :
    Spec.TreeModes.inBody cfg σ (.startTag st)
      = (if σ.p.formPointer.isSome && !σ.templateOnStack then pure (.done (σ.err "in body: nested form"))
         else do
          let r ← Spec.TreeModes.insertHtml (Spec.TreeModes.closePIfInButtonScope cfg σ) st
          pure (.done (if r.1.templateOnStack then r.1 else r.1.setForm (some r.2.id)))) := by
  simp +decide only [Spec.TreeModes.inBody, Spec.TreeModes.inBodyStartTag, Spec.TreeModes.inBodyStartTagCore,
    Spec.TreeModes.Tag.is, Spec.TreeModes.Tag.isOneOf, strIs_eq, strIsOneOf_cons, strIsOneOf_nil,
    Spec.TreeModes.blockStart, Spec.TreeTables.heading, Bool.or_false, h, if_true, if_false]

/-- `self.form_elem.set(Some(elem))` -/
theorem b2_pc_setForm {s : State} (hm : MInv s) (e : Id)
    (hel : s.dom.isElement e = true ∧ nameOf s.dom e ≠ ⟨nsHtml, "html".toList⟩) :
    PC (modS fun s => { s with formElem := some e }) s (fun _ s' calls => s' = { s with formElem := some e } ∧
      Tr s s' calls (fun x x' => x' = x ∧ absF s' x' = (absF s x).setForm (some e))) := by
  have hm0 : MInv { s with formElem := some e } :=
    ⟨hm.elems, hm.root, hm.af, hm.afEl, hm.head, hm.ctx, hm.afwf, hm.ip, hm.tmodes,
      (fun f hf => by cases hf; exact hel), hm.pend⟩
  refine pc_modS rfl rfl ⟨rfl, (Tr.of_upd (s' := { s with formElem := some e }) hm rfl (fun _ h => h)
    hm0 rfl).conseq ?_⟩
  intro x x' _ _ h
  subst h
  exact ⟨rfl, rfl⟩

/-- `self.ignore_lf.set(true)` -/
theorem b2_pc_setIgnoreLf {s : State} (hm : MInv s) :
    PC (modS fun s => { s with ignoreLf := true }) s (fun _ s' calls => s' = { s with ignoreLf := true } ∧
      Tr s s' calls (fun x x' => x' = x ∧ absF s' x' = { absF s x with ignoreLf := true })) := by
  refine pc_modS rfl rfl ⟨rfl, (Tr.of_upd (s' := { s with ignoreLf := true }) hm rfl (fun _ h => h)
    (hm.withIgnoreLf true) rfl).conseq ?_⟩
  intro x x' _ _ h
  subst h
  exact ⟨rfl, rfl⟩

/-! ### the arms -/

/-- `address` … `ul`, `menu` -/
theorem body_start_block {s : State} (hm : MInv s) {t : Tag} (hwf : TagWf t) (hk : t.kind = .startTag)
    (hn : isOneOf t.name ["address", "article", "aside", "blockquote", "center", "details", "dialog", "dir", "div", "dl",
      "fieldset", "figcaption", "figure", "footer", "header", "hgroup", "main", "nav", "ol", "p", "search", "section",
      "summary", "ul", "menu"] = true) :
    PC (b2_armBlock t) s (TokPost (fun σ => Spec.TreeModes.inBody (cfgOf s) σ (stokOf (.tag t))) s (.tag t)) := by
  unfold b2_armBlock
  refine pc_seq (pc_closePElementInButtonScope hm) ?_
  rintro _ s1 c1 he1 htr1
  refine pc_seq (pc_insertElementFor' htr1.1 hwf.plain) ?_
  rintro a s2 c2 he2 ⟨f, ho, hfresh, hel, hnm, htr2⟩
  refine pc_pure (tokPost_of_tr (by rw [List.append_nil]; exact htr1.trans htr2) trivial ?_)
  rintro x x'' hx hx'' ⟨x1, ⟨hx1, r1⟩, r2⟩
  refine ⟨x'', ?_, AuxSame.rfl', Or.inl rfl, rfl, rfl⟩
  simp only [stokOf, stokOfTag_start hk]
  rw [b2_spec_block _ _ _ hn, ← r1, r2]
  rfl

def b2_armHeading (t : Tag) : M ProcessResult := do
  closePElementInButtonScope
  if ← currentNodeIn headingTag then
    parseError "nested heading tags"
    let _ ← pop
  let _ ← insertElementFor t
  pure .done

theorem b2_step_heading {t : Tag} (hpre : bodyC1 t = false)
    (h0 : t.isStart ["address", "article", "aside", "blockquote", "center", "details", "dialog", "dir", "div", "dl",
    "fieldset", "figcaption", "figure", "footer", "header", "hgroup", "main", "nav", "ol", "p", "search", "section",
    "summary", "ul"] = false) (h0' : t.isStart ["menu"] = false)
    (h : t.isStart ["h1", "h2", "h3", "h4", "h5", "h6"] = true) : stepInBody (.tag t) = b2_armHeading t := by
  obtain ⟨h1, h2, h3, h4, h5, h6⟩ := b2_pre hpre
  simp only [stepInBody, h1, h2, h3, h4, h5, h6, h0, h0', h, if_true, if_false, Bool.false_eq_true]
  rfl

/-- the common end of several arms: "insert an HTML element for the token", done -/
theorem b2_tail_insert {s s0 : State} {t : Tag} {c0 : List Call} {R : Aux → Aux → Prop} (htr0 : Tr s s0 c0 R)
    (hwf : TagWf t) (spec : SState → Spec.TreeModes.M (Step Id))
    (hspec : ∀ x x0, AuxOk s x → AuxOk s0 x0 → R x x0 → ∀ σ',
      Spec.TreeModes.insertHtml' (absF s0 x0) (specTag t) = .ok σ' → spec (absF s x) = .ok (.done σ')) :
    PC (do let _ ← insertElementFor t; pure ProcessResult.done) s0
      (fun r s2 c2 => TokPost spec s (.tag t) r s2 (c0 ++ c2)) := by
  refine pc_seq (pc_insertElementFor' htr0.1 hwf.plain) ?_
  rintro a s2 c2 he2 ⟨f, ho, hfresh, hel, hnm, htr2⟩
  have htr0' := htr0.conseq (R' := fun x x' => AuxOk s0 x' ∧ R x x') fun x x' _ hx' r => ⟨hx', r⟩
  refine pc_pure (tokPost_of_tr (by rw [List.append_nil]; exact htr0'.trans htr2) trivial ?_)
  rintro x x'' hx hx'' ⟨x0, ⟨hx0, r0⟩, r2⟩
  exact ⟨x'', hspec x x0 hx hx0 r0 _ r2, AuxSame.rfl', Or.inl rfl, rfl, rfl⟩

theorem body_start_heading {s : State} (hm : MInv s) {t : Tag} (hwf : TagWf t) (hk : t.kind = .startTag)
    (hn : isOneOf t.name ["h1", "h2", "h3", "h4", "h5", "h6"] = true) :
    PC (b2_armHeading t) s (TokPost (fun σ => Spec.TreeModes.inBody (cfgOf s) σ (stokOf (.tag t))) s (.tag t)) := by
  unfold b2_armHeading
  refine pc_seq (pc_closePElementInButtonScope hm) ?_
  rintro _ s1 c1 he1 htr1
  refine pc_seq (pc_currentNodeIn_heading htr1.1) ?_
  rintro b s2 c2 he2 htr2
  have hsp : ∀ σ : SState, Spec.TreeModes.inBody (cfgOf s) σ (stokOf (.tag t)) =
      (.done <$> Spec.TreeModes.insertHtml'
        (if (Spec.TreeModes.closePIfInButtonScope (cfgOf s) σ).curIn Spec.TreeTables.heading
          then ((Spec.TreeModes.closePIfInButtonScope (cfgOf s) σ).err "in body: heading inside heading").pop
          else Spec.TreeModes.closePIfInButtonScope (cfgOf s) σ) (specTag t)) := by
    intro σ
    simp only [stokOf, stokOfTag_start hk]
    exact b2_spec_heading _ _ _ hn
  cases b
  · simp only [Bool.false_eq_true, if_false]
    simp only [← List.append_assoc]
    refine b2_tail_insert (htr1.trans htr2) hwf _ ?_
    rintro x x2 hx hx2 ⟨x1, ⟨hx1, r1⟩, hxx, r2, r3⟩ σ' hi
    subst hxx
    rw [hsp, ← r1, ← r3, if_neg (by simp), r2, hi]
    rfl
  · simp only [if_true]
    refine pc_seq (pc_parseError htr2.1 _) ?_
    rintro _ s3 c3 he3 htr3
    refine pc_seq (pc_pop htr3.1) ?_
    rintro _ s4 c4 he4 ⟨-, -, -, htr4⟩
    have htr := (((htr1.trans htr2).trans (Tr.err htr2.1 "in body: heading inside heading")).trans htr3).trans htr4
    simp only [List.append_nil] at htr
    simp only [← List.append_assoc]
    refine b2_tail_insert htr hwf _ ?_
    rintro x x5 hx hx5 ⟨x4, ⟨x3, ⟨x2, ⟨x1, ⟨hx1, r1⟩, hxx, r2, r3⟩, he⟩, hxx3, r4⟩, hxx4, r5, -⟩ σ' hi
    subst hxx hxx3 hxx4
    rw [hsp, ← r1, ← r3, if_pos rfl]
    rw [r5, ← r4, he, absF_err, ← r2] at hi
    rw [hi]
    rfl

def b2_armPre (t : Tag) : M ProcessResult := do
  closePElementInButtonScope
  let _ ← insertElementFor t
  modS fun s => { s with ignoreLf := true }
  setFramesetOk false
  pure .done

theorem b2_step_pre {t : Tag} (hpre : bodyC1 t = false)
    (h0 : t.isStart ["address", "article", "aside", "blockquote", "center", "details", "dialog", "dir", "div", "dl",
    "fieldset", "figcaption", "figure", "footer", "header", "hgroup", "main", "nav", "ol", "p", "search", "section",
    "summary", "ul"] = false) (h0' : t.isStart ["menu"] = false)
    (h0'' : t.isStart ["h1", "h2", "h3", "h4", "h5", "h6"] = false)
    (h : t.isStart ["pre", "listing"] = true) : stepInBody (.tag t) = b2_armPre t := by
  obtain ⟨h1, h2, h3, h4, h5, h6⟩ := b2_pre hpre
  simp only [stepInBody, h1, h2, h3, h4, h5, h6, h0, h0', h0'', h, if_true, if_false, Bool.false_eq_true]
  rfl

/-- `pre`, `listing` -/
theorem body_start_pre {s : State} (hm : MInv s) {t : Tag} (hwf : TagWf t) (hk : t.kind = .startTag)
    (hn : isOneOf t.name ["pre", "listing"] = true) :
    PC (b2_armPre t) s (TokPost (fun σ => Spec.TreeModes.inBody (cfgOf s) σ (stokOf (.tag t))) s (.tag t)) := by
  unfold b2_armPre
  refine pc_seq (pc_closePElementInButtonScope hm) ?_
  rintro _ s1 c1 he1 htr1
  refine pc_seq (pc_insertElementFor' htr1.1 hwf.plain) ?_
  rintro a s2 c2 he2 ⟨f, ho, hfresh, hel, hnm, htr2⟩
  refine pc_seq (b2_pc_setIgnoreLf htr2.1) ?_
  rintro _ s3 c3 he3 ⟨-, htr3⟩
  refine pc_seq (pc_setFramesetNotOk htr3.1) ?_
  rintro _ s4 c4 he4 ⟨-, htr4⟩
  refine pc_pure (tokPost_of_tr (calls := c1 ++ (c2 ++ (c3 ++ (c4 ++ []))))
    (by simp only [List.append_nil, ← List.append_assoc]; exact ((htr1.trans htr2).trans htr3).trans htr4) trivial ?_)
  rintro x x'' hx hx'' ⟨x3, ⟨x2, ⟨x1, ⟨hx1, r1⟩, r2⟩, hxx, r3⟩, hxx', r4⟩
  subst hxx hxx'
  refine ⟨x'', ?_, AuxSame.rfl', Or.inl rfl, rfl, rfl⟩
  simp only [stokOf, stokOfTag_start hk]
  rw [b2_spec_pre _ _ _ hn, ← r1, r2]
  simp only [stepOf, r4, r3]
  rfl

def b2_armPlaintext (t : Tag) : M ProcessResult := do
  closePElementInButtonScope
  let _ ← insertElementFor t
  pure .toPlaintext

def b2_armButton (t : Tag) : M ProcessResult := do
  if ← inScopeNamed defaultScope "button" then
    parseError "nested buttons"
    generateImpliedEndTags cursoryImpliedEnd
    let _ ← popUntilNamed "button"
  reconstructActiveFormattingElements
  let _ ← insertElementFor t
  setFramesetOk false
  pure .done

/-- `plaintext` -/
theorem body_start_plaintext {s : State} (hm : MInv s) {t : Tag} (hwf : TagWf t) (hk : t.kind = .startTag)
    (hn : t.name = "plaintext".toList) :
    PC (b2_armPlaintext t) s (TokPost (fun σ => Spec.TreeModes.inBody (cfgOf s) σ (stokOf (.tag t))) s (.tag t)) := by
  unfold b2_armPlaintext
  refine pc_seq (pc_closePElementInButtonScope hm) ?_
  rintro _ s1 c1 he1 htr1
  refine pc_seq (pc_insertElementFor' htr1.1 hwf.plain) ?_
  rintro a s2 c2 he2 ⟨f, ho, hfresh, hel, hnm, htr2⟩
  refine pc_pure (tokPost_toPlaintext (by rw [List.append_nil]; exact htr1.trans htr2) ?_)
  rintro x x'' hx hx'' ⟨x1, ⟨hx1, r1⟩, r2⟩
  simp only [stokOf, stokOfTag_start hk]
  rw [b2_spec_plaintext _ _ _ hn, ← r1, r2]
  rfl

/-- the end of the `button` arm -/
theorem b2_tail_button {s s0 : State} {t : Tag} {c0 : List Call} {R : Aux → Aux → Prop} (htr0 : Tr s s0 c0 R)
    (hwf : TagWf t) (spec : SState → Spec.TreeModes.M (Step Id))
    (hspec : ∀ x x0, AuxOk s x → AuxOk s0 x0 → R x x0 → ∀ σ1 σ',
      Spec.TreeModes.reconstruct (absF s0 x0) = .ok σ1 →
      Spec.TreeModes.insertHtml' σ1 (specTag t) = .ok σ' → spec (absF s x) = .ok (.done σ'.notOk)) :
    PC (do reconstructActiveFormattingElements; let _ ← insertElementFor t; setFramesetOk false; pure ProcessResult.done) s0
      (fun r s2 c2 => TokPost spec s (.tag t) r s2 (c0 ++ c2)) := by
  refine pc_seq (pc_reconstruct htr0.1) ?_
  rintro _ s1 c1 he1 ⟨-, -, htr1⟩
  refine pc_seq (pc_insertElementFor' htr1.1 hwf.plain) ?_
  rintro a s2 c2 he2 ⟨f, ho, hfresh, hel, hnm, htr2⟩
  refine pc_seq (pc_setFramesetNotOk htr2.1) ?_
  rintro _ s3 c3 he3 ⟨-, htr3⟩
  have htr0' := htr0.conseq (R' := fun x x' => AuxOk s0 x' ∧ R x x') fun x x' _ hx' r => ⟨hx', r⟩
  refine pc_pure (tokPost_of_tr (calls := c0 ++ (c1 ++ (c2 ++ (c3 ++ []))))
    (by simp only [List.append_nil, ← List.append_assoc]; exact ((htr0'.trans htr1).trans htr2).trans htr3) trivial ?_)
  rintro x x'' hx hx'' ⟨x2, ⟨x1, ⟨x0, ⟨hx0, r0⟩, r1⟩, r2⟩, hxx, r3⟩
  subst hxx
  refine ⟨x'', ?_, AuxSame.rfl', Or.inl rfl, rfl, rfl⟩
  rw [hspec x x0 hx hx0 r0 _ _ r1 r2]
  simp only [stepOf, r3]

/-- `button` -/
theorem body_start_button {s : State} (hm : MInv s) {t : Tag} (hwf : TagWf t) (hk : t.kind = .startTag)
    (hn : t.name = "button".toList) :
    PC (b2_armButton t) s (TokPost (fun σ => Spec.TreeModes.inBody (cfgOf s) σ (stokOf (.tag t))) s (.tag t)) := by
  unfold b2_armButton
  have hsp : ∀ σ : SState, Spec.TreeModes.inBody (cfgOf s) σ (stokOf (.tag t)) = _ := fun σ => by
    simp only [stokOf, stokOfTag_start hk]
    exact b2_spec_button _ _ _ hn
  refine pc_seq (pc_inScopeNamed_default hm "button") ?_
  rintro b s1 c1 he1 htr1
  cases b
  · simp only [Bool.false_eq_true, if_false]
    refine b2_tail_button htr1 hwf _ ?_
    rintro x x1 hx hx1 ⟨hxx, r1, r2⟩ σ1 σ' h1 h2
    subst hxx
    rw [hsp, ← r2, if_neg (by simp), r1, h1]
    simp only [bind, Except.bind, h2]
    rfl
  · simp only [if_true]
    refine pc_seq (pc_parseError htr1.1 _) ?_
    rintro _ s2 c2 he2 htr2
    refine pc_seq (pc_generateImpliedEndTags_cursory htr2.1) ?_
    rintro _ s3 c3 he3 htr3
    refine pc_seq (pc_popUntilNamed htr3.1 "button") ?_
    rintro _ s4 c4 he4 htr4
    have htr := (((htr1.trans (Tr.err htr1.1 "in body: button inside button")).trans htr2).trans htr3).trans htr4
    simp only [List.append_nil] at htr
    simp only [← List.append_assoc]
    refine b2_tail_button htr hwf _ ?_
    rintro x x5 hx hx5 ⟨x4, ⟨x3, ⟨x2, ⟨x1, ⟨hxx, r1, r2⟩, he⟩, hxx2, r3⟩, hxx3, r4⟩, hxx4, r5, -⟩ σ1 σ' h1 h2
    subst hxx hxx2 hxx3 hxx4
    rw [hsp, ← r2, if_pos rfl]
    rw [r5, r4, ← r3, he, absF_err, ← r1] at h1
    rw [h1]
    simp only [bind, Except.bind, h2]
    rfl

def b2_formRest (t : Tag) (nested : Bool) : M ProcessResult := do
  if nested then parseError "nested forms"
  else
    closePElementInButtonScope
    let elem ← insertElementFor t
    if !(← inHtmlElemNamed "template") then
      modS fun s => { s with formElem := some elem }
  pure .done

def b2_armForm (t : Tag) : M ProcessResult := do
  let nested ← if (← getS).formElem.isSome then (do pure (!(← inHtmlElemNamed "template"))) else pure false
  b2_formRest t nested

theorem b2_formRest_sim {s s0 : State} {t : Tag} {c0 : List Call} {R : Aux → Aux → Prop} (htr0 : Tr s s0 c0 R)
    (hwf : TagWf t) (hk : t.kind = .startTag) (hn : t.name = "form".toList) (nested : Bool)
    (hR : ∀ x x0, R x x0 → x0 = x ∧ absF s x = absF s0 x ∧
      nested = ((absF s x).p.formPointer.isSome && !(absF s x).templateOnStack)) :
    PC (b2_formRest t nested) s0
      (fun r s2 c2 => TokPost (fun σ => Spec.TreeModes.inBody (cfgOf s) σ (stokOf (.tag t))) s (.tag t) r s2 (c0 ++ c2)) := by
  unfold b2_formRest
  have hsp : ∀ σ : SState, Spec.TreeModes.inBody (cfgOf s) σ (stokOf (.tag t)) = _ := fun σ => by
    simp only [stokOf, stokOfTag_start hk]
    exact b2_spec_form _ _ _ hn
  have hc0 : cfgOf s0 = cfgOf s := htr0.2.1
  cases nested
  · simp only [Bool.false_eq_true, if_false]
    refine pc_seq (pc_closePElementInButtonScope htr0.1) ?_
    rintro _ s1 c1 he1 htr1
    refine pc_seq (pc_insertElementFor htr1.1 hwf.plain) ?_
    rintro a s2 c2 he2 ⟨f, ho, hfresh, hel, hnm, htr2⟩
    refine pc_seq (pc_inHtmlElemNamed_template htr2.1) ?_
    rintro b s3 c3 he3 htr3
    cases b
    · simp only [Bool.not_false, if_true]
      refine pc_seq (b2_pc_setForm htr3.1 a ⟨isElement_ext he3.ext hel, by
        rw [nameOf_ext he3.ext hel, hnm, hn]; decide⟩) ?_
      rintro _ s4 c4 he4 ⟨-, htr4⟩
      refine pc_pure (tokPost_of_tr (calls := c0 ++ (c1 ++ (c2 ++ (c3 ++ (c4 ++ [])))))
        (by simp only [List.append_nil, ← List.append_assoc]; exact (((htr0.trans htr1).trans htr2).trans htr3).trans htr4) trivial ?_)
      rintro x x'' hx hx'' ⟨x3, ⟨x2, ⟨x1, ⟨x0, r0, hx1, r1⟩, r2⟩, hxx, r3, r3'⟩, hxx', r4⟩
      obtain ⟨hx0, e0, e0'⟩ := hR x x0 r0
      subst hxx hxx' hx0
      refine ⟨x'', ?_, AuxSame.rfl', Or.inl rfl, rfl, rfl⟩
      rw [hsp, ← e0', if_neg (by simp), e0, ← hc0, ← r1, r2]
      simp only [stepOf, r4, ← r3, bind, Except.bind, pure, Except.pure, ← r3', Bool.false_eq_true, if_false]
      rfl
    · simp only [Bool.not_true, Bool.false_eq_true, if_false]
      refine pc_pure (tokPost_of_tr (calls := c0 ++ (c1 ++ (c2 ++ (c3 ++ []))))
        (by simp only [List.append_nil, ← List.append_assoc]; exact ((htr0.trans htr1).trans htr2).trans htr3) trivial ?_)
      rintro x x'' hx hx'' ⟨x2, ⟨x1, ⟨x0, r0, hx1, r1⟩, r2⟩, hxx, r3, r3'⟩
      obtain ⟨hx0, e0, e0'⟩ := hR x x0 r0
      subst hxx hx0
      refine ⟨x'', ?_, AuxSame.rfl', Or.inl rfl, rfl, rfl⟩
      rw [hsp, ← e0', if_neg (by simp), e0, ← hc0, ← r1, r2]
      simp only [stepOf, ← r3, bind, Except.bind, pure, Except.pure, ← r3', if_true]
  · simp only [if_true]
    refine pc_seq (pc_parseError htr0.1 _) ?_
    rintro _ s1 c1 he1 htr1
    refine pc_pure (tokPost_of_tr (calls := c0 ++ (c1 ++ []))
      (by simp only [List.append_nil]; exact htr0.trans htr1) trivial ?_)
    rintro x x'' hx hx'' ⟨x0, r0, hxx, r1⟩
    obtain ⟨hx0, e0, e0'⟩ := hR x x0 r0
    subst hxx hx0
    refine ⟨{ x'' with errors := x''.errors ++ ["in body: nested form"] }, ?_, ⟨rfl, rfl, rfl, rfl, rfl⟩, Or.inl rfl, rfl, rfl⟩
    rw [hsp, ← e0', if_pos rfl, e0, r1]
    rfl

/-- `form` -/
theorem body_start_form {s : State} (hm : MInv s) {t : Tag} (hwf : TagWf t) (hk : t.kind = .startTag)
    (hn : t.name = "form".toList) :
    PC (b2_armForm t) s (TokPost (fun σ => Spec.TreeModes.inBody (cfgOf s) σ (stokOf (.tag t))) s (.tag t)) := by
  unfold b2_armForm
  refine pc_getS_bind ?_
  cases hf : s.formElem with
  | none =>
    simp only [Option.isSome_none, Bool.false_eq_true, if_false, pure_bind]
    refine pc_conseq (b2_formRest_sim (Tr.refl hm) hwf hk hn false ?_) (fun r s' c _ h => by rwa [List.nil_append] at h)
    rintro x x0 rfl
    refine ⟨rfl, rfl, ?_⟩
    show false = ((s.formElem).isSome && _)
    rw [hf]; rfl
  | some fe =>
    simp only [Option.isSome_some, if_true]
    refine pc_seq (pc_seq (pc_inHtmlElemNamed_template hm) (Q := fun b s' c => Tr s s' c (fun x x' => x' = x ∧ absF s x = absF s' x ∧
        b = !(absF s x).templateOnStack)) ?_) ?_
    · rintro b s1 c1 he1 htr1
      refine pc_pure ?_
      rw [List.append_nil]
      refine htr1.conseq ?_
      rintro x x' _ _ ⟨h1, h2, h3⟩
      exact ⟨h1, h2, by rw [h3]⟩
    · rintro b s1 c1 he1 htr1
      refine b2_formRest_sim htr1 hwf hk hn b ?_
      rintro x x0 ⟨h1, h2, h3⟩
      refine ⟨h1, h2, ?_⟩
      rw [h3]
      show _ = ((s.formElem).isSome && _)
      rw [hf]; rfl

theorem b2_step_form {t : Tag} (hpre : bodyC1 t = false)
    (h0 : t.isStart ["address", "article", "aside", "blockquote", "center", "details", "dialog", "dir", "div", "dl",
    "fieldset", "figcaption", "figure", "footer", "header", "hgroup", "main", "nav", "ol", "p", "search", "section",
    "summary", "ul"] = false) (h0a : t.isStart ["menu"] = false)
    (h0b : t.isStart ["h1", "h2", "h3", "h4", "h5", "h6"] = false) (h0c : t.isStart ["pre", "listing"] = false)
    (h : t.isStart ["form"] = true) : stepInBody (.tag t) = b2_armForm t := by
  obtain ⟨h1, h2, h3, h4, h5, h6⟩ := b2_pre hpre
  simp only [stepInBody, h1, h2, h3, h4, h5, h6, h0, h0a, h0b, h0c, h, if_true, if_false, Bool.false_eq_true]
  rfl

/-! ### `li`, `dd`, `dt` -/

/-- the value of `listCloseSearch` -/
def b2_listPure (list : Bool) (nm : Id → EName) : List Id → Option Str
  | [] => none
  | h :: r =>
    if (if list then closeList (nm h) else closeDefn (nm h)) then some (nm h).loc
    else if extraSpecial (nm h) then none
    else b2_listPure list nm r

theorem b2_tot_listCloseSearch (list : Bool) (nm : Id → EName) : ∀ (r : List Id) (s : State), NamedBy s.dom r nm →
    Tot (listCloseSearch list r) s (QueryQ s (b2_listPure list nm r)) := by
  intro r
  induction r with
  | nil => intro s _; exact tot_pure ⟨rfl, rfl, rfl⟩
  | cons h r ih =>
    intro s hn
    simp only [listCloseSearch, b2_listPure]
    refine tot_query_query (tot_elemName' s h) fun s1 c1 he1 hs1 => ?_
    rw [(hn h (List.mem_cons_self ..)).2]
    by_cases hc : (if list then closeList (nm h) else closeDefn (nm h)) = true
    · simp only [hc, if_true]
      exact tot_pure ⟨rfl, rfl, rfl⟩
    · simp only [hc, Bool.false_eq_true, if_false]
      by_cases hx : extraSpecial (nm h) = true
      · simp only [hx, if_true]
        exact tot_pure ⟨rfl, rfl, rfl⟩
      · simp only [hx, Bool.false_eq_true, if_false]
        exact ih s1 (hn.tail.stable he1.stable)

def b2_liNames (list : Bool) : List String := if list then ["li"] else ["dd", "dt"]

theorem b2_listPure_eq (list : Bool) (d : Dom) : ∀ r : List Id,
    b2_listPure list (nameOf d) r = Spec.TreeModes.listItemLoop (b2_liNames list) (absStack d r)
  | [] => rfl
  | h :: r => by
    have e1 : (if list then closeList (nameOf d h) else closeDefn (nameOf d h))
        = Spec.TreeAlgo.inHtml (b2_liNames list) (elemOf d h).name := by
      cases list <;> rfl
    have e2 : extraSpecial (nameOf d h)
        = (Spec.TreeAlgo2.isSpecial (elemOf d h) && !Spec.TreeAlgo.inHtml ["address", "div", "p"] (elemOf d h).name) := by
      have e3 : htmlIn (nameOf d h) ["address", "div", "p"] = Spec.TreeAlgo.inHtml ["address", "div", "p"] (elemOf d h).name := rfl
      unfold extraSpecial
      rw [e3, specialTag_eq]
      cases Spec.TreeAlgo.inHtml ["address", "div", "p"] (elemOf d h).name <;> simp
    have e4 : (elemOf d h).name.loc = (nameOf d h).loc := rfl
    simp only [b2_listPure, absStack, List.map_cons, Spec.TreeModes.listItemLoop, e1, e2, e4]
    rw [show List.map (elemOf d) r = absStack d r from rfl, ← b2_listPure_eq list d r]

theorem b2_pc_listCloseSearch {s : State} (hm : MInv s) (list : Bool) :
    PC (listCloseSearch list s.openElems.reverse) s (fun a s' calls =>
      Tr s s' calls (fun x x' => x' = x ∧ absF s x = absF s' x ∧
        a = Spec.TreeModes.listItemLoop (b2_liNames list) (absF s x).p.stack.reverse)) := by
  refine pc_query_spec hm (b2_tot_listCloseSearch list (nameOf s.dom) s.openElems.reverse s
    (NamedBy.of_elemsOk hm.elems).reverse) (fun σ => Spec.TreeModes.listItemLoop (b2_liNames list) σ.p.stack.reverse) ?_
  intro x hx
  show Spec.TreeModes.listItemLoop (b2_liNames list) (absF s x).p.stack.reverse = _
  rw [absF_stack hx, b2_listPure_eq]
  congr 1
  simp only [absStack, List.map_reverse]

/-- steps 3.1–3.3 of the `li` / `dd`,`dt` clause -/
def b2_liClose (σ : SState) (n : Str) : SState :=
  Spec.TreeModes.popUntilPoppedStr
    (if (Spec.TreeModes.genImpliedExceptStr σ n).cur.any (fun e => Spec.TreeModes.isNamed n e.name)
      then Spec.TreeModes.genImpliedExceptStr σ n
      else (Spec.TreeModes.genImpliedExceptStr σ n).err "in body: li/dd/dt, current node differs") n

theorem b2_listItem_some (cfg : Config Id) (σ : SState) (st : STag) (names : List String) (n : Str)
    (h : Spec.TreeModes.listItemLoop names σ.p.stack.reverse = some n) :
    Spec.TreeModes.inBodyListItem cfg σ st names
      = (.done <$> Spec.TreeModes.insertHtml' (Spec.TreeModes.closePIfInButtonScope cfg (b2_liClose σ.notOk n)) st) := by
  have h' : Spec.TreeModes.listItemLoop names σ.notOk.p.stack.reverse = some n := h
  simp only [Spec.TreeModes.inBodyListItem, h']
  rfl

theorem b2_listItem_none (cfg : Config Id) (σ : SState) (st : STag) (names : List String)
    (h : Spec.TreeModes.listItemLoop names σ.p.stack.reverse = none) :
    Spec.TreeModes.inBodyListItem cfg σ st names
      = (.done <$> Spec.TreeModes.insertHtml' (Spec.TreeModes.closePIfInButtonScope cfg σ.notOk) st) := by
  have h' : Spec.TreeModes.listItemLoop names σ.notOk.p.stack.reverse = none := h
  simp only [Spec.TreeModes.inBodyListItem, h']

theorem b2_spec_li (cfg : Config Id) (σ : SState) (st : STag) (h : isOneOf st.name ["li", "dd", "dt"] = true) :
    Spec.TreeModes.inBody cfg σ (.startTag st)
      = Spec.TreeModes.inBodyListItem cfg σ st (b2_liNames (isName st.name "li")) := by
  simp only [isOneOf_cons, isOneOf_nil, Bool.or_false, Bool.or_eq_true, decide_eq_true_eq] at h
  rcases h with h | h | h <;>
    simp +decide only [Spec.TreeModes.inBody, Spec.TreeModes.inBodyStartTag, Spec.TreeModes.inBodyStartTagCore,
      Spec.TreeModes.Tag.is, Spec.TreeModes.Tag.isOneOf, strIs_eq, strIsOneOf_cons, strIsOneOf_nil,
      Spec.TreeModes.blockStart, Spec.TreeTables.heading, Bool.or_false, h, if_true, if_false, b2_liNames, isName_eq]

/-- the common end of several arms: close a `p` element in button scope, insert an HTML element, done -/
theorem b2_tail_block {s s0 : State} {t : Tag} {c0 : List Call} {R : Aux → Aux → Prop} (htr0 : Tr s s0 c0 R)
    (hwf : TagWf t) (spec : SState → Spec.TreeModes.M (Step Id))
    (hspec : ∀ x x0, AuxOk s x → AuxOk s0 x0 → R x x0 → ∀ σ',
      Spec.TreeModes.insertHtml' (Spec.TreeModes.closePIfInButtonScope (cfgOf s) (absF s0 x0)) (specTag t) = .ok σ' →
      spec (absF s x) = .ok (.done σ')) :
    PC (b2_armBlock t) s0 (fun r s2 c2 => TokPost spec s (.tag t) r s2 (c0 ++ c2)) := by
  unfold b2_armBlock
  refine pc_seq (pc_closePElementInButtonScope htr0.1) ?_
  rintro _ s1 c1 he1 htr1
  have htr0' := htr0.conseq (R' := fun x x' => AuxOk s0 x' ∧ R x x') fun x x' _ hx' r => ⟨hx', r⟩
  simp only [← List.append_assoc]
  refine b2_tail_insert (htr0'.trans htr1) hwf spec ?_
  rintro x x1 hx hx1 ⟨x0, ⟨hx0, r0⟩, -, r1⟩ σ' hi
  rw [r1, htr0.2.1] at hi
  exact hspec x x0 hx hx0 r0 σ' hi

def b2_armLi (t : Tag) : M ProcessResult := do
  setFramesetOk false
  let toClose ← listCloseSearch (isName t.name "li") (← getS).openElems.reverse
  match toClose with
  | some name =>
    generateImpliedEndExcept name
    expectToCloseS name
  | none => pure ()
  closePElementInButtonScope
  let _ ← insertElementFor t
  pure .done

theorem b2_liClose_eq (n : Str) (σ : SState) :
    b2_liClose σ n = { Spec.TreeModes.popUntilPoppedStr (Spec.TreeModes.genImpliedExceptStr σ n) n with
      errors := (b2_liClose σ n).errors } := by
  unfold b2_liClose
  split <;> rfl

/-- `li`, `dd`, `dt` -/
theorem body_start_li {s : State} (hm : MInv s) {t : Tag} (hwf : TagWf t) (hk : t.kind = .startTag)
    (hn : isOneOf t.name ["li", "dd", "dt"] = true) :
    PC (b2_armLi t) s (TokPost (fun σ => Spec.TreeModes.inBody (cfgOf s) σ (stokOf (.tag t))) s (.tag t)) := by
  unfold b2_armLi
  have hsp : ∀ σ : SState, Spec.TreeModes.inBody (cfgOf s) σ (stokOf (.tag t)) = _ := fun σ => by
    simp only [stokOf, stokOfTag_start hk]
    exact b2_spec_li _ _ _ hn
  simp only [specTag_name] at hsp
  refine pc_seq (pc_setFramesetNotOk hm) ?_
  rintro _ s1 c1 he1 ⟨-, htr1⟩
  refine pc_getS_bind ?_
  refine pc_seq (b2_pc_listCloseSearch htr1.1 _) ?_
  rintro a s2 c2 he2 htr2
  cases a with
  | none =>
    simp only []
    simp only [← List.append_assoc]
    refine b2_tail_block (htr1.trans htr2) hwf _ ?_
    rintro x x2 hx hx2 ⟨x1, ⟨hxx1, r1⟩, hxx2, r2, r3⟩ σ' hi
    subst x2 x1
    have h3 : Spec.TreeModes.listItemLoop (b2_liNames (isName t.name "li")) (absF s x).p.stack.reverse = none := by
      have := r3.symm; rw [r1] at this; exact this
    rw [hsp, b2_listItem_none _ _ _ _ h3]
    rw [← r2, r1] at hi
    rw [hi]
    rfl
  | some name =>
    simp only []
    refine pc_seq (pc_generateImpliedEndExcept htr2.1 name) ?_
    rintro _ s3 c3 he3 htr3
    refine pc_seq (pc_expectToCloseS htr3.1 name) ?_
    rintro _ s4 c4 he4 htr4
    have htr34 := (htr3.trans htr4).conseq (R' := fun x x' => x' = x ∧ absF s4 x =
        (fun σ => Spec.TreeModes.popUntilPoppedStr (Spec.TreeModes.genImpliedExceptStr σ name) name) (absF s2 x)) (by
      rintro x x' _ _ ⟨x3, ⟨h1, h2⟩, h3, h4⟩
      subst x' x3
      exact ⟨rfl, by rw [h4, h2]⟩)
    have htrE := Tr.withErrors (H := fun σ => b2_liClose σ name) (b2_liClose_eq name) htr34
    have htr := (htr1.trans htr2).trans htrE
    simp only [← List.append_assoc] at htr ⊢
    refine b2_tail_block htr hwf _ ?_
    rintro x x4 hx hx4 ⟨x2, ⟨x1, ⟨hxx1, r1⟩, hxx2, r2, r3⟩, hxe, r4⟩ σ' hi
    subst x2 x1
    have h3 : Spec.TreeModes.listItemLoop (b2_liNames (isName t.name "li")) (absF s x).p.stack.reverse = some name := by
      have := r3.symm; rw [r1] at this; exact this
    rw [hsp, b2_listItem_some _ _ _ _ _ h3]
    rw [r4, ← r2, r1] at hi
    rw [hi]
    rfl

theorem b2_step_li {t : Tag} (hpre : bodyC1 t = false)
    (h0 : t.isStart ["address", "article", "aside", "blockquote", "center", "details", "dialog", "dir", "div", "dl",
    "fieldset", "figcaption", "figure", "footer", "header", "hgroup", "main", "nav", "ol", "p", "search", "section",
    "summary", "ul"] = false) (h0a : t.isStart ["menu"] = false)
    (h0b : t.isStart ["h1", "h2", "h3", "h4", "h5", "h6"] = false) (h0c : t.isStart ["pre", "listing"] = false)
    (h0d : t.isStart ["form"] = false)
    (h : t.isStart ["li", "dd", "dt"] = true) : stepInBody (.tag t) = b2_armLi t := by
  obtain ⟨h1, h2, h3, h4, h5, h6⟩ := b2_pre hpre
  simp only [stepInBody, h1, h2, h3, h4, h5, h6, h0, h0a, h0b, h0c, h0d, h, if_true, if_false, Bool.false_eq_true]
  rfl

theorem b2_step_plaintext {t : Tag} (hpre : bodyC1 t = false)
    (h0 : t.isStart ["address", "article", "aside", "blockquote", "center", "details", "dialog", "dir", "div", "dl",
    "fieldset", "figcaption", "figure", "footer", "header", "hgroup", "main", "nav", "ol", "p", "search", "section",
    "summary", "ul"] = false) (h0a : t.isStart ["menu"] = false)
    (h0b : t.isStart ["h1", "h2", "h3", "h4", "h5", "h6"] = false) (h0c : t.isStart ["pre", "listing"] = false)
    (h0d : t.isStart ["form"] = false) (h0e : t.isStart ["li", "dd", "dt"] = false)
    (h : t.isStart ["plaintext"] = true) : stepInBody (.tag t) = b2_armPlaintext t := by
  obtain ⟨h1, h2, h3, h4, h5, h6⟩ := b2_pre hpre
  simp only [stepInBody, h1, h2, h3, h4, h5, h6, h0, h0a, h0b, h0c, h0d, h0e, h, if_true, if_false, Bool.false_eq_true]
  rfl

theorem b2_step_button {t : Tag} (hpre : bodyC1 t = false)
    (h0 : t.isStart ["address", "article", "aside", "blockquote", "center", "details", "dialog", "dir", "div", "dl",
    "fieldset", "figcaption", "figure", "footer", "header", "hgroup", "main", "nav", "ol", "p", "search", "section",
    "summary", "ul"] = false) (h0a : t.isStart ["menu"] = false)
    (h0b : t.isStart ["h1", "h2", "h3", "h4", "h5", "h6"] = false) (h0c : t.isStart ["pre", "listing"] = false)
    (h0d : t.isStart ["form"] = false) (h0e : t.isStart ["li", "dd", "dt"] = false)
    (h0f : t.isStart ["plaintext"] = false)
    (h : t.isStart ["button"] = true) : stepInBody (.tag t) = b2_armButton t := by
  obtain ⟨h1, h2, h3, h4, h5, h6⟩ := b2_pre hpre
  simp only [stepInBody, h1, h2, h3, h4, h5, h6, h0, h0a, h0b, h0c, h0d, h0e, h0f, h, if_true, if_false, Bool.false_eq_true]
  rfl

theorem b2_step_menu {t : Tag} (hpre : bodyC1 t = false)
    (h0 : t.isStart ["address", "article", "aside", "blockquote", "center", "details", "dialog", "dir", "div", "dl",
    "fieldset", "figcaption", "figure", "footer", "header", "hgroup", "main", "nav", "ol", "p", "search", "section",
    "summary", "ul"] = false) (h : t.isStart ["menu"] = true) : stepInBody (.tag t) = b2_armBlock t := by
  obtain ⟨h1, h2, h3, h4, h5, h6⟩ := b2_pre hpre
  simp only [stepInBody, h1, h2, h3, h4, h5, h6, h0, h, if_true, if_false, Bool.false_eq_true]
  rfl

/-! ### the slice -/

theorem b2_isOneOf_append (n : Str) (a b : List String) : isOneOf n (a ++ b) = (isOneOf n a || isOneOf n b) := by
  simp only [isOneOf, List.any_append]

/-- **"in body", the block-level start tags**: `address` … `ul`, `menu`, `h1`–`h6`, `pre`/`listing`, `form`,
`li`/`dd`/`dt`, `plaintext`, `button` -/
theorem bodySlice2 : BodySliceSim bodyC1 bodyC2 := by
  intro t hwf hpre hc s hm
  cases h0 : t.isStart ["address", "article", "aside", "blockquote", "center", "details", "dialog", "dir", "div", "dl",
    "fieldset", "figcaption", "figure", "footer", "header", "hgroup", "main", "nav", "ol", "p", "search", "section",
    "summary", "ul"] with
  | true =>
    rw [b2_step_block hpre h0]
    obtain ⟨hk, hn⟩ := b2_start h0
    refine body_start_block hm hwf hk ?_
    show isOneOf t.name (["address", "article", "aside", "blockquote", "center", "details", "dialog", "dir", "div", "dl",
      "fieldset", "figcaption", "figure", "footer", "header", "hgroup", "main", "nav", "ol", "p", "search", "section",
      "summary", "ul"] ++ ["menu"]) = true
    rw [b2_isOneOf_append, hn]; rfl
  | false =>
  cases h0a : t.isStart ["menu"] with
  | true =>
    rw [b2_step_menu hpre h0 h0a]
    obtain ⟨hk, hn⟩ := b2_start h0a
    refine body_start_block hm hwf hk ?_
    show isOneOf t.name (["address", "article", "aside", "blockquote", "center", "details", "dialog", "dir", "div", "dl",
      "fieldset", "figcaption", "figure", "footer", "header", "hgroup", "main", "nav", "ol", "p", "search", "section",
      "summary", "ul"] ++ ["menu"]) = true
    rw [b2_isOneOf_append, hn, Bool.or_true]
  | false =>
  cases h0b : t.isStart ["h1", "h2", "h3", "h4", "h5", "h6"] with
  | true =>
    rw [b2_step_heading hpre h0 h0a h0b]
    obtain ⟨hk, hn⟩ := b2_start h0b
    exact body_start_heading hm hwf hk hn
  | false =>
  cases h0c : t.isStart ["pre", "listing"] with
  | true =>
    rw [b2_step_pre hpre h0 h0a h0b h0c]
    obtain ⟨hk, hn⟩ := b2_start h0c
    exact body_start_pre hm hwf hk hn
  | false =>
  cases h0d : t.isStart ["form"] with
  | true =>
    rw [b2_step_form hpre h0 h0a h0b h0c h0d]
    obtain ⟨hk, hn⟩ := b2_start h0d
    refine body_start_form hm hwf hk ?_
    simpa only [isOneOf_cons, isOneOf_nil, Bool.or_false, decide_eq_true_eq] using hn
  | false =>
  cases h0e : t.isStart ["li", "dd", "dt"] with
  | true =>
    rw [b2_step_li hpre h0 h0a h0b h0c h0d h0e]
    obtain ⟨hk, hn⟩ := b2_start h0e
    exact body_start_li hm hwf hk hn
  | false =>
  cases h0f : t.isStart ["plaintext"] with
  | true =>
    rw [b2_step_plaintext hpre h0 h0a h0b h0c h0d h0e h0f]
    obtain ⟨hk, hn⟩ := b2_start h0f
    refine body_start_plaintext hm hwf hk ?_
    simpa only [isOneOf_cons, isOneOf_nil, Bool.or_false, decide_eq_true_eq] using hn
  | false =>
  cases h0g : t.isStart ["button"] with
  | true =>
    rw [b2_step_button hpre h0 h0a h0b h0c h0d h0e h0f h0g]
    obtain ⟨hk, hn⟩ := b2_start h0g
    refine body_start_button hm hwf hk ?_
    simpa only [isOneOf_cons, isOneOf_nil, Bool.or_false, decide_eq_true_eq] using hn
  | false =>
    simp only [bodyC2, h0, h0a, h0b, h0c, h0d, h0e, h0f, h0g, Bool.or_false] at hc
    cases hc

end H5V.Lemmas.HtmlTBModes
