import H5V.Lemmas.HtmlTBSkelShapeAfter
/-!
C06, second invariant layer, part 19: `insert_element` when the current node is not a foster-parenting
target and not a template — below the root (BeforeHead, AfterHead, `<frameset>` replacing `body`, the
frameset modes) or below another element (InHead, InHeadNoscript, InFrameset).
-/
namespace H5V.Props.C06
open H5V.Model.Dom hiding Str
open H5V.Model.HtmlTB hiding Str
open H5V.Lemmas.Dom

/-- the appropriate place for insertion is the current node itself -/
theorem apfi_plain {s s' : State} {ip : InsertionPoint} {t : Id}
    (e : appropriatePlaceForInsertion none s = .ok (ip, s')) (ht : s.openElems.getLast? = some t)
    (hnf : fosterTarget (nm s.dom t) = false) (hnt : nm s.dom t ≠ hN "template") :
    QS s s' ∧ ip = .lastChild t := by
  obtain ⟨q, t', ht', ha⟩ := apfi_sem e
  simp only at ht'
  rw [ht] at ht'
  cases ht'
  refine ⟨q, ?_⟩
  cases ha with
  | plain => rfl
  | tmpl tc _ h2 => exact absurd h2 hnt
  | foster ip' _ h2 _ => rw [hnf] at h2; cases h2

theorem rs_createElement_data (d : Dom) (name : QualName) (attrs : List Attr) (flags : ElementFlags) (x : Id)
    (hx : x < d.size) : (d.createElement name attrs flags).1.dataOf x = d.dataOf x := by
  unfold Dom.createElement
  cases hf : flags.template with
  | true =>
    simp only [if_true]
    rw [dataOf_alloc, dataOf_alloc]
    have h1 : x ≠ (d.alloc .document).1.size := by rw [size_alloc]; exact Nat.ne_of_lt (Nat.lt_succ_of_lt hx)
    have h2 : x ≠ d.size := Nat.ne_of_lt hx
    rw [if_neg h1, if_neg h2]
  | false =>
    simp only [Bool.false_eq_true, if_false]
    rw [dataOf_alloc, if_neg (Nat.ne_of_lt hx)]

/-- nothing open precedes the end of the current node's child list -/
theorem Core.no_open_before_plain {s : State} {r t : Id} {up : List Id} {ph : Phase} (hc : Core s r up ph)
    (ht : s.openElems.getLast? = some t) :
    ∀ P a b x, s.dom.childrenOf P = a ++ b → NodePos s.dom (.lastChild t) P b → x ∈ a → x ∈ s.openElems →
      exm (nm s.dom x) = false → False := by
  intro P a b x hP hpos hxa hxO _
  have hxP : x ∈ s.dom.childrenOf P := by rw [hP]; exact List.mem_append_left _ hxa
  cases hpos with
  | last hb hip =>
    rcases hip with hip | ⟨e, hip, _⟩
    · have hPt : t = P := by injection hip
      rw [← hPt] at hxP
      exact not_before_last hc.nodup ht (hc.adj.pb t x hxP hxO (mem_of_getLast?' ht))
    · cases hip
  | before e p b' hip _ _ _ => cases hip

/-- what `insert_element` does when the place is the current node `t` -/
structure InsRes (s s5 : State) (r t el : Id) (ns name : Str) : Prop where
  late : Late s5
  dom : DomOnly s s5
  chg : Chg s.dom s5.dom
  k0 : s5.dom.childrenOf 0 = s.dom.childrenOf 0
  fresh : s.dom.size ≤ el
  nmel : nm s5.dom el = ⟨ns, name⟩
  elel : s5.dom.isElement el = true
  loose : el ∉ s5.dom.childrenOf 0
  inner : t ≠ r → RS r s.dom s5.dom
  root : t = r → s5.dom.childrenOf r = s.dom.childrenOf r ++ [el] ∧
    (∀ x, x < s.dom.size → s5.dom.dataOf x = s.dom.dataOf x) ∧ (RTU r s.dom → RTU r s5.dom)
  adj : AdjD s5.dom s5.openElems
  adjp : AdjD s5.dom (s5.openElems ++ [el])

theorem insertElement_res {s s' : State} {r : Id} {up : List Id} {ph : Phase} {pushIt : Bool} {ns name : Str}
    {attrs : List Attr} {dup : Bool} {el t : Id} (hc : Core s r up ph) (ht : s.openElems.getLast? = some t)
    (hnf : fosterTarget (nm s.dom t) = false) (hnt : nm s.dom t ≠ hN "template")
    (e : insertElement pushIt ns name attrs dup s = .ok (el, s')) :
    ∃ s5, s' = (if pushIt then { s5 with openElems := s5.openElems ++ [el] } else s5) ∧
      InsRes s s5 r t el ns name := by
  obtain ⟨ip, s1, s2, s3, s4, s5, e1, q12, e3, q34, e5, hs'⟩ := insertElement_run e
  obtain ⟨q1, hip⟩ := apfi_plain e1 ht hnf hnt
  subst hip
  obtain ⟨_, _, hipok1⟩ := apfi_spec hc.late e1
  have q02 : QS s s2 := q1.trans q12
  have hc2 : Core s2 r up ph := hc.qs q02
  have hipok2 : IpOk s2.dom (.lastChild t) := hipok1.ext (SameSk.of_nodes q12.nodes).ext
  obtain ⟨hc3, hdo3, hchg3, hfresh3, hel3, hnm3, hnol3⟩ := createElement_core hc2 e3
  obtain ⟨f3, hb3, _, hk3, _, _, tc, ipf, hdata3⟩ := createElementWithFlags_any hc2.late.base e3
  have hc4 : Core s4 r up ph := hc3.qs q34
  have hext24 : Ext s2.dom s4.dom := by
    obtain ⟨_, x, _⟩ := createElementWithFlags_spec hc2.late e3
    exact x.trans (SameSk.of_nodes q34.nodes).ext
  have hipok4 : IpOk s4.dom (.lastChild t) := hipok2.ext hext24
  have hnol4 : ∀ q, el ∉ s4.dom.childrenOf q := fun q => by rw [childrenOf_of_nodes q34.nodes]; exact hnol3 q
  have hel4 : s4.dom.isElement el = true := by rw [isElement_of_nodes q34.nodes]; exact hel3
  have hloose4 : Loose s4.dom el := ⟨hel4, hnol4 0⟩
  obtain ⟨hl5, hext5, hk05, hdo5⟩ := insertAt_spec (child := .node el) hc4.late hipok4 hloose4.childOk e5
  have hsz2 : s2.dom.size = s.dom.size := by simp [Dom.size, q02.nodes]
  have hsz : s.dom.size ≤ el := by rw [← hsz2]; exact hfresh3
  have hchg05 : Chg s.dom s5.dom :=
    ((SameSk.of_nodes q02.nodes).chg.trans hchg3).trans ((SameSk.of_nodes q34.nodes).chg.trans hext5.chg)
  have hdo : DomOnly s s5 := by
    show s5 = { s with dom := s5.dom, traceRev := s5.traceRev }
    have h5 := hdo5; have h3 := hdo3; have h34 := q34.rest; have h02 := q02.rest
    rw [h5, h34, h3, h02]
  have hk0 : s5.dom.childrenOf 0 = s.dom.childrenOf 0 := by
    rw [hk05, childrenOf_of_nodes q34.nodes, hk3, childrenOf_of_nodes q02.nodes]
  have htlt : t < s2.dom.size := by
    have := hc2.late.st.oe t (by rw [q02.openElems]; exact mem_of_getLast?' ht)
    exact lt_of_isElement this
  have hte : t ≠ el := fun h0 => by rw [h0] at htlt; exact Nat.lt_irrefl _ (Nat.lt_of_lt_of_le htlt hfresh3)
  -- adjacency
  obtain ⟨_, hpar3, hkids3, htxt3, htc3, _, hch3, hpo3, hda3⟩ := createElement_adj hc2.late hc2.adj e3
  have hst4 : s4.openElems = s.openElems := by
    rw [q34.openElems, hdo3]; show s2.openElems = _; exact q02.openElems
  have hel_nO : el ∉ s4.openElems := by
    rw [hst4]
    intro hm
    exact Nat.lt_irrefl _ (Nat.lt_of_lt_of_le (lt_of_isElement (hc.late.st.oe el hm)) hsz)
  have hch4 : ∀ x, s4.dom.childrenOf x = s.dom.childrenOf x := fun x => by
    rw [childrenOf_of_nodes q34.nodes, hch3, childrenOf_of_nodes q02.nodes]
  have hcand : ∀ p, (InsertionPoint.lastChild t).nodes.1 = p ∨ (InsertionPoint.lastChild t).nodes.2 = some p → p ≠ el := by
    intro p hp
    simp only [InsertionPoint.nodes] at hp
    rcases hp with rfl | hp
    · exact hte
    · cases hp
  obtain ⟨hadj5, hadj5p⟩ := insertAt_new_adj (el := el) hc4.late hipok4 hc4.adj hel_nO
    (by rw [parentOf_of_nodes q34.nodes]; exact hpar3)
    (by rw [isText_of_data (d := s3.dom) (by unfold Dom.dataOf; rw [q34.nodes])]; exact htxt3)
    (by rw [childrenOf_of_nodes q34.nodes]; exact hkids3)
    (fun tc htc => by
      rw [tc_of_nodes q34.nodes] at htc
      obtain ⟨h1, h2⟩ := htc3 tc htc
      refine ⟨by rw [childrenOf_of_nodes q34.nodes]; exact h1, fun p hp => ?_⟩
      simp only [InsertionPoint.nodes] at hp
      rcases hp with rfl | hp
      · exact Nat.ne_of_lt (Nat.lt_of_lt_of_le htlt h2)
      · cases hp)
    hcand
    (fun P a b x hP hpos hxa hxO hxx => by
      refine hc.no_open_before_plain ht P a b x (by rw [← hch4]; exact hP) ?_ hxa (by rw [← hst4]; exact hxO) ?_
      · refine hpos.congr (fun y => (hch4 y).symm) (fun p hp => ?_)
        simp only [InsertionPoint.nodes] at hp
        rcases hp with rfl | hp
        · rw [parentOf_of_nodes q34.nodes, hpo3 _ htlt, parentOf_of_nodes q02.nodes]
        · cases hp
      · have hxO' : x ∈ s.openElems := by rw [← hst4]; exact hxO
        have hlt : x < s2.dom.size := by rw [hsz2]; exact lt_of_isElement (hc.late.st.oe x hxO')
        have : nm s4.dom x = nm s.dom x := by
          rw [nm_of_nodes q34.nodes, nm_of_data (hda3 x hlt), nm_of_nodes q02.nodes]
        rw [← this]; exact hxx)
    e5
  have hoe54 : s5.openElems = s4.openElems := by rw [hdo5]
  refine ⟨s5, hs', hl5, hdo, hchg05, hk0, hsz, ?_, hext5.chg.isElement hel4, by rw [hk05]; exact hnol4 0, ?_, ?_,
    by rw [hoe54]; exact hadj5, by rw [hoe54]; exact hadj5p⟩
  · rw [nm_chg hext5.chg hel4, nm_of_nodes q34.nodes]; exact hnm3
  · intro htr
    have hrs23 : RS r s2.dom s3.dom := by
      unfold createElementWithFlags at e3
      obtain ⟨hd1, _⟩ := sink_dom (sinkNode_ok.mp e3)
      obtain ⟨hdom1, _⟩ := apply_createElement hd1
      rw [hdom1]
      exact rs_createElement r hc2.late.base _ _ _
    have hrs45 : RS r s4.dom s5.dom :=
      insertAt_rs (child := .node el) (ip := .lastChild t) hc4.late.base hc4.rtu htr ⟨hnol4 r, fun p hp => by
        simp only [InsertionPoint.nodes] at hp
        rcases hp with rfl | hp
        · exact hte
        · cases hp⟩ e5
    exact (((RS.of_nodes q02.nodes).trans hrs23).trans (RS.of_nodes q34.nodes)).trans hrs45
  · intro htr
    subst htr
    unfold H5V.Model.HtmlTB.insertAt at e5
    obtain ⟨out, hd5, _⟩ := sinkUnit_dom e5
    obtain ⟨hkr, hdata5, _, _, hrtu5⟩ := root_append_node hte hnol4 (apply_append hd5)
    have hk24 : ∀ x, s4.dom.childrenOf x = s.dom.childrenOf x := fun x => by
      rw [childrenOf_of_nodes q34.nodes, hk3, childrenOf_of_nodes q02.nodes]
    have hrs04 : RS t s.dom s4.dom := by
      have hrs23 : RS t s2.dom s3.dom := by
        unfold createElementWithFlags at e3
        obtain ⟨hd1, _⟩ := sink_dom (sinkNode_ok.mp e3)
        obtain ⟨hdom1, _⟩ := apply_createElement hd1
        rw [hdom1]
        exact rs_createElement t hc2.late.base _ _ _
      exact ((RS.of_nodes q02.nodes).trans hrs23).trans (RS.of_nodes q34.nodes)
    refine ⟨by rw [hkr, hk24], fun x hx => ?_, fun hu => hrtu5 (hrs04.uniq hu)⟩
    rw [hdata5]
    -- data of old nodes: creation allocates new nodes only
    have h34 : s4.dom.dataOf x = s3.dom.dataOf x := by unfold Dom.dataOf; rw [q34.nodes]
    have h02 : s2.dom.dataOf x = s.dom.dataOf x := by unfold Dom.dataOf; rw [q02.nodes]
    rw [h34, ← h02]
    unfold createElementWithFlags at e3
    obtain ⟨hd1, _⟩ := sink_dom (sinkNode_ok.mp e3)
    obtain ⟨hdom1, _⟩ := apply_createElement hd1
    rw [hdom1]
    exact rs_createElement_data s2.dom _ _ _ x (by rw [hsz2]; exact hx)


theorem InsRes.fields {s s5 : State} {r t el : Id} {ns name : Str} (h : InsRes s s5 r t el ns name) :
    s5.openElems = s.openElems ∧ s5.headElem = s.headElem ∧ s5.mode = s.mode ∧ s5.origMode = s.origMode ∧
      s5.activeFormatting = s.activeFormatting ∧ s5.formElem = s.formElem ∧ s5.templateModes = s.templateModes := by
  have hr := h.dom
  refine ⟨?_, ?_, ?_, ?_, ?_, ?_, ?_⟩ <;> rw [hr]

theorem InsRes.notOpen {s s5 : State} {r t el : Id} {ns name : Str} {up : List Id} {ph : Phase}
    (h : InsRes s s5 r t el ns name) (hc : Core s r up ph) : el ∉ s.openElems := fun hm =>
  Nat.lt_irrefl _ (Nat.lt_of_lt_of_le (lt_of_isElement (hc.late.st.oe el hm)) h.fresh)

/-- insertion below an element other than the root -/
theorem Core.insInner {s s5 : State} {r t el : Id} {ns name : Str} {up : List Id} {ph : Phase}
    (hc : Core s r up ph) (h : InsRes s s5 r t el ns name) (htr : t ≠ r) :
    Core s5 r up ph ∧ SameNames s.dom s5.dom up ∧
      (PushOk s ⟨ns, name⟩ → Core { s5 with openElems := s5.openElems ++ [el] } r (up ++ [el]) ph) := by
  obtain ⟨f1, f2, f3, f4, f5, f6, f7⟩ := h.fields
  have hc5 : Core s5 r up ph := hc.transfer h.late h.chg (h.inner htr) (by rw [h.k0]; exact hc.rdoc) f1 f5 f7 f6 f2 h.adj
  refine ⟨hc5, hc.sameNames h.chg, fun hpk => ?_⟩
  refine hc5.pushG ⟨h.elel, h.loose⟩ (by rw [f1]; exact h.notOpen hc) ?_ h.adjp
  rw [h.nmel]
  refine ⟨fun x hx => ?_, hpk.2.1, fun hn => ?_⟩
  · rw [f1] at hx
    rw [nm_chg h.chg (hc.late.st.oe x (mem_of_getLast?' hx))]
    exact hpk.1 x hx
  · rw [f1, f7, tcount_congr (SameNames.of_chg h.chg hc.late.st.oe)]
    exact hpk.2.2 hn

/-- insertion below the root, the root being the only open element -/
theorem Core.insRoot {s s5 : State} {r el : Id} {ns name : Str} {ph : Phase}
    (hc : Core s r [] ph) (h : InsRes s s5 r r el ns name) (hcon : constrained ⟨ns, name⟩ = false)
    (hnt : (⟨ns, name⟩ : EName) ≠ hN "template") :
    rootElems s5.dom r = rootElems s.dom r ++ [el] ∧ (∀ x, x < s.dom.size → nm s5.dom x = nm s.dom x) ∧
      ∀ ph' hd', (∀ x, hd' = some x → s5.dom.isElement x = true ∧ x ∉ s5.dom.childrenOf 0) →
        ElemsOk s5.dom hd' r ph' → Afx s5.dom s5.activeFormatting r →
        Core { s5 with openElems := s5.openElems ++ [el], headElem := hd' } r [el] ph' := by
  obtain ⟨f1, f2, f3, f4, f5, f6, f7⟩ := h.fields
  obtain ⟨hkr, hdata, hrtu⟩ := h.root rfl
  have hnm : ∀ x, x < s.dom.size → nm s5.dom x = nm s.dom x := fun x hx => by unfold nm; rw [hdata x hx]
  have hel : ∀ x, x < s.dom.size → s5.dom.isElement x = s.dom.isElement x := fun x hx => by
    unfold Dom.isElement; rw [hdata x hx]
  have hklt : ∀ c ∈ s.dom.childrenOf r, c < s.dom.size := fun c hcm => hc.late.base.kidsValid r c hcm
  have hre : rootElems s5.dom r = rootElems s.dom r ++ [el] := by
    unfold rootElems
    rw [hkr, List.filter_append]
    congr 1
    · apply List.filter_congr
      intro x hx
      exact hel x (hklt x hx)
    · simp [h.elel]
  refine ⟨hre, hnm, fun ph' hd' hhd he hafx => ?_⟩
  have hnotopen := h.notOpen hc
  have hst : s.openElems = [r] := hc.stack
  have hlp := h.late.push (x := el) ⟨h.elel, h.loose⟩
  have hl' : Late { s5 with openElems := s5.openElems ++ [el], headElem := hd' } :=
    ⟨hlp.base, hlp.pat, ⟨hlp.st.doc, hlp.st.ctx, hlp.st.oe, hlp.st.tail, hhd, hlp.st.ptt⟩,
      ⟨hlp.ml.mode, hlp.ml.orig, hlp.ml.tm⟩⟩
  refine ⟨hl', by show s5.openElems ++ [el] = _; rw [f1, hst]; rfl, by rw [h.k0]; exact hc.rdoc,
    ?_, ?_, ?_, ?_, by rw [f7]; exact hc.tmm, ?_, hrtu hc.rtu, ?_, ?_, he, (by intro y hy; cases hy), hafx, h.adjp⟩
  · show (s5.openElems ++ [el]).Nodup
    rw [f1, List.nodup_append]
    exact ⟨hc.nodup, by simp, by intro a ha b hb; simp at hb; subst hb; rintro rfl; exact hnotopen ha⟩
  · show TG (nm s5.dom) (s5.openElems ++ [el])
    rw [f1, hst]
    intro pre x y post hs
    have : pre = [] ∧ x = r ∧ y = el ∧ post = [] := by
      cases pre with
      | nil => simp at hs; exact ⟨rfl, hs.1.symm, hs.2.1.symm, hs.2.2⟩
      | cons a t => cases t <;> simp at hs
    obtain ⟨_, rfl, rfl, _⟩ := this
    rw [h.nmel]; exact predOk_of_not_constrained hcon
  · intro x t hx
    have hx' : FormatEntry.element x t ∈ s5.activeFormatting := hx
    rw [f5] at hx'
    obtain ⟨a, b, c⟩ := hc.afn x t hx'
    exact ⟨a, by rw [nm_chg h.chg c]; exact b, h.chg.isElement c⟩
  · show tcount s5.dom (s5.openElems ++ [el]) ≤ _
    rw [f1, hst]
    unfold tcount
    have h1 : (nm s5.dom r == hN "template") = false := by
      rw [nm_chg h.chg (hc.late.st.oe r hc.root_mem), hc.root_name]; decide
    have h2 : (nm s5.dom el == hN "template") = false := by
      rw [h.nmel]; simpa using hnt
    simp [h1, h2]
  · intro f hf
    have hf' : s5.formElem = some f := hf
    rw [f6] at hf'
    obtain ⟨a, b⟩ := hc.form f hf'
    exact ⟨by rw [nm_chg h.chg b]; exact a, h.chg.isElement b⟩
  · show (s5.dom.childrenOf r).Nodup
    rw [hkr, List.nodup_append]
    refine ⟨hc.rnd, by simp, ?_⟩
    intro a ha b hb
    simp at hb; subst hb
    rintro rfl
    exact Nat.lt_irrefl _ (Nat.lt_of_lt_of_le (hklt a ha) h.fresh)
  · intro c hcm
    have hcm' : c ∈ s5.dom.childrenOf r := hcm
    rw [hkr] at hcm'
    rcases List.mem_append.mp hcm' with h1 | h1
    · rcases hc.kids c h1 with k | ⟨t, k⟩ | ⟨t, k, k2⟩
      · exact Or.inl (by rw [hel c (hklt c h1)]; exact k)
      · exact Or.inr (Or.inl ⟨t, by rw [hdata c (hklt c h1)]; exact k⟩)
      · exact Or.inr (Or.inr ⟨t, by rw [hdata c (hklt c h1)]; exact k, k2⟩)
    · simp only [List.mem_singleton] at h1
      subst h1
      exact Or.inl h.elel


/-! ### text below the current node -/

theorem ElemsOk.of_rootElems {d d' : Dom} {head : Option Id} {r : Id} {ph : Phase}
    (hre : rootElems d' r = rootElems d r) (hnm : ∀ x ∈ rootElems d r, nm d' x = nm d x)
    (h : ElemsOk d head r ph) : ElemsOk d' head r ph := by
  cases ph with
  | p0 => exact ⟨h.1, by rw [hre]; exact h.2⟩
  | p1 =>
    obtain ⟨hh, h1, h2, h3⟩ := h
    exact ⟨hh, h1, by rw [hre]; exact h2, by rw [hnm hh (by rw [h2]; simp)]; exact h3⟩
  | pb b =>
    obtain ⟨hh, h1, h2, h3, h4⟩ := h
    exact ⟨hh, h1, by rw [hre]; exact h2, by rw [hnm hh (by rw [h2]; simp)]; exact h3,
      by rw [hnm b (by rw [h2]; simp)]; exact h4⟩
  | pf fs =>
    obtain ⟨hh, ex, h1, h2, h3, h4, h5⟩ := h
    exact ⟨hh, ex, h1, by rw [hre]; exact h2, by rw [hnm hh (by rw [h2]; simp)]; exact h3,
      by rw [hnm fs (by rw [h2]; simp)]; exact h4, fun x hx => by rw [hnm x (by rw [h2]; simp [hx])]; exact h5 x hx⟩

/-- the arena changed below the root in a controlled way -/
theorem Core.transferRoot {s s' : State} {r : Id} {up : List Id} {ph : Phase} (h : Core s r up ph)
    (hl : Late s') (hdo : DomOnly s s') (hc : Chg s.dom s'.dom) (hk0 : r ∈ s'.dom.childrenOf 0)
    (hrtu : RTU r s'.dom) (hrnd : (s'.dom.childrenOf r).Nodup) (hkids : ∀ c ∈ s'.dom.childrenOf r, KidOkR s'.dom c)
    (hre : rootElems s'.dom r = rootElems s.dom r) (hadj : AdjD s'.dom s'.openElems) : Core s' r up ph := by
  have hr := hdo
  have hoe : s'.openElems = s.openElems := by rw [hr]
  have haf : s'.activeFormatting = s.activeFormatting := by rw [hr]
  have htm : s'.templateModes = s.templateModes := by rw [hr]
  have hform : s'.formElem = s.formElem := by rw [hr]
  have hhead : s'.headElem = s.headElem := by rw [hr]
  have hel : ∀ x ∈ s.openElems, s.dom.isElement x = true := h.late.st.oe
  have hsn : SameNames s.dom s'.dom s.openElems := SameNames.of_chg hc hel
  refine ⟨hl, by rw [hoe]; exact h.stack, hk0, by rw [hoe]; exact h.nodup, ?_, ?_, ?_, by rw [htm]; exact h.tmm, ?_,
    hrtu, hrnd, hkids, ?_, ?_, ?_, hadj⟩
  · rw [hoe]; exact h.tg.congr hsn
  · intro x t hx
    rw [haf] at hx
    obtain ⟨h1, h2, h3⟩ := h.afn x t hx
    exact ⟨h1, by rw [nm_chg hc h3]; exact h2, hc.isElement h3⟩
  · rw [hoe, htm, tcount_congr hsn]; exact h.tc
  · intro f hf
    rw [hform] at hf
    obtain ⟨h1, h2⟩ := h.form f hf
    exact ⟨by rw [nm_chg hc h2]; exact h1, hc.isElement h2⟩
  · rw [hhead]
    exact h.elems.of_rootElems hre (fun x hx => nm_chg hc (mem_rootElems hx).2)
  · intro y hy
    rw [hsn y (by rw [h.stack]; exact List.mem_cons_of_mem _ (List.mem_of_mem_tail hy))]
    exact h.bh y hy
  · rw [haf]
    exact h.afx.congr hre (fun x hx => nm_chg hc (mem_rootElems hx).2) (fun y t hy => ⟨y, hy⟩)

/-- `append_text` when the current node is neither a foster-parenting target nor a template;
below the root the text has to be whitespace -/
theorem appendText_core {s s' : State} {r : Id} {up : List Id} {ph : Phase} {text : Str} {res : ProcessResult}
    {t : Id} (hc : Core s r up ph) (ht : s.openElems.getLast? = some t)
    (hnf : fosterTarget (nm s.dom t) = false) (hnt : nm s.dom t ≠ hN "template") (hne : text ≠ [])
    (hws : t = r → text.all isAsciiWhitespace = true) (e : appendText text s = .ok (res, s')) :
    Core s' r up ph ∧ res = .done ∧ DomOnly s s' ∧ SameNames s.dom s'.dom up := by
  unfold appendText at e
  obtain ⟨u, s2, e1, e2⟩ := bind_ok.mp e
  obtain ⟨rfl, rfl⟩ := pure_ok.mp e2
  unfold insertAppropriately at e1
  obtain ⟨ip, s1, e3, e4⟩ := bind_ok.mp e1
  obtain ⟨q1, hip⟩ := apfi_plain e3 ht hnf hnt
  subst hip
  obtain ⟨_, _, hipok1⟩ := apfi_spec hc.late e3
  have hc1 := hc.qs q1
  obtain ⟨hl2, hext2, hk02, hdo2⟩ := insertAt_spec (child := .text text) hc1.late hipok1 hne e4
  have hsn : SameNames s.dom s2.dom up := hc.sameNames ((SameSk.of_nodes q1.nodes).chg.trans hext2.chg)
  have hdo : DomOnly s s2 := by
    show s2 = { s with dom := s2.dom, traceRev := s2.traceRev }
    have := q1.rest
    rw [hdo2, this]
  have hadj2 : AdjD s2.dom s2.openElems := by
    have : s2.openElems = s1.openElems := by rw [hdo2]
    rw [this]
    refine insertAt_text_adj hc1.late hipok1 hc1.adj hc1.late.st.oe (fun x hpx hxO hxx => ?_) e4
    obtain ⟨P, a, b, hP, hpos, hxa⟩ := hpx.pos
    exact hc1.no_open_before_plain (by rw [q1.openElems]; exact ht) P a b x hP hpos hxa hxO hxx
  refine ⟨?_, rfl, hdo, hsn⟩
  unfold H5V.Model.HtmlTB.insertAt at e4
  obtain ⟨out, hd, _⟩ := sinkUnit_dom e4
  have happ := apply_append hd
  by_cases htr : t = r
  · -- below the root
    subst htr
    obtain ⟨hother, hrtu, hcase⟩ := root_append_text hc1.late.base happ
    have hklt : ∀ c ∈ s1.dom.childrenOf t, c < s1.dom.size := fun c hcm => hc1.late.base.kidsValid t c hcm
    have hwt := hws rfl
    have hcore2 : Core s2 t up ph := by
      refine hc1.transferRoot hl2 hdo2 hext2.chg (by rw [hk02]; exact hc1.rdoc) (hrtu hc1.rtu) ?_ ?_ ?_ hadj2
      · rcases hcase with ⟨hl', old, hk, _⟩ | ⟨hk, _, _⟩
        · rw [hk]; exact hc1.rnd
        · rw [hk, List.nodup_append]
          refine ⟨hc1.rnd, by simp, ?_⟩
          intro a ha b hb
          simp at hb; subst hb
          exact Nat.ne_of_lt (hklt a ha)
      · intro c hcm
        rcases hcase with ⟨hl', old, hk, hlm, hold, hdata, _⟩ | ⟨hk, hdata, _⟩
        · rw [hk] at hcm
          by_cases hcl : c = hl'
          · subst hcl
            refine Or.inr (Or.inr ⟨old ++ text, by rw [hdata]; simp, ?_⟩)
            rcases hc1.kids c hlm with k | ⟨t', k⟩ | ⟨t', k, k2⟩
            · unfold Dom.isElement at k; rw [hold] at k; cases k
            · rw [hold] at k; cases k
            · rw [hold] at k; cases k
              rw [List.all_append, k2, hwt]; rfl
          · rcases hc1.kids c hcm with k | ⟨t', k⟩ | ⟨t', k, k2⟩
            · exact Or.inl (hext2.chg.isElement k)
            · exact Or.inr (Or.inl ⟨t', by rw [hdata]; simp [hcl]; exact k⟩)
            · exact Or.inr (Or.inr ⟨t', by rw [hdata]; simp [hcl]; exact k, k2⟩)
        · rw [hk] at hcm
          rcases List.mem_append.mp hcm with hm | hm
          · have hcl : c ≠ s1.dom.size := Nat.ne_of_lt (hklt c hm)
            rcases hc1.kids c hm with k | ⟨t', k⟩ | ⟨t', k, k2⟩
            · exact Or.inl (hext2.chg.isElement k)
            · exact Or.inr (Or.inl ⟨t', by rw [hdata]; simp [hcl]; exact k⟩)
            · exact Or.inr (Or.inr ⟨t', by rw [hdata]; simp [hcl]; exact k, k2⟩)
          · simp only [List.mem_singleton] at hm
            subst hm
            exact Or.inr (Or.inr ⟨text, by rw [hdata]; simp, hwt⟩)
      · rcases hcase with ⟨hl', old, hk, hlm, hold, hdata, _⟩ | ⟨hk, hdata, _⟩
        · exact rootElems_eq hc1.late.base hext2.chg hk
        · unfold rootElems
          rw [hk, List.filter_append]
          have hnew : s2.dom.isElement s1.dom.size = false := by
            unfold Dom.isElement; rw [hdata]; simp
          have : List.filter (fun x => s2.dom.isElement x) (s1.dom.childrenOf t) =
              List.filter (fun x => s1.dom.isElement x) (s1.dom.childrenOf t) := by
            apply List.filter_congr
            intro x hx
            exact hext2.chg.isElement_eq (hklt x hx)
          show List.filter (fun x => s2.dom.isElement x) _ ++ List.filter (fun x => s2.dom.isElement x) [s1.dom.size] = _
          rw [this]; simp [hnew]
    exact hcore2
  · -- below another element
    have hrs : RS r s1.dom s2.dom := rs_append_text hc1.late.base hc1.rtu htr happ
    exact hc1.transfer hl2 hext2.chg hrs (by rw [hk02]; exact hc1.rdoc) (by rw [hdo2]) (by rw [hdo2]) (by rw [hdo2])
      (by rw [hdo2]) (by rw [hdo2]) hadj2

theorem appendText_shape {s s' : State} {r : Id} {up : List Id} {ph : Phase} {text : Str} {res : ProcessResult}
    {t : Id} (h : ShapeAt s r up ph) (ht : s.openElems.getLast? = some t)
    (hnf : fosterTarget (nm s.dom t) = false) (hnt : nm s.dom t ≠ hN "template") (hne : text ≠ [])
    (hws : t = r → text.all isAsciiWhitespace = true) (e : appendText text s = .ok (res, s')) :
    ShapeAt s' r up ph ∧ res = .done ∧ DomOnly s s' := by
  obtain ⟨h1, h2, h3, h4⟩ := appendText_core h.core ht hnf hnt hne hws e
  exact ⟨⟨h1, h.fits.transfer h4 (by rw [h3]) (by rw [h3]) (by rw [h3])⟩, h2, h3⟩


/-- `append_comment` when the current node is neither a foster-parenting target nor a template -/
theorem appendComment_core {s s' : State} {r : Id} {up : List Id} {ph : Phase} {text : Str} {res : ProcessResult}
    {t : Id} (hc : Core s r up ph) (ht : s.openElems.getLast? = some t)
    (hnf : fosterTarget (nm s.dom t) = false) (hnt : nm s.dom t ≠ hN "template")
    (e : appendComment text s = .ok (res, s')) :
    Core s' r up ph ∧ res = .done ∧ DomOnly s s' ∧ SameNames s.dom s'.dom up := by
  unfold appendComment at e
  obtain ⟨c, s1, e1, e2⟩ := bind_ok.mp e
  obtain ⟨u, s3, e3, e4⟩ := bind_ok.mp e2
  obtain ⟨rfl, rfl⟩ := pure_ok.mp e4
  obtain ⟨hl1, hext1, hc1', hcd1, hfresh1, hdo1⟩ := createComment_run hc.late e1
  have hd1 : s.dom.apply (.createComment text) = .ok (s1.dom, .node c) := (sink_dom (sinkNode_ok.mp e1)).1
  obtain ⟨hdom1, _⟩ := apply_createComment hd1
  obtain ⟨_, _, hk1, hid, hs1, _⟩ := createComment_spec hc.late.base text
  rw [← hdom1] at hk1 hs1
  have hrs1 : RS r s.dom s1.dom := by rw [hdom1]; exact rs_alloc r hc.late.base _
  obtain ⟨hadj1, hpar1, htx1, hcO1⟩ := createComment_adj hc.late hc.adj e1
  have hcore1 : Core s1 r up ph := hc.transfer hl1 hext1.chg hrs1 (by rw [hk1]; exact hc.rdoc)
    (by rw [hdo1]) (by rw [hdo1]) (by rw [hdo1]) (by rw [hdo1]) (by rw [hdo1]) hadj1
  have hnol : ∀ q, c ∉ s1.dom.childrenOf q := fun q hq => by
    rw [hk1] at hq
    exact Nat.lt_irrefl _ (Nat.lt_of_lt_of_le (hc.late.base.kidsValid q _ hq) hfresh1)
  have ht1 : s1.openElems.getLast? = some t := by rw [hdo1]; exact ht
  have hte : s.dom.isElement t = true := hc.late.st.oe t (mem_of_getLast?' ht)
  have hnm1 : nm s1.dom t = nm s.dom t := nm_chg hext1.chg hte
  unfold insertAppropriately at e3
  obtain ⟨ip, s2, e5, e6⟩ := bind_ok.mp e3
  obtain ⟨q2, hip⟩ := apfi_plain e5 ht1 (by rw [hnm1]; exact hnf) (by rw [hnm1]; exact hnt)
  subst hip
  have hdo03 : DomOnly s s3 := by
    obtain ⟨out, e6'⟩ := sinkUnit_ok.mp e6
    obtain ⟨d, _, rfl⟩ := sink_ok.mp e6'
    show _ = { s with dom := _, traceRev := _ }
    have := q2.rest
    rw [this, hdo1]
  have hcore2 : Core s2 r up ph := hcore1.qs q2
  have hsn12 : SameNames s.dom s2.dom up := hc.sameNames (hext1.chg.trans (SameSk.of_nodes q2.nodes).chg)
  have hsnT : ∀ (d : Dom), SameNames s2.dom d up → SameNames s.dom d up := fun d hd y hy => by
    rw [hd y hy, hsn12 y hy]
  suffices hmain : Core s3 r up ph ∧ SameNames s2.dom s3.dom up from ⟨hmain.1, rfl, hdo03, hsnT _ hmain.2⟩
  have hnol2 : ∀ q, c ∉ s2.dom.childrenOf q := fun q => by rw [childrenOf_of_nodes q2.nodes]; exact hnol q
  have hcd2 : s2.dom.dataOf c = some (.comment text) := by
    have : s2.dom.dataOf c = s1.dom.dataOf c := by unfold Dom.dataOf; rw [q2.nodes]
    rw [this]; exact hcd1
  by_cases htr : t = r
  · subst htr
    -- the same as appending the fresh comment to the root
    have hrel : s2.dom.isElement t = true := hcore2.late.st.oe t hcore2.root_mem
    have hip : IpOk s2.dom (.lastChild t) := ⟨ne_zero_of_isElement hcore2.late.base hrel, isContainer_of_isElement hrel⟩
    have hch : ChildOk s2.dom (.node c) := ⟨hnol2 0, by rw [hcd2]; simp⟩
    obtain ⟨hl3, hext3, hk03, hdo3⟩ := insertAt_spec (child := .node c) hcore2.late hip hch e6
    have hrc : t ≠ c := by
      rintro rfl
      unfold Dom.isElement at hrel; rw [hcd2] at hrel; cases hrel
    have hadj3 : AdjD s3.dom s3.openElems := by
      have : s3.openElems = s2.openElems := by rw [hdo3]
      rw [this]
      refine (insertAt_node_adj hcore2.late hip hcore2.adj (by rw [q2.openElems]; exact hcO1)
        (by rw [parentOf_of_nodes q2.nodes]; exact hpar1)
        (by unfold Dom.isText; rw [hcd2]) (fun p hp => ?_) e6).1
      simp only [InsertionPoint.nodes] at hp
      rcases hp with rfl | hp
      · exact hrc
      · cases hp
    unfold H5V.Model.HtmlTB.insertAt at e6
    obtain ⟨out, hd6, _⟩ := sinkUnit_dom e6
    obtain ⟨hkr, hdata, _, _, hrtu⟩ := root_append_node hrc hnol2 (apply_append hd6)
    have hcn : s2.dom.isElement c = false := by unfold Dom.isElement; rw [hcd2]
    refine ⟨hcore2.sameData hl3 hdo3 hdata (by rw [hk03]; exact hcore2.rdoc) (hrtu hcore2.rtu) ?_ ?_ ?_ hadj3,
      fun y _ => by unfold nm; rw [hdata]⟩
    · rw [hkr, List.nodup_append]
      exact ⟨hcore2.rnd, by simp, by intro a ha b hb; simp at hb; subst hb; rintro rfl; exact hnol2 t ha⟩
    · intro x hx
      rw [hkr] at hx
      rcases List.mem_append.mp hx with h1 | h1
      · exact Or.inl h1
      · simp only [List.mem_singleton] at h1
        subst h1
        exact Or.inr (Or.inr (Or.inl ⟨text, by rw [hdata]; exact hcd2⟩))
    · unfold rootElems
      rw [hkr, List.filter_append]
      have hel : ∀ x, s3.dom.isElement x = s2.dom.isElement x := fun x => by unfold Dom.isElement; rw [hdata]
      have : (fun x => s3.dom.isElement x) = (fun x => s2.dom.isElement x) := funext hel
      show List.filter (fun x => s3.dom.isElement x) _ ++ List.filter (fun x => s3.dom.isElement x) [c] = _
      rw [this]
      simp [hcn]
  · have hte2 : s2.dom.isElement t = true := by
      rw [isElement_of_nodes q2.nodes]; exact hext1.chg.isElement hte
    have hip : IpOk s2.dom (.lastChild t) :=
      ⟨ne_zero_of_isElement hcore2.late.base hte2, isContainer_of_isElement hte2⟩
    have hch : ChildOk s2.dom (.node c) := ⟨hnol2 0, by rw [hcd2]; simp⟩
    obtain ⟨hl3, hext3, hk03, hdo3⟩ := insertAt_spec (child := .node c) hcore2.late hip hch e6
    have htc : t ≠ c := by
      rintro rfl
      unfold Dom.isElement at hte2; rw [hcd2] at hte2; cases hte2
    have hrs : RS r s2.dom s3.dom :=
      insertAt_rs (child := .node c) (ip := .lastChild t) hcore2.late.base hcore2.rtu htr ⟨hnol2 r, fun p hp => by
        simp only [InsertionPoint.nodes] at hp
        rcases hp with rfl | hp
        · exact htc
        · cases hp⟩ e6
    have hadj3 : AdjD s3.dom s3.openElems := by
      have : s3.openElems = s2.openElems := by rw [hdo3]
      rw [this]
      refine (insertAt_node_adj hcore2.late hip hcore2.adj (by rw [q2.openElems]; exact hcO1)
        (by rw [parentOf_of_nodes q2.nodes]; exact hpar1)
        (by unfold Dom.isText; rw [hcd2]) (fun p hp => ?_) e6).1
      simp only [InsertionPoint.nodes] at hp
      rcases hp with rfl | hp
      · exact htc
      · cases hp
    exact ⟨hcore2.transfer hl3 hext3.chg hrs (by rw [hk03]; exact hcore2.rdoc) (by rw [hdo3]) (by rw [hdo3])
      (by rw [hdo3]) (by rw [hdo3]) (by rw [hdo3]) hadj3, hcore2.sameNames hext3.chg⟩

theorem appendComment_shape {s s' : State} {r : Id} {up : List Id} {ph : Phase} {text : Str} {res : ProcessResult}
    {t : Id} (h : ShapeAt s r up ph) (ht : s.openElems.getLast? = some t)
    (hnf : fosterTarget (nm s.dom t) = false) (hnt : nm s.dom t ≠ hN "template")
    (e : appendComment text s = .ok (res, s')) : ShapeAt s' r up ph ∧ res = .done ∧ DomOnly s s' := by
  obtain ⟨h1, h2, h3, h4⟩ := appendComment_core h.core ht hnf hnt e
  exact ⟨⟨h1, h.fits.transfer h4 (by rw [h3]) (by rw [h3]) (by rw [h3])⟩, h2, h3⟩

end H5V.Props.C06
