import H5V.Model.HtmlTB.Run
import H5V.Props.C19
/-!
C19 (an encoding indicator fires exactly once per qualifying meta), part 1.

* `H5V.Lemmas.TBM` — inversion lemmas for the tree builder's monad `M = StateT State (Except String)`
  (shared with the C18 package);
* `qualifies tag` — the label a `meta` start tag announces according to the property text: the
  `charset` attribute if there is one, else — for `http-equiv` = `content-type` (ASCII
  case-insensitively) — what the WHATWG extraction algorithm (`H5V.Spec.MetaExtract.extract`) finds in
  the `content` attribute;
* `Ans Q m` — every successful run of `m` answers with a value satisfying `Q`; the bind rule does not
  look at the first computation, so a walk over a rule only visits the tail positions;
* `ROk tok r` — an acceptable answer of a rule that was handed the token `tok`: an encoding
  indicator only for a qualifying `meta` start tag, and re-processing only of the same token.
-/
namespace H5V.Lemmas.TBM
open H5V.Model.Dom (Id QualName Attr NodeOrText SinkOp Output ElementFlags QuirksMode Dom)
open H5V.Model.HtmlTB

theorem bind_ok {α β : Type} {m : M α} {f : α → M β} {s s'' : State} {b : β} :
    (m >>= f) s = .ok (b, s'') ↔ ∃ a s', m s = .ok (a, s') ∧ f a s' = .ok (b, s'') := by
  show (StateT.bind m f) s = _ ↔ _
  unfold StateT.bind
  show (Except.bind (m s) _) = _ ↔ _
  cases h : m s with
  | error e => simp [Except.bind]
  | ok p =>
    obtain ⟨a, s'⟩ := p
    simp only [Except.bind, Except.ok.injEq, Prod.mk.injEq]
    constructor
    · intro h; exact ⟨a, s', ⟨rfl, rfl⟩, h⟩
    · rintro ⟨a', s1, ⟨rfl, rfl⟩, h⟩; exact h

theorem pure_ok {α : Type} {a b : α} {s s' : State} : (pure a : M α) s = .ok (b, s') ↔ a = b ∧ s = s' := by
  show (Except.ok (a, s) : Except String _) = _ ↔ _
  simp

theorem getS_ok {s s' a : State} : getS s = .ok (a, s') ↔ a = s ∧ s' = s := by
  show (Except.ok (s, s) : Except String _) = _ ↔ _
  simp only [Except.ok.injEq, Prod.mk.injEq]
  constructor <;> (rintro ⟨rfl, rfl⟩; exact ⟨rfl, rfl⟩)

theorem modS_ok {f : State → State} {s s' : State} {u : Unit} : modS f s = .ok (u, s') ↔ s' = f s := by
  show (Except.ok ((), f s) : Except String _) = _ ↔ _
  simp only [Except.ok.injEq, Prod.mk.injEq, true_and]
  exact eq_comm

theorem set_ok {x s s' : State} {u : Unit} : (set x : M Unit) s = .ok (u, s') ↔ s' = x := by
  show (Except.ok ((), x) : Except String _) = _ ↔ _
  simp only [Except.ok.injEq, Prod.mk.injEq, true_and]
  exact eq_comm

theorem throw_ok {α : Type} {e : String} {s s' : State} {a : α} : ¬ (throw e : M α) s = .ok (a, s') := by
  show ¬ (Except.error e : Except String _) = _
  simp

theorem panicAt_ok {α : Type} {c f t : String} {s s' : State} {a : α} : ¬ (panicAt c f t : M α) s = .ok (a, s') :=
  throw_ok

theorem fuelOut_ok {α : Type} {w : String} {s s' : State} {a : α} : ¬ (fuelOut w : M α) s = .ok (a, s') :=
  throw_ok

theorem sink_ok {op : SinkOp} {s s' : State} {out : Output} :
    sink op s = .ok (out, s') ↔
      ∃ d, s.dom.apply op = .ok (d, out) ∧ s' = { s with dom := d, traceRev := (op, out) :: s.traceRev } := by
  unfold sink
  cases h : s.dom.apply op with
  | error e => simp
  | ok p =>
    obtain ⟨d, o⟩ := p
    simp only [Except.ok.injEq, Prod.mk.injEq]
    constructor
    · rintro ⟨rfl, rfl⟩; exact ⟨d, ⟨rfl, rfl⟩, rfl⟩
    · rintro ⟨d', ⟨rfl, rfl⟩, rfl⟩; exact ⟨rfl, rfl⟩

theorem sinkUnit_ok {op : SinkOp} {s s' : State} {u : Unit} :
    sinkUnit op s = .ok (u, s') ↔ ∃ out, sink op s = .ok (out, s') := by
  unfold sinkUnit
  constructor
  · intro h
    obtain ⟨out, s1, e1, e2⟩ := bind_ok.mp h
    obtain ⟨_, rfl⟩ := pure_ok.mp e2
    exact ⟨out, e1⟩
  · rintro ⟨out, e⟩
    exact bind_ok.mpr ⟨out, s', e, pure_ok.mpr ⟨rfl, rfl⟩⟩

theorem sinkNode_ok {op : SinkOp} {s s' : State} {id : Id} :
    sinkNode op s = .ok (id, s') ↔ sink op s = .ok (.node id, s') := by
  unfold sinkNode
  constructor
  · intro h
    obtain ⟨out, s1, e1, e2⟩ := bind_ok.mp h
    cases out with
    | node i => obtain ⟨rfl, rfl⟩ := pure_ok.mp e2; exact e1
    | unit => exact absurd e2 throw_ok
    | bool b => exact absurd e2 throw_ok
    | name a b => exact absurd e2 throw_ok
  · intro e
    exact bind_ok.mpr ⟨_, s', e, pure_ok.mpr ⟨rfl, rfl⟩⟩

theorem sinkBool_ok {op : SinkOp} {s s' : State} {b : Bool} :
    sinkBool op s = .ok (b, s') ↔ sink op s = .ok (.bool b, s') := by
  unfold sinkBool
  constructor
  · intro h
    obtain ⟨out, s1, e1, e2⟩ := bind_ok.mp h
    cases out with
    | bool i => obtain ⟨rfl, rfl⟩ := pure_ok.mp e2; exact e1
    | unit => exact absurd e2 throw_ok
    | node b => exact absurd e2 throw_ok
    | name a b => exact absurd e2 throw_ok
  · intro e
    exact bind_ok.mpr ⟨_, s', e, pure_ok.mpr ⟨rfl, rfl⟩⟩

theorem elemName_ok {h : Id} {s s' : State} {n : EName} :
    elemName h s = .ok (n, s') ↔ sink (.elemName h) s = .ok (.name n.ns n.loc, s') := by
  unfold elemName
  constructor
  · intro e
    obtain ⟨out, s1, e1, e2⟩ := bind_ok.mp e
    cases out with
    | name a b => obtain ⟨rfl, rfl⟩ := pure_ok.mp e2; exact e1
    | unit => exact absurd e2 throw_ok
    | node b => exact absurd e2 throw_ok
    | bool b => exact absurd e2 throw_ok
  · intro e
    exact bind_ok.mpr ⟨_, s', e, pure_ok.mpr ⟨rfl, rfl⟩⟩

end H5V.Lemmas.TBM

namespace H5V.Props.C19
open H5V.Model.Dom (Id QualName Attr NodeOrText SinkOp Output ElementFlags QuirksMode Dom)
open H5V.Model.HtmlTB
open H5V.Lemmas.TBM

/-! ## which `meta` announces which label -/

/-- the label a pragma's `content` yields: the WHATWG extraction on the UTF-8 bytes of the attribute
value, read back as text -/
def contentLabel (content : Str) : Option Str :=
  (H5V.Spec.MetaExtract.extract (utf8Bytes content)).bind fun bytes =>
    (String.fromUTF8? (ByteArray.mk bytes.toArray)).map String.toList

/-- `http-equiv` is present and equals `content-type`, ASCII case-insensitively -/
def isPragma (tag : Tag) : Bool :=
  (tag.getAttribute "http-equiv").any fun v => eqIgnoreAsciiCase v "content-type".toList

/-- the property text: `charset` wins; else the pragma's extracted label -/
def qualifies (tag : Tag) : Option Str :=
  (tag.getAttribute "charset").orElse fun _ =>
    if isPragma tag then (tag.getAttribute "content").bind contentLabel else none

/-- a `meta` start tag -/
def isMetaStart (tag : Tag) : Prop := tag.kind = .startTag ∧ tag.name = "meta".toList

/-- the token `tok` is a `meta` start tag that announces the label `l` -/
def Fires (tok : Token) (l : Str) : Prop := ∃ tag, tok = .tag tag ∧ isMetaStart tag ∧ qualifies tag = some l

theorem qualifies_charset {tag : Tag} {cs : Str} (h : tag.getAttribute "charset" = some cs) :
    qualifies tag = some cs := by
  simp [qualifies, h]

theorem qualifies_pragma {tag : Tag} (h : tag.getAttribute "charset" = none) :
    qualifies tag = if isPragma tag then (tag.getAttribute "content").bind contentLabel else none := by
  simp [qualifies, h]

/-- the slice the extraction returns could not be read back as UTF-8 (the model then takes the panic
branch of `subtendril`'s validity check; the extracted slice is cut at ASCII bytes of a UTF-8
string, so this does not happen — not proved here) -/
def labelUndecodable (content : Str) : Prop :=
  ∃ bytes, H5V.Spec.MetaExtract.extract (utf8Bytes content) = some bytes ∧
    String.fromUTF8? (ByteArray.mk bytes.toArray) = none

/-- `extractEncoding` answers `contentLabel`, leaves the state alone, makes no sink call -/
theorem extractEncoding_ok {content : Str} {s s' : State} {r : Option Str}
    (h : extractEncoding content s = .ok (r, s')) : r = contentLabel content ∧ s' = s := by
  unfold extractEncoding at h
  rw [C19_extract] at h
  unfold contentLabel
  cases hx : H5V.Spec.MetaExtract.extract (utf8Bytes content) with
  | none =>
    rw [hx] at h
    obtain ⟨rfl, rfl⟩ := pure_ok.mp h
    exact ⟨rfl, rfl⟩
  | some bytes =>
    rw [hx] at h
    simp only [Option.bind_some] at h ⊢
    cases hu : String.fromUTF8? (ByteArray.mk bytes.toArray) with
    | none => rw [hu] at h; exact absurd h throw_ok
    | some str =>
      rw [hu] at h
      obtain ⟨rfl, rfl⟩ := pure_ok.mp h
      exact ⟨rfl, rfl⟩

theorem extractEncoding_run {content : Str} (hd : ¬ labelUndecodable content) (s : State) :
    extractEncoding content s = .ok (contentLabel content, s) := by
  unfold extractEncoding
  rw [C19_extract]
  unfold contentLabel
  cases hx : H5V.Spec.MetaExtract.extract (utf8Bytes content) with
  | none => rfl
  | some bytes =>
    simp only [Option.bind_some]
    cases hu : String.fromUTF8? (ByteArray.mk bytes.toArray) with
    | none => exact absurd ⟨bytes, hx, hu⟩ hd
    | some str => rfl

/-! ## the answer judgement -/

/-- every successful run of `m` answers with a value satisfying `Q` -/
class Ans {α : Type} (Q : α → Prop) (m : M α) : Prop where
  h : ∀ s a s', m s = .ok (a, s') → Q a

theorem Ans.bind {α β : Type} {Q : β → Prop} {m : M α} {f : α → M β} (h : ∀ a, Ans Q (f a)) :
    Ans Q (m >>= f) := by
  constructor
  intro s b s'' e
  obtain ⟨a, s', _, e2⟩ := bind_ok.mp e
  exact (h a).h s' b s'' e2

/-- the bind rule that does use what the first computation answers -/
theorem Ans.bindK {α β : Type} {P : α → Prop} {Q : β → Prop} {m : M α} {f : α → M β} (h1 : Ans P m)
    (h2 : ∀ a, P a → Ans Q (f a)) : Ans Q (m >>= f) := by
  constructor
  intro s b s'' e
  obtain ⟨a, s', e1, e2⟩ := bind_ok.mp e
  exact (h2 a (h1.h s a s' e1)).h s' b s'' e2

theorem Ans.pure {α : Type} {Q : α → Prop} {a : α} (h : Q a) : Ans Q (pure a : M α) := by
  constructor
  intro s b s' e
  obtain ⟨rfl, _⟩ := pure_ok.mp e
  exact h

theorem Ans.ite {α : Type} {Q : α → Prop} {c : Prop} [Decidable c] {a b : M α} (h1 : Ans Q a) (h2 : Ans Q b) :
    Ans Q (if c then a else b) := by
  by_cases hc : c
  · simp only [hc, if_true]; exact h1
  · simp only [hc, if_false]; exact h2

theorem Ans.pureBind {α β : Type} {Q : β → Prop} {a : α} {f : α → M β} (h : Ans Q (f a)) :
    Ans Q ((Pure.pure a : M α) >>= f) := by
  constructor
  intro s b s'' e
  obtain ⟨a', s', e1, e2⟩ := bind_ok.mp e
  obtain ⟨rfl, rfl⟩ := pure_ok.mp e1
  exact h.h _ _ _ e2

/-- the conditional, remembering the test -/
theorem Ans.iteH {α : Type} {Q : α → Prop} {c : Prop} [Decidable c] {a b : M α} (h1 : c → Ans Q a)
    (h2 : ¬ c → Ans Q b) : Ans Q (if c then a else b) := by
  by_cases hc : c
  · simp only [hc, if_true]; exact h1 hc
  · simp only [hc, if_false]; exact h2 hc

theorem Ans.throw {α : Type} {Q : α → Prop} (e : String) : Ans Q (throw e : M α) :=
  ⟨fun _ _ _ h => absurd h throw_ok⟩

theorem Ans.panicAt {α : Type} {Q : α → Prop} (c f t : String) : Ans Q (panicAt c f t : M α) :=
  ⟨fun _ _ _ h => absurd h throw_ok⟩

theorem Ans.fuelOut {α : Type} {Q : α → Prop} (w : String) : Ans Q (fuelOut w : M α) :=
  ⟨fun _ _ _ h => absurd h throw_ok⟩

theorem Ans.mono {α : Type} {P Q : α → Prop} {m : M α} (h : Ans P m) (hpq : ∀ a, P a → Q a) : Ans Q m :=
  ⟨fun s a s' e => hpq a (h.h s a s' e)⟩

/-! ## acceptable answers of a rule -/

/-- an answer that mentions no token and no label -/
def Plain : ProcessResult → Prop
  | .reprocess _ _ => False
  | .reprocessForeign _ => False
  | .encodingIndicator _ => False
  | _ => True

/-- an acceptable answer of a rule that was handed `tok` -/
def ROk (tok : Token) : ProcessResult → Prop
  | .reprocess _ t => t = tok
  | .reprocessForeign t => t = tok
  | .encodingIndicator l => Fires tok l
  | _ => True

theorem ROk.of_plain {tok : Token} {r : ProcessResult} (h : Plain r) : ROk tok r := by
  cases r <;> first | trivial | exact absurd h (by simp [Plain])

theorem Ans.plain {tok : Token} {m : M ProcessResult} (h : Ans Plain m) : Ans (ROk tok) m :=
  h.mono fun _ => ROk.of_plain

instance (priority := low) {tok : Token} {m : M ProcessResult} [h : Ans Plain m] : Ans (ROk tok) m := h.plain

/-- the walk over a rule: tail positions only -/
syntax "ans_step" : tactic
macro_rules
  | `(tactic| ans_step) => `(tactic|
    first
      | exact Ans.pure trivial
      | exact Ans.pure rfl
      | exact Ans.pure (by with_reducible assumption)
      | exact Ans.throw _
      | exact Ans.panicAt _ _ _
      | exact Ans.fuelOut _
      | exact inferInstance
      | with_reducible assumption
      | with_reducible apply Ans.pureBind
      | with_reducible apply Ans.bind
      | with_reducible apply Ans.iteH
      | intro _
      | split
      | dsimp only)

syntax "ans_walk" : tactic
macro_rules
  | `(tactic| ans_walk) => `(tactic| repeat' ans_step)

end H5V.Props.C19
