import H5V.Lemmas.HtmlTBSkelShapeRB
/-!
C06, second invariant layer, part 13: from the rules to whole runs.  The per-mode statements
(`ModeOk m`), the foreign-content rule (`ForeignOk`) are parameters here (structure `Rules`);
this file proves that they imply the stack-shape invariant for `process_to_completion`,
`process_token`, `processTokens`.
-/
namespace H5V.Props.C06
open H5V.Model.Dom hiding Str
open H5V.Model.HtmlTB hiding Str
open H5V.Lemmas.Dom

/-- the rules of mode `m` keep the stack-shape invariant -/
def ModeOk (m : Mode) : Prop :=
  ∀ (tok : Token) (_ : TokW tok) (r : Id) (s : State) (res : ProcessResult) (s' : State),
    Good r s → s.mode = m → step m tok s = .ok (res, s') → Out r s' res

def ForeignOk : Prop :=
  ∀ (tok : Token) (_ : TokW tok) (r : Id) (s s0 : State) (res : ProcessResult) (s' : State),
    Good r s → isForeign tok s = .ok (true, s0) → stepForeign tok s0 = .ok (res, s') → Out r s' res

/-- `head` + (`body` | `frameset`) are there -/
def BF : Phase → Prop
  | .pb _ => True
  | .pf _ => True
  | _ => False

def Fin (s : State) : Prop := ∃ r up ph, ShapeAt s r up ph ∧ BF ph

/-- the end of the input in mode `m`: either the parse stops with `head` and `body`/`frameset` in
place, or the token is processed again in another mode -/
def EofOk (m : Mode) : Prop :=
  ∀ (r : Id) (s : State) (res : ProcessResult) (s' : State),
    Good r s → s.mode = m → step m .eof s = .ok (res, s') →
      (res = .done ∧ Fin s') ∨ (∃ m', res = .reprocess m' .eof)

structure Rules : Prop where
  mode : ∀ m, isLate m = true → ModeOk m
  foreign : ForeignOk
  eof : ∀ m, isLate m = true → EofOk m

/-! ### fields no early step touches -/

structure E2 (s : State) : Prop where
  af : s.activeFormatting = []
  form : s.formElem = none
  fp : s.fosterParenting = false
  adj : AdjD s.dom []

class KE {α : Type} (prog : M α) : Prop where
  p : ∀ s a s', prog s = .ok (a, s') →
    s'.activeFormatting = s.activeFormatting ∧ s'.formElem = s.formElem ∧ s'.fosterParenting = s.fosterParenting

theorem E2.ke {α : Type} {prog : M α} [h : KE prog] [ka : KA prog] {s s' : State} {a : α} (h2 : E2 s)
    (hb : DomBase s.dom) (hd : s.docHandle = 0) (e : prog s = .ok (a, s')) : E2 s' := by
  obtain ⟨h3, h4, h5⟩ := h.p s a s' e
  exact ⟨h3.trans h2.af, h4.trans h2.form, h5.trans h2.fp, (ka.p s a s' hb hd h2.adj e).2.2⟩

/-- for a program that does not touch the arena's nodes -/
theorem E2.keq {α : Type} {prog : M α} [h : KE prog] {s s' : State} {a : α} (h2 : E2 s)
    (e : prog s = .ok (a, s')) (hn : s'.dom.nodes = s.dom.nodes) : E2 s' := by
  obtain ⟨h3, h4, h5⟩ := h.p s a s' e
  exact ⟨h3.trans h2.af, h4.trans h2.form, h5.trans h2.fp, h2.adj.of_nodes hn⟩

instance {α : Type} (a : α) : KE (pure a : M α) := ⟨fun s b s' e => by obtain ⟨_, rfl⟩ := pure_ok.mp e; exact ⟨rfl, rfl, rfl⟩⟩
instance {α β : Type} (m : M α) (f : α → M β) [h1 : KE m] [h2 : ∀ a, KE (f a)] : KE (m >>= f) :=
  ⟨fun s b s'' e => by
    obtain ⟨a, s', e1, e2⟩ := bind_ok.mp e
    obtain ⟨a1, a2, a3⟩ := h1.p s a s' e1
    obtain ⟨b1, b2, b3⟩ := (h2 a).p s' b s'' e2
    exact ⟨b1.trans a1, b2.trans a2, b3.trans a3⟩⟩
instance {α : Type} (c : Prop) [Decidable c] (a b : M α) [h1 : KE a] [h2 : KE b] : KE (if c then a else b) := by
  by_cases hc : c
  · simp only [hc, if_true]; exact h1
  · simp only [hc, if_false]; exact h2
instance {α : Type} (e : String) : KE (throw e : M α) := ⟨fun _ _ _ h => absurd h throw_ok⟩
instance {α : Type} (c f t : String) : KE (panicAt c f t : M α) := ⟨fun _ _ _ h => absurd h panicAt_ok⟩
instance : KE getS := ⟨fun s a s' e => by obtain ⟨_, rfl⟩ := getS_ok.mp e; exact ⟨rfl, rfl, rfl⟩⟩
instance (op : SinkOp) : KE (sink op) :=
  ⟨fun s a s' e => by obtain ⟨d, _, rfl⟩ := sink_ok.mp e; exact ⟨rfl, rfl, rfl⟩⟩
instance (op : SinkOp) : KE (sinkUnit op) :=
  ⟨fun s a s' e => by obtain ⟨out, e⟩ := sinkUnit_ok.mp e; exact (inferInstance : KE (sink op)).p _ _ _ e⟩
instance (op : SinkOp) : KE (sinkNode op) :=
  ⟨fun s a s' e => (inferInstance : KE (sink op)).p _ _ _ (sinkNode_ok.mp e)⟩
instance (msg : String) : KE (parseError msg) := by unfold parseError; infer_instance
instance : KE unexpected := by unfold unexpected; infer_instance
instance (m : Mode) : KE (setMode m) :=
  ⟨fun s a s' e => by unfold setMode at e; rw [modS_ok.mp e]; exact ⟨rfl, rfl, rfl⟩⟩
instance (m : QuirksMode) : KE (setQuirksMode m) := by
  unfold setQuirksMode
  have : KE (modS fun s => { s with quirksMode := m }) :=
    ⟨fun s a s' e => by rw [modS_ok.mp e]; exact ⟨rfl, rfl, rfl⟩⟩
  infer_instance
instance (x : Id) : KE (push x) := ⟨fun s a s' e => by unfold push at e; rw [modS_ok.mp e]; exact ⟨rfl, rfl, rfl⟩⟩
instance (n : QualName) (a : List Attr) (d : Bool) : KE (createElementWithFlags n a d) := by
  unfold createElementWithFlags; infer_instance
instance (attrs : List Attr) : KE (createRoot attrs) := by unfold createRoot; infer_instance
instance (text : Str) : KE (appendCommentToDoc text) := by unfold appendCommentToDoc; infer_instance

instance (tok : Token) : KE (stepInitial tok) := by
  unfold stepInitial
  split <;> infer_instance

instance (tok : Token) : KE (stepBeforeHtml tok) := by
  unfold stepBeforeHtml
  split <;> infer_instance


/-! ### the creation of the root -/

theorem createRoot_good {s s' : State} {attrs : List Attr} {u : Unit} (h : Early s) (h2 : E2 s)
    (hp : docPre 0 (kinds s.dom) = true) (e : createRoot attrs s = .ok (u, s')) :
    ∃ r, Good r { s' with mode := .beforeHead } := by
  have hl := createRoot_early h hp e .beforeHead rfl
  have h2' : E2 s' := h2.ke h.base h.doc e
  have hadj0 : AdjD s'.dom s'.openElems := (createRoot_adj h.base h.doc h2.adj e).2.2.2 h.oe
  unfold createRoot at e
  obtain ⟨el, s1, e1, e2⟩ := bind_ok.mp e
  obtain ⟨f1, hb1, hc1, hk1, hfresh, hvalid, tc, ip, hdata⟩ := createElementWithFlags_any h.base e1
  obtain ⟨u1, s2, e3, e4⟩ := bind_ok.mp e2
  unfold push at e3
  have hs2 := modS_ok.mp e3
  rw [getS_bind] at e4
  have hdoc2 : s2.docHandle = 0 := by rw [hs2]; show s1.docHandle = 0; rw [f1.doc, h.doc]
  rw [hdoc2] at e4
  obtain ⟨out, hd3, f3⟩ := sinkUnit_dom e4
  have hdom2 : s2.dom = s1.dom := by rw [hs2]
  rw [hdom2] at hd3
  have happ := apply_append hd3
  obtain ⟨hb3, hc3, hlt, hk3⟩ := append_doc_spec hb1 (by rw [hdata]; simp) happ
  have hel1 : s1.dom.isElement el = true := by unfold Dom.isElement; rw [hdata]
  have hoe : s'.openElems = [el] := by
    rw [f3.oe, hs2]
    show s1.openElems ++ [_] = _
    rw [f1.oe, h.oe]; rfl
  have hnm1 : nm s1.dom el = hN "html" := by unfold nm; rw [hdata]; rfl
  have hnm : nm s'.dom el = hN "html" := by rw [nm_chg hc3 hel1]; exact hnm1
  have hkel : s'.dom.childrenOf el = [] := by
    rw [append_node_eq] at happ
    obtain ⟨_, _, hk, _, _⟩ := appendRaw_eff happ
    rw [hk]
    have hne : el ≠ 0 := by
      intro h0; rw [h0] at hfresh
      exact Nat.lt_irrefl _ (Nat.lt_of_lt_of_le h.base.size_pos hfresh)
    simp only [hne, if_false]
    rw [hk1]
    exact childrenOf_of_size_le hfresh
  have hhead : s'.headElem = none := by
    rw [f3.head, hs2]; show s1.headElem = none; rw [f1.head]; exact h.head
  have htm : s'.templateModes = [] := by
    rw [f3.tm, hs2]; show s1.templateModes = []; rw [f1.tm]; exact h.tm
  refine ⟨el, [], .p0, ⟨⟨hl, hoe, ?_, ?_, ?_, ?_, ?_, ?_, ?_, ?_, ?_, ?_, ?_, ?_, ?_, hadj0⟩, ?_⟩, ?_⟩
  · show el ∈ s'.dom.childrenOf 0
    rw [hk3]; simp
  · show s'.openElems.Nodup
    rw [hoe]; simp
  · show TG (nm s'.dom) s'.openElems
    rw [hoe]; exact TG.single _ _
  · intro x t hx
    have hx' : FormatEntry.element x t ∈ s'.activeFormatting := hx
    rw [h2'.af] at hx'; cases hx'
  · show tcount s'.dom s'.openElems ≤ _
    rw [hoe]
    unfold tcount
    have : (nm s'.dom el == hN "template") = false := by rw [hnm]; decide
    simp [this]
  · intro m hm
    have hm' : m ∈ s'.templateModes := hm
    rw [htm] at hm'; cases hm'
  · intro f hf
    have hf' : s'.formElem = some f := hf
    rw [h2'.form] at hf'; cases hf'
  · intro c hc
    have hc' : c ∈ s'.dom.childrenOf el := hc
    rw [hkel] at hc'; cases hc'
  · show (s'.dom.childrenOf el).Nodup
    rw [hkel]; simp
  · intro c hc
    have hc' : c ∈ s'.dom.childrenOf el := hc
    rw [hkel] at hc'; cases hc'
  · show ElemsOk s'.dom s'.headElem el .p0
    refine ⟨hhead, ?_⟩
    unfold rootElems
    rw [hkel]; rfl
  · intro y hy; cases hy
  · intro x hx
    exfalso
    have hx' : x ∈ rootElems s'.dom el := hx
    unfold rootElems at hx'
    rw [hkel] at hx'; cases hx'
  · show FitsM { s' with mode := .beforeHead } [] .p0
    unfold FitsM
    exact ⟨rfl, rfl⟩
  · intro _ hf
    exact hf.2.elim

/-- BeforeHtml with the stack-shape invariant as the outcome of the creation of the root -/
theorem stepBeforeHtml_good {s s' : State} {tok : Token} {res : ProcessResult} (h : EarlyB s) (h2 : E2 s) [ht : TokOk tok]
    (e : stepBeforeHtml tok s = .ok (res, s')) :
    (EarlyB s' ∧ E2 s' ∧ EarlyRes tok res) ∨ ((∃ r, Good r s') ∧ res = .done) ∨
      ((∃ r, Good r { s' with mode := .beforeHead }) ∧ res = .reprocess .beforeHead tok) := by
  have h2' : E2 s' := h2.ke h.1.base h.1.doc e
  have anyElse : ∀ (t : Token) (s0 : State), EarlyB s0 → E2 s0 →
      (do createRoot []; pure (ProcessResult.reprocess Mode.beforeHead t) : M ProcessResult) s0 = .ok (res, s') →
      (∃ r, Good r { s' with mode := .beforeHead }) ∧ res = .reprocess .beforeHead t := by
    intro t s0 h0 h20 e0
    obtain ⟨u, s1, e1, e2⟩ := bind_ok.mp e0
    obtain ⟨rfl, rfl⟩ := pure_ok.mp e2
    exact ⟨createRoot_good h0.1 h20 h0.2.2 e1, rfl⟩
  rcases stepBeforeHtml_spec h e with ⟨hb, hres⟩ | ⟨hl, hr⟩ | ⟨hl, hr⟩
  · exact Or.inl ⟨hb, h2', hres⟩
  · -- the `<html>` start tag
    refine Or.inr (Or.inl ⟨?_, hr⟩)
    unfold stepBeforeHtml at e
    split at e
    · obtain ⟨rfl, he, hm, hk⟩ := appendCommentToDoc_early h.1 e
      exact absurd hl (EarlyB.notLate ⟨he, hm.trans h.2.1, by rw [hk]; exact docPre_append_comment h.2.2⟩)
    · obtain ⟨_, rfl⟩ := pure_ok.mp e; exact absurd hl h.notLate
    · obtain ⟨_, rfl⟩ := pure_ok.mp e; exact absurd hl h.notLate
    · rename_i tag
      by_cases h1 : tag.isStart ["html"] = true
      · simp only [h1, if_true] at e
        obtain ⟨u, s1, e1, e2⟩ := bind_ok.mp e
        obtain ⟨u2, s2, e3, e4⟩ := bind_ok.mp e2
        obtain ⟨_, rfl⟩ := pure_ok.mp e4
        unfold setMode at e3
        rw [modS_ok.mp e3]
        exact createRoot_good h.1 h2 h.2.2 e1
      · simp only [h1] at e
        by_cases h2t : tag.isEnd ["head", "body", "html", "br"] = true
        · simp only [h2t, if_true] at e
          have := (anyElse _ _ h h2 e).2
          rw [hr] at this; cases this
        · simp only [h2t] at e
          by_cases h3 : (tag.kind == H5V.Model.HtmlTok.TagKind.endTag) = true
          · simp only [h3, if_true] at e
            obtain ⟨q, _⟩ := unexpected_run e
            exact absurd hl (EarlyB.notLate (h.same q))
          · simp only [h3] at e
            have := (anyElse _ _ h h2 e).2
            rw [hr] at this; cases this
    · have := (anyElse _ _ h h2 e).2
      rw [hr] at this; cases this
  · refine Or.inr (Or.inr ⟨?_, hr⟩)
    unfold stepBeforeHtml at e
    split at e
    · obtain ⟨rfl, _⟩ := appendCommentToDoc_early h.1 e
      cases hr
    · obtain ⟨rfl, _⟩ := pure_ok.mp e; cases hr
    · obtain ⟨rfl, _⟩ := pure_ok.mp e; cases hr
    · rename_i tag
      by_cases h1 : tag.isStart ["html"] = true
      · simp only [h1, if_true] at e
        obtain ⟨u, s1, e1, e2⟩ := bind_ok.mp e
        obtain ⟨u2, s2, e3, e4⟩ := bind_ok.mp e2
        obtain ⟨rfl, _⟩ := pure_ok.mp e4
        cases hr
      · simp only [h1] at e
        by_cases h2t : tag.isEnd ["head", "body", "html", "br"] = true
        · simp only [h2t, if_true] at e
          exact (anyElse _ _ h h2 e).1
        · simp only [h2t] at e
          by_cases h3 : (tag.kind == H5V.Model.HtmlTok.TagKind.endTag) = true
          · simp only [h3, if_true] at e
            obtain ⟨_, rfl⟩ := unexpected_run e
            cases hr
          · simp only [h3] at e
            exact (anyElse _ _ h h2 e).1
    · exact (anyElse _ _ h h2 e).1


/-! ### one iteration of `process_to_completion` -/

theorem FPok.qs {s s' : State} {up : List Id} (h : FPok s up) (q : QS s s') : FPok s' up := by
  intro hf
  have : s'.fosterParenting = s.fosterParenting := by rw [q.rest]
  rw [this] at hf
  obtain ⟨x, hx, hh⟩ := h hf
  exact ⟨x, hx, by rw [q.nm]; exact hh⟩

theorem Good.qs {r : Id} {s s' : State} (h : Good r s) (q : QS s s') : Good r s' := by
  obtain ⟨up, ph, hs, hf⟩ := h
  exact ⟨up, ph, hs.qs q, fun h => (hf h).qs q⟩

theorem Good.late {r : Id} {s : State} (h : Good r s) : Late s := by
  obtain ⟨_, _, hs, _⟩ := h; exact hs.core.late

/-- the layer-2 invariant of every reachable state -/
def I2 (s : State) : Prop := (¬ Late s → E2 s) ∧ (Late s → ∃ r, Good r s)

inductive SP2 (s : State) (tok : Token) (result : ProcessResult) (s1 : State) : Prop
  | late (r : Id) : Late s1 → ResOk result → Out r s1 result → (Late s ∨ tok ≠ .eof) → SP2 s tok result s1
  | earlyA : ¬ Late s → EarlyA s1 → EarlyRes tok result → E2 s1 → SP2 s tok result s1
  | earlyB : ¬ Late s → EarlyB s1 → EarlyRes tok result → E2 s1 → SP2 s tok result s1
  | aToB : ¬ Late s → EarlyA s1 → result = .reprocess .beforeHtml tok → E2 s1 → SP2 s tok result s1
  | bToLate (r : Id) : ¬ Late s → Late { s1 with mode := .beforeHead } → result = .reprocess .beforeHead tok →
      Good r { s1 with mode := .beforeHead } → SP2 s tok result s1

theorem stepPart_good (R : Rules) {s s1 : State} {tok : Token} {result : ProcessResult} (h : Inv3 s) (h2 : I2 s)
    [ht : TokW tok] (e : stepPart tok s = .ok (result, s1)) : SP2 s tok result s1 := by
  cases h with
  | late hl =>
    obtain ⟨⟨l, _⟩, rr⟩ := (presR_stepPart tok).p _ _ _ hl e
    obtain ⟨r, hg⟩ := h2.2 hl
    refine .late r l rr ?_ (Or.inl hl)
    unfold stepPart at e
    obtain ⟨b, s0, e1, e2⟩ := bind_ok.mp e
    cases b with
    | true =>
      simp only [if_true] at e2
      exact R.foreign tok ht r s s0 result s1 hg e1 e2
    | false =>
      simp only [Bool.false_eq_true, if_false] at e2
      rw [getS_bind] at e2
      have q0 : QS s s0 := IsQ.q _ _ _ e1
      have hg0 := hg.qs q0
      exact R.mode s0.mode hg0.late.ml.mode tok ht r s0 result s1 hg0 rfl e2
  | a ha =>
    have h2a := h2.1 ha.notLate
    unfold stepPart at e
    obtain ⟨b, s0, e1, e2⟩ := bind_ok.mp e
    obtain ⟨rfl, rfl⟩ := isForeign_early ha.1.oe e1
    simp only [Bool.false_eq_true, if_false] at e2
    rw [getS_bind, ha.2.1] at e2
    have h2' : E2 s1 := h2a.ke (prog := stepInitial tok) ha.1.base ha.1.doc e2
    rcases stepInitial_spec ha e2 with ⟨h1, h3⟩ | ⟨h1, h3⟩
    · exact .earlyA ha.notLate h1 h3 h2'
    · exact .aToB ha.notLate h1 h3 h2'
  | b hb =>
    have h2b := h2.1 hb.notLate
    unfold stepPart at e
    obtain ⟨b, s0, e1, e2⟩ := bind_ok.mp e
    obtain ⟨rfl, rfl⟩ := isForeign_early hb.1.oe e1
    simp only [Bool.false_eq_true, if_false] at e2
    rw [getS_bind, hb.2.1] at e2
    have hgood := stepBeforeHtml_good hb h2b e2
    rcases stepBeforeHtml_spec hb e2 with ⟨h1, h3⟩ | ⟨h1, h3⟩ | ⟨h1, h3⟩
    · exact .earlyB hb.notLate h1 h3 (h2b.ke (prog := stepBeforeHtml tok) hb.1.base hb.1.doc e2)
    · rcases hgood with ⟨g1, _, _⟩ | ⟨⟨r, g1⟩, _⟩ | ⟨_, g2⟩
      · exact absurd h1 g1.notLate
      · refine .late r h1 (by rw [h3]; trivial) (by rw [h3]; exact g1) (Or.inr ?_)
        rintro rfl
        have e2' : stepBeforeHtml .eof s0 = .ok (result, s1) := e2
        unfold stepBeforeHtml at e2'
        simp only at e2'
        obtain ⟨u, s3, e3, e4⟩ := bind_ok.mp e2'
        obtain ⟨rfl, _⟩ := pure_ok.mp e4
        cases h3
      · rw [h3] at g2; cases g2
    · rcases hgood with ⟨_, _, g3⟩ | ⟨_, g2⟩ | ⟨⟨r, g1⟩, _⟩
      · rw [h3] at g3; cases g3
      · rw [h3] at g2; cases g2
      · exact .bToLate r hb.notLate h1 h3 g1


theorem mem_takeWhile_p {α : Type} {p : α → Bool} : ∀ {l : List α} {x : α}, x ∈ l.takeWhile p → p x = true
  | [], _, h => by simp at h
  | a :: t, x, h => by
    by_cases ha : p a = true
    · rw [List.takeWhile_cons_of_pos ha] at h
      simp only [List.mem_cons] at h
      rcases h with rfl | h
      · exact ha
      · exact mem_takeWhile_p h
    · rw [List.takeWhile_cons_of_neg ha] at h; cases h

theorem tokW_split {buf first rest : Str} {isWs : Bool} (h : popFrontCharRun buf = some (first, isWs, rest)) :
    TokW (.chars (if isWs then SplitStatus.whitespace else .notWhitespace) first) := by
  have hne := C06_split_run_nonempty h
  refine ⟨fun st s e => by cases e; exact hne, fun s e => ?_⟩
  cases isWs with
  | false => simp at e
  | true =>
    simp only [if_true, Token.chars.injEq, true_and] at e
    subst e
    -- the run is a run of whitespace
    unfold popFrontCharRun at h
    cases buf with
    | nil => simp at h
    | cons c cs =>
      simp only [Option.some.injEq, Prod.mk.injEq] at h
      obtain ⟨h1, h2, _⟩ := h
      rw [← h1, List.all_eq_true]
      intro x hx
      have := mem_takeWhile_p hx
      rw [h2] at this
      simpa using this

theorem tokW_rest {rest : Str} (h : rest.length > 0) : TokW (.chars .notSplit rest) :=
  ⟨fun st s e => by cases e; intro h0; subst h0; simp at h, fun s e => by cases e⟩

theorem stepPart_eof (R : Rules) {s s1 : State} {r : Id} {result : ProcessResult} (hg : Good r s)
    (e : stepPart .eof s = .ok (result, s1)) : (result = .done ∧ Fin s1) ∨ (∃ m', result = .reprocess m' .eof) := by
  unfold stepPart at e
  obtain ⟨b, s0, e1, e2⟩ := bind_ok.mp e
  have hb : b = false ∧ s0 = s := by
    unfold isForeign at e1
    simp only [beq_self_eq_true, if_true] at e1
    obtain ⟨rfl, rfl⟩ := pure_ok.mp e1
    exact ⟨rfl, rfl⟩
  obtain ⟨rfl, rfl⟩ := hb
  simp only [Bool.false_eq_true, if_false] at e2
  rw [getS_bind] at e2
  exact R.eof s0.mode hg.late.ml.mode r s0 result s1 hg rfl e2


/-! ### `process_to_completion` -/

theorem I2.ofGood {r : Id} {s : State} (h : Good r s) : I2 s := ⟨fun hn => absurd h.late hn, fun _ => ⟨r, h⟩⟩
theorem I2.ofEarly {s : State} (hn : ¬ Late s) (h : E2 s) : I2 s := ⟨fun _ => h, fun hl => absurd hl hn⟩

def P2 (tok : Token) (more : List Token) (s' : State) : Prop := I2 s' ∧ (tok = .eof → more = [] → Fin s')

theorem E2.same {s s' : State} (h : E2 s) (h1 : s'.activeFormatting = s.activeFormatting)
    (h2 : s'.formElem = s.formElem) (h3 : s'.fosterParenting = s.fosterParenting) (h4 : s'.dom = s.dom) : E2 s' :=
  ⟨h1.trans h.af, h2.trans h.form, h3.trans h.fp, by rw [h4]; exact h.adj⟩

set_option maxHeartbeats 1600000 in
theorem ptc_good (R : Rules) : ∀ (fuel : Nat) (tok : Token) (more : List Token) (s : State) (r : SinkResult) (s' : State),
    Inv3 s → I2 s → TokW tok → (∀ t ∈ more, TokW t) → processToCompletion fuel tok more s = .ok (r, s') →
    P2 tok more s'
  | 0, _, _, _, _, _, _, _, _, _, e => by unfold processToCompletion at e; exact absurd e fuelOut_ok
  | fuel + 1, tok, more, s, r, s', hinv, hi2, htok, hmore, e => by
    have ih := ptc_good R fuel
    -- continuing with the queue of pending tokens
    have hcont : ∀ (s2 : State) (K : M SinkResult), Inv3 s2 → I2 s2 → (tok = .eof → more = [] → Fin s2) →
        ((more = [] ∧ K = pure SinkResult.continue_) ∨
          (∃ t rest, more = t :: rest ∧ K = processToCompletion fuel t rest)) →
        K s2 = .ok (r, s') → P2 tok more s' := by
      intro s2 K h2 hi hfin hK e2
      rcases hK with ⟨hm, rfl⟩ | ⟨t, rest, hm, rfl⟩
      · obtain ⟨_, rfl⟩ := pure_ok.mp e2
        exact ⟨hi, hfin⟩
      · have := ih t rest s2 r s' h2 hi (hmore t (by simp [hm])) (fun x hx => hmore x (by simp [hm, hx])) e2
        exact ⟨this.1, fun _ h => by rw [hm] at h; cases h⟩
    have hmore2 : ∀ (rest : Str), ∀ x ∈ (if List.length rest > 0 then more ++ [Token.chars SplitStatus.notSplit rest] else more),
        TokW x := by
      intro rest x hx
      by_cases hr : rest.length > 0
      · simp only [hr, if_true, List.mem_append, List.mem_singleton] at hx
        rcases hx with hx | rfl
        · exact hmore x hx
        · exact tokW_rest hr
      · simp only [hr, if_false] at hx
        exact hmore x hx
    unfold processToCompletion at e
    obtain ⟨b, s0, e1, e2⟩ := bind_ok.mp e
    obtain ⟨result, s1, hstep, e⟩ := split_jp e1 e2
    clear e1 e2
    have hpost := stepPart_good R hinv hi2 hstep
    -- the end of the input
    have heofres : tok = .eof → Late s → (result = .done ∧ Fin s1) ∨ (∃ m', result = .reprocess m' .eof) := by
      intro he hl
      subst he
      obtain ⟨r0, hg⟩ := hi2.2 hl
      exact stepPart_eof R hg hstep
    cases hpost with
    | late r0 hl1 hres hout hle =>
      have hnotearly : tok = .eof → Late s := by
        intro he
        rcases hle with h | h
        · exact h
        · exact absurd he h
      cases result with
      | done =>
        have hfin : tok = .eof → more = [] → Fin s1 := by
          intro he _
          rcases heofres he (hnotearly he) with ⟨_, hf⟩ | ⟨m', hm'⟩
          · exact hf
          · cases hm'
        simp only at e
        rcases ite_run e with ⟨_, e⟩ | ⟨_, e⟩
        · obtain ⟨u, s2, e3, e4⟩ := bind_ok.mp e
          have q2 := (qs_parseError e3)
          have hl2 := hl1.same (same3_parseError e3)
          have hg2 : Good r0 s2 := Good.qs hout q2
          have hfin2 : tok = .eof → more = [] → Fin s2 := by
            intro he hm
            obtain ⟨r1, up, ph, hs, hbf⟩ := hfin he hm
            exact ⟨r1, up, ph, hs.qs q2, hbf⟩
          cases more with
          | nil => exact hcont s2 _ (.late hl2) (I2.ofGood hg2) hfin2 (Or.inl ⟨rfl, rfl⟩) e4
          | cons t rest => exact hcont s2 _ (.late hl2) (I2.ofGood hg2) hfin2 (Or.inr ⟨t, rest, rfl, rfl⟩) e4
        · cases more with
          | nil => exact hcont s1 _ (.late hl1) (I2.ofGood hout) hfin (Or.inl ⟨rfl, rfl⟩) e
          | cons t rest => exact hcont s1 _ (.late hl1) (I2.ofGood hout) hfin (Or.inr ⟨t, rest, rfl, rfl⟩) e
      | doneAckSelfClosing =>
        have hfin : tok = .eof → more = [] → Fin s1 := by
          intro he _
          rcases heofres he (hnotearly he) with ⟨h1, _⟩ | ⟨m', hm'⟩
          · cases h1
          · cases hm'
        simp only at e
        cases more with
        | nil => exact hcont s1 _ (.late hl1) (I2.ofGood hout) hfin (Or.inl ⟨rfl, rfl⟩) e
        | cons t rest => exact hcont s1 _ (.late hl1) (I2.ofGood hout) hfin (Or.inr ⟨t, rest, rfl, rfl⟩) e
      | reprocess m t =>
        simp only at e
        obtain ⟨u, s2, e3, e4⟩ := bind_ok.mp e
        obtain ⟨q, ml⟩ := (quiet_setMode m hres.1).q _ _ _ hl1.ml e3
        have hl2 := hl1.qrel q ml
        unfold setMode at e3
        have hs2 := modS_ok.mp e3
        have hg2 : Good r0 s2 := by rw [hs2]; exact hout.1
        have := ih t more s2 r s' (.late hl2) (I2.ofGood hg2) hout.2 hmore e4
        refine ⟨this.1, fun he hm => ?_⟩
        rcases heofres he (hnotearly he) with ⟨h1, _⟩ | ⟨m', hm'⟩
        · cases h1
        · cases hm'
          exact this.2 rfl hm
      | reprocessForeign t =>
        simp only at e
        have := ih t more s1 r s' (.late hl1) (I2.ofGood hout.1) hout.2 hmore e
        refine ⟨this.1, fun he hm => ?_⟩
        rcases heofres he (hnotearly he) with ⟨h1, _⟩ | ⟨m', hm'⟩
        · cases h1
        · cases hm'
      | splitWhitespace buf =>
        have hne : tok ≠ .eof := by
          intro he
          rcases heofres he (hnotearly he) with ⟨h1, _⟩ | ⟨m', hm'⟩
          · cases h1
          · cases hm'
        simp only at e
        cases hp : popFrontCharRun buf with
        | none =>
          simp only [hp] at e
          obtain ⟨_, rfl⟩ := pure_ok.mp e
          exact ⟨I2.ofGood hout, fun he => absurd he hne⟩
        | some p =>
          obtain ⟨first, isWs, rest⟩ := p
          simp only [hp] at e
          have := ih _ _ s1 r s' (.late hl1) (I2.ofGood hout) (tokW_split hp) (hmore2 rest) e
          exact ⟨this.1, fun he => absurd he hne⟩
      | script node =>
        have hne : tok ≠ .eof := by
          intro he
          rcases heofres he (hnotearly he) with ⟨h1, _⟩ | ⟨m', hm'⟩
          · cases h1
          · cases hm'
        simp only at e
        rcases ite_run e with ⟨_, e⟩ | ⟨_, e⟩
        · obtain ⟨_, _, e3, _⟩ := bind_ok.mp e
          exact absurd e3 panicAt_ok
        · obtain ⟨_, rfl⟩ := pure_ok.mp e
          exact ⟨I2.ofGood hout, fun he => absurd he hne⟩
      | toPlaintext =>
        have hne : tok ≠ .eof := by
          intro he
          rcases heofres he (hnotearly he) with ⟨h1, _⟩ | ⟨m', hm'⟩
          · cases h1
          · cases hm'
        simp only at e
        rcases ite_run e with ⟨_, e⟩ | ⟨_, e⟩
        · obtain ⟨_, _, e3, _⟩ := bind_ok.mp e
          exact absurd e3 panicAt_ok
        · obtain ⟨_, rfl⟩ := pure_ok.mp e
          exact ⟨I2.ofGood hout, fun he => absurd he hne⟩
      | toRawData k =>
        have hne : tok ≠ .eof := by
          intro he
          rcases heofres he (hnotearly he) with ⟨h1, _⟩ | ⟨m', hm'⟩
          · cases h1
          · cases hm'
        simp only at e
        rcases ite_run e with ⟨_, e⟩ | ⟨_, e⟩
        · obtain ⟨_, _, e3, _⟩ := bind_ok.mp e
          exact absurd e3 panicAt_ok
        · obtain ⟨_, rfl⟩ := pure_ok.mp e
          exact ⟨I2.ofGood hout, fun he => absurd he hne⟩
      | encodingIndicator enc =>
        have hne : tok ≠ .eof := by
          intro he
          rcases heofres he (hnotearly he) with ⟨h1, _⟩ | ⟨m', hm'⟩
          · cases h1
          · cases hm'
        simp only at e
        obtain ⟨_, rfl⟩ := pure_ok.mp e
        exact ⟨I2.ofGood hout, fun he => absurd he hne⟩
    | earlyA hnl ha hres h2' =>
      cases hres with
      | done hne =>
        simp only at e
        rcases ite_run e with ⟨_, e⟩ | ⟨_, e⟩
        · obtain ⟨u, s2, e3, e4⟩ := bind_ok.mp e
          have ha2 := ha.same (same3_parseError e3)
          have h22 : E2 s2 := h2'.keq e3 (same3_parseError e3).nodes
          cases more with
          | nil => exact hcont s2 _ (.a ha2) (I2.ofEarly ha2.notLate h22) (fun he => absurd he hne) (Or.inl ⟨rfl, rfl⟩) e4
          | cons t rest => exact hcont s2 _ (.a ha2) (I2.ofEarly ha2.notLate h22) (fun he => absurd he hne) (Or.inr ⟨t, rest, rfl, rfl⟩) e4
        · cases more with
          | nil => exact hcont s1 _ (.a ha) (I2.ofEarly ha.notLate h2') (fun he => absurd he hne) (Or.inl ⟨rfl, rfl⟩) e
          | cons t rest => exact hcont s1 _ (.a ha) (I2.ofEarly ha.notLate h2') (fun he => absurd he hne) (Or.inr ⟨t, rest, rfl, rfl⟩) e
      | split buf hbuf hne =>
        simp only at e
        cases hp : popFrontCharRun buf with
        | none =>
          simp only [hp] at e
          obtain ⟨_, rfl⟩ := pure_ok.mp e
          exact ⟨I2.ofEarly ha.notLate h2', fun he => absurd he hne⟩
        | some p =>
          obtain ⟨first, isWs, rest⟩ := p
          simp only [hp] at e
          have := ih _ _ s1 r s' (.a ha) (I2.ofEarly ha.notLate h2') (tokW_split hp) (hmore2 rest) e
          exact ⟨this.1, fun he => absurd he hne⟩
    | earlyB hnl hb hres h2' =>
      cases hres with
      | done hne =>
        simp only at e
        rcases ite_run e with ⟨_, e⟩ | ⟨_, e⟩
        · obtain ⟨u, s2, e3, e4⟩ := bind_ok.mp e
          have hb2 := hb.same (same3_parseError e3)
          have h22 : E2 s2 := h2'.keq e3 (same3_parseError e3).nodes
          cases more with
          | nil => exact hcont s2 _ (.b hb2) (I2.ofEarly hb2.notLate h22) (fun he => absurd he hne) (Or.inl ⟨rfl, rfl⟩) e4
          | cons t rest => exact hcont s2 _ (.b hb2) (I2.ofEarly hb2.notLate h22) (fun he => absurd he hne) (Or.inr ⟨t, rest, rfl, rfl⟩) e4
        · cases more with
          | nil => exact hcont s1 _ (.b hb) (I2.ofEarly hb.notLate h2') (fun he => absurd he hne) (Or.inl ⟨rfl, rfl⟩) e
          | cons t rest => exact hcont s1 _ (.b hb) (I2.ofEarly hb.notLate h2') (fun he => absurd he hne) (Or.inr ⟨t, rest, rfl, rfl⟩) e
      | split buf hbuf hne =>
        simp only at e
        cases hp : popFrontCharRun buf with
        | none =>
          simp only [hp] at e
          obtain ⟨_, rfl⟩ := pure_ok.mp e
          exact ⟨I2.ofEarly hb.notLate h2', fun he => absurd he hne⟩
        | some p =>
          obtain ⟨first, isWs, rest⟩ := p
          simp only [hp] at e
          have := ih _ _ s1 r s' (.b hb) (I2.ofEarly hb.notLate h2') (tokW_split hp) (hmore2 rest) e
          exact ⟨this.1, fun he => absurd he hne⟩
    | aToB hnl ha hres h2' =>
      subst hres
      simp only at e
      obtain ⟨u, s2, e3, e4⟩ := bind_ok.mp e
      unfold setMode at e3
      rw [modS_ok.mp e3] at e4
      have hb2 := ha.toB
      exact ih tok more _ r s' (.b hb2) (I2.ofEarly hb2.notLate ⟨h2'.af, h2'.form, h2'.fp, h2'.adj⟩) htok hmore e4
    | bToLate r0 hnl hl1 hres hg =>
      subst hres
      simp only at e
      obtain ⟨u, s2, e3, e4⟩ := bind_ok.mp e
      unfold setMode at e3
      rw [modS_ok.mp e3] at e4
      exact ih tok more _ r s' (.late hl1) (I2.ofGood hg) htok hmore e4


/-! ### `process_token`, token runs -/

/-- fields outside the invariant may change -/
theorem Good.free {r : Id} {s s' : State} (h : Good r s)
    (h1 : s'.dom = s.dom) (h2 : s'.openElems = s.openElems) (h3 : s'.headElem = s.headElem)
    (h4 : s'.docHandle = s.docHandle) (h5 : s'.contextElem = s.contextElem)
    (h6 : s'.pendingTableText = s.pendingTableText) (h7 : s'.mode = s.mode) (h8 : s'.origMode = s.origMode)
    (h9 : s'.templateModes = s.templateModes) (h10 : s'.activeFormatting = s.activeFormatting)
    (h11 : s'.formElem = s.formElem) (h12 : s'.fosterParenting = s.fosterParenting) : Good r s' := by
  obtain ⟨up, ph, ⟨hc, hf⟩, hfp⟩ := h
  have hl : Late s' := hc.late.free h1 h2 h3 h4 h5 h6 h7 h8 h9
  refine ⟨up, ph, ⟨⟨hl, by rw [h2]; exact hc.stack, by rw [h1]; exact hc.rdoc, by rw [h2]; exact hc.nodup,
    by rw [h1, h2]; exact hc.tg, by rw [h1, h10]; exact hc.afn, by rw [h1, h2, h9]; exact hc.tc, by rw [h9]; exact hc.tmm,
    by rw [h1, h11]; exact hc.form, by rw [h1]; exact hc.rtu, by rw [h1]; exact hc.rnd, by rw [h1]; exact hc.kids,
    by rw [h1, h3]; exact hc.elems, by rw [h1]; exact hc.bh, by rw [h1, h10]; exact hc.afx,
    by rw [h1, h2]; exact hc.adj⟩, ?_⟩, ?_⟩
  · unfold FitsM at hf ⊢
    rw [h7, h8, h1, h3]; exact hf
  · intro hpf hfl
    rw [h12] at hfl
    rw [h1]; exact hfp hpf hfl

theorem i2_same {s s' : State} (hinv : Inv3 s) (h : I2 s) (q : Same3 s s')
    (hg : ∀ r, Good r s → Good r s') (he : E2 s → E2 s') : I2 s' := by
  cases hinv with
  | late hl =>
    obtain ⟨r, g⟩ := h.2 hl
    exact I2.ofGood (hg r g)
  | a ha => exact I2.ofEarly (ha.same q).notLate (he (h.1 ha.notLate))
  | b hb => exact I2.ofEarly (hb.same q).notLate (he (h.1 hb.notLate))


/-- the "anything else" arm of "in table text" is `flush_pending_table_text` followed by the reprocessing -/
theorem stepInTableText_comment (c : Str) :
    stepInTableText (.comment c) = flushPendingTableText >>= fun m => pure (.reprocess m (.comment c)) := by
  unfold stepInTableText flushPendingTableText
  simp only [bind_assoc]
  congr 1; funext s0
  congr 1; funext _
  split
  · simp only [bind_assoc]
    congr 1; funext _
    congr 1; funext _
    congr 1; funext s1
    cases s1.origMode with
    | none => simp only [panicAt]; rfl
    | some m0 => simp
  · simp only [bind_assoc]
    congr 1; funext _
    congr 1; funext s1
    cases s1.origMode with
    | none => simp only [panicAt]; rfl
    | some m0 => simp

theorem processToken_good (R : Rules) {s s' : State} {t : TokToken} {line : Nat} {r : SinkResult} (h : Inv3 s)
    (hi : I2 s) (e : processToken t line s = .ok (r, s')) : I2 s' ∧ (t = .eof → Fin s') := by
  unfold processToken at e
  rw [getS_bind] at e
  obtain ⟨s1, hs1, e1⟩ := ite_prefix_run e
  have q1 : Same3 s s1 := by
    rcases hs1 with rfl | ⟨u, hu⟩
    · exact Same3.refl _
    · exact same3_sinkUnit hu
  have hi1 : I2 s1 := by
    rcases hs1 with rfl | ⟨u, hu⟩
    · exact hi
    · exact i2_same h hi q1 (fun r g => g.qs (qs_sinkUnit hu)) (fun h2 => h2.keq hu q1.nodes)
  have h1 : Inv3 s1 := h.same q1
  simp only at e1
  rw [getS_bind] at e1
  obtain ⟨u, s2, e2, e3⟩ := bind_ok.mp e1
  have hs2 := modS_ok.mp e2
  have q12 : Same3 s1 s2 := same3_modS ⟨rfl, rfl, rfl, rfl, rfl, rfl, rfl, rfl, rfl⟩ e2
  have h2 : Inv3 s2 := h1.same q12
  have hi2 : I2 s2 := i2_same h1 hi1 q12
    (fun r g => by rw [hs2]; exact g.free rfl rfl rfl rfl rfl rfl rfl rfl rfl rfl rfl rfl)
    (fun h2 => by rw [hs2]; exact ⟨h2.af, h2.form, h2.fp, h2.adj⟩)
  -- a token handed to `process_to_completion`
  have run : ∀ (tk : Token), TokW tk →
      (do let __do_lift ← getS; processToCompletion (ptcFuel __do_lift tk) tk [] : M SinkResult) s2 = .ok (r, s') →
      I2 s' ∧ (tk = .eof → Fin s') := by
    intro tk htk e9
    rw [getS_bind] at e9
    have := ptc_good R _ tk [] s2 r s' h2 hi2 htk (by intro x hx; cases hx) e9
    exact ⟨this.1, fun he => this.2 he rfl⟩
  cases t with
  | parseError msg =>
    simp only at e3
    obtain ⟨u3, s3, e4, e5⟩ := bind_ok.mp e3
    obtain ⟨u4, s4, e6, e7⟩ := bind_ok.mp e5
    obtain ⟨tb, s5, e8, e9⟩ := bind_ok.mp e7
    obtain ⟨rfl, rfl⟩ := pure_ok.mp e8
    have q3 := same3_sinkUnit e4
    have h3 : Inv3 s3 := h2.same q3
    have hi3 : I2 s3 := i2_same h2 hi2 q3 (fun r g => g.qs (qs_sinkUnit e4)) (fun h2 => h2.keq e4 q3.nodes)
    have hs4 := modS_ok.mp e6
    have q34 : Same3 s3 s4 := same3_modS ⟨rfl, rfl, rfl, rfl, rfl, rfl, rfl, rfl, rfl⟩ e6
    have hi4 : I2 s4 := i2_same h3 hi3 q34
      (fun r g => by rw [hs4]; exact g.free rfl rfl rfl rfl rfl rfl rfl rfl rfl rfl rfl rfl)
      (fun h2 => by rw [hs4]; exact ⟨h2.af, h2.form, h2.fp, h2.adj⟩)
    simp only at e9
    obtain ⟨_, rfl⟩ := pure_ok.mp e9
    exact ⟨hi4, fun h => by cases h⟩
  | doctype dt =>
    simp only at e3
    rw [getS_bind] at e3
    rcases ite_run e3 with ⟨hmode, e3⟩ | ⟨hmode, e3⟩
    · -- Initial
      have hmode' : s2.mode = .initial := by simpa using hmode
      have ha : EarlyA s2 := by
        cases h2 with
        | a ha => exact ha
        | b hb => have := hb.2.1; rw [hmode'] at this; cases this
        | late hl => have := hl.ml.mode; rw [hmode'] at this; cases this
      have he2 : E2 s2 := hi2.1 ha.notLate
      refine ⟨?_, fun h => by cases h⟩
      -- the state afterwards is in BeforeHtml with the same formatting list, form pointer, foster flag
      obtain ⟨a', _, _⟩ := processToken_inv (t := .doctype dt) (line := line) (r := r) h
        (by unfold processToken; rw [getS_bind]; exact e)
      have hke : E2 s' := by
        rw [getS_bind] at e3
        cases hdq : doctypeErrorAndQuirks dt s2.opts.iframeSrcdoc with
        | mk err quirk =>
          simp only [hdq] at e3
          obtain ⟨s3, hs3, e4⟩ := ite_prefix_run e3
          have he3 : E2 s3 ∧ EarlyA s3 := by
            rcases hs3 with rfl | ⟨u, hu⟩
            · exact ⟨he2, ha⟩
            · exact ⟨he2.keq hu (same3_parseError hu).nodes, ha.same (same3_parseError hu)⟩
          rw [getS_bind] at e4
          obtain ⟨s4, hs4', e5⟩ := ite_prefix_run e4
          have he4 : E2 s4 := by
            rcases hs4' with rfl | ⟨u, hu⟩
            · exact he3.1
            · exact he3.1.ke he3.2.1.base he3.2.1.doc hu
          obtain ⟨u5, s5, e6, e7⟩ := bind_ok.mp e5
          obtain ⟨u6, s6, e8, e9⟩ := bind_ok.mp e7
          obtain ⟨tb, s7, e10, e11⟩ := bind_ok.mp e9
          obtain ⟨rfl, rfl⟩ := pure_ok.mp e10
          simp only at e11
          obtain ⟨_, rfl⟩ := pure_ok.mp e11
          have q5 := setQuirksMode_run e6
          refine (he4.keq e6 q5.nodes).keq e8 ?_
          unfold setMode at e8
          rw [modS_ok.mp e8]
      have hnl : ¬ Late s' := by
        intro hl
        -- the mode is BeforeHtml
        have hm : s'.mode = .beforeHtml := by
          rw [getS_bind] at e3
          cases hdq : doctypeErrorAndQuirks dt s2.opts.iframeSrcdoc with
          | mk err quirk =>
            simp only [hdq] at e3
            obtain ⟨s3, _, e4⟩ := ite_prefix_run e3
            rw [getS_bind] at e4
            obtain ⟨s4, _, e5⟩ := ite_prefix_run e4
            obtain ⟨u5, s5, e6, e7⟩ := bind_ok.mp e5
            obtain ⟨u6, s6, e8, e9⟩ := bind_ok.mp e7
            obtain ⟨tb, s7, e10, e11⟩ := bind_ok.mp e9
            obtain ⟨rfl, rfl⟩ := pure_ok.mp e10
            simp only at e11
            obtain ⟨_, rfl⟩ := pure_ok.mp e11
            unfold setMode at e8
            rw [modS_ok.mp e8]
        have := hl.ml.mode
        rw [hm] at this; cases this
      exact I2.ofEarly hnl hke
    · have tail : ∀ s3 : State, Inv3 s3 → I2 s3 →
          (parseError "DOCTYPE in body" >>= fun _ => (pure none : M (Option Token)) >>= fun tbToken =>
            match tbToken with
            | none => pure SinkResult.continue_
            | some t => do
              let __do_lift ← getS
              processToCompletion (ptcFuel __do_lift t) t []) s3 = .ok (r, s') →
          I2 s' ∧ (TokToken.doctype dt = .eof → Fin s') := by
        intro s3 h3 hi3 e3
        obtain ⟨u3, s4, e4, e5⟩ := bind_ok.mp e3
        obtain ⟨tb, s5, e8, e9⟩ := bind_ok.mp e5
        obtain ⟨rfl, rfl⟩ := pure_ok.mp e8
        have q3 := same3_parseError e4
        simp only at e9
        obtain ⟨_, rfl⟩ := pure_ok.mp e9
        exact ⟨i2_same h3 hi3 q3 (fun r g => g.qs (qs_parseError e4)) (fun h2 => h2.keq e4 q3.nodes), fun h => by cases h⟩
      rw [getS_bind] at e3
      rcases ite_run e3 with ⟨hmt, e3⟩ | ⟨_, e3⟩
      · -- in table text: the pending text is flushed as by the "anything else" arm of that mode
        have hmt' : s2.mode = .inTableText := by simpa using hmt
        have hl2 : Late s2 := by
          cases h2 with
          | a ha => have := ha.2.1; rw [hmt'] at this; cases this
          | b hb => have := hb.2.1; rw [hmt'] at this; cases this
          | late hl => exact hl
        obtain ⟨rt, hg2⟩ := hi2.2 hl2
        obtain ⟨m0, s3, e4, e5⟩ := bind_ok.mp e3
        obtain ⟨hl3, hm0, _⟩ := flushPendingTableText_late hl2 e4
        have estep : step .inTableText (.comment []) s2 = .ok (.reprocess m0 (.comment []), s3) := by
          show stepInTableText (.comment []) s2 = _
          rw [stepInTableText_comment]
          exact bind_ok.mpr ⟨m0, s3, e4, rfl⟩
        have hout := R.mode .inTableText rfl (.comment []) inferInstance rt s2 _ s3 hg2 hmt' estep
        obtain ⟨u4, s4, e6, e7⟩ := bind_ok.mp e5
        unfold setMode at e6
        have hs4 := modS_ok.mp e6
        have hl4 : Late s4 := by
          rw [hs4]
          exact ⟨hl3.base, hl3.pat, ⟨hl3.st.doc, hl3.st.ctx, hl3.st.oe, hl3.st.tail, hl3.st.head, hl3.st.ptt⟩,
            ⟨hm0, hl3.ml.orig, hl3.ml.tm⟩⟩
        have hg4 : Good rt s4 := by rw [hs4]; exact hout.1
        exact tail s4 (.late hl4) ⟨fun hn => absurd hl4 hn, fun _ => ⟨rt, hg4⟩⟩ e7
      · exact tail s2 h2 hi2 e3
  | tag tg =>
    simp only at e3
    obtain ⟨tb, s5, e8, e9⟩ := bind_ok.mp e3
    obtain ⟨rfl, rfl⟩ := pure_ok.mp e8
    simp only at e9
    exact ⟨(run _ inferInstance e9).1, fun h => by cases h⟩
  | comment c =>
    simp only at e3
    obtain ⟨tb, s5, e8, e9⟩ := bind_ok.mp e3
    obtain ⟨rfl, rfl⟩ := pure_ok.mp e8
    simp only at e9
    exact ⟨(run _ inferInstance e9).1, fun h => by cases h⟩
  | nullChar =>
    simp only at e3
    obtain ⟨tb, s5, e8, e9⟩ := bind_ok.mp e3
    obtain ⟨rfl, rfl⟩ := pure_ok.mp e8
    simp only at e9
    exact ⟨(run _ inferInstance e9).1, fun h => by cases h⟩
  | eof =>
    simp only at e3
    obtain ⟨tb, s5, e8, e9⟩ := bind_ok.mp e3
    obtain ⟨rfl, rfl⟩ := pure_ok.mp e8
    simp only at e9
    have := run _ inferInstance e9
    exact ⟨this.1, fun _ => this.2 rfl⟩
  | chars x =>
    simp only at e3
    obtain ⟨tb, s5, e8, e9⟩ := bind_ok.mp e3
    obtain ⟨rfl, rfl⟩ := pure_ok.mp e8
    cases hct : charsToken s1.ignoreLf x with
    | none =>
      simp only [hct] at e9
      obtain ⟨_, rfl⟩ := pure_ok.mp e9
      exact ⟨hi2, fun h => by cases h⟩
    | some tk =>
      simp only [hct] at e9
      have htk : TokW tk := by
        obtain ⟨y, rfl, hy⟩ := C06_chars_token_nonempty hct
        exact ⟨fun st s e => by cases e; exact hy, fun s e => by cases e⟩
      exact ⟨(run _ htk e9).1, fun h => by cases h⟩

theorem processTokens_good (R : Rules) : ∀ (toks : List (TokToken × Nat)) (acc : List SinkResult) (s : State)
    (r : List SinkResult) (s' : State), Inv3 s → I2 s → processTokens toks acc s = .ok (r, s') →
    Inv3 s' ∧ I2 s' ∧ (∀ pre line, toks = pre ++ [(TokToken.eof, line)] → Fin s')
  | [], acc, s, r, s', h, hi, e => by
    unfold processTokens at e
    obtain ⟨_, rfl⟩ := pure_ok.mp e
    exact ⟨h, hi, fun pre line hh => by cases pre <;> simp at hh⟩
  | (t, line) :: rest, acc, s, r, s', h, hi, e => by
    unfold processTokens at e
    obtain ⟨r1, s1, e1, e2⟩ := bind_ok.mp e
    obtain ⟨a1, _, _⟩ := processToken_inv h e1
    obtain ⟨b1, c1⟩ := processToken_good R h hi e1
    obtain ⟨a2, b2, c2⟩ := processTokens_good R rest _ s1 r s' a1 b1 e2
    refine ⟨a2, b2, ?_⟩
    intro pre line' hh
    cases rest with
    | nil =>
      -- the token is the last one
      unfold processTokens at e2
      obtain ⟨_, rfl⟩ := pure_ok.mp e2
      cases pre with
      | nil =>
        simp only [List.nil_append, List.cons.injEq, Prod.mk.injEq, and_true] at hh
        exact c1 hh.1
      | cons p pre' =>
        simp only [List.cons_append, List.cons.injEq] at hh
        have := hh.2
        cases pre' <;> simp at this
    | cons t2 rest2 =>
      cases pre with
      | nil => simp at hh
      | cons p pre' =>
        simp only [List.cons_append, List.cons.injEq] at hh
        exact c2 pre' line' hh.2

end H5V.Props.C06
