import H5V.Lemmas.HtmlTBModesAbs
/-!
The algorithms of `H5V.Spec.TreeAlgo2` are natural in the token type: for `f : T → T'` and contexts
`cx : Ctx T`, `cx' : Ctx T'` that agree along `f` (`CtxMap f cx cx'`), running an algorithm on `mapP f st`
(with tokens `f tok`) gives the `mapP f`-image of the result on `st`.

The functions that do not mention tokens (`appropriatePlace`, `anyOtherEndTag`, `stackPos`, `furthestBlock`,
`hasNodeInScope`, `generateImpliedEndTags`, `popUntilPopped`, `clearStackBackTo*`, `closePElement`) only read
`st.stack` / `st.fosterParenting`, and `(mapP f st).stack = st.stack` etc. hold by `rfl`.
-/
namespace H5V.Lemmas.HtmlTBModes
open H5V.Spec.TreeAlgo2

/-- the contexts `cx` and `cx'` agree along the token map `f` -/
structure CtxMap {T T' : Type} (f : T → T') (cx : Ctx T) (cx' : Ctx T') : Prop where
  name : ∀ t, cx'.tokName (f t) = cx.tokName t
  form : ∀ t, cx'.tokHasFormAttr (f t) = cx.tokHasFormAttr t

section Basics
variable {N T T' : Type} (f : T → T')

@[simp] theorem mapP_stack (st : PState N T) : (mapP f st).stack = st.stack := rfl
@[simp] theorem mapP_list (st : PState N T) : (mapP f st).list = st.list.map (Entry.mapTok f) := rfl
@[simp] theorem mapP_fosterParenting (st : PState N T) : (mapP f st).fosterParenting = st.fosterParenting := rfl
@[simp] theorem mapP_formPointer (st : PState N T) : (mapP f st).formPointer = st.formPointer := rfl
@[simp] theorem mapP_supply (st : PState N T) : (mapP f st).supply = st.supply := rfl
@[simp] theorem mapP_log (st : PState N T) : (mapP f st).log = st.log.map (Edit.mapTok f) := rfl

@[simp] theorem Entry.mapTok_marker : Entry.mapTok f (Entry.marker : Entry N T) = Entry.marker := rfl
@[simp] theorem Entry.mapTok_element (n : N) (t : T) :
    Entry.mapTok f (Entry.element n t) = Entry.element n (f t) := rfl
@[simp] theorem Entry.isMarker_mapTok (e : Entry N T) : (Entry.mapTok f e).isMarker = e.isMarker := by
  cases e <;> rfl
@[simp] theorem Entry.node?_mapTok (e : Entry N T) : (Entry.mapTok f e).node? = e.node? := by
  cases e <;> rfl

/-- `mapP` commutes with updates of the token-free fields -/
theorem mapP_mk (stack : List (Elem N)) (list : List (Entry N T)) (fp : Bool) (form : Option N)
    (supply : List N) (log : List (Edit N T)) :
    mapP f { stack := stack, list := list, fosterParenting := fp, formPointer := form, supply := supply,
             log := log }
      = { stack := stack, list := list.map (Entry.mapTok f), fosterParenting := fp, formPointer := form,
          supply := supply, log := log.map (Edit.mapTok f) } := rfl

theorem map_eraseIdx {α β : Type} (g : α → β) (l : List α) (i : Nat) :
    (l.eraseIdx i).map g = (l.map g).eraseIdx i := by
  apply List.ext_getElem?
  intro j
  simp only [List.getElem?_map, List.getElem?_eraseIdx]
  split <;> rfl

theorem map_insertIdx {α β : Type} (g : α → β) (l : List α) (i : Nat) (x : α) :
    (l.insertIdx i x).map g = (l.map g).insertIdx i (g x) := by
  apply List.ext_getElem?
  intro j
  simp only [List.getElem?_map, List.getElem?_insertIdx, List.length_map]
  split
  · rfl
  · split
    · split <;> rfl
    · rfl

end Basics

/-! ### the result shapes -/
section Shapes
variable {N T T' : Type} (f : T → T')

/-- change of token type of the result of a round of the outer loop -/
def Round.mapTok : Round N T → Round N T'
  | .done st => .done (mapP f st)
  | .anyOtherEndTag st => .anyOtherEndTag (mapP f st)
  | .again st => .again (mapP f st)

/-- `(n, st) ↦ (n, mapP f st)` -/
def mapSnd {α : Type} (p : α × PState N T) : α × PState N T' := (p.1, mapP f p.2)
/-- `(st, x) ↦ (mapP f st, x)` -/
def mapFst {α : Type} (p : PState N T × α) : PState N T' × α := (mapP f p.1, p.2)
/-- `(i, n, tok) ↦ (i, n, f tok)` -/
def mapTok3 (p : Nat × N × T) : Nat × N × T' := (p.1, p.2.1, f p.2.2)

@[simp] theorem mapSnd_mk {α : Type} (a : α) (st : PState N T) : mapSnd f (a, st) = (a, mapP f st) := rfl
@[simp] theorem mapFst_mk {α : Type} (a : α) (st : PState N T) : mapFst f (st, a) = (mapP f st, a) := rfl
@[simp] theorem mapSnd_fst {α : Type} (p : α × PState N T) : (mapSnd f p).1 = p.1 := rfl
@[simp] theorem mapSnd_snd {α : Type} (p : α × PState N T) : (mapSnd f p).2 = mapP f p.2 := rfl
@[simp] theorem mapFst_fst {α : Type} (p : PState N T × α) : (mapFst f p).1 = mapP f p.1 := rfl
@[simp] theorem mapFst_snd {α : Type} (p : PState N T × α) : (mapFst f p).2 = p.2 := rfl
@[simp] theorem mapTok3_mk (i : Nat) (n : N) (t : T) : mapTok3 f (i, n, t) = (i, n, f t) := rfl

end Shapes

/-! ### (j), (k) insertion -/
section Insert
variable {N T T' : Type} (f : T → T')

theorem newNode_mapP (st : PState N T) :
    (mapP f st).newNode = st.newNode.map (mapSnd f) := by
  unfold PState.newNode
  cases h : st.supply <;> simp [mapP, h, mapSnd]

theorem insertForeignElement_mapP {cx : Ctx T} {cx' : Ctx T'} (hc : CtxMap f cx cx')
    (st : PState N T) (tok : T) (ns : Spec.TreeAlgo.Str) (only : Bool) :
    insertForeignElement cx' (mapP f st) (f tok) ns only
      = (insertForeignElement cx st tok ns only).map (mapFst f) := by
  unfold insertForeignElement
  simp only [mapP_stack, mapP_fosterParenting]
  cases hloc : appropriatePlace st.stack st.fosterParenting none with
  | none => rfl
  | some loc =>
    simp only [Option.bind_some, newNode_mapP]
    cases hs : st.supply with
    | nil => simp [PState.newNode, hs]
    | cons n rest =>
      simp only [PState.newNode, hs, Option.map_some, mapSnd_mk, mapFst_mk, hc.name, hc.form]
      cases hfp : st.formPointer <;> cases only <;>
        simp [mapP, Edit.mapTok] <;> split <;> simp [Edit.mapTok, *]

theorem insertHtmlElement_mapP {cx : Ctx T} {cx' : Ctx T'} (hc : CtxMap f cx cx')
    (st : PState N T) (tok : T) :
    insertHtmlElement cx' (mapP f st) (f tok) = (insertHtmlElement cx st tok).map (mapFst f) :=
  insertForeignElement_mapP f hc st tok _ _

theorem insertCharacters_mapP (st : PState N T) (data : Spec.TreeAlgo.Str) :
    insertCharacters (mapP f st) data = (insertCharacters st data).map (mapP f) := by
  unfold insertCharacters
  simp only [mapP_stack, mapP_fosterParenting]
  cases appropriatePlace st.stack st.fosterParenting none <;> simp [mapP, Edit.mapTok]

theorem insertCommentAsLastChildOf_mapP (st : PState N T) (x : N) (data : Spec.TreeAlgo.Str) :
    insertCommentAsLastChildOf (mapP f st) x data = (insertCommentAsLastChildOf st x data).map (mapP f) := by
  unfold insertCommentAsLastChildOf
  rw [newNode_mapP]
  cases hs : st.supply <;> simp [PState.newNode, hs, mapP, Edit.mapTok]

theorem insertComment_mapP (st : PState N T) (data : Spec.TreeAlgo.Str) :
    insertComment (mapP f st) data = (insertComment st data).map (mapP f) := by
  unfold insertComment
  simp only [mapP_stack, mapP_fosterParenting]
  cases appropriatePlace st.stack st.fosterParenting none with
  | none => rfl
  | some loc =>
    simp only [Option.bind_some, newNode_mapP]
    cases hs : st.supply <;> simp [PState.newNode, hs, mapP, Edit.mapTok]

end Insert

/-! ### (l) reconstruct the active formatting elements -/
section Reconstruct
variable {N T T' : Type} [DecidableEq N] (f : T → T')

theorem markerOrOpen_mapTok (stack : List (Elem N)) (e : Entry N T) :
    markerOrOpen stack (Entry.mapTok f e) = markerOrOpen stack e := by
  cases e <;> rfl

theorem reconstructRewind_map (stack : List (Elem N)) (list : List (Entry N T)) (i : Nat) :
    reconstructRewind stack (list.map (Entry.mapTok f)) i = reconstructRewind stack list i := by
  induction i with
  | zero => rfl
  | succ i ih =>
    unfold reconstructRewind
    rw [ih, List.getElem?_map]
    cases list[i]? <;> simp [markerOrOpen_mapTok]

omit [DecidableEq N] in
theorem reconstructCreate_mapP {cx : Ctx T} {cx' : Ctx T'} (hc : CtxMap f cx cx')
    (n i : Nat) (st : PState N T) :
    reconstructCreate cx' n i (mapP f st) = (reconstructCreate cx n i st).map (mapP f) := by
  induction n generalizing i st with
  | zero => rfl
  | succ n ih =>
    unfold reconstructCreate
    simp only [mapP_list, List.getElem?_map]
    cases hi : st.list[i]? with
    | none => rfl
    | some e =>
      cases e with
      | marker => rfl
      | element x tok =>
        simp only [Option.map_some, Entry.mapTok_element, insertHtmlElement_mapP f hc]
        cases hins : insertHtmlElement cx st tok with
        | none => rfl
        | some r =>
          obtain ⟨st1, el⟩ := r
          simp only [Option.map_some, Option.bind_some, mapFst_mk, mapP_list, List.length_set,
            List.length_map]
          have hst : ({ mapP f st1 with list := (st1.list.map (Entry.mapTok f)).set i (.element el.id (f tok)) }
              : PState N T') = mapP f { st1 with list := st1.list.set i (.element el.id tok) } := by
            simp [mapP, List.map_set]
          rw [hst, ih]
          split <;> rfl

theorem reconstructActiveFormattingElements_mapP {cx : Ctx T} {cx' : Ctx T'} (hc : CtxMap f cx cx')
    (st : PState N T) :
    reconstructActiveFormattingElements cx' (mapP f st)
      = (reconstructActiveFormattingElements cx st).map (mapP f) := by
  unfold reconstructActiveFormattingElements
  simp only [mapP_list, mapP_stack, List.getLast?_map, List.length_map, reconstructRewind_map,
    reconstructCreate_mapP f hc]
  cases st.list.getLast? with
  | none => rfl
  | some last =>
    simp only [Option.map_some, markerOrOpen_mapTok]
    split <;> rfl

theorem reconstructSuffixLength_map (stack : List (Elem N)) (list : List (Entry N T)) :
    reconstructSuffixLength stack (list.map (Entry.mapTok f)) = reconstructSuffixLength stack list := by
  simp only [reconstructSuffixLength, ← List.map_reverse, List.takeWhile_map, List.length_map]
  congr 2
  funext e
  simp [markerOrOpen_mapTok]

end Reconstruct

/-! ### (m) clear the list of active formatting elements up to the last marker -/
section Clear
variable {N T T' : Type} (f : T → T')

theorem clearRev_map (l : List (Entry N T)) :
    clearRev (l.map (Entry.mapTok f)) = (clearRev l).map (Entry.mapTok f) := by
  induction l with
  | nil => rfl
  | cons e rest ih =>
    simp only [List.map_cons, clearRev, Entry.isMarker_mapTok, ih]
    split <;> rfl

theorem clearToLastMarker_map (l : List (Entry N T)) :
    clearToLastMarker (l.map (Entry.mapTok f)) = (clearToLastMarker l).map (Entry.mapTok f) := by
  simp only [clearToLastMarker, ← List.map_reverse, clearRev_map]

theorem closeTheCell_mapP (st : PState N T) : closeTheCell (mapP f st) = mapP f (closeTheCell st) := by
  simp [closeTheCell, mapP, clearToLastMarker_map]

end Clear

/-! ### (o) the adoption agency algorithm -/
section Adoption
variable {N T T' : Type} [DecidableEq N] (f : T → T')

theorem listPos_map (x : N) (l : List (Entry N T)) :
    listPos x (l.map (Entry.mapTok f)) = listPos x l := by
  induction l with
  | nil => rfl
  | cons e rest ih =>
    cases e with
    | marker => simp only [List.map_cons, Entry.mapTok_marker, listPos, ih]
    | element n t => simp only [List.map_cons, Entry.mapTok_element, listPos, ih]

omit [DecidableEq N] in
theorem findFormattingRev_map {cx : Ctx T} {cx' : Ctx T'} (hc : CtxMap f cx cx')
    (subject : Spec.TreeAlgo.Str) (l : List (Entry N T)) (len : Nat) :
    findFormattingRev cx' subject (l.map (Entry.mapTok f)) len
      = (findFormattingRev cx subject l len).map (mapTok3 f) := by
  induction l generalizing len with
  | nil => rfl
  | cons e rest ih =>
    cases e with
    | marker => rfl
    | element n t =>
      simp only [List.map_cons, Entry.mapTok_element, findFormattingRev, hc.name, ih]
      split <;> rfl

omit [DecidableEq N] in
theorem findFormattingElement_map {cx : Ctx T} {cx' : Ctx T'} (hc : CtxMap f cx cx')
    (subject : Spec.TreeAlgo.Str) (l : List (Entry N T)) :
    findFormattingElement cx' subject (l.map (Entry.mapTok f))
      = (findFormattingElement cx subject l).map (mapTok3 f) := by
  simp only [findFormattingElement, ← List.map_reverse, List.length_map, findFormattingRev_map f hc]

theorem insertAfter_map (y : N) (x : Entry N T) (l : List (Entry N T)) :
    insertAfter y (Entry.mapTok f x) (l.map (Entry.mapTok f))
      = (insertAfter y x l).map (List.map (Entry.mapTok f)) := by
  simp only [insertAfter, listPos_map]
  cases listPos y l <;> simp [map_insertIdx]

theorem innerLoop_mapP {cx : Ctx T} {cx' : Ctx T'} (hc : CtxMap f cx cx') (fe fb : N)
    (idx counter : Nat) (lastNode : N) (bm : Bookmark N) (st : PState N T) :
    innerLoop cx' fe fb idx counter lastNode bm (mapP f st)
      = (innerLoop cx fe fb idx counter lastNode bm st).map (mapFst f) := by
  induction idx generalizing counter lastNode bm st with
  | zero => rfl
  | succ idx ih =>
    unfold innerLoop
    simp only [mapP_stack, mapP_list, listPos_map]
    cases hnode : st.stack[idx]? with
    | none => rfl
    | some node =>
      simp only []
      by_cases hfe : node.id = fe
      · simp [hfe]
      · simp only [hfe, if_false]
        cases hpos : listPos node.id st.list with
        | none =>
          simp only [Spec.TreeAlgo.innerLoopAction, Option.isSome_none, Bool.and_false, Bool.false_eq_true,
            if_false, Bool.not_false, if_true]
          exact ih _ _ _ { st with stack := st.stack.eraseIdx idx }
        | some i =>
          simp only [Spec.TreeAlgo.innerLoopAction, Option.isSome_some, Bool.and_true, Bool.not_true,
            Bool.false_eq_true, if_false, decide_eq_true_eq]
          by_cases hlim : counter + 1 > Spec.TreeTables.adoptionInnerLimit
          · simp only [hlim, if_true, ← map_eraseIdx]
            exact ih _ _ _ { st with list := st.list.eraseIdx i, stack := st.stack.eraseIdx idx }
          · simp only [hlim, if_false, List.getElem?_map]
            cases hent : st.list[i]? with
            | none => rfl
            | some e =>
              cases e with
              | marker => rfl
              | element x tok =>
                simp only [Option.map_some, Entry.mapTok_element, newNode_mapP, hc.name]
                cases hs : st.supply with
                | nil => simp [PState.newNode, hs]
                | cons n rest =>
                  simp only [PState.newNode, hs, Option.map_some, Option.bind_some, mapSnd_mk]
                  rw [← ih]
                  congr 1
                  simp [mapP, List.map_set, Edit.mapTok]

theorem finishRound_mapP {cx : Ctx T} {cx' : Ctx T'} (hc : CtxMap f cx cx') (fe : N) (feTok : T)
    (fb commonAncestor : Elem N) (st : PState N T) (lastNode : N) (bm : Bookmark N) :
    finishRound cx' fe (f feTok) fb commonAncestor (mapP f st) lastNode bm
      = (finishRound cx fe feTok fb commonAncestor st lastNode bm).map (mapP f) := by
  unfold finishRound
  simp only [mapP_stack, mapP_fosterParenting]
  cases appropriatePlace st.stack st.fosterParenting (some commonAncestor) with
  | none => rfl
  | some loc =>
    simp only [Option.bind_some, newNode_mapP]
    cases hs : st.supply with
    | nil => simp [PState.newNode, hs]
    | cons n rest =>
      simp only [PState.newNode, hs, Option.map_some, Option.bind_some, mapSnd_mk, hc.name, mapP_stack,
        mapP_list, listPos_map]
      cases bm with
      | atFormattingElement =>
        simp only []
        cases listPos fe st.list with
        | none => rfl
        | some i =>
          simp only [Option.map_some, Option.bind_some]
          cases stackPos fe st.stack with
          | none => rfl
          | some p =>
            simp only [Option.bind_some]
            cases List.findIdx? (fun e => e.id == fb.id) (st.stack.eraseIdx p) <;>
              simp [mapP, List.map_set, Edit.mapTok]
      | after x =>
        simp only []
        cases listPos fe st.list with
        | none => rfl
        | some i =>
          simp only [Option.bind_some, ← map_eraseIdx]
          rw [show Entry.element n (f feTok) = Entry.mapTok f (Entry.element n feTok) from rfl,
            insertAfter_map]
          cases insertAfter x (Entry.element n feTok) (st.list.eraseIdx i) with
          | none => rfl
          | some l =>
            simp only [Option.map_some, Option.bind_some]
            cases stackPos fe st.stack with
            | none => rfl
            | some p =>
              simp only [Option.bind_some]
              cases List.findIdx? (fun e => e.id == fb.id) (st.stack.eraseIdx p) <;>
                simp [mapP, Edit.mapTok]

theorem outerRound_mapP {cx : Ctx T} {cx' : Ctx T'} (hc : CtxMap f cx cx')
    (subject : Spec.TreeAlgo.Str) (st : PState N T) :
    outerRound cx' subject (mapP f st) = (outerRound cx subject st).map (Round.mapTok f) := by
  unfold outerRound
  simp only [mapP_list, mapP_stack, findFormattingElement_map f hc]
  cases findFormattingElement cx subject st.list with
  | none => rfl
  | some r =>
    obtain ⟨fePos, fe, feTok⟩ := r
    simp only [Option.map_some, mapTok3_mk]
    cases stackPos fe st.stack with
    | none => simp [Round.mapTok, mapP, map_eraseIdx]
    | some pos =>
      simp only []
      by_cases hsc : hasNodeInScope fe Spec.TreeAlgo.defaultScopeList st.stack.reverse = true
      · simp only [hsc, Bool.not_true, Bool.false_eq_true, if_false]
        cases furthestBlock st.stack pos with
        | none => simp [Round.mapTok, mapP, map_eraseIdx]
        | some r =>
          obtain ⟨fbPos, fb⟩ := r
          simp only []
          by_cases hp : pos = 0
          · simp [hp]
          · simp only [hp, if_false]
            cases st.stack[pos - 1]? with
            | none => rfl
            | some ca =>
              simp only [Option.bind_some, innerLoop_mapP f hc]
              cases innerLoop cx fe fb.id fbPos 0 fb.id Bookmark.atFormattingElement st with
              | none => rfl
              | some r =>
                simp only [Option.map_some, Option.bind_some, mapFst, finishRound_mapP f hc, Option.map_map]
                rfl
      · simp only [hsc, Bool.not_false, if_true, Option.map_some, Round.mapTok]

theorem outerLoop_mapP {cx : Ctx T} {cx' : Ctx T'} (hc : CtxMap f cx cx')
    (subject : Spec.TreeAlgo.Str) (n : Nat) (st : PState N T) :
    outerLoop cx' subject n (mapP f st) = (outerLoop cx subject n st).map (mapFst f) := by
  induction n generalizing st with
  | zero => rfl
  | succ n ih =>
    unfold outerLoop
    rw [outerRound_mapP f hc]
    cases outerRound cx subject st with
    | none => rfl
    | some r =>
      cases r with
      | done st1 => rfl
      | anyOtherEndTag st1 => rfl
      | again st1 => exact ih st1

theorem adoptionAgency_mapP {cx : Ctx T} {cx' : Ctx T'} (hc : CtxMap f cx cx')
    (subject : Spec.TreeAlgo.Str) (st : PState N T) :
    adoptionAgency cx' subject (mapP f st) = (adoptionAgency cx subject st).map (mapFst f) := by
  unfold adoptionAgency
  simp only [mapP_stack, mapP_list, listPos_map, outerLoop_mapP f hc]
  cases st.stack.getLast? with
  | none => rfl
  | some cur =>
    simp only []
    split <;> rfl

theorem adoptionAgencyWithFallback_mapP {cx : Ctx T} {cx' : Ctx T'} (hc : CtxMap f cx cx')
    (subject : Spec.TreeAlgo.Str) (st : PState N T) :
    adoptionAgencyWithFallback cx' subject (mapP f st)
      = (adoptionAgencyWithFallback cx subject st).map (mapP f) := by
  unfold adoptionAgencyWithFallback
  rw [adoptionAgency_mapP f hc]
  cases adoptionAgency cx subject st with
  | none => rfl
  | some r =>
    obtain ⟨st1, b⟩ := r
    cases b <;> rfl

end Adoption

/-! ### the instance: the model's tags and the specification's element tokens -/
section Instance
open H5V.Model.HtmlTB
open H5V.Lemmas.HtmlTBAlgo
open H5V.Lemmas.HtmlTBSpec (toAdj)

theorem ctxMap_etok : CtxMap etokOf tagCtx Spec.TreeModes.cx where
  name := fun _ => rfl
  form := fun t => by
    simp only [Spec.TreeModes.cx, tagCtx, etokOf, List.any_map]
    congr 1
    funext a
    simp only [Function.comp, toAdj, isName]
    rw [BEq.comm (a := a.name.loc)]

end Instance

#print axioms newNode_mapP
#print axioms insertForeignElement_mapP
#print axioms insertHtmlElement_mapP
#print axioms insertCharacters_mapP
#print axioms insertComment_mapP
#print axioms insertCommentAsLastChildOf_mapP
#print axioms markerOrOpen_mapTok
#print axioms reconstructRewind_map
#print axioms reconstructCreate_mapP
#print axioms reconstructActiveFormattingElements_mapP
#print axioms clearRev_map
#print axioms clearToLastMarker_map
#print axioms closeTheCell_mapP
#print axioms listPos_map
#print axioms findFormattingRev_map
#print axioms findFormattingElement_map
#print axioms insertAfter_map
#print axioms innerLoop_mapP
#print axioms finishRound_mapP
#print axioms outerRound_mapP
#print axioms outerLoop_mapP
#print axioms adoptionAgency_mapP
#print axioms adoptionAgencyWithFallback_mapP
#print axioms ctxMap_etok

end H5V.Lemmas.HtmlTBModes
