import H5V.Lemmas.HtmlTBFuelRun
/-!
# The fuel of `process_to_completion`, part 3: two small logics over successful runs

* `RO m P` — every successful run of `m` returns a value satisfying `P` (the state is ignored): for the
  arms of the rules that do not answer `Reprocess`/`SplitWhitespace` (`Quiet`);
* `SH m` — every successful run of `m` only shrinks the stack of open elements, keeps the template modes
  and extends the arena (`Shr`): for the helpers used before a `Reprocess`;
both with a walker (`ro_walk`, `sh_walk`) and leaves (extensible by `macro_rules`).
-/
namespace H5V.Lemmas.TBFuel
open H5V.Model.HtmlTB
open H5V.Model.HtmlTok (TagKind)
open H5V.Model.Dom (Id QualName Attr NodeOrText SinkOp Output ElementFlags QuirksMode Dom NodeData Node)
open H5V.Lemmas.TBSafe
open H5V.Lemmas.TBC (ok_bind ok_pure ok_getS_bind ok_modS_bind ok_ite ok_bind_pure)

/-! ### results only -/

/-- `m` returns only values satisfying `P` -/
def RO {α : Type} (m : M α) (P : α → Prop) : Prop := ∀ s a s', m s = .ok (a, s') → P a

theorem ro_pure {α : Type} (a : α) {P : α → Prop} (h : P a) : RO (pure a : M α) P := by
  intro s b s' hr; rw [← (ok_pure hr).1]; exact h

theorem ro_bind {α β : Type} {m : M α} {f : α → M β} {P : β → Prop} (h : ∀ a, RO (f a) P) : RO (m >>= f) P := by
  intro s b s'' hr
  obtain ⟨a, s', _, h2⟩ := ok_bind hr
  exact h a s' b s'' h2

theorem ro_ite {α : Type} {c : Prop} [Decidable c] {a b : M α} {P : α → Prop} (h1 : c → RO a P) (h2 : ¬c → RO b P) :
    RO (if c then a else b) P := by
  by_cases hc : c
  · rw [if_pos hc]; exact h1 hc
  · rw [if_neg hc]; exact h2 hc

theorem ro_throw {α : Type} {e : String} {P : α → Prop} : RO (throw e : M α) P := by
  intro s a s' hr; cases hr

theorem ro_panicAt {α : Type} {cls site text : String} {P : α → Prop} : RO (panicAt cls site text : M α) P := by
  intro s a s' hr; cases hr

theorem ro_fuelOut {α : Type} {what : String} {P : α → Prop} : RO (fuelOut what : M α) P := by
  intro s a s' hr; cases hr

theorem ro_weaken {α : Type} {m : M α} {P P' : α → Prop} (h : RO m P) (hp : ∀ a, P a → P' a) : RO m P' :=
  fun s a s' hr => hp a (h s a s' hr)

/-- answers that end the iteration of `process_to_completion` or continue with the next token -/
def Quiet : ProcessResult → Prop
  | .reprocess _ _ => False
  | .reprocessForeign _ => False
  | .splitWhitespace _ => False
  | _ => True

theorem dec_of_quiet {s s' : State} {m : Mode} {tok : Token} {r : ProcessResult} (h : Quiet r) : Dec s m tok r s' := by
  cases r <;> first | trivial | exact h.elim

/-! the helpers that answer a `ProcessResult` -/

theorem ro_unexpected {P : ProcessResult → Prop} (h : P .done) : RO unexpected P :=
  fun _ _ _ hr => by rw [H5V.Lemmas.TBC.res_unexpected hr]; exact h
theorem ro_appendText {t : Str} {P : ProcessResult → Prop} (h : P .done) : RO (appendText t) P :=
  fun _ _ _ hr => by rw [H5V.Lemmas.TBC.res_appendText hr]; exact h
theorem ro_appendComment {t : Str} {P : ProcessResult → Prop} (h : P .done) : RO (appendComment t) P :=
  fun _ _ _ hr => by rw [H5V.Lemmas.TBC.res_appendComment hr]; exact h
theorem ro_appendCommentToDoc {t : Str} {P : ProcessResult → Prop} (h : P .done) : RO (appendCommentToDoc t) P :=
  fun _ _ _ hr => by rw [H5V.Lemmas.TBC.res_appendCommentToDoc hr]; exact h
theorem ro_appendCommentToHtml {t : Str} {P : ProcessResult → Prop} (h : P .done) : RO (appendCommentToHtml t) P :=
  fun _ _ _ hr => by rw [H5V.Lemmas.TBC.res_appendCommentToHtml hr]; exact h
theorem ro_parseRawData {tag : Tag} {k : H5V.Model.HtmlTok.RawKind} {P : ProcessResult → Prop}
    (h : P (.toRawData k)) : RO (parseRawData tag k) P :=
  fun _ _ _ hr => by rw [H5V.Lemmas.TBC.res_parseRawData hr]; exact h
theorem ro_toRawTextMode {k : H5V.Model.HtmlTok.RawKind} {P : ProcessResult → Prop}
    (h : P (.toRawData k)) : RO (toRawTextMode k) P :=
  fun _ _ _ hr => by rw [H5V.Lemmas.TBC.res_toRawTextMode hr]; exact h
theorem ro_inBodyVoid {tag : Tag} {P : ProcessResult → Prop} (h : P .doneAckSelfClosing) : RO (inBodyVoid tag) P :=
  fun _ _ _ hr => by rw [H5V.Lemmas.TBC.res_inBodyVoid hr]; exact h
theorem ro_foreignStartTag {tag : Tag} {P : ProcessResult → Prop} (h1 : P .done) (h2 : P .doneAckSelfClosing) :
    RO (foreignStartTag tag) P :=
  fun _ _ _ hr => by rcases res_foreignStartTag' hr with e | e <;> (rw [e]; assumption)

theorem res_enterForeign' {tag : Tag} {ns : Str} {s s' : State} {r : ProcessResult}
    (h : enterForeign tag ns s = .ok (r, s')) : r = .done ∨ r = .doneAckSelfClosing := by
  unfold enterForeign at h
  refine ok_ite (P := fun r => r = .done ∨ r = .doneAckSelfClosing) h ?_ ?_
  · intro s1 s2 r1 h1; exact Or.inr (ok_bind_pure h1)
  · intro s1 s2 r1 h1; exact Or.inl (ok_bind_pure h1)

theorem ro_enterForeign {tag : Tag} {ns : Str} {P : ProcessResult → Prop} (h1 : P .done) (h2 : P .doneAckSelfClosing) :
    RO (enterForeign tag ns) P :=
  fun _ _ _ hr => by rcases res_enterForeign' hr with e | e <;> (rw [e]; assumption)

theorem ro_inBodyHtml {tag : Tag} {P : ProcessResult → Prop} (h : P .done) : RO (inBodyHtml tag) P := by
  unfold inBodyHtml
  refine ro_bind (fun _ => ro_bind (fun _ => ?_))
  dsimp only
  exact ro_ite (fun _ => ro_bind (fun _ => ro_bind (fun _ => ro_pure _ h))) (fun _ => ro_pure _ h)

/-- leaves of the `RO` walk (extensible) -/
syntax "ro_leaf" : tactic
macro_rules
  | `(tactic| ro_leaf) => `(tactic|
    first
      | (with_reducible refine ro_pure _ ?_) <;> trivial
      | with_reducible exact ro_panicAt
      | with_reducible exact ro_fuelOut
      | with_reducible exact ro_throw
      | (with_reducible refine ro_unexpected ?_) <;> trivial
      | (with_reducible refine ro_appendText ?_) <;> trivial
      | (with_reducible refine ro_appendComment ?_) <;> trivial
      | (with_reducible refine ro_appendCommentToDoc ?_) <;> trivial
      | (with_reducible refine ro_appendCommentToHtml ?_) <;> trivial
      | (with_reducible refine ro_parseRawData ?_) <;> trivial
      | (with_reducible refine ro_toRawTextMode ?_) <;> trivial
      | (with_reducible refine ro_inBodyVoid ?_) <;> trivial
      | (with_reducible refine ro_foreignStartTag ?_ ?_) <;> trivial
      | (with_reducible refine ro_enterForeign ?_ ?_) <;> trivial
      | (with_reducible refine ro_inBodyHtml ?_) <;> trivial)

syntax "ro_step" : tactic
macro_rules
  | `(tactic| ro_step) => `(tactic|
    first
      | ro_leaf
      | with_reducible refine ro_ite (fun _ => ?_) (fun _ => ?_)
      | with_reducible refine ro_bind (fun _ => ?_)
      | dsimp only)

/-- closes `RO m Quiet` for arms built from the registered leaves -/
syntax "ro_walk" : tactic
macro_rules
  | `(tactic| ro_walk) => `(tactic| repeat' ro_step)

/-! ### shrinking the stack -/

/-- the arena is extended, the stack of open elements shrinks, the template modes stay -/
structure Shr (s s' : State) : Prop where
  ext : Ext s.dom s'.dom
  stack : s'.openElems.Sublist s.openElems
  tm : s'.templateModes = s.templateModes
  orig : s'.origMode = s.origMode

theorem Shr.refl (s : State) : Shr s s := ⟨Ext.refl _, List.Sublist.refl _, rfl, rfl⟩

theorem Shr.trans {a b c : State} (h1 : Shr a b) (h2 : Shr b c) : Shr a c :=
  ⟨h1.ext.trans h2.ext, h2.stack.trans h1.stack, h2.tm.trans h1.tm, h2.orig.trans h1.orig⟩

theorem Shr.wle {s s' : State} (hel : AllEl s.dom s.openElems) (h : Shr s s') : WLe s s' := by
  refine ⟨?_, by rw [h.tm]; exact Nat.le_refl _⟩
  rw [tabCount_ext h.ext (fun x hx => hel x (h.stack.subset hx))]
  exact tabCount_sublist h.stack

/-- every successful run of `m` shrinks -/
def SH {α : Type} (m : M α) : Prop := ∀ s a s', m s = .ok (a, s') → Shr s s'
/-- … from the state `s` -/
def SHat {α : Type} (s : State) (m : M α) : Prop := ∀ a s', m s = .ok (a, s') → Shr s s'

theorem sh_pure {α : Type} (a : α) : SH (pure a : M α) := by
  intro s b s' hr; rw [← (ok_pure hr).2]; exact Shr.refl _

theorem sh_bind {α β : Type} {m : M α} {f : α → M β} (h1 : SH m) (h2 : ∀ a, SH (f a)) : SH (m >>= f) := by
  intro s b s'' hr
  obtain ⟨a, s', hm, hf⟩ := ok_bind hr
  exact (h1 s a s' hm).trans (h2 a s' b s'' hf)

theorem sh_ite {α : Type} {c : Prop} [Decidable c] {a b : M α} (h1 : c → SH a) (h2 : ¬c → SH b) :
    SH (if c then a else b) := by
  by_cases hc : c
  · rw [if_pos hc]; exact h1 hc
  · rw [if_neg hc]; exact h2 hc

theorem sh_throw {α : Type} {e : String} : SH (throw e : M α) := by intro s a s' hr; cases hr
theorem sh_panicAt {α : Type} {cls site text : String} : SH (panicAt cls site text : M α) := by
  intro s a s' hr; cases hr
theorem sh_fuelOut {α : Type} {what : String} : SH (fuelOut what : M α) := by intro s a s' hr; cases hr

theorem sh_getS_bind {β : Type} {f : State → M β} (h : ∀ s0, SH (f s0)) : SH (getS >>= f) := by
  intro s b s' hr
  exact h s s b s' (ok_getS_bind hr)

theorem sh_getS_bind_at {β : Type} {f : State → M β} (h : ∀ s0, SHat s0 (f s0)) : SH (getS >>= f) := by
  intro s b s' hr
  exact h s b s' (ok_getS_bind hr)

theorem sh_at {α : Type} {m : M α} (h : SH m) (s : State) : SHat s m := h s

theorem shat_set_bind {s s1 : State} {β : Type} {k : Unit → M β} (h1 : Shr s s1) (hk : SH (k ())) :
    SHat s ((set s1 : M Unit) >>= k) := by
  intro b s' hr
  have : k () s1 = .ok (b, s') := hr
  exact h1.trans (hk s1 b s' this)

theorem sh_modS {f : State → State} (h : ∀ s, Shr s (f s)) : SH (modS f) := by
  intro s a s' hr
  have : Except.ok ((), f s) = Except.ok (a, s') := hr
  cases this
  exact h s

theorem sh_sink (op : SinkOp) : SH (sink op) := by
  intro s a s' hr
  unfold sink at hr
  cases ha : s.dom.apply op with
  | error e => rw [ha] at hr; cases hr
  | ok p =>
    obtain ⟨d, o⟩ := p
    rw [ha] at hr
    cases hr
    exact ⟨apply_ext ha, List.Sublist.refl _, rfl, rfl⟩

theorem sh_sinkUnit (op : SinkOp) : SH (sinkUnit op) := sh_bind (sh_sink op) (fun _ => sh_pure _)

theorem sh_sinkBool (op : SinkOp) : SH (sinkBool op) := by
  unfold sinkBool
  refine sh_bind (sh_sink op) (fun o => ?_)
  cases o <;> first | exact sh_pure _ | exact sh_throw

theorem sh_sinkNode (op : SinkOp) : SH (sinkNode op) := by
  unfold sinkNode
  refine sh_bind (sh_sink op) (fun o => ?_)
  cases o <;> first | exact sh_pure _ | exact sh_throw

theorem sh_elemName (h : Id) : SH (elemName h) := by
  unfold elemName
  refine sh_bind (sh_sink _) (fun o => ?_)
  cases o <;> first | exact sh_pure _ | exact sh_throw

theorem sh_parseError (msg : String) : SH (parseError msg) := sh_sinkUnit _

/-- leaves of the `SH` walk (extensible) -/
syntax "sh_leaf" : tactic
macro_rules
  | `(tactic| sh_leaf) => `(tactic|
    first
      | with_reducible exact sh_pure _
      | with_reducible exact sh_panicAt
      | with_reducible exact sh_fuelOut
      | with_reducible exact sh_throw
      | with_reducible exact sh_sink _
      | with_reducible exact sh_sinkUnit _
      | with_reducible exact sh_sinkBool _
      | with_reducible exact sh_sinkNode _
      | with_reducible exact sh_elemName _
      | with_reducible exact sh_parseError _)

syntax "sh_step" : tactic
macro_rules
  | `(tactic| sh_step) => `(tactic|
    first
      | sh_leaf
      | with_reducible refine sh_getS_bind (fun _ => ?_)
      | with_reducible refine sh_bind ?_ (fun _ => ?_)
      | with_reducible refine sh_ite (fun _ => ?_) (fun _ => ?_)
      | dsimp only)

syntax "sh_walk" : tactic
macro_rules
  | `(tactic| sh_walk) => `(tactic| repeat' sh_step)

end H5V.Lemmas.TBFuel
