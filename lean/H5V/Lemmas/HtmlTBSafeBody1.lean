import H5V.Lemmas.HtmlTBSafeRules0
/-!
# Tree-builder safety, InBody rules, part 1: tag-set facts, step combinators, the popping helpers

Everything here lives in the sub-namespace `IB` (helpers of the `InBody` proof).
-/
set_option linter.unusedVariables false
namespace H5V.Lemmas.TBSafe.IB
open H5V.Model.HtmlTB
open H5V.Model.Dom (Id QualName Attr NodeOrText SinkOp Output ElementFlags QuirksMode Dom NodeData Node)

variable {al : Allow}

/-! ### `isOneOf` -/

theorem isOneOf_iff {n : Str} {l : List String} : isOneOf n l = true ↔ ∃ x ∈ l, x.toList = n := by
  unfold isOneOf
  simp [List.any_eq_true]

theorem isOneOf_sub {n : Str} {l1 l2 : List String} (hs : ∀ x ∈ l1, x ∈ l2) (h : isOneOf n l1 = true) :
    isOneOf n l2 = true := by
  obtain ⟨x, hx, hn⟩ := isOneOf_iff.mp h
  exact isOneOf_iff.mpr ⟨x, hs x hx, hn⟩

theorem isOneOf_not_sub {n : Str} {l1 l2 : List String} (hs : ∀ x ∈ l1, x ∈ l2) (h : isOneOf n l2 = false) :
    isOneOf n l1 = false := by
  cases h1 : isOneOf n l1 with
  | false => rfl
  | true => rw [isOneOf_sub hs h1] at h; cases h

theorem isOneOf_disj {n : Str} {l1 l2 : List String} (hs : ∀ x ∈ l1, x ∉ l2) (h : isOneOf n l1 = true) :
    isOneOf n l2 = false := by
  cases h2 : isOneOf n l2 with
  | false => rfl
  | true =>
    obtain ⟨x, hx, hn⟩ := isOneOf_iff.mp h
    obtain ⟨y, hy, hm⟩ := isOneOf_iff.mp h2
    have : x = y := String.toList_inj.mp (hn.trans hm.symm)
    subst this
    exact absurd hy (hs x hx)

theorem isOneOf_append {n : Str} {l1 l2 : List String} (h1 : isOneOf n l1 = false) (h2 : isOneOf n l2 = false) :
    isOneOf n (l1 ++ l2) = false := by
  unfold isOneOf at *
  rw [List.any_append, h1, h2]; rfl

theorem isOneOf_single {n : Str} {x : String} (h : isOneOf n [x] = true) : n = x.toList := by
  obtain ⟨y, hy, hn⟩ := isOneOf_iff.mp h
  rw [List.mem_singleton.mp hy] at hn; exact hn.symm

theorem isStart_name {tag : Tag} {l : List String} (h : tag.isStart l = true) :
    tag.kind = .startTag ∧ isOneOf tag.name l = true := by
  unfold Tag.isStart at h
  simp only [Bool.and_eq_true, beq_iff_eq] at h
  exact h

theorem isEnd_name {tag : Tag} {l : List String} (h : tag.isEnd l = true) :
    tag.kind = .endTag ∧ isOneOf tag.name l = true := by
  unfold Tag.isEnd at h
  simp only [Bool.and_eq_true, beq_iff_eq] at h
  exact h

theorem isStart_false {tag : Tag} {l : List String} (hk : tag.kind = .startTag) (h : ¬ tag.isStart l = true) :
    isOneOf tag.name l = false := by
  unfold Tag.isStart at h
  cases h1 : isOneOf tag.name l with
  | false => rfl
  | true => exact absurd (by simp [hk, h1]) h

theorem isEnd_false {tag : Tag} {l : List String} (hk : tag.kind = .endTag) (h : ¬ tag.isEnd l = true) :
    isOneOf tag.name l = false := by
  unfold Tag.isEnd at h
  cases h1 : isOneOf tag.name l with
  | false => rfl
  | true => exact absurd (by simp [hk, h1]) h

/-! ### names that may be popped: anything but `html`, `td`, `th` -/

def popOk (n : EName) : Bool := !(htmlIn n ["html", "td", "th"])

theorem popOk_ne_html {n : EName} (h : popOk n = true) : n ≠ htmlName := by
  rintro rfl; revert h; decide

theorem popOk_tdTh {n : EName} (h : popOk n = true) : tdTh n = false := by
  cases ht : tdTh n with
  | false => rfl
  | true =>
    unfold tdTh htmlIn at ht
    simp only [Bool.and_eq_true] at ht
    unfold popOk htmlIn at h
    rw [ht.1, isOneOf_sub (l2 := ["html", "td", "th"]) (by decide) ht.2] at h
    cases h

theorem popOk_of_htmlIn {n : EName} {l : List String} (hd : ∀ x ∈ l, x ∉ ["html", "td", "th"])
    (h : htmlIn n l = true) : popOk n = true := by
  unfold htmlIn at h
  simp only [Bool.and_eq_true] at h
  unfold popOk htmlIn
  rw [isOneOf_disj hd h.2]; simp

theorem popOk_of_not_htmlIn {n : EName} {l : List String} (hs : ∀ x ∈ ["html", "td", "th"], x ∈ l)
    (h : htmlIn n l = false) : popOk n = true := by
  unfold popOk
  cases h1 : htmlIn n ["html", "td", "th"] with
  | false => rfl
  | true =>
    unfold htmlIn at h h1
    simp only [Bool.and_eq_true] at h1
    rw [h1.1, isOneOf_sub hs h1.2] at h
    cases h

theorem popOk_of_not_default {n : EName} (h : defaultScope n = false) : popOk n = true := by
  unfold defaultScope at h
  simp only [Bool.or_eq_false_iff] at h
  exact popOk_of_not_htmlIn (l := htmlDefaultScopeNames) (by decide) h.1.1.1

theorem popOk_of_not_button {n : EName} (h : buttonScope n = false) : popOk n = true := by
  unfold buttonScope at h
  split at h
  · cases h
  · exact popOk_of_not_default h

theorem popOk_of_not_listItem {n : EName} (h : listItemScope n = false) : popOk n = true := by
  unfold listItemScope at h
  split at h
  · cases h
  · exact popOk_of_not_default h

theorem popOk_of_cursory {n : EName} (h : cursoryImpliedEnd n = true) : popOk n = true :=
  popOk_of_htmlIn (l := cursoryImpliedEndNames) (by decide) h

theorem popOk_of_impliedExcept {e : Str} {n : EName} (h : impliedExcept e n = true) : popOk n = true := by
  unfold impliedExcept at h
  split at h
  · cases h
  · exact popOk_of_cursory h

theorem popOk_of_heading {n : EName} (h : headingTag n = true) : popOk n = true :=
  popOk_of_htmlIn (by decide) h

theorem popOk_of_not_special {n : EName} (h : specialTag n = false) : popOk n = true := by
  unfold specialTag at h
  simp only [Bool.or_eq_false_iff] at h
  exact popOk_of_not_htmlIn (l := htmlSpecialTagNames) (by decide) h.1.1.1

theorem popOk_of_not_extraSpecial {n : EName} (h : extraSpecial n = false) : popOk n = true := by
  unfold extraSpecial at h
  split at h
  · rename_i h1; exact popOk_of_htmlIn (by decide) h1
  · exact popOk_of_not_special h

theorem popOk_mk {name : Str} (h : isOneOf name ["html", "td", "th"] = false) : popOk ⟨nsHtml, name⟩ = true := by
  unfold popOk htmlIn
  simp only [h]; simp

theorem named_eq {n : EName} {name : Str} (h : (n.ns == nsHtml && n.loc == name) = true) : n = ⟨nsHtml, name⟩ := by
  cases n with
  | mk ns loc =>
    simp only [Bool.and_eq_true, beq_iff_eq] at h
    rw [h.1, h.2]

theorem namedP_nm {d : Dom} {name : Str} {x : Id} (h : namedP d name x = true) : nm d x = ⟨nsHtml, name⟩ :=
  named_eq h

theorem namedP_of_nm {d : Dom} {name : Str} {x : Id} (h : nm d x = ⟨nsHtml, name⟩) : namedP d name x = true := by
  unfold namedP; rw [h]; simp

/-! ### new elements -/

theorem newOk_mk {name : Str} (h : isOneOf name ["template", "head"] = false) : NewOk ⟨nsHtml, name⟩ := by
  constructor
  · intro he
    have : name = "template".toList := by injection he
    rw [this] at h; revert h; decide
  · intro he
    have : name = "head".toList := by injection he
    rw [this] at h; revert h; decide

theorem newOk_of_in {name : Str} {l : List String} (hd : ∀ x ∈ l, x ∉ ["template", "head"])
    (h : isOneOf name l = true) : NewOk ⟨nsHtml, name⟩ := newOk_mk (isOneOf_disj hd h)

theorem newOk_foreign {ns name : Str} (h : ns ≠ nsHtml) : NewOk ⟨ns, name⟩ := by
  constructor
  · intro he; injection he with h1 _; exact h h1
  · intro he; injection he with h1 _; exact h h1

/-! ### building `BK`s -/

theorem bk_refl {s : State} (hi : HInv s) (hr : Rooted s.dom s.openElems) : BK s s := BK.of_qf hi hr (QF.refl s)

theorem pre_ne_nil {s : State} {pre post : List Id} (hr : Rooted s.dom s.openElems)
    (heq : s.openElems = pre ++ post) (hp : ∀ y ∈ post, popOk (nm s.dom y) = true) : pre ≠ [] := by
  rintro rfl
  obtain ⟨r, rest, hl, hn⟩ := hr
  rw [hl] at heq
  have := hp r (by rw [List.nil_append] at heq; rw [← heq]; exact List.mem_cons_self)
  exact popOk_ne_html this hn

/-- pops of elements that are none of `html`, `td`, `th` -/
theorem bk_of_pops {s s' : State} {pre post : List Id} (hi : HInv s) (hr : Rooted s.dom s.openElems)
    (heq : s.openElems = pre ++ post) (st : St s s' pre) (hp : ∀ y ∈ post, popOk (nm s.dom y) = true) : BK s s' :=
  BK.of_pops hi hr heq (pre_ne_nil hr heq hp) st (fun y hy => popOk_tdTh (hp y hy))

/-- one element that is none of `html`, `td`, `th` removed from the middle of the stack -/
theorem bk_of_remove {s s' : State} {pre post : List Id} {x : Id} (hi : HInv s) (hr : Rooted s.dom s.openElems)
    (heq : s.openElems = pre ++ x :: post) (hx : popOk (nm s.dom x) = true) (st : St s s' (pre ++ post)) :
    BK s s' := by
  have hsub : ∀ y ∈ pre ++ post, y ∈ s.openElems := by
    intro y hy
    rw [heq]
    rcases List.mem_append.mp hy with h | h
    · exact List.mem_append_left _ h
    · exact List.mem_append_right _ (List.mem_cons_of_mem _ h)
  have hpre : pre ≠ [] := by
    rintro rfl
    obtain ⟨r, rest, hl, hn⟩ := hr
    rw [hl] at heq
    simp only [List.nil_append, List.cons.injEq] at heq
    rw [← heq.1] at hx
    exact popOk_ne_html hx hn
  refine ⟨⟨st.fr.mode, st.fr.origMode, st.fr.templateModes, st.fr.pendingTableText, st.fr.headElem,
    st.fr.contextElem, st.fr.ext, hi.of_st st hsub, ?_, ?_, ?_⟩, ?_⟩
  · rw [st.openElems]
    obtain ⟨r, rest, hl, hn⟩ := hr
    cases pre with
    | nil => exact absurd rfl hpre
    | cons a t =>
      rw [hl] at heq
      have : r = a := by simp at heq; exact heq.1
      subst this
      exact ⟨r, t ++ post, rfl,
        by rw [nm_ext st.fr.ext (hi.open_el r (by rw [hl]; exact List.mem_cons_self))]; exact hn⟩
  · rw [st.openElems]; intro y hy; exact Or.inl (hsub y hy)
  · rw [st.openElems, tcount_ext st.fr.ext (hi.open_el.sub hsub), heq]
    apply tcount_le_of_sublist
    exact List.Sublist.append_left (List.sublist_cons_self x post) pre
  · intro y hy hP
    rw [st.openElems]
    rw [heq] at hy
    rcases List.mem_append.mp hy with h | h
    · exact List.mem_append_left _ h
    · rcases List.mem_cons.mp h with h | h
      · rw [h, popOk_tdTh hx] at hP; cases hP
      · exact List.mem_append_right _ h

/-- the adoption agency (and friends) as a `BK` step -/
theorem bk_of_aapost {s s' : State} (h : AAPostB s s') : BK s s' := by
  refine ⟨⟨h.fr.mode, h.fr.origMode, h.fr.templateModes, h.fr.pendingTableText, h.fr.headElem,
    h.fr.contextElem, h.fr.ext, h.hinv, h.rooted, ?_, h.tcnt⟩, ?_⟩
  · intro x hx
    rcases h.news x hx with h1 | h1
    · exact Or.inl h1
    · exact Or.inr (NewOk.of_fmt h1)
  · intro x hx hP
    refine h.keeps x hx ?_
    unfold specialTag
    unfold tdTh htmlIn at hP
    simp only [Bool.and_eq_true] at hP
    have : htmlSpecialTag (nm s.dom x) = true := by
      unfold htmlSpecialTag htmlIn
      rw [hP.1, isOneOf_sub (l2 := htmlSpecialTagNames) (by decide) hP.2]; rfl
    rw [this]; rfl

/-- a formatting element was created and pushed -/
theorem bk_of_created {s s' : State} {r : Id} {name : Str} (hi : HInv s) (hr : Rooted s.dom s.openElems)
    (hf : Fr s s') (hi' : HInv s') (ho : s'.openElems = s.openElems ++ [r]) (hn : nm s'.dom r = ⟨nsHtml, name⟩)
    (hnew : NewOk ⟨nsHtml, name⟩) : BK s s' := by
  refine ⟨⟨hf.mode, hf.origMode, hf.templateModes, hf.pendingTableText, hf.headElem, hf.contextElem, hf.ext,
    hi', ?_, ?_, ?_⟩, Keeps.of_grow ho⟩
  · rw [ho]; exact hr.append_ext hf.ext hi.open_el
  · rw [ho]
    intro x hx
    rcases List.mem_append.mp hx with h | h
    · exact Or.inl h
    · rw [List.mem_singleton.mp h, hn]; exact Or.inr hnew
  · rw [ho, tcount_append, tcount_ext hf.ext hi.open_el]
    have : tcount s'.dom [r] = 0 := tcount_zero_of_not (by
      intro x hx; rw [List.mem_singleton.mp hx, hn]; exact hnew.1)
    omega

/-- the list of active formatting elements loses entries / gains markers -/
theorem bk_withAF {s : State} (hi : HInv s) (hr : Rooted s.dom s.openElems) (af : List FormatEntry)
    (ha : ∀ e ∈ af, e ∈ s.activeFormatting ∨ e = .marker) : BK s { s with activeFormatting := af } := by
  have hi' : HInv { s with activeFormatting := af } := by
    refine hi.withAF af ?_
    intro x t hx
    rcases ha _ hx with h | h
    · exact hi.af x t h
    · cases h
  exact ⟨⟨rfl, rfl, rfl, rfl, rfl, rfl, Ext.refl _, hi', hr, fun x hx => Or.inl hx, Nat.le_refl _⟩,
    Keeps.refl rfl⟩

/-- the form pointer changes -/
theorem bk_withForm {s : State} (hi : HInv s) (hr : Rooted s.dom s.openElems) (f : Option Id)
    (hf : ∀ h, f = some h → IsEl s.dom h ∧ nm s.dom h = formName) : BK s { s with formElem := f } :=
  ⟨⟨rfl, rfl, rfl, rfl, rfl, rfl, Ext.refl _, ⟨hi.open_el, hi.open_tc, hi.af, hi.head, hf, hi.ctx⟩, hr,
    fun x hx => Or.inl hx, Nat.le_refl _⟩, Keeps.refl rfl⟩

theorem bk_withIgnoreLf {s : State} (hi : HInv s) (hr : Rooted s.dom s.openElems) (b : Bool) :
    BK s { s with ignoreLf := b } :=
  ⟨⟨rfl, rfl, rfl, rfl, rfl, rfl, Ext.refl _, hi.withIgnoreLf b, hr, fun x hx => Or.inl hx, Nat.le_refl _⟩,
    Keeps.refl rfl⟩

/-! ### step combinators -/

/-- a `BK` step followed by a continuation -/
theorem bk_step {α β : Type} {m : M α} {f : α → M β} {s : State} {R : β → Prop} (hi : HInv s)
    (h : Sat m s (fun _ s1 => BK s s1))
    (hf : ∀ a s1, HInv s1 → Rooted s1.dom s1.openElems → Sat (f a) s1 (fun b s2 => R b ∧ BK s1 s2)) :
    Sat (m >>= f) s (fun b s2 => R b ∧ BK s s2) :=
  h.bind (fun a s1 hb => (hf a s1 hb.b.hinv hb.b.rooted).mono (fun b s2 h2 => ⟨h2.1, BK.trans hi hb h2.2⟩))

/-- a `BK` step; the continuation is told the step -/
theorem bk_stepK {α β : Type} {m : M α} {f : α → M β} {s : State} {R : β → Prop} (hi : HInv s)
    (h : Sat m s (fun _ s1 => BK s s1))
    (hf : ∀ a s1, BK s s1 → HInv s1 → Rooted s1.dom s1.openElems →
      Sat (f a) s1 (fun b s2 => R b ∧ BK s1 s2)) :
    Sat (m >>= f) s (fun b s2 => R b ∧ BK s s2) :=
  h.bind (fun a s1 hb => (hf a s1 hb hb.b.hinv hb.b.rooted).mono (fun b s2 h2 => ⟨h2.1, BK.trans hi hb h2.2⟩))

/-- a `BK` step with information about the result -/
theorem bk_stepP {α β : Type} {m : M α} {f : α → M β} {s : State} {P : α → State → Prop} {R : β → Prop}
    (hi : HInv s) (h : Sat m s (fun a s1 => P a s1 ∧ BK s s1))
    (hf : ∀ a s1, P a s1 → HInv s1 → Rooted s1.dom s1.openElems → Sat (f a) s1 (fun b s2 => R b ∧ BK s1 s2)) :
    Sat (m >>= f) s (fun b s2 => R b ∧ BK s s2) :=
  h.bind (fun a s1 hb => (hf a s1 hb.1 hb.2.b.hinv hb.2.b.rooted).mono
    (fun b s2 h2 => ⟨h2.1, BK.trans hi hb.2 h2.2⟩))

/-- a query followed by a continuation -/
theorem q_step {α β : Type} {m : M α} {f : α → M β} {s : State} {P : α → Prop} {R : β → Prop}
    (hi : HInv s) (hr : Rooted s.dom s.openElems) (h : Sat m s (fun a s1 => P a ∧ QF s s1))
    (hf : ∀ a s1, P a → QF s s1 → HInv s1 → Rooted s1.dom s1.openElems →
      Sat (f a) s1 (fun b s2 => R b ∧ BK s1 s2)) :
    Sat (m >>= f) s (fun b s2 => R b ∧ BK s s2) :=
  h.bind (fun a s1 hb =>
    have hbk := BK.of_qf hi hr hb.2
    (hf a s1 hb.1 hb.2 hbk.b.hinv hbk.b.rooted).mono (fun b s2 h2 => ⟨h2.1, BK.trans hi hbk h2.2⟩))

/-- a sink call / query whose result does not matter -/
theorem q_step' {α β : Type} {m : M α} {f : α → M β} {s : State} {R : β → Prop}
    (hi : HInv s) (hr : Rooted s.dom s.openElems) (h : Sat m s (fun _ s1 => QF s s1))
    (hf : ∀ a s1, QF s s1 → HInv s1 → Rooted s1.dom s1.openElems →
      Sat (f a) s1 (fun b s2 => R b ∧ BK s1 s2)) :
    Sat (m >>= f) s (fun b s2 => R b ∧ BK s s2) :=
  q_step (P := fun _ => True) hi hr (h.mono (fun _ _ hq => ⟨trivial, hq⟩)) (fun a s1 _ => hf a s1)

/-- a step that changes nothing safety-relevant (`Same`), followed by a continuation -/
theorem same_step {α β : Type} {m : M α} {f : α → M β} {s : State} {R : β → Prop}
    (hi : HInv s) (hr : Rooted s.dom s.openElems) (h : Sat m s (fun _ s1 => Same s s1))
    (hf : ∀ a s1, Same s s1 → HInv s1 → Rooted s1.dom s1.openElems →
      Sat (f a) s1 (fun b s2 => R b ∧ BK s1 s2)) :
    Sat (m >>= f) s (fun b s2 => R b ∧ BK s s2) :=
  h.bind (fun a s1 hb =>
    have hbk := BK.of_same hi hr hb
    (hf a s1 hb hbk.b.hinv hbk.b.rooted).mono (fun b s2 h2 => ⟨h2.1, BK.trans hi hbk h2.2⟩))

theorem bk_pure {β : Type} {b : β} {s : State} {R : β → Prop} (hi : HInv s) (hr : Rooted s.dom s.openElems)
    (h : R b) : Sat (pure b : M β) s (fun b s2 => R b ∧ BK s s2) := by
  refine sat_pure ?_; exact ⟨h, bk_refl hi hr⟩

/-- the results of the arms that keep the insertion mode -/
def PlainRes (r : ProcessResult) : Prop := r = .done ∨ r = .doneAckSelfClosing ∨ r = .toPlaintext

theorem plain_done : PlainRes .done := Or.inl rfl
theorem plain_ack : PlainRes .doneAckSelfClosing := Or.inr (Or.inl rfl)

/-! ### the basic steps as `BK` steps -/

theorem bk_parseError {msg : String} {s : State} (hi : HInv s) (hr : Rooted s.dom s.openElems) :
    Sat (parseError msg) s (fun _ s' => BK s s') :=
  sat_parseError.mono (fun _ _ h => BK.of_qf hi hr h)

theorem bk_unexpected {s : State} (hi : HInv s) (hr : Rooted s.dom s.openElems) :
    Sat unexpected s (fun _ s' => BK s s') :=
  sat_unexpected.mono (fun _ _ h => BK.of_qf hi hr h.2)

theorem bk_unexpected_done {s : State} (hi : HInv s) (hr : Rooted s.dom s.openElems) :
    Sat unexpected s (fun r s' => PlainRes r ∧ BK s s') :=
  sat_unexpected.mono (fun _ _ h => ⟨Or.inl h.1, BK.of_qf hi hr h.2⟩)

theorem bk_setFramesetOk {b : Bool} {s : State} (hi : HInv s) (hr : Rooted s.dom s.openElems) :
    Sat (setFramesetOk b) s (fun _ s' => BK s s') :=
  sat_setFramesetOk.mono (fun _ _ h => BK.of_same hi hr h)

theorem bk_reconstruct {s : State} (hi : HInv s) (hr : Rooted s.dom s.openElems) :
    Sat reconstructActiveFormattingElements s (fun _ s' => BK s s') :=
  (sat_reconstructActiveFormattingElements hi hr).mono (fun _ _ h => BK.of_grown hi hr h)

theorem bk_insertFor {tag : Tag} {s : State} (hi : HInv s) (hr : Rooted s.dom s.openElems)
    (hn : NewOk ⟨nsHtml, tag.name⟩) : Sat (insertElementFor tag) s (fun _ s' => BK s s') :=
  (sat_insertElementFor (PlaceOk.of_hinv hi hr)).mono (fun _ _ h => BK.of_inserted hi hr h hn)

theorem bk_insertAndPopFor {tag : Tag} {s : State} (hi : HInv s) (hr : Rooted s.dom s.openElems)
    (hn : NewOk ⟨nsHtml, tag.name⟩) : Sat (insertAndPopElementFor tag) s (fun _ s' => BK s s') :=
  (sat_insertAndPopElementFor (PlaceOk.of_hinv hi hr)).mono (fun _ _ h => BK.of_inserted hi hr h hn)

theorem bk_closeP {s : State} (hi : HInv s) (hr : Rooted s.dom s.openElems) :
    Sat closePElementInButtonScope s (fun _ s' => BK s s') := by
  refine (sat_closePElementInButtonScope hi.open_el).mono ?_
  rintro _ s' ⟨pre, post, heq, st, hp⟩
  refine bk_of_pops hi hr heq st ?_
  intro y hy
  rcases hp y hy with h | h
  · rw [namedP_nm h]; decide
  · exact popOk_of_not_button h

theorem bk_implied {set : EName → Bool} {s : State} (hi : HInv s) (hr : Rooted s.dom s.openElems)
    (hset : ∀ n, set n = true → popOk n = true) : Sat (generateImpliedEndTags set) s (fun _ s' => BK s s') := by
  refine (sat_generateImpliedEndTags hi.open_el).mono ?_
  rintro _ s' ⟨pre, post, heq, st, hp, _⟩
  exact bk_of_pops hi hr heq st (fun y hy => hset _ (hp y hy))

theorem last_of_rooted {s : State} (hr : Rooted s.dom s.openElems) : ∃ h, s.openElems.getLast? = some h := by
  obtain ⟨r, rest, hl, _⟩ := hr
  exact getLast?_of_ne_nil (by rw [hl]; simp)

/-- `pop` of a current node that is none of `html`, `td`, `th` -/
theorem bk_pop {s : State} {h : Id} (hi : HInv s) (hr : Rooted s.dom s.openElems)
    (hl : s.openElems.getLast? = some h) (hp : popOk (nm s.dom h) = true) :
    Sat pop s (fun _ s' => BK s s') := by
  refine (sat_pop hl).mono ?_
  rintro _ s' ⟨-, st⟩
  refine bk_of_pops (post := [h]) hi hr (dropLast_append_getLast hl) st ?_
  intro y hy; rw [List.mem_singleton.mp hy]; exact hp

/-- `html_elem_named(·, name)` as a predicate on names -/
abbrev Named (name : Str) : EName → Bool := fun p => p.ns == nsHtml && p.loc == name

/-- the current node has a name satisfying `P` -/
def TopIs (s : State) (P : EName → Bool) : Prop := ∃ h, s.openElems.getLast? = some h ∧ P (nm s.dom h) = true

theorem TopIs.of_same {s s' : State} {P : EName → Bool} (hi : HInv s) (h : TopIs s P) (q : Same s s') :
    TopIs s' P := by
  obtain ⟨x, hl, hp⟩ := h
  exact ⟨x, by rw [q.openElems]; exact hl, by rw [nm_ext q.fr.ext (hi.open_el x (getLast?_mem hl))]; exact hp⟩

theorem TopIs.of_qf {s s' : State} {P : EName → Bool} (hi : HInv s) (h : TopIs s P) (q : QF s s') :
    TopIs s' P := h.of_same hi q.same

theorem bk_pop_top {s : State} {P : EName → Bool} (hi : HInv s) (hr : Rooted s.dom s.openElems)
    (h : TopIs s P) (hP : ∀ n, P n = true → popOk n = true) : Sat pop s (fun _ s' => BK s s') := by
  obtain ⟨x, hl, hp⟩ := h
  exact bk_pop hi hr hl (hP _ hp)

/-- `current_node_named`: a `true` answer names the current node -/
theorem q_currentNodeNamed {name : String} {s : State} (hi : HInv s) (hr : Rooted s.dom s.openElems) :
    Sat (currentNodeNamed name) s (fun b s' => (b = true → TopIs s (Named name.toList)) ∧ QF s s') := by
  obtain ⟨h, hl⟩ := last_of_rooted hr
  refine (sat_currentNodeNamed hl (hi.open_el h (getLast?_mem hl))).mono ?_
  rintro b s' ⟨rfl, hq⟩
  exact ⟨fun hb => ⟨h, hl, hb⟩, hq⟩

theorem q_currentNodeNamedS {name : Str} {s : State} (hi : HInv s) (hr : Rooted s.dom s.openElems) :
    Sat (currentNodeNamedS name) s (fun _ s' => QF s s') := by
  obtain ⟨h, hl⟩ := last_of_rooted hr
  exact (sat_currentNodeNamedS hl (hi.open_el h (getLast?_mem hl))).mono (fun _ _ h => h.2)

theorem q_currentNodeIn {set : EName → Bool} {s : State} (hi : HInv s) (hr : Rooted s.dom s.openElems) :
    Sat (currentNodeIn set) s (fun b s' => (b = true → TopIs s set) ∧ QF s s') := by
  obtain ⟨h, hl⟩ := last_of_rooted hr
  refine (sat_currentNodeIn hl (hi.open_el h (getLast?_mem hl))).mono ?_
  rintro b s' ⟨rfl, hq⟩
  exact ⟨fun hb => ⟨h, hl, hb⟩, hq⟩

/-! ### the element found by a scope test / a search, and popping down to it -/

/-- `x` is on the stack, satisfies `P`; what is above it does not and may be popped -/
structure Split (s : State) (P : EName → Bool) (pre : List Id) (x : Id) (post : List Id) : Prop where
  eq : s.openElems = pre ++ x :: post
  px : P (nm s.dom x) = true
  above : ∀ y ∈ post, P (nm s.dom y) = false ∧ popOk (nm s.dom y) = true

theorem Split.of_same {s s' : State} {P : EName → Bool} {pre post : List Id} {x : Id} (hi : HInv s)
    (h : Split s P pre x post) (st : Same s s') : Split s' P pre x post := by
  have hnm : ∀ y ∈ s.openElems, nm s'.dom y = nm s.dom y := fun y hy => hi.open_el.nm_eq st.fr.ext hy
  refine ⟨by rw [st.openElems]; exact h.eq, ?_, ?_⟩
  · rw [hnm x (by rw [h.eq]; simp)]; exact h.px
  · intro y hy
    rw [hnm y (by rw [h.eq]; simp [hy])]; exact h.above y hy

theorem Split.of_qf {s s' : State} {P : EName → Bool} {pre post : List Id} {x : Id} (hi : HInv s)
    (h : Split s P pre x post) (q : QF s s') : Split s' P pre x post := h.of_same hi q.same

/-- from a successful scope test on names -/
theorem Split.of_top {s : State} {scope P : EName → Bool} {pre post : List Id} {x : Id}
    (h : TopSplit s.dom scope (fun h => P (nm s.dom h)) s.openElems pre x post)
    (hsc : ∀ n, scope n = false → popOk n = true) : Split s P pre x post :=
  ⟨h.eq, h.px, fun y hy => ⟨(h.above y hy).1, hsc _ (h.above y hy).2⟩⟩

/-- implied end tags above an element that is not in the set -/
theorem split_implied {set P : EName → Bool} {s : State} {pre post : List Id} {x : Id} (hi : HInv s)
    (hr : Rooted s.dom s.openElems) (h : Split s P pre x post) (hx : set (nm s.dom x) = false) :
    Sat (generateImpliedEndTags set) s (fun _ s1 => (∃ post0, Split s1 P pre x post0) ∧ BK s s1) := by
  refine (sat_generateImpliedEndTags_keep hi.open_el h.eq hx).mono ?_
  rintro _ s1 ⟨post0, post1, hp, st, _⟩
  have heq : s.openElems = (pre ++ x :: post0) ++ post1 := by rw [h.eq, hp]; simp
  have hsub : ∀ z ∈ pre ++ x :: post0, z ∈ s.openElems := fun z hz => by
    rw [heq]; exact List.mem_append_left _ hz
  have hnm : ∀ z ∈ pre ++ x :: post0, nm s1.dom z = nm s.dom z :=
    fun z hz => (hi.open_el.sub hsub).nm_eq st.fr.ext hz
  refine ⟨⟨post0, st.openElems, ?_, ?_⟩, ?_⟩
  · rw [hnm x (by simp)]; exact h.px
  · intro y hy
    rw [hnm y (by simp [hy])]
    exact h.above y (by rw [hp]; exact List.mem_append_left _ hy)
  · refine bk_of_pops hi hr heq st ?_
    intro y hy
    exact (h.above y (by rw [hp]; exact List.mem_append_right _ hy)).2

/-- `pop_until` down to (and including) the element of a `Split` -/
theorem split_popUntil {P : EName → Bool} {s : State} {pre post : List Id} {x : Id} (hi : HInv s)
    (hr : Rooted s.dom s.openElems) (h : Split s P pre x post) (hx : popOk (nm s.dom x) = true) :
    Sat (popUntil P) s (fun _ s1 => BK s s1) := by
  refine (sat_popUntil hi.open_el h.eq h.px (fun y hy => (h.above y hy).1)).mono ?_
  rintro _ s1 ⟨st, -⟩
  refine bk_of_pops (post := x :: post) hi hr h.eq st ?_
  intro y hy
  rcases List.mem_cons.mp hy with h1 | h1
  · rw [h1]; exact hx
  · exact (h.above y h1).2

theorem split_expectToCloseS {name : Str} {s : State} {pre post : List Id} {x : Id} (hi : HInv s)
    (hr : Rooted s.dom s.openElems) (h : Split s (Named name) pre x post)
    (hx : popOk (nm s.dom x) = true) : Sat (expectToCloseS name) s (fun _ s1 => BK s s1) := by
  unfold expectToCloseS popUntilNamedS
  refine bk_step (R := fun _ => True) hi (split_popUntil hi hr h hx) ?_ |>.mono (fun _ _ h => h.2)
  intro n s1 hi1 hr1
  split
  · exact (bk_parseError hi1 hr1).mono (fun _ _ h => ⟨trivial, h⟩)
  · exact bk_pure hi1 hr1 trivial

/-- `generate_implied_end_tags(set); expect_to_close(name); …` below a `Split` -/
theorem split_implied_close {β : Type} {set : EName → Bool} {name : Str} {s : State} {pre post : List Id} {x : Id}
    {f : Unit → M β} {R : β → Prop} (hi : HInv s) (hr : Rooted s.dom s.openElems)
    (h : Split s (Named name) pre x post)
    (hset : set ⟨nsHtml, name⟩ = false) (hname : isOneOf name ["html", "td", "th"] = false)
    (hf : ∀ a s2, HInv s2 → Rooted s2.dom s2.openElems → Sat (f a) s2 (fun b s3 => R b ∧ BK s2 s3)) :
    Sat (generateImpliedEndTags set >>= fun _ => expectToCloseS name >>= f) s (fun b s3 => R b ∧ BK s s3) := by
  have hnx : nm s.dom x = ⟨nsHtml, name⟩ := named_eq h.px
  refine bk_stepP hi (split_implied hi hr h (by rw [hnx]; exact hset)) ?_
  rintro _ s1 ⟨post0, h1⟩ hi1 hr1
  have hnx1 : nm s1.dom x = ⟨nsHtml, name⟩ := named_eq h1.px
  exact bk_step hi1 (split_expectToCloseS hi1 hr1 h1 (by rw [hnx1]; exact popOk_mk hname)) hf

/-- scope test on a name: a `true` answer finds the element -/
theorem q_inScopeNamedS {scope : EName → Bool} {name : Str} {s : State} (hi : HInv s)
    (hsc : ∀ n, scope n = false → popOk n = true) :
    Sat (inScopeNamedS scope name) s
      (fun b s' => (b = true → ∃ pre x post, Split s (Named name) pre x post) ∧ QF s s') := by
  refine (sat_inScopeNamedS hi.open_el).mono ?_
  rintro b s' ⟨rfl, hq⟩
  refine ⟨fun hb => ?_, hq⟩
  obtain ⟨pre, x, post, hs⟩ := inScopeP_split hb
  exact ⟨pre, x, post, Split.of_top (P := Named name) hs hsc⟩

theorem q_inScopeNamed {scope : EName → Bool} {name : String} {s : State} (hi : HInv s)
    (hsc : ∀ n, scope n = false → popOk n = true) :
    Sat (inScopeNamed scope name) s
      (fun b s' => (b = true → ∃ pre x post, Split s (Named name.toList) pre x post) ∧ QF s s') :=
  q_inScopeNamedS hi hsc

/-- scope test on a set of names -/
theorem q_inScopeIn {scope set : EName → Bool} {s : State} (hi : HInv s)
    (hsc : ∀ n, scope n = false → popOk n = true) :
    Sat (inScope scope (fun n => elemIn n set)) s
      (fun b s' => (b = true → ∃ pre x post, Split s set pre x post) ∧ QF s s') := by
  refine (sat_inScope hi.open_el (fun x hx => answers_elemIn (hi.open_el x hx))).mono ?_
  rintro b s' ⟨rfl, hq⟩
  refine ⟨fun hb => ?_, hq⟩
  obtain ⟨pre, x, post, hs⟩ := inScopeP_split hb
  exact ⟨pre, x, post, Split.of_top (P := set) hs hsc⟩

theorem cursory_mk_false {name : Str} (h : isOneOf name cursoryImpliedEndNames = false) :
    cursoryImpliedEnd ⟨nsHtml, name⟩ = false := by
  unfold cursoryImpliedEnd htmlIn; simp only [h]; simp

theorem impliedExcept_self {name : Str} : impliedExcept name ⟨nsHtml, name⟩ = false := by
  unfold impliedExcept; simp

theorem heading_not_cursory {n : EName} (h : headingTag n = true) : cursoryImpliedEnd n = false := by
  unfold headingTag htmlIn at h
  simp only [Bool.and_eq_true] at h
  unfold cursoryImpliedEnd htmlIn
  rw [isOneOf_disj (l2 := cursoryImpliedEndNames) (by decide) h.2]; simp

/-- `close_p_element` below a `p` found in scope -/
theorem split_closeP {s : State} {pre post : List Id} {x : Id} (hi : HInv s) (hr : Rooted s.dom s.openElems)
    (h : Split s (Named "p".toList) pre x post) : Sat closePElement s (fun _ s1 => BK s s1) := by
  refine (sat_closePElement hi.open_el h.eq h.px (fun y hy => (h.above y hy).1)).mono ?_
  intro _ s1 st
  refine bk_of_pops (post := x :: post) hi hr h.eq st ?_
  intro y hy
  rcases List.mem_cons.mp hy with h1 | h1
  · rw [h1, named_eq h.px]; decide
  · exact (h.above y h1).2

theorem bk_insertForP {tag : Tag} {s : State} (hi : HInv s) (hr : Rooted s.dom s.openElems)
    (hn : NewOk ⟨nsHtml, tag.name⟩) :
    Sat (insertElementFor tag) s
      (fun r s' => (IsEl s'.dom r ∧ nm s'.dom r = ⟨nsHtml, tag.name⟩) ∧ BK s s') :=
  (sat_insertElementFor (PlaceOk.of_hinv hi hr)).mono
    (fun _ _ h => ⟨⟨h.el, h.nm⟩, BK.of_inserted hi hr h hn⟩)

theorem bk_createFmt {tag : Tag} {s : State} (hi : HInv s) (hr : Rooted s.dom s.openElems)
    (hf : isOneOf tag.name fmtNames = true) : Sat (createFormattingElementFor tag) s (fun _ s' => BK s s') := by
  refine (sat_createFormattingElementFor hi hr hf).mono ?_
  rintro r s' ⟨h1, h2, h3, h4, _⟩
  exact bk_of_created hi hr h1 h2 h3 h4 (newOk_of_in (l := fmtNames) (by decide) hf)

end H5V.Lemmas.TBSafe.IB
