import H5V.Lemmas.HtmlTBFuelSimple
/-!
# The fuel of `process_to_completion`, part 9: `stepInHead` (`HeadE`)
-/
namespace H5V.Lemmas.TBFuel
open H5V.Model.HtmlTB
open H5V.Model.HtmlTok (TagKind)
open H5V.Model.Dom (Id QualName Attr NodeOrText SinkOp Output ElementFlags QuirksMode Dom NodeData Node)
open H5V.Lemmas.TBSafe
open H5V.Lemmas.TBC (ok_bind ok_pure ok_getS_bind ok_modS_bind ok_ite ok_bind_pure)

/-- the judgement of an arm of `stepInHead` -/
def HJ (f : M ProcessResult) (tok : Token) : Prop := ∀ s r s', f s = .ok (r, s') → EH s tok r s'

theorem eh_of_quiet {s s' : State} {tok : Token} {r : ProcessResult} (h : Quiet r) : EH s tok r s' := by
  cases r <;> first | trivial | exact h.elim

theorem hj_of_ro {f : M ProcessResult} {tok : Token} (h : RO f Quiet) : HJ f tok :=
  fun s r s' hr => eh_of_quiet (h s r s' hr)

theorem hj_ite {c : Prop} [Decidable c] {a b : M ProcessResult} {tok : Token}
    (h1 : c → HJ a tok) (h2 : ¬c → HJ b tok) : HJ (if c then a else b) tok := by
  by_cases hc : c
  · rw [if_pos hc]; exact h1 hc
  · rw [if_neg hc]; exact h2 hc

theorem hj_split {text : Str} : HJ (pure (ProcessResult.splitWhitespace text)) (.chars .notSplit text) := by
  intro s r s' hr
  obtain ⟨e1, e2⟩ := ok_pure hr
  rw [← e1, ← e2]
  exact ⟨rfl, rfl⟩

/-- InHead, "anything else" -/
theorem hj_else {tok : Token} (hq : headElse tok = true) :
    HJ (do let _ ← pop; pure (ProcessResult.reprocess Mode.afterHead tok)) tok := by
  intro s r s' hr
  obtain ⟨a, s1, h1, h2⟩ := ok_bind hr
  obtain ⟨e1, e2⟩ := ok_pure h2
  rw [← e1, ← e2]
  exact ⟨rfl, hq, sh_pop s a s1 h1⟩

theorem isStart_of_mem {tag : Tag} {l : List String} {x : String} (hk : tag.kind = .startTag) (hx : x ∈ l)
    (he : x.toList = tag.name) : tag.isStart l = true := by
  unfold Tag.isStart
  rw [hk, isOneOf_of_mem hx he]; rfl

/-- `RO` walker that also splits `match`es -/
syntax "ro_walkS" : tactic
macro_rules
  | `(tactic| ro_walkS) => `(tactic| repeat' (first | ro_step | split))

set_option maxHeartbeats 1600000 in
/-- **`stepInHead`**: `Reprocess` only as "anything else" → AfterHead after a `pop` -/
theorem headE : HeadE := by
  intro tok
  show HJ (stepInHead tok) tok
  unfold stepInHead
  cases tok with
  | chars st text =>
    cases st with
    | notSplit => exact hj_split
    | whitespace => exact hj_of_ro (by ro_walk)
    | notWhitespace => exact hj_else rfl
  | comment t => exact hj_of_ro (by ro_walk)
  | nullChar => exact hj_else rfl
  | eof => exact hj_else rfl
  | tag tag =>
    dsimp only
    refine hj_ite (fun _ => hj_of_ro (by ro_walk)) (fun n1 => ?_)
    refine hj_ite (fun _ => hj_of_ro (by ro_walkS)) (fun n2 => ?_)
    refine hj_ite (fun _ => hj_of_ro (by ro_walk)) (fun n3 => ?_)
    refine hj_ite (fun _ => hj_of_ro (by ro_walk)) (fun n4 => ?_)
    refine hj_ite (fun _ => hj_of_ro (by ro_walk)) (fun n5 => ?_)
    refine hj_ite (fun _ => hj_of_ro (by ro_walk)) (fun n6 => ?_)
    refine hj_ite (fun h7 => hj_else ?_) (fun n7 => ?_)
    · obtain ⟨hk, _⟩ := end_spec h7
      show (if tag.kind == .endTag then tag.isEnd ["body", "html", "br"] else _) = true
      rw [hk]; exact h7
    refine hj_ite (fun _ => hj_of_ro (by ro_walkS)) (fun n8 => ?_)
    refine hj_ite (fun _ => hj_of_ro (by ro_walk)) (fun n9 => ?_)
    refine hj_ite (fun _ => hj_of_ro (by ro_walk)) (fun n10 => hj_else ?_)
    -- a start tag that no arm handles
    have hk : tag.kind = .startTag := by
      cases hkk : tag.kind with
      | startTag => rfl
      | endTag => exact absurd (by simp [hkk]) n10
    show (if tag.kind == .endTag then _ else !(tag.isStart headStarts)) = true
    rw [hk]
    show (!(tag.isStart headStarts)) = true
    cases hb : tag.isStart headStarts with
    | false => rfl
    | true =>
      obtain ⟨_, x, hx, he⟩ := start_spec hb
      have hs : ∀ l : List String, x ∈ l → tag.isStart l = true := fun l hl => isStart_of_mem hk hl he
      simp only [headStarts, List.mem_cons, List.not_mem_nil, or_false] at hx
      rcases hx with rfl | rfl | rfl | rfl | rfl | rfl | rfl | rfl | rfl | rfl | rfl | rfl | rfl
      · exact absurd (hs _ (by decide)) n1
      · exact absurd (hs _ (by decide)) n2
      · exact absurd (hs _ (by decide)) n2
      · exact absurd (hs _ (by decide)) n2
      · exact absurd (hs _ (by decide)) n2
      · exact absurd (hs _ (by decide)) n2
      · exact absurd (hs _ (by decide)) n3
      · exact absurd (hs _ (by decide)) n4
      · exact absurd (hs _ (by decide)) n4
      · exact absurd (hs _ (by decide)) n4
      · exact absurd (hs _ (by decide)) n5
      · exact absurd (hs _ (by decide)) n8
      · exact absurd (by rw [hs ["head"] (by decide)]; rfl) n10

end H5V.Lemmas.TBFuel
