import H5V.Lemmas.HtmlTBModesDev
import H5V.Lemmas.HtmlTBModesInvBodyE
import H5V.Lemmas.HtmlTBModesInvHead
import H5V.Lemmas.HtmlTBModesInvCell
import H5V.Lemmas.HtmlTBModesInvTable
import H5V.Lemmas.HtmlTBModesInvSmall
import H5V.Lemmas.HtmlTBModesInvForeign
/-!
C02 (insertion modes), the invariant `Good` of the specification's run, assembled:

* every rule function of `Spec.TreeModes` keeps `Good` (`keeps_byMode`, `post_dispatch`), given — for tag tokens
  only — the facts `Link`, `FreshFor` and "in "text" the dispatcher chooses the HTML rules", which the MODEL provides;
* hence under `Good` the Assert of "in cell" holds: `byModeDev = byMode`, `dispatchDev = dispatch`;
* for character tokens nothing from the model is needed: `loopDev`/`processCharsDev` agree with `loop`/`processChars`
  and keep the invariant (`loop_char`, `processChars_of_dev`).
-/
set_option linter.unusedSectionVars false
set_option linter.unusedSimpArgs false
namespace H5V.Lemmas.ModesInv
open H5V.Spec H5V.Spec.TreeModes
open H5V.Spec.TreeAlgo (Str Name nsHtml nsMathml nsSvg inHtml)
open H5V.Spec.TreeAlgo2 (Elem Entry PState)
open H5V.Lemmas.HtmlTBModes (byModeDev dispatchDev loopDev processSTokDev processCharsDev processSToksDev processTokenDev
  runDev cellAssertFails isStartTag byModeDev_eq)

section
variable {N : Type} [DecidableEq N]

/-! ### all the modes -/

theorem keeps_inBody' : Keeps (inBody (N := N)) PreBody := keeps_inBody keeps_inHead
theorem keeps_inTable' : Keeps (inTable (N := N)) PreTable := keeps_inTable keeps_inBody' keeps_inHead

/-- **the rules of the current insertion mode** keep the invariant -/
theorem keeps_byMode : Keeps (byMode (N := N)) (fun _ _ => True) := by
  intro cfg hed σ tok r hg hst hl hfr _ h
  unfold byMode at h
  have hB := keeps_inBody' (N := N)
  have hH := keeps_inHead (N := N)
  have hT := keeps_inTable' (N := N)
  cases hm : σ.mode <;> simp only [hm] at h
  · exact keeps_initial cfg hed σ tok r hg hst hm h
  · exact keeps_beforeHtml cfg hed σ tok r hg hst hm h
  · exact keeps_beforeHead hB cfg hed σ tok r hg hst hl hfr hm h
  · exact hH cfg hed σ tok r hg hst ⟨by rw [hm]; decide, by rw [hm]; decide⟩ h
  · exact keeps_inHeadNoscript hB hH cfg hed σ tok r hg hst hl hfr hm h
  · exact keeps_afterHead hB hH cfg hed σ tok r hg hst hl hfr hm h
  · exact hB cfg hed σ tok r hg hst hl hfr ⟨by rw [hm]; decide, by rw [hm]; decide, fun hc => by rw [hm] at hc; cases hc⟩ h
  · exact keeps_text cfg hed σ tok r hg hst hm h
  · exact hT cfg hed σ tok r hg hst hl hfr (Or.inl hm) h
  · exact keeps_inTableText cfg hed σ tok r hg hst hl hfr hm h
  · exact keeps_inCaption hB cfg hed σ tok r hg hst hl hfr hm h
  · exact keeps_inColumnGroup hB hH cfg hed σ tok r hg hst hl hfr hm h
  · exact keeps_inTableBody hT cfg hed σ tok r hg hst hl hfr hm h
  · exact keeps_inRow hT cfg hed σ tok r hg hst hl hfr hm h
  · exact keeps_inCell hB cfg hed σ tok r hg hst hl hfr hm h
  · exact absurd hm hg.nosel.1
  · exact absurd hm hg.nosel.2
  · exact keeps_inTemplate hB hH cfg hed σ tok r hg hst hl hfr hm h
  · exact keeps_afterBody hB cfg hed σ tok r hg hst hl hfr hm h
  · exact keeps_inFrameset hB hH cfg hed σ tok r hg hst hl hfr hm h
  · exact keeps_afterFrameset hB hH cfg hed σ tok r hg hst hl hfr hm h
  · exact keeps_afterAfterBody hB cfg hed σ tok r hg hst hl hfr hm h
  · exact keeps_afterAfterFrameset hB hH cfg hed σ tok r hg hst hl hfr hm h

/-- for a tag token in "text" the dispatcher chooses the rules of the insertion mode (the current node is the HTML
element that made the parser switch to "text": a fact the model provides) -/
def TextHtml (cfg : Config N) (σ : State N) (tok : STok) : Prop :=
  isChar tok = false → σ.mode = .text →
    TreeAlgo.useHtmlRules (adjustedCurrentNode cfg σ) (tokenKind tok) = true

/-- **the tree construction dispatcher** keeps the invariant -/
theorem post_dispatch {cfg : Config N} (hed : cfg.edition = .customizableSelect) {σ : State N} {tok : STok} {r : Step N}
    (hg : Good σ) (hst : σ.stopped = false) (hl : LinkFor σ tok) (hfr : FreshFor σ tok r) (ht : TextHtml cfg σ tok)
    (h : dispatch cfg σ tok = .ok r) : PostF r := by
  unfold dispatch at h
  split at h
  · exact (keeps_byMode cfg hed σ tok r hg hst hl hfr trivial h).toF
  · rename_i hu
    refine post_foreign keeps_byMode hed hg hst hl hfr ?_ (by simpa using hu) h
    intro hm
    cases hc : isChar tok
    · exact absurd (ht hc hm) hu
    · rfl

/-! ### the Assert of "in cell" holds in good states -/

theorem cellAssertFails_of_good {σ : State N} (hg : Good σ) (tok : STok) : cellAssertFails σ tok = false := by
  by_cases hm : σ.mode = .inCell
  · have hc : hasAnyInTableScope σ ["td", "th"] = true := hg.cell hm
    simp only [cellAssertFails, hc, Bool.not_true, Bool.and_false]
  · exact H5V.Lemmas.HtmlTBModes.cellAssertFails_of_mode σ tok hm

theorem byModeDev_of_good {cfg : Config N} {σ : State N} (hg : Good σ) (tok : STok) :
    byModeDev cfg σ tok = byMode cfg σ tok := byModeDev_eq cfg σ tok (cellAssertFails_of_good hg tok)

theorem dispatchDev_of_good {cfg : Config N} {σ : State N} (hg : Good σ) (tok : STok) :
    dispatchDev cfg σ tok = dispatch cfg σ tok := by
  unfold dispatchDev dispatch
  rw [byModeDev_of_good hg]

/-! ### the unmodified loop without fuel -/

/-- with enough fuel, one token takes `σ` to `σ'` in the UNMODIFIED specification -/
def StdLoops (cfg : Config N) (html : Bool) (σ : State N) (tok : STok) (σ' : State N) : Prop :=
  ∃ k, ∀ k', k ≤ k' → loop cfg k' html σ tok = .ok σ'

def stdRule (cfg : Config N) (html : Bool) (σ : State N) (tok : STok) : M (Step N) :=
  if html then byMode cfg σ tok else dispatch cfg σ tok

def stdCont (cfg : Config N) (k : Nat) (tok : STok) : Step N → M (State N)
  | .done s => pure s
  | .reprocess s => loop cfg k false s tok
  | .reprocessHtml s => loop cfg k true s tok

theorem loop_succ (cfg : Config N) (k : Nat) (html : Bool) (σ : State N) (tok : STok) :
    loop cfg (k + 1) html σ tok = stdRule cfg html σ tok >>= stdCont cfg k tok := by
  rw [loop]
  unfold stdRule
  cases html
  · simp only [Bool.false_eq_true, if_false]
    cases dispatch cfg σ tok with
    | error e => rfl
    | ok r => cases r <;> rfl
  · simp only [if_true]
    cases byMode cfg σ tok with
    | error e => rfl
    | ok r => cases r <;> rfl

theorem StdLoops.done {cfg : Config N} {html : Bool} {σ σ' : State N} {tok : STok}
    (h : stdRule cfg html σ tok = .ok (.done σ')) : StdLoops cfg html σ tok σ' := by
  refine ⟨1, fun k' hk => ?_⟩
  obtain ⟨k, rfl⟩ : ∃ k, k' = k + 1 := ⟨k' - 1, by omega⟩
  rw [loop_succ, h]; rfl

theorem StdLoops.reprocess {cfg : Config N} {html : Bool} {σ σ1 σ' : State N} {tok : STok}
    (h : stdRule cfg html σ tok = .ok (.reprocess σ1)) (h2 : StdLoops cfg false σ1 tok σ') : StdLoops cfg html σ tok σ' := by
  obtain ⟨k0, hk0⟩ := h2
  refine ⟨k0 + 1, fun k' hk => ?_⟩
  obtain ⟨k, rfl⟩ : ∃ k, k' = k + 1 := ⟨k' - 1, by omega⟩
  rw [loop_succ, h]
  exact hk0 k (by omega)

theorem StdLoops.reprocessHtml {cfg : Config N} {html : Bool} {σ σ1 σ' : State N} {tok : STok}
    (h : stdRule cfg html σ tok = .ok (.reprocessHtml σ1)) (h2 : StdLoops cfg true σ1 tok σ') : StdLoops cfg html σ tok σ' := by
  obtain ⟨k0, hk0⟩ := h2
  refine ⟨k0 + 1, fun k' hk => ?_⟩
  obtain ⟨k, rfl⟩ : ∃ k, k' = k + 1 := ⟨k' - 1, by omega⟩
  rw [loop_succ, h]
  exact hk0 k (by omega)

def devRule (cfg : Config N) (html : Bool) (σ : State N) (tok : STok) : M (Step N) :=
  if html then byModeDev cfg σ tok else dispatchDev cfg σ tok

def devCont (cfg : Config N) (k : Nat) (tok : STok) : Step N → M (State N)
  | .done s => pure s
  | .reprocess s => loopDev cfg k false s tok
  | .reprocessHtml s => loopDev cfg k true s tok

theorem loopDev_succ' (cfg : Config N) (k : Nat) (html : Bool) (σ : State N) (tok : STok) :
    loopDev cfg (k + 1) html σ tok = devRule cfg html σ tok >>= devCont cfg k tok := by
  rw [loopDev]
  unfold devRule
  cases html
  · simp only [Bool.false_eq_true, if_false]
    cases dispatchDev cfg σ tok with
    | error e => rfl
    | ok r => cases r <;> rfl
  · simp only [if_true]
    cases byModeDev cfg σ tok with
    | error e => rfl
    | ok r => cases r <;> rfl

theorem devRule_of_good {cfg : Config N} {σ : State N} (hg : Good σ) (html : Bool) (tok : STok) :
    devRule cfg html σ tok = stdRule cfg html σ tok := by
  unfold devRule stdRule
  rw [byModeDev_of_good hg, dispatchDev_of_good hg]

/-! ### character tokens: nothing from the model is needed -/

theorem linkFor_char (σ : State N) (c : Char) : LinkFor σ (.character c) := fun h => by cases h
theorem freshFor_char (σ : State N) (c : Char) (r : Step N) : FreshFor σ (.character c) r := fun h => by cases h
theorem textHtml_char (cfg : Config N) (σ : State N) (c : Char) : TextHtml cfg σ (.character c) := fun h => by cases h

/-- one character token through the loop: the completed and the unmodified specification agree and keep the
invariant -/
theorem loop_char {cfg : Config N} (hed : cfg.edition = .customizableSelect) (c : Char) :
    ∀ (fuel : Nat) (html : Bool) (σ σ' : State N), Good σ → σ.stopped = false →
      loopDev cfg fuel html σ (.character c) = .ok σ' → loop cfg fuel html σ (.character c) = .ok σ' ∧ Inv σ' := by
  intro fuel
  induction fuel with
  | zero => intro html σ σ' _ _ h; simp [loopDev] at h
  | succ fuel ih =>
    intro html σ σ' hg hst h
    rw [loopDev_succ', devRule_of_good hg] at h
    rw [loop_succ]
    obtain ⟨r, hr, h2⟩ := bind_ok h
    have hpost : PostF r := by
      unfold stdRule at hr
      cases html
      · simp only [Bool.false_eq_true, if_false] at hr
        exact post_dispatch hed hg hst (linkFor_char _ _) (freshFor_char _ _ _) (textHtml_char _ _ _) hr
      · simp only [if_true] at hr
        exact (keeps_byMode cfg hed σ _ r hg hst (linkFor_char _ _) (freshFor_char _ _ _) trivial hr).toF
    rw [hr]
    cases r with
    | done s1 => exact ⟨h2, by cases pure_ok h2; exact hpost⟩
    | reprocess s1 => exact ih false s1 σ' hpost.2 hpost.1 h2
    | reprocessHtml s1 => exact ih true s1 σ' hpost.2 hpost.1 h2

theorem inv_clearLf {σ : State N} (h : Inv σ) : Inv ({ σ with ignoreLf := false } : State N) :=
  fun hs => (h hs).same

theorem processSTok_char {cfg : Config N} (hed : cfg.edition = .customizableSelect) (c : Char) {fuel : Nat} {σ σ' : State N}
    (hi : Inv σ) (h : processSTokDev cfg fuel σ (.character c) = .ok σ') :
    processSTok cfg fuel σ (.character c) = .ok σ' ∧ Inv σ' := by
  unfold processSTokDev at h
  unfold processSTok
  split
  · rename_i hs; rw [if_pos hs] at h; exact ⟨h, by cases pure_ok h; exact hi⟩
  · rename_i hs
    rw [if_neg hs] at h
    have hst : σ.stopped = false := by simpa using hs
    split
    · rename_i hl
      rw [if_pos hl] at h
      dsimp only at h ⊢
      split
      · rename_i hc; rw [if_pos hc] at h; exact ⟨h, by cases pure_ok h; exact inv_clearLf hi⟩
      · rename_i hc; rw [if_neg hc] at h
        exact loop_char hed c fuel false _ σ' (inv_clearLf hi hst) hst h
    · rename_i hl; rw [if_neg hl] at h
      exact loop_char hed c fuel false σ σ' (hi hst) hst h

/-- a run of character tokens -/
theorem processChars_of_dev {cfg : Config N} (hed : cfg.edition = .customizableSelect) {fuel : Nat} :
    ∀ (cs : Str) (σ σ' : State N), Inv σ → processCharsDev cfg fuel σ cs = .ok σ' →
      processChars cfg fuel σ cs = .ok σ' ∧ Inv σ' := by
  intro cs
  induction cs with
  | nil => intro σ σ' hi h; exact ⟨h, by cases pure_ok h; exact hi⟩
  | cons c cs ih =>
    intro σ σ' hi h
    simp only [processCharsDev] at h
    simp only [processChars]
    obtain ⟨s1, h1, h2⟩ := bind_ok h
    obtain ⟨e1, i1⟩ := processSTok_char hed c hi h1
    rw [e1]
    exact ih s1 σ' i1 h2

theorem inv_clearOut {σ : State N} (h : Inv σ) : Inv ({ σ with out := {} } : State N) :=
  fun hs => (h hs).same

/-- the end of `processToken`: only `errors`, `outs` change -/
theorem inv_finish {σ : State N} (h : Inv σ) (w : Option String) :
    Inv ({ (match w with | some m => σ.err m | none => σ) with outs := σ.outs ++ [σ.out] } : State N) := by
  cases w with
  | none => exact fun hs => (h hs).same
  | some m => exact fun hs => (h hs).same

/-- a character token of the input (`Token.chars`) -/
theorem processToken_chars_of_dev {cfg : Config N} (hed : cfg.edition = .customizableSelect) {fuel : Nat} {σ σ' : State N}
    {cs : Str} (hi : Inv σ) (h : processTokenDev cfg fuel σ (.chars cs) = .ok σ') :
    processToken cfg fuel σ (.chars cs) = .ok σ' ∧ Inv σ' := by
  unfold processTokenDev at h
  unfold processToken
  dsimp only at h ⊢
  obtain ⟨s1, h1, h2⟩ := bind_ok h
  obtain ⟨e1, i1⟩ := processChars_of_dev hed cs _ s1 (inv_clearOut hi) h1
  rw [e1]
  refine ⟨h2, ?_⟩
  cases pure_ok h2
  exact fun hs => (i1 hs).same

/-- what is threaded through a stretch of tag-token steps: from a good state, the unmodified loop arrives at the
same state, which satisfies the invariant -/
def GStep (cfg : Config N) (html : Bool) (σ : State N) (tok : STok) (σ' : State N) : Prop :=
  σ.stopped = false → Good σ → Inv σ' ∧ StdLoops cfg html σ tok σ'

theorem GStep.then {cfg : Config N} {html : Bool} {σ σ1 σ' : State N} {tok : STok}
    (h1 : σ.stopped = false → Good σ → (σ1.stopped = false ∧ Good σ1) ∧ stdRule cfg html σ tok = .ok (.reprocess σ1))
    (h2 : GStep cfg false σ1 tok σ') : GStep cfg html σ tok σ' := by
  intro hs hg
  obtain ⟨⟨a, b⟩, e⟩ := h1 hs hg
  obtain ⟨i, l⟩ := h2 a b
  exact ⟨i, StdLoops.reprocess e l⟩

/-! ### the start states -/

theorem good_initialState (supply : List N) : Good (initialState supply) :=
  Good.plain' (m := .initial) rfl (by decide) AFOk.nil (fun _ h => by cases h)

theorem createRootHtml_html {cfg : Config N} {s s' : State N} {t : Tag} (h : createRootHtml cfg s t = .ok s') :
    ∃ e : Elem N, e.name = ⟨nsHtml, "html".toList⟩ ∧ Upd s s' (s.p.stack ++ [e]) s.p.list := by
  unfold createRootHtml at h
  obtain ⟨r1, h1, h2⟩ := bind_ok h
  have h1' := req_ok h1
  obtain ⟨n1, st1⟩ := r1
  obtain ⟨hl, hs⟩ := sm_newNode_list h1'
  cases pure_ok h2
  exact ⟨_, rfl, rfl, rfl, rfl, rfl, by show st1.stack ++ _ = _; rw [hs], hl⟩

/-- the state steps 2, 6–12 of the fragment parsing algorithm set up -/
theorem good_fragmentState {cfg : Config N} (hed : cfg.edition = .customizableSelect) {docMode : TreeAlgo.DocMode}
    {form : Option N} {supply : List N} {σ : State N} (h : fragmentState cfg docMode form supply = .ok σ) :
    Good σ ∧ σ.stopped = false := by
  unfold fragmentState at h
  obtain ⟨context, _, h⟩ := bind_ok h
  obtain ⟨s1, h1, h⟩ := bind_ok h
  obtain ⟨s2, h2, h⟩ := bind_ok h
  cases pure_ok h
  obtain ⟨e, he, hu⟩ := createRootHtml_html h1
  -- the template insertion modes
  have htm : ∀ s0 : State N, (s0 = s1 ∨ s0 = { s1 with templateModes := [.inTemplate] }) →
      (∀ m ∈ s0.templateModes, tmOk m) ∧ s0.p.list = [] ∧ s0.stopped = false ∧ s0.names = [e.name] := by
    intro s0 hs0
    have hl : s1.p.list = [] := hu.list
    have hst : s1.stopped = false := hu.stopped
    have hn : s1.names = [e.name] := by rw [names_eq, hu.stack]; rfl
    have ht1 : s1.templateModes = [] := hu.tms
    rcases hs0 with rfl | rfl
    · exact ⟨(by rw [ht1]; intro m hm; cases hm), hl, hst, hn⟩
    · refine ⟨?_, hl, hst, hn⟩
      intro m hm
      simp only [List.mem_singleton] at hm
      subst hm; exact Or.inl rfl
  have key : ∀ s0 : State N, (s0 = s1 ∨ s0 = { s1 with templateModes := [.inTemplate] }) →
      resetInsertionMode cfg s0 = .ok s2 → Good (s2.setForm form) ∧ (s2.setForm form).stopped = false := by
    intro s0 hs0 hr
    obtain ⟨h1', h2', h3', h4'⟩ := htm s0 hs0
    obtain ⟨m, rfl, hm1, hm2, hm3, hm4, hm5⟩ := resetInsertionMode_eff cfg hed h1' hr
    refine ⟨?_, h3'⟩
    have hne : m ≠ .inCell := by
      intro hc
      have := hm5 hc
      rw [h4', cellR_cons, he] at this
      revert this; decide
    refine Good.plain ⟨hne, hm1, hm2, hm3, hm4⟩ ?_ h1'
    show AFOk s0.p.list
    rw [h2']; exact AFOk.nil
  split at h2
  · exact key _ (Or.inr rfl) h2
  · exact key _ (Or.inl rfl) h2

end
end H5V.Lemmas.ModesInv
