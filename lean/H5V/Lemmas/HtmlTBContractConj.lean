import H5V.Lemmas.HtmlTBContractLogic
/-!
# TreeSink contract for the HTML tree builder: combining the two passes

`satc_and_sat`: a first-pass specification (`H5V.Lemmas.TBSafe.Sat`, which carries the *values*
computed by the helpers: indices, decompositions of the stack, …) and a second-pass specification
(`SatC`) of the same computation from the same state hold together — both speak about the same run.
-/
namespace H5V.Lemmas.TBC
open H5V.Model.HtmlTB

/-- both postconditions hold of the one run -/
theorem satc_and_sat {al : TBSafe.Allow} {α : Type} {m : M α} {s : State} {Q1 Q2 : α → State → Prop}
    (h1 : TBSafe.Sat m s Q1) (h2 : SatC m s Q2) : SatC m s (fun a s' => Q1 a s' ∧ Q2 a s') := by
  unfold TBSafe.Sat at h1
  unfold SatC at h2 ⊢
  cases hm : m s with
  | error e => rw [hm] at h2; exact h2
  | ok r => obtain ⟨a, s'⟩ := r; rw [hm] at h1 h2; exact ⟨h1, h2⟩

/-- the allowance used when first-pass lemmas are quoted (any instance works: their failures are
discarded by `satc_and_sat`) -/
@[reducible] def anyAllow : TBSafe.Allow := ⟨True, True⟩

end H5V.Lemmas.TBC
