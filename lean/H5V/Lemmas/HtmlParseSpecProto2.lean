import H5V.Lemmas.HtmlParseSpecProto
import H5V.Lemmas.HtmlParseSpecTextProto
/-!
Capstone, part: **the residual protocol `RespectsP` from facts**.

* `respectsP_explode`: `RespectsP` transfers from the delivered stream to the exploded stream (the states of the
  two runs of the tree builder are `Sim`-related, and `ProtoOk` only looks at `Sim`-invariant parts of the state);
* `respectsP_of_facts`: along a run of the tree builder that starts with the options `opts`
  (`drop_doctype` off, default document mode), `RespectsP` follows from the "text" mode protocol (`TextAlong`, a
  fact about every joint parse: `parse_hist_text`) and "no `shadowrootmode` attribute".
-/
namespace H5V.Lemmas.ParseSpec
open H5V.Model.HtmlTB
open H5V.Model.Dom (Id QualName Attr)
open H5V.Lemmas.HtmlTBAlgo
open H5V.Lemmas.HtmlTBModes
open H5V.Props.C03 (Resplit C03_tree_resplit_run)

/-! ### `TbRuns` and `processTokens` -/

theorem tbRuns_processTokens {s s' : State} {p : List (TokToken × Nat)} (h : TbRuns s p s') :
    ∀ acc, ∃ res, processTokens p acc s = .ok (res, s') := by
  induction h with
  | nil => exact fun acc => ⟨acc, rfl⟩
  | @cons s s1 s' t l r rest hr _ ih =>
    intro acc
    obtain ⟨res, hres⟩ := ih (if r == .continue_ then acc else r :: acc)
    refine ⟨res, ?_⟩
    show (processToken t l >>= fun r => processTokens rest (if r == .continue_ then acc else r :: acc)) s = _
    rw [H5V.Lemmas.TBSplit.bind_apply]
    have : processToken t l s = .ok (r, s1) := hr
    rw [this]
    exact hres

theorem processTokens_tbRuns : ∀ (p : List (TokToken × Nat)) (acc res : List SinkResult) (s s' : State),
    processTokens p acc s = .ok (res, s') → TbRuns s p s'
  | [], acc, res, s, s', h => by
    have h' : (pure acc : M (List SinkResult)) s = .ok (res, s') := h
    cases h'
    exact TbRuns.nil _
  | (t, l) :: rest, acc, res, s, s', h => by
    obtain ⟨r, s1, h1, h2⟩ := processTokens_cons_ok h
    exact TbRuns.cons h1 (processTokens_tbRuns rest _ res s1 s' h2)

/-! ### `ProtoOk` only looks at `Sim`-invariant parts of the state -/

theorem protoOk_sim {s t : State} (h : H5V.Lemmas.TBSplit.Sim s t) {tok : TokToken} (hp : ProtoOk s tok) : ProtoOk t tok := by
  obtain ⟨_, tr, cl, er, pt, rfl, _⟩ := h
  exact ⟨hp.noShadow, hp.text, fun d e => by
    exact hp.doctype d e⟩

/-- every character token satisfies the residual protocol in every state -/
theorem protoOk_chars (s : State) (x : List Char) : ProtoOk s (.chars x) := by
  constructor
  · intro t e; cases e
  · intro _; exact Or.inl ⟨x, rfl⟩
  · intro d e; cases e

theorem respectsP_append : ∀ (p q : List (TokToken × Nat)) (t : State), RespectsP t p →
    (∀ t', TbRuns t p t' → RespectsP t' q) → RespectsP t (p ++ q)
  | [], _, t, _, h => h t (TbRuns.nil t)
  | (_, _) :: p, q, _, hp, h =>
    ⟨hp.1, fun r t1 hr => respectsP_append p q t1 (hp.2 r t1 hr) (fun t' hrun => h t' (TbRuns.cons hr hrun))⟩

theorem respectsP_charsOnly (l : Nat) : ∀ (cs : List Char) (t : State),
    RespectsP t (cs.map fun c => (TokToken.chars [c], l))
  | [], _ => trivial
  | c :: cs, t => ⟨protoOk_chars t [c], fun _ t1 _ => respectsP_charsOnly l cs t1⟩

/-- **the residual protocol transfers to the exploded stream** -/
theorem respectsP_explode : ∀ (ts : List (TokToken × Nat)) (s t : State), H5V.Lemmas.TBSplit.Sim s t →
    EmptyOk s ts → RespectsP s ts → RespectsP t (explode ts)
  | [], _, _, _, _, _ => trivial
  | (tk, l) :: rest, s, t, hst, he, hp => by
    obtain ⟨he1, he2⟩ := he
    obtain ⟨hp1, hp2⟩ := hp
    have hex : explode ((tk, l) :: rest) = explodeTok (tk, l) ++ explode rest := by simp [explode]
    rw [hex]
    by_cases hemp : tk = .chars []
    · subst hemp
      obtain ⟨s1, hr1, hs1⟩ := empty_chars_run l hst.left (he1 rfl)
      have hx : explodeTok (TokToken.chars [], l) = [] := rfl
      rw [hx, List.nil_append]
      exact respectsP_explode rest s1 t (hs1.trans hst) (he2 _ _ hr1) (hp2 _ _ hr1)
    · cases tk with
      | chars x =>
        refine respectsP_append _ _ t (respectsP_charsOnly l x t) (fun t' hrun => ?_)
        obtain ⟨res, hres⟩ := tbRuns_processTokens hrun []
        have hra := C03_tree_resplit_run (resplit_explodeTok (.chars x) l hemp) [] s t hst
        rw [hres] at hra
        cases h1 : processTokens [(TokToken.chars x, l)] [] s with
        | error e => rw [h1] at hra; exact hra.elim
        | ok v =>
          obtain ⟨acc', s'⟩ := v
          rw [h1] at hra
          obtain ⟨_, _, hs'⟩ := hra
          obtain ⟨r, hr⟩ := processTokens_one_ok h1
          exact respectsP_explode rest s' t' hs' (he2 r s' hr) (hp2 r s' hr)
      | tag tg =>
        refine ⟨protoOk_sim hst hp1, fun r t' hr => ?_⟩
        have h1 := H5V.Props.C03.C03_tb_sim_step (.tag tg) l l s t hst
        have hr' : processToken (.tag tg) l t = .ok (r, t') := hr
        rw [hr'] at h1
        cases hs : processToken (.tag tg) l s with
        | error e => rw [hs] at h1; exact h1.elim
        | ok v =>
          obtain ⟨r0, s'⟩ := v
          rw [hs] at h1
          exact respectsP_explode rest s' t' h1.2.2 (he2 r0 s' hs) (hp2 r0 s' hs)
      | doctype d =>
        refine ⟨protoOk_sim hst hp1, fun r t' hr => ?_⟩
        have h1 := H5V.Props.C03.C03_tb_sim_step (.doctype d) l l s t hst
        have hr' : processToken (.doctype d) l t = .ok (r, t') := hr
        rw [hr'] at h1
        cases hs : processToken (.doctype d) l s with
        | error e => rw [hs] at h1; exact h1.elim
        | ok v =>
          obtain ⟨r0, s'⟩ := v
          rw [hs] at h1
          exact respectsP_explode rest s' t' h1.2.2 (he2 r0 s' hs) (hp2 r0 s' hs)
      | comment c =>
        refine ⟨protoOk_sim hst hp1, fun r t' hr => ?_⟩
        have h1 := H5V.Props.C03.C03_tb_sim_step (.comment c) l l s t hst
        have hr' : processToken (.comment c) l t = .ok (r, t') := hr
        rw [hr'] at h1
        cases hs : processToken (.comment c) l s with
        | error e => rw [hs] at h1; exact h1.elim
        | ok v =>
          obtain ⟨r0, s'⟩ := v
          rw [hs] at h1
          exact respectsP_explode rest s' t' h1.2.2 (he2 r0 s' hs) (hp2 r0 s' hs)
      | nullChar =>
        refine ⟨protoOk_sim hst hp1, fun r t' hr => ?_⟩
        have h1 := H5V.Props.C03.C03_tb_sim_step .nullChar l l s t hst
        have hr' : processToken .nullChar l t = .ok (r, t') := hr
        rw [hr'] at h1
        cases hs : processToken .nullChar l s with
        | error e => rw [hs] at h1; exact h1.elim
        | ok v =>
          obtain ⟨r0, s'⟩ := v
          rw [hs] at h1
          exact respectsP_explode rest s' t' h1.2.2 (he2 r0 s' hs) (hp2 r0 s' hs)
      | eof =>
        refine ⟨protoOk_sim hst hp1, fun r t' hr => ?_⟩
        have h1 := H5V.Props.C03.C03_tb_sim_step .eof l l s t hst
        have hr' : processToken .eof l t = .ok (r, t') := hr
        rw [hr'] at h1
        cases hs : processToken .eof l s with
        | error e => rw [hs] at h1; exact h1.elim
        | ok v =>
          obtain ⟨r0, s'⟩ := v
          rw [hs] at h1
          exact respectsP_explode rest s' t' h1.2.2 (he2 r0 s' hs) (hp2 r0 s' hs)
      | parseError m =>
        refine ⟨protoOk_sim hst hp1, fun r t' hr => ?_⟩
        have h1 := H5V.Props.C03.C03_tb_sim_step (.parseError m) l l s t hst
        have hr' : processToken (.parseError m) l t = .ok (r, t') := hr
        rw [hr'] at h1
        cases hs : processToken (.parseError m) l s with
        | error e => rw [hs] at h1; exact h1.elim
        | ok v =>
          obtain ⟨r0, s'⟩ := v
          rw [hs] at h1
          exact respectsP_explode rest s' t' h1.2.2 (he2 r0 s' hs) (hp2 r0 s' hs)

/-! ### `RespectsP` from facts -/

/-- what stays true of the options and of the "initial" insertion mode along a run -/
def OptInv (opts : Opts) (s : State) : Prop := s.opts = opts ∧ (s.mode = .initial → s.quirksMode = opts.quirksMode)

theorem optInv_step {opts : Opts} {s s' : State} {t : TokToken} {l : Nat} {r : SinkResult}
    (hti : H5V.Lemmas.TBSafe.TI s) (h : OptInv opts s) (hr : (processToken t l).run s = .ok (r, s')) :
    OptInv opts s' := by
  refine ⟨(processToken_opts t l s s' r hr).trans h.1, fun hm => ?_⟩
  obtain ⟨h1, h2⟩ := processToken_initial t l s s' r hti hr hm
  rw [h2]; exact h.2 h1

theorem respectsP_of_facts {opts : Opts} (hq : opts.quirksMode = .noQuirks) (hdd : opts.dropDoctype = false) :
    ∀ (ts : List (TokToken × Nat)) (s : State), H5V.Lemmas.TBSafe.TI s → OptInv opts s → TextAlong s ts →
    (∀ p ∈ ts, ∀ t, p.1 = .tag t → ∀ a ∈ t.attrs, a.name.loc ≠ "shadowrootmode".toList) → RespectsP s ts
  | [], _, _, _, _, _ => trivial
  | (t, l) :: rest, s, hti, hi, ht, hs => by
    refine ⟨⟨fun tg e => hs (t, l) (by simp) tg e, ht.1, fun d e => ⟨?_, fun hm => ?_⟩⟩,
      fun r s' hr => respectsP_of_facts hq hdd rest s'
        ((@H5V.Props.C04TB.C04_tb_no_panic_token H5V.Props.C04TB.allowAll trivial s t l hti
          (fun _ => Or.inl trivial)).1 r s' hr)
        (optInv_step hti hi hr) (ht.2 r s' hr) (fun p hp => hs p (by simp [hp]))⟩
    · rw [hi.1]; exact hdd
    · rw [hi.2 hm]; exact hq

end H5V.Lemmas.ParseSpec
