import H5V.Props.C02ParseTotal
import H5V.Props.C04TB2
import H5V.Props.C04Term
/-!
Totality of the joint HTML parse (tokenizer model with the tree-builder model as its sink), part 1: the loop of
`Parser::process` (`Joint.processChunk`: `Tokenizer::feed`, resumed after every Script / EncodingIndicator pause).

* `tok_safe`: one token, from a tree-builder state satisfying the C04 invariant `TI`, in keeping with the "text"
  protocol, fails at most `BenignStrict`ly (no fuel allowance): `sat_processTokens2` on a one-token list.
* `absorb_safe`: the delivery of the tokens of one tokenizer step (`absorb`) succeeds or fails with `JErr`.
* `step_dec_pause`: a PAUSING step of the joint loop decreases the tokenizer's termination measure as well (seen
  through a never-pausing policy it is a `Continue` step: `joint_step_star`).
* `loop_total`: by induction on the measure, the joint loop ends, for every sufficiently large `loop_until_done`
  budget, with the input drained and the invariant `SI`, or with a `JErr` failure.
-/
namespace H5V.Lemmas.JointTotal
open H5V.Model.HtmlTB
open H5V.Lemmas.TBSafe (TI Benign Respects okTextTok)
open H5V.Lemmas.TBFuel
open H5V.Model.HtmlTB.Joint (JState absorb polOf conv convTag RunRes toSinkRes)
open H5V.Lemmas.JointChunk
open H5V.Lemmas.ParseSpec
open H5V.Props.C03 (GoodS)
open H5V.Props.C04TB (allSpec sat_iff)
open H5V.Props.C04TB2 (BenignStrict allowNone)
open H5V.Model.HtmlTok (Mach Out step clr mu fuelFor feedBom TInv Pol NoPause)
abbrev TStr := H5V.Model.HtmlTok.Str

/-- the tokenizer's `assert!` that anything but a tag is answered `Continue` -/
def assertMsg : String := "assert@tokenizer/mod.rs:257: process_token_and_continue"

/-- the failures that are not excluded: a failure of a tree-mutating sink op (`Dom.apply` answered `.error`), the two
`<meta>`-prescan messages (`BenignStrict`), and the tokenizer's `process_token_and_continue` assertion -/
def JErr (e : String) : Prop := BenignStrict e ∨ e = assertMsg

/-! ### one token -/

theorem tok_safe {s : State} {tt : TokToken} {l : Nat} (ht : TI s) (hp : s.mode = .text → okTextTok tt = true)
    {e : String} (h : (processToken tt l).run s = .error e) : BenignStrict e := by
  have hs := @sat_processTokens2 allowNone (@allSpec allowNone) allDec [(tt, l)] [] s ht
    (Or.inr ⟨hp, fun _ _ _ => trivial⟩)
  refine ((@sat_iff allowNone _ _ _ _).mp hs).2 e ?_
  show (processToken tt l >>= fun r => processTokens [] (if r == .continue_ then [] else r :: [])) s = .error e
  rw [H5V.Lemmas.TBSplit.bind_apply]
  have h' : processToken tt l s = .error e := h
  rw [h']

theorem tok_ti {s s' : State} {tt : TokToken} {l : Nat} {r : SinkResult} (ht : TI s)
    (h : (processToken tt l).run s = .ok (r, s')) : TI s' :=
  (@H5V.Props.C04TB.C04_tb_no_panic_token H5V.Props.C04TB.allowAll trivial s tt l ht (fun _ => Or.inl trivial)).1 r s' h

/-! ### the delivery of a list of tokens -/

/-- `okTextTok` of a converted token that is allowed in "text" -/
theorem okText_allowed {tok : TTk} {t : TokToken} (h : AllowedInText tok ∨ tok = .eof) (hc : conv tok = some t) :
    okTextTok t = true := by
  cases tok with
  | chars x => cases hc; rfl
  | error m => cases hc; rfl
  | pause b => cases hc
  | tag tg =>
    cases hc
    show (convTag tg).kind == .endTag
    have : (convTag tg).kind = .endTag := by
      rcases h with h | h
      · exact h
      · cases h
    rw [this]; rfl
  | eof => cases hc; rfl
  | doctype d => rcases h with h | h <;> cases h
  | comment c => rcases h with h | h <;> cases h
  | nullChar => rcases h with h | h <;> cases h

/-- non-tag tokens: from a state that is not in "text", or tokens allowed there -/
theorem absorb_plain_safe : ∀ (toks : List (TTk × Nat)) (j : JState), TI j.tb → GoodS j.tb →
    (∀ p ∈ toks, isTagTok p.1 = false) →
    (j.tb.mode ≠ .text ∨ ∀ p ∈ toks, AllowedInText p.1 ∨ p.1 = .eof) →
    (∃ j', absorb toks j = .ok j') ∨ (∃ e, absorb toks j = .error e ∧ JErr e)
  | [], j, _, _, _, _ => Or.inl ⟨j, rfl⟩
  | (t, line) :: rest, j, hti, hg, hnt, hH => by
    rw [absorb_cons]
    cases hc : conv t with
    | none =>
      exact absorb_plain_safe rest j hti hg (fun p hp => hnt p (by simp [hp]))
        (hH.imp id (fun h2 p hp => h2 p (by simp [hp])))
    | some tt =>
      simp only
      cases hp : (processToken tt line).run j.tb with
      | error e =>
        refine Or.inr ⟨e, rfl, Or.inl (tok_safe hti ?_ hp)⟩
        intro hm
        rcases hH with h1 | h2
        · exact absurd hm h1
        · exact okText_allowed (h2 (t, line) (by simp)) hc
      | ok v =>
        obtain ⟨r, tb⟩ := v
        simp only
        by_cases hcnd : (!isTagT tt && r != .continue_) = true
        · rw [if_pos hcnd]
          exact Or.inr ⟨_, rfl, Or.inr rfl⟩
        · rw [if_neg hcnd]
          have hti1 := tok_ti hti hp
          have hg1 := H5V.Props.C03.C03_tb_good_preserved tt line j.tb hg hp
          have hstay : j.tb.mode ≠ .text → tb.mode ≠ .text := by
            intro h1 h2
            obtain ⟨tg, k, e, _⟩ := processToken_enters_text tt line j.tb tb r hti hp h1 h2
            exact conv_not_tag (hnt (t, line) (by simp)) hc tg e
          exact absorb_plain_safe rest _ hti1 hg1 (fun p hp => hnt p (by simp [hp]))
            (by
              rcases hH with h1 | h2
              · exact Or.inl (hstay h1)
              · exact Or.inr (fun p hp => h2 p (by simp [hp])))

/-- a single tag -/
theorem absorb_tag_safe (t : H5V.Model.HtmlTok.Tag) (l : Nat) (j : JState) (hti : TI j.tb)
    (hH : j.tb.mode = .text → t.kind = .endTag) :
    (∃ j', absorb [(H5V.Model.HtmlTok.Token.tag t, l)] j = .ok j') ∨
      (∃ e, absorb [(H5V.Model.HtmlTok.Token.tag t, l)] j = .error e ∧ JErr e) := by
  rw [absorb_cons]
  simp only [conv]
  cases hp : (processToken (.tag (convTag t)) l).run j.tb with
  | error e =>
    refine Or.inr ⟨e, rfl, Or.inl (tok_safe hti ?_ hp)⟩
    intro hm
    show (convTag t).kind == .endTag
    have : (convTag t).kind = .endTag := hH hm
    rw [this]; rfl
  | ok v =>
    obtain ⟨r, tb⟩ := v
    simp only
    have hcnd : ¬ (!isTagT (.tag (convTag t)) && r != .continue_) = true := by simp [isTagT]
    rw [if_neg hcnd]
    exact Or.inl ⟨_, rfl⟩

theorem absorb_append_err {a b : List (TTk × Nat)} {j : JState} {e : String} (h : absorb a j = .error e) :
    absorb (a ++ b) j = .error e := by
  rw [absorb_append, h]

theorem absorb_append_ok' {a b : List (TTk × Nat)} {j ja : JState} (h : absorb a j = .ok ja) :
    absorb (a ++ b) j = absorb b ja := by
  rw [absorb_append, h]

/-! ### one step of the joint loop -/

/-- the invariant at the step boundaries of the joint loop -/
structure CI (m : Mach) (j : JState) : Prop where
  out : m.out = []
  cr : CrInv m
  text : j.tb.mode = .text → TextSt m
  ti : TI j.tb
  good : GoodS j.tb

/-- **the tokens of a step are delivered, or the delivery fails with `JErr`** -/
theorem absorb_safe {o : TOpts} {m : Mach} {inp : TStr} {j : JState} (hI : CI m j) {m1 : Mach} {i1 : TStr}
    (hs : (step o (polOf j) m inp).pair? = some (m1, i1)) :
    (∃ j1, absorb m1.out.reverse j = .ok j1 ∧ CI (clr m1) j1) ∨ (∃ e, absorb m1.out.reverse j = .error e ∧ JErr e) := by
  have hm : m.out = [] := hI.out
  -- success gives the invariant back
  have hok : ∀ j1, absorb m1.out.reverse j = .ok j1 → CI (clr m1) j1 := by
    intro j1 ha
    obtain ⟨_, h2, h3, h4, _, h6⟩ := joint_step_text' hm hs ha hI.cr hI.text hI.ti hI.good
    exact ⟨rfl, h6, h2, h3, h4⟩
  refine (fun h : (∃ j1, absorb m1.out.reverse j = .ok j1) ∨ (∃ e, absorb m1.out.reverse j = .error e ∧ JErr e) =>
    h.elim (fun ⟨j1, h1⟩ => Or.inl ⟨j1, h1, hok j1 h1⟩) Or.inr) ?_
  obtain ⟨new, hnew, hone⟩ := step_one_tag o (polOf j) m inp m1 i1 hs
  rw [hm, List.append_nil] at hnew
  have hallowed : j.tb.mode = .text → ∀ p ∈ new, AllowedInText p.1 := by
    intro hmode
    obtain ⟨new', hnew', h1, _⟩ := step_textSt o (polOf j) m inp (hI.text hmode) m1 i1 hs
    rw [hm, List.append_nil] at hnew'
    have : new' = new := by rw [← hnew', hnew]
    subst this
    exact h1
  by_cases htag : ∀ p ∈ new, isTagTok p.1 = false
  · have hH : j.tb.mode ≠ .text ∨ ∀ p ∈ m1.out.reverse, AllowedInText p.1 ∨ p.1 = .eof := by
      by_cases hmode : j.tb.mode = .text
      · exact Or.inr (fun p hp => Or.inl (hallowed hmode p (by rw [← hnew]; exact List.mem_reverse.mp hp)))
      · exact Or.inl hmode
    exact absorb_plain_safe _ j hI.ti hI.good
      (fun p hp => htag p (by rw [← hnew]; exact List.mem_reverse.mp hp)) hH
  · have hex : ∃ a t l b, new = a ++ (H5V.Model.HtmlTok.Token.tag t, l) :: b := by
      obtain ⟨p, hp'⟩ := Classical.not_forall.mp htag
      obtain ⟨hp, hpt⟩ := Classical.not_imp.mp hp'
      obtain ⟨a, b, hab⟩ := List.append_of_mem hp
      obtain ⟨tok, l⟩ := p
      cases tok <;> simp [isTagTok] at hpt
      exact ⟨a, _, l, b, hab⟩
    obtain ⟨a, t, l, b, hab⟩ := hex
    obtain ⟨hpa, hnb⟩ := hone a b t l hab
    have hrev : m1.out.reverse = b.reverse ++ ([(H5V.Model.HtmlTok.Token.tag t, l)] ++ a.reverse) := by
      rw [hnew, hab]; simp
    rw [hrev]
    have hH : j.tb.mode ≠ .text ∨ ∀ p ∈ b.reverse, AllowedInText p.1 ∨ p.1 = .eof := by
      by_cases hmode : j.tb.mode = .text
      · exact Or.inr (fun p hp => Or.inl (hallowed hmode p (by rw [hab]; simp [List.mem_reverse.mp hp])))
      · exact Or.inl hmode
    rcases absorb_plain_safe _ j hI.ti hI.good (fun p hp => hnb p (List.mem_reverse.mp hp)) hH with ⟨jb, hjb⟩ | ⟨e, he, hje⟩
    · rw [absorb_append_ok' hjb]
      obtain ⟨hb1, hb2⟩ := absorb_plain _ j jb hjb hI.ti hI.good (fun p hp => hnb p (List.mem_reverse.mp hp))
        hH
      obtain ⟨htib, hgb⟩ := (absorb_tbRuns _ _ _ hjb).inv hI.ti hI.good
      have htk : jb.tb.mode = .text → t.kind = .endTag := by
        intro hmb
        have hmode : j.tb.mode = .text := by
          by_cases h : j.tb.mode = .text
          · exact h
          · exact absurd hmb (hb2 h)
        exact hallowed hmode (H5V.Model.HtmlTok.Token.tag t, l) (by rw [hab]; simp)
      rcases absorb_tag_safe t l jb htib htk with ⟨jt, hjt⟩ | ⟨e, he, hje⟩
      · rw [absorb_append_ok' hjt]
        exact Or.inl ⟨jt, (absorb_pauses a.reverse jt (fun p hp => hpa p (List.mem_reverse.mp hp))).1⟩
      · exact Or.inr ⟨e, absorb_append_err he, hje⟩
    · exact Or.inr ⟨e, absorb_append_err he, hje⟩

end H5V.Lemmas.JointTotal
