import H5V.Props.C02ParseTotal
import H5V.Props.C04TB2
import H5V.Props.C04Term
import H5V.Lemmas.HtmlJointTotalAns
/-!
Totality of the joint HTML parse (tokenizer model with the tree-builder model as its sink), part 1: the loop of
`Parser::process` (`Joint.processChunk`: `Tokenizer::feed`, resumed after every Script / EncodingIndicator pause).

* `tok_safe`: one token, from a tree-builder state satisfying the C04 invariant `TI`, in keeping with the "text"
  protocol, fails at most `BenignStrict`ly (no fuel allowance): `sat_processTokens2` on a one-token list.
* `absorb_safe`: the delivery of the tokens of one tokenizer step (`absorb`) succeeds or fails with `JErr`; the
  tokenizer's `process_token_and_continue` assertion never fires (`A.processToken_nontag_continue`).
* `step_dec_pause`: a PAUSING step of the joint loop decreases the tokenizer's termination measure as well (seen
  through a never-pausing policy it is a `Continue` step: `joint_step_star`).
* `loop_total`: by induction on the measure, the joint loop ends, for every sufficiently large `loop_until_done`
  budget, with the input drained and the invariant `SI`, or with a `JErr` failure.
-/
namespace H5V.Lemmas.JointTotal
open H5V.Model.HtmlTB
open H5V.Lemmas.TBSafe (TI Benign Respects okTextTok)
open H5V.Lemmas.TBFuel
open H5V.Model.HtmlTB.Joint (JState absorb polOf conv convTag RunRes toSinkRes)
open H5V.Lemmas.JointChunk
open H5V.Lemmas.ParseSpec
open H5V.Props.C03 (GoodS)
open H5V.Props.C04TB (allSpec sat_iff)
open H5V.Props.C04TB2 (BenignStrict allowNone)
open H5V.Model.HtmlTok (Mach Out step clr mu fuelFor feedBom TInv Pol NoPause)
abbrev TStr := H5V.Model.HtmlTok.Str

/-- the failures that are not excluded: a failure of a tree-mutating sink op (`Dom.apply` answered `.error`) and the two
`<meta>`-prescan messages (`BenignStrict`: the C04 judgement without the fuel and the Text-mode allowances) -/
def JErr (e : String) : Prop := BenignStrict e

/-! ### one token -/

theorem tok_safe {s : State} {tt : TokToken} {l : Nat} (ht : TI s) (hp : s.mode = .text → okTextTok tt = true)
    {e : String} (h : (processToken tt l).run s = .error e) : BenignStrict e := by
  have hs := @sat_processTokens2 allowNone (@allSpec allowNone) allDec [(tt, l)] [] s ht
    (Or.inr ⟨hp, fun _ _ _ => trivial⟩)
  refine ((@sat_iff allowNone _ _ _ _).mp hs).2 e ?_
  show (processToken tt l >>= fun r => processTokens [] (if r == .continue_ then [] else r :: [])) s = .error e
  rw [H5V.Lemmas.TBSplit.bind_apply]
  have h' : processToken tt l s = .error e := h
  rw [h']

theorem tok_ti {s s' : State} {tt : TokToken} {l : Nat} {r : SinkResult} (ht : TI s)
    (h : (processToken tt l).run s = .ok (r, s')) : TI s' :=
  (@H5V.Props.C04TB.C04_tb_no_panic_token H5V.Props.C04TB.allowAll trivial s tt l ht (fun _ => Or.inl trivial)).1 r s' h

/-! ### the delivery of a list of tokens -/

/-- `okTextTok` of a converted token that is allowed in "text" -/
theorem okText_allowed {tok : TTk} {t : TokToken} (h : AllowedInText tok ∨ tok = .eof) (hc : conv tok = some t) :
    okTextTok t = true := by
  cases tok with
  | chars x => cases hc; rfl
  | error m => cases hc; rfl
  | pause b => cases hc
  | tag tg =>
    cases hc
    show (convTag tg).kind == .endTag
    have : (convTag tg).kind = .endTag := by
      rcases h with h | h
      · exact h
      · cases h
    rw [this]; rfl
  | eof => cases hc; rfl
  | doctype d => rcases h with h | h <;> cases h
  | comment c => rcases h with h | h <;> cases h
  | nullChar => rcases h with h | h <;> cases h

/-- non-tag tokens: from a state that is not in "text", or tokens allowed there -/
theorem absorb_plain_safe : ∀ (toks : List (TTk × Nat)) (j : JState), TI j.tb → GoodS j.tb →
    (∀ p ∈ toks, isTagTok p.1 = false) →
    (j.tb.mode ≠ .text ∨ ∀ p ∈ toks, AllowedInText p.1 ∨ p.1 = .eof) →
    (∃ j', absorb toks j = .ok j') ∨ (∃ e, absorb toks j = .error e ∧ JErr e)
  | [], j, _, _, _, _ => Or.inl ⟨j, rfl⟩
  | (t, line) :: rest, j, hti, hg, hnt, hH => by
    rw [absorb_cons]
    cases hc : conv t with
    | none =>
      exact absorb_plain_safe rest j hti hg (fun p hp => hnt p (by simp [hp]))
        (hH.imp id (fun h2 p hp => h2 p (by simp [hp])))
    | some tt =>
      simp only
      cases hp : (processToken tt line).run j.tb with
      | error e =>
        refine Or.inr ⟨e, rfl, tok_safe hti ?_ hp⟩
        intro hm
        rcases hH with h1 | h2
        · exact absurd hm h1
        · exact okText_allowed (h2 (t, line) (by simp)) hc
      | ok v =>
        obtain ⟨r, tb⟩ := v
        simp only
        by_cases hcnd : (!isTagT tt && r != .continue_) = true
        · -- the tokenizer's `process_token_and_continue` assertion: anything but a tag is answered `Continue`
          exfalso
          simp only [Bool.and_eq_true] at hcnd
          have hr : r = .continue_ := A.processToken_nontag_continue tt line j.tb tb r hp
            (fun tag e => by subst e; simp [isTagT] at hcnd)
          rw [hr] at hcnd
          simp at hcnd
        · rw [if_neg hcnd]
          have hti1 := tok_ti hti hp
          have hg1 := H5V.Props.C03.C03_tb_good_preserved tt line j.tb hg hp
          have hstay : j.tb.mode ≠ .text → tb.mode ≠ .text := by
            intro h1 h2
            obtain ⟨tg, k, e, _⟩ := processToken_enters_text tt line j.tb tb r hti hp h1 h2
            exact conv_not_tag (hnt (t, line) (by simp)) hc tg e
          exact absorb_plain_safe rest _ hti1 hg1 (fun p hp => hnt p (by simp [hp]))
            (by
              rcases hH with h1 | h2
              · exact Or.inl (hstay h1)
              · exact Or.inr (fun p hp => h2 p (by simp [hp])))

/-- a single tag -/
theorem absorb_tag_safe (t : H5V.Model.HtmlTok.Tag) (l : Nat) (j : JState) (hti : TI j.tb)
    (hH : j.tb.mode = .text → t.kind = .endTag) :
    (∃ j', absorb [(H5V.Model.HtmlTok.Token.tag t, l)] j = .ok j') ∨
      (∃ e, absorb [(H5V.Model.HtmlTok.Token.tag t, l)] j = .error e ∧ JErr e) := by
  rw [absorb_cons]
  simp only [conv]
  cases hp : (processToken (.tag (convTag t)) l).run j.tb with
  | error e =>
    refine Or.inr ⟨e, rfl, tok_safe hti ?_ hp⟩
    intro hm
    show (convTag t).kind == .endTag
    have : (convTag t).kind = .endTag := hH hm
    rw [this]; rfl
  | ok v =>
    obtain ⟨r, tb⟩ := v
    simp only
    have hcnd : ¬ (!isTagT (.tag (convTag t)) && r != .continue_) = true := by simp [isTagT]
    rw [if_neg hcnd]
    exact Or.inl ⟨_, rfl⟩

theorem absorb_append_err {a b : List (TTk × Nat)} {j : JState} {e : String} (h : absorb a j = .error e) :
    absorb (a ++ b) j = .error e := by
  rw [absorb_append, h]

theorem absorb_append_ok' {a b : List (TTk × Nat)} {j ja : JState} (h : absorb a j = .ok ja) :
    absorb (a ++ b) j = absorb b ja := by
  rw [absorb_append, h]

/-! ### one step of the joint loop -/

/-- the invariant at the step boundaries of the joint loop -/
structure CI (m : Mach) (j : JState) : Prop where
  out : m.out = []
  cr : CrInv m
  text : j.tb.mode = .text → TextSt m
  ti : TI j.tb
  good : GoodS j.tb

/-- **the tokens of a step are delivered, or the delivery fails with `JErr`** -/
theorem absorb_safe {o : TOpts} {m : Mach} {inp : TStr} {j : JState} (hI : CI m j) {m1 : Mach} {i1 : TStr}
    (hs : (step o (polOf j) m inp).pair? = some (m1, i1)) :
    (∃ j1, absorb m1.out.reverse j = .ok j1 ∧ CI (clr m1) j1) ∨ (∃ e, absorb m1.out.reverse j = .error e ∧ JErr e) := by
  have hm : m.out = [] := hI.out
  -- success gives the invariant back
  have hok : ∀ j1, absorb m1.out.reverse j = .ok j1 → CI (clr m1) j1 := by
    intro j1 ha
    obtain ⟨_, h2, h3, h4, _, h6⟩ := joint_step_text' hm hs ha hI.cr hI.text hI.ti hI.good
    exact ⟨rfl, h6, h2, h3, h4⟩
  refine (fun h : (∃ j1, absorb m1.out.reverse j = .ok j1) ∨ (∃ e, absorb m1.out.reverse j = .error e ∧ JErr e) =>
    h.elim (fun ⟨j1, h1⟩ => Or.inl ⟨j1, h1, hok j1 h1⟩) Or.inr) ?_
  obtain ⟨new, hnew, hone⟩ := step_one_tag o (polOf j) m inp m1 i1 hs
  rw [hm, List.append_nil] at hnew
  have hallowed : j.tb.mode = .text → ∀ p ∈ new, AllowedInText p.1 := by
    intro hmode
    obtain ⟨new', hnew', h1, _⟩ := step_textSt o (polOf j) m inp (hI.text hmode) m1 i1 hs
    rw [hm, List.append_nil] at hnew'
    have : new' = new := by rw [← hnew', hnew]
    subst this
    exact h1
  by_cases htag : ∀ p ∈ new, isTagTok p.1 = false
  · have hH : j.tb.mode ≠ .text ∨ ∀ p ∈ m1.out.reverse, AllowedInText p.1 ∨ p.1 = .eof := by
      by_cases hmode : j.tb.mode = .text
      · exact Or.inr (fun p hp => Or.inl (hallowed hmode p (by rw [← hnew]; exact List.mem_reverse.mp hp)))
      · exact Or.inl hmode
    exact absorb_plain_safe _ j hI.ti hI.good
      (fun p hp => htag p (by rw [← hnew]; exact List.mem_reverse.mp hp)) hH
  · have hex : ∃ a t l b, new = a ++ (H5V.Model.HtmlTok.Token.tag t, l) :: b := by
      obtain ⟨p, hp'⟩ := Classical.not_forall.mp htag
      obtain ⟨hp, hpt⟩ := Classical.not_imp.mp hp'
      obtain ⟨a, b, hab⟩ := List.append_of_mem hp
      obtain ⟨tok, l⟩ := p
      cases tok <;> simp [isTagTok] at hpt
      exact ⟨a, _, l, b, hab⟩
    obtain ⟨a, t, l, b, hab⟩ := hex
    obtain ⟨hpa, hnb⟩ := hone a b t l hab
    have hrev : m1.out.reverse = b.reverse ++ ([(H5V.Model.HtmlTok.Token.tag t, l)] ++ a.reverse) := by
      rw [hnew, hab]; simp
    rw [hrev]
    have hH : j.tb.mode ≠ .text ∨ ∀ p ∈ b.reverse, AllowedInText p.1 ∨ p.1 = .eof := by
      by_cases hmode : j.tb.mode = .text
      · exact Or.inr (fun p hp => Or.inl (hallowed hmode p (by rw [hab]; simp [List.mem_reverse.mp hp])))
      · exact Or.inl hmode
    rcases absorb_plain_safe _ j hI.ti hI.good (fun p hp => hnb p (List.mem_reverse.mp hp)) hH with ⟨jb, hjb⟩ | ⟨e, he, hje⟩
    · rw [absorb_append_ok' hjb]
      obtain ⟨hb1, hb2⟩ := absorb_plain _ j jb hjb hI.ti hI.good (fun p hp => hnb p (List.mem_reverse.mp hp))
        hH
      obtain ⟨htib, hgb⟩ := (absorb_tbRuns _ _ _ hjb).inv hI.ti hI.good
      have htk : jb.tb.mode = .text → t.kind = .endTag := by
        intro hmb
        have hmode : j.tb.mode = .text := by
          by_cases h : j.tb.mode = .text
          · exact h
          · exact absurd hmb (hb2 h)
        exact hallowed hmode (H5V.Model.HtmlTok.Token.tag t, l) (by rw [hab]; simp)
      rcases absorb_tag_safe t l jb htib htk with ⟨jt, hjt⟩ | ⟨e, he, hje⟩
      · rw [absorb_append_ok' hjt]
        exact Or.inl ⟨jt, (absorb_pauses a.reverse jt (fun p hp => hpa p (List.mem_reverse.mp hp))).1⟩
      · exact Or.inr ⟨e, absorb_append_err he, hje⟩
    · exact Or.inr ⟨e, absorb_append_err he, hje⟩

/-! ### a pausing step decreases the measure as well -/

/-- the tree builder in joint state `j` as a sink that never pauses -/
def npPol (j : JState) : Pol :=
  { onTag := fun out tag => np ((polOf j).onTag out tag)
    cdataOk := (polOf j).cdataOk }

theorem noPause_npPol (j : JState) : NoPause (npPol j) := by
  intro out tag
  show np _ ≠ _ ∧ np _ ≠ _
  cases (polOf j).onTag out tag <;> simp [np]

theorem agrees_npPol (j : JState) : Agrees (npPol j) j (fun _ => True) where
  suf := fun _ _ _ => trivial
  tag := fun X tag _ _ jx hjx => by
    show np ((polOf j).onTag X tag) = _
    rw [polOf_onTag, hjx]
  cdata := fun X _ jx hjx => by
    show (polOf j).cdataOk X = _
    rw [polOf_cdataOk, hjx]

theorem step_dec_script {o : TOpts} {m : Mach} {inp : TStr} {j j1 : JState} {m1 : Mach} {i1 : TStr} (hi : TInv m)
    (hm : m.out = []) (hs : step o (polOf j) m inp = .script m1 i1) (ha : absorb m1.out.reverse j = .ok j1) :
    mu (clr m1) i1 < mu m inp := by
  have h := (joint_step_star (pol' := npPol j) (noPause_npPol j) (j0 := j) (H := []) hm rfl (m1 := m1) (i1 := i1)
    (by rw [hs]; rfl) ha).2.2 _ (agrees_npPol j) trivial
  rw [sh_nil_of hm, hs] at h
  have h2 := H5V.Model.HtmlTok.step_dec o (npPol j) m inp hi _ _ h
  exact h2

theorem step_dec_indicator {o : TOpts} {m : Mach} {inp : TStr} {j j1 : JState} {m1 : Mach} {i1 : TStr} (hi : TInv m)
    (hm : m.out = []) (hs : step o (polOf j) m inp = .indicator m1 i1) (ha : absorb m1.out.reverse j = .ok j1) :
    mu (clr m1) i1 < mu m inp := by
  have h := (joint_step_star (pol' := npPol j) (noPause_npPol j) (j0 := j) (H := []) hm rfl (m1 := m1) (i1 := i1)
    (by rw [hs]; rfl) ha).2.2 _ (agrees_npPol j) trivial
  rw [sh_nil_of hm, hs] at h
  have h2 := H5V.Model.HtmlTok.step_dec o (npPol j) m inp hi _ _ h
  exact h2

/-! ### the loop of `Parser::process` -/

theorem quiet_clr {m : Mach} (h : H5V.Model.HtmlTok.Quiet m) : H5V.Model.HtmlTok.Quiet (clr m) :=
  ⟨H5V.Model.HtmlTok.tinv_clr.mpr h.tinv, h.nrec, h.sp⟩

/-- how a budgeted computation ends, uniformly in the budget `N ≥ N0`: input drained, tokenizer quiet, invariants —
or a `JErr` failure -/
def ResU (r : Nat → Except String (Mach × Chars × JState)) (N0 : Nat) : Prop :=
  (∃ m' j', JInv m' ∧ H5V.Model.HtmlTok.Quiet m' ∧ CI m' j' ∧ ∀ N, N0 ≤ N → r N = .ok (m', [], j')) ∨
  (∃ e, JErr e ∧ ∀ N, N0 ≤ N → r N = .error e)

theorem resU_shift {r r' : Nat → Except String (Mach × Chars × JState)} {N0 : Nat} (h : ∀ N, r (N + 1) = r' N)
    (hr : ResU r' N0) : ResU r (N0 + 1) := by
  rcases hr with ⟨m', j', a, b, c, hh⟩ | ⟨e, he, hh⟩
  · refine Or.inl ⟨m', j', a, b, c, fun N hN => ?_⟩
    obtain ⟨K, rfl⟩ : ∃ K, N = K + 1 := ⟨N - 1, by omega⟩
    rw [h]; exact hh K (by omega)
  · refine Or.inr ⟨e, he, fun N hN => ?_⟩
    obtain ⟨K, rfl⟩ : ∃ K, N = K + 1 := ⟨N - 1, by omega⟩
    rw [h]; exact hh K (by omega)

theorem isEmpty_false' {c : Chars} (hc : c ≠ []) : c.isEmpty = false := by
  cases c with
  | nil => exact (hc rfl).elim
  | cons _ _ => rfl

theorem pc_succ_ne (o : TOpts) (N : Nat) {m : Mach} (hj : JInv m) {i1 : Chars} (hne : i1 ≠ []) (j : JState) :
    jprocessChunk o (N + 1) m i1 [] j = afterRun o N (jrun o (fuelFor m i1) m i1 j) := by
  rw [processChunk_succ, List.append_nil]
  simp only [isEmpty_false' hne, Bool.false_eq_true, if_false, feedBom_of_inv hj]

theorem pc_succ_nil (o : TOpts) (N : Nat) (m : Mach) (j : JState) :
    jprocessChunk o (N + 1) m [] [] j = .ok (m, [], j) := by
  rw [processChunk_succ]
  rfl

/-- **the joint loop ends**, in the same way for every sufficiently large `loop_until_done` budget -/
theorem loop_total (o : TOpts) : ∀ (n : Nat) (m : Mach) (inp : Chars) (j : JState), mu m inp < n → JInv m → CI m j →
    ∀ fuel, mu m inp < fuel → ∃ N0, ResU (fun N => afterRun o N (jrun o fuel m inp j)) N0
  | 0, _, _, _, h, _, _ => by omega
  | n + 1, m, inp, j, hn, hj, hI => by
    intro fuel hf
    obtain ⟨f, rfl⟩ : ∃ f, fuel = f + 1 := ⟨fuel - 1, by omega⟩
    rw [run_succ]
    cases hs : step o (polOf j) m inp with
    | panic e => exact absurd hs ((H5V.Model.HtmlTok.step_safe o (polOf j) m inp hj.tinv.linv.safe).1 e)
    | cont m1 i1 =>
      have hp : (step o (polOf j) m inp).pair? = some (m1, i1) := by rw [hs]; rfl
      rcases absorb_safe hI hp with ⟨j1, ha, hI1⟩ | ⟨e, ha, he⟩
      · have hdec := H5V.Model.HtmlTok.step_dec o _ m inp hj.tinv m1 i1 hs
        simp only [deliver, ha]
        exact loop_total o n (clr m1) i1 j1 (by rw [H5V.Model.HtmlTok.mu_clr]; omega) (step_jinv hj hp) hI1 f
          (by rw [H5V.Model.HtmlTok.mu_clr]; omega)
      · simp only [deliver, ha, afterRun]
        exact ⟨0, Or.inr ⟨e, he, fun _ _ => rfl⟩⟩
    | suspend m1 i1 =>
      have hp : (step o (polOf j) m inp).pair? = some (m1, i1) := by rw [hs]; rfl
      have hnil := H5V.Model.HtmlTok.step_suspend_nil o _ m inp hj.tinv m1 i1 hs
      subst hnil
      have hq := H5V.Model.HtmlTok.step_stop_quiet o _ m inp hj.tinv m1 [] hp (by rw [hs]; simp)
      rcases absorb_safe hI hp with ⟨j1, ha, hI1⟩ | ⟨e, ha, he⟩
      · simp only [deliver, ha, afterRun]
        exact ⟨0, Or.inl ⟨clr m1, j1, step_jinv hj hp, quiet_clr hq, hI1, fun _ _ => rfl⟩⟩
      · simp only [deliver, ha, afterRun]
        exact ⟨0, Or.inr ⟨e, he, fun _ _ => rfl⟩⟩
    | script m1 i1 =>
      have hp : (step o (polOf j) m inp).pair? = some (m1, i1) := by rw [hs]; rfl
      have hq := H5V.Model.HtmlTok.step_stop_quiet o _ m inp hj.tinv m1 i1 hp (by rw [hs]; simp)
      have hj1 := step_jinv hj hp
      rcases absorb_safe hI hp with ⟨j1, ha, hI1⟩ | ⟨e, ha, he⟩
      · simp only [deliver, ha, afterRun]
        by_cases hne : i1 = []
        · subst hne
          refine ⟨1, Or.inl ⟨clr m1, j1, hj1, quiet_clr hq, hI1, fun N hN => ?_⟩⟩
          obtain ⟨N', rfl⟩ : ∃ N', N = N' + 1 := ⟨N - 1, by omega⟩
          exact pc_succ_nil o N' _ _
        · have hdec := step_dec_script hj.tinv hI.out hs ha
          obtain ⟨N0, hN0⟩ := loop_total o n (clr m1) i1 j1 (by omega) hj1 hI1 (fuelFor (clr m1) i1)
            (H5V.Model.HtmlTok.mu_lt_fuelFor _ _)
          exact ⟨N0 + 1, resU_shift (fun N => pc_succ_ne o N hj1 hne j1) hN0⟩
      · simp only [deliver, ha, afterRun]
        exact ⟨0, Or.inr ⟨e, he, fun _ _ => rfl⟩⟩
    | indicator m1 i1 =>
      have hp : (step o (polOf j) m inp).pair? = some (m1, i1) := by rw [hs]; rfl
      have hq := H5V.Model.HtmlTok.step_stop_quiet o _ m inp hj.tinv m1 i1 hp (by rw [hs]; simp)
      have hj1 := step_jinv hj hp
      rcases absorb_safe hI hp with ⟨j1, ha, hI1⟩ | ⟨e, ha, he⟩
      · simp only [deliver, ha, afterRun]
        by_cases hne : i1 = []
        · subst hne
          refine ⟨1, Or.inl ⟨clr m1, j1, hj1, quiet_clr hq, hI1, fun N hN => ?_⟩⟩
          obtain ⟨N', rfl⟩ : ∃ N', N = N' + 1 := ⟨N - 1, by omega⟩
          exact pc_succ_nil o N' _ _
        · have hdec := step_dec_indicator hj.tinv hI.out hs ha
          obtain ⟨N0, hN0⟩ := loop_total o n (clr m1) i1 j1 (by omega) hj1 hI1 (fuelFor (clr m1) i1)
            (H5V.Model.HtmlTok.mu_lt_fuelFor _ _)
          exact ⟨N0 + 1, resU_shift (fun N => pc_succ_ne o N hj1 hne j1) hN0⟩
      · simp only [deliver, ha, afterRun]
        exact ⟨0, Or.inr ⟨e, he, fun _ _ => rfl⟩⟩

/-! ### `Parser::finish` -/

theorem endInv_clr {m : Mach} {inp : TStr} (h : H5V.Model.HtmlTok.EndInv m inp) : H5V.Model.HtmlTok.EndInv (clr m) inp :=
  ⟨H5V.Model.HtmlTok.tinv_clr.mpr h.tinv, h.cr, h.plain⟩

/-- **the final `run` of `Tokenizer::end`** (no `>` and no `&` left to read: no tag is delivered, the sink cannot pause
it) ends with `Done` and an empty queue, or the delivery of its tokens fails with `JErr` -/
theorem eof_total (o : TOpts) : ∀ (n : Nat) (m : Mach) (inp : Chars) (j : JState), mu m inp < n →
    H5V.Model.HtmlTok.EndInv m inp → CI m j → ∀ fuel, mu m inp < fuel →
    (∃ m' j', jrun o fuel m inp j = .done m' [] j' ∧ CI m' j') ∨ (∃ e, jrun o fuel m inp j = .panic e ∧ JErr e)
  | 0, _, _, _, h, _, _ => by omega
  | n + 1, m, inp, j, hn, he, hI => by
    intro fuel hf
    obtain ⟨f, rfl⟩ : ∃ f, fuel = f + 1 := ⟨fuel - 1, by omega⟩
    rw [run_succ]
    have hend := H5V.Model.HtmlTok.step_end o (polOf j) m inp he
    cases hs : step o (polOf j) m inp with
    | panic e => exact absurd hs ((H5V.Model.HtmlTok.step_safe o (polOf j) m inp he.tinv.linv.safe).1 e)
    | cont m1 i1 =>
      have hp : (step o (polOf j) m inp).pair? = some (m1, i1) := by rw [hs]; rfl
      rcases absorb_safe hI hp with ⟨j1, ha, hI1⟩ | ⟨e, ha, hje⟩
      · have hdec := H5V.Model.HtmlTok.step_dec o _ m inp he.tinv m1 i1 hs
        simp only [deliver, ha]
        exact eof_total o n (clr m1) i1 j1 (by rw [H5V.Model.HtmlTok.mu_clr]; omega) (endInv_clr (hend.2 m1 i1 hs)) hI1 f
          (by rw [H5V.Model.HtmlTok.mu_clr]; omega)
      · refine Or.inr ⟨e, ?_, hje⟩
        simp only [deliver, ha]
    | suspend m1 i1 =>
      have hp : (step o (polOf j) m inp).pair? = some (m1, i1) := by rw [hs]; rfl
      have hnil := H5V.Model.HtmlTok.step_suspend_nil o _ m inp he.tinv m1 i1 hs
      subst hnil
      rcases absorb_safe hI hp with ⟨j1, ha, hI1⟩ | ⟨e, ha, hje⟩
      · refine Or.inl ⟨clr m1, j1, ?_, hI1⟩
        simp only [deliver, ha]
      · refine Or.inr ⟨e, ?_, hje⟩
        simp only [deliver, ha]
    | script m1 i1 =>
      have h1 := hend.1
      rw [hs] at h1
      simp [H5V.Model.HtmlTok.R.isPause] at h1
    | indicator m1 i1 =>
      have h1 := hend.1
      rw [hs] at h1
      simp [H5V.Model.HtmlTok.R.isPause] at h1

/-- `eof_step`, `TreeBuilder::end` -/
theorem tail_total (o : TOpts) (m : Mach) (j : JState) (hI : CI m j) :
    (∃ jf, finishTail o m [] j = .ok jf) ∨ (∃ e, finishTail o m [] j = .error e ∧ JErr e) := by
  unfold finishTail
  simp only [List.isEmpty_nil, Bool.not_true, Bool.false_eq_true, if_false]
  obtain ⟨m3, h3⟩ := H5V.Model.HtmlTok.eofLoop_total o m
  rw [h3]
  simp only
  obtain ⟨new, hnew, hnt⟩ := eofLoop_no_tag o 8 m m3 h3
  rw [hI.out, List.append_nil] at hnew
  have hH : j.tb.mode ≠ .text ∨ ∀ p ∈ m3.out.reverse, AllowedInText p.1 ∨ p.1 = .eof := by
    by_cases hmode : j.tb.mode = .text
    · obtain ⟨new', hnew', hal⟩ := eofLoop_textSt o 8 m m3 (hI.text hmode) h3
      rw [hI.out, List.append_nil] at hnew'
      exact Or.inr (fun p hp => hal p (by rw [← hnew']; exact List.mem_reverse.mp hp))
    · exact Or.inl hmode
  rcases absorb_plain_safe _ j hI.ti hI.good (fun p hp => hnt p (by rw [← hnew]; exact List.mem_reverse.mp hp)) hH
    with ⟨j3, hj3⟩ | ⟨e, he, hje⟩
  · rw [hj3]
    simp only
    obtain ⟨s', hs'⟩ := H5V.Props.C04TB.C04_tb_end_total j3.tb
    rw [hs']
    exact Or.inl ⟨_, rfl⟩
  · rw [he]
    exact Or.inr ⟨e, rfl, hje⟩

end H5V.Lemmas.JointTotal

namespace H5V.Lemmas.JointTotal.Fin
open H5V.Model.HtmlTok
open H5V.Model.HtmlTB.Joint (JState absorb)
open H5V.Lemmas.JointChunk (TOpts finishPrologue finishMain finishTail finish_eq jrun)
open H5V.Lemmas.ParseSpec (CrInv TextSt crInv_of_none crEof_processCharRef_out crEof_processCharRef_textSt
  isTagTok AllowedInText absorb_plain absorb_tbRuns)
open H5V.Lemmas.JointTotal (CI JErr absorb_plain_safe endInv_clr eof_total tail_total)

/-- the flush of a pending character reference at the start of `Tokenizer::end` -/
theorem prologue_total (o : TOpts) (m : Mach) (j : JState) (hq : Quiet m) (hI : CI m j) :
    (∃ m1 inp j1, finishPrologue o m j = .ok (m1, inp, j1) ∧ EndInv m1 inp ∧ CI m1 j1) ∨
    (∃ e, finishPrologue o m j = .error e ∧ JErr e) := by
  have hi := hq.tinv
  unfold finishPrologue
  cases hcr : m.charRef with
  | none =>
    simp only
    refine Or.inl ⟨m, [], j, rfl, ⟨hi, hcr, pend_plain (fun hx => ?_) (hq.sp hcr)
      (fun x hx => absurd hx List.not_mem_nil)⟩, hI⟩
    rw [hq.nrec] at hx; simp at hx
  | some cr =>
    obtain ⟨c1, c2, c3⟩ := hi.linv.cr cr hcr
    have hstate := crStateOk_facts (hi.linv.safe.crState cr hcr)
    obtain ⟨m1, i1, chars, hce⟩ := crEof_ok o m cr c1 c2 c3 (hi.linv.safe.crRegs cr hcr)
    obtain ⟨ht, hnp⟩ := finish_charRef_inv o m cr hi.linv hcr m1 i1 chars hce
    obtain ⟨_, _, l3, _, l5, _⟩ := crEof_lines o m cr c1 c2 c3 m1 i1 chars hce
    have hback := crEof_back o m cr c1 c2 c3 (hi.crt cr hcr) m1 i1 chars hce
    have hpa := processCharRef_noPause (m1.setCharRef none) chars
    have hp := processCharRef_fields (m1.setCharRef none) chars
    have hpc0 := processCharRef_charRef (m1.setCharRef none) chars
    simp only [hce]
    cases hpc : processCharRef (m1.setCharRef none) chars with
    | mk m2 sig =>
      rw [hpc] at ht hnp hpa hp hpc0
      simp only at hp hpc0
      cases sig with
      | cont =>
        simp only
        have hcr2 : m2.charRef = none := by simpa using hpc0
        have hst2 : m2.state = m.state := by rw [hp.1]; simp only [setCharRef_state]; exact l5
        have hrec2 : m2.reconsume = false := by rw [hp.2.2.2.1]; simpa using l3
        have hend : EndInv m2 i1 := by
          refine ⟨ht, hcr2, pend_plain (fun hx => ?_) ?_ hback⟩
          · rw [hrec2] at hx; simp at hx
          · rw [stash_plain hcr2 (by rw [hst2]; exact hstate.1) (by rw [hst2]; exact hstate.2.1)]
            intro x hx; exact absurd hx List.not_mem_nil
        -- the delivery
        obtain ⟨new, hnew, hk, _, _⟩ := crEof_processCharRef_out o m cr m1 i1 chars m2 .cont hce hpc
        rw [hI.out, List.append_nil] at hnew
        have hnt : ∀ p ∈ m2.out.reverse, isTagTok p.1 = false := by
          intro p hp
          have := hk p (by rw [← hnew]; exact List.mem_reverse.mp hp)
          rcases this with ⟨x, e⟩ | ⟨e', e⟩ | e <;> rw [e] <;> rfl
        have hH : j.tb.mode ≠ .text ∨ ∀ p ∈ m2.out.reverse, AllowedInText p.1 ∨ p.1 = .eof := by
          by_cases hmode : j.tb.mode = .text
          · obtain ⟨new', hnew', hal, _, _, _⟩ :=
              crEof_processCharRef_textSt o m (hI.text hmode) cr m1 i1 chars m2 .cont hcr hce hpc
            rw [hI.out, List.append_nil] at hnew'
            exact Or.inr (fun p hp => Or.inl (hal p (by rw [← hnew']; exact List.mem_reverse.mp hp)))
          · exact Or.inl hmode
        rcases absorb_plain_safe _ j hI.ti hI.good hnt hH with ⟨j1, hj1⟩ | ⟨e, he, hje⟩
        · rw [hj1]
          simp only
          refine Or.inl ⟨clr m2, i1, j1, rfl, endInv_clr hend, ?_⟩
          obtain ⟨g1, g2⟩ := absorb_plain _ j j1 hj1 hI.ti hI.good hnt hH
          obtain ⟨h3, h4⟩ := (absorb_tbRuns _ _ _ hj1).inv hI.ti hI.good
          refine ⟨rfl, crInv_of_none hcr2, fun hm1 => ?_, h3, h4⟩
          by_cases hmode : j.tb.mode = .text
          · obtain ⟨_, _, _, _, t1, _⟩ :=
              crEof_processCharRef_textSt o m (hI.text hmode) cr m1 i1 chars m2 .cont hcr hce hpc
            exact t1
          · exact absurd hm1 (g2 hmode)
        · rw [he]
          exact Or.inr ⟨e, rfl, hje⟩
      | script => simp [Sig.isPause] at hpa
      | indicator => simp [Sig.isPause] at hpa
      | panic e => exact absurd rfl (hnp e)

/-- **`Parser::finish` (`Tokenizer::end`, `TreeBuilder::end`) completes or fails with `JErr`** -/
theorem finish_total (o : TOpts) (m : Mach) (j : JState) (hq : Quiet m) (hI : CI m j) :
    (∃ jf, H5V.Model.HtmlTB.Joint.finish o m j = .ok jf) ∨
    (∃ e, H5V.Model.HtmlTB.Joint.finish o m j = .error e ∧ JErr e) := by
  rw [finish_eq]
  rcases prologue_total o m j hq hI with ⟨m1, inp, j1, hp, hend, hI1⟩ | ⟨e, he, hje⟩
  · rw [hp]
    simp only
    unfold finishMain
    have hI2 : CI (m1.setAtEof true) j1 := ⟨hI1.out, hI1.cr, hI1.text, hI1.ti, hI1.good⟩
    rcases eof_total o _ (m1.setAtEof true) inp j1 (Nat.lt_succ_self _) (hend.setAtEof true) hI2 _ (mu_lt_fuelFor _ _)
      with ⟨m2, j2, hr, hI3⟩ | ⟨e, hr, hje⟩
    · rw [hr]
      exact tail_total o m2 j2 hI3
    · rw [hr]
      exact Or.inr ⟨e, rfl, hje⟩
  · rw [he]
    exact Or.inr ⟨e, rfl, hje⟩

end H5V.Lemmas.JointTotal.Fin

namespace H5V.Lemmas.JointTotal
open H5V.Model.HtmlTB
open H5V.Lemmas.TBSafe (TI)
open H5V.Model.HtmlTB.Joint (JState absorb polOf)
open H5V.Lemmas.JointChunk
open H5V.Lemmas.ParseSpec
open H5V.Props.C03 (GoodS parseChunks feedChunks Start jinv_feedBom feedBom_fst)
open H5V.Model.HtmlTok (Mach mu fuelFor feedBom Quiet)

/-- what holds of the tokenizer and the tree builder between two chunks -/
structure Between (m : Mach) (j : JState) : Prop where
  start : Start m ∨ JInv m
  quiet : Quiet m
  ci : CI m j

/-- how the `Parser::process` calls end, uniformly in the budget -/
def ResB (r : Nat → Except String (Mach × Chars × JState)) (N0 : Nat) : Prop :=
  (∃ m' j', Between m' j' ∧ ∀ N, N0 ≤ N → r N = .ok (m', [], j')) ∨ (∃ e, JErr e ∧ ∀ N, N0 ≤ N → r N = .error e)

/-- **one `Parser::process` call** -/
theorem process_total (o : TOpts) (m0 : Mach) (j0 : JState) (hb : Between m0 j0) (s : Chars) :
    ∃ N0, ResB (fun N => jprocessChunk o N m0 [] s j0) N0 := by
  by_cases hne : s = []
  · subst hne
    refine ⟨1, Or.inl ⟨m0, j0, hb, fun N hN => ?_⟩⟩
    obtain ⟨K, rfl⟩ : ∃ K, N = K + 1 := ⟨N - 1, by omega⟩
    exact pc_succ_nil o K _ _
  · have hji : JInv (feedBom m0 s).1 := by
      rcases hb.start with h | h
      · exact jinv_feedBom h hne
      · rw [feedBom_of_inv h]; exact h
    have hci : CI (feedBom m0 s).1 j0 := by
      rcases feedBom_fst m0 s with e | e <;> rw [e]
      · exact hb.ci
      · exact ⟨hb.ci.out, hb.ci.cr, hb.ci.text, hb.ci.ti, hb.ci.good⟩
    obtain ⟨N0, hN0⟩ := loop_total o _ (feedBom m0 s).1 (feedBom m0 s).2 j0 (Nat.lt_succ_self _) hji hci
      (fuelFor (feedBom m0 s).1 (feedBom m0 s).2) (H5V.Model.HtmlTok.mu_lt_fuelFor _ _)
    have hshift : ∀ N, jprocessChunk o (N + 1) m0 [] s j0 =
        afterRun o N (jrun o (fuelFor (feedBom m0 s).1 (feedBom m0 s).2) (feedBom m0 s).1 (feedBom m0 s).2 j0) := by
      intro N
      rw [processChunk_succ, List.nil_append]
      simp only [isEmpty_false' hne, Bool.false_eq_true, if_false]
    refine ⟨N0 + 1, ?_⟩
    rcases resU_shift (r := fun N => jprocessChunk o N m0 [] s j0) hshift hN0 with ⟨m', j', h1, h2, h3, h⟩ | ⟨e, he, h⟩
    · exact Or.inl ⟨m', j', ⟨Or.inr h1, h2, h3⟩, h⟩
    · exact Or.inr ⟨e, he, h⟩

/-- **all the `Parser::process` calls of a chunked parse** -/
theorem feedChunks_total (o : TOpts) : ∀ (cs : List Chars) (m0 : Mach) (j0 : JState), Between m0 j0 →
    ∃ N0, ResB (fun N => feedChunks o N cs m0 [] j0) N0
  | [], m0, j0, hb => ⟨0, Or.inl ⟨m0, j0, hb, fun _ _ => rfl⟩⟩
  | c :: cs, m0, j0, hb => by
    obtain ⟨N1, hN1⟩ := process_total o m0 j0 hb c
    rcases hN1 with ⟨m', j', hb', h⟩ | ⟨e, he, h⟩
    · obtain ⟨N2, hN2⟩ := feedChunks_total o cs m' j' hb'
      refine ⟨max N1 N2, ?_⟩
      rcases hN2 with ⟨m'', j'', hb'', h2⟩ | ⟨e, he, h2⟩
      · refine Or.inl ⟨m'', j'', hb'', fun N hN => ?_⟩
        simp only [feedChunks]
        rw [show jprocessChunk o N m0 [] c j0 = _ from h N (by omega)]
        exact h2 N (by omega)
      · refine Or.inr ⟨e, he, fun N hN => ?_⟩
        simp only [feedChunks]
        rw [show jprocessChunk o N m0 [] c j0 = _ from h N (by omega)]
        exact h2 N (by omega)
    · refine ⟨N1, Or.inr ⟨e, he, fun N hN => ?_⟩⟩
      simp only [feedChunks]
      rw [show jprocessChunk o N m0 [] c j0 = _ from h N hN]

/-- **the whole chunked parse**: the `Parser::process` calls, the final `loop_until_done`, `Parser::finish` -/
theorem parse_total (o : TOpts) (cs : List Chars) (m0 : Mach) (j0 : JState) (hb : Between m0 j0) :
    ∃ N0, (∃ jf, ∀ N, N0 ≤ N → parseChunks o N m0 j0 cs = .ok jf) ∨
      (∃ e, JErr e ∧ ∀ N, N0 ≤ N → parseChunks o N m0 j0 cs = .error e) := by
  obtain ⟨N1, hN1⟩ := feedChunks_total o cs m0 j0 hb
  rcases hN1 with ⟨m', j', hb', h⟩ | ⟨e, he, h⟩
  · have key : ∀ N, N1 + 1 ≤ N → parseChunks o N m0 j0 cs = H5V.Model.HtmlTB.Joint.finish o m' j' := by
      intro N hN
      obtain ⟨K, rfl⟩ : ∃ K, N = K + 1 := ⟨N - 1, by omega⟩
      unfold parseChunks
      rw [show feedChunks o (K + 1) cs m0 [] j0 = _ from h (K + 1) (by omega)]
      simp only
      rw [pc_succ_nil]
      simp only [List.isEmpty_nil, Bool.not_true, Bool.false_eq_true, if_false]
    refine ⟨N1 + 1, ?_⟩
    rcases Fin.finish_total o m' j' hb'.quiet hb'.ci with ⟨jf, hf⟩ | ⟨e, hf, he⟩
    · exact Or.inl ⟨jf, fun N hN => by rw [key N hN, hf]⟩
    · exact Or.inr ⟨e, he, fun N hN => by rw [key N hN, hf]⟩
  · refine ⟨N1, Or.inr ⟨e, he, fun N hN => ?_⟩⟩
    unfold parseChunks
    rw [show feedChunks o N cs m0 [] j0 = _ from h N hN]

end H5V.Lemmas.JointTotal
