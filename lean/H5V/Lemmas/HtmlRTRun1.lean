import H5V.Lemmas.HtmlRTTok2
import H5V.Lemmas.HtmlRTTB3
/-!
C07 round trip, part 3: runs.  `GSteps` is the multi-step closure of `Tokenizer::step` against an
abstract sink (`Sink`: the policy the tokenizer sees, and what happens to the tokens a step emitted);
`Seg` is the Hoare-style judgement "from any machine satisfying `Pre`, reading `inp` down to `inp'`
delivers `toks` and ends in a machine satisfying `Post`", stated against a sink specification
(`SinkSpec`) so that the tokenizer-only run and the run into the tree builder share every lemma.
-/
namespace H5V.Lemmas.HtmlRT
open H5V.Model.HtmlTok

/-- `m'` is `m` up to the delivered-token register -/
def SameCore (m m' : Mach) : Prop := m' = { m with out := m'.out }

theorem SameCore.refl (m : Mach) : SameCore m m := rfl

theorem Ctl.core {m m' st} (h : Ctl m st) (c : SameCore m m') : Ctl m' st := by
  obtain ⟨s1, s2, s3, s4, s5⟩ := h
  rw [c]; constructor <;> assumption
theorem Regs.core {m m' k nm as an av} (h : Regs m k nm as an av) (c : SameCore m m') : Regs m' k nm as an av := by
  obtain ⟨r1, r2, r3, r4, r5, r6, r7⟩ := h
  rw [c]; constructor <;> assumption
theorem NoAttr.core {m m'} (h : NoAttr m) (c : SameCore m m') : NoAttr m' := by
  obtain ⟨n1, n2⟩ := h
  rw [c]; constructor <;> assumption
theorem CRCtl.core {m m' st cr} (h : CRCtl m st cr) (c : SameCore m m') : CRCtl m' st cr := by
  obtain ⟨s1, s2, s3, s4, s5⟩ := h
  rw [c]; constructor <;> assumption

theorem TInv.core {m m'} (h : TInv m) (c : SameCore m m') : TInv m' := by
  rw [c]; exact h.congr rfl rfl rfl rfl rfl rfl

theorem mu_core {m m'} (c : SameCore m m') (inp : Str) : mu m' inp = mu m inp := by
  rw [c]; rfl

/-- a sink as the tokenizer's driver sees it -/
structure Sink (σ : Type) where
  /-- the policy consulted during a step, given the sink state before the step -/
  pol : σ → Pol
  /-- after a step: what the driver does with the machine (its freshly emitted tokens) and the sink -/
  hook : Mach → σ → Option (Mach × σ)

variable {σ : Type}

/-- steps that continue; `toks` = the tokens delivered, oldest first -/
inductive GSteps (o : Opts) (S : Sink σ) : Mach → Str → σ → List Token → Mach → Str → σ → Prop
  | refl (m : Mach) (inp : Str) (s : σ) : GSteps o S m inp s [] m inp s
  | silent {m inp s m1 i1 m1' s1 toks m' i' s'} :
      Silent o (S.pol s) m inp m1 i1 → S.hook m1 s = some (m1', s1) →
      GSteps o S m1' i1 s1 toks m' i' s' → GSteps o S m inp s toks m' i' s'
  | emit {m inp s t m1 i1 m1' s1 toks m' i' s'} :
      Emits o (S.pol s) m inp t m1 i1 → S.hook m1 s = some (m1', s1) →
      GSteps o S m1' i1 s1 toks m' i' s' → GSteps o S m inp s (t :: toks) m' i' s'

theorem GSteps.trans {o : Opts} {S : Sink σ} {m inp s t1 m1 i1 s1 t2 m2 i2 s2}
    (h1 : GSteps o S m inp s t1 m1 i1 s1) (h2 : GSteps o S m1 i1 s1 t2 m2 i2 s2) :
    GSteps o S m inp s (t1 ++ t2) m2 i2 s2 := by
  induction h1 with
  | refl => exact h2
  | silent a b _ ih => exact .silent a b (ih h2)
  | emit a b _ ih => exact .emit a b (ih h2)

/-- what the segment lemmas need to know about a sink: an invariant indexed by the open path
(`lower`, `top` as in `TBInv`) that may also constrain the machine's delivered-token register -/
structure SinkSpec (o : Opts) (S : Sink σ) where
  Inv : List Frame → Frame → σ → Out → Prop
  core : ∀ m1 s m1' s1, S.hook m1 s = some (m1', s1) → SameCore m1 m1'
  silent : ∀ L T s out m1, Inv L T s out → m1.out = out →
    ∃ m1' s1, S.hook m1 s = some (m1', s1) ∧ Inv L T s1 m1'.out
  char : ∀ L T s out m1 c ln, Inv L T s out → m1.out = (.chars [c], ln) :: out →
    ∃ m1' s1, S.hook m1 s = some (m1', s1) ∧ Inv L ⟨T.name, T.attrs, appendTextF T.cs [c]⟩ s1 m1'.out
  startPol : ∀ L T s out n as, Inv L T s out → elemNameOk n = true →
    (S.pol s).onTag out (tokStart n as) = .continue_
  start : ∀ L T s out m1 n as ln, Inv L T s out → elemNameOk n = true →
    m1.out = (.tag (tokStart n as), ln) :: out →
    ∃ m1' s1, S.hook m1 s = some (m1', s1) ∧ Inv (L ++ [T]) ⟨n, as, []⟩ s1 m1'.out
  endPol : ∀ L P n as cs s out, Inv (L ++ [P]) ⟨n, as, cs⟩ s out → elemNameOk n = true →
    (S.pol s).onTag out (tokEnd n) = .continue_
  end_ : ∀ L P n as cs s out m1 ln, Inv (L ++ [P]) ⟨n, as, cs⟩ s out → elemNameOk n = true →
    m1.out = (.tag (tokEnd n), ln) :: out →
    ∃ m1' s1, S.hook m1 s = some (m1', s1) ∧ Inv L ⟨P.name, P.attrs, P.cs ++ [.elem n as cs]⟩ s1 m1'.out

/-- a predicate on machines that does not look at the delivered-token register -/
def CoreInv (P : Mach → Prop) : Prop := ∀ m m', SameCore m m' → P m → P m'

/-- reading `inp` down to `inp'` from a machine satisfying `Pre`, with the sink at `(L, T)`:
the tokens `toks` are delivered, the machine ends satisfying `Post`, the sink at `(L', T')` -/
def Seg {o : Opts} {S : Sink σ} (sp : SinkSpec o S) (Pre : Mach → Prop) (L : List Frame) (T : Frame)
    (inp : Str) (toks : List Token) (inp' : Str) (Post : Mach → Prop) (L' : List Frame) (T' : Frame) : Prop :=
  ∀ m s, Pre m → sp.Inv L T s m.out →
    ∃ m' s', GSteps o S m inp s toks m' inp' s' ∧ Post m' ∧ sp.Inv L' T' s' m'.out

variable {o : Opts} {S : Sink σ} (sp : SinkSpec o S)

theorem Seg.refl (P : Mach → Prop) (L T inp) : Seg sp P L T inp [] inp P L T :=
  fun m s hp hi => ⟨m, s, .refl _ _ _, hp, hi⟩

theorem Seg.trans {P Q R : Mach → Prop} {L T L1 T1 L2 T2 inp i1 i2 t1 t2}
    (h1 : Seg sp P L T inp t1 i1 Q L1 T1) (h2 : Seg sp Q L1 T1 i1 t2 i2 R L2 T2) :
    Seg sp P L T inp (t1 ++ t2) i2 R L2 T2 := by
  intro m s hp hi
  obtain ⟨m1, s1, g1, hq, hi1⟩ := h1 m s hp hi
  obtain ⟨m2, s2, g2, hr, hi2⟩ := h2 m1 s1 hq hi1
  exact ⟨m2, s2, g1.trans g2, hr, hi2⟩

theorem Seg.weaken {P P' Q Q' : Mach → Prop} {L T L1 T1 inp i1 t1}
    (h : Seg sp P L T inp t1 i1 Q L1 T1) (hp : ∀ m, P' m → P m) (hq : ∀ m, Q m → Q' m) :
    Seg sp P' L T inp t1 i1 Q' L1 T1 := by
  intro m s hp' hi
  obtain ⟨m1, s1, g1, hq1, hi1⟩ := h m s (hp m hp') hi
  exact ⟨m1, s1, g1, hq m1 hq1, hi1⟩

/-- one silent step -/
theorem Seg.silent {P Q : Mach → Prop} (L T) {inp inp'} (hq : CoreInv Q)
    (h : ∀ m pol, P m → ∃ m1, Silent o pol m inp m1 inp' ∧ Q m1) : Seg sp P L T inp [] inp' Q L T := by
  intro m s hp hi
  obtain ⟨m1, hs, hq1⟩ := h m (S.pol s) hp
  obtain ⟨m1', s1, hh, hi1⟩ := sp.silent L T s m.out m1 hi hs.2
  exact ⟨m1', s1, .silent hs hh (.refl _ _ _), hq m1 m1' (sp.core _ _ _ _ hh) hq1, hi1⟩

/-- one step delivering a character -/
theorem Seg.char {P Q : Mach → Prop} (L T) {inp inp'} (c : Char) (hq : CoreInv Q)
    (h : ∀ m pol, P m → ∃ m1, Emits o pol m inp (.chars [c]) m1 inp' ∧ Q m1) :
    Seg sp P L T inp [.chars [c]] inp' Q L ⟨T.name, T.attrs, appendTextF T.cs [c]⟩ := by
  intro m s hp hi
  obtain ⟨m1, hs, hq1⟩ := h m (S.pol s) hp
  obtain ⟨ln, hout⟩ := hs.2
  obtain ⟨m1', s1, hh, hi1⟩ := sp.char L T s m.out m1 c ln hi hout
  exact ⟨m1', s1, .emit hs hh (.refl _ _ _), hq m1 m1' (sp.core _ _ _ _ hh) hq1, hi1⟩

/-- the step delivering a start tag -/
theorem Seg.startTag {P Q : Mach → Prop} (L T) {inp inp'} (n : Str) (as : List (Str × Str))
    (hn : elemNameOk n = true) (hq : CoreInv Q)
    (h : ∀ m pol, P m → pol.onTag m.out (tokStart n as) = .continue_ →
      ∃ m1, Emits o pol m inp (.tag (tokStart n as)) m1 inp' ∧ Q m1) :
    Seg sp P L T inp [.tag (tokStart n as)] inp' Q (L ++ [T]) ⟨n, as, []⟩ := by
  intro m s hp hi
  obtain ⟨m1, hs, hq1⟩ := h m (S.pol s) hp (sp.startPol L T s m.out n as hi hn)
  obtain ⟨ln, hout⟩ := hs.2
  obtain ⟨m1', s1, hh, hi1⟩ := sp.start L T s m.out m1 n as ln hi hn hout
  exact ⟨m1', s1, .emit hs hh (.refl _ _ _), hq m1 m1' (sp.core _ _ _ _ hh) hq1, hi1⟩

/-- the step delivering an end tag -/
theorem Seg.endTag {P Q : Mach → Prop} (L) (Pf : Frame) (n as cs) {inp inp'}
    (hn : elemNameOk n = true) (hq : CoreInv Q)
    (h : ∀ m pol, P m → pol.onTag m.out (tokEnd n) = .continue_ →
      ∃ m1, Emits o pol m inp (.tag (tokEnd n)) m1 inp' ∧ Q m1) :
    Seg sp P (L ++ [Pf]) ⟨n, as, cs⟩ inp [.tag (tokEnd n)] inp' Q L ⟨Pf.name, Pf.attrs, Pf.cs ++ [.elem n as cs]⟩ := by
  intro m s hp hi
  obtain ⟨m1, hs, hq1⟩ := h m (S.pol s) hp (sp.endPol L Pf n as cs s m.out hi hn)
  obtain ⟨ln, hout⟩ := hs.2
  obtain ⟨m1', s1, hh, hi1⟩ := sp.end_ L Pf n as cs s m.out m1 ln hi hn hout
  exact ⟨m1', s1, .emit hs hh (.refl _ _ _), hq m1 m1' (sp.core _ _ _ _ hh) hq1, hi1⟩

/-! ### core-invariance of the machine predicates used below -/

def Idle (m : Mach) : Prop := Ctl m .data ∧ NoAttr m

theorem coreInv_idle : CoreInv Idle := fun _ _ c h => ⟨h.1.core c, h.2.core c⟩

theorem coreInv_ctl_noattr (st : State) : CoreInv (fun m => Ctl m st ∧ NoAttr m) :=
  fun _ _ c h => ⟨h.1.core c, h.2.core c⟩

theorem coreInv_ctl_regs (st : State) (k nm as an av) : CoreInv (fun m => Ctl m st ∧ Regs m k nm as an av) :=
  fun _ _ c h => ⟨h.1.core c, h.2.core c⟩

/-- a register predicate carried unchanged through the reading of a character reference -/
structure Carried (X : Mach → Prop) : Prop where
  core : CoreInv X
  setCR : ∀ m y, X m → X (m.setCharRef y)

theorem carried_noattr : Carried NoAttr := ⟨fun _ _ c h => h.core c, fun _ y h => h.setCharRef y⟩
theorem carried_regs (k nm as an av) : Carried (fun m => Regs m k nm as an av) :=
  ⟨fun _ _ c h => h.core c, fun _ y h => h.setCharRef y⟩

theorem coreInv_crctl (st : State) (cr : CharRefSt) {X : Mach → Prop} (hx : Carried X) :
    CoreInv (fun m => CRCtl m st cr ∧ X m) := fun _ _ c h => ⟨h.1.core c, hx.core _ _ c h.2⟩

/-! ### reading a character reference -/

theorem crFeed_inv (b : Bool) : ∀ (q p0 : Str) (cr : CharRefSt), cr.state = .named → cr.nameBuf = some p0 →
    cr.inAttr = b →
    (∀ k, k < q.length → (entityLookup (p0 ++ q.take (k + 1))).isSome = true) →
    (q.foldl crFeed cr).state = .named ∧ (q.foldl crFeed cr).nameBuf = some (p0 ++ q) := by
  intro q
  induction q with
  | nil => intro p0 cr h1 h2 _ _; simp [h1, h2]
  | cons c q ih =>
    intro p0 cr h1 h2 h3 hl
    have h0 := hl 0 (by simp)
    simp only [List.take_succ_cons, List.take_zero] at h0
    obtain ⟨mt, hmt⟩ := Option.isSome_iff_exists.mp h0
    have hf1 : (crFeed cr c).state = .named := by
      unfold crFeed; rw [h2]; simp only [Option.getD_some, hmt]; split <;> exact h1
    have hf2 : (crFeed cr c).nameBuf = some (p0 ++ [c]) := by
      unfold crFeed; rw [h2]; simp only [Option.getD_some, hmt]; split <;> rfl
    have hf3 : (crFeed cr c).inAttr = b := by
      unfold crFeed; rw [h2]; simp only [Option.getD_some, hmt]; split <;> exact h3
    have := ih (p0 ++ [c]) (crFeed cr c) hf1 hf2 hf3 (by
      intro k hk
      have := hl (k + 1) (by simp; omega)
      simpa [List.take_succ_cons] using this)
    simpa using this

/-- the name characters of a reference, one `named` step each -/
theorem seg_ref_feed (L T) (st : State) (b : Bool) {X : Mach → Prop} (hx : Carried X) (rest : Str) :
    ∀ (q p0 : Str) (cr : CharRefSt), cr.state = .named → cr.nameBuf = some p0 → cr.inAttr = b →
      (∀ k, k < q.length → (entityLookup (p0 ++ q.take (k + 1))).isSome = true) →
      Seg sp (fun m => CRCtl m st cr ∧ X m) L T (q ++ rest) [] rest
        (fun m => CRCtl m st (q.foldl crFeed cr) ∧ X m) L T := by
  intro q
  induction q with
  | nil => intro p0 cr _ _ _ _; exact Seg.refl sp _ L T rest
  | cons c q ih =>
    intro p0 cr h1 h2 h3 hl
    have h0 := hl 0 (by simp)
    simp only [List.take_succ_cons, List.take_zero] at h0
    obtain ⟨mt, hmt⟩ := Option.isSome_iff_exists.mp h0
    have hinv := crFeed_inv b [c] p0 cr h1 h2 h3 (by
      intro k hk; simp at hk; subst hk; simpa using h0)
    simp only [List.foldl_cons, List.foldl_nil] at hinv
    have hf3 : (crFeed cr c).inAttr = b := by
      unfold crFeed; rw [h2]; simp only [Option.getD_some, hmt]; split <;> exact h3
    have step1 : Seg sp (fun m => CRCtl m st cr ∧ X m) L T (c :: q ++ rest) [] (q ++ rest)
        (fun m => CRCtl m st (crFeed cr c) ∧ X m) L T := by
      refine Seg.silent sp L T (coreInv_crctl st _ hx) ?_
      intro m pol ⟨hc, hxm⟩
      exact ⟨_, cr_feed o pol m c (q ++ rest) st cr p0 mt hc h1 h2 hmt, hc.setCharRef _, hx.setCR _ _ hxm⟩
    have := Seg.trans sp step1 (ih (p0 ++ [c]) (crFeed cr c) hinv.1 hinv.2 hf3 (by
      intro k hk
      have := hl (k + 1) (by simp; omega)
      simpa [List.take_succ_cons] using this))
    simpa using this

/-- after the `&`: the whole name of a reference is read silently and is matched -/
theorem seg_ref_read (L T) (st : State) (b : Bool) {X : Mach → Prop} (hx : Carried X) (rest : Str)
    (nm : Str) (v : Nat) (hr : RefOk nm v) :
    Seg sp (fun m => CRCtl m st { inAttr := b } ∧ X m) L T (nm ++ rest) [] rest
      (fun m => ∃ cr, CRCtl m st cr ∧ CRDone cr nm v ∧ X m) L T := by
  obtain ⟨c0, t, hnm⟩ : ∃ c0 t, nm = c0 :: t := by
    cases hq : nm with
    | nil => exact absurd hq hr.ne
    | cons a b => exact ⟨a, b, rfl⟩
  have hal : isAsciiAlnum c0 = true := hr.alnum c0 (by rw [hnm]; rfl)
  have step1 : Seg sp (fun m => CRCtl m st { inAttr := b } ∧ X m) L T (nm ++ rest) [] (nm ++ rest)
      (fun m => CRCtl m st (crNamed b) ∧ X m) L T := by
    refine Seg.silent sp L T (coreInv_crctl st _ hx) ?_
    intro m pol ⟨hc, hxm⟩
    refine ⟨_, ?_, hc.setCharRef _, hx.setCR _ _ hxm⟩
    rw [hnm]
    exact cr_begin o pol m c0 (t ++ rest) st b hc hal
  have step2 := seg_ref_feed sp L T st b hx rest nm [] (crNamed b) rfl rfl rfl (by
    intro k hk; simpa using hr.pre k hk)
  have := Seg.trans sp step1 step2
  refine Seg.weaken sp this (fun _ h => h) ?_
  intro m ⟨hc, hxm⟩
  rw [hr.fold b] at hc
  exact ⟨_, hc, ⟨rfl, rfl, rfl, rfl⟩, hxm⟩

/-! ### escaped characters -/

open H5V.Spec.HtmlEscape in
/-- the reference an escaped character is written as -/
def refOf (attr : Bool) (c : Char) : Option (Str × Nat) :=
  if c = '&' then some (nAmp, 38)
  else if c = ' ' then some (nNbsp, 160)
  else if c = '<' then some (nLt, 60)
  else if c = '>' then some (nGt, 62)
  else if c = '"' ∧ attr = true then some (nQuot, 34)
  else none

open H5V.Spec.HtmlEscape in
theorem escChar_eq (attr : Bool) (c : Char) :
    escChar attr c = match refOf attr c with
      | some (nm, _) => '&' :: nm
      | none => [c] := by
  unfold escChar refOf
  by_cases h1 : c = '&'
  · simp [h1, eAmp, nAmp]
  by_cases h2 : c = ' '
  · simp [h2, eNbsp, nNbsp]
  by_cases h3 : c = '<'
  · simp [h3, eLt, nLt]
  by_cases h4 : c = '>'
  · simp [h4, eGt, nGt]
  by_cases h5 : c = '"' ∧ attr = true
  · simp [h5, eQuot, nQuot]
  · simp [h1, h2, h3, h4, h5]

theorem refOf_some {attr : Bool} {c : Char} {nm : Str} {v : Nat} (h : refOf attr c = some (nm, v)) :
    RefOk nm v ∧ Char.ofNat v = c := by
  unfold refOf at h
  split at h
  · cases h; rename_i e; subst e; exact ⟨refOk_amp, by decide⟩
  split at h
  · cases h; rename_i e; subst e; exact ⟨refOk_nbsp, by decide⟩
  split at h
  · cases h; rename_i e; subst e; exact ⟨refOk_lt, by decide⟩
  split at h
  · cases h; rename_i e; subst e; exact ⟨refOk_gt, by decide⟩
  split at h
  · cases h; rename_i e; rw [e.1]; exact ⟨refOk_quot, by decide⟩
  · cases h

theorem refOf_none {attr : Bool} {c : Char} (h : refOf attr c = none) :
    c ≠ '&' ∧ c ≠ '<' ∧ (attr = true → c ≠ '"') := by
  unfold refOf at h
  split at h; · cases h
  split at h; · cases h
  split at h; · cases h
  split at h; · cases h
  split at h; · cases h
  rename_i h1 _ h3 _ h5
  refine ⟨h1, h3, fun ha hc => h5 ⟨hc, ha⟩⟩

/-! ### text -/

/-- the machine is in the middle of the reference `&nm`, fully read and matched with value `v` -/
def PendingRef (st : State) (nm : Str) (v : Nat) (X : Mach → Prop) (m : Mach) : Prop :=
  ∃ cr, CRCtl m st cr ∧ CRDone cr nm v ∧ X m

theorem coreInv_pending (st nm v) {X : Mach → Prop} (hx : Carried X) : CoreInv (PendingRef st nm v X) :=
  fun _ _ c ⟨cr, h1, h2, h3⟩ => ⟨cr, h1.core c, h2, hx.core _ _ c h3⟩

open H5V.Spec.HtmlEscape in
/-- `&nm` in text, up to (not including) the delivery of the character -/
theorem seg_text_ref (L T) (ho : o.exactErrors = false) (nm : Str) (v : Nat) (hr : RefOk nm v) (tail : Str) :
    Seg sp Idle L T ('&' :: nm ++ tail) [] tail (PendingRef .data nm v NoAttr) L T := by
  have step1 : Seg sp Idle L T ('&' :: nm ++ tail) [] (nm ++ tail)
      (fun m => CRCtl m .data { inAttr := false } ∧ NoAttr m) L T := by
    refine Seg.silent sp L T (coreInv_crctl _ _ carried_noattr) ?_
    intro m pol ⟨hc, hn⟩
    exact data_amp o ho pol m (nm ++ tail) hc hn
  exact Seg.trans sp step1 (seg_ref_read sp L T .data false carried_noattr tail nm v hr)

open H5V.Spec.HtmlEscape in
/-- one character of text (escaped), followed by something -/
theorem seg_text_char (L T) (ho : o.exactErrors = false) (c : Char) (hc : c ≠ '\r' ∧ c ≠ '\x00')
    (tail : Str) (htail : tail ≠ []) :
    Seg sp Idle L T (escChar false c ++ tail) [.chars [c]] tail Idle L ⟨T.name, T.attrs, appendTextF T.cs [c]⟩ := by
  rw [escChar_eq]
  cases hro : refOf false c with
  | none =>
    obtain ⟨h1, h2, _⟩ := refOf_none hro
    refine Seg.char sp L T c coreInv_idle ?_
    intro m pol ⟨hctl, hn⟩
    obtain ⟨m1, he, h3, h4⟩ := data_plain o ho pol m c tail hctl hn ⟨hc.2, hc.1, h1, h2⟩
    exact ⟨m1, he, h3, h4⟩
  | some p =>
    obtain ⟨nm, v⟩ := p
    obtain ⟨hr, hv⟩ := refOf_some hro
    obtain ⟨x, tail', rfl⟩ : ∃ x t, tail = x :: t := by
      cases tail with
      | nil => exact absurd rfl htail
      | cons a b => exact ⟨a, b, rfl⟩
    have s1 := seg_text_ref sp L T ho nm v hr (x :: tail')
    have s2 : Seg sp (PendingRef .data nm v NoAttr) L T (x :: tail') [.chars [c]] (x :: tail') Idle L
        ⟨T.name, T.attrs, appendTextF T.cs [c]⟩ := by
      refine Seg.char sp L T c coreInv_idle ?_
      intro m pol ⟨cr, h1, h2, h3⟩
      have := cr_finish_data o pol m x tail' cr nm v h1 h3 h2 hr.ne hr.semi hr.valid hr.nz (hr.none x)
      rw [hv] at this
      obtain ⟨m1, he, h4, h5⟩ := this
      exact ⟨m1, he, h4, h5⟩
    have := Seg.trans sp s1 s2
    simpa using this

theorem noCRNUL_cons {c : Char} {s : Str} (h : H5V.Spec.HtmlEscape.noCRNUL (c :: s)) :
    (c ≠ '\r' ∧ c ≠ '\x00') ∧ H5V.Spec.HtmlEscape.noCRNUL s :=
  ⟨h c (by simp), fun x hx => h x (by simp [hx])⟩

open H5V.Spec.HtmlEscape in
theorem escChar_ne_nil (attr : Bool) (c : Char) : escChar attr c ≠ [] := by
  rw [escChar_eq]; split <;> simp

open H5V.Spec.HtmlEscape in
/-- a whole text, followed by something: one character token per character -/
theorem seg_text (L) (ho : o.exactErrors = false) (rest : Str) (hrest : rest ≠ []) :
    ∀ (s : Str) (T : Frame), noCRNUL s →
      Seg sp Idle L T (escape false s ++ rest) (s.map (fun c => .chars [c])) rest Idle L
        ⟨T.name, T.attrs, (s.map (fun c => [c])).foldl appendTextF T.cs⟩ := by
  intro s
  induction s with
  | nil => intro T _; exact Seg.refl sp _ L T rest
  | cons c s ih =>
    intro T hs
    obtain ⟨hc, hs'⟩ := noCRNUL_cons hs
    have htail : escape false s ++ rest ≠ [] := by simp [hrest]
    have s1 := seg_text_char sp L T ho c hc (escape false s ++ rest) htail
    have s2 := ih ⟨T.name, T.attrs, appendTextF T.cs [c]⟩ hs'
    have := Seg.trans sp s1 s2
    simpa [escape, List.flatMap_cons] using this

/-! ### attribute values, names -/

abbrev avDq : State := .attributeValue .doubleQuoted

open H5V.Spec.HtmlEscape in
/-- one character of a double-quoted attribute value (escaped); the value is always followed by `"` -/
theorem seg_av_char (L T) (ho : o.exactErrors = false) (k tn as an av) (c : Char) (hc : c ≠ '\r' ∧ c ≠ '\x00')
    (tail : Str) (htail : tail ≠ []) :
    Seg sp (fun m => Ctl m avDq ∧ Regs m k tn as an av) L T (escChar true c ++ tail) [] tail
      (fun m => Ctl m avDq ∧ Regs m k tn as an (av ++ [c])) L T := by
  rw [escChar_eq]
  cases hro : refOf true c with
  | none =>
    obtain ⟨h1, _, h3⟩ := refOf_none hro
    refine Seg.silent sp L T (coreInv_ctl_regs _ _ _ _ _ _) ?_
    intro m pol ⟨hctl, hr⟩
    exact av_plain o ho pol m c tail k tn as an av hctl hr ⟨hc.2, hc.1, h1, h3 rfl⟩
  | some p =>
    obtain ⟨nm, v⟩ := p
    obtain ⟨hr, hv⟩ := refOf_some hro
    obtain ⟨x, tail', rfl⟩ : ∃ x t, tail = x :: t := by
      cases tail with
      | nil => exact absurd rfl htail
      | cons a b => exact ⟨a, b, rfl⟩
    have hx := carried_regs k tn as an av
    have s0 : Seg sp (fun m => Ctl m avDq ∧ Regs m k tn as an av) L T ('&' :: nm ++ x :: tail') [] (nm ++ x :: tail')
        (fun m => CRCtl m avDq { inAttr := true } ∧ Regs m k tn as an av) L T := by
      refine Seg.silent sp L T (coreInv_crctl _ _ hx) ?_
      intro m pol ⟨hctl, hr⟩
      exact av_amp o ho pol m (nm ++ x :: tail') k tn as an av hctl hr
    have s1 := seg_ref_read sp L T avDq true hx (x :: tail') nm v hr
    have s2 : Seg sp (fun m => ∃ cr, CRCtl m avDq cr ∧ CRDone cr nm v ∧ Regs m k tn as an av) L T (x :: tail') []
        (x :: tail') (fun m => Ctl m avDq ∧ Regs m k tn as an (av ++ [c])) L T := by
      refine Seg.silent sp L T (coreInv_ctl_regs _ _ _ _ _ _) ?_
      intro m pol ⟨cr, h1, h2, h3⟩
      have := cr_finish_attr o pol m x tail' cr nm v k tn as an av h1 h3 h2 hr.ne hr.semi hr.valid (hr.none x)
      rw [hv] at this
      exact this
    have := Seg.trans sp (Seg.trans sp s0 s1) s2
    simpa using this

open H5V.Spec.HtmlEscape in
theorem seg_av (L T) (ho : o.exactErrors = false) (k tn as an) (rest : Str) (hrest : rest ≠ []) :
    ∀ (v av : Str), noCRNUL v →
      Seg sp (fun m => Ctl m avDq ∧ Regs m k tn as an av) L T (escape true v ++ rest) [] rest
        (fun m => Ctl m avDq ∧ Regs m k tn as an (av ++ v)) L T := by
  intro v
  induction v with
  | nil => intro av _; simpa [escape] using Seg.refl sp (fun m => Ctl m avDq ∧ Regs m k tn as an av) L T rest
  | cons c v ih =>
    intro av hs
    obtain ⟨hc, hs'⟩ := noCRNUL_cons hs
    have htail : escape true v ++ rest ≠ [] := by simp [hrest]
    have s1 := seg_av_char sp L T ho k tn as an av c hc (escape true v ++ rest) htail
    have s2 := ih (av ++ [c]) hs'
    have := Seg.trans sp s1 s2
    simpa [escape, List.flatMap_cons] using this

/-- the rest of a tag name -/
theorem seg_tagName (L T) (ho : o.exactErrors = false) (k : TagKind) (rest : Str) :
    ∀ (q p : Str), q.all nameCharOk = true →
      Seg sp (fun m => Ctl m .tagName ∧ Regs m k p [] [] []) L T (q ++ rest) [] rest
        (fun m => Ctl m .tagName ∧ Regs m k (p ++ q) [] [] []) L T := by
  intro q
  induction q with
  | nil => intro p _; simpa using Seg.refl sp _ L T rest
  | cons c q ih =>
    intro p hq
    simp only [List.all_cons, Bool.and_eq_true] at hq
    have s1 : Seg sp (fun m => Ctl m .tagName ∧ Regs m k p [] [] []) L T (c :: q ++ rest) [] (q ++ rest)
        (fun m => Ctl m .tagName ∧ Regs m k (p ++ [c]) [] [] []) L T := by
      refine Seg.silent sp L T (coreInv_ctl_regs _ _ _ _ _ _) ?_
      intro m pol ⟨hctl, hr⟩
      exact tagName_char o ho pol m c (q ++ rest) k p hctl hr hq.1
    have := Seg.trans sp s1 (ih (p ++ [c]) hq.2)
    simpa using this

/-- the rest of an attribute name -/
theorem seg_attrName (L T) (ho : o.exactErrors = false) (k tn as av) (rest : Str) :
    ∀ (q p : Str), q.all attrCharOk = true →
      Seg sp (fun m => Ctl m .attributeName ∧ Regs m k tn as p av) L T (q ++ rest) [] rest
        (fun m => Ctl m .attributeName ∧ Regs m k tn as (p ++ q) av) L T := by
  intro q
  induction q with
  | nil => intro p _; simpa using Seg.refl sp _ L T rest
  | cons c q ih =>
    intro p hq
    simp only [List.all_cons, Bool.and_eq_true] at hq
    have s1 : Seg sp (fun m => Ctl m .attributeName ∧ Regs m k tn as p av) L T (c :: q ++ rest) [] (q ++ rest)
        (fun m => Ctl m .attributeName ∧ Regs m k tn as (p ++ [c]) av) L T := by
      refine Seg.silent sp L T (coreInv_ctl_regs _ _ _ _ _ _) ?_
      intro m pol ⟨hctl, hr⟩
      exact attrName_char o ho pol m c (q ++ rest) k tn as p av hctl hr hq.1
    have := Seg.trans sp s1 (ih (p ++ [c]) hq.2)
    simpa using this

/-! ### attributes and tags -/

def mkA (a : Str × Str) : Attr := ⟨a.1, a.2⟩

theorem tokStart_attrs (n : Str) (as : List (Str × Str)) : tokStart n as = ⟨.startTag, n, false, as.map mkA, false⟩ := rfl

theorem attrNameOk_cons {an : Str} (h : attrNameOk an = true) :
    ∃ c q, an = c :: q ∧ attrCharOk c = true ∧ q.all attrCharOk = true := by
  cases an with
  | nil => simp [attrNameOk] at h
  | cons c q =>
    simp only [attrNameOk, Bool.and_eq_true] at h
    exact ⟨c, q, rfl, h.1, h.2⟩

theorem noCRNULb_iff {s : Str} (h : noCRNULb s = true) : H5V.Spec.HtmlEscape.noCRNUL s := by
  intro c hc
  have := List.all_eq_true.mp h c hc
  simp only [Bool.not_eq_true', Bool.or_eq_false_iff, decide_eq_false_iff_not] at this
  exact this

open H5V.Spec.HtmlEscape in
/-- one attribute ` name="value"` from the before-attribute-name state; the previous attribute (if
any) is finished on the way -/
theorem seg_attr_one (L T) (ho : o.exactErrors = false) (k : TagKind) (tn : Str) (done : List Attr) (pn pv : Str)
    (hfresh : FreshAttr done pn) (hpv : pn = [] → pv = []) (an av : Str) (han : attrNameOk an = true)
    (hav : noCRNUL av) (rest : Str) :
    Seg sp (fun m => Ctl m .beforeAttributeName ∧ Regs m k tn done pn pv) L T
      (an ++ ('=' :: '"' :: (escape true av ++ '"' :: rest))) [] rest
      (fun m => Ctl m .afterAttributeValueQuoted ∧ Regs m k tn (withPending done pn pv) an av) L T := by
  obtain ⟨c, q, rfl, hc, hq⟩ := attrNameOk_cons han
  have hv0 : (if pn = [] then pv else []) = ([] : Str) := by
    by_cases h : pn = [] <;> simp [h, hpv]
  let as' := withPending done pn pv
  have s1 : Seg sp (fun m => Ctl m .beforeAttributeName ∧ Regs m k tn done pn pv) L T
      ((c :: q) ++ ('=' :: '"' :: (escape true av ++ '"' :: rest))) [] (q ++ ('=' :: '"' :: (escape true av ++ '"' :: rest)))
      (fun m => Ctl m .attributeName ∧ Regs m k tn as' [c] []) L T := by
    refine Seg.silent sp L T (coreInv_ctl_regs _ _ _ _ _ _) ?_
    intro m pol ⟨hctl, hr⟩
    have := beforeAttr_char o ho pol m c (q ++ ('=' :: '"' :: (escape true av ++ '"' :: rest))) k tn done pn pv hctl hr
      hfresh hc
    rw [hv0] at this
    exact this
  have s2 := seg_attrName sp L T ho k tn as' [] ('=' :: '"' :: (escape true av ++ '"' :: rest)) q [c] hq
  have s3 : Seg sp (fun m => Ctl m .attributeName ∧ Regs m k tn as' ([c] ++ q) []) L T
      ('=' :: '"' :: (escape true av ++ '"' :: rest)) [] ('"' :: (escape true av ++ '"' :: rest))
      (fun m => Ctl m .beforeAttributeValue ∧ Regs m k tn as' ([c] ++ q) []) L T := by
    refine Seg.silent sp L T (coreInv_ctl_regs _ _ _ _ _ _) ?_
    intro m pol ⟨hctl, hr⟩
    exact attrName_eq o ho pol m _ k tn as' _ [] hctl hr
  have s4 : Seg sp (fun m => Ctl m .beforeAttributeValue ∧ Regs m k tn as' ([c] ++ q) []) L T
      ('"' :: (escape true av ++ '"' :: rest)) [] (escape true av ++ '"' :: rest)
      (fun m => Ctl m avDq ∧ Regs m k tn as' ([c] ++ q) []) L T := by
    refine Seg.silent sp L T (coreInv_ctl_regs _ _ _ _ _ _) ?_
    intro m pol ⟨hctl, hr⟩
    exact bav_quote o pol m _ k tn as' _ [] hctl hr
  have s5 := seg_av sp L T ho k tn as' ([c] ++ q) ('"' :: rest) (by simp) av [] hav
  have s6 : Seg sp (fun m => Ctl m avDq ∧ Regs m k tn as' ([c] ++ q) ([] ++ av)) L T
      ('"' :: rest) [] rest
      (fun m => Ctl m .afterAttributeValueQuoted ∧ Regs m k tn as' ([c] ++ q) ([] ++ av)) L T := by
    refine Seg.silent sp L T (coreInv_ctl_regs _ _ _ _ _ _) ?_
    intro m pol ⟨hctl, hr⟩
    exact av_quote o ho pol m _ k tn as' _ _ hctl hr
  have := Seg.trans sp (Seg.trans sp (Seg.trans sp (Seg.trans sp (Seg.trans sp s1 s2) s3) s4) s5) s6
  simpa using this

theorem fresh_of_nodup (d : List (Str × Str)) (pn : Str) (h : ((d.map (·.1)) ++ [pn]).Nodup) :
    FreshAttr (d.map mkA) pn := by
  unfold FreshAttr
  rw [List.any_eq_false]
  intro a ha he
  simp only [List.mem_map] at ha
  obtain ⟨x, hx, rfl⟩ := ha
  have he' : x.1 = pn := by simpa [mkA] using he
  rw [List.nodup_append] at h
  exact h.2.2 x.1 (List.mem_map.mpr ⟨x, hx, rfl⟩) pn (by simp) he'

theorem withPending_snoc (d : List (Str × Str)) (pn pv : Str) (h : pn ≠ []) :
    withPending (d.map mkA) pn pv = (d ++ [(pn, pv)]).map mkA := by
  simp [withPending, h, mkA]

open H5V.Spec.HtmlEscape in
/-- the remaining attributes and the closing `>` of a start tag, after at least one attribute -/
theorem seg_attrs (L T) (ho : o.exactErrors = false) (n : Str) (hn : elemNameOk n = true) (rest : Str) :
    ∀ (as2 d : List (Str × Str)) (pn pv : Str), pn ≠ [] →
      (∀ a ∈ as2, attrNameOk a.1 = true ∧ noCRNUL a.2) →
      ((d ++ [(pn, pv)] ++ as2).map (·.1)).Nodup →
      Seg sp (fun m => Ctl m .afterAttributeValueQuoted ∧ Regs m .startTag n (d.map mkA) pn pv) L T
        (renderAttrs as2 ++ '>' :: rest) [.tag (tokStart n (d ++ [(pn, pv)] ++ as2))] rest
        Idle (L ++ [T]) ⟨n, d ++ [(pn, pv)] ++ as2, []⟩ := by
  intro as2
  induction as2 with
  | nil =>
    intro d pn pv hpn _ hnd
    simp only [renderAttrs, List.flatMap_nil, List.nil_append, List.append_nil]
    refine Seg.startTag sp L T n (d ++ [(pn, pv)]) hn coreInv_idle ?_
    intro m pol ⟨hctl, hr⟩ hpol
    have hf : FreshAttr (d.map mkA) pn := fresh_of_nodup d pn (by simpa using hnd)
    have := tag_close o ho pol m rest _ (Or.inr rfl) .startTag n (d.map mkA) pn pv hctl hr hf
      (fun e => absurd e hpn) (fun e => by cases e)
      (by rw [withPending_snoc d pn pv hpn, ← tokStart_attrs]; exact hpol)
    rw [withPending_snoc d pn pv hpn, ← tokStart_attrs] at this
    obtain ⟨m1, he, h1, h2⟩ := this
    exact ⟨m1, he, h1, h2⟩
  | cons a as2 ih =>
    intro d pn pv hpn hok hnd
    have hf : FreshAttr (d.map mkA) pn := fresh_of_nodup d pn (by
      rw [List.map_append, List.map_append] at hnd
      have := (List.nodup_append.mp hnd).1
      simpa using this)
    obtain ⟨ha1, ha2⟩ := hok a (by simp)
    have hane : a.1 ≠ [] := by
      obtain ⟨c, q, e, _, _⟩ := attrNameOk_cons ha1
      rw [e]; simp
    have s1 : Seg sp (fun m => Ctl m .afterAttributeValueQuoted ∧ Regs m .startTag n (d.map mkA) pn pv) L T
        (' ' :: (a.1 ++ ('=' :: '"' :: (escape true a.2 ++ '"' :: (renderAttrs as2 ++ '>' :: rest))))) []
        (a.1 ++ ('=' :: '"' :: (escape true a.2 ++ '"' :: (renderAttrs as2 ++ '>' :: rest))))
        (fun m => Ctl m .beforeAttributeName ∧ Regs m .startTag n (d.map mkA) pn pv) L T := by
      refine Seg.silent sp L T (coreInv_ctl_regs _ _ _ _ _ _) ?_
      intro m pol ⟨hctl, hr⟩
      exact aavq_space o ho pol m _ .startTag n _ pn pv hctl hr
    have s2 := seg_attr_one sp L T ho .startTag n (d.map mkA) pn pv hf (fun e => absurd e hpn) a.1 a.2 ha1 ha2
      (renderAttrs as2 ++ '>' :: rest)
    rw [withPending_snoc d pn pv hpn] at s2
    have s3 := ih (d ++ [(pn, pv)]) a.1 a.2 hane (fun b hb => hok b (by simp [hb])) (by simpa using hnd)
    have := Seg.trans sp (Seg.trans sp s1 s2) s3
    simpa [renderAttrs, renderAttr, List.flatMap_cons] using this

theorem tagNameOk_cons {n : Str} (h : tagNameOk n = true) :
    ∃ c t, n = c :: t ∧ ('a' ≤ c ∧ c ≤ 'z') ∧ t.all nameCharOk = true := by
  cases n with
  | nil => simp [tagNameOk] at h
  | cons c t =>
    simp only [tagNameOk, Bool.and_eq_true, decide_eq_true_eq] at h
    exact ⟨c, t, rfl, h.1, h.2⟩

theorem attrsOk_facts {as : List (Str × Str)} (h : attrsOk as = true) :
    (∀ a ∈ as, attrNameOk a.1 = true ∧ H5V.Spec.HtmlEscape.noCRNUL a.2) ∧ (as.map (·.1)).Nodup := by
  simp only [attrsOk, Bool.and_eq_true, decide_eq_true_eq, List.all_eq_true] at h
  exact ⟨fun a ha => ⟨(h.1 a ha).1, noCRNULb_iff (h.1 a ha).2⟩, h.2⟩

open H5V.Spec.HtmlEscape in
/-- **a start tag** `<name attr="value"…>` is read back as the tag token it was written from -/
theorem seg_startTag (L T) (ho : o.exactErrors = false) (n : Str) (as : List (Str × Str))
    (hn : elemNameOk n = true) (has : attrsOk as = true) (rest : Str) :
    Seg sp Idle L T (startTagStr n as ++ rest) [.tag (tokStart n as)] rest Idle (L ++ [T]) ⟨n, as, []⟩ := by
  have htn : tagNameOk n = true := elemNameOk_tagName hn
  obtain ⟨c, t, rfl, hc, ht⟩ := tagNameOk_cons htn
  obtain ⟨hok, hnd⟩ := attrsOk_facts has
  let tail : Str := renderAttrs as ++ '>' :: rest
  have s1 : Seg sp Idle L T ('<' :: c :: (t ++ tail)) [] (c :: (t ++ tail))
      (fun m => Ctl m .tagOpen ∧ NoAttr m) L T := by
    refine Seg.silent sp L T (coreInv_ctl_noattr _) ?_
    intro m pol ⟨hctl, hna⟩
    exact data_lt o ho pol m _ hctl hna
  have s2 : Seg sp (fun m => Ctl m .tagOpen ∧ NoAttr m) L T (c :: (t ++ tail)) [] (t ++ tail)
      (fun m => Ctl m .tagName ∧ Regs m .startTag [c] [] [] []) L T := by
    refine Seg.silent sp L T (coreInv_ctl_regs _ _ _ _ _ _) ?_
    intro m pol ⟨hctl, hna⟩
    exact tagOpen_lower o ho pol m c _ hctl hna hc
  have s3 := seg_tagName sp L T ho .startTag tail t [c] ht
  have s4 : Seg sp (fun m => Ctl m .tagName ∧ Regs m .startTag ([c] ++ t) [] [] []) L T tail
      [.tag (tokStart (c :: t) as)] rest Idle (L ++ [T]) ⟨c :: t, as, []⟩ := by
    cases as with
    | nil =>
      show Seg sp _ L T (renderAttrs [] ++ '>' :: rest) _ rest Idle _ _
      simp only [renderAttrs, List.flatMap_nil, List.nil_append]
      refine Seg.startTag sp L T (c :: t) [] hn coreInv_idle ?_
      intro m pol ⟨hctl, hr⟩ hpol
      have := tag_close o ho pol m rest _ (Or.inl rfl) .startTag ([c] ++ t) [] [] [] hctl hr
        (by simp [FreshAttr]) (fun _ => rfl) (fun e => by cases e) (by simpa [withPending, tokStart] using hpol)
      obtain ⟨m1, he, h1, h2⟩ := this
      exact ⟨m1, by simpa [withPending, tokStart] using he, h1, h2⟩
    | cons a as =>
      obtain ⟨ha1, ha2⟩ := hok a (by simp)
      have hane : a.1 ≠ [] := by
        obtain ⟨c', q, e, _, _⟩ := attrNameOk_cons ha1
        rw [e]; simp
      have t1 : Seg sp (fun m => Ctl m .tagName ∧ Regs m .startTag ([c] ++ t) [] [] []) L T
          (' ' :: (a.1 ++ ('=' :: '"' :: (escape true a.2 ++ '"' :: (renderAttrs as ++ '>' :: rest))))) []
          (a.1 ++ ('=' :: '"' :: (escape true a.2 ++ '"' :: (renderAttrs as ++ '>' :: rest))))
          (fun m => Ctl m .beforeAttributeName ∧ Regs m .startTag ([c] ++ t) [] [] []) L T := by
        refine Seg.silent sp L T (coreInv_ctl_regs _ _ _ _ _ _) ?_
        intro m pol ⟨hctl, hr⟩
        exact tagName_space o ho pol m _ .startTag _ hctl hr
      have t2 := seg_attr_one sp L T ho .startTag ([c] ++ t) [] [] [] (by simp [FreshAttr]) (fun _ => rfl) a.1 a.2
        ha1 ha2 (renderAttrs as ++ '>' :: rest)
      have t3 := seg_attrs sp L T ho (c :: t) hn rest as [] a.1 a.2 hane (fun b hb => hok b (by simp [hb]))
        (by simpa using hnd)
      have := Seg.trans sp (Seg.trans sp t1 t2) t3
      simpa [tail, renderAttrs, renderAttr, List.flatMap_cons, withPending] using this
  have := Seg.trans sp (Seg.trans sp (Seg.trans sp s1 s2) s3) s4
  simpa [startTagStr, tail] using this

/-- **an end tag** `</name>` -/
theorem seg_endTag (L) (Pf : Frame) (ho : o.exactErrors = false) (n : Str) (as : List (Str × Str)) (cs : Forest)
    (hn : elemNameOk n = true) (rest : Str) :
    Seg sp Idle (L ++ [Pf]) ⟨n, as, cs⟩ (endTagStr n ++ rest) [.tag (tokEnd n)] rest Idle L
      ⟨Pf.name, Pf.attrs, Pf.cs ++ [.elem n as cs]⟩ := by
  have htn : tagNameOk n = true := elemNameOk_tagName hn
  obtain ⟨c, t, rfl, hc, ht⟩ := tagNameOk_cons htn
  let L' := L ++ [Pf]
  let T' : Frame := ⟨c :: t, as, cs⟩
  have s1 : Seg sp Idle L' T' ('<' :: '/' :: c :: (t ++ '>' :: rest)) [] ('/' :: c :: (t ++ '>' :: rest))
      (fun m => Ctl m .tagOpen ∧ NoAttr m) L' T' := by
    refine Seg.silent sp L' T' (coreInv_ctl_noattr _) ?_
    intro m pol ⟨hctl, hna⟩
    exact data_lt o ho pol m _ hctl hna
  have s2 : Seg sp (fun m => Ctl m .tagOpen ∧ NoAttr m) L' T' ('/' :: c :: (t ++ '>' :: rest)) []
      (c :: (t ++ '>' :: rest)) (fun m => Ctl m .endTagOpen ∧ NoAttr m) L' T' := by
    refine Seg.silent sp L' T' (coreInv_ctl_noattr _) ?_
    intro m pol ⟨hctl, hna⟩
    exact tagOpen_slash o ho pol m _ hctl hna
  have s3 : Seg sp (fun m => Ctl m .endTagOpen ∧ NoAttr m) L' T' (c :: (t ++ '>' :: rest)) [] (t ++ '>' :: rest)
      (fun m => Ctl m .tagName ∧ Regs m .endTag [c] [] [] []) L' T' := by
    refine Seg.silent sp L' T' (coreInv_ctl_regs _ _ _ _ _ _) ?_
    intro m pol ⟨hctl, hna⟩
    exact endTagOpen_lower o ho pol m c _ hctl hna hc
  have s4 := seg_tagName sp L' T' ho .endTag ('>' :: rest) t [c] ht
  have s5 : Seg sp (fun m => Ctl m .tagName ∧ Regs m .endTag ([c] ++ t) [] [] []) (L ++ [Pf]) ⟨c :: t, as, cs⟩
      ('>' :: rest) [.tag (tokEnd (c :: t))] rest Idle L ⟨Pf.name, Pf.attrs, Pf.cs ++ [.elem (c :: t) as cs]⟩ := by
    refine Seg.endTag sp L Pf (c :: t) as cs hn coreInv_idle ?_
    intro m pol ⟨hctl, hr⟩ hpol
    have := tag_close o ho pol m rest _ (Or.inl rfl) .endTag ([c] ++ t) [] [] [] hctl hr
      (by simp [FreshAttr]) (fun _ => rfl) (fun _ => by simp [withPending]) (by simpa [withPending, tokEnd] using hpol)
    obtain ⟨m1, he, h1, h2⟩ := this
    exact ⟨m1, by simpa [withPending, tokEnd] using he, h1, h2⟩
  have := Seg.trans sp (Seg.trans sp (Seg.trans sp (Seg.trans sp s1 s2) s3) s4) s5
  simpa [endTagStr] using this

/-! ### trees -/

def lastNotText (f : Forest) : Prop := ∀ s, f.getLast? ≠ some (.text s)

open H5V.Spec.HtmlEscape in
theorem escape_ne_nil (attr : Bool) {s : Str} (h : s ≠ []) : escape attr s ≠ [] := by
  cases s with
  | nil => exact absurd rfl h
  | cons c t =>
    simp only [escape, List.flatMap_cons, ne_eq, List.append_eq_nil_iff, not_and]
    intro e; exact absurd e (escChar_ne_nil attr c)

theorem render_ne_nil {t : HNode} (h : okNode t = true) : render t ≠ [] := by
  cases t with
  | elem n as ch => simp [render, startTagStr]
  | text s => simp only [render]; exact escape_ne_nil false (okNode_text h)

theorem renderF_ne_nil {f : Forest} (h : okForest f = true) (hne : f ≠ []) : renderF f ≠ [] := by
  cases f with
  | nil => exact absurd rfl hne
  | cons t ts =>
    simp only [okForest, Bool.and_eq_true] at h
    simp only [renderF, ne_eq, List.append_eq_nil_iff, not_and]
    intro e; exact absurd e (render_ne_nil h.1)

theorem flatten_singletons (s : Str) : (s.map (fun c => [c])).flatten = s := (goodSplit_chars s).1

mutual
theorem seg_node (ho : o.exactErrors = false) :
    ∀ (t : HNode) (L : List Frame) (T : Frame) (rest : Str), okNode t = true →
      (t.isText = true → ∀ old, T.cs.getLast? ≠ some (.text old)) → (t.isText = true → rest ≠ []) →
      Seg sp Idle L T (render t ++ rest) (tokTokens1 t) rest Idle L ⟨T.name, T.attrs, T.cs ++ [t]⟩
  | .text s, L, T, rest, hok, hadj, hrest => by
    have hs := okNode_text hok
    have hcn : H5V.Spec.HtmlEscape.noCRNUL s := by
      simp only [okNode, Bool.and_eq_true] at hok
      exact noCRNULb_iff hok.2
    have := seg_text sp L ho rest (hrest rfl) s T hcn
    rw [foldl_appendTextF_new T.cs (s.map (fun c => [c])) (by simpa using hs) (hadj rfl), flatten_singletons] at this
    simpa [render, tokTokens1] using this
  | .elem n as ch, L, T, rest, hok, _, _ => by
    simp only [okNode, Bool.and_eq_true] at hok
    obtain ⟨⟨⟨hn, has⟩, hch⟩, hadj⟩ := hok
    have s1 := seg_startTag sp L T ho n as hn has (renderF ch ++ (endTagStr n ++ rest))
    have s2 := seg_forest ho ch (L ++ [T]) ⟨n, as, []⟩ (endTagStr n ++ rest) hch (by simpa using hadj)
      (Or.inl (by simp [endTagStr]))
    have s3 := seg_endTag sp L T ho n as ([] ++ ch) hn rest
    have := Seg.trans sp (Seg.trans sp s1 s2) s3
    simpa [render, tokTokens1] using this
theorem seg_forest (ho : o.exactErrors = false) :
    ∀ (f : Forest) (L : List Frame) (T : Frame) (rest : Str), okForest f = true →
      noAdjText (T.cs ++ f) = true → (rest ≠ [] ∨ lastNotText f) →
      Seg sp Idle L T (renderF f ++ rest) (tokTokens1F f) rest Idle L ⟨T.name, T.attrs, T.cs ++ f⟩
  | [], L, T, rest, _, _, _ => by
    simpa [renderF, tokTokens1F] using Seg.refl sp Idle L T rest
  | t :: ts, L, T, rest, hok, hadj, hfol => by
    simp only [okForest, Bool.and_eq_true] at hok
    have hrest1 : t.isText = true → renderF ts ++ rest ≠ [] := by
      intro ht
      cases ts with
      | nil =>
        rcases hfol with h | h
        · simpa [renderF] using h
        · cases t with
          | elem _ _ _ => cases ht
          | text s => exact absurd rfl (h s)
      | cons u us =>
        have := renderF_ne_nil hok.2 (by simp)
        simp [this]
    have hfol2 : rest ≠ [] ∨ lastNotText ts := by
      rcases hfol with h | h
      · exact Or.inl h
      · right
        cases ts with
        | nil => intro s; simp
        | cons u us => intro s; have := h s; simpa using this
    have s1 := seg_node ho t L T (renderF ts ++ rest) hok.1 (noAdj_head hadj) hrest1
    have s2 := seg_forest ho ts L ⟨T.name, T.attrs, T.cs ++ [t]⟩ rest hok.2 (by simpa using hadj) hfol2
    have := Seg.trans sp s1 s2
    simpa [renderF, tokTokens1F] using this
end

end H5V.Lemmas.HtmlRT
